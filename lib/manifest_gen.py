#!/usr/bin/env python3
"""Regenerates MANIFEST.json from the table below (kept in one place so the file stays valid)."""
import json, os
ROOT = os.path.dirname(os.path.dirname(os.path.abspath(__file__)))
NOTE = ("Trusted base: Coq 8.16.1 kernel (vm_compute, no native_compute), tools/go2v translator, coq/GoSpec specification files, "
        "the Go harness + /repo/verif_hooks.go (build tag verif), lib/vcheck.py. Details per theorem (Print Assumptions) in the evidence file.")
CHECKS = {
 "C04": dict(
   text="Theorems c04_ops/c04_const/c04_incdec/c04_assign/c04_conv/c04_float/c04_wf and c04_vm_* (how each VM instruction applies them, over the dispatch cases regenerated from do.go), for every operand value with no bound, about operator definitions regenerated from value.go on every run by go2v; right-hand sides are the Go semantics of GoSpec/GoPrim.v. Correspondence: generated model and GoPrim evaluated by vm_compute against the implementation (hook VerifBinOp/VerifAssign/VerifConvert) and against native Go arithmetic; system level: exhaustive 8-bit sweep of script functions in every syntactic position against native Go.",
   note=NOTE + " C04: the use of the operators by do.go (arithmetic/comparison/bit opcodes, INCDEC, LOCALINCDEC, CAST, CONVERT, LOCALSET, GLOBALSET, LOCALADD...) is tied by translation too (c04_vm_*: Gen/Steps_gen.v is regenerated from the exec switch of do.go); the choice of opcode and type operand by the compiler is tied by the system-level sweep.",
   technique="Coq proof over go2v-regenerated operator definitions + vm_compute correspondence + exhaustive differential sweep",
   ref="DESIGN.md section 5 C04"),
 "C05": dict(
   text="Theorems about the binding-power table regenerated from symbol.go by go2v on every run (c05_table: order-isomorphic to Go's five levels, unary above binary and below postfix) and about the Pratt loop transcribed in Model/Pratt.v (soundness and completeness w.r.t. the declarative grouping predicate of GoSpec/GoPrec.v, for token lists of any length). Correspondence: model parser vs real tokenizer+parser tree dumps; system level: grouping vs go/parser and values vs an int32/bool evaluation of the go/parser AST, all operator pairs/triples exhaustively.",
   note=NOTE + " C05: the parser loop is tied by correspondence (hand transcription), the table by translation; text/scanner is not modelled.",
   technique="Coq proof (table by reflection on go2v output, Pratt loop soundness/completeness) + correspondence + differential against go/parser",
   ref="DESIGN.md section 5 C05"),
 "C10": dict(
   text="Theorems c10_refine (lookups see the latest write, zero value + ok=false for missing keys, len), c10_inv (each live key listed exactly once, for every history and every maps.Keys order) and c10_range (Go's range contract under arbitrary mutation in the loop body), for all histories, proved on Model/OMap.v. Correspondence: histories with nested mutation during range through the host Value API, model run by vm_compute; system level: generated scripts over int/string/bool/float/uint8 keys replayed against a native Go map.",
   note=NOTE + " C10: OMap.v is a hand transcription of stringMap/numericMap (tie by correspondence); Go's built-in map and maps.Keys are assumed to be a finite map and a permutation of its keys.",
   technique="Coq proof by invariant + refinement over all operation histories; vm_compute correspondence; differential against native Go maps",
   ref="DESIGN.md section 5 C10"),
 "C08": dict(
   text="Theorem c08_refine: for every well-bracketed sequence of Begin/End/Declare/Resolve (any depth, any order) the flat '~'-renaming symbol table of lookup.go + compiler.Shadow/Begin/End gives exactly the slots of the textbook stack-of-blocks semantics; c08_budget: the recursive shadow/unshadow terminate. Correspondence through hook VerifLookup; system level: generated Go programs redeclaring names at every block kind vs the Go toolchain.",
   note=NOTE + " C08: Lookup.v is a hand transcription (tie by correspondence); which compiler cases call Begin/End/Shadow (if, for, range, switch, func) is covered by the differential programs, not by a theorem; 'variables start fresh each iteration' is covered by the differential only.",
   technique="Coq refinement proof (simulation invariant) over all operation sequences + correspondence + differential against go build",
   ref="DESIGN.md section 5 C08"),
 "C12": dict(
   text="Full functional correctness of the robin-hood table (Model/IntMap.v): representation invariant incl. robin-hood order, Set/Assign/Delete/Get/Len refine a finite map for all keys and all histories, across every growth/shrink threshold; termination of every probing loop (c12_budget). Correspondence: histories on the real intMap (hook VerifIntMap) compared answer by answer and cell by cell; system level: struct programs with 0..200 fields vs the Go toolchain.",
   note=NOTE + " C12: IntMap.v is a hand transcription (tie by correspondence); structT's use of the table (Lookup/Order/Fields/Methods, NEWSTRUCT copying the type's table) is covered by the struct differential, not by a theorem; methods on `type B T` instances are not valid Go and are not checked.",
   technique="Coq proof of a representation invariant and map refinement (1,350 lines) + cell-by-cell correspondence + differential against go build",
   ref="DESIGN.md section 5 C12"),
 "C15": dict(
   text="Theorems c15_terminates, c15_order (the order handed to the compiler lists exactly the reachable packages, once each, dependencies first), c15_cycle (a cycle is an error), c15_acyclic (every acyclic graph loads), for every finite import graph, proved on Model/Loader.v. Correspondence: Load on in-memory trees with marker prints, exact order compared; contract checks for once-only init, _test.go, //go:build, vendor/ and shortened paths, conflicting package clauses.",
   note=NOTE + " C15: Loader.v is a hand transcription of loadImports (tie by correspondence); rawLoadPackage's file selection (Glob, _test filter, constraint evaluation, candidate directories) is checked by the harness contract checks only, not by a theorem.",
   technique="Coq proof (worklist invariant, topological order, cycle extraction by pigeonhole) + exact-order correspondence",
   ref="DESIGN.md section 5 C15"),
 "C16": dict(
   text="Theorems on the sort regenerated-table + Model/TreeSort.v: c16_table (hoisting order of the generated priority table), c16_sort_spec/unique (treeSort is THE stable descending sort), c16_layout_invariant (any permutation of hoistable declarations and any file partition gives the compiler the same non-hoistable sequence and the same declarations level by level), c16_join. Correspondence with the real treeSort (hook); system level: permuted/repartitioned packages must behave identically and as the Go toolchain.",
   note=NOTE + " C16: that declarations of one level commute at run time (GLOBALFUNC/GLOBALSTRUCT/SETMETHOD keyed by interned index) is NOT proved; it is checked by the permutation differential only (c16_full_partial in DESIGN.md).",
   technique="Coq proof of stable-sort uniqueness and layout invariance over the go2v-regenerated table + correspondence + metamorphic/differential runs",
   ref="DESIGN.md section 5 C16"),
 "C02": dict(
   text="Theorem c02_rules: for every rule of the table regenerated from compiler.go doOptimize, every matching window and EVERY frame state, executing the window equals executing the fused instruction (under the rule's explicit guard: numeric slot, int32 constant, 16-bit call operands, sign conditions); c02_optimizer_shape: the optimizer only replaces matched windows; c02_steps_from_source / c02_steps_cover: the step function the rule theorem is about equals, for 45 opcodes, the dispatch cases regenerated from do.go by go2v on every run. The proof found the x - 0 / -0.0 defect (fixed). Correspondence: generic matcher vs real doOptimize (hook), model VM vs real VM on real compiled code (optimizer on/off alternating); system level: optimizer off vs on over every test-table string and generated programs (output, returned values+types, success/failure, error stage and line).",
   note=NOTE + " C02: calls, containers, attributes and iteration opcodes of the step model stay hand-transcribed (tie: run-level correspondence); transparency of the optimizer across jumps (no jump targets the inside of a fused window; block lengths stable under re-optimisation) is NOT proved; covered by the third-pass-identity test and the off/on differential. Error LINE equality is checked by the differential only.",
   technique="Coq proof of per-rule semantic equivalence over the go2v-regenerated rule table and the VM step model + correspondence + off/on differential",
   ref="DESIGN.md section 5 C02"),
 "C11": dict(
   text="Theorems over all histories of slice statements and every growth oracle on Model/Slice.v against the Go slice semantics of GoSpec/GoSlice.v: c11_refine (each operation returns what Go returns, incl. the same panics), c11_alias, c11_append (in place within capacity, fresh array beyond), c11_copy (min of the lengths, overlap-correct), c11_bounds, c11_nil, c11_elemty. Correspondence through the host API and real opcodes (VerifExec) in lock-step on capacities (VerifCap); system level: generated slice programs vs the Go toolchain restricted to growth-policy-independent observations.",
   note=NOTE + " C11: element types restricted to scalar tags in c11_elemty; RANGE/ITER exercised by scripts only. Two open known findings (copy count, nil-ness of s[:] / append(s)).",
   technique="Coq refinement proof to a Go slice-store specification over all histories + lock-step correspondence + differential against go build",
   ref="DESIGN.md section 5 C11"),
 "C13": dict(
   text="Theorems for all byte strings and indices: UTF-8 decoding spec (decode/encode round trip for every scalar value, canonical decoding, range offsets), c13_index (byte with tag uint8, Panic out of range), c13_slice, c13_range (= Go's range), c13_conv ([]byte/string/rune round trips), c13_cmp (bytewise lexicographic strict total order), c13_concat, c13_immutable, c13_copy, c13_lit (glue to strconv). Correspondence on 16 content classes incl. invalid UTF-8 through API, hooks and real opcodes; spec validated against the Go runtime; system level: literal spellings and operations vs the Go toolchain.",
   note=NOTE + " C13: strconv.Unquote/UnquoteChar and text/scanner are Section variables / trusted; one open known finding ([]rune conversions).",
   technique="Coq proofs over byte lists (UTF-8 spec + string operations of the model) + correspondence + differential against go build",
   ref="DESIGN.md section 5 C13"),
 "C14": dict(
   text="Theorems: c14_total (printing is total on every well-formed heap, cycles included; termination by construction: three non-recursive layers), c14_depth_bound (at most two reference levels are dereferenced), c14_scalars, c14_nested (depth <= 2: model = Go's fmt rendering), c14_println, c14_decimal; c14_deep_refuted / c14_nil_refuted document the two open findings with machine-checked witnesses. Correspondence incl. cyclic graphs through the host API; system level vs the Go toolchain with nesting depth recorded per item.",
   note=NOTE + " C14: float rendering is a Section variable shared by spec and model (goatlang calls fmt.Sprint); struct refs are compared with %+v; multi-entry maps excluded (property statement). Open known findings: nesting depth >= 3 elided, nil prints nil.",
   technique="Coq proof (totality, dependency bound, agreement with a Gallina fmt spec on the depth<=2 fragment, refutation witnesses) + correspondence + differential",
   ref="DESIGN.md section 5 C14"),
 "C19": dict(
   text="Theorems: c19_roundtrip / _wide / c19_tags over the constructors and accessors regenerated from value.go; c19_adapter (all six NewFunc forms, every arity, argument list and stack prefix), c19_call (wrong argument count, too few results, truncation, variadic packing), c19_func, c19_method (incl. variadic methods), c19_error (errors surface through nested Func calls), c19_frames. Correspondence: 11k cases through real CALL/CALLVARIADIC/VM.Func incl. natives calling back into scripts; host backing array untouched by VM.Func.",
   note=NOTE + " C19: Model/Call.v is a hand transcription of NewFunc/newMethod/call/callReady/Func (tie by correspondence); btErr's message text is not modelled.",
   technique="Coq proof over go2v-regenerated constructors/accessors and a stack-discipline model of the adapters + correspondence",
   ref="DESIGN.md section 5 C19"),
 "C17": dict(
   text="Theorems on Model/Reload.v for EVERY signature, every family of versions and every history of Load / capture / store / call / identity test, from the empty VM: c17_identity (one function object per declaration for the whole history, bound methods and host-held Values unchanged), c17_latest / c17_latest_call / c17_any_call (every reference taken at any earlier point runs the body of the version loaded last; there are no other function objects), c17_state (variables without initialiser and instances keep their state, initialised variables are reset), c17_idem (reloading unchanged source is observationally a no-op), c17_invariant (the reachable-state invariant the others rest on). Correspondence: histories on one real VM per history with real Load on swapped in-memory file systems; system level: generated package families with native oracles.",
   note=NOTE + " C17: Model/Reload.v is a hand transcription of GLOBALFUNC/GLOBALZERO/GLOBALSET/GLOBALSTRUCT/SETMETHOD + addMethod/syncFields/newMethod (tie by correspondence; the instruction list of every Load is decompiled from the code the real compiler produced); versions differ in bodies only (the property's quantifier). One open known finding (a version that ADDS a field: old instances lack it).",
   technique="Coq proof by invariant over all load/capture/call histories on a model of the top-level instructions + correspondence + differential with native oracles",
   ref="DESIGN.md section 5 C17"),
 "C20": dict(
   text="Theorems: c20_ghost_erase (the ghost call chain of Model/Backtrace.v does not change what Model/VM.v computes), c20_bt_inv / c20_bt_call (for every program, fuel, frame and call depth: when a run fails, the backtrace holds exactly the positions of the active call instructions, innermost first, and a completed call leaves it as it was), c20_error_text, c20_stamp (every compiled instruction carries the position of the node it was compiled from), c20_fuse_pos / c20_fuse_pos_last / c20_fuse_line_static over the rule table regenerated from doOptimize (a fused instruction keeps the last window instruction's position), c20_fuse_same_report (for all rules whose earlier instructions cannot fail, fused and unfused code report the same position on any line layout), c20_fuse_early_loud_rules + c20_fuse_early_failure_refuted (the two remaining rules, with a machine-checked witness). Correspondence: model VM + ghost chain run the real compiled code of fault programs, every backtrace position compared; system level: generated call chains depth 1..30, 29 call positions, every fault kind, optimizer off vs on vs expectation.",
   note=NOTE + " C20: Backtrace.v instruments the hand-transcribed VM model (tie by correspondence); the rule table is regenerated; positions of multi-line expressions: any line of the call expression is accepted against the expectation, the two optimizer modes must agree exactly. One open known finding (failure inside a callback run by a native).",
   technique="Coq proof (backtrace invariant by induction on fuel over the VM model; position theorems by reflection on the go2v-regenerated rule table) + correspondence + differential optimizer on/off",
   ref="DESIGN.md section 5 C20"),
 "C06": dict(
   text="Theorems on a skeleton language (Emit, If with init/else chains, For with all 8 header shapes, Range, tagged and tagless Switch with multi-value cases and default in any position, Break, Continue, Return) with Go's big-step semantics (GoSpec/GoCtl.v, oracle answers any function of the whole history) and a transcription of the compiler's placeholder-and-rewrite code generation + the jump instructions of do.go (Model/Ctl.v): c06_skeleton (for every block, nesting depth, oracle and fuel: the compiled code produces exactly Go's trace and ends with an empty operand stack, or executes RETURN), c06_statement (break/continue reach exactly the rewritten targets), c06_rewrite, c06_wf_no_placeholder, c06_no_fallthrough(_tagged), c06_default_position. Correspondence: compile_ctl vs the real compiler instruction for instruction, abstract machine vs real VM traces, GoCtl vs the Go toolchain; exhaustive enumeration of all skeletons up to 2 (quick) / 3 (thorough) control nodes; system level with the optimizer on.",
   note=NOTE + " C06: Ctl.v is a hand transcription of the control-flow cases of compiler.go and do.go (tie by instruction-for-instruction correspondence); user calls are atomic in the abstract machine (C09); theorems are for unoptimized code (optimized path: C02 + the differential).",
   technique="Coq proof of compiler correctness for the control-flow skeleton (simulation by induction on Go's big-step derivation) + exhaustive small-scope correspondence + differential against go build",
   ref="DESIGN.md section 5 C06"),
 "C07": dict(
   text="A bytecode verifier (Model/StackCheck.v: per-opcode pops/pushes/successors, one operand-stack depth per pc, jump targets inside the function with equal depth, slot and global operands in range, exit depth = declared results, FUNC bodies checked recursively in their own frame), evaluated by vm_compute on the code the real compiler produced for every program of the run, and its soundness theorems over the VM model for ALL accepted code, fuel and states: c07_sound (execution is never stuck on an operand, slot, global or code-shape access, in the current or any callee frame), c07_depth (a finished frame has its slot count, the operand depth the verifier computed at the exit taken, and the declared number of results), c07_run (a program of statements leaves an empty stack), c07_frame (a call returns exactly the requested results on top of the caller's untouched operands), c07_init. Correspondence: checker verdicts vs an independent Go mirror, 98 code mutants rejected; system level: generated programs and statement snippets leave no residual values through VM.Eval and agree with the Go toolchain.",
   note=NOTE + " C07: universality over programs = every code list the checker accepts; that the compiler's output is accepted is established per program of the run (generated programs + all test-table inputs), not as a theorem about compile. The split-frame model refining the real flat stack is tied by run-level correspondence. Opcodes outside Model/VM.v (NEWMAP, GETOK, DELETE, STRUCT, GLOBALSTRUCT, NEWSTRUCT, SETMETHOD) have hand-read effects.",
   technique="Coq proof of soundness of a bytecode verifier (type-safety style preservation over the VM step model, mutual induction on fuel for calls) + verifier run by vm_compute on real compiler output + differential",
   ref="DESIGN.md section 5 C07"),
 "C09": dict(
   text="Theorems over the call part of Model/VM.v (call_fn / exec mutual fixpoint), for every function object, argument list, caller operand stack `lo`, heap, fuel and oracle: c09_call (slots = arguments assigned the declared parameter types in order then nil locals; the callee starts on an empty operand stack; the first xRets results, assigned the declared result types, land on the untouched `lo`; wrong argument count = 'incorrect args' without running the body; too few results = 'incorrect returns'; a successful call is always results ++ lo with exactly xRets results), c09_param_types (untyped constants and nil arrive converted, via the C04 theorems), c09_variadic (surplus packed into one new slice of the declared element type in order; spread passed through unchanged; too few = error), c09_depth (frame independence: running on ops ++ lo = running on ops with lo carried underneath, for every opcode, by induction on fuel -- hence any recursion depth), c09_func_wf, c09_method (receiver binding incl. method values taken earlier, on Model/Call.v). Correspondence: 875 (quick) / 10k (thorough) cases through VM.Call / VM.Func / VerifExec incl. recursion depth 400; system level: ~320 call sites per generated program vs the Go toolchain.",
   note=NOTE + " C09: call_fn is a hand transcription of call/callReady/mkFunc (tie by correspondence); methods are proved on Model/Call.v (C19's model) because Model/VM.v has no struct objects. Seven open known findings (named constants lose untyped-ness, untyped float constants to int parameters, zero-surplus variadic is non-nil, nil receivers, f(g()) multi-value forwarding (2), callee evaluated after its arguments).",
   technique="Coq proof over the VM call model (frame-independence by induction on fuel over the exec/call_fn mutual fixpoint, typing of parameters/results via the C04 theorems) + correspondence + differential against go build",
   ref="DESIGN.md section 5 C09"),
 "C01": dict(
   text="C01 is claimed as the composition of the facet properties (each with its own theorems) plus a whole-program differential against the Go toolchain; the end-to-end part that is closed as a theorem is c01_expr_partial / c01_expr_eval: for every token list, variable assignment and operand value, goatlang's parse (generated table), opcode choice (generated infixMap) and operator implementations (generated from value.go) give Go's grouping and Go's int32 value. Correspondence: expression model vs implementation and vs real Go; model VM vs real VM on real compiled code; system level: generated programs of four profiles incl. multi-package layouts vs `go build`.",
   note=NOTE + " C01: no formal semantics of Go is available offline, so there is no single end-to-end theorem over whole programs (named _partial); statements, calls, containers, strings, printing, scoping and packages are decided by C02-C20; 'as the Go toolchain' in the differential means go1.23 on the same source with int := int32; fmt.Print/Sprint with several operands are outside (property statement).",
   technique="Coq proof composing the C05 and C04 theorems over go2v-regenerated tables and operators + correspondence + differential against go build",
   ref="DESIGN.md section 5 C01"),
}
NOT_APPLICABLE = []
def main():
    props = [json.loads(l)["id"] for l in open(os.path.join(ROOT, "properties.jsonl"))]
    checks = []
    for pid in props:
        if pid not in CHECKS:
            continue
        c = CHECKS[pid]
        checks.append({"property_id": pid, "quick_cmd": "bin/check %s quick" % pid, "thorough_cmd": "bin/check %s thorough" % pid,
                       "evidence_file": "/verif/evidence/%s.json" % pid, "replay_cmd_template": "bin/check %s --replay {path}" % pid,
                       "engine": "coq-model", "level_claimed": {"category": "proof", "text": c["text"], "design_ref": c["ref"]},
                       "level_note": c["note"], "technique": c["technique"]})
    na = [x for x in NOT_APPLICABLE]
    for pid in props:
        if pid not in CHECKS and pid not in [x["property_id"] for x in na]:
            na.append({"property_id": pid, "reason": "not yet claimed: machinery for this property is still being built (see DESIGN.md build order); no technical obstacle"})
    m = {"version": 1, "setup_cmd": "bin/check --setup",
         "hooks": {"guard": "verif", "enable": "go build -tags verif (harness/go.mod replaces github.com/philhassey/goatlang => /repo)",
                   "baseline_off_cmd": "cd /repo && GOFLAGS=-mod=mod go test -vet=off -count=1 ./...",
                   "source_commits": ["99a36f0"], "add_only": True},
         "engines": [{"name": "coq-model", "path": "coq/", "serves_properties": sorted(CHECKS), "kind_free_text": "Coq 8.16 development: GoSpec (Go semantics), Gen (regenerated from /repo by tools/go2v), Model (hand transcription), Proofs, Props"},
                     {"name": "go2v", "path": "tools/go2v/", "serves_properties": sorted(CHECKS), "kind_free_text": "Go->Gallina translator run on every check"},
                     {"name": "harness", "path": "harness/", "serves_properties": sorted(CHECKS), "kind_free_text": "Go correspondence/differential driver built against /repo with -tags verif"}],
         "checks": checks, "not_applicable": na,
         "notes": "All checks share bin/check; prepare (translator, harness, Coq make) is cached by a hash of /repo sources and /verif sources."}
    json.dump(m, open(os.path.join(ROOT, "MANIFEST.json"), "w"), indent=1)
if __name__ == "__main__":
    main()
