"""Shared driver for /verif checks: prepare (translator + harness + Coq build),
proof-obligation status, Coq case evaluation, known findings, evidence."""
import fcntl
import glob
import hashlib
import json
import os
import re
import shutil
import subprocess
import sys
import time
from concurrent.futures import ThreadPoolExecutor

ROOT = os.path.dirname(os.path.dirname(os.path.abspath(__file__)))
REPO = os.environ.get("VERIF_REPO", "/repo")
BUILD = os.path.join(ROOT, "build")
COQ = os.path.join(ROOT, "coq")
CASES = os.path.join(COQ, "Cases")
HARNESS = os.path.join(BUILD, "harness")
GO2V = os.path.join(BUILD, "go2v")

GOENV = dict(os.environ, GOFLAGS="-mod=mod", GOPROXY="off", GOSUMDB="off", GOTOOLCHAIN="local",
             CGO_ENABLED="0", GOCACHE=os.environ.get("GOCACHE", os.path.join(BUILD, "gocache")))

FORBIDDEN = re.compile(r"\b(Admitted|admit|Axiom|Axioms|Parameter|Parameters|Conjecture|Hypothesis|Variable|Variables|Hypotheses)\b|Unset Guard|bypass_check|Admit Obligations|type-in-type|impredicative-set|native_compute")

WITNESS = {
    "C01": ["Witness/NV_C01.v"], "C05": ["Witness/NV_C01.v"], "C08": ["Witness/NV_C01.v"], "C03": ["Witness/NV_C03.v"],
    "C04": ["Witness/NV_C04.v"], "C06": ["Witness/NV_C06.v"], "C07": ["Witness/NV_C07C02.v"], "C02": ["Witness/NV_C07C02.v"],
    "C11": ["Witness/NV_C11.v"], "C12": ["Witness/NV_C12.v"], "C13": ["Witness/NV_C13.v"], "C14": ["Witness/NV_C14C10.v"],
    "C10": ["Witness/NV_C14C10.v"], "C15": ["Witness/NV_C15.v"], "C16": ["Witness/NV_C16.v"], "C17": ["Witness/NV_C17.v"],
    "C19": ["Witness/NV_C19.v"], "C20": ["Witness/NV_C20.v"],
}

TRUSTED_BASE = [
    "Coq 8.16.1 kernel (coqc, vm_compute; no native_compute); coqchk in the thorough tier",
    "tools/go2v (Go->Gallina translator for value.go operators, constant/opcode/Lbp/priority/peephole tables)",
    "coq/GoSpec/*.v: hand-written specification of Go's operators (validated against the Go toolchain by harness 'prim' cases)",
    "harness/ (Go, -tags verif) correspondence driver and generators; /repo/verif_hooks.go",
    "lib/vcheck.py driver, known_findings.json matcher",
]


def sh(cmd, cwd=None, env=None, timeout=None, inp=None):
    p = subprocess.run(cmd, cwd=cwd, env=env, timeout=timeout, input=inp, stdout=subprocess.PIPE,
                       stderr=subprocess.STDOUT, text=True, errors="replace")
    return p.returncode, p.stdout


def _hash_files(paths):
    h = hashlib.sha256()
    for p in sorted(paths):
        h.update(p.encode())
        try:
            with open(p, "rb") as f:
                h.update(f.read())
        except OSError:
            h.update(b"<missing>")
    return h.hexdigest()


def repo_sources():
    res = []
    for pat in ("*.go", "go.mod", "go.sum", "cli/*.go", "main/*.go"):
        res += glob.glob(os.path.join(REPO, pat))
    return [p for p in res if not p.endswith("_test.go")]


def verif_sources():
    res = glob.glob(os.path.join(ROOT, "tools/go2v/*.go")) + glob.glob(os.path.join(ROOT, "harness/*.go"))
    res += glob.glob(os.path.join(ROOT, "harness/go.mod")) + [os.path.join(COQ, "_CoqProject")]
    for d in ("GoSpec", "Model", "Proofs", "Props"):
        res += glob.glob(os.path.join(COQ, d, "*.v"))
    return res


def coq_files():
    files = []
    for d in ("GoSpec", "Gen", "Model", "Proofs", "Props", "Witness"):
        files += sorted(glob.glob(os.path.join(COQ, d, "*.v")))
    return [os.path.relpath(f, COQ) for f in files]


def prepare(force=False, log=print):
    """Rebuild everything that depends on /repo's working tree.  Returns the
    stamp dict (also stored in build/stamp.json)."""
    os.makedirs(BUILD, exist_ok=True)
    os.makedirs(CASES, exist_ok=True)
    lock = open(os.path.join(BUILD, ".lock"), "w")
    fcntl.flock(lock, fcntl.LOCK_EX)
    try:
        key = _hash_files(repo_sources() + verif_sources())
        stamp_path = os.path.join(BUILD, "stamp.json")
        if not force and os.path.exists(stamp_path):
            try:
                st = json.load(open(stamp_path))
                if st.get("key") == key and os.path.exists(HARNESS):
                    return st
            except Exception:
                pass
        t0 = time.time()
        st = {"key": key, "repo_hash": _hash_files(repo_sources()), "errors": {}}
        # 1. translator
        rc, out = sh(["go", "build", "-o", GO2V, "."], cwd=os.path.join(ROOT, "tools/go2v"), env=GOENV, timeout=600)
        if rc != 0:
            st["errors"]["go2v_build"] = out[-4000:]
        else:
            gen = os.path.join(COQ, "Gen")
            os.makedirs(gen, exist_ok=True)
            rc, out = sh([GO2V, "-repo", REPO, "-out", gen], env=GOENV, timeout=120)
            st["go2v_output"] = out[-4000:]
            if rc != 0:
                st["errors"]["go2v"] = out[-4000:]
        # 2. harness against the working tree
        hd = os.path.join(ROOT, "harness")
        try:
            shutil.copy(os.path.join(REPO, "go.sum"), os.path.join(hd, "go.sum"))
        except OSError:
            pass
        rc, out = sh(["go", "build", "-tags", "verif", "-o", HARNESS, "."], cwd=hd, env=GOENV, timeout=900)
        if rc != 0:
            st["errors"]["harness_build"] = out[-6000:]
            try:
                os.remove(HARNESS)
            except OSError:
                pass
        # 3. Coq project
        files = coq_files()
        proj = open(os.path.join(COQ, "_CoqProject")).read().split("\n")
        head = [l for l in proj if l.startswith("-")]
        want = "\n".join(head + files) + "\n"
        if want != "\n".join(proj):
            open(os.path.join(COQ, "_CoqProject"), "w").write(want)
        rc, out = sh(["coq_makefile", "-f", "_CoqProject", "-o", "Makefile"], cwd=COQ, timeout=120)
        if rc != 0:
            st["errors"]["coq_makefile"] = out[-2000:]
        rc, out = sh(["make", "-k", "-j16"], cwd=COQ, timeout=3000, env=dict(os.environ, TIMED="0"))
        open(os.path.join(BUILD, "make.log"), "w").write(out)
        st["make_rc"] = rc
        st["vo"] = sorted(f[:-2] + ".vo" for f in files if os.path.exists(os.path.join(COQ, f[:-2] + ".vo"))
                          and os.path.getmtime(os.path.join(COQ, f[:-2] + ".vo")) >= os.path.getmtime(os.path.join(COQ, f)))
        st["vo_missing"] = sorted(f[:-2] + ".vo" for f in files if (f[:-2] + ".vo") not in st["vo"])
        # a file that no longer compiles must not leave its OLD .vo behind: a property file compiled afterwards
        # would silently be checked against the previous version of the (regenerated) definitions.  The same holds
        # for everything that depends on it (make -k does not rebuild dependants of a failed target): the
        # dependency graph is read from coqdep's output and the failure is propagated.
        bad = set(st["vo_missing"]) | set(re.findall(r"\*\*\* \[Makefile[^\]]*?: ([^\]\s]+\.vo)\] Error", out))
        deps = {}
        try:
            for line in open(os.path.join(COQ, ".Makefile.d")):
                m = re.match(r"(\S+\.vo) .*?: (.*)", line)
                if m:
                    deps[m.group(1)] = [d for d in m.group(2).split() if d.endswith(".vo")]
        except OSError:
            pass
        changed = True
        while changed:
            changed = False
            for t, ds in deps.items():
                if t not in bad and any(d in bad for d in ds):
                    bad.add(t)
                    changed = True
        st["vo_missing"] = sorted(bad)
        st["vo"] = [v for v in st["vo"] if v not in bad]
        for f in st["vo_missing"]:
            for ext in (".vo", ".vos", ".vok", ".glob"):
                try:
                    os.remove(os.path.join(COQ, f[:-3] + ext))
                except OSError:
                    pass
        if rc != 0:
            errs = re.findall(r'File "\./([^"]+)", line (\d+)[^\n]*\n(?:[^\n]*\n){0,6}', out)
            st["errors"]["coq"] = out[-6000:]
            st["coq_failed_files"] = sorted(set(e[0] for e in errs))
        st["prepare_s"] = round(time.time() - t0, 1)
        json.dump(st, open(stamp_path, "w"), indent=1)
        return st
    finally:
        fcntl.flock(lock, fcntl.LOCK_UN)
        lock.close()


def forbidden_scan():
    bad = []
    for f in coq_files():
        if f.startswith("Cases/"):
            continue
        txt = open(os.path.join(COQ, f)).read()
        # strip comments (non-nested is enough for our files; nested handled by loop)
        prev = None
        while prev != txt:
            prev = txt
            txt = re.sub(r"\(\*(?:(?!\(\*|\*\)).)*\*\)", " ", txt, flags=re.S)
        # Section-local Variable/Hypothesis are allowed: check they are inside a Section
        depth = 0
        for ln, line in enumerate(txt.split("\n"), 1):
            if re.match(r"\s*Section\b", line):
                depth += 1
            if re.match(r"\s*End\b", line) and depth > 0:
                depth -= 1
            m = FORBIDDEN.search(line)
            if m:
                tok = m.group(0)
                if tok in ("Variable", "Variables", "Hypothesis", "Hypotheses") and depth > 0:
                    continue
                bad.append("%s:%d: %s" % (f, ln, tok))
    return bad


def check_props(pid, props_files, stamp):
    """Re-compile the Props files (cheap: they only contain `exact lemma`) to
    get fresh Print Assumptions output.  Returns dict with obligations etc."""
    res = {"theorems": [], "obligations": 0, "discharged": 0, "errors": []}
    for pf in props_files:
        path = os.path.join(COQ, pf)
        if not os.path.exists(path):
            res["errors"].append("missing " + pf)
            continue
        src = open(path).read()
        names = re.findall(r"^\s*(?:Theorem|Lemma|Corollary)\s+(\w+)", src, flags=re.M)
        res["obligations"] += len(names)
        rc, out = sh(["coqc", "-Q", ".", "GV", pf], cwd=COQ, timeout=900)
        if rc != 0:
            res["errors"].append("%s does not check: %s" % (pf, out[-1500:]))
            # which dependency failed?
            continue
        # Print Assumptions blocks appear in order
        blocks = re.split(r"(?=Closed under the global context|Axioms:)", out)
        blocks = [b.strip() for b in blocks if b.strip().startswith(("Closed", "Axioms:"))]
        for i, n in enumerate(names):
            a = blocks[i] if i < len(blocks) else "(no Print Assumptions output)"
            res["theorems"].append({"name": n, "file": pf, "assumptions": " ".join(a.split())[:600]})
        res["discharged"] += len(names)
    return res


def run_case_files(files, timeout=900):
    """coqc each harness-written case file; returns (n_ok_files, mismatches list, errors)."""
    mism, errors = [], []

    def one(f):
        rc, out = sh(["coqc", "-Q", COQ, "GV", f], cwd=os.path.dirname(f), timeout=timeout)
        return f, rc, out
    with ThreadPoolExecutor(max_workers=14) as ex:
        for f, rc, out in ex.map(one, files):
            if rc != 0:
                errors.append("%s: %s" % (os.path.basename(f), out[-800:]))
                continue
            flat = " ".join(out.split())
            m = re.search(r"mism = (.*?) : list", flat)
            if not m:
                errors.append("%s: unparsable output %s" % (os.path.basename(f), flat[:300]))
                continue
            body = m.group(1).strip()
            if body not in ("[]", "nil"):
                idx = [int(x) for x in re.findall(r"-?\d+", body)]
                mism.append((f, idx))
    for f in files:
        for ext in (".vo", ".vok", ".vos", ".glob"):
            try:
                os.remove(f[:-2] + ext)
            except OSError:
                pass
        try:
            os.remove(os.path.join(os.path.dirname(f), "." + os.path.basename(f)[:-2] + ".aux"))
        except OSError:
            pass
    return mism, errors


def case_text(path, idx, base_re=r"in \w+ (\d+) cases"):
    """Return the text of case number idx (global index) from a case file."""
    txt = open(path).read()
    m = re.search(base_re, txt)
    base = int(m.group(1)) if m else 0
    body = txt[txt.index("Definition cases := [") + len("Definition cases := ["):txt.index("\n].")]
    items = body.strip().split(";\n")
    k = idx - base
    return items[k].strip() if 0 <= k < len(items) else "?"


def harness(args, timeout=3000):
    if not os.path.exists(HARNESS):
        return 127, "harness binary missing"
    return sh([HARNESS] + args, timeout=timeout, env=GOENV)


# ---- known findings ---------------------------------------------------------

def load_findings(pid):
    try:
        data = json.load(open(os.path.join(ROOT, "known_findings.json")))
    except Exception:
        return []
    return [f for f in data.get("findings", []) if f.get("property") == pid and f.get("status") == "open"]


def match_finding(findings, rec):
    """rec: dict describing a failing input.  A finding matches when every key of
    its 'match' dict equals (or regex-matches, for keys ending in _re) the record."""
    for f in findings:
        ok = True
        for k, v in f.get("match", {}).items():
            if k.endswith("_re"):
                if not re.search(v, str(rec.get(k[:-3], ""))):
                    ok = False
            elif rec.get(k) != v:
                ok = False
        if ok:
            return f
    return None


# ---- result assembly ----------------------------------------------------------

class Check:
    def __init__(self, pid, tier, seed):
        self.pid, self.tier, self.seed = pid, tier, seed
        self.t0 = time.time()
        self.violations = []      # (replay_path, no_input_found: bool)
        self.known = []
        self.coverage = {"obligations": 0, "discharged": 0, "checker_cmd": "", "trusted_base": list(TRUSTED_BASE),
                         "theorems": [], "correspondence": {}, "system_level": {}, "samples": []}
        self.assumptions = []
        self.broken = []          # names of proof obligations / correspondences that no longer check
        self.failing_inputs = []  # records of concrete failing inputs (not matched by known findings)
        self.findings = load_findings(pid)
        os.makedirs(os.path.join(ROOT, "replays"), exist_ok=True)
        os.makedirs(os.path.join(ROOT, "evidence"), exist_ok=True)

    def add_broken(self, what, detail=""):
        self.broken.append({"what": what, "detail": detail[-3000:]})

    def failing_input(self, rec):
        """A concrete input on which the implementation violates the property."""
        f = match_finding(self.findings, rec)
        if f:
            if f["id"] not in [k["id"] for k in self.known]:
                self.known.append(f)
            return
        self.failing_inputs.append(rec)

    def finish(self):
        pid = self.pid
        out_lines = []
        for f in self.known:
            out_lines.append("KNOWN-FINDING: property=%s %s" % (pid, f.get("what", f["id"])))
        rc = 0
        if self.failing_inputs:
            h = hashlib.sha256(json.dumps(self.failing_inputs[0], sort_keys=True, default=str).encode()).hexdigest()[:12]
            path = os.path.join(ROOT, "replays", "%s-%s.json" % (pid, h))
            json.dump({"property": pid, "failing_inputs": self.failing_inputs[:20], "broken": self.broken,
                       "note": "first entry is the replay; run bin/check %s --replay <this file>" % pid},
                      open(path, "w"), indent=1, default=str)
            out_lines.append("VIOLATION property=%s replay=%s" % (pid, path))
            rc = 1
        elif self.broken:
            h = hashlib.sha256(json.dumps(self.broken, sort_keys=True, default=str).encode()).hexdigest()[:12]
            path = os.path.join(ROOT, "replays", "%s-unproved-%s.json" % (pid, h))
            json.dump({"property": pid, "broken": self.broken,
                       "note": "a proof obligation or correspondence no longer checks; the failing-input search found no input on which the implementation violates the property"},
                      open(path, "w"), indent=1, default=str)
            out_lines.append("VIOLATION property=%s replay=%s no-failing-input-found" % (pid, path))
            rc = 1
        cov = self.coverage
        cov["broken"] = self.broken
        cov["known_findings_seen"] = [f["id"] for f in self.known]
        if not cov["samples"]:
            cov["samples"] = [t["name"] for t in cov["theorems"]][:5] or ["(none)"]
        ev = {"property_id": pid, "tier": self.tier, "seed": self.seed, "level": "proof", "coverage": cov,
              "assumptions": self.assumptions, "wall_s": round(time.time() - self.t0, 2),
              "violations": len(self.failing_inputs) + (1 if (self.broken and not self.failing_inputs) else 0)}
        json.dump(ev, open(os.path.join(ROOT, "evidence", pid + ".json"), "w"), indent=1, default=str)
        for l in out_lines:
            print(l)
        print("%s %s: obligations %d/%d, broken %d, failing inputs %d, known findings %d, %.1fs" % (
            pid, self.tier, cov["discharged"], cov["obligations"], len(self.broken), len(self.failing_inputs), len(self.known), time.time() - self.t0))
        return rc


def standard_proof_stage(chk, props_files, deps_note=""):
    """prepare + proof obligations; fills coverage; returns stamp."""
    st = prepare()
    chk.coverage["checker_cmd"] = "coq_makefile -f _CoqProject && make -k -j16 (full .vo build) ; coqc -Q . GV " + " ".join(props_files)
    chk.coverage["gen_inputs_hash"] = st.get("repo_hash")
    for k, v in st.get("errors", {}).items():
        if k in ("go2v", "go2v_build"):
            chk.add_broken("translator go2v failed on the current source (Gen/*.v not regenerated)", v)
        elif k == "harness_build":
            chk.add_broken("harness does not build against the current tree (correspondence cannot run)", v)
    bad = forbidden_scan()
    if bad:
        chk.add_broken("forbidden command in Coq development", "\n".join(bad))
    pr = check_props(chk.pid, props_files, st)
    chk.coverage["obligations"] = pr["obligations"]
    chk.coverage["discharged"] = pr["discharged"]
    chk.coverage["theorems"] = pr["theorems"]
    if chk.tier == "thorough" and not pr["errors"]:
        # independent re-check of the compiled theorems and everything they depend on
        mods = ["GV." + f[:-2].replace("/", ".") for f in props_files]
        try:
            rc, out = sh(["coqchk", "-silent", "-o", "-Q", ".", "GV"] + mods, cwd=COQ, timeout=2400)
        except subprocess.TimeoutExpired:
            rc, out = 124, "coqchk timed out"
        summary = out[out.find("CONTEXT SUMMARY"):] if "CONTEXT SUMMARY" in out else out[-1500:]
        chk.coverage["coqchk"] = {"exit": rc, "summary": " ".join(summary.split())[:1500]}
        if rc != 0:
            chk.add_broken("coqchk rejects " + " ".join(mods), out[-2000:])
    # non-vacuity witnesses (coq/Witness/NV_*.v): every premise set of the property theorems is instantiated by a
    # concrete non-trivial instance and the theorem applied to it; compiled by the full make, must be fresh
    wit = [w for w in WITNESS.get(chk.pid, []) if os.path.exists(os.path.join(COQ, w))]
    chk.coverage["nonvacuity_witness_files"] = wit
    for w in wit:
        if w[:-2] + ".vo" not in st.get("vo", []):
            tail = ""
            if "coq" in st.get("errors", {}):
                tail = "\n--- make log tail ---\n" + st["errors"]["coq"][-2500:]
            chk.add_broken("non-vacuity witness file does not check: " + w, "the premises of the property theorems are no longer shown satisfiable by the recorded instances" + tail)
    for e in pr["errors"]:
        detail = e
        if "coq" in st.get("errors", {}):
            detail += "\n--- make log tail ---\n" + st["errors"]["coq"][-2500:]
        chk.add_broken("proof obligation: " + e.split(":")[0], detail)
    return st


def generic_run(chk, props, corr=(), system=(), assumptions=()):
    """corr: list of dicts {name, cmd: [harness args], stats: file, n_quick, n_thorough}
       system: list of dicts {name, cmd, stats, n_quick, n_thorough, what}"""
    st = standard_proof_stage(chk, props)
    chk.assumptions += list(assumptions)
    thorough = chk.tier == "thorough"
    out = os.path.join(CASES, chk.pid)
    os.makedirs(out, exist_ok=True)
    for f in os.listdir(out):
        os.remove(os.path.join(out, f))
    if "harness_build" in st.get("errors", {}):
        return
    for c in corr:
        n = c.get("n_thorough", 2000) if thorough else c.get("n_quick", 300)
        rc, o = harness([c["cmd"], "-seed", str(chk.seed), "-n", str(n), "-out", out] + (["-thorough"] if thorough else []))
        if rc != 0:
            chk.add_broken("correspondence %s: harness failed" % c["name"], o)
            continue
        stats = json.load(open(os.path.join(out, c["stats"])))
        files = stats["extra"]["files"]
        mism, errs = run_case_files(files)
        # negative indices = cases the model cannot compare (outside the modelled fragment / out of fuel)
        skipped = sum(1 for m in mism for i in m[1] if i < 0)
        mism = [(f, [i for i in idx if i >= 0]) for f, idx in mism]
        mism = [m for m in mism if m[1]]
        chk.coverage["correspondence"][c["name"]] = {"cases": stats["cases"], "distinct": stats["distinct"], "not_comparable": skipped,
                                                      "histogram": stats["histogram"], "disagreements": sum(len(m[1]) for m in mism)}
        chk.coverage["samples"] += stats["samples"][:4]
        for e in errs:
            chk.add_broken("correspondence %s: case file does not evaluate" % c["name"], e)
        for f, idx in mism:
            for i in idx[:3]:
                chk.add_broken("correspondence %s: model and implementation disagree" % c["name"], case_text(f, i)[:3000])
        for m in stats.get("mismatches", []):
            chk.failing_input(m)
    for s in system:
        n = s.get("n_thorough", 5000) if thorough else s.get("n_quick", 600)
        rc, o = harness([s["cmd"], "-seed", str(chk.seed), "-n", str(n), "-out", out] + (["-thorough"] if thorough else []))
        if rc != 0:
            chk.add_broken("system-level %s: harness failed" % s["name"], o)
            continue
        stats = json.load(open(os.path.join(out, s["stats"])))
        chk.coverage["system_level"][s["name"]] = {"what": s.get("what", ""), "cases": stats["cases"], "distinct": stats["distinct"],
                                                   "histogram": stats["histogram"], "mismatches": stats["mismatch_count"], "extra": {k: v for k, v in stats.get("extra", {}).items() if k != "files"}}
        chk.coverage["samples"] += stats["samples"][:4]
        for m in stats["mismatches"]:
            chk.failing_input(m)
    for f in os.listdir(out):
        if f.endswith(".v"):
            os.remove(os.path.join(out, f))


def generic_replay(path):
    data = json.load(open(path))
    for rec in data.get("failing_inputs", [])[:5]:
        print(json.dumps(rec)[:4000])
    for b in data.get("broken", [])[:5]:
        print(json.dumps(b)[:2000])
    return 0
