package main

import (
	"bytes"
	"fmt"
	"go/ast"
	"go/printer"
	"go/token"
	"sort"
	"strings"
)

// steps.go: translation of the simple cases of do.go's exec loop into Gallina
// (Gen/Steps_gen.v).  A case is translated by symbolic execution of its statement
// list over the operand stack:
//
//	v.stack[len(v.stack)-k]            -> the k-th operand from the top
//	v.stack = v.stack[:len(v.stack)-k] -> pop k
//	v.stack = append(v.stack, e)       -> push e
//	v.stack[len(v.stack)-k] = e        -> replace the k-th operand from the top
//	v.stack[baseN+int(i.A)]            -> local slot A (read or written)
//	v.globals.Read/Assign/Write        -> the global store
//	v.frame.N += int(i.A)              -> relative jump
//
// A case that uses anything else is left untranslated and listed.

type symState struct {
	cur    []string // pushed/replaced cells, top first
	base   int      // how many of the original operands have been consumed
	need   *int     // deepest original operand referred to (shared between branches)
	slots  string   // current slots term
	st     string   // current state term
	jump   string   // non-empty: relative jump distance term
	ret    bool
	env    map[string]string // Go local variable -> Coq term
	envT   map[string]goType
	wraps  *[]string // continuation wrappers (binds), outermost first
	nfresh *int
	tr     *stepTrans
	obj    *bool // the case calls Value.Get / Value.Set (goes to step_gen_obj)
}

type stepTrans struct {
	vt     *vtrans // for partiality of value methods
	failed string
}

func (sx *symState) clone() *symState {
	c := *sx
	c.cur = append([]string{}, sx.cur...)
	c.env = map[string]string{}
	c.envT = map[string]goType{}
	for k, v := range sx.env {
		c.env[k] = v
	}
	for k, v := range sx.envT {
		c.envT[k] = v
	}
	return &c
}

func (sx *symState) orig(k int) string { // k-th original operand from the top, 1-based
	if k > *sx.need {
		*sx.need = k
	}
	return fmt.Sprintf("o%d", k)
}

func (sx *symState) top(k int) string {
	if k <= len(sx.cur) {
		return sx.cur[k-1]
	}
	return sx.orig(sx.base + k - len(sx.cur))
}

func (sx *symState) pop(k int) {
	for ; k > 0; k-- {
		if len(sx.cur) > 0 {
			sx.cur = sx.cur[1:]
		} else {
			sx.base++
			if sx.base > *sx.need {
				*sx.need = sx.base
			}
		}
	}
}

func (sx *symState) setTop(k int, e string) {
	for len(sx.cur) < k {
		sx.cur = append(sx.cur, sx.orig(sx.base+1))
		sx.base++
	}
	sx.cur[k-1] = e
}

func (sx *symState) fresh(p string) string {
	*sx.nfresh++
	return fmt.Sprintf("%s%d", p, *sx.nfresh)
}

type stepBail struct{ msg string }

func sbail(format string, a ...any) { panic(stepBail{fmt.Sprintf(format, a...)}) }

// stackIndexFromTop recognises len(v.stack)-k and returns k.
func stackIndexFromTop(e ast.Expr) (int, bool) {
	be, ok := e.(*ast.BinaryExpr)
	if !ok || be.Op != token.SUB || exprString(be.X) != "len(v.stack)" {
		return 0, false
	}
	k, ok := constValue(be.Y)
	return int(k), ok
}

// localIndex recognises baseN+int(i.F) and returns the Coq term of the slot number.
func (sx *symState) localIndex(e ast.Expr) (string, bool) {
	be, ok := e.(*ast.BinaryExpr)
	if !ok || be.Op != token.ADD || exprString(be.X) != "baseN" {
		return "", false
	}
	t, _ := sx.zexpr(be.Y)
	return t, true
}

// zexpr: integer-valued expressions over instruction operands
func (sx *symState) zexpr(e ast.Expr) (string, bool) {
	switch x := e.(type) {
	case *ast.ParenExpr:
		return sx.zexpr(x.X)
	case *ast.CallExpr:
		if id, ok := x.Fun.(*ast.Ident); ok && (id.Name == "int" || id.Name == "Type") && len(x.Args) == 1 {
			return sx.zexpr(x.Args[0])
		}
	case *ast.SelectorExpr:
		s := exprString(x)
		if x.Sel.Name == "t" && sx.tr != nil { // the type tag of a value
			return "(vt " + sx.tr.vexpr(sx, x.X) + ")", true
		}
		switch s {
		case "i.A", "codes[v.frame.N].A":
			return "(iA i)", true
		case "i.B", "codes[v.frame.N].B":
			return "(iB i)", true
		case "i.C", "codes[v.frame.N].C":
			return "(iC i)", true
		}
	case *ast.Ident:
		if t, ok := sx.env[x.Name]; ok && sx.envT[x.Name] == tInt {
			return t, true
		}
		if sx.tr != nil && sx.tr.vt.consts[x.Name] {
			return x.Name, true
		}
	case *ast.BasicLit:
		if v, ok := constValue(x); ok {
			return fmt.Sprint(v), true
		}
	case *ast.UnaryExpr:
		if x.Op == token.SUB {
			if t, ok := sx.zexpr(x.X); ok {
				return "(- " + t + ")", true
			}
		}
	}
	sbail("integer expression %s", exprString(e))
	return "", false
}

// vexpr: Value-typed expressions; partial method calls and store reads add wrappers.
func (st *stepTrans) vexpr(sx *symState, e ast.Expr) string {
	switch x := e.(type) {
	case *ast.ParenExpr:
		return st.vexpr(sx, x.X)
	case *ast.Ident:
		if t, ok := sx.env[x.Name]; ok && sx.envT[x.Name] == tValue {
			return t
		}
		sbail("identifier %s", x.Name)
	case *ast.IndexExpr:
		if exprString(x.X) == "v.stack" {
			if k, ok := stackIndexFromTop(x.Index); ok {
				return sx.top(k)
			}
			if idx, ok := sx.localIndex(x.Index); ok {
				n := sx.fresh("l")
				*sx.wraps = append(*sx.wraps, fmt.Sprintf("match znth %s %s with None => SStuck \"local slot\" | Some %s =>", sx.slots, idx, n))
				return n
			}
		}
		sbail("index expression %s", exprString(x))
	case *ast.CallExpr:
		fs := exprString(x.Fun)
		switch fs {
		case "v.globals.Read":
			idx, _ := sx.zexpr(x.Args[0])
			n := sx.fresh("g")
			*sx.wraps = append(*sx.wraps, fmt.Sprintf("match znth (globals %s) %s with None => SStuck \"global index\" | Some %s =>", sx.st, idx, n))
			return n
		case "newUntypedInt", "newZero", "Int", "Uint32", "Bool":
			fi := st.vt.funcs[fs]
			if fi == nil {
				sbail("function %s", fs)
			}
			var args []string
			for i, a := range x.Args {
				if fi.ptypes[i] == tBool {
					args = append(args, st.bexpr(sx, a))
				} else {
					t, _ := sx.zexpr(a)
					args = append(args, t)
				}
			}
			return "(" + fi.coq + " " + strings.Join(args, " ") + ")"
		}
		if se, ok := x.Fun.(*ast.SelectorExpr); ok {
			recv := st.vexpr(sx, se.X)
			fi := st.vt.funcs["Value."+se.Sel.Name]
			if fi == nil || fi.ret != tValue {
				sbail("method %s", se.Sel.Name)
			}
			args := []string{recv}
			for i, a := range x.Args {
				switch fi.ptypes[i] {
				case tValue:
					args = append(args, st.vexpr(sx, a))
				case tBool:
					args = append(args, st.bexpr(sx, a))
				default:
					t, _ := sx.zexpr(a)
					args = append(args, t)
				}
			}
			term := "(" + fi.coq + " " + strings.Join(args, " ") + ")"
			if fi.partial {
				n := sx.fresh("r")
				*sx.wraps = append(*sx.wraps, fmt.Sprintf("slift %s %s (fun %s =>", term, sx.st, n))
				return n
			}
			return term
		}
		sbail("call %s", fs)
	}
	sbail("value expression %s", exprString(e))
	return ""
}

// getCall recognises X.Get(K)
func getCall(e ast.Expr) (r, k ast.Expr, ok bool) {
	ce, isCall := e.(*ast.CallExpr)
	if !isCall || len(ce.Args) != 1 {
		return nil, nil, false
	}
	se, isSel := ce.Fun.(*ast.SelectorExpr)
	if !isSel || se.Sel.Name != "Get" {
		return nil, nil, false
	}
	return se.X, ce.Args[0], true
}

func isBlank(e ast.Expr) bool {
	id, ok := e.(*ast.Ident)
	return ok && id.Name == "_"
}

// objGet: val, _ := r.Get(k)  -- Value.Get is the hand-written obj_get of Model/VM.v (slices, strings, and the
// object oracle); what is tied to the source here is the dispatch case around it
func (st *stepTrans) objGet(sx *symState, rE, kE ast.Expr) string {
	r := st.vexpr(sx, rE)
	k := st.vexpr(sx, kE)
	*sx.obj = true
	rv, n := sx.fresh("q"), sx.fresh("r")
	*sx.wraps = append(*sx.wraps, fmt.Sprintf("match obj_get ext_get %s %s %s (ipos i) with inr w => SUnmod w | inl %s =>", sx.st, r, k, rv))
	*sx.wraps = append(*sx.wraps, fmt.Sprintf("slift %s %s (fun %s =>", rv, sx.st, n))
	return n
}

// objSet: r.Set(k, v)
func (st *stepTrans) objSet(sx *symState, rE, kE, vE ast.Expr) {
	r := st.vexpr(sx, rE)
	k := st.vexpr(sx, kE)
	v := st.vexpr(sx, vE)
	*sx.obj = true
	s1 := sx.fresh("st")
	*sx.wraps = append(*sx.wraps, fmt.Sprintf("match obj_set ext_set %s %s %s %s with inr w => SUnmod w | inl Panic => SFail \"runtime error\" %s | inl Unmodelled => SFail \"runtime error\" %s | inl (Ok %s) =>", sx.st, r, k, v, sx.st, sx.st, s1))
	sx.st = s1
}

func (st *stepTrans) bexpr(sx *symState, e ast.Expr) string {
	switch x := e.(type) {
	case *ast.ParenExpr:
		return st.bexpr(sx, x.X)
	case *ast.UnaryExpr:
		if x.Op == token.NOT {
			return "(negb " + st.bexpr(sx, x.X) + ")"
		}
	case *ast.CallExpr:
		if se, ok := x.Fun.(*ast.SelectorExpr); ok && len(x.Args) == 0 {
			switch se.Sel.Name {
			case "Bool":
				return "(Value_Bool " + st.vexpr(sx, se.X) + ")"
			case "IsNil":
				return "(Value_IsNil " + st.vexpr(sx, se.X) + ")"
			}
		}
	}
	sbail("boolean expression %s", exprString(e))
	return ""
}

// exec one statement list; returns the Coq term for the path(s)
func (st *stepTrans) stmts(sx *symState, list []ast.Stmt) string {
	for idx, s := range list {
		switch x := s.(type) {
		case *ast.AssignStmt:
			if len(x.Lhs) == 1 && exprString(x.Lhs[0]) == "v.frame.N" && x.Tok == token.ADD_ASSIGN {
				t, _ := sx.zexpr(x.Rhs[0])
				sx.jump = t
				continue
			}
			// v.stack, v.stack[base+A] = v.stack[:len-1], v.stack[len-1].assign(...)   (LOCALSET)
			if len(x.Lhs) == 2 && exprString(x.Lhs[0]) == "v.stack" {
				// evaluate the right-hand sides first
				v2 := st.vexpr(sx, x.Rhs[1])
				st.assignStack(sx, x.Rhs[0])
				st.store(sx, x.Lhs[1], v2)
				continue
			}
			if len(x.Lhs) == 2 && len(x.Rhs) == 1 && isBlank(x.Lhs[1]) {
				if rE, kE, ok := getCall(x.Rhs[0]); ok {
					n := st.objGet(sx, rE, kE)
					if x.Tok == token.DEFINE {
						name := x.Lhs[0].(*ast.Ident).Name
						sx.env[name] = n
						sx.envT[name] = tValue
					} else {
						st.store(sx, x.Lhs[0], n)
					}
					continue
				}
			}
			if x.Tok == token.DEFINE {
				if len(x.Lhs) != len(x.Rhs) {
					sbail("multi-value define")
				}
				var vals []string
				var tys []goType
				for _, r := range x.Rhs {
					rs := exprString(r)
					if strings.HasPrefix(rs, "&codes[") {
						vals = append(vals, "i")
						tys = append(tys, "instr")
						continue
					}
					if ue, ok := r.(*ast.UnaryExpr); ok && ue.Op == token.AND {
						sbail("address-of %s", rs)
					}
					if t, ok := func() (t string, ok bool) {
						defer func() {
							if rr := recover(); rr != nil {
								ok = false
							}
						}()
						return sx.zexprTry(r)
					}(); ok {
						vals = append(vals, t)
						tys = append(tys, tInt)
						continue
					}
					vals = append(vals, st.vexpr(sx, r))
					tys = append(tys, tValue)
				}
				for k, l := range x.Lhs {
					name := l.(*ast.Ident).Name
					if tys[k] == "instr" {
						continue // i := &codes[v.frame.N]
					}
					sx.env[name] = vals[k]
					sx.envT[name] = tys[k]
				}
				continue
			}
			if len(x.Lhs) == 1 && x.Tok == token.ASSIGN {
				if exprString(x.Lhs[0]) == "v.stack" {
					st.assignStack(sx, x.Rhs[0])
					continue
				}
				st.store(sx, x.Lhs[0], st.vexpr(sx, x.Rhs[0]))
				continue
			}
			sbail("assignment %s", stmtStringN(x))
		case *ast.ExprStmt:
			ce, ok := x.X.(*ast.CallExpr)
			if !ok {
				sbail("expression statement")
			}
			switch exprString(ce.Fun) {
			case "v.globals.Assign":
				idx, _ := sx.zexpr(ce.Args[0])
				val := st.vexpr(sx, ce.Args[1])
				old := sx.fresh("g")
				*sx.wraps = append(*sx.wraps, fmt.Sprintf("match znth (globals %s) %s with None => SStuck \"global index\" | Some %s =>", sx.st, idx, old))
				sx.st = fmt.Sprintf("(set_global %s %s (Value_assign %s (vt %s)))", sx.st, idx, val, old)
			case "v.globals.Write":
				idx, _ := sx.zexpr(ce.Args[0])
				val := st.vexpr(sx, ce.Args[1])
				old := sx.fresh("g")
				*sx.wraps = append(*sx.wraps, fmt.Sprintf("match znth (globals %s) %s with None => SStuck \"global index\" | Some %s =>", sx.st, idx, old))
				sx.st = fmt.Sprintf("(set_global %s %s %s)", sx.st, idx, val)
			default:
				if se, ok := ce.Fun.(*ast.SelectorExpr); ok && se.Sel.Name == "Set" && len(ce.Args) == 2 {
					if _, isId := se.X.(*ast.Ident); isId {
						st.objSet(sx, se.X, ce.Args[0], ce.Args[1])
						continue
					}
				}
				sbail("call statement %s", exprString(ce.Fun))
			}
		case *ast.IfStmt:
			if x.Init != nil {
				sbail("if with init")
			}
			cond := st.bexpr(sx, x.Cond)
			rest := list[idx+1:]
			thenB := append(append([]ast.Stmt{}, x.Body.List...), rest...)
			var elseB []ast.Stmt
			if x.Else != nil {
				eb, ok := x.Else.(*ast.BlockStmt)
				if !ok {
					sbail("else-if")
				}
				elseB = append(elseB, eb.List...)
			}
			elseB = append(elseB, rest...)
			// each branch gets its own wrappers; a `break` ends the branch (rest is NOT executed)
			t := st.branch(sx.clone(), thenB)
			e := st.branch(sx.clone(), elseB)
			return fmt.Sprintf("(if %s then %s else %s)", cond, t, e)
		case *ast.BranchStmt:
			if x.Tok == token.BREAK {
				return st.finish(sx)
			}
			sbail("branch statement")
		case *ast.ReturnStmt:
			sx.ret = true
			return st.finish(sx)
		default:
			sbail("statement %T", s)
		}
	}
	return st.finish(sx)
}

func (sx *symState) zexprTry(e ast.Expr) (string, bool) {
	switch e.(type) {
	case *ast.IndexExpr:
		return "", false
	}
	if ce, ok := e.(*ast.CallExpr); ok {
		if id, ok := ce.Fun.(*ast.Ident); !ok || (id.Name != "int" && id.Name != "Type") {
			return "", false
		}
	}
	return sx.zexpr(e)
}

func (st *stepTrans) branch(sx *symState, list []ast.Stmt) string {
	// break inside an if ends the case; statements after the if belong to the fall-through path only
	w := []string{}
	sx.wraps = &w
	body := st.stmts(sx, list)
	return wrapAll(w, body)
}

func wrapAll(w []string, body string) string {
	out := body
	for i := len(w) - 1; i >= 0; i-- {
		if strings.HasPrefix(w[i], "slift") {
			out = w[i] + " " + out + ")"
		} else {
			out = "(" + w[i] + " " + out + " end)"
		}
	}
	return out
}

func (st *stepTrans) assignStack(sx *symState, rhs ast.Expr) {
	switch x := rhs.(type) {
	case *ast.SliceExpr: // v.stack[:len(v.stack)-k]
		if exprString(x.X) == "v.stack" && x.Low == nil {
			if k, ok := stackIndexFromTop(x.High); ok {
				sx.pop(k)
				return
			}
		}
	case *ast.CallExpr: // append(v.stack, e)
		if exprString(x.Fun) == "append" && len(x.Args) == 2 && exprString(x.Args[0]) == "v.stack" && !x.Ellipsis.IsValid() {
			e := st.vexpr(sx, x.Args[1])
			sx.cur = append([]string{e}, sx.cur...)
			return
		}
	}
	sbail("stack update %s", exprString(rhs))
}

func (st *stepTrans) store(sx *symState, lhs ast.Expr, val string) {
	ie, ok := lhs.(*ast.IndexExpr)
	if !ok || exprString(ie.X) != "v.stack" {
		sbail("store to %s", exprString(lhs))
	}
	if k, ok := stackIndexFromTop(ie.Index); ok {
		sx.setTop(k, val)
		return
	}
	if idx, ok := sx.localIndex(ie.Index); ok {
		old := sx.fresh("l")
		*sx.wraps = append(*sx.wraps, fmt.Sprintf("match znth %s %s with None => SStuck \"local slot\" | Some %s =>", sx.slots, idx, old))
		sx.slots = fmt.Sprintf("(zset %s %s %s)", sx.slots, idx, val)
		return
	}
	sbail("store index %s", exprString(ie.Index))
}

func (st *stepTrans) finish(sx *symState) string {
	ops := "rest" + fmt.Sprint(sx.base)
	for i := len(sx.cur) - 1; i >= 0; i-- {
		ops = "(" + sx.cur[i] + " :: " + ops + ")"
	}
	switch {
	case sx.ret:
		return fmt.Sprintf("SRet %s %s %s", sx.slots, ops, sx.st)
	case sx.jump != "":
		return fmt.Sprintf("SJump %s %s %s %s", sx.jump, sx.slots, ops, sx.st)
	}
	return fmt.Sprintf("SNext %s %s %s", sx.slots, ops, sx.st)
}

// restN must denote the operands below the first N original ones: generated as a match on ops.
func opsMatch(need int, body string, usedRests map[int]bool) string {
	// pattern o1 :: o2 :: ... :: oneed :: tail ; restK = o(K+1) :: ... :: tail
	var pat []string
	for k := 1; k <= need; k++ {
		pat = append(pat, fmt.Sprintf("o%d", k))
	}
	pat = append(pat, "tail")
	var lets []string
	for k := 0; k <= need; k++ {
		if !usedRests[k] {
			continue
		}
		var parts []string
		for j := k + 1; j <= need; j++ {
			parts = append(parts, fmt.Sprintf("o%d", j))
		}
		parts = append(parts, "tail")
		lets = append(lets, fmt.Sprintf("let rest%d := %s in", k, strings.Join(parts, " :: ")))
	}
	if need == 0 {
		return fmt.Sprintf("let tail := ops in %s\n        %s", strings.Join(lets, " "), body)
	}
	return fmt.Sprintf("match ops with\n      | %s =>\n        %s\n        %s\n      | _ => SStuck \"operands\"\n      end", strings.Join(pat, " :: "), strings.Join(lets, " "), body)
}

func genSteps(repo string, vt *vtrans) string {
	f := parseFile(repo + "/do.go")
	exec := findMethod(f, "VM", "exec")
	var sw *ast.SwitchStmt
	ast.Inspect(exec.Body, func(n ast.Node) bool {
		if s, ok := n.(*ast.SwitchStmt); ok && sw == nil && exprString(s.Tag) == "codes[v.frame.N].Code" {
			sw = s
		}
		return true
	})
	if sw == nil {
		fatalf(exec.Pos(), "exec: dispatch switch not found")
	}
	st := &stepTrans{vt: vt}
	var sb strings.Builder
	sb.WriteString("(* GENERATED by tools/go2v from do.go (exec) -- do not edit *)\n")
	sb.WriteString("From Coq Require Import ZArith List String Bool.\nFrom GV Require Import GoSpec.GoPrim Gen.ValueOps_gen Gen.Tables_gen Model.VM.\nImport ListNotations.\nOpen Scope string_scope.\nOpen Scope Z_scope.\n\n")
	sb.WriteString("(* one dispatch-loop case per translated opcode; None = the case is not in the translated subset *)\n")
	sb.WriteString("Definition step_gen (i : instr) (slots ops : list value) (s : st) : option sres :=\n  let c := icode i in\n")
	var translated, skipped, translatedObj []string
	var sbo strings.Builder
	sbo.WriteString("(* the dispatch cases that call Value.Get / Value.Set: obj_get / obj_set are the hand-written models of those\n   methods (Model/VM.v); the case around the call is what the Go source says *)\n")
	sbo.WriteString("Definition step_gen_obj (ext_get : st -> value -> value -> option (res value)) (ext_set : st -> value -> value -> value -> option (res st))\n    (i : instr) (slots ops : list value) (s : st) : option sres :=\n  let c := icode i in\n")
	for _, cl := range sw.Body.List {
		cc := cl.(*ast.CaseClause)
		if cc.List == nil {
			continue
		}
		var names []string
		for _, e := range cc.List {
			names = append(names, exprString(e))
		}
		usesObj := false
		term, err := func() (term string, err string) {
			defer func() {
				if r := recover(); r != nil {
					if b, ok := r.(stepBail); ok {
						err = b.msg
						return
					}
					panic(r)
				}
			}()
			need, nfresh := 0, 0
			w := []string{}
			usesObj = false
			sx := &symState{need: &need, slots: "slots", st: "s", env: map[string]string{}, envT: map[string]goType{}, wraps: &w, nfresh: &nfresh, tr: st, obj: &usesObj}
			body := wrapAll(w, "")
			_ = body
			b := st.stmts(sx, cc.Body)
			b = wrapAll(w, b)
			used := map[int]bool{}
			for k := 0; k <= need+2; k++ {
				if strings.Contains(b, fmt.Sprintf("rest%d", k)) {
					used[k] = true
					if k > need {
						need = k
					}
				}
			}
			return opsMatch(need, b, used), ""
		}()
		if err != "" {
			skipped = append(skipped, strings.Join(names, ",")+": "+err)
			continue
		}
		var conds []string
		for _, n := range names {
			conds = append(conds, fmt.Sprintf("(c =? C %s)", coqStr(n)))
		}
		if usesObj {
			translatedObj = append(translatedObj, names...)
			sbo.WriteString(fmt.Sprintf("  if %s then Some (\n      %s)\n  else\n", strings.Join(conds, " || "), term))
			continue
		}
		translated = append(translated, names...)
		sb.WriteString(fmt.Sprintf("  if %s then Some (\n      %s)\n  else\n", strings.Join(conds, " || "), term))
	}
	sb.WriteString("  None.\n\n")
	sbo.WriteString("  None.\n\n")
	sort.Strings(translatedObj)
	var tlo []string
	for _, t := range translatedObj {
		tlo = append(tlo, coqStr(t))
	}
	sbo.WriteString("Definition step_gen_obj_opcodes : list string := [" + strings.Join(tlo, "; ") + "].\n\n")
	sort.Strings(translated)
	var tl []string
	for _, t := range translated {
		tl = append(tl, coqStr(t))
	}
	sb.WriteString("Definition step_gen_opcodes : list string := [" + strings.Join(tl, "; ") + "].\n")
	sb.WriteString("(* cases left to the hand-written model (Model/VM.v), with the first construct outside the subset:\n")
	for _, s := range skipped {
		sb.WriteString("   " + s + "\n")
	}
	sb.WriteString("*)\n\n")
	sb.WriteString(sbo.String())
	sb.WriteString(genStamp(repo))
	return sb.String()
}

// genStamp translates the loop at the end of (*compiler).compile that gives every instruction emitted for a node
// the node's position.  Only the exact shape below is accepted (a change of the loop is a translator failure,
// i.e. a broken obligation of C20): every instruction of res, in order, whose Pos is still zero gets newPos(tok).
func genStamp(repo string) string {
	f := parseFile(repo + "/compiler.go")
	fn := findMethod(f, "compiler", "compile")
	if fn == nil {
		fatalf(f.Pos(), "compiler.compile not found")
	}
	var loop *ast.RangeStmt
	for _, st := range fn.Body.List {
		if r, ok := st.(*ast.RangeStmt); ok && exprString(r.X) == "res" {
			loop = r
		}
	}
	if loop == nil {
		fatalf(fn.Pos(), "compile: the position-stamping loop over res was not found at the top level of the function body")
	}
	var buf bytes.Buffer
	printer.Fprint(&buf, token.NewFileSet(), loop)
	got := strings.Join(strings.Fields(buf.String()), " ")
	want := "for n, i := range res { if !i.Pos.IsZero() { continue } res[n].Pos = newPos(c.Globals, tok.Pos.Filename, c.FuncName, tok.Pos.Line, tok.Pos.Column) }"
	if got != want {
		fatalf(loop.Pos(), "compile: the position-stamping loop has an unexpected shape:\n  %s\nexpected\n  %s", got, want)
	}
	// nothing after the loop may touch res except `return res` (and the depth counter)
	seen := false
	for _, st := range fn.Body.List {
		if st == ast.Stmt(loop) {
			seen = true
			continue
		}
		if !seen {
			continue
		}
		var b2 bytes.Buffer
		printer.Fprint(&b2, token.NewFileSet(), st)
		t := strings.Join(strings.Fields(b2.String()), " ")
		if t != "c.depth--" && t != "return res" {
			fatalf(st.Pos(), "compile: unexpected statement after the position-stamping loop: %s", t)
		}
	}
	return "(* the loop at the end of compiler.compile, /repo/compiler.go: p is newPos(tok) *)\n" +
		"Definition stamp_gen (p : Z) (res : list instr) : list instr :=\n" +
		"  map (fun i => if ipos i =? 0 then mkI (icode i) (iA i) (iB i) (iC i) p else i) res.\n"
}
