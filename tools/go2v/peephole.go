package main

import (
	"fmt"
	"go/ast"
	"go/token"
	"strings"
)

// genPeephole translates compiler.doOptimize.  Accepted shape:
//
//	var out []instruction
//	for n := 0; n < len(in); n++ {
//	    switch {
//	    case n < len(in)-K && in[n].Code == X && ... [&& in[n].A == in[n+2].A | && in[n].A == 0]:
//	        out = append(out, instruction{Pos: in[n].Pos, Code: Y, A: e, B: e, C: e})
//	        n += K
//	    default:
//	        out = append(out, in[n])
//	    }
//	}
//	return out
func genPeephole(f *ast.File) string {
	fd := findMethod(f, "compiler", "doOptimize")
	if len(fd.Body.List) != 3 {
		fatalf(fd.Pos(), "doOptimize: expected 3 statements (var, for, return)")
	}
	loop, ok := fd.Body.List[1].(*ast.ForStmt)
	if !ok || exprString(loop.Cond) != "n<len(in)" {
		fatalf(fd.Pos(), "doOptimize: loop shape not recognised")
	}
	if inc, ok := loop.Post.(*ast.IncDecStmt); !ok || inc.Tok != token.INC {
		fatalf(fd.Pos(), "doOptimize: loop post statement not n++")
	}
	if len(loop.Body.List) != 1 {
		fatalf(loop.Pos(), "doOptimize: loop body must be one switch")
	}
	sw, ok := loop.Body.List[0].(*ast.SwitchStmt)
	if !ok || sw.Tag != nil {
		fatalf(loop.Pos(), "doOptimize: loop body must be a tagless switch")
	}
	if rs, ok := fd.Body.List[2].(*ast.ReturnStmt); !ok || exprString(rs.Results[0]) != "out" {
		fatalf(fd.Pos(), "doOptimize: must return out")
	}
	var rules []string
	sawDefault := false
	for _, c := range sw.Body.List {
		cc := c.(*ast.CaseClause)
		if cc.List == nil {
			if len(cc.Body) != 1 || stmtString(cc.Body[0]) != "out=append(out,in[n])" {
				fatalf(cc.Pos(), "doOptimize: default case must copy in[n]")
			}
			sawDefault = true
			continue
		}
		if sawDefault {
			fatalf(cc.Pos(), "doOptimize: case after default")
		}
		if len(cc.List) != 1 {
			fatalf(cc.Pos(), "doOptimize: multi-expression case")
		}
		var conj []ast.Expr
		var flat func(e ast.Expr)
		flat = func(e ast.Expr) {
			if be, ok := e.(*ast.BinaryExpr); ok && be.Op == token.LAND {
				flat(be.X)
				flat(be.Y)
				return
			}
			conj = append(conj, e)
		}
		flat(cc.List[0])
		wlen := -1
		codes := map[int]string{}
		var conds []string
		for _, e := range conj {
			s := exprString(e)
			switch {
			case s == "n<len(in)":
				wlen = 1
			case strings.HasPrefix(s, "n<len(in)-"):
				var k int
				if _, err := fmt.Sscanf(s, "n<len(in)-%d", &k); err != nil {
					fatalf(e.Pos(), "bad bound %s", s)
				}
				wlen = k + 1
			default:
				be, ok := e.(*ast.BinaryExpr)
				if ok && be.Op == token.NEQ {
					li, lf := inRef(be.X)
					v, isConst := constValue(be.Y)
					if lf == "Code" || !isConst {
						fatalf(e.Pos(), "unsupported rule condition %s", s)
					}
					conds = append(conds, fmt.Sprintf("CNotConst %d F%s %d", li, lf, v))
					continue
				}
				if !ok || be.Op != token.EQL {
					fatalf(e.Pos(), "unsupported rule condition %s", s)
				}
				li, lf := inRef(be.X)
				if lf == "Code" {
					codes[li] = exprString(be.Y)
					continue
				}
				if v, ok := constValue(be.Y); ok {
					conds = append(conds, fmt.Sprintf("CConst %d F%s %d", li, lf, v))
					continue
				}
				ri, rf := inRef(be.Y)
				conds = append(conds, fmt.Sprintf("CSame %d F%s %d F%s", li, lf, ri, rf))
			}
		}
		if wlen < 1 {
			fatalf(cc.Pos(), "rule without length bound")
		}
		var cl []string
		for i := 0; i < wlen; i++ {
			c, ok := codes[i]
			if !ok {
				fatalf(cc.Pos(), "rule does not constrain in[n+%d].Code", i)
			}
			cl = append(cl, coqStr(c))
		}
		if len(codes) != wlen {
			fatalf(cc.Pos(), "rule constrains codes outside its window")
		}
		// body
		nb := len(cc.Body)
		if !(nb == 2 || (nb == 1 && wlen == 1)) {
			fatalf(cc.Pos(), "rule body shape")
		}
		as, ok := cc.Body[0].(*ast.AssignStmt)
		if !ok || exprString(as.Lhs[0]) != "out" {
			fatalf(cc.Pos(), "rule body must append to out")
		}
		call, ok := as.Rhs[0].(*ast.CallExpr)
		if !ok || exprString(call.Fun) != "append" || len(call.Args) != 2 || exprString(call.Args[0]) != "out" {
			fatalf(cc.Pos(), "rule body must be out = append(out, instruction{...})")
		}
		lit, ok := call.Args[1].(*ast.CompositeLit)
		if !ok || exprString(lit.Type) != "instruction" {
			fatalf(cc.Pos(), "rule result must be an instruction literal")
		}
		outCode, posIdx := "", -1
		ops := map[string]string{"A": "OZero", "B": "OZero", "C": "OZero"}
		for _, el := range lit.Elts {
			kv := el.(*ast.KeyValueExpr)
			k := kv.Key.(*ast.Ident).Name
			switch k {
			case "Code":
				outCode = exprString(kv.Value)
			case "Pos":
				i, fld := inRef(kv.Value)
				if fld != "Pos" {
					fatalf(kv.Pos(), "Pos must come from an input instruction")
				}
				posIdx = i
			case "A", "B", "C":
				ops[k] = operand(kv.Value)
			default:
				fatalf(kv.Pos(), "unknown instruction field %s", k)
			}
		}
		if outCode == "" || posIdx < 0 {
			fatalf(cc.Pos(), "rule result lacks Code or Pos")
		}
		if nb == 2 {
			if stmtString(cc.Body[1]) != fmt.Sprintf("n+=%d", wlen-1) {
				fatalf(cc.Body[1].Pos(), "rule must advance n by %d", wlen-1)
			}
		}
		rules = append(rules, fmt.Sprintf("  mkRule [%s] [%s] %s (%s) (%s) (%s) %d",
			strings.Join(cl, "; "), strings.Join(conds, "; "), coqStr(outCode), ops["A"], ops["B"], ops["C"], posIdx))
	}
	if !sawDefault {
		fatalf(sw.Pos(), "doOptimize: no default case")
	}
	// optimize = doOptimize twice under the flag
	om := findMethod(f, "compiler", "optimize")
	passes := 0
	ast.Inspect(om.Body, func(n ast.Node) bool {
		if ce, ok := n.(*ast.CallExpr); ok && exprString(ce.Fun) == "c.doOptimize" {
			passes++
		}
		return true
	})
	var sb strings.Builder
	sb.WriteString("From GV Require Import Model.PeepTypes.\n")
	sb.WriteString("Definition peephole_rules : list rule := [\n" + strings.Join(rules, ";\n") + "\n].\n")
	sb.WriteString(fmt.Sprintf("Definition optimize_passes : nat := %d.\n\n", passes))
	return sb.String()
}

// inRef parses in[n+i].F -> (i, F)
func inRef(e ast.Expr) (int, string) {
	se, ok := e.(*ast.SelectorExpr)
	if !ok {
		fatalf(e.Pos(), "expected in[n+i].F, got %s", exprString(e))
	}
	ie, ok := se.X.(*ast.IndexExpr)
	if !ok || exprString(ie.X) != "in" {
		fatalf(e.Pos(), "expected in[n+i].F, got %s", exprString(e))
	}
	idx := exprString(ie.Index)
	i := 0
	if idx != "n" {
		if _, err := fmt.Sscanf(idx, "n+%d", &i); err != nil {
			fatalf(e.Pos(), "bad index %s", idx)
		}
	}
	return i, se.Sel.Name
}

func operand(e ast.Expr) string {
	switch x := e.(type) {
	case *ast.UnaryExpr:
		if x.Op == token.SUB {
			return "ONeg (" + operand(x.X) + ")"
		}
	case *ast.CallExpr:
		if exprString(x.Fun) == "joinParams" && len(x.Args) == 2 {
			return "OJoin (" + operand(x.Args[0]) + ") (" + operand(x.Args[1]) + ")"
		}
	case *ast.SelectorExpr:
		i, f := inRef(x)
		return fmt.Sprintf("OField %d F%s", i, f)
	}
	fatalf(e.Pos(), "unsupported operand expression %s", exprString(e))
	return ""
}

func stmtString(s ast.Stmt) string {
	switch x := s.(type) {
	case *ast.AssignStmt:
		return exprString(x.Lhs[0]) + x.Tok.String() + exprString(x.Rhs[0])
	case *ast.ExprStmt:
		return exprString(x.X)
	}
	return fmt.Sprintf("<%T>", s)
}
