module go2v

go 1.20
