"""C12 struct fields / robin-hood table."""
import vcheck as V
PROPS = ["Props/C12.v"]
def run(chk):
    V.generic_run(chk, PROPS,
        corr=[dict(name="intmap(Model/IntMap.v vs the real intMap through hook VerifIntMap: every Get/Len answer and the final table cell by cell)", cmd="c12-corr", stats="C12_corr_stats.json", n_quick=400, n_thorough=6000)],
        system=[dict(name="struct programs vs Go toolchain", cmd="c12-script", stats="C12_script_stats.json", n_quick=14, n_thorough=150,
                     what="generated Go programs with a struct type of 0..200 fields (int/string/float64/bool/uint8) and 0..20 methods, three references (two aliases), random field writes, compound assignments, method calls, mutation through a function parameter, re-aliasing; stdout compared with `go build` of the same program (int read as int32)")],
        assumptions=["hash = identity (intMapHash); table keys are the interned global indices of field and method names",
                     "Go semantics of the generated struct programs = the installed Go toolchain"])
def replay(path):
    return V.generic_replay(path)
