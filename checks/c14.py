"""C14 printed values look as Go prints them, and printing always terminates."""
import vcheck as V

PROPS = ["Props/C14.v"]


def run(chk):
    V.generic_run(chk, PROPS,
        corr=[dict(name="print(Model/Print.v vs Value.String / fmt.Println / fmt.Sprint on values built through the host API and by scripts, cyclic graphs included; GoSpec/GoFmt.v vs the real fmt package)",
                   cmd="c14-corr", stats="C14_corr_stats.json", n_quick=300, n_thorough=6000)],
        system=[dict(name="printing programs vs Go toolchain", cmd="c14-script", stats="C14_script_stats.json", n_quick=400, n_thorough=12000,
                     what="generated programs printing with fmt.Println / fmt.Print (one operand) / fmt.Sprint: int8, uint8, int32, uint32 boundaries, float64 classes "
                          "(0, -0, subnormal, exponent-form thresholds 1e-05 / 1e+21, max, NaN and +-Inf from arithmetic on variables, random bit patterns), unicode strings, "
                          "slices and single-entry / empty / nil maps nested to depth 5, struct references &T{...} (fields in declaration order, omitted fields; oracle fmt.Printf(\"%+v\")), "
                          "several operands per Println; each item runs alone in goatlang and is compared with its segment of the reference output; records carry class and nesting depth")],
        assumptions=["fmt_float: fmt.Sprint on a float64 (strconv shortest representation, %e below 1e-4 and from 1e21) is a Section variable shared by model and specification; "
                     "goatlang calls fmt.Sprint(v.num) itself.  In correspondence cases it is instantiated by a table (float, fmt.Sprint(float)) written by the harness; float printing is never re-implemented in Coq",
                     "GoSpec/GoFmt.v is what Go's fmt prints (%v; struct references with field names = %+v): validated on every run against fmt.Sprint / fmt.Sprintf(\"%+v\") / fmt.Sprintln of native Go values (CSpec / CSpecLn / CDec cases) and against the Go toolchain by the script differential",
                     "heap well-typedness (c14_total): a value whose tag is not slice/map/struct never carries a container object; holds for every value built by the public constructors and by scripts (the object-graph walker reports a violation as an unmodelled case)",
                     "maps with more than one entry are outside the property (goatlang prints them in Go-map order, Go sorts keys); struct pointers nested inside containers print as addresses in Go and are outside the comparable fragment",
                     "a non-terminating or stack-exhausting Value.String() would be observed by the 10 s watchdog (OTimeout) or as a harness crash; both are reported"])


def replay(path):
    return V.generic_replay(path)
