"""C01 programs run as Go runs them."""
import vcheck as V
PROPS = ["Props/C01.v"]
def run(chk):
    V.generic_run(chk, PROPS,
        corr=[dict(name="expr(Model/ExprEval.v: goatlang's parse + opcode choice + Value methods vs the real implementation, and eval_go vs real Go, on arithmetic expressions over int32 variables incl. boundaries)", cmd="c01-corr", stats="C01_corr_stats.json", n_quick=1200, n_thorough=12000),
              dict(name="vm(Model/VM.v runs the real compiled code of generated programs)", cmd="vm-corr", stats="VM_corr_stats.json", n_quick=30, n_thorough=300)],
        system=[dict(name="whole programs vs the Go toolchain", cmd="c01-diff", stats="C01_diff_stats.json", n_quick=160, n_thorough=2400,
                     what="generated well-typed programs of four profiles (core: ints, floats, strings, bools, slices, maps, struct references with methods, variadics, multiple results, recursion, every statement form; scope; planted run-time fault; multi-package layout with vendor-less shortened import paths, package-level initialisers across packages, init functions) run by goatlang and by `go build` of the same source with int read as int32; stdout compared, a Go panic must be a goatlang error with equal output before it")],
        assumptions=["'as the Go toolchain runs them' = the installed go1.23 toolchain on the same source with int := int32",
                     "C01 is the composition of the facet properties: the theorems here compose C05 (grouping) and C04 (operators) for expressions; statements, calls, containers, strings, printing, scoping, packages are covered by C06-C16 and by the whole-program differential, not by one end-to-end theorem (no formal semantics of Go is available: c01_core_partial in DESIGN.md)"])
def replay(path):
    return V.generic_replay(path)
