"""C13 strings are immutable UTF-8 byte sequences with Go's operations."""
import vcheck as V

PROPS = ["Props/C13.v"]


def run(chk):
    V.generic_run(chk, PROPS,
        corr=[dict(name="strings(Model/Str.v vs String/Get/Len/Slice/Set/Range of the host API, Value.convert and the string operators through the verif hooks, "
                        "codeGet/codeFastGetInt/codeLen/codeSlice(nil upper bound)/codeRange+codeIter/codeConvert/codeCopy through the real exec loop; "
                        "GoSpec/Utf8.v and the Go primitives of Model/Str.v vs the Go runtime: utf8.DecodeRuneInString, native range, []rune, utf8.ValidString, "
                        "string(rune), s[i], s[i:j], comparison, copy)",
                   cmd="c13-corr", stats="C13_corr_stats.json", n_quick=120, n_thorough=2500)],
        system=[dict(name="string programs vs Go toolchain", cmd="c13-script", stats="C13_script_stats.json", n_quick=12, n_thorough=150,
                     what="generated Go programs over interpreted-string literals (every escape: \\a \\b \\f \\n \\r \\t \\v \\\\ \\\" \\xHH \\ooo \\uHHHH \\UHHHHHHHH, "
                          "directly typed multi-byte runes), raw strings (backslashes, quotes, newlines, tabs, carriage returns), character literals "
                          "(all escapes incl. '\\'' and '\"'), and strings with invalid UTF-8 built from []byte{...}; printing len, every s[i], "
                          "for i, r := range s, for i := range s, []byte(s) and its elements, string([]byte(s)) round trips, s[i:j] / s[i:] / s[:j] / s[:] "
                          "with constant and variable bounds, re-slicing, byte arithmetic, <, <=, ==, !=, >, >= on related strings, +, += and the operands "
                          "afterwards, string(rune(x)) for valid and invalid code points, copy(buf, s), non-aliasing of []byte(s); every third program ends in "
                          "an out-of-range index or slice expression that must panic; stdout compared with `go build` (int read as int32)")],
        assumptions=[
            "Section variable `unquote` (Props/C13.v, c13_lit) = strconv.Unquote; Section variable `unquoteChar` = strconv.UnquoteChar: that they give every "
            "literal spelling Go's meaning is trusted Go library behaviour, exercised by the differential (all escape forms, raw strings, character literals)",
            "text/scanner (Go library) delimits string, raw-string and character literal tokens and rejects malformed ones (character literals with more or "
            "less than one character, unknown escapes); token.Char ignores strconv.UnquoteChar's error result",
            "Go runtime primitives used by value.go -- s[i], s[i:j], len, `for i, r := range s`, string(rune), []byte(s), string([]byte), copy, string <, <=, ==, + -- "
            "mean what GoSpec/Utf8.v (decode_rune, go_range), GoSpec/GoPrim.v (utf8_encode, bytes_ltb, bytes_eqb) and the Go-primitive section of Model/Str.v "
            "(go_index, go_slice, go_copy) say; validated against the running Go runtime by the G* cases of c13-corr on every run",
            "strings are byte lists with every element in 0..255 (hypothesis `bytes s` of the round-trip and canonical-decoding theorems); string lengths and "
            "offsets fit in int32 where a theorem says in_range I32 (goatlang's int is int32)",
            "float64 -> integer conversions of Value.Int()/byte(v.num)/rune(v.num) follow GoSpec/GoPrim.v cvt (amd64 behaviour for out-of-range values)",
            "Go semantics of the generated programs = the installed Go toolchain",
        ])


def replay(path):
    return V.generic_replay(path)
