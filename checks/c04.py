"""C04 fixed-width numeric semantics."""
import json
import os
import vcheck as V

PROPS = ["Props/C04.v"]


def run(chk):
    st = V.standard_proof_stage(chk, PROPS)
    chk.assumptions += [
        "GoSpec/GoPrim.v is the meaning of Go's operators on int8/uint8/int32/uint32/float64 (validated on this run against native Go arithmetic: prim:* cases)",
        "a float64 field holding an integer z with |z| <= 2^53 is the integer z (num = Zn z); float64-tagged values are primitive floats",
        "float->int conversion outside the target range is implementation-defined in Go; GoPrim models the amd64 gc compiler there and no theorem relies on it",
    ]
    thorough = chk.tier == "thorough"
    out = os.path.join(V.CASES, "C04")
    os.makedirs(out, exist_ok=True)
    for f in os.listdir(out):
        os.remove(os.path.join(out, f))
    if "harness_build" in st.get("errors", {}):
        return
    # (1) correspondence: generated model + GoSpec vs implementation / native Go
    n = 12000 if thorough else 2500
    rc, o = V.harness(["c04-corr", "-seed", str(chk.seed), "-n", str(n), "-out", out])
    if rc != 0:
        chk.add_broken("correspondence value-ops: harness failed", o)
    else:
        stats = json.load(open(os.path.join(out, "C04_corr_stats.json")))
        files = stats["extra"]["files"]
        mism, errs = V.run_case_files(files)
        cor = {"cases": stats["cases"], "distinct": stats["distinct"], "histogram": stats["histogram"], "disagreements": sum(len(m[1]) for m in mism)}
        chk.coverage["correspondence"]["value_ops(Gen/ValueOps_gen.v + GoPrim.v vs implementation and native Go)"] = cor
        chk.coverage["samples"] += stats["samples"][:6]
        for e in errs:
            chk.add_broken("correspondence value-ops: case file does not evaluate", e)
        for f, idx in mism:
            for i in idx[:5]:
                chk.add_broken("correspondence value-ops: model and implementation disagree", V.case_text(f, i))
    # (2) system level: script functions vs native Go arithmetic (exhaustive for 8-bit types)
    rc, o = V.harness(["c04-sweep", "-seed", str(chk.seed), "-out", out] + (["-thorough"] if thorough else []))
    if rc != 0:
        chk.add_broken("system-level sweep: harness failed", o)
    else:
        stats = json.load(open(os.path.join(out, "C04_sweep_stats.json")))
        chk.coverage["system_level"] = {"what": "script functions (var op var, var op const, const op var, x op= y, x op= c, x++/x-- on locals, globals and elements, unary, typed declarations/params/results/fields/elements with constant initialiser) called through VM.Call; oracle = native Go arithmetic of the harness build",
                                        "evaluations": stats["extra"].get("evaluations"), "distinct": stats["distinct"],
                                        "exhaustive_8bit_pairs": True, "mismatches": stats["mismatch_count"],
                                        "positions": sorted(set(k.split(" ", 1)[1] for k in stats["histogram"] if " " in k))[:40]}
        chk.coverage["samples"] += stats["samples"][:6]
        for m in stats["mismatches"]:
            chk.failing_input(m)
    for f in os.listdir(out):
        if f.endswith(".v"):
            os.remove(os.path.join(out, f))


def replay(path):
    data = json.load(open(path))
    import subprocess
    for rec in data.get("failing_inputs", [])[:5]:
        print(json.dumps(rec))
    return 0
