"""C02 optimizer transparency."""
import vcheck as V
PROPS = ["Props/C02.v"]
def run(chk):
    V.generic_run(chk, PROPS,
        corr=[dict(name="peephole(Model/Peephole.v over the generated rule table vs real doOptimize via hook VerifOptimize, 1-3 passes; third pass = identity)", cmd="c02-corr", stats="C02_corr_stats.json", n_quick=1500, n_thorough=20000),
              dict(name="vm(Model/VM.v runs the real compiled code of generated programs, optimizer on and off alternating: output, success/failure and failing position must agree)", cmd="vm-corr", stats="VM_corr_stats.json", n_quick=40, n_thorough=400)],
        system=[dict(name="optimizer off vs on", cmd="c02-diff", stats="C02_diff_stats.json", n_quick=60, n_thorough=1500,
                     what="every string literal of the repository's test tables evaluated through the hook VerifEval with the optimizer off and on (stdout, returned values with dynamic types, success/failure, error stage and line compared), plus every fused arithmetic instruction at the bounds of every sized integer type (x++, x--, x += k, x -= k, x = x + k - k', local op local, s[c] forms on int8 / uint8 / int / uint32 locals), plus generated programs of the scope, core and fault profiles (incl. peephole-shaped statements, fusable operands on the skipped side of && and ||) loaded and run in both modes")],
        assumptions=["containers use a key only through its numeric/object payload (hypotheses ext_get_key / ext_set_key; true of sliceT.Get, numericMap, stringMap, stringT.Get)",
                     "whole-program transparency = per-rule transparency (theorem) + shape of the optimizer (theorem) + 'jumps never target the inside of a fused window and block lengths are stable under re-optimisation', which is NOT proved: it is checked by the third-pass-identity test and the off/on differential"])
def replay(path):
    return V.generic_replay(path)
