"""C15 package initialisation order."""
import vcheck as V
PROPS = ["Props/C15.v"]
def run(chk):
    V.generic_run(chk, PROPS,
        corr=[dict(name="loader(Model/Loader.v vs Load on fstest.MapFS: exact marker order; contract checks: once each, dependencies first, _test.go and excluded files ignored, vendor/short paths, cycles and conflicting package clauses are errors)", cmd="c15", stats="C15_stats.json", n_quick=400, n_thorough=6000)],
        assumptions=["go/build/constraint parses and evaluates //go:build lines (only tag goat true); fs.Glob lists a directory in name order",
                     "the model's `imports` function abstracts rawLoadPackage: Some l = files found (vendor/, full or shortened path) importing l, None = no files"])
def replay(path):
    return V.generic_replay(path)
