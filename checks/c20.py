"""C20 run-time errors point at the failing line and the active call chain."""
import vcheck as V

PROPS = ["Props/C20.v"]


def run(chk):
    V.generic_run(chk, PROPS,
        corr=[dict(name="backtrace(Model/VM.v + ghost call chain of Model/Backtrace.v run the real compiled code of generated fault programs, optimizer on and off alternating: output, failing position AND every backtrace position of the real error text must agree with RFail pos, the final bt and the ghost chain)",
                   cmd="c20-corr", stats="C20_corr_stats.json", n_quick=60, n_thorough=600)],
        system=[dict(name="error text vs expectation, optimizer off vs on, Go toolchain", cmd="c20-script", stats="C20_script_stats.json", n_quick=480, n_thorough=6000,
                     what="generated call chains (depth 1..30; plain functions, methods via variable / literal / field, global and local lambdas, function-valued fields and parameters, variadic with and without spread, direct and mutual recursion; the call placed in 29 statement/expression positions: loops, for header clauses, range, if/else/else-if, if-init, switch tag/guard/arm, operands, arguments, literals, multi-line statements) with one planted fault of 22 kinds (integer division/modulo by zero, index out of range on slices and strings, slice bounds, nil map write, explicit panic, nil function value, nil pointer field read/write, negative make, panicking native) entered from main, init or a package-level initializer; the expected text (function and line of the fault, then calling function and line of every active call, innermost first) is computed by the generator from the line numbers it emits and compared with the default Load+Call text, the VM.Eval+Call text (chains entered from main), the hook text with the optimizer on and off, off vs on, and a second failing call on the same VM (no stale lines); output before the fault and the fact of a panic are compared with the Go toolchain; every fourth program writes calls of the chain over several lines and, in a quarter of those, the failing index/field/call operation over two lines: any (function, line) difference between the optimizer modes is a failing input (kind optimizer-mode; the nil-receiver call t.f(<newline>a), where GETATTR fails before the CALL whose position FASTCALLATTR carries, has the precise kind multiline-nilrecv-call); goatlang-only faults (missing return, wrong argument count: ordinary checks against the expectation; callback run by a native: kind native-callback); one host call of a missing function (no script position exists: the text must not invent one)")],
        assumptions=["objects outside the modelled fragment (maps, structs, host objects) do not write the VM's backtrace (hypotheses ext_set_bt / ext_getattr_bt / ext_setattr_bt: Value.Set, getIndex, setIndex receive no *VM)",
                     "'line of a call' for a call expression written over several lines: any line from the callee's first token to the closing parenthesis is accepted against the expectation; the two optimizer modes must still agree",
                     "columns and opcode names (CALL/FASTCALL, DIV/LOCALDIV) of the error text are not part of the property: they differ between optimizer modes by design and are counted, not compared",
                     "positions are newPos-packed integers (function-name index << 32 | line << 16 | column); line and column below 65536",
                     "the tie of gexec/gcall to the real VM is the correspondence c20-corr on the fragment Model/VM.v executes (no maps, structs, methods); method/struct chains are covered by the system-level differential only",
                     "c20_stamp is a theorem about a small model of compile's stamping loop (tree of emit/sub-node items), not about compiler.go itself; its tie is the expectation check (every generated call and fault is reported on the line the generator wrote it on)"])


def replay(path):
    return V.generic_replay(path)
