"""C19 the embedding API passes values faithfully in both directions."""
import vcheck as V

PROPS = ["Props/C19.v"]


def run(chk):
    V.generic_run(chk, PROPS,
        corr=[dict(name="adapter(Gen/ValueOps_gen.v constructors+accessors vs the host API; Model/Call.v vs NewFunc x 6 forms, CALL/CALLVARIADIC through the real exec loop, VM.Func, bound methods, script functions, natives calling VM.Func; VM.Func leaves the host's parameter array untouched)",
                   cmd="c19-corr", stats="C19_corr_stats.json", n_quick=300, n_thorough=4000)],
        system=[dict(name="scripts calling logging natives vs native oracle", cmd="c19-script", stats="C19_script_stats.json", n_quick=250, n_thorough=5000,
                     what="generated scripts calling natives of all six NewFunc forms x arity 0..6 x result counts 0..4 in statement, expression, nested-argument, multi-assign and return position, variadic natives with 0/1/many surplus arguments and spread slices, natives calling back into script functions, wrong counts, raised errors at every nesting depth; every callback logs what it received and the harness compares arguments, results, call order and errors with the expectation computed from the property statement; no Go panic may escape vm.Call")],
        assumptions=["int and uint of the host are 64 bit wide (GOARCH=amd64); float64 -> integer conversions outside the target range behave as on amd64 (GoSpec/GoPrim.v cvt, validated by C04's prim cases)",
                     "a native callback is a function of the arguments it is handed: it does not keep or write the args slice after it returns (the slice aliases the VM stack), and does not reach into the VM's unexported stack",
                     "Model/Call.v abstracts error values to their origin (incorrect args / incorrect returns / Go run-time panic kind / raised payload); the text added by VM.btErr around the message is not modelled",
                     "script function bodies are abstracted as Gallina functions from the (type-assigned) parameters to the values left above the frame (mkFunc); their compilation is covered by other properties"])


def replay(path):
    return V.generic_replay(path)
