"""C11 slices alias, grow and copy as Go slices do."""
import vcheck as V

PROPS = ["Props/C11.v"]


def run(chk):
    V.generic_run(chk, PROPS,
        corr=[dict(name="slices(Model/Slice.v vs the host Value API NewSlice/Get/Set/Slice/Append/Len/Range and the real opcodes NEWSLICE MAKE SLICE APPEND COPY GET SET LEN through VerifExec: histories over 3-5 aliasing variables, every answer, the capacity of every produced slice, nil-ness, the contents of every variable; mutation between range steps)",
                   cmd="c11-corr", stats="C11_corr_stats.json", n_quick=160, n_thorough=3000)],
        system=[dict(name="slice programs vs Go toolchain", cmd="c11-script", stats="C11_script_stats.json", n_quick=40, n_thorough=800,
                     what="generated Go programs (6 histories each) over pools of 3-5 aliasing []int / []string / []float64 / []uint8 variables: literals, make, nil, two-index sub-slices (also beyond len within the known capacity), element writes through aliases (inline, ++, +=, through function parameters), append of one/several values and append(a, b...) (b may share a's array) classified as certainly-in-place / certainly-reallocating / policy-independent x = append(x, ..) on an unshared array, copy incl. overlapping and copy(bytes, string), len, range with mutation in the body, arithmetic on elements, == nil; every variable printed after every statement; half of the programs end in an out-of-range index / slice / make through run-time operands; append through helpers incl. `return append(s, v)`, append(bytes, str...) with non-ASCII string constants; plus one fixed-shape program per construct with an open finding (groups c11|copy-count, c11|nil-stays-nil); stdout and panic/no-panic compared with `go build` (int read as int32); cap() is never observed")],
        assumptions=["Go's slices are what GoSpec/GoSlice.v says (store of fixed-length arrays, descriptors (array, offset, len, cap), two-index slice expressions, append in place iff len+k <= cap, copy = memmove of min(len, len) values); validated on every run by the differential against the Go toolchain",
                     "growth oracle: the capacity of a reallocating append is an arbitrary number >= the needed length (theorems quantify over every oracle; the correspondence feeds the capacity the real append chose, read through VerifCap)",
                     "goatlang's sliceT.data is a Go slice of Values, so Go's own append/copy/slice-expression/index semantics on []Value are taken from GoSpec/GoSlice.v, not re-verified; unwritten cells of a []Value array hold Value{}",
                     "element types with a scalar tag (numeric, bool, string); lengths small enough for make not to exhaust memory; every nil slice variable carries Value.t = sliceType(T)",
                     "Print Assumptions lists only Coq's primitive float / int63 constants (kernel primitives used by GoPrim.value)"])


def replay(path):
    return V.generic_replay(path)
