"""C05 operator precedence and associativity."""
import json
import os
import vcheck as V

PROPS = ["Props/C05.v"]


def run(chk):
    st = V.standard_proof_stage(chk, PROPS)
    chk.assumptions += [
        "GoSpec/GoPrec.v: Go's precedence table and the declarative grouping predicate (validated on this run against go/parser, the Go toolchain's parser)",
        "text/scanner's lexing of identifiers and numbers is not modelled: the theorems take token lists",
        "Model/Pratt.v transcribes parse.go doExpression and symbol.go ledInfix/negateNud/complementNud/notNud/parenNud by hand; tie = correspondence on token lists",
    ]
    thorough = chk.tier == "thorough"
    out = os.path.join(V.CASES, "C05")
    os.makedirs(out, exist_ok=True)
    for f in os.listdir(out):
        os.remove(os.path.join(out, f))
    if "harness_build" in st.get("errors", {}):
        return
    rc, o = V.harness(["c05", "-seed", str(chk.seed), "-out", out] + (["-thorough"] if thorough else []))
    if rc != 0:
        chk.add_broken("correspondence/differential harness failed", o)
        return
    stats = json.load(open(os.path.join(out, "C05_stats.json")))
    files = stats["extra"]["files"]
    mism, errs = V.run_case_files(files)
    chk.coverage["correspondence"]["pratt_core(Model/Pratt.v with Gen table vs real tokenizer+parser tree dump)"] = {
        "cases": stats["extra"]["coq_cases"], "disagreements": sum(len(m[1]) for m in mism)}
    chk.coverage["system_level"] = {
        "what": "expressions (all operator pairs and triples exhaustively, with unary prefixes and parentheses; random up to 5 operators) parsed by the real parser and by go/parser (grouping compared), and the well-typed ones evaluated through VM.Call against an int32/bool evaluation of the go/parser AST under 9 operand environments",
        "expressions": stats["cases"], "exhaustive_pairs_triples": stats["extra"]["exhaustive_pairs_triples"],
        "well_typed": stats["extra"]["well_typed"], "value_evaluations": stats["extra"]["value_evaluations"], "histogram": stats["histogram"],
        "mismatches": stats["mismatch_count"]}
    chk.coverage["samples"] += stats["samples"][:8]
    for e in errs:
        chk.add_broken("correspondence pratt: case file does not evaluate", e)
    for f, idx in mism:
        for i in idx[:5]:
            chk.add_broken("correspondence pratt: model and real parser disagree", V.case_text(f, i))
    for m in stats["mismatches"]:
        chk.failing_input(m)
    for f in os.listdir(out):
        if f.endswith(".v"):
            os.remove(os.path.join(out, f))


def replay(path):
    data = json.load(open(path))
    for rec in data.get("failing_inputs", [])[:5]:
        print(json.dumps(rec))
    return 0
