"""C18 incremental evaluation (successive Eval calls) equals whole-program evaluation."""
import vcheck as V

PROPS = ["Props/C18.v"]


def run(chk):
    V.generic_run(chk, PROPS,
        corr=[dict(name="incr(Model/Incr.v vs VerifEvalTrace: compiled code of the single call = the chunks' codes assembled (same opcodes, global indices, jump offsets; top-level slots renumbered, positions ignored), slots add up, same keys at the same indices of the Globals table, every chunk's code closedb / slots_okb)",
                   cmd="c18-corr", stats="C18_corr_stats.json", n_quick=150, n_thorough=1500)],
        system=[dict(name="whole program in one Eval vs every cutting into successive Evals on one VM", cmd="c18-script", stats="C18_script_stats.json", n_quick=1200, n_thorough=12000,
                     what="generated sequences of 3..12 top-level statements (x := e, var y T, var z T = e, const, assignments, x op= e, x++, if / if-init / else-if, for, value and bool switch with multi-value cases, range over slices and maps, function definitions incl. calls of functions defined LATER, struct / named scalar / slice / map types and aliases, values and conversions of those types, use of a struct type before its definition, methods, imports of native packages (plain and parenthesised) and their use, println, call statements, a final expression; every 4th program with failing statements: index out of range, undefined function, division by zero, panic, undefined package member (compile error), field of nil) evaluated in ONE Eval call and, on a fresh VM sharing one evalImports map like cli.go, for EVERY cutting into consecutive chunks when <= 8 statements (one statement per Eval included), else the finest cutting + every single cut + 40 random ones; compared: stdout, (type, String) of every declared global read back by index, returned values (the chunks' values concatenated = the single call's), error / no-error; for a single call that fails while running: the cutting stopped at its first failing chunk must have produced the same stdout and globals; mismatches are shrunk by dropping statements.  Adversarial templates over the compile-time / run-time interaction points (type values bound at run time, type names re-bound, later type declarations, statements beginning with ( or - after ';') are evaluated under every cutting and reported as failing inputs")],
        assumptions=["Model/VM.v exec / call_fn is goatlang's dispatch loop (tie: vm-corr run-level correspondence, C07/C02 packages); objects outside its fragment enter as oracles ext_get .. ext_setattr, the theorems hold for every oracle",
                     "a top-level statement's compilation talks to the VM only through Globals.Index / Exists / Read(.t == typeType, .Int()) / Write|Set, the Imports map and Locals (Model/Incr.v tstmt is the general form of such a compile function); the transcribed cases s_* cover name resolution, call-vs-conversion, basic type declarations, imports",
                     "hypotheses of the run theorem c18_run are decidable and checked on every real chunk by c18-corr: closedb (jumps of top-level instructions stay inside the chunk, no top-level RETURN, function bodies complete), slots_okb (slot operands within the chunk's Locals.Cap() slots; proved sufficient: c18_exec_shift), fewer than 2^15 top-level slots per call (joinParams); a top-level `return` is outside the property (it ends the single call but only its own Eval)",
                     "hypotheses no_leftover (only the last chunk may leave operands; with expression statements in the middle the single call returns the concatenation of the chunks' values: checked by c18-script), globals_len, reads_stable and writes_invisible (Model/Incr.v incr_hyps); the last two FAIL for programs that use a type as a value: see Props/C18.v c18_reads_diverge / c18_writes_diverge and the adversarial failing inputs",
                     "instruction positions (relative to the text of each call) only feed error messages and backtraces: not compared",
                     "the top-level peephole pass fires across no statement boundary (checked by c18-corr: the single call's code is the concatenation of the chunks' codes)",
                     "the host shares one evalImports map between the calls (cli.go does; Props/C18.v c18_imports_shared shows what happens otherwise)"])


def replay(path):
    return V.generic_replay(path)
