"""C17 reloading swaps code in place and keeps state."""
import vcheck as V

PROPS = ["Props/C17.v"]


def run(chk):
    V.generic_run(chk, PROPS,
        corr=[dict(name="reload machine (Model/Reload.v vs one real VM per history: Load on swapped fstest.MapFS contents, vm.Call / vm.Func / vm.Get / vm.Set, Value.GetAttr / SetAttr, NewStruct, generated script drivers; the instruction list of every Load is decompiled from the code the real compiler produced; answers = body tags printed, receiver ids, VerifSameObject, scalar globals, run-time errors)",
                   cmd="c17-corr", stats="C17_corr_stats.json", n_quick=300, n_thorough=4000)],
        system=[dict(name="reload histories on the real VM with native oracles", cmd="c17-script", stats="C17_script_stats.json", n_quick=700, n_thorough=15000,
                     what="generated package families (2-4 versions, same function/method/type/variable names, bodies differ; variables with and without initialiser incl. `var s = f`, `var r = &T{h: f}`, `var b = r.M`, `var z = f(c)`), histories of Load / captures (host Values kept across reloads, script globals, struct fields, bound methods) / calls / stores / counters: (i) reload of unchanged source: every function-typed reference answers as before; (ii) after Load(vj) every call through every reference prints vj's tags, nested calls and initialisers included; (iii) `var n int` keeps counting, `var m = c` is reset; (iv) final behaviour equals a fresh VM that loads only the last version and replays the stores; (v) beyond the quantifier: a version that adds a field and a method to a struct type with live instances. Failing histories are shrunk op by op")],
        assumptions=["versions of a package declare the same type, method, function and variable names with the same kinds; they differ in function and method bodies (the property's quantifier); signatures unchanged (newMethod copies Args/Rets/Variadic when the bound method is made)",
                     "scripts and host never assign to the name of a declared function or type (Go forbids it; vm.Set on such a name is outside the theorems: GLOBALFUNC would then overwrite whatever object the name holds)",
                     "c17_idem: initialisers are constants or references to declared functions (an initialiser that allocates gives a new object per Load; `var a = b` with b declared later is order-dependent); other initialisers are covered by the differential",
                     "model values are int32 scalars, nil, function / type / instance references: Value.assign (GLOBALSET, SetIndex) is the identity on them; a body is identified by the first integer literal it pushes",
                     "the funcT that FUNC allocates just before `*old = *new` is dropped at once and gets no address in the model; objects are never collected (unreachable objects are unobservable)",
                     "top-level code is run in treeSort order: types, methods, functions, then variables in source order (C15/C16); no init() functions with side effects on kept state in the theorems"])


def replay(path):
    return V.generic_replay(path)
