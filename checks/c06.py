"""C06 break, continue and return always reach the target Go specifies."""
import json
import os
import tempfile

import vcheck as V

PROPS = ["Props/C06.v"]

VECTORS = ("each function is run under systematically enumerated answer vectors: all 2^m boolean vectors for its conditions "
           "(m = number of conditions, +1 when a loop can re-evaluate them, up to 4 bits; beyond that also sampled longer vectors), "
           "every range length in {0,1,2} per range expression, every switch tag value hitting the first and last value of each case "
           "and the default; the product thinned to 24 (quick) / 32 (thorough) vectors per function")


def run(chk):
    V.generic_run(chk, PROPS,
        corr=[dict(name="ctl(Model/Ctl.v compile_ctl vs the real compiler, optimizer off, instruction for instruction incl. offsets and slots; "
                        "real VM, optimizer off, vs Go's semantics (GoSpec/GoCtl.v) and vs the abstract machine under enumerated answer vectors; "
                        "deep search (all vectors up to 8 condition bits) on every function whose code differs from the model)",
                   cmd="c06-corr", stats="C06_corr_stats.json", n_quick=200, n_thorough=3000),
              dict(name="gospec(GoSpec/GoCtl.v evaluator, and the harness's rendering of it, vs the traces of the same skeleton programs built with the Go toolchain)",
                   cmd="c06-spec", stats="C06_spec_stats.json", n_quick=150, n_thorough=3000)],
        system=[dict(name="skeleton programs vs Go (default Load path, optimizer on)", cmd="c06-script", stats="C06_script_stats.json",
                     n_quick=6, n_thorough=30,
                     what="control skeletons over emit(l)/c(k)/rs(k)/tg(k): every well-formed nesting of if / if-else / else-if chains (with and without init statement), "
                          "for (all 8 three-clause header shapes, `for {`, `for cond {`), for-range, switch (tagged and tagless, 0..3 cases, multi-value case lists, default absent "
                          "or at every position) with break, continue and return at every position, enumerated exhaustively up to 2 (quick) / 3 (thorough) control nodes, each with an "
                          "emit before every statement, once with and once without an emit closing every block; the exit-tail family (then-branches and case blocks ending in return / "
                          "break / continue directly or under a nested if / else-if / switch / default / loop, followed by an else branch, an else-if chain, another case or the default; "
                          "at top level, in for, in range, in switch-in-for); depth-bounded random skeletons with such tails; "
                          "CONDITION FORMS (optimizer-on runs only; a harness-level refinement -- the skeleton language of GoSpec/GoCtl.v and the theorems keep atomic oracle calls, "
                          "the expected trace of a compound form is computed by the harness's Go rendering of the evaluator with Go's short-circuit order and is validated against `go build` "
                          "on three vectors per function): every if / else-if / for condition and tagless case guard is rendered as c(k), !c(k), !!c(k), c(k) && c(k'), c(k) || c(k'), "
                          "c(k) && !c(k'), c(k) || !c(k'), !(c(k) && c(k')) or c(k) == false (55% non-atomic), tagged switch tags as tg(k), -(-tg(k)), tg(k) + 0 or tg(k) & 15; the "
                          "negated-condition family (tagless switches whose later cases are negated / compound after an earlier case that is taken, with and without an executed break, "
                          "default absent / last / first, standing at top level or ending a range body, a three-clause for body with post statement or a `for { ...; break }` body, always "
                          "followed by statements; every condition form in if, if-else and for); " + VECTORS +
                          "; every goatlang run is compared with Go's semantics (GoCtl, validated against the Go toolchain) and three runs per function with the `go build` output itself")],
        assumptions=["calls emit(l), c(k), rs(k), tg(k) in the abstract machine are atomic: PUSH/GLOBALGET/CALL of a user function returns to the next instruction with the operand stack restored and (for c, rs, tg) one result pushed (function calls are property C09's subject; tie: the run-level correspondence KRun compares real VM traces of whole functions)",
                     "the test functions have no parameters and no locals other than the compiler temporaries of range (iterator + blank key/value slot) and tagged switch (tag slot); lookup hands out slots by a counter that never decreases inside a function (checked instruction for instruction by KCode)",
                     "optimizer off in the theorems (the optimized path is property C02; the system-level differential runs with the optimizer on)",
                     "Go semantics of skeleton programs = GoSpec/GoCtl.v (validated on every run against the installed Go toolchain: KSem cases; the harness's Go rendering of it is validated against the toolchain traces and, where a failing input is reported, by a KRef case)"])


def replay(path):
    """prints the stored records and re-runs the first failing program with goatlang and the Go toolchain"""
    V.generic_replay(path)
    data = json.load(open(path))
    for rec in data.get("failing_inputs", [])[:1]:
        if isinstance(rec, dict) and rec.get("src"):
            with tempfile.NamedTemporaryFile("w", suffix=".go", delete=False) as f:
                f.write(rec["src"])
            rc, out = V.harness(["probe", "-file", f.name])
            os.unlink(f.name)
            print(out[-3000:])
            exp = "\n".join(rec.get("expected_trace", []))
            go_part = out.split("--- goat")[0]
            goat_part = out.split("--- goat")[-1].split("\n", 1)[-1] if "--- goat" in out else ""
            same = goat_part.strip() == go_part.split("\n", 1)[-1].strip()
            print("replay: goatlang and the Go toolchain %s on this program" % ("AGREE" if same else "DISAGREE"))
            return 0 if same else 1
    return 0
