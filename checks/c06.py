"""C06 break, continue and return always reach the target Go specifies."""
import vcheck as V

PROPS = ["Props/C06.v"]


def run(chk):
    V.generic_run(chk, PROPS,
        corr=[dict(name="ctl(Model/Ctl.v compile_ctl vs the real compiler, optimizer off, instruction for instruction incl. offsets and slots; abstract machine vs the real VM, optimizer off, trace for trace)",
                   cmd="c06-corr", stats="C06_corr_stats.json", n_quick=200, n_thorough=3000),
              dict(name="gospec(GoSpec/GoCtl.v evaluator vs the traces of the same skeleton programs built with the Go toolchain)",
                   cmd="c06-spec", stats="C06_spec_stats.json", n_quick=300, n_thorough=4000)],
        system=[dict(name="skeleton programs vs Go toolchain (default Load path, optimizer on)", cmd="c06-script", stats="C06_script_stats.json",
                     n_quick=7, n_thorough=40,
                     what="control skeletons over emit(l)/c(k)/rs(k)/tg(k): every well-formed nesting of if / if-else / else-if chains (with and without init statement), for (all 8 three-clause header shapes, `for {`, `for cond {`), for-range, switch (tagged and tagless, 0..3 cases, multi-value case lists, default absent or at every position) with break, continue and return at every position, enumerated exhaustively up to 2 (quick) / 3 (thorough) control nodes and decorated with an emit before every statement and at the end of every block, then depth-bounded random skeletons; conditions, range lengths and tags computed from a call counter and a per-function seed so paths are data dependent; traces (every emit, condition, range expression and tag evaluation) compared per function with `go build` output")],
        assumptions=["calls emit(l), c(k), rs(k), tg(k) in the abstract machine are atomic: PUSH/GLOBALGET/CALL of a user function returns to the next instruction with the operand stack restored and (for c, rs, tg) one result pushed (function calls are property C09's subject; tie: the run-level correspondence KRun compares real VM traces of whole programs)",
                     "the test functions have no parameters and no locals other than the compiler temporaries of range (iterator + blank key/value slot) and tagged switch (tag slot); lookup hands out slots by a counter that never decreases inside a function (checked instruction for instruction by KCode)",
                     "optimizer off in the theorems (the optimized path is property C02; the system-level differential runs with the optimizer on)",
                     "Go semantics of skeleton programs = GoSpec/GoCtl.v (validated on every run against the installed Go toolchain: KSem cases)"])


def replay(path):
    return V.generic_replay(path)
