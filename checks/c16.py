"""C16 declaration order and file layout."""
import vcheck as V
PROPS = ["Props/C16.v"]
def run(chk):
    V.generic_run(chk, PROPS,
        corr=[dict(name="treesort(Model/TreeSort.v with the generated priority table vs real treeSort through hook VerifTreeSort)", cmd="c16-corr", stats="C16_corr_stats.json", n_quick=400, n_thorough=5000)],
        system=[dict(name="permutations and file partitions", cmd="c16-perm", stats="C16_perm_stats.json", n_quick=12, n_thorough=150,
                     what="generated packages (struct types, methods, mutually calling functions, constants, initialised variables, init, main): 6 random permutations of the hoistable declarations x random partitions into 1..4 files must print what the canonical layout prints, which must equal the Go toolchain's output")],
        assumptions=["sort.SliceStable returns the stable sorted permutation (its documented contract; c16_sort_unique shows this determines the result)",
                     "fs.Glob returns the files of a directory in name order"])
def replay(path):
    return V.generic_replay(path)
