"""C08 lexical block scoping."""
import vcheck as V
PROPS = ["Props/C08.v"]
def run(chk):
    V.generic_run(chk, PROPS,
        corr=[dict(name="lookup(Model/Lookup.v vs the real lookup + compiler.Shadow/Begin/End through hook VerifLookup: slot answers of every Declare/Resolve, slot count)", cmd="c08-corr", stats="C08_corr_stats.json", n_quick=600, n_thorough=8000)],
        system=[dict(name="scope programs vs Go toolchain", cmd="c08-script", stats="C08_script_stats.json", n_quick=12, n_thorough=200,
                     what="generated Go programs redeclaring x, y, z (:=, var, var with initialiser) in function bodies, if/else-if/else (with init statements), for (loop variable included), range, switch cases and default, parameters shadowing globals, nesting depth 2..5, with reads and writes before, inside and after each block; stdout compared with `go build` (int read as int32)")],
        assumptions=["identifiers never start with '~' and are not empty (text/scanner); compiler temporaries (position strings) are unique per site",
                     "Go semantics of the generated programs = the installed Go toolchain"])
def replay(path):
    return V.generic_replay(path)
