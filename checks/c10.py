"""C10 script maps behave like Go maps under any history."""
import vcheck as V

PROPS = ["Props/C10.v"]


def run(chk):
    V.generic_run(chk, PROPS,
        corr=[dict(name="omap(Model/OMap.v vs NewMap/Get/Set/Delete/Len/Range of the host API, nested mutation during range)", cmd="c10-corr", stats="C10_corr_stats.json", n_quick=300, n_thorough=3000)],
        system=[dict(name="script maps vs native Go map + range contract", cmd="c10-script", stats="C10_script_stats.json", n_quick=800, n_thorough=20000,
                     what="generated scripts over int/string/bool/float64/uint8 keyed maps (insert, update, delete, lookup, comma-ok, len, range with mutation in the body); output replayed against a native Go map along the printed visit order, range contract checked (no dead key, at most once, live-throughout keys visited)")],
        assumptions=["Go's built-in map (m.data) is a finite map; maps.Keys returns some permutation of its keys (oracle: the order read back through Range after each Delete)",
                     "NaN keys excluded (property statement); float keys are compared as float64 values"])


def replay(path):
    return V.generic_replay(path)
