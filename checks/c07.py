"""C07 statements are stack-neutral and call frames are isolated on every path."""
import vcheck as V

PROPS = ["Props/C07.v"]


def run(chk):
    V.generic_run(chk, PROPS,
        corr=[dict(name="check_code(Model/StackCheck.v, the verified checker, evaluated by vm_compute on the REAL compiler output -- hooks VerifLoadTrace / VerifCompile, optimizer off and on -- of every generated program (scope, core, fault, stack profiles) and every test-table string that compiles; mutants of real function bodies as negative control; each case carries the verdict and first offending pc predicted by the harness's Go mirror of the checker, which Coq confirms)",
                   cmd="c07-check", stats="C07_corr_stats.json", n_quick=80, n_thorough=600),
              dict(name="vm(Model/VM.v, whose call_fn builds every frame from the typed arguments and nil slots, runs the real compiled code of generated frame-hygiene programs: functions whose locals are initialised from untyped constants and used type-sensitively, called after float64 / uint8 / int8 / bool / slice work at the same or deeper stack positions; output, success/failure and failing position must agree, optimizer on and off alternating)",
                   cmd="c07-vmcorr", stats="C07_vmcorr_stats.json", n_quick=24, n_thorough=300)],
        system=[dict(name="stack-discipline programs vs Go toolchain; statements-only Eval leaves no values", cmd="c07-script", stats="C07_script_stats.json", n_quick=12, n_thorough=300,
                     what="generated Go programs (10 functions each) with break / continue / return out of nested for / range / switch inside called functions while main holds live locals printed after every call, calls in for init/post, call statements dropping 1-3 results, multi-value assignment from calls and methods, variadic and spread calls, struct / map / slice literals, case lists, recursion 40 deep through loops: stdout compared with `go build` (int read as int32); generated statements-only snippets and the statements-only test-table strings through VM.Eval must return no residual values; frame hygiene: generated programs whose functions initialise locals from untyped constants (n := 7, k := 300, var q = 1) or declare them with var x T and use them type-sensitively (/, %, + past 255, * 1000000), called as statements, later operands, later arguments, loop bodies, && operands and from nested depths right after float64 / uint8 / int8 / string / bool / slice work (functions, methods, recursion) at the same stack positions, run through Load+Call and Eval by Eval on one VM against `go build`; structural probe through the real dispatch loop (hook VerifExec): hand-assembled dirty frames followed by a function returning its untouched slots -- every non-parameter slot must be nil on entry")],
        assumptions=[
            "the split-frame model (Model/VM.v: per-frame slots + operand list) refines the real flat stack of do.go/vm.go: an access below the frame's operands in the real VM is RStuck in the model; justified by the run-level correspondence vm-corr (C02) and by the dynamic differential c07-script, not proved",
            "Model/StackCheck.v effect table = do.go: for the opcodes of Model/VM.v this is the theorem (step_sound, per opcode); for the opcodes outside the VM model (NEWMAP, GETOK, DELETE, STRUCT, GLOBALSTRUCT, NEWSTRUCT, SETMETHOD) the effect is read off do.go by hand and exercised only by c07-script",
            "objects outside the modelled fragment keep the state invariant st_ok (hypotheses ext_set_ok / ext_getattr_ok / ext_setattr_ok): maps, structs and host objects do not remove globals and do not put function objects with unchecked bodies on the heap; natives other than the print family are outside the VM model (RUnmod)",
            "two stuck reasons of the model are dangling heap references, not stack accesses, and are excluded from c07_sound (heap_reason): GLOBALFUNC of a function value whose object is missing, ITER position outside its backing array",
            "a rejection of a test-table string counts as a failing input only if Go's parser and type checker accept the string as a program of statements/declarations (unused variables tolerated); other strings are checked with the exit depth left free",
            "universality over programs: the theorems hold for every code list the checker accepts; that the compiler's output is always accepted is established per program (all generated programs and test-table inputs of the run), not for the compiler as a function"])


def replay(path):
    return V.generic_replay(path)
