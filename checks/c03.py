"""C03 No input can take the embedding host down."""
import os
import vcheck as V

PROPS = ["Props/C03.v"]


def run(chk):
    V.generic_run(chk, PROPS,
        corr=[dict(name="host(Model/Host.v vs Eval / Load: the same input without and with the dump options; the model, given how far the stages got and the facts about the top tree read through the parse hook (nil child, import paths, strconv.Unquote verdicts), must predict Ok / the error prefix / the site of the escaping panic)",
                   cmd="c03-corr", stats="C03_corr_stats.json", n_quick=250, n_thorough=2500)],
        system=[dict(name="fuzz of Eval / Load / Call / Func in child processes (recover + 5 s watchdog around every call; stages run separately first through VerifTokens / VerifParse / VerifCompile / VerifLoadOrder)",
                     cmd="c03-fuzz", stats="C03_fuzz_stats.json", n_quick=5000, n_thorough=40000,
                     what="two seeded input streams: mostly-valid (generated programs, the repository's test-table strings, hand-written seeds and their mutations: token deletion/duplication/transposition, truncation, bracket unbalancing, corrupt literals, stray symbols, keywords in odd places, nesting to depth 2000, empty operands, missing returns, type names as values, import forms) and malformed (random bytes, token soups, NUL, invalid UTF-8, very long lines / identifiers / many lines, empty input, comments); Load on random in-memory trees (broken / empty files, no or conflicting package clause, cycles, self-import, missing imports, _test.go, build tags, no .go files, deep paths, file vs directory argument, weird arguments); all 8 option subsets; Call / Func with missing names, non-functions, wrong arities, result counts 0..5 and out of range, natives, values of the wrong kind.  Failing = a panic that leaves an entry point or a stage, a front-end stage that does not return in 5 s, a child killed by a Go fatal error outside the running script, an error from Eval / Load without a stage prefix; each class is minimised by delta debugging"),
                dict(name="recursion depth (finding candidates, children only)", cmd="c03-deep", stats="C03_deep_stats.json", n_quick=1, n_thorough=1,
                     what="smallest nesting depth at which a child process dies with Go's unrecoverable 'stack overflow' (parentheses, additions, nested blocks, and a TERMINATING recursive script); both tiers at Go's default stack limit; since /repo limits nesting to 10000 levels (fix efe2cfa) every front-end family must survive, with a parse or compile error, up to 4 M (quick) / 8 M (thorough) levels; a death is a failing input of kind deep-nesting")],
        assumptions=[
            "PROVED (Print Assumptions: closed): with the glue and handlers of Model/Host.v exact (loadImports' deferred recover, rawLoadPackage's nil-fs guard, the nil-safe token.String, newPos' clamp16, Load's prefixed 'unexpected returns'), no panic escapes Eval / Load / Call / Func GIVEN entry_hyps (c03_contain); the loader needs no hypothesis at all (c03_loader_contained: unquotable import paths, nil nodes, nil fs.FS, panics while reading imported packages); every error of Eval and of Load carries a stage prefix (c03_prefix, c03_prefix_load, no exception left); token list non-empty and (eof)-terminated => parse's handler finds p.Token non-nil (c03_inv_tokens); newPos/pos.info keep every field in place for ARBITRARY indices, lines and columns (c03_inv_pos_roundtrip, c03_inv_pos_string); btErr total for every frame.N and backtrace (c03_inv_bterr_total); loadImports returns the top package at least (c03_inv_pkgs_nonempty); treeDump's s[3:len(s)-1] in range for every tree loadImports hands on, nil operands included (c03_inv_tree_dump); Func/Call contain every requested result count (c03_inv_func); only the running script or a worklist that exhausts its budget can hang an entry point (c03_hang, c03_hang_load)",
            "PROVED termination: Pratt loop on ANY token list within |tokens|+1 (c03_terminates_pratt), loader worklist on every finite import-closed universe within 2 + #import entries (c03_terminates_load, proved here on Model/Loader.v; it does not rely on C15's c15_terminates), lookup renamers (c03_terminates_lookup = C08), peephole fuel (c03_terminates_peephole), cursor discipline of every statement-level parser loop on the skeleton Model/Cursor.v (c03_parse_progress_partial / _general), recursion depth <= |tokens|+1 (c03_depth_bound)",
            "DISCHARGED by the repo fixes bc98689 371cd14 47eb9a0 29c9c35 6607b34 (no longer hypotheses; the former c03_escape_* examples are now c03_fixed_*): import paths need not unquote; the fs.FS may be nil; parse trees may contain nil operands with WithTreeDump on; line, column and global indices need not fit 16 bits; Load's 'unexpected returns' is prefixed",
            "ASSUMED (entry_hyps), TESTED by c03-fuzz, no counterexample on the current tree: text/scanner and tokenize do not panic (ea_scan <> ScanPanic); the positions on running / dumped code were stamped by newPos with indices lookup.Index returned, and no key of the globals table is empty and keys are never removed (vmstate_ok, keys_ok); the operands instruction.String passes to lookup.Key are valid global indices (comp_beh_ok, only with WithCodeDump); for Load: reading the ARGUMENT package (rawLoadPackage / rawLoadFile / joinFiles, which run outside loadImports' recover) does not panic, i.e. a top-level 'package' node has a child and the file lists are non-empty where indexed (la_top <> TopPanic)",
            "ASSUMED by the shape of the model, TESTED by c03-corr / c03-fuzz: p.Token is assigned only from p.Tokens[p.N] (parse.go:78); parse returns the node &token{Text:\"_\"} with the statements appended and joinFiles returns symAtPos(pos, \"_\") with the files' nodes (so package trees have the text \"_\"); fs.FS methods return; natives called through Func do not kill the process",
            "ASSUMED, NOT TESTED: Model/Cursor.v goat_table is a hand transcription of the control skeleton of parse.go / symbol.go (no hook exposes the cursor); termination of compile is argued from structural recursion on the finite tree plus c03_terminates_lookup / c03_terminates_peephole (no Coq model of compiler.compile exists); Go's text/scanner, strconv, fmt, io/fs are total",
            "EXCEPTED by the property: a script that does not terminate (watchdog timeouts in the run stage and children that die from unbounded script recursion are counted, not failed)",
            "DEEP NESTING OF SOURCE (Go's stack overflow is fatal, not recoverable): /repo bounds every recursion of the front end at 10000 levels (efe2cfa: parser.Expression and compiler.compile; 41e9d12: prefix-operator chains and nested types).  c03-deep checks in child processes, on every run, that 4 M nested parentheses, a 4 M-term 1+1+...+1 chain, 4 M prefix operators, 4 M nested blocks and 4 M nested slice types return 'nested too deeply' errors; a child that dies of stack overflow there is a failing input of kind 'deep-nesting'.  The fuzz streams nest to 20000.  Terminating scripts that exhaust memory or recurse ~450 K deep are the running script's own resource use and are listed as candidates only",
            "CYCLIC DATA: the fuzz contains terminating scripts that build values containing themselves (slices, slices of slices to depth 4, maps, struct rings, mixed) and render them through println / print / fmt.Print / Println / Sprint / Sprintf / string concatenation / panic(v) / errors.New, by returning them to the host (the child prints every value Eval / Call / Func hand back) and by leaving them on the stack of a Load ('unexpected returns: %v'); a mutation operator splices such fragments into other programs.  A child killed by a fatal error whose innermost frames do not cycle through VM.exec (a recursion of the host side, e.g. the value stringer) is a failing input of kind 'host-dies', minimised with one child per candidate; only a recursion of the script itself is excepted",
        ])
    # the recursion-depth experiment has no pass/fail of its own: copy its table into the evidence
    st = os.path.join(V.CASES, chk.pid, "C03_deep_stats.json")
    try:
        import json
        ex = json.load(open(st))["extra"]
        chk.coverage["recursion_depth_candidates"] = ex["deep"]
        chk.coverage["memory_exhaustion_candidates"] = ex.get("terminating_scripts_that_exhaust_memory")
    except Exception:
        pass


def replay(path):
    rc, out = V.harness(["c03-replay", "-file", path], timeout=600)
    print(out[-6000:])
    if rc != 0:
        return V.generic_replay(path)
    return 0
