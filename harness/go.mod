module verifharness

go 1.20

require github.com/philhassey/goatlang v0.0.0

require golang.org/x/exp v0.0.0-20230224173230-c95f2b4c22f2 // indirect

replace github.com/philhassey/goatlang => /repo
