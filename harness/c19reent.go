package main

import (
	"fmt"
	"strings"
	"testing/fstest"

	g "github.com/philhassey/goatlang"
)

// ---------------------------------------------------------------------------
// C19 re-entrancy oracle (native).
//
// A native `rec(n, tag...)` built with every NewFunc form that takes arguments
//   (a) snapshots and logs the arguments it was handed,
//   (b) if n > 0 calls back into the VM -- a script function through vm.Func, a script function through
//       vm.Call, or ITSELF through vm.Func without any script -- and the callee invokes the SAME native value
//       again with n-1 and different tags,
//   (c) after the callback returns re-reads its args slice (and the spread items of the variadic form), compares
//       them with the snapshot, and answers a value computed from the args AS THEY ARE NOW.
// An invocation's arguments belong to that invocation: the nested invocation of the same native value must not
// change what the outer one reads.  The expected log and results are computed here with plain Go recursion.

type c19ReForm struct {
	name     string
	rets     int
	variadic bool
}

var c19ReForms = []c19ReForm{
	{"func(vm, args)  N->0", 0, false},
	{"func(vm, args) Value  N->1", 1, false},
	{"func(vm, args) []Value  N->M, 1 result", 1, false},
	{"func(vm, args) []Value  N->M, 2 results", 2, false},
	{"func(vm, args, vargs...) []Value  N,...->M", 1, true},
}

var c19ReModes = []string{"script callback through vm.Func", "script callback through vm.Call", "host only: the native calls itself through vm.Func"}

// tags: position j holds an int when j is even, a string when j is odd
type c19ReTag struct {
	str bool
	i   int
	s   string
}

func (t c19ReTag) value() g.Value {
	if t.str {
		return g.String(t.s)
	}
	return g.Int(t.i)
}

// next: what the callee passes one level down (script: t+100 / t+"x")
func (t c19ReTag) next() c19ReTag {
	if t.str {
		return c19ReTag{str: true, s: t.s + "x"}
	}
	return c19ReTag{i: t.i + 100}
}

func c19ReShow(v g.Value) string {
	if v.Type() == g.TypeString {
		return fmt.Sprintf("%q", v.String())
	}
	return fmt.Sprintf("%s(type %d)", v.String(), int(v.Type()))
}

func c19ReShowAll(vs []g.Value) string {
	p := make([]string, len(vs))
	for i, v := range vs {
		p[i] = c19ReShow(v)
	}
	return "[" + strings.Join(p, " ") + "]"
}

func c19ReParams(n int, tags []c19ReTag) []g.Value {
	p := []g.Value{g.Int(n)}
	for _, t := range tags {
		p = append(p, t.value())
	}
	return p
}

// c19ReExpect: the result string and the enter log of rec(n, tags...), by plain recursion
func c19ReExpect(n int, tags []c19ReTag, log *[]string) (string, int) {
	all := c19ReParams(n, tags)
	*log = append(*log, c19ReShowAll(all))
	inner, cnt := "", 0
	if n > 0 {
		nt := make([]c19ReTag, len(tags))
		for i, t := range tags {
			nt[i] = t.next()
		}
		inner, cnt = c19ReExpect(n-1, nt, log)
	}
	return c19ReResult(all, inner), cnt + 1
}

func c19ReResult(all []g.Value, inner string) string {
	return c19ReShowAll(all) + "{" + inner + "}"
}

func c19ReScript(f c19ReForm, tags []c19ReTag) string {
	var ps, as, ns []string
	ps = append(ps, "n int")
	as = append(as, "n")
	ns = append(ns, "n-1")
	for j, t := range tags {
		if t.str {
			ps = append(ps, fmt.Sprintf("t%d string", j))
			ns = append(ns, fmt.Sprintf("t%d+\"x\"", j))
		} else {
			ps = append(ps, fmt.Sprintf("t%d int", j))
			ns = append(ns, fmt.Sprintf("t%d+100", j))
		}
		as = append(as, fmt.Sprintf("t%d", j))
	}
	p, a, n := strings.Join(ps, ", "), strings.Join(as, ", "), strings.Join(ns, ", ")
	switch f.rets {
	case 0:
		return fmt.Sprintf("package main\nfunc cb(%s) { rec(%s) }\nfunc start(%s) { rec(%s) }\n", p, n, p, a)
	case 1:
		return fmt.Sprintf("package main\nfunc cb(%s) string { return rec(%s) }\nfunc start(%s) string { s := rec(%s); return s }\n", p, n, p, a)
	}
	return fmt.Sprintf("package main\nfunc cb(%s) (string, int) { s, c := rec(%s); return s, c }\nfunc start(%s) (string, int) { s, c := rec(%s); return s, c }\n", p, n, p, a)
}

// c19Reentrancy runs every form x mode x argument count 1..4 x depth 1..4 (the variadic form with every
// split of the arguments into fixed and surplus ones), reps times with different tag values.
func c19Reentrancy(st *stats, r *rng, reps int) {
	for rep := 0; rep < reps; rep++ {
		for fi, f := range c19ReForms {
			for mi := range c19ReModes {
				for k := 1; k <= 4; k++ {
					for depth := 1; depth <= 4; depth++ {
						if !f.variadic {
							c19ReCase(st, r, fi, mi, k, depth, k)
							continue
						}
						for fixed := 1; fixed <= k; fixed++ {
							c19ReCase(st, r, fi, mi, k, depth, fixed)
						}
					}
				}
			}
		}
	}
}

// c19ReCase: k arguments in all (n and k-1 tags); fixed = number of non-surplus arguments (variadic form only)
func c19ReCase(st *stats, r *rng, fi, mi, k, depth, fixed int) {
	f, mode := c19ReForms[fi], c19ReModes[mi]
	tags := make([]c19ReTag, k-1)
	for j := range tags {
		if j%2 == 1 {
			tags[j] = c19ReTag{str: true, s: string(rune('a'+r.intn(26))) + string(rune('a'+r.intn(26)))}
		} else {
			tags[j] = c19ReTag{i: 1 + r.intn(90)}
		}
	}
	viaScriptStart := mi != 2 && r.chance(50)

	var enter, problems []string
	last, lastCnt := "", 0 // result of the invocation that finished last (the N->0 form has no other channel)
	vm := g.New()
	var self g.Value

	body := func(vm *g.VM, a, va []g.Value) []g.Value {
		snapA, snapV := c19Copy(a), c19Copy(va)
		all := append(c19Copy(a), va...)
		enter = append(enter, c19ReShowAll(all))
		if len(all) != k {
			problems = append(problems, fmt.Sprintf("invocation received %d arguments, want %d", len(all), k))
			panic("c19 re-entrancy: wrong argument count")
		}
		n := a[0].Int()
		inner, cnt := "", 0
		if n > 0 {
			var out []g.Value
			var err error
			switch mi {
			case 0:
				out, err = vm.Func(vm.Get("main.cb"), f.rets, all...)
			case 1:
				out, err = vm.Call("main.cb", f.rets, all...)
			default:
				p := []g.Value{g.Int(n - 1)}
				for j := range tags {
					if all[1+j].Type() == g.TypeString {
						p = append(p, g.String(all[1+j].String()+"x"))
					} else {
						p = append(p, g.Int(all[1+j].Int()+100))
					}
				}
				out, err = vm.Func(self, f.rets, p...)
			}
			if err != nil {
				panic(err)
			}
			switch f.rets {
			case 0:
				inner, cnt = last, lastCnt
			case 1:
				inner, cnt = out[0].String(), lastCnt
			default:
				inner, cnt = out[0].String(), out[1].Int()
			}
		}
		// (c) the args slice after the nested invocation of the same native value
		if got, want := c19ReShowAll(a), c19ReShowAll(snapA); got != want {
			problems = append(problems, fmt.Sprintf("invocation with args %s: after the callback returned its args slice reads %s", want, got))
		}
		if got, want := c19ReShowAll(va), c19ReShowAll(snapV); got != want {
			problems = append(problems, fmt.Sprintf("invocation with surplus arguments %s: after the callback returned they read %s", want, got))
		}
		now := append(c19Copy(a), va...)
		last, lastCnt = c19ReResult(now, inner), cnt+1
		if f.rets == 2 {
			return []g.Value{g.String(last), g.Int(lastCnt)}
		}
		return []g.Value{g.String(last)}
	}
	argc := k
	switch {
	case fi == 0:
		self = g.NewFunc(argc, 0, func(vm *g.VM, a []g.Value) { body(vm, a, nil) })
	case fi == 1:
		self = g.NewFunc(argc, 1, func(vm *g.VM, a []g.Value) g.Value { return body(vm, a, nil)[0] })
	case !f.variadic:
		self = g.NewFunc(argc, f.rets, func(vm *g.VM, a []g.Value) []g.Value { return body(vm, a, nil) })
	default:
		argc = fixed + 1
		self = g.NewFunc(argc, f.rets, func(vm *g.VM, a []g.Value, va ...g.Value) []g.Value { return body(vm, a, va) })
	}
	vm.Set("main.rec", self)

	src := ""
	var out []g.Value
	var err error
	params := c19ReParams(depth, tags)
	escaped := c19Guard(func() {
		if mi != 2 || viaScriptStart {
			src = c19ReScript(f, tags)
			if err = vm.Load(fstest.MapFS{"main/main.go": &fstest.MapFile{Data: []byte(src)}}, "main"); err != nil {
				return
			}
		}
		if viaScriptStart {
			out, err = vm.Call("main.start", f.rets, params...)
		} else {
			out, err = vm.Func(self, f.rets, params...)
		}
	})

	var wantLog []string
	want, wantCnt := c19ReExpect(depth, tags, &wantLog)
	got, gotCnt := last, lastCnt
	if escaped == "" && err == nil && len(out) == f.rets {
		if f.rets >= 1 {
			got = out[0].String()
		}
		if f.rets == 2 {
			gotCnt = out[1].Int()
		}
	}
	desc := fmt.Sprintf("form %s | %s | %d argument(s) | depth %d", f.name, mode, k, depth)
	if f.variadic {
		desc += fmt.Sprintf(" | NewFunc argc %d (%d fixed, %d surplus)", argc, fixed, k-fixed)
	}
	st.add("re-entrancy "+f.name+" / "+mode, desc+" "+c19ReShowAll(params))
	if escaped != "" || err != nil || len(out) != f.rets || got != want || gotCnt != wantCnt || len(problems) > 0 || strings.Join(enter, " ; ") != strings.Join(wantLog, " ; ") {
		entry := "vm.Func(rec, " + fmt.Sprint(f.rets) + ", " + c19ReShowAll(params) + ")"
		if viaScriptStart {
			entry = "vm.Call(\"main.start\", " + fmt.Sprint(f.rets) + ", " + c19ReShowAll(params) + ")"
		}
		st.mismatchG("native:reentrancy|"+f.name, map[string]any{"group": "native:reentrancy", "form": f.name, "mode": mode, "case": desc, "script": src, "entry": entry,
			"expected": want, "observed": got, "expected_invocations": wantCnt, "observed_invocations": gotCnt,
			"expected_args_log": wantLog, "observed_args_log": enter, "problems": problems, "error": fmt.Sprint(err), "escaped": escaped,
			"what": "a native invoked again (with other arguments) from inside its own callback: the outer invocation must still read the arguments it was called with after the callback returns"})
	}
}
