package main

import (
	"bytes"
	"encoding/json"
	"fmt"
	"math"
	"os"
	"sort"
	"strconv"
	"strings"

	g "github.com/philhassey/goatlang"
)

// ---- PRNG: splitmix64; every random choice in the harness comes from here ----

type rng struct{ s uint64 }

// newRng: the state is a MIX of the seed (with a plain affine start, the stream of seed k+1 is the stream of
// seed k shifted by one draw, so consecutive seeds generate the same programs one step apart)
func newRng(seed uint64) *rng {
	z := seed*0x9E3779B97F4A7C15 + 0x1234567
	z = (z ^ (z >> 30)) * 0xBF58476D1CE4E5B9
	z = (z ^ (z >> 27)) * 0x94D049BB133111EB
	return &rng{s: z ^ (z >> 31)}
}
func (r *rng) next() uint64 {
	r.s += 0x9E3779B97F4A7C15
	z := r.s
	z = (z ^ (z >> 30)) * 0xBF58476D1CE4E5B9
	z = (z ^ (z >> 27)) * 0x94D049BB133111EB
	return z ^ (z >> 31)
}
func (r *rng) intn(n int) int        { return int(r.next() % uint64(n)) }
func (r *rng) rangeI(lo, hi int) int { return lo + r.intn(hi-lo+1) }
func (r *rng) chance(p int) bool     { return r.intn(100) < p }
func pick[T any](r *rng, xs []T) T   { return xs[r.intn(len(xs))] }

// ---- Coq printers ----

func coqZ(z int64) string {
	if z < 0 {
		return fmt.Sprintf("(%d)", z)
	}
	return fmt.Sprintf("%d", z)
}

func coqFloat(f float64) string {
	switch {
	case math.IsNaN(f):
		return "fNaN"
	case math.IsInf(f, 1):
		return "(fInf false)"
	case math.IsInf(f, -1):
		return "(fInf true)"
	}
	s := strconv.FormatFloat(f, 'x', -1, 64)
	if strings.HasPrefix(s, "-") {
		return "(" + s + ")%float"
	}
	return s + "%float"
}

func isIntegral(f float64) bool {
	return !math.IsNaN(f) && !math.IsInf(f, 0) && f == math.Trunc(f) && math.Abs(f) <= 9007199254740992 && !(f == 0 && math.Signbit(f))
}

const tagFloat64 = 31
const tagString = 64

func coqNum(tag int, f float64) string {
	if tag != tagFloat64 && isIntegral(f) {
		return "(Zn " + coqZ(int64(f)) + ")"
	}
	return "(Fn " + coqFloat(f) + ")"
}

func coqBytes(s string) string {
	var p []string
	for i := 0; i < len(s); i++ {
		p = append(p, strconv.Itoa(int(s[i])))
	}
	return "[" + strings.Join(p, ";") + "]"
}

// coqValue renders scalar and string values; objects become (PRef 1).
func coqValue(v g.Value) string {
	tag := g.VerifTag(v)
	payload := "PNone"
	if tag == tagString && g.VerifHasObj(v) {
		payload = "(PStr " + coqBytes(v.String()) + ")"
	} else if g.VerifHasObj(v) {
		payload = "(PRef 1)"
	}
	return fmt.Sprintf("(mkValue %d %s %s)", tag, coqNum(tag, g.VerifNum(v)), payload)
}

// ---- stats ----

type stats struct {
	Cases      int               `json:"cases"`
	Distinct   int               `json:"distinct"`
	Histogram  map[string]int    `json:"histogram"`
	Samples    []string          `json:"samples"`
	Mismatches []json.RawMessage `json:"mismatches"`
	MismatchN  int               `json:"mismatch_count"`
	Groups     map[string]int    `json:"mismatch_groups"`
	Extra      map[string]any    `json:"extra,omitempty"`
	seen       map[string]bool
}

func newStats() *stats {
	return &stats{Histogram: map[string]int{}, seen: map[string]bool{}, Extra: map[string]any{}, Groups: map[string]int{}, Mismatches: []json.RawMessage{}, Samples: []string{}}
}
func (s *stats) add(class, key string) {
	s.Cases++
	s.Histogram[class]++
	if !s.seen[key] {
		s.seen[key] = true
		s.Distinct++
		if len(s.Samples) < 12 && s.Histogram[class] <= 2 {
			s.Samples = append(s.Samples, key)
		}
	}
}

// mismatch records a disagreement; only the first example of each group is kept.
func (s *stats) mismatchG(group string, v any) {
	s.MismatchN++
	s.Groups[group]++
	if s.Groups[group] > 1 || len(s.Mismatches) >= 200 {
		return
	}
	b, _ := json.Marshal(v)
	s.Mismatches = append(s.Mismatches, b)
}
func (s *stats) mismatch(v any) { s.mismatchG(fmt.Sprint(len(s.Mismatches)), v) }
func (s *stats) write(path string) {
	b, _ := json.MarshalIndent(s, "", " ")
	if err := os.WriteFile(path, b, 0o644); err != nil {
		fmt.Fprintln(os.Stderr, err)
		os.Exit(3)
	}
}

func sortedKeys[V any](m map[string]V) []string {
	var k []string
	for x := range m {
		k = append(k, x)
	}
	sort.Strings(k)
	return k
}

func must(err error) {
	if err != nil {
		fmt.Fprintln(os.Stderr, "harness:", err)
		os.Exit(3)
	}
}

// writeCases writes Coq case files of at most shard cases each:
// <dir>/<name>_<k>.v, each defining `mism` and printing it.
func writeCases(dir, name, header, ctor string, cases []string, shard int) []string {
	var files []string
	for k := 0; k*shard < len(cases); k++ {
		hi := (k + 1) * shard
		if hi > len(cases) {
			hi = len(cases)
		}
		var sb strings.Builder
		sb.WriteString(header)
		sb.WriteString("Definition cases := [\n")
		sb.WriteString(strings.Join(cases[k*shard:hi], ";\n"))
		sb.WriteString("\n].\n")
		sb.WriteString(fmt.Sprintf("Definition mism := Eval vm_compute in %s %d cases.\nPrint mism.\n", ctor, k*shard))
		p := fmt.Sprintf("%s/%s_%d.v", dir, name, k)
		must(os.WriteFile(p, []byte(sb.String()), 0o644))
		files = append(files, p)
	}
	return files
}

func minInt(a, b int) int {
	if a < b {
		return a
	}
	return b
}

// capBuf is a stdout capture that stops a runaway script: beyond the limit Write panics inside the native print
// call, which the VM turns into a run error (the harness process must not be killed for memory by a
// non-terminating generated program).
type capBuf struct {
	bytes.Buffer
	limited bool
}

const capBufLimit = 8 << 20

func (c *capBuf) Write(p []byte) (int, error) {
	if c.Len()+len(p) > capBufLimit {
		c.limited = true
		panic("HARNESS OUTPUT LIMIT")
	}
	return c.Buffer.Write(p)
}
