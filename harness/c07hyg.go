package main

import (
	"bytes"
	"fmt"
	"strings"
	"testing/fstest"
	"time"

	g "github.com/philhassey/goatlang"
)

// ---------------------------------------------------------------------------
// C07 "frame hygiene": a fresh frame's non-parameter local slots are nil,
// whatever earlier frames or expressions left at the same stack positions.
//
// The slot contents are observable through LOCALSET, which converts the stored
// value to the type of the value the slot held before: an untyped constant
// stored into a slot that was not reset takes the stale type (7 / 2 = 3.5 after
// float64 work, 300 + 1 = 45 after byte work).  genHygieneProgram builds
//   - "dirty" functions whose locals are float64 / uint8 / int8 / string / bool /
//     slice values (so that their frames leave such values behind), and
//   - "hygiene" functions whose locals are initialised from UNTYPED constants
//     (n := 7, k := 300, var q = 1) or declared with var x T and then used
//     type-sensitively (integer division, + past 255, * 1000000, %),
// and calls the hygiene functions in varied stack contexts right after dirty
// work at the same or deeper stack positions.  The program is valid Go: the Go
// toolchain gives the expected output (int read as int32).

type hygFn struct {
	name  string
	nargs int
}

type hygGen struct {
	r     *rng
	sb    *strings.Builder
	uniq  int
	model bool // restrict to the fragment of Model/VM.v (no structs, methods, maps, Sprint, string +, float printing)
	fns   []hygFn
	kinds map[string]int
}

func (h *hygGen) line(ind int, f string, a ...any) {
	h.sb.WriteString(strings.Repeat("\t", ind))
	fmt.Fprintf(h.sb, f, a...)
	h.sb.WriteString("\n")
}

func (h *hygGen) fresh(p string) string {
	h.uniq++
	return fmt.Sprintf("%s%d", p, h.uniq)
}

const hygPreludeCommon = `func dF0() float64 {
	a := 1.5
	b := a * 2.0
	c := b + a
	d := c
	e := d
	return e
}

func dF1(p float64) float64 {
	a := p * 1.5
	b := a + 0.25
	c := b
	d := c
	e := d
	return e
}

func dF2(p float64, q float64) float64 {
	a := p * q
	b := a + 0.5
	c := b
	d := c
	e := d
	return e
}

func dB0() byte {
	a := byte(200)
	b := a + 1
	c := b
	d := c
	e := d
	return e
}

func dB1(p byte) byte {
	a := p + 7
	b := a + 1
	c := b
	d := c
	e := d
	return e
}

func dI0() int8 {
	a := int8(-5)
	b := a - 1
	c := b
	d := c
	e := d
	return e
}

func dBo0() bool {
	a := true
	b := !a
	c := b || a
	d := c
	e := d
	return e
}

func dSl0() []int {
	a := []int{1}
	b := append(a, 2)
	c := b
	d := c
	e := d
	return e
}

func mixF(a float64, b int) float64 {
	return a + float64(b)
}

func mixB(a byte, b float64, c int) int {
	return int(a) + int(b) + c
}

func deepDirty(n int) float64 {
	a := 0.5
	b := a * 2.0
	c := b
	d := c
	if n > 0 {
		return deepDirty(n-1) + d
	}
	return a
}

func deepBytes(n int) byte {
	a := byte(100)
	b := a + a
	c := b
	d := c
	if n > 0 {
		return deepBytes(n-1) + d
	}
	return a
}

`

const hygPreludeFull = `type T struct {
	v int
}

func (t *T) mb() byte {
	a := byte(250)
	b := a + 3
	c := b
	d := c
	return d
}

func (t *T) mf(p float64) float64 {
	a := p * 1.5
	b := a + 0.25
	c := b
	return c
}

var gt = &T{v: 3}

func dS0() string {
	a := "x"
	b := a + "y"
	c := b
	d := c
	e := d
	return e
}

func dS1(p string) string {
	a := p + "q"
	b := a
	c := b
	d := c
	return d
}

`

// hygieneFn writes one hygiene function and its recursion wrapper.
func (h *hygGen) hygieneFn(k int) hygFn {
	f := hygFn{name: fmt.Sprintf("h%d", k), nargs: h.r.intn(3)}
	var ps []string
	for p := 0; p < f.nargs; p++ {
		ps = append(ps, fmt.Sprintf("p%d int", p))
	}
	h.line(0, "func %s(%s) int {", f.name, strings.Join(ps, ", "))
	var outs []string // printed expressions
	var ints []string // := locals (int32 in the reference): usable in the result
	nl := 2 + h.r.intn(5)
	for l := 0; l < nl; l++ {
		v := fmt.Sprintf("v%d", l)
		switch x := h.r.intn(12); {
		case x < 5: // n := C
			c := pick(h.r, []int{7, 300, 9, 1000, 255, 129, 3, 77})
			h.line(1, "%s := %d", v, c)
			ints = append(ints, v)
			outs = append(outs, pick(h.r, []string{v + " / 2", v + " + 1", v + " * 1000000", v + " % 7", v + " - 400", v + " / 2 * 2"}))
			if h.r.chance(40) {
				outs = append(outs, pick(h.r, []string{v + " / 4", v + " * 3", v}))
			}
			h.kinds["local := untyped constant"]++
		case x < 8: // var q = C   (Go: int; only constant arithmetic, never mixed with the int32 values)
			c := pick(h.r, []int{1, 7, 300, 513})
			h.line(1, "var %s = %d", v, c)
			outs = append(outs, pick(h.r, []string{v + " / 2", v + " + 1", v + " * 1000", v + " % 5", v + " - 2"}))
			h.kinds["var = untyped constant"]++
		case x < 9:
			h.line(1, "var %s int", v)
			ints = append(ints, v)
			outs = append(outs, v+" + 1", v)
			h.kinds["var x T"]++
		case x < 10:
			h.line(1, "var %s bool", v)
			outs = append(outs, v, "!"+v)
			h.kinds["var x T"]++
		case x < 11 && !h.model:
			h.line(1, "var %s float64", v)
			outs = append(outs, v, v+" + 0.5")
			h.kinds["var x T"]++
		case !h.model:
			h.line(1, "var %s string", v)
			outs = append(outs, v+" + \"z\"", "len("+v+")")
			h.kinds["var x T"]++
		default:
			h.line(1, "%s := %d", v, 7)
			ints = append(ints, v)
			outs = append(outs, v+" / 2")
		}
	}
	// a later plain assignment keeps the slot's type: only meaningful if the slot started out right
	if len(ints) > 0 && h.r.chance(50) {
		v := pick(h.r, ints)
		h.line(1, "%s = %d", v, pick(h.r, []int{9, 301, 15}))
		outs = append(outs, v+" / 2")
	}
	h.line(1, "fmt.Println(\"%s\", %s)", f.name, strings.Join(outs, ", "))
	res := "1"
	if len(ints) > 0 {
		res = ints[0] + " / 2"
		if len(ints) > 1 {
			res += " + " + ints[1] + " % 7"
		}
	}
	for p := 0; p < f.nargs; p++ {
		res += fmt.Sprintf(" + p%d", p)
	}
	h.line(1, "return %s", res)
	h.line(0, "}\n")
	// the same function reached through d extra frames
	h.line(0, "func n%d(d int) int {", k)
	h.line(1, "if d > 0 {")
	h.line(2, "return n%d(d-1) + 1", k)
	h.line(1, "}")
	h.line(1, "return %s", h.call(f))
	h.line(0, "}\n")
	return f
}

func (h *hygGen) call(f hygFn) string {
	var a []string
	for p := 0; p < f.nargs; p++ {
		a = append(a, fmt.Sprint(1+h.r.intn(5)))
	}
	return fmt.Sprintf("%s(%s)", f.name, strings.Join(a, ", "))
}

// dirty returns a call statement that leaves typed values behind on the stack area above the caller
func (h *hygGen) dirty() string {
	opts := []string{"dF0()", "dF1(2.5)", "dF2(1.5, 2.0)", "dB0()", "dB1(250)", "dI0()", "dBo0()", "dSl0()", "deepDirty(3)", "deepBytes(2)",
		"mixF(dF1(1.5), 2)", "mixB(dB0(), dF0(), 1)"}
	if !h.model {
		opts = append(opts, "dS0()", "dS1(\"a\")", "gt.mb()", "gt.mf(2.0)")
	}
	return pick(h.r, opts)
}

// step writes one scenario step (a self-contained group of statements) at indentation ind
func (h *hygGen) step(ind int) {
	f := pick(h.r, h.fns)
	c := h.call(f)
	n := 10
	if h.model {
		n = 7
	}
	switch h.r.intn(n) {
	case 0: // statement after statement at the same depth
		h.line(ind, "%s", h.dirty())
		if h.r.chance(50) {
			h.line(ind, "%s", h.dirty())
		}
		h.line(ind, "fmt.Println(\"r0\", %s)", c)
		h.kinds["context: after a dirty call statement"]++
	case 1: // later operand of an expression whose earlier operand is a float
		h.line(ind, "fmt.Println(\"r1\", int(dF1(2.5) + float64(%s)))", c)
		h.kinds["context: operand after a float operand"]++
	case 2: // argument after float / byte arguments
		if h.r.chance(50) {
			h.line(ind, "fmt.Println(\"r2\", int(mixF(dF1(1.5), %s)))", c)
		} else {
			h.line(ind, "fmt.Println(\"r2\", mixB(dB0(), dF0(), %s))", c)
		}
		h.kinds["context: argument after float/byte arguments"]++
	case 3: // inside a loop after float work
		acc, x := h.fresh("acc"), h.fresh("x")
		h.line(ind, "%s := 0", acc)
		h.line(ind, "for i := 0; i < 3; i++ {")
		h.line(ind+1, "%s := dF0() * float64(i)", x)
		h.line(ind+1, "_ = %s", x)
		h.line(ind+1, "%s += %s", acc, c)
		h.line(ind, "}")
		h.line(ind, "fmt.Println(\"r3\", %s)", acc)
		h.kinds["context: loop after float work"]++
	case 4: // from a different depth, after deep dirty frames
		h.line(ind, "%s", pick(h.r, []string{"deepDirty(4)", "deepBytes(4)", "deepDirty(2)"}))
		h.line(ind, "fmt.Println(\"r4\", n%s(%d))", f.name[1:], h.r.intn(4))
		h.kinds["context: nested depth after deep dirty frames"]++
	case 5: // condition after a bool producer
		h.line(ind, "if dBo0() && %s > 0 {", c)
		h.line(ind+1, "fmt.Println(\"r5\")")
		h.line(ind, "}")
		h.kinds["context: && after a bool call"]++
	case 6: // after slice work, as an index / operand
		xs := h.fresh("xs")
		h.line(ind, "%s := dSl0()", xs)
		h.line(ind, "fmt.Println(\"r6\", int(len(%s)) + %s, %s[%s %% 2])", xs, c, xs, c)
		h.kinds["context: after slice work"]++
	case 7: // after a method call returning byte
		if h.r.chance(50) {
			h.line(ind, "gt.mb()")
			h.line(ind, "fmt.Println(\"r7\", %s)", c)
		} else {
			h.line(ind, "fmt.Println(\"r7\", int(gt.mb()) + %s, int(gt.mf(1.5)) + %s)", c, h.call(pick(h.r, h.fns)))
		}
		h.kinds["context: after a method call returning byte"]++
	case 8: // string operand first
		h.line(ind, "fmt.Println(\"r8\", dS0() + fmt.Sprint(%s), dS1(\"k\") + fmt.Sprint(%s))", c, h.call(pick(h.r, h.fns)))
		h.kinds["context: after a string operand"]++
	default: // several hygiene calls in one expression between dirty ones
		h.line(ind, "fmt.Println(\"r9\", %s + int(dB0()) + %s + int(dI0()) + %s)", c, h.call(pick(h.r, h.fns)), h.call(pick(h.r, h.fns)))
		h.kinds["context: between byte/int8 operands"]++
	}
}

// genHygieneProgram returns the whole program and, separately, its declarations and the scenario
// steps of main (each step self-contained), for the Eval-by-Eval driver.
func genHygieneProgram(r *rng, model bool, kinds map[string]int) (prog string, decls string, steps []string) {
	var sb strings.Builder
	h := &hygGen{r: r, sb: &sb, model: model, kinds: kinds}
	sb.WriteString(hygPreludeCommon)
	if !model {
		sb.WriteString(hygPreludeFull)
	}
	for k := 0; k < 5+r.intn(4); k++ {
		h.fns = append(h.fns, h.hygieneFn(k))
	}
	decls = sb.String()
	ns := 14
	if model {
		ns = 8
	}
	for k := 0; k < ns; k++ {
		var st strings.Builder
		h.sb = &st
		h.step(0)
		steps = append(steps, st.String())
	}
	var body strings.Builder
	for _, s := range steps {
		for _, l := range strings.Split(strings.TrimRight(s, "\n"), "\n") {
			body.WriteString("\t" + l + "\n")
		}
	}
	prog = "package main\n\nimport \"fmt\"\n\n" + decls + "func main() {\n" + body.String() + "}\n"
	return
}

// hygEvalRun: the declarations in one Eval, then every step in its own Eval on the same VM.
func hygEvalRun(decls string, steps []string) (out string, err error) {
	var buf bytes.Buffer
	vm := g.New(g.WithStdout(&buf))
	defer func() {
		if r := recover(); r != nil {
			out, err = buf.String(), fmt.Errorf("GO PANIC ESCAPED: %v", r)
		}
	}()
	if _, e := vm.Eval(fstest.MapFS{}, "decls", "import \"fmt\"\n"+decls); e != nil {
		return buf.String(), e
	}
	for k, s := range steps {
		rets, e := vm.Eval(fstest.MapFS{}, fmt.Sprintf("step%d", k), "import \"fmt\"\n"+s)
		if e != nil {
			return buf.String(), e
		}
		if len(rets) != 0 {
			return buf.String(), fmt.Errorf("step %d returns %d residual values", k, len(rets))
		}
	}
	return buf.String(), nil
}

func firstDiff(exp, got string) (int, string, string) {
	el, gl := strings.Split(exp, "\n"), strings.Split(got, "\n")
	i := 0
	for i < len(el) && i < len(gl) && el[i] == gl[i] {
		i++
	}
	e, gg := "<end>", "<end>"
	if i < len(el) {
		e = el[i]
	}
	if i < len(gl) {
		gg = gl[i]
	}
	return i + 1, e, gg
}

// hygDiff: one reference run of the Go toolchain, compared with Load+Call and with the Eval sequence.
func hygDiff(st *stats, prog, decls string, steps []string) {
	exp, panicked, err := goRefRun(asInt32(prog))
	if err != nil {
		st.Histogram["invalid_go_program"]++
		if st.Histogram["invalid_go_program"] <= 3 {
			st.Extra[fmt.Sprintf("invalid_go_%d", st.Histogram["invalid_go_program"])] = err.Error() + "\n" + prog
		}
		return
	}
	rec := func(group, got string, gerr error, src string) {
		if got == exp && (gerr != nil) == panicked {
			return
		}
		l, e, gg := firstDiff(exp, got)
		es := ""
		if gerr != nil {
			es = gerr.Error()
		}
		st.mismatchG(group, progMismatch{Kind: group, Src: src, Expected: e, Got: gg, Line: l, Err: es})
	}
	got, gerr := goatRun(prog)
	rec("frame-hygiene program (Load + Call)", got, gerr, prog)
	got, gerr = hygEvalRun(decls, steps)
	rec("frame-hygiene program (successive Evals on one VM)", got, gerr, "import \"fmt\"\n"+decls+"// ---- one Eval per step ----\n"+strings.Join(steps, "// ----\n"))
}

// ---------------------------------------------------------------------------
// The structural probe: the real dispatch loop (hook VerifExec) runs hand-assembled code
//     <push extra operands> <args> FUNC dirty ; CALL      -- dirty writes all its local slots
//     <pop / push operands> <args> FUNC probe ; CALL a K   -- probe returns its K slots untouched
// and every non-parameter slot the probe returns must be the nil Value, its parameters the
// arguments passed.  No typing effect is needed: the slot contents are read directly.

type frameProbeRec struct {
	Kind   string `json:"kind"`
	Code   string `json:"code"`
	Slot   int    `json:"slot"`
	Got    string `json:"slot_content_on_entry"`
	Detail string `json:"detail"`
}

func c07JoinParams(a, b int) int { return (((a + 32768) & 0xffff) << 16) | ((b + 32768) & 0xffff) }

func c07FrameProbe(r *rng, st *stats) {
	op := func(name string, a, b, c int) [4]int { return [4]int{c07CodeN(name), a, b, c} }
	var code [][4]int
	var txt []string
	emit := func(name string, a, b, c int) {
		code = append(code, op(name, a, b, c))
		txt = append(txt, strings.TrimSpace(fmt.Sprintf("%s %d %d %d", name, a, b, c)))
	}
	fn := func(args, rets, slots int, body [][4]int, btxt []string) {
		emit("FUNC", c07JoinParams(args, rets), slots, len(body))
		for k := 0; k < args+rets; k++ {
			emit("TYPE", 0, 0, 0)
		}
		code = append(code, body...)
		txt = append(txt, btxt...)
	}
	depth := 0
	// rounds of dirty frames at varying depths
	rounds := 1 + r.intn(3)
	for k := 0; k < rounds; k++ {
		extra := r.intn(4)
		for e := 0; e < extra; e++ {
			emit("PUSH", 50+e, 0, 0)
		}
		depth += extra
		dargs := r.intn(3)
		dslots := dargs + 1 + r.intn(8)
		for a := 0; a < dargs; a++ {
			emit("PUSH", 70+a, 0, 0)
		}
		var body [][4]int
		var btxt []string
		for j := dargs; j < dslots; j++ {
			body = append(body, op("PUSH", 100+j, 0, 0), op("LOCALSET", j, 0, 0))
			btxt = append(btxt, fmt.Sprintf("PUSH %d", 100+j), fmt.Sprintf("LOCALSET %d", j))
		}
		fn(dargs, 0, dslots, body, btxt)
		emit("CALL", dargs, 0, 0)
		// drop some of the extra operands again so that the probe frame lands inside the dirtied area
		drop := 0
		if depth > 0 {
			drop = r.intn(depth + 1)
		}
		for e := 0; e < drop; e++ {
			emit("POP", 0, 0, 0)
		}
		depth -= drop
	}
	pargs := r.intn(3)
	pslots := pargs + 1 + r.intn(8)
	for a := 0; a < pargs; a++ {
		emit("PUSH", 90+a, 0, 0)
	}
	var body [][4]int
	var btxt []string
	for j := 0; j < pslots; j++ {
		body = append(body, op("LOCALGET", j, 0, 0))
		btxt = append(btxt, fmt.Sprintf("LOCALGET %d", j))
	}
	fn(pargs, pslots, pslots, body, btxt)
	emit("CALL", pargs, pslots, 0)

	vm := g.New(g.WithStdout(&bytes.Buffer{}))
	out, _, err := g.VerifExec(vm, code, nil)
	st.add(fmt.Sprintf("frame-entry probe: %d dirty rounds, probe frame %d params + %d locals", rounds, pargs, pslots-pargs), strings.Join(txt, "; "))
	if err != nil || len(out) != depth+pslots {
		st.mismatchG("frame-entry-probe-run", frameProbeRec{Kind: "frame-entry probe does not run as assembled", Code: strings.Join(txt, "; "),
			Detail: fmt.Sprintf("err=%v, %d values on the stack, expected %d", err, len(out), depth+pslots)})
		return
	}
	got := out[depth:]
	for j, v := range got {
		if j < pargs {
			if int(g.VerifNum(v)) != 90+j {
				st.mismatchG("frame-entry-probe-param", frameProbeRec{Kind: "a parameter slot does not hold its argument on entry", Code: strings.Join(txt, "; "), Slot: j, Got: v.String()})
			}
			continue
		}
		if g.VerifTag(v) != 0 || g.VerifHasObj(v) || g.VerifNum(v) != 0 {
			st.mismatchG("frame-entry-probe-local", frameProbeRec{Kind: "a non-parameter local slot is not nil on entry to a script function", Code: strings.Join(txt, "; "), Slot: j,
				Got: fmt.Sprintf("tag %d value %s", g.VerifTag(v), v.String()), Detail: "left behind by an earlier frame at the same stack position"})
			return
		}
	}
}

// cmdC07Hygiene is the part of c07-script devoted to frame hygiene.
func cmdC07Hygiene(r *rng, st *stats, n int, kinds map[string]int) {
	for c := 0; c < n; c++ {
		prog, decls, steps := genHygieneProgram(r, false, kinds)
		st.add("frame-hygiene program vs go (Load+Call and Eval by Eval)", fmt.Sprintf("hygiene program %d (%d lines)", c, strings.Count(prog, "\n")))
		done := make(chan bool, 1)
		go func() { hygDiff(st, prog, decls, steps); done <- true }()
		select {
		case <-done:
		case <-time.After(90 * time.Second):
			st.mismatchG("hygiene-timeout", progMismatch{Kind: "frame-hygiene program does not finish within 90 s", Src: prog})
			return
		}
	}
	for c := 0; c < 40*n; c++ {
		c07FrameProbe(r, st)
	}
}

// ---------------------------------------------------------------------------
// c07-vmcorr: run-level correspondence on frame-hygiene programs inside the fragment of Model/VM.v:
// the model builds every frame from nil slots (call_fn: typed arguments ++ repeat nilV), so a real VM
// whose fresh frames hold leftovers prints something else than the model.

func cmdC07VMCorr(seed uint64, n int, dir string) {
	r := newRng(seed)
	st := newStats()
	kinds := map[string]int{}
	var cases []string
	for c := 0; c < n; c++ {
		prog, _, _ := genHygieneProgram(r, true, kinds)
		opt := c%2 == 0
		cs, ok := runCase(prog, opt)
		if !ok {
			st.Histogram["not_compiled"]++
			if st.Histogram["not_compiled"] <= 2 {
				st.Extra["not_compiled_src"] = prog
			}
			continue
		}
		cases = append(cases, cs)
		st.add(fmt.Sprintf("frame-hygiene program (model fragment) optimize=%v", opt), fmt.Sprintf("hygiene program %d, %d lines, optimize=%v", c, strings.Count(prog, "\n"), opt))
	}
	for k, v := range kinds {
		st.Histogram["construct:"+k] = v
	}
	header := "From Coq Require Import ZArith List String Floats.\nFrom GV Require Import GoSpec.GoPrim Model.VM Model.CorrVM.\nImport ListNotations.\nOpen Scope string_scope.\nOpen Scope Z_scope.\n"
	files := writeCases(dir, "cases_C07VM", header, "rmismatches", cases, 1+len(cases)/12)
	st.Extra["files"] = files
	st.write(dir + "/C07_vmcorr_stats.json")
}

func init() {
	register("c07-vmcorr", func(a cmdArgs) { cmdC07VMCorr(a.seed, a.n, a.dir) })
}
