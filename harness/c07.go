package main

import (
	"bytes"
	"fmt"
	"go/ast"
	"go/importer"
	"go/parser"
	"go/token"
	"go/types"
	"os"
	"strings"
	"testing/fstest"

	g "github.com/philhassey/goatlang"
)

// ---------------------------------------------------------------------------
// C07: statements are stack-neutral and call frames are isolated on every path.
//
// c07-check: the REAL compiler output of generated programs and of the
// repository's test-table inputs is handed to the verified checker
// Model/StackCheck.v check_code (vm_compute in Coq case files).  The Go
// function c07Verify below is a line-by-line mirror of that checker; it is NOT
// trusted: it only (a) tells the harness which inputs are rejected, and why, so
// that a rejection can be reported with its source program, and (b) predicts
// the verdict written into each case, which Coq then confirms or refutes.

const c07None = -1 << 40

type c07Eff struct {
	kind       string // step jump branch call ret stop func bad
	a, b, c, d int
	why        string
}

func c07Split(v int) (int, int) { return ((v >> 16) & 0xffff) - 32768, (v & 0xffff) - 32768 }

var c07Bin = map[string]bool{"ADD": true, "SUB": true, "MUL": true, "DIV": true, "MOD": true, "LT": true, "GT": true, "LTE": true, "GTE": true,
	"EQ": true, "NEQ": true, "BITAND": true, "BITOR": true, "BITXOR": true, "BITLSH": true, "BITRSH": true}
var c07LocalBin = map[string]bool{"LOCALADD": true, "LOCALSUB": true, "LOCALMUL": true, "LOCALDIV": true}
var c07Un = map[string]bool{"INCDEC": true, "CONVERT": true, "CAST": true, "NEGATE": true, "BITCOMPLEMENT": true, "NOT": true, "LEN": true, "MAKE": true, "GETATTR": true}

func c07Effect(i g.VerifIns) c07Eff {
	step := func(p, q int) c07Eff { return c07Eff{kind: "step", a: p, b: q} }
	c := i.Code
	switch {
	case i.CodeN < 0:
		return c07Eff{kind: "bad", why: "placeholder opcode (BREAK/CONTINUE/TODO left in the code)"}
	case c == "PASS":
		return step(0, 0)
	case c == "PUSH" || c == "GLOBALREF" || c == "ZERO":
		return step(0, 1)
	case c == "POP":
		return step(1, 0)
	case c07Bin[c]:
		return step(2, 1)
	case c07LocalBin[c]:
		return step(0, 1)
	case c07Un[c]:
		return step(1, 1)
	case c == "LOCALINCDEC":
		return step(0, 0)
	case c == "AND" || c == "OR":
		return c07Eff{kind: "branch", a: 1, b: 1, c: 0, d: i.A}
	case c == "GLOBALSET" || c == "GLOBALFUNC" || c == "LOCALSET":
		return step(1, 0)
	case c == "GLOBALZERO" || c == "LOCALZERO":
		return step(0, 0)
	case c == "GLOBALGET" || c == "CONST" || c == "LOCALGET":
		return step(0, 1)
	case c == "RETURN":
		return c07Eff{kind: "ret"}
	case c == "JUMP":
		return c07Eff{kind: "jump", a: 0, b: i.A}
	case c == "JUMPFALSE" || c == "JUMPTRUE":
		return c07Eff{kind: "branch", a: 1, b: 1, c: 1, d: i.A}
	case c == "PANIC":
		return c07Eff{kind: "stop", a: 1}
	case c == "FUNC":
		args, rets := c07Split(i.A)
		return c07Eff{kind: "func", a: args, b: rets, c: i.B, d: i.C}
	case c == "CALL" || c == "CALLVARIADIC":
		return c07Eff{kind: "call", a: 1, b: i.A, c: i.B}
	case c == "FASTCALL":
		return c07Eff{kind: "call", a: 0, b: i.B, c: i.C}
	case c == "FASTCALLATTR":
		c1, c2 := c07Split(i.C)
		return c07Eff{kind: "call", a: 0, b: c1, c: c2}
	case c == "GET":
		return step(2, 1)
	case c == "SET":
		return step(3, 0)
	case c == "FASTGETINT" || c == "FASTGET" || c == "FASTGETATTR":
		return step(0, 1)
	case c == "FASTSETINT" || c == "FASTSET" || c == "FASTSETATTR":
		return step(1, 0)
	case c == "SETATTR":
		return step(2, 0)
	case c == "NEWSLICE":
		return step(i.B, 1)
	case c == "RANGE":
		return c07Eff{kind: "jump", a: 1, b: i.B}
	case c == "ITER":
		return c07Eff{kind: "branch", a: 0, b: 0, c: 0, d: i.C}
	case c == "SLICE":
		return step(3, 1)
	case c == "APPEND":
		if i.A < 1 {
			return c07Eff{kind: "bad", why: "APPEND without operands"}
		}
		return step(i.A, 1)
	case c == "COPY":
		if i.B != 0 {
			return step(2, 1)
		}
		return step(2, 0)
	case c == "NEWMAP":
		if i.C&1 == 1 {
			return c07Eff{kind: "bad", why: "NEWMAP with an odd operand count"}
		}
		return step(i.C, 1)
	case c == "GETOK":
		return step(2, 2)
	case c == "DELETE":
		return step(2, 0)
	case c == "STRUCT":
		if i.A&1 == 1 {
			return c07Eff{kind: "bad", why: "STRUCT with an odd operand count"}
		}
		return step(i.A, 1)
	case c == "GLOBALSTRUCT":
		return step(1, 0)
	case c == "NEWSTRUCT":
		if i.B&1 == 1 {
			return c07Eff{kind: "bad", why: "NEWSTRUCT with an odd operand count"}
		}
		return step(i.B, 1)
	case c == "SETMETHOD":
		return step(2, 0)
	}
	return c07Eff{kind: "bad", why: "opcode the dispatch loop does not execute"}
}

func c07SlotRefs(i g.VerifIns) []int {
	switch i.Code {
	case "LOCALADD", "LOCALSUB", "LOCALMUL", "LOCALDIV":
		return []int{i.A, i.B}
	case "LOCALINCDEC", "LOCALGET", "LOCALSET", "LOCALZERO", "FASTGETINT", "FASTSETINT", "FASTGET", "FASTSET", "FASTGETATTR", "FASTSETATTR", "FASTCALLATTR", "RANGE":
		return []int{i.A}
	case "ITER":
		b1, b2 := c07Split(i.B)
		return []int{i.A, b1, b2}
	}
	return nil
}

func c07GlobalRefs(i g.VerifIns) []int {
	switch i.Code {
	case "GLOBALSET", "GLOBALZERO", "GLOBALFUNC", "GLOBALGET", "CONST", "FASTCALL", "GLOBALSTRUCT", "NEWSTRUCT":
		return []int{i.A}
	case "FASTGET", "FASTSET":
		return []int{i.B}
	}
	return nil
}

func c07Abs(x int) int {
	if x < 0 {
		return -x
	}
	return x
}

type c07Edge struct{ pc, d int }

func c07Succs(i g.VerifIns, pc, d int) []c07Edge {
	e := c07Effect(i)
	switch e.kind {
	case "step":
		return []c07Edge{{pc + 1, d - e.a + e.b}}
	case "jump":
		return []c07Edge{{pc + e.b + 1, d - e.a}}
	case "branch":
		return []c07Edge{{pc + 1, d - e.b}, {pc + e.d + 1, d - e.c}}
	case "call":
		return []c07Edge{{pc + 1, d - e.a - e.b + e.c}}
	case "func":
		return []c07Edge{{pc + (c07Abs(e.a) + e.b + e.d) + 1, d + 1}}
	}
	return nil
}

// c07Infer mirrors StackCheck.infer: depth-first from (0,0), first depth wins.
func c07Infer(ins []g.VerifIns) []int {
	n := len(ins)
	m := make([]int, n+1)
	for k := range m {
		m[k] = c07None
	}
	work := []c07Edge{{0, 0}}
	for fuel := 4 + 3*n; fuel > 0 && len(work) > 0; fuel-- {
		e := work[len(work)-1]
		work = work[:len(work)-1]
		if e.pc < 0 || e.pc > n || m[e.pc] != c07None {
			continue
		}
		m[e.pc] = e.d
		if e.pc < n {
			s := c07Succs(ins[e.pc], e.pc, e.d)
			for k := len(s) - 1; k >= 0; k-- { // the first successor is handled first
				work = append(work, s[k])
			}
		}
	}
	return m
}

type c07Diag struct {
	ok    bool
	pc    int // absolute pc in the outermost list
	depth int
	why   string
}

func c07Body(ins []g.VerifIns, pc, nargs, rets, blen int) []g.VerifIns {
	// skipn (nargs+rets) (firstn (nargs+rets+blen) (skipn (pc+1) codes)) with Coq's clamping
	clamp := func(x, hi int) int {
		if x < 0 {
			return 0
		}
		if x > hi {
			return hi
		}
		return x
	}
	rest := ins[clamp(pc+1, len(ins)):]
	tok := rest[:clamp(nargs+rets+blen, len(rest))]
	return tok[clamp(nargs+rets, len(tok)):]
}

func c07FinalOk(final, d int) bool { return final == c07None || final == d }

// c07Verify mirrors StackCheck.diag_code_f (and thereby verify / check_code).
func c07Verify(ins []g.VerifIns, ng, ns, final, base int) c07Diag {
	n := len(ins)
	m := c07Infer(ins)
	if ns < 0 {
		return c07Diag{false, base, 0, "negative slot count"}
	}
	if m[0] != 0 {
		return c07Diag{false, base, 0, "no entry depth"}
	}
	tgt := func(pc2, d2 int) string {
		if pc2 < 0 || pc2 > n {
			return fmt.Sprintf("branch target %d outside the function", pc2)
		}
		if d2 < 0 {
			return "operand stack underflow"
		}
		if m[pc2] == c07None {
			return fmt.Sprintf("no depth proposed for successor %d", pc2)
		}
		if m[pc2] != d2 {
			return fmt.Sprintf("pc %d is reached with operand depth %d and with depth %d", pc2, d2, m[pc2])
		}
		return ""
	}
	inRange := func(l []int, hi int) bool {
		for _, x := range l {
			if x < 0 || x >= hi {
				return false
			}
		}
		return true
	}
	finalStr := "?"
	if final != c07None {
		finalStr = fmt.Sprint(final)
	}
	for pc, i := range ins {
		d := m[pc]
		if d == c07None {
			continue
		}
		why := ""
		e := c07Effect(i)
		switch {
		case !inRange(c07SlotRefs(i), ns):
			why = "local slot operand outside the frame's slots"
		case !inRange(c07GlobalRefs(i), ng):
			why = "global operand outside the globals"
		default:
			switch e.kind {
			case "step":
				if e.a < 0 {
					why = "negative operand count"
				} else if e.a > d {
					why = "operand stack underflow"
				} else {
					why = tgt(pc+1, d-e.a+e.b)
				}
			case "jump":
				if e.a > d {
					why = "operand stack underflow"
				} else {
					why = tgt(pc+e.b+1, d-e.a)
				}
			case "branch":
				if e.a > d {
					why = "operand stack underflow"
				} else if why = tgt(pc+1, d-e.b); why == "" {
					why = tgt(pc+e.d+1, d-e.c)
				}
			case "call":
				if e.b < 0 || e.c < 0 {
					why = "negative argument or result count"
				} else if e.a+e.b > d {
					why = "call arguments missing from the operand stack"
				} else {
					why = tgt(pc+1, d-e.a-e.b+e.c)
				}
			case "ret":
				if !c07FinalOk(final, d) {
					why = fmt.Sprintf("RETURN with operand depth %d, the frame must leave %s", d, finalStr)
				}
			case "stop":
				if e.a > d {
					why = "operand stack underflow"
				}
			case "func":
				nargs := c07Abs(e.a)
				nn := nargs + e.b + e.d
				if e.b < 0 || e.d < 0 || nargs > e.c || pc+1+nn > n {
					why = "malformed FUNC header"
				} else {
					why = tgt(pc+nn+1, d+1)
				}
			case "bad":
				why = e.why
			}
		}
		if why != "" {
			return c07Diag{false, base + pc, d, why}
		}
		if e.kind == "func" {
			nargs := c07Abs(e.a)
			if r := c07Verify(c07Body(ins, pc, nargs, e.b, e.d), ng, e.c, e.b, base+pc+1+nargs+e.b); !r.ok {
				return r
			}
		}
	}
	if d := m[n]; d != c07None && !c07FinalOk(final, d) {
		return c07Diag{false, base + n, d, fmt.Sprintf("the frame ends with operand depth %d, it must leave %s", d, finalStr)}
	}
	return c07Diag{ok: true}
}

// ---- Coq rendering ----------------------------------------------------------

func c07InsCoq(ins []g.VerifIns) string {
	var sb strings.Builder
	sb.WriteString("[")
	for k, i := range ins {
		if k > 0 {
			sb.WriteString(";")
		}
		if i.C == 0 {
			fmt.Fprintf(&sb, "I %s %s %s", coqZ(int64(i.CodeN)), coqZ(int64(i.A)), coqZ(int64(i.B)))
		} else {
			fmt.Fprintf(&sb, "J %s %s %s %s", coqZ(int64(i.CodeN)), coqZ(int64(i.A)), coqZ(int64(i.B)), coqZ(int64(i.C)))
		}
	}
	sb.WriteString("]")
	return sb.String()
}

func c07FinalCoq(final int) string {
	if final == c07None {
		return "None"
	}
	return fmt.Sprintf("(Some %d)", final)
}

func c07Case(ins []g.VerifIns, ns, ng, final int, d c07Diag) string {
	if d.ok {
		return fmt.Sprintf("CCheck %s %d %d %s true", c07InsCoq(ins), ns, ng, c07FinalCoq(final))
	}
	return fmt.Sprintf("CReject %s %d %d %s %s %s", c07InsCoq(ins), ns, ng, c07FinalCoq(final), coqZ(int64(d.pc)), coqZ(int64(d.depth)))
}

// ---- which test-table strings are "statements only" ---------------------------
//
// A rejection of a test-table string is a failing input only when the string is
// a program made of Go statements / declarations only.  The rule is syntactic
// and conservative: Go's own parser must accept the string either as a file
// (after "package main" when it has no package clause) or as a function body,
// and every expression statement in it must be a call of something other than
// a conversion or a value-only builtin (Go rejects "x evaluated but not used").
// Everything else (bare expressions, a trailing expression whose value Eval
// returns, inputs Go cannot parse, deliberately broken inputs) is checked with
// the final depth left free and a rejection is only counted.  On top of the
// syntactic rule the string must pass Go's type checker (go/types; unused
// variables and imports tolerated): "func f() int { c := 1 }" (missing return),
// a bare "break", a "return x" outside a function or a use of an undeclared
// name are not Go programs, and what goatlang compiles them to is not judged.

var c07ValueBuiltins = map[string]bool{"len": true, "cap": true, "append": true, "make": true, "new": true, "int": true, "int8": true, "int16": true,
	"int32": true, "int64": true, "uint": true, "uint8": true, "uint16": true, "uint32": true, "uint64": true, "byte": true, "rune": true,
	"float64": true, "float32": true, "string": true, "bool": true, "complex": true, "real": true, "imag": true, "min": true, "max": true}

func c07AllStatements(n ast.Node) bool {
	ok := true
	ast.Inspect(n, func(x ast.Node) bool {
		es, is := x.(*ast.ExprStmt)
		if !is {
			return true
		}
		call, isCall := es.X.(*ast.CallExpr)
		if !isCall {
			ok = false
			return false
		}
		switch f := call.Fun.(type) {
		case *ast.Ident:
			if c07ValueBuiltins[f.Name] {
				ok = false
			}
		case *ast.SelectorExpr, *ast.FuncLit, *ast.CallExpr, *ast.IndexExpr:
		default:
			ok = false // conversions to composite types, parenthesised things, ...
		}
		return true
	})
	return ok
}

var c07Importer types.Importer

// c07TypeChecks: Go's type checker accepts the file; unused variables / imports / labels are tolerated
// (goatlang does not diagnose them and they do not change what the statements do).
func c07TypeChecks(fset *token.FileSet, f *ast.File) bool {
	if c07Importer == nil {
		c07Importer = importer.ForCompiler(token.NewFileSet(), "source", nil)
	}
	ok := true
	conf := types.Config{Importer: c07Importer, Error: func(err error) {
		m := err.Error()
		if strings.Contains(m, "declared and not used") || strings.Contains(m, "imported and not used") {
			return
		}
		ok = false
	}}
	conf.Check("main", fset, []*ast.File{f}, nil)
	return ok
}

func c07StatementsOnly(s string) bool {
	t := strings.TrimSpace(s)
	if t == "" {
		return false
	}
	var tries []string
	if strings.HasPrefix(t, "package ") {
		tries = []string{s}
	} else {
		tries = []string{"package main\n" + s, "package main\nfunc _() {\n" + s + "\n}"}
	}
	for _, src := range tries {
		fset := token.NewFileSet()
		f, err := parser.ParseFile(fset, "in.go", src, parser.SkipObjectResolution)
		if err != nil {
			continue
		}
		return c07AllStatements(f) && c07TypeChecks(fset, f)
	}
	return false
}

// ---- compiling with the real compiler -----------------------------------------

type c07Unit struct {
	kind   string // generator / test-table
	src    string
	opt    bool
	ins    []g.VerifIns
	ns, ng int
	final  int
}

func c07Load(src string, opt bool) (u c07Unit, ok bool) {
	var out bytes.Buffer
	vm := g.New(g.WithStdout(&out))
	fs := fstest.MapFS{"main/main.go": &fstest.MapFile{Data: []byte(src)}}
	defer func() {
		if r := recover(); r != nil {
			ok = false
		}
	}()
	ins, slots, gl, _ := g.VerifLoadTrace(vm, fs, "main", opt)
	if ins == nil {
		return u, false
	}
	return c07Unit{src: src, opt: opt, ins: ins, ns: slots, ng: len(gl), final: 0}, true
}

func c07Compile(src string, opt bool) (u c07Unit, ok bool) {
	vm := g.New(g.WithStdout(&bytes.Buffer{}))
	defer func() {
		if r := recover(); r != nil {
			ok = false
		}
	}()
	ins, slots, err := g.VerifCompile(vm, src, opt)
	if err != nil {
		return u, false
	}
	return c07Unit{src: src, opt: opt, ins: ins, ns: slots, ng: g.VerifGlobalLen(vm), final: c07None}, true
}

type c07Reject struct {
	Kind      string `json:"kind"`
	Src       string `json:"src"`
	Optimizer bool   `json:"optimizer"`
	Pc        int    `json:"pc"`
	Depth     int    `json:"static_depth"`
	Ins       string `json:"instruction"`
	Func      string `json:"function"`
	Line      int    `json:"line"`
	Why       string `json:"why"`
	Final     string `json:"required_exit_depth"`
}

func c07Record(u c07Unit, d c07Diag) c07Reject {
	r := c07Reject{Kind: u.kind, Src: u.src, Optimizer: u.opt, Pc: d.pc, Depth: d.depth, Why: d.why, Final: c07FinalCoq(u.final)}
	if d.pc >= 0 && d.pc < len(u.ins) {
		r.Ins, r.Func, r.Line = u.ins[d.pc].Text, u.ins[d.pc].Func, u.ins[d.pc].Line
	} else if len(u.ins) > 0 {
		r.Ins, r.Func, r.Line = "(end of code)", u.ins[len(u.ins)-1].Func, u.ins[len(u.ins)-1].Line
	}
	return r
}

// c07Group names a rejection by its shape, so that one example per shape is kept.
func c07Group(u c07Unit, d c07Diag) string {
	w := d.why
	for _, c := range "0123456789" {
		w = strings.ReplaceAll(w, string(c), "#")
	}
	ins := ""
	if d.pc >= 0 && d.pc < len(u.ins) {
		ins = u.ins[d.pc].Code
	}
	return u.kind + "|" + ins + "|" + w
}

// ---- mutants: the negative control ------------------------------------------------

func c07Mutants(r *rng, ins []g.VerifIns, reach []int) (res [][]g.VerifIns, names []string) {
	var pops, calls, jumps []int
	for pc, i := range ins {
		if pc < len(reach) && reach[pc] == c07None {
			continue
		}
		switch i.Code {
		case "POP":
			pops = append(pops, pc)
		case "CALL", "FASTCALL", "CALLVARIADIC", "FASTCALLATTR":
			calls = append(calls, pc)
		case "JUMP", "JUMPFALSE", "JUMPTRUE", "AND", "OR":
			jumps = append(jumps, pc)
		}
	}
	clone := func() []g.VerifIns { return append([]g.VerifIns{}, ins...) }
	if len(pops) > 0 {
		m := clone()
		pc := pick(r, pops)
		m[pc].Code, m[pc].CodeN = "PASS", c07CodeN("PASS")
		res, names = append(res, m), append(names, "POP dropped")
	}
	if len(calls) > 0 {
		m := clone()
		pc := pick(r, calls)
		delta := 1
		switch m[pc].Code {
		case "CALL", "CALLVARIADIC":
			m[pc].B += delta
		case "FASTCALL":
			m[pc].C += delta
		case "FASTCALLATTR":
			c1, c2 := c07Split(m[pc].C)
			m[pc].C = (((c1 + 32768) & 0xffff) << 16) | ((c2 + delta + 32768) & 0xffff)
		}
		res, names = append(res, m), append(names, "CALL result count changed")
	}
	if len(jumps) > 0 {
		m := clone()
		pc := pick(r, jumps)
		if r.chance(50) {
			m[pc].A++
		} else {
			m[pc].A--
		}
		res, names = append(res, m), append(names, "jump retargeted by one")
	}
	return
}

var c07Codes map[string]int

func c07CodeN(name string) int {
	if c07Codes == nil {
		c07Codes = map[string]int{}
		for k, v := range g.VerifCodeNames() {
			c07Codes[v] = k
		}
	}
	return c07Codes[name]
}

// functions of a top-level list: (body, slots, nrets, nglobals) of every FUNC, for the mutants
func c07TopFuncs(ins []g.VerifIns) (res []c07Unit) {
	for pc, i := range ins {
		if i.Code != "FUNC" {
			continue
		}
		args, rets := c07Split(i.A)
		body := c07Body(ins, pc, c07Abs(args), rets, i.C)
		res = append(res, c07Unit{ins: body, ns: i.B, final: rets})
	}
	return
}

func init() {
	register("c07-check", func(a cmdArgs) { cmdC07Check(a.seed, a.n, a.dir) })
	register("c07-script", func(a cmdArgs) { cmdC07Script(a.seed, a.n, a.dir) })
	register("c07-probe", func(a cmdArgs) { cmdC07Probe(a.file) })
}

func cmdC07Check(seed uint64, n int, dir string) {
	r := newRng(seed)
	st := newStats()
	var cases []string
	seen := map[string]bool{}
	totalIns, funcs := 0, 0
	emit := func(u c07Unit, d c07Diag) {
		cs := c07Case(u.ins, u.ns, u.ng, u.final, d)
		if seen[cs] {
			st.Histogram["duplicate code list (one case kept)"]++
			return
		}
		seen[cs] = true
		cases = append(cases, cs)
		totalIns += len(u.ins)
		for _, i := range u.ins {
			if i.Code == "FUNC" {
				funcs++
			}
		}
	}
	check := func(u c07Unit, valid bool, label string) c07Diag {
		d := c07Verify(u.ins, u.ng, u.ns, u.final, 0)
		emit(u, d)
		verdict := "accepted"
		if !d.ok {
			verdict = "REJECTED"
			if valid {
				st.mismatchG(c07Group(u, d), c07Record(u, d))
			} else {
				st.Histogram["rejected, not a statements-only input (counted only)"]++
				k := fmt.Sprintf("rejected_nonstatement_%d", st.Histogram["rejected, not a statements-only input (counted only)"])
				if st.Histogram["rejected, not a statements-only input (counted only)"] <= 6 {
					st.Extra[k] = fmt.Sprintf("%q optimizer=%v pc=%d: %s", u.src, u.opt, d.pc, d.why)
				}
			}
		}
		st.add(fmt.Sprintf("%s optimize=%v %s", u.kind, u.opt, verdict), label)
		return d
	}

	// (1) generated programs, optimizer off and on
	kinds := map[string]int{}
	mutRejected, mutSurvived := 0, 0
	for c := 0; c < n; c++ {
		var src, prof string
		switch c % 4 {
		case 0:
			src, prof = genScopeProgram(r, 4, 2+c%3, kinds), "scope"
		case 1:
			src, prof = genCoreProgram(r, 5), "core"
		case 2:
			src, prof = genFaultProgram(r), "fault"
		default:
			src, prof = genStackProgram(r, 6), "stack"
		}
		for _, opt := range []bool{false, true} {
			u, ok := c07Load(src, opt)
			if !ok {
				st.Histogram["generated program does not compile: "+prof]++
				if st.Histogram["generated program does not compile: "+prof] <= 2 {
					st.Extra["not_compiled_"+prof] = src
				}
				continue
			}
			u.kind = "generated-" + prof
			d := check(u, true, fmt.Sprintf("%s program %d (%d instructions) optimize=%v", prof, c, len(u.ins), opt))
			// (3) negative control on function bodies of accepted programs
			if d.ok && c%3 == 0 {
				fs := c07TopFuncs(u.ins)
				if len(fs) > 0 {
					f := pick(r, fs)
					f.ng = u.ng
					ms, names := c07Mutants(r, f.ins, c07Infer(f.ins))
					for k, m := range ms {
						md := c07Verify(m, f.ng, f.ns, f.final, 0)
						mu := c07Unit{ins: m, ns: f.ns, ng: f.ng, final: f.final}
						emit(mu, md)
						if md.ok {
							mutSurvived++
							st.Histogram["mutant accepted: "+names[k]]++
						} else {
							mutRejected++
							st.Histogram["mutant rejected: "+names[k]]++
						}
					}
				}
			}
		}
	}
	// (1b) the hand-written corpus
	for k, src := range append([]string{c07CorpusProgram}, c07ValueCorpus...) {
		for _, opt := range []bool{false, true} {
			u, ok := c07Load(src, opt)
			if !ok {
				st.mismatchG("corpus-compile", c07Reject{Kind: "corpus program does not compile", Src: src, Optimizer: opt})
				continue
			}
			u.kind = "corpus"
			if k > 0 {
				u.kind = "copy-as-value"
			}
			check(u, true, fmt.Sprintf("corpus program %d (%d instructions) optimize=%v", k, len(u.ins), opt))
		}
	}
	// (2) every string of the repository's test tables that compiles
	for _, s := range testTableStrings() {
		stmts := c07StatementsOnly(s)
		for _, opt := range []bool{false, true} {
			u, ok := c07Compile(s, opt)
			if !ok {
				st.Histogram["test-table string does not compile"]++
				continue
			}
			u.kind = "test-table"
			if stmts {
				u.final = 0
				u.kind = "test-table statements-only"
			}
			check(u, stmts, s)
		}
	}
	st.Extra["instructions_checked"] = totalIns
	st.Extra["functions_checked"] = funcs
	st.Extra["mutants_rejected"] = mutRejected
	st.Extra["mutants_accepted"] = mutSurvived
	if mutRejected == 0 && n >= 12 {
		must(fmt.Errorf("negative control failed: no mutant was rejected"))
	}
	header := "From Coq Require Import ZArith List.\nFrom GV Require Import Model.VM Model.StackCheck Model.CorrC07.\nImport ListNotations.\nOpen Scope Z_scope.\n"
	// deal the cases round-robin over 14 files (the generated programs come first and are the long ones)
	const nfiles = 14
	shard := (len(cases) + nfiles - 1) / nfiles
	dealt := make([]string, 0, len(cases))
	for f := 0; f < nfiles; f++ {
		for k := f; k < len(cases); k += nfiles {
			dealt = append(dealt, cases[k])
		}
	}
	files := writeCases(dir, "cases_C07", header, "xmismatches", dealt, shard)
	st.Extra["files"] = files
	st.write(dir + "/C07_corr_stats.json")
}

func cmdC07Probe(file string) {
	src := file
	if b, err := os.ReadFile(file); err == nil {
		src = string(b)
	}
	for _, opt := range []bool{false, true} {
		var u c07Unit
		var ok bool
		if strings.Contains(src, "package main") {
			u, ok = c07Load(src, opt)
		} else {
			u, ok = c07Compile(src, opt)
			if ok && c07StatementsOnly(src) {
				u.final = 0
			}
		}
		if !ok {
			fmt.Println("does not compile")
			continue
		}
		d := c07Verify(u.ins, u.ng, u.ns, u.final, 0)
		fmt.Printf("optimize=%v stmts=%v verdict=%+v\n", opt, c07StatementsOnly(src), d)
		fmt.Printf("coq: %s slots=%d globals=%d final=%s\n", c07InsCoq(u.ins), u.ns, u.ng, c07FinalCoq(u.final))
		m := c07Infer(u.ins)
		for pc, i := range u.ins {
			ds := "-"
			if m[pc] != c07None {
				ds = fmt.Sprint(m[pc])
			}
			fmt.Printf("  %3d [%s] %s\n", pc, ds, i.Text)
		}
	}
}
