package main

import (
	"fmt"
	"go/ast"
	"go/parser"
	"go/token"
	"os"
	"path/filepath"
	"regexp"
	"sort"
	"strconv"
	"strings"
	"testing/fstest"
	"time"

	g "github.com/philhassey/goatlang"
)

func init() {
	register("c02-corr", func(a cmdArgs) { cmdC02Corr(a.seed, a.n, a.dir) })
	register("c02-diff", func(a cmdArgs) { cmdC02Diff(a.seed, a.n, a.dir) })
}

// ---------------------------------------------------------------------------
// peephole correspondence: Model/Peephole.v over the generated rule table vs the
// real doOptimize (hook VerifOptimize) on instruction lists biased towards windows

func cmdC02Corr(seed uint64, n int, dir string) {
	r := newRng(seed)
	st := newStats()
	names := g.VerifCodeNames()
	codeOf := map[string]int{}
	for k, v := range names {
		codeOf[v] = k
	}
	hot := []string{"LOCALGET", "LOCALGET", "LOCALGET", "INCDEC", "LOCALSET", "ADD", "SUB", "MUL", "DIV", "CONST", "PUSH", "PUSH", "GET", "SET", "GETATTR", "SETATTR", "CALL", "GLOBALGET", "JUMP", "JUMPFALSE", "POP", "LT", "LOCALINCDEC", "FASTCALL", "PASS", "MOD", "RETURN"}
	windows := [][]string{{"LOCALGET", "INCDEC", "LOCALSET"}, {"LOCALGET", "LOCALGET", "ADD"}, {"LOCALGET", "LOCALGET", "MUL"}, {"LOCALGET", "LOCALGET", "DIV"}, {"LOCALGET", "LOCALGET", "SUB"},
		{"LOCALGET", "CONST", "GET"}, {"LOCALGET", "CONST", "SET"}, {"LOCALGET", "PUSH", "GET"}, {"LOCALGET", "PUSH", "SET"}, {"LOCALGET", "GETATTR", "CALL"}, {"GLOBALGET", "CALL"},
		{"LOCALGET", "GETATTR"}, {"LOCALGET", "SETATTR"}, {"PUSH", "ADD"}, {"PUSH", "SUB"}, {"JUMP"}, {"LOCALGET", "PUSH", "ADD", "LOCALSET"}, {"LOCALGET", "PUSH", "SUB", "LOCALSET"}}
	var cases []string
	for c := 0; c < n; c++ {
		var in [][5]int
		ln := 1 + r.intn(14)
		for len(in) < ln {
			if r.chance(55) {
				w := pick(r, windows)
				sameA := r.intn(4)
				for _, nm := range w {
					a := r.intn(4)
					if nm == "LOCALGET" || nm == "LOCALSET" {
						a = sameA
						if r.chance(15) {
							a = r.intn(4)
						}
					}
					if nm == "JUMP" && r.chance(70) {
						a = 0
					}
					if nm == "PUSH" && r.chance(30) {
						a = -r.intn(5)
					}
					in = append(in, [5]int{codeOf[nm], a, r.intn(3), r.intn(3), 1 + r.intn(50)})
				}
			} else {
				nm := pick(r, hot)
				in = append(in, [5]int{codeOf[nm], r.intn(4) - 1, r.intn(3), r.intn(3), 1 + r.intn(50)})
			}
		}
		passes := 1 + r.intn(3)
		out := g.VerifOptimize(in, passes)
		enc := func(l [][5]int) string {
			var p []string
			for _, i := range l {
				p = append(p, fmt.Sprintf("mkI %s %s %s %s %d", coqZ(int64(i[0])), coqZ(int64(i[1])), coqZ(int64(i[2])), coqZ(int64(i[3])), i[4]))
			}
			return "[" + strings.Join(p, "; ") + "]"
		}
		cases = append(cases, fmt.Sprintf("COpt %s %d %s", enc(in), passes, enc(out)))
		st.add(fmt.Sprintf("len=%d passes=%d shrink=%d", minInt(len(in), 12), passes, len(in)-len(out)), fmt.Sprintf("%d instructions, %d passes -> %d", len(in), passes, len(out)))
		// third pass is the identity (the convention the jump arithmetic of enclosing blocks rests on)
		o2 := g.VerifOptimize(in, 2)
		o3 := g.VerifOptimize(in, 3)
		if fmt.Sprint(o2) != fmt.Sprint(o3) {
			st.mismatchG("fix3", map[string]string{"kind": "optimizer not a fixpoint after two passes", "in": enc(in), "two": enc(o2), "three": enc(o3)})
		}
	}
	files := writeCases(dir, "cases_C02", "From Coq Require Import ZArith List String.\nFrom GV Require Import Model.VM Model.CorrC02.\nImport ListNotations.\nOpen Scope Z_scope.\n", "omismatches", cases, 400)
	st.Extra["files"] = files
	st.write(dir + "/C02_corr_stats.json")
}

// ---------------------------------------------------------------------------
// optimizer off vs on: generated programs and every string of the repository's test tables

type evalObs struct {
	out     string
	rets    string
	err     bool
	line    string
	panic   string
	limited bool // the run was cut off by the harness's output limit (a non-terminating program)
}

func evalBoth(src string, optimize bool) (o evalObs) {
	var out capBuf
	vm := g.New(g.WithStdout(&out))
	func() {
		defer func() {
			if r := recover(); r != nil {
				o.panic = fmt.Sprint(r)
			}
		}()
		rets, err := g.VerifEval(vm, fstest.MapFS{}, "in", src, optimize)
		if err != nil {
			o.err = true
			first := strings.SplitN(err.Error(), "\n", 2)[0]
			if m := errPosRe.FindStringSubmatch(first); m != nil {
				o.line = m[1]
			}
			// stage prefix
			if i := strings.Index(first, ":"); i > 0 {
				o.line = first[:i] + "@" + o.line
			}
		}
		var p []string
		for _, v := range rets {
			p = append(p, canonMaps(descr(v, vm)))
		}
		o.rets = strings.Join(p, ",")
	}()
	o.out = out.String()
	o.limited = out.limited
	return
}

func loadBoth(src string, optimize bool) (o evalObs) {
	var out capBuf
	vm := g.New(g.WithStdout(&out))
	fs := fstest.MapFS{"main/main.go": &fstest.MapFile{Data: []byte(src)}}
	func() {
		defer func() {
			if r := recover(); r != nil {
				o.panic = fmt.Sprint(r)
			}
		}()
		_, _, _, err := g.VerifLoadTrace(vm, fs, "main", optimize)
		if err == nil {
			_, err = vm.Call("main.main", 0)
		}
		if err != nil {
			o.err = true
			first := strings.SplitN(err.Error(), "\n", 2)[0]
			if m := errPosRe.FindStringSubmatch(first); m != nil {
				o.line = m[1]
			}
		}
	}()
	o.out = out.String()
	o.limited = out.limited
	return
}

// withTimeout runs f in a goroutine; ok = false when it did not finish in time (the goroutine is abandoned).
func withTimeout(d time.Duration, f func() evalObs) (evalObs, bool) {
	ch := make(chan evalObs, 1)
	go func() { ch <- f() }()
	select {
	case o := <-ch:
		return o, true
	case <-time.After(d):
		return evalObs{}, false
	}
}

// endlessTestString: inputs of the compiler / parser test tables that are endless loops (`for { x := 42 }`,
// `for true { ... }`, `for { 42 continue 43 }`): they are never meant to be RUN; a run abandoned after its time
// limit keeps going in its goroutine, and the last one pushes a value per iteration, so the harness grew by
// gigabytes for as long as it lived (13 GB in a thorough run).  They are compiled and checked statically
// everywhere else; only the commands that execute the strings skip them.
var endlessRe = regexp.MustCompile(`^\s*for\s*(true\s*)?\{`)

func endlessTestString(s string) bool {
	return endlessRe.MatchString(s) && !strings.Contains(s, "break") && !strings.Contains(s, "return")
}

func testTableStrings() []string {
	files, _ := filepath.Glob("/repo/*_test.go")
	seen := map[string]bool{}
	var res []string
	for _, f := range files {
		fset := token.NewFileSet()
		af, err := parser.ParseFile(fset, f, nil, 0)
		if err != nil {
			continue
		}
		ast.Inspect(af, func(n ast.Node) bool {
			cl, ok := n.(*ast.CompositeLit)
			if !ok {
				return true
			}
			for _, e := range cl.Elts {
				if kv, ok := e.(*ast.KeyValueExpr); ok {
					e = kv.Value
				}
				if bl, ok := e.(*ast.BasicLit); ok && bl.Kind == token.STRING {
					if s, err := strconv.Unquote(bl.Value); err == nil && !seen[s] && len(s) > 0 {
						seen[s] = true
						res = append(res, s)
					}
				}
			}
			return true
		})
	}
	return res
}

type optMismatch struct {
	Kind string `json:"kind"`
	Src  string `json:"src"`
	Off  string `json:"optimizer_off"`
	On   string `json:"optimizer_on"`
	What string `json:"what"`
}

func cmpObs(st *stats, kind, src string, a, b evalObs) {
	what := ""
	switch {
	case a.panic != "" || b.panic != "":
		if a.panic != b.panic {
			what = "go panic escapes differently"
		}
	case a.out != b.out:
		what = "output"
	case a.rets != b.rets:
		what = "returned values or types"
	case a.err != b.err:
		what = "success/failure"
	case a.line != b.line:
		what = "error line"
	}
	if what != "" {
		st.mismatchG(kind+"|"+what, optMismatch{Kind: kind, Src: src, What: what,
			Off: fmt.Sprintf("out=%q rets=%s err=%v line=%s panic=%s", a.out, a.rets, a.err, a.line, a.panic),
			On:  fmt.Sprintf("out=%q rets=%s err=%v line=%s panic=%s", b.out, b.rets, b.err, b.line, b.panic)})
	}
}

func cmdC02Diff(seed uint64, n int, dir string) {
	r := newRng(seed)
	st := newStats()
	// (1) every input string of the repository's test tables
	for _, s := range testTableStrings() {
		if strings.Contains(s, "time.Sleep") || strings.Contains(s, "rand.") || strings.Contains(s, "os.") || strings.Contains(s, "time.Now") {
			continue
		}
		if endlessTestString(s) {
			st.Histogram["test-table string is an endless loop (not run)"]++
			continue
		}
		src := s
		a, ok1 := withTimeout(3*time.Second, func() evalObs { return evalBoth(src, false) })
		if !ok1 {
			st.Histogram["test-table string does not terminate (skipped)"]++
			continue
		}
		b, ok2 := withTimeout(10*time.Second, func() evalObs { return evalBoth(src, true) })
		if !ok2 {
			st.mismatchG("test-table|termination", optMismatch{Kind: "test-table", Src: s, What: "terminates with the optimizer off, not with it on"})
			continue
		}
		st.add("test-table string", s)
		cmpObs(st, "test-table", s, a, b)
	}
	// (1b) every fused arithmetic instruction at the boundaries of every sized integer type
	c02Boundary(st)
	// (2) generated programs of every profile
	kinds := map[string]int{}
	for c := 0; c < n; c++ {
		var src, prof string
		switch c % 3 {
		case 0:
			src, prof = genScopeProgram(r, 5, 2+c%4, kinds), "scope"
		case 1:
			src, prof = genCoreProgram(r, 6), "core"
		default:
			src, prof = genFaultProgram(r), "fault"
		}
		st.add("generated "+prof, fmt.Sprintf("%s program %d (%d lines)", prof, c, strings.Count(src, "\n")))
		if tr := os.Getenv("VERIF_TRACE"); tr != "" {
			os.WriteFile(tr, []byte(src), 0o644) // the program being run, for post-mortems of a killed harness
		}
		oa, ob := loadBoth(src, false), loadBoth(src, true)
		if oa.limited && ob.limited {
			st.Histogram["generated program cut off by the output limit in both modes (non-terminating; skipped)"]++
			continue
		}
		cmpObs(st, "generated-"+prof, src, oa, ob)
	}
	st.write(dir + "/C02_diff_stats.json")
}

var flatMapRe = regexp.MustCompile(`map\[([^\[\]]*)\]`)

// canonMaps sorts the entries of (flat) map renderings: goatlang prints multi-entry maps in Go map order.
func canonMaps(s string) string {
	return flatMapRe.ReplaceAllStringFunc(s, func(m string) string {
		parts := strings.Fields(m[4 : len(m)-1])
		sort.Strings(parts)
		return "map[" + strings.Join(parts, " ") + "]"
	})
}

// c02BoundaryPrograms: every fused arithmetic instruction at the boundaries of every sized integer type.  One program
// per type; each line of output is one function applied to one operand tuple, so that the first differing line
// names the function.  (The generated programs compute on int32 mid-range values; the fused instructions must also
// wrap exactly like the instruction sequences they replace.)
func c02BoundaryPrograms() (srcs []string, names []string) {
	type ty struct {
		name   string
		bounds []int64
	}
	tys := []ty{
		{"int8", []int64{-128, -127, -2, -1, 0, 1, 2, 126, 127}},
		{"uint8", []int64{0, 1, 2, 127, 128, 254, 255}},
		{"int", []int64{-2147483648, -2147483647, -1, 0, 1, 2147483646, 2147483647}},
		{"uint32", []int64{0, 1, 2, 2147483647, 2147483648, 4294967294, 4294967295}},
	}
	for _, t := range tys {
		var sb, mainb strings.Builder
		sb.WriteString("package main\n\nimport \"fmt\"\n\n")
		nf := 0
		unary := func(body string) {
			fmt.Fprintf(&sb, "func u%d(a %s) %s {\n\tx := a\n%s\treturn x\n}\n", nf, t.name, t.name, body)
			for _, v := range t.bounds {
				fmt.Fprintf(&mainb, "\tfmt.Println(\"u%d\", %d, u%d(%s(%d)))\n", nf, v, nf, t.name, v)
			}
			nf++
		}
		for _, k := range []int{1, 2, 3, 100, 127} {
			unary(fmt.Sprintf("\tx += %d\n", k))
			unary(fmt.Sprintf("\tx -= %d\n", k))
			unary(fmt.Sprintf("\tx = x + %d\n", k))
			unary(fmt.Sprintf("\tx = x - %d\n", k))
			unary(fmt.Sprintf("\tx = x + %d - %d\n", k, k+1))
		}
		unary("\tx++\n")
		unary("\tx--\n")
		unary("\tx++\n\tx++\n")
		unary("\tfor i := 0; i < 3; i++ {\n\t\tx++\n\t}\n")
		unary("\tfor i := 0; i < 3; i++ {\n\t\tx--\n\t}\n")
		unary("\ts := []" + t.name + "{a, a, a}\n\ts[1] = s[2] + 1\n\tx = s[1]\n")
		unary("\ts := []" + t.name + "{a, a, a}\n\ts[2]++\n\tx = s[2] - s[0]\n")
		for _, op := range []string{"+", "-", "*", "/"} {
			fmt.Fprintf(&sb, "func b%d(a %s, b %s) %s {\n\tx := a\n\ty := b\n\treturn x %s y\n}\n", nf, t.name, t.name, t.name, op)
			for _, v := range t.bounds {
				for _, w := range t.bounds {
					if op == "/" && w == 0 {
						continue
					}
					fmt.Fprintf(&mainb, "\tfmt.Println(\"b%d\", %d, %d, b%d(%s(%d), %s(%d)))\n", nf, v, w, nf, t.name, v, t.name, w)
				}
			}
			nf++
		}
		sb.WriteString("func main() {\n" + mainb.String() + "}\n")
		srcs = append(srcs, sb.String())
		names = append(names, t.name)
	}
	// float64: every arithmetic operator with a LITERAL operand on either side (the shapes a constant-operand
	// rewrite -- x / c into x * (1/c), x * 2 into x + x, ... -- would touch), over values where a differently
	// rounded computation shows in the last place
	{
		var sb, mainb strings.Builder
		sb.WriteString("package main\n\nimport \"fmt\"\n\n")
		vals := []string{"0.1", "0.3", "1.0", "3.0", "7.0", "10.0", "2.5", "-3.7", "0.001", "49.0", "1000000.5", "123456.789", "5e-324", "1e308", "0.0"}
		lits := []string{"3.0", "10.0", "0.3", "7.0", "1.1", "60.0", "49.0", "2.0", "0.5", "1e-3", "1e300"}
		nf := 0
		for _, op := range []string{"+", "-", "*", "/"} {
			for _, l := range lits {
				fmt.Fprintf(&sb, "func r%d(a float64) float64 {\n\tx := a\n\treturn x %s %s\n}\n", nf, op, l)
				fmt.Fprintf(&sb, "func l%d(a float64) float64 {\n\tx := a\n\tif x == 0.0 {\n\t\treturn 0.0\n\t}\n\treturn %s %s x\n}\n", nf, l, op)
				fmt.Fprintf(&sb, "func c%d(a float64) float64 {\n\tx := a\n\tx %s= %s\n\treturn x\n}\n", nf, op, l)
				for _, v := range vals {
					fmt.Fprintf(&mainb, "\tfmt.Println(\"r%d\", %s, r%d(%s))\n\tfmt.Println(\"l%d\", %s, l%d(%s))\n\tfmt.Println(\"c%d\", %s, c%d(%s))\n", nf, v, nf, v, nf, v, nf, v, nf, v, nf, v)
				}
				nf++
			}
		}
		sb.WriteString("func main() {\n" + mainb.String() + "}\n")
		srcs = append(srcs, sb.String())
		names = append(names, "float64")
	}
	return
}

func c02Boundary(st *stats) {
	srcs, names := c02BoundaryPrograms()
	for k, src := range srcs {
		a, b := loadBoth(src, false), loadBoth(src, true)
		st.add("boundary sweep "+names[k], fmt.Sprintf("fused arithmetic at the bounds of %s: %d result lines", names[k], strings.Count(a.out, "\n")))
		if a.err || b.err || a.panic != "" || b.panic != "" {
			cmpObs(st, "boundary-"+names[k], src, a, b)
			continue
		}
		la, lb := strings.Split(a.out, "\n"), strings.Split(b.out, "\n")
		for i := range la {
			if i >= len(lb) || la[i] != lb[i] {
				got := ""
				if i < len(lb) {
					got = lb[i]
				}
				// cut the program down to the function named on the line
				fn := strings.Fields(la[i])[0]
				body := ""
				if j := strings.Index(src, "func "+fn+"("); j >= 0 {
					body = src[j:]
					if e := strings.Index(body, "\n}\n"); e >= 0 {
						body = body[:e+3]
					}
				}
				st.mismatchG("boundary|"+names[k], optMismatch{Kind: "boundary-" + names[k], Src: body,
					What: fmt.Sprintf("operands and result (function, operands..., result): optimizer off %q, optimizer on %q", la[i], got)})
				break
			}
		}
	}
}
