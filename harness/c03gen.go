// C03 input generation: the mostly-valid stream (generated programs, the repository's test-table
// strings, hand-written seeds, and mutations of them), the malformed stream, and in-memory file
// trees for Load.  Every choice comes from the seeded PRNG.
package main

import (
	"fmt"
	"sort"
	"strings"
)

// ---- a byte-preserving lexer for mutations ---------------------------------------------------------

func c03IsIdent(c byte) bool {
	return c == '_' || (c >= 'a' && c <= 'z') || (c >= 'A' && c <= 'Z') || (c >= '0' && c <= '9') || c >= 0x80
}

// c03Lex splits src into pieces whose concatenation is src: whitespace runs, identifiers/numbers,
// string, raw-string and rune literals, comments, and single other bytes.
func c03Lex(src string) []string {
	var out []string
	i := 0
	for i < len(src) {
		c := src[i]
		j := i + 1
		switch {
		case c == ' ' || c == '\t' || c == '\n' || c == '\r':
			for j < len(src) && (src[j] == ' ' || src[j] == '\t' || src[j] == '\n' || src[j] == '\r') {
				j++
			}
		case c03IsIdent(c):
			for j < len(src) && (c03IsIdent(src[j]) || (src[j] == '.' && c >= '0' && c <= '9')) {
				j++
			}
		case c == '"' || c == '\'':
			for j < len(src) && src[j] != c && src[j] != '\n' {
				if src[j] == '\\' && j+1 < len(src) {
					j++
				}
				j++
			}
			if j < len(src) && src[j] == c {
				j++
			}
		case c == '`':
			for j < len(src) && src[j] != '`' {
				j++
			}
			if j < len(src) {
				j++
			}
		case c == '/' && j < len(src) && src[j] == '/':
			for j < len(src) && src[j] != '\n' {
				j++
			}
		case c == '/' && j < len(src) && src[j] == '*':
			k := strings.Index(src[j+1:], "*/")
			if k < 0 {
				j = len(src)
			} else {
				j = j + 1 + k + 2
			}
		}
		out = append(out, src[i:j])
		i = j
	}
	return out
}

func c03IsSpace(t string) bool { return strings.TrimSpace(t) == "" }

// indices of the non-blank tokens
func c03Solid(toks []string) []int {
	var idx []int
	for i, t := range toks {
		if !c03IsSpace(t) {
			idx = append(idx, i)
		}
	}
	return idx
}

// goatlang's symbol table (symbol.go init) plus the punctuation the tokenizer munches
var c03Symbols = []string{
	":=", "=", "+=", "-=", "*=", "/=", "%=", "|=", "^=", "&=", "<<=", ">>=", "||", "&&", "!", "<", ">", "<=", ">=", "==", "!=",
	"|", "^", "&", "<<", ">>", "+", "-", "*", "/", "%", "++", "--", ".", "...", "(", "[", "{", "[]", "map", ",", "func", "return",
	"if", "for", "package", "import", "const", "var", "type", "switch", "$", "make", "true", "false", "nil", "error", "range",
	"float64", "any", "int", "int32", "byte", "uint8", "rune", "uint32", "uint", "int8", "int16", "int64", "uint16", "uint64",
	"bool", "string", "continue", "break", "struct", "interface", "case", "default", "iota", ";", ":", "}", ")", "]", "else",
	"chan", "go", "<-", "->", "..", "~", "#", "?", "\\", "@", "`", "'", "\"",
}

var c03BadLiterals = []string{
	`"unterminated`, `"bad \q escape"`, `"\400"`, `"\ud800"`, `"\xZZ"`, `"\u12"`, `"\U00110000"`, `'`, `''`, `'ab'`, `'\''`, `'\400'`, `'\`,
	"`unterminated raw", "0x", "0X", "1e", "1e+", "1e-", "0b", "0b102", "0o8", "09", "08.5", "0x1p", "1_", "1__0", "0xffffffffffffffffffff",
	"99999999999999999999", "340282366920938463463374607431768211456", "1e999", "1e-999", "0.0.0", "1..2", ".", "..5", "0777777777777777777777777",
	"1.5e", "0x.p1", "'\\u{41}'", "\"\\\n\"", "1i", "0xg", "2147483648", "-2147483649", "4294967296", "9223372036854775808",
}

// malformed package clauses (and what may stand where one is expected)
var c03BadClauses = []string{
	"*package", "&package", "*package x", "&package x", "* package main", "-package", "-package main", "!package", "^package x", "(package x)", "(package)",
	"package", "package 1", "package \"s\"", "package a b", "package a, b", "package a.b", "package main.x", "package a\npackage b", "package main\npackage main",
	"x := 1\npackage main", "var x = 1\npackage", "func f() {}\npackage main", "", " ", "// only a comment", "/* c */", "//go:build goat\n", "package main\n*package", "package main; &package; 1",
	"package main\nx := *package", "package main\nfunc f() { package }", "[]package", "$package", "package package", "package *x", "package func", "import \"fmt\"\npackage main",
	"*import \"fmt\"", "&import", "package main\n*import", "package main\n&func", "package main\n*type", "package _", "package main;", ";package main", ";;\npackage main", "package\nmain",
}

var c03TypeNames = []string{"int", "string", "map", "struct", "[]int", "func", "bool", "float64", "interface", "error", "any", "map[string]int", "[]", "byte"}

// hand-written seeds covering syntax the generators do not produce (alias imports, iota blocks,
// closures, interfaces, map literals, slices of slices, switch forms, variadics, labels of data)
var c03Seeds = []string{
	"package main\nimport (\n\tf \"fmt\"\n\ts \"strings\"\n)\nfunc main() {\n\tf.Println(s.ToUpper(\"abc\"))\n}\n",
	"package main\nimport (\n\tl \"lib\"\n\t\"fmt\"\n)\nfunc main() {\n\tfmt.Println(l.Add(1, 2))\n}\n",
	"import \"lib\"\nx := lib.Add(2, 3)\nx\n",
	"import (\n\tq \"lib\"\n)\nq.Add(1, 1)\n",
	"package main\nimport \"fmt\"\nconst (\n\tA = iota\n\tB\n\tC = iota * 2\n)\ntype S struct {\n\ta, b int\n\tname string\n}\ntype I interface {\n\tGet() int\n}\nfunc (s *S) Get() int { return s.a + s.b }\nfunc main() {\n\ts := &S{a: 1, b: 2, name: \"n\"}\n\tvar i I = s\n\tfmt.Println(A, B, C, i.Get(), s.name)\n}\n",
	"package main\nimport \"fmt\"\nfunc apply(f func(int) int, xs ...int) []int {\n\tvar out []int\n\tfor _, x := range xs {\n\t\tout = append(out, f(x))\n\t}\n\treturn out\n}\nfunc main() {\n\tk := 3\n\tfmt.Println(apply(func(x int) int { return x * k }, 1, 2, 3))\n\tm := map[string][]int{\"a\": {1, 2}, \"b\": {}}\n\tfor k, v := range m {\n\t\t_ = k\n\t\t_ = v\n\t}\n\tss := [][]int{{1}, {2, 3}}\n\tfmt.Println(len(ss), ss[1][0], m[\"a\"][1:])\n}\n",
	"package main\nimport \"fmt\"\nfunc f(x int) (int, string) {\n\tswitch {\n\tcase x < 0:\n\t\treturn -1, \"neg\"\n\tcase x == 0:\n\t\treturn 0, \"zero\"\n\tdefault:\n\t\tbreak\n\t}\n\tswitch y := x % 3; y {\n\tcase 0, 1:\n\t\treturn y, \"low\"\n\t}\n\treturn 2, \"two\"\n}\nfunc main() {\n\tfor i := -1; i < 4; i++ {\n\t\ta, b := f(i)\n\t\tfmt.Println(a, b)\n\t}\n\tvar p *int\n\t_ = p\n\tx := []byte(\"hey\")\n\tfmt.Println(string(x[1:]), 'a', 1.5e3, 0x1f, 017, \"q\\t\\\"\")\n}\n",
	"x := 1; y := x / 2; z := []int{x, y}; z[0] += 2; z",
	"func g(a, b int) int { if a > b { return a }; return b }; g(1, 2) + g(3, 1)",
	"type T struct { v int }; func (t *T) inc() { t.v++ }; t := &T{v: 1}; t.inc(); t.v",
	"m := map[string]int{\"a\": 1}; v, ok := m[\"b\"]; delete(m, \"a\"); len(m), v, ok",
	"var a int = 5; var b float64 = 2.5; var s string = \"x\"; a, b, s",
	"for i := 0; i < 3; i++ { if i == 1 { continue }; print(i) }",
	"s := \"héllo\"; for i, r := range s { _ = i; _ = r }; len(s)",
	// terminating scripts that build cyclic data and print it
	"s := []any{1, 2}; s[0] = s; println(s); s",
	"import \"fmt\"\nm := map[string]any{\"a\": 1}\nm[\"self\"] = m\ns := []any{m}\nm[\"s\"] = s\nfmt.Println(m, s)\nx := \"v=\" + fmt.Sprint(s)\nx\n",
	"package main\nimport \"fmt\"\ntype Node struct {\n\tnext *Node\n\tkids []any\n}\nfunc main() {\n\ta := &Node{}\n\tb := &Node{next: a}\n\ta.next = b\n\ta.kids = []any{a, []any{b}}\n\tfmt.Println(a)\n\tprintln(a.kids)\n}\n",
	"a := []any{0}; b := []any{a}; c := []any{b}; d := []any{c}; a[0] = d; print(a, b, c, d); panic(d)",
}

// ---- mutators ------------------------------------------------------------------------------------------

type c03Mut struct {
	name string
	f    func(r *rng, src string) string
}

func c03Join(toks []string) string { return strings.Join(toks, "") }

func c03Nest(r *rng, depth int) string {
	d := depth
	switch r.intn(14) {
	case 0:
		return strings.Repeat("(", d) + "1" + strings.Repeat(")", d)
	case 1:
		return strings.Repeat("(", d) + "x" // unbalanced
	case 2:
		return "x" + strings.Repeat("[0", d) + strings.Repeat("]", d)
	case 3:
		return strings.Repeat("-", d) + "1"
	case 4:
		return strings.Repeat("!", d) + "true"
	case 5:
		return strings.Repeat("^", d) + "1"
	case 6:
		return "var v " + strings.Repeat("[]", d) + "int"
	case 7:
		return "var v " + strings.Repeat("map[int]", d) + "int"
	case 8:
		return "func nest() " + strings.Repeat("{ if true ", d/2+1) + "{}" + strings.Repeat("}", d/2+1)
	case 9:
		return "f" + strings.Repeat("(f", d) + strings.Repeat(")", d)
	case 10:
		return "a" + strings.Repeat(".a", d)
	case 11:
		return strings.Repeat("func() { ", d/4+1) + strings.Repeat("}", d/4+1)
	case 12:
		return "x := " + strings.Repeat("[]int{", 1) + strings.Repeat("{", d) + strings.Repeat("}", d) + "}"
	default:
		return "1" + strings.Repeat("+1", d)
	}
}

var c03Muts = []c03Mut{
	{"mut-tokdel", func(r *rng, src string) string {
		toks := c03Lex(src)
		for k := 1 + r.intn(3); k > 0; k-- {
			if idx := c03Solid(toks); len(idx) > 0 {
				toks[pick(r, idx)] = ""
			}
		}
		return c03Join(toks)
	}},
	{"mut-tokdup", func(r *rng, src string) string {
		toks := c03Lex(src)
		if idx := c03Solid(toks); len(idx) > 0 {
			i := pick(r, idx)
			toks[i] = toks[i] + " " + toks[i]
		}
		return c03Join(toks)
	}},
	{"mut-tokswap", func(r *rng, src string) string {
		toks := c03Lex(src)
		if idx := c03Solid(toks); len(idx) > 1 {
			k := r.intn(len(idx) - 1)
			toks[idx[k]], toks[idx[k+1]] = toks[idx[k+1]], toks[idx[k]]
		}
		return c03Join(toks)
	}},
	{"mut-trunc", func(r *rng, src string) string {
		if len(src) == 0 {
			return src
		}
		return src[:r.intn(len(src))]
	}},
	{"mut-bracket", func(r *rng, src string) string {
		toks := c03Lex(src)
		var br []int
		for i, t := range toks {
			if len(t) == 1 && strings.Contains("(){}[]", t) {
				br = append(br, i)
			}
		}
		if len(br) > 0 && r.chance(60) {
			toks[pick(r, br)] = ""
		} else if len(toks) > 0 {
			i := r.intn(len(toks))
			toks[i] = pick(r, []string{"(", ")", "{", "}", "[", "]", "[]", "{{", "))"}) + toks[i]
		}
		return c03Join(toks)
	}},
	{"mut-literal", func(r *rng, src string) string {
		toks := c03Lex(src)
		var lit []int
		for i, t := range toks {
			if len(t) > 0 && (t[0] == '"' || t[0] == '\'' || t[0] == '`' || (t[0] >= '0' && t[0] <= '9')) {
				lit = append(lit, i)
			}
		}
		bad := pick(r, c03BadLiterals)
		if len(lit) > 0 {
			toks[pick(r, lit)] = bad
		} else {
			toks = append(toks, " "+bad)
		}
		return c03Join(toks)
	}},
	{"mut-stray", func(r *rng, src string) string {
		toks := c03Lex(src)
		s := pick(r, []string{"~", "#", "$", "?", "\\", "@", "`", "$1", "$x", "..", "->", "<-", "\x00", "\xff", "\u2028"})
		if len(toks) == 0 {
			return s
		}
		i := r.intn(len(toks))
		if r.chance(30) {
			toks[i] = s + toks[i] // in front of a token (the first one included)
		} else {
			toks[i] = toks[i] + s
		}
		return c03Join(toks)
	}},
	{"mut-keyword", func(r *rng, src string) string {
		toks := c03Lex(src)
		kw := pick(r, c03Symbols)
		if idx := c03Solid(toks); len(idx) > 0 {
			i := pick(r, idx)
			if r.chance(25) {
				i = idx[0] // the head of the file: the package clause, the first statement
			}
			switch r.intn(3) {
			case 0:
				toks[i] = kw
			case 1:
				toks[i] = toks[i] + " " + kw + " "
			default:
				toks[i] = kw + " " + toks[i] // a prefix: `*package`, `& import`, `- func`
			}
		} else {
			toks = append(toks, kw)
		}
		return c03Join(toks)
	}},
	{"mut-nest", func(r *rng, src string) string {
		depth := pick(r, []int{1, 2, 5, 17, 64, 200, 500, 1000, 2000, 9999, 10000, 10001, 20000}) // the front end stops at 10000
		if r.chance(30) {
			depth = 1 + r.intn(2000)
		}
		n := c03Nest(r, depth)
		toks := c03Lex(src)
		if idx := c03Solid(toks); len(idx) > 0 && r.chance(50) {
			toks[pick(r, idx)] = n // in place of some token
			return c03Join(toks)
		}
		return src + "\n" + n + "\n"
	}},
	{"mut-emptyop", func(r *rng, src string) string {
		e := pick(r, []string{"x /;", "x +;", "1 *;", "a.;", "f(,)", "x[;]", "x = ;", "x := ;", "!;", "-;", "x ||;", "a[1:;]", "return ,;", "if ; {}", "for ;; {}", "x, = 1, 2", "m[] = 1", "(;)", "{;}"})
		lines := strings.Split(src, "\n")
		i := r.intn(len(lines))
		lines[i] = lines[i] + "; " + e
		return strings.Join(lines, "\n")
	}},
	{"mut-missingret", func(r *rng, src string) string {
		lines := strings.Split(src, "\n")
		var rl []int
		for i, l := range lines {
			if strings.Contains(l, "return") {
				rl = append(rl, i)
			}
		}
		if len(rl) == 0 {
			return src + "\nfunc noret(a int) int { if a > 0 { return 1 } }\nnoret(0)\n"
		}
		i := pick(r, rl)
		lines[i] = strings.Replace(lines[i], "return", pick(r, []string{"", "_ =", "return;", "//return"}), 1)
		return strings.Join(lines, "\n")
	}},
	{"mut-typename", func(r *rng, src string) string {
		toks := c03Lex(src)
		var ids []int
		for i, t := range toks {
			if len(t) > 0 && c03IsIdent(t[0]) && !(t[0] >= '0' && t[0] <= '9') {
				ids = append(ids, i)
			}
		}
		if len(ids) > 0 {
			toks[pick(r, ids)] = pick(r, c03TypeNames)
		}
		return c03Join(toks)
	}},
	{"mut-splice-cyclic", func(r *rng, src string) string {
		setup, vars := c03CyclicSetup(r, r.intn(1000))
		frag := setup + c03CyclicRoute(r, pick(r, vars), strings.Contains(src, "\"fmt\""), false)
		if k := strings.Index(src, "func main() {\n"); k >= 0 && r.chance(70) {
			k += len("func main() {\n")
			return src[:k] + strings.ReplaceAll(frag, "; ", "\n") + "\n" + src[k:]
		}
		if strings.HasPrefix(src, "package ") {
			return src + "\nfunc cycShow() {\n" + frag + "\n}\nfunc init() { cycShow() }\n"
		}
		if r.chance(50) {
			return src + "\n" + frag + "\n"
		}
		return frag + "\n" + src
	}},
	{"mut-importalias", func(r *rng, src string) string {
		p := pick(r, []string{`"lib"`, `"fmt"`, `"\400"`, `"\ud800"`, `"a/../lib"`, `""`, `"*"`, `"lib["`, `"cyc1"`, `"missing/pkg"`, "`lib`", `"bad"`, `"emptyp"`, `"./lib"`, `"lib/"`, `"\x00"`, `"conf"`,
			`"."`, `".."`, `"/"`, `"/lib"`, `"lib//"`, `"lib\\"`, `"["`, `"[]"`, `"[a-"`, `"\\"`, `"a[b]"`, `"?"`, `"li*"`, `"vendor/ven"`, `"ven"`, `"starpkg"`, `"amppkg"`})
		form := pick(r, []string{"import %s\n", "import (\n\tz %s\n)\n", "import (z %s)\n", "import (\n\t%s\n\tf \"fmt\"\n)\n", "import z %s\n"})
		return fmt.Sprintf(form, p) + src
	}},
}

// ---- the corpus --------------------------------------------------------------------------------------

type c03Corpus struct {
	tables  []string // test-table strings of /repo/*_test.go
	seeds   []string
	pending []string // queued sources of a truncation sweep (one program cut at every k-th byte)
}

func c03NewCorpus() *c03Corpus {
	c := &c03Corpus{seeds: c03Seeds}
	for _, s := range testTableStrings() {
		if len(s) < 4000 {
			c.tables = append(c.tables, s)
		}
	}
	sort.Strings(c.tables)
	return c
}

// base returns a mostly-valid source and whether it is a whole "package main" program with main()
func (c *c03Corpus) base(r *rng) (src string, class string, hasMain bool) {
	switch k := r.intn(10); {
	case k < 3:
		return genCoreProgram(r, 1+r.intn(3)), "gen-core", true
	case k < 4:
		return genFaultProgram(r), "gen-fault", true
	case k < 8 && len(c.tables) > 0:
		return pick(r, c.tables), "test-table", false
	default:
		s := pick(r, c.seeds)
		return s, "seed", strings.Contains(s, "func main()")
	}
}

func c03Mutate(r *rng, src string) (string, string) {
	n := 1
	if r.chance(30) {
		n = 2 + r.intn(2)
	}
	var names []string
	for i := 0; i < n; i++ {
		m := pick(r, c03Muts)
		src = m.f(r, src)
		names = append(names, m.name)
	}
	return src, names[0]
}

// ---- the malformed stream ---------------------------------------------------------------------------------

func c03RandBytes(r *rng, n int, mode int) string {
	b := make([]byte, n)
	for i := range b {
		switch mode {
		case 0:
			b[i] = byte(r.intn(256))
		case 1:
			b[i] = byte(32 + r.intn(95))
		case 2:
			b[i] = byte(128 + r.intn(128))
		default:
			const punct = "(){}[];,.:=+-*/%&|^!<>\"'`\n\t 0aX_\\#$~?@"
			b[i] = punct[r.intn(len(punct))]
		}
	}
	return string(b)
}

func c03Soup(r *rng, n int) string {
	var p []string
	for i := 0; i < n; i++ {
		switch r.intn(8) {
		case 0:
			p = append(p, pick(r, []string{"x", "y", "f", "T", "main", "_", "fmt", "lib"}))
		case 1:
			p = append(p, pick(r, []string{"0", "1", "42", "1.5", "\"s\"", "'c'", "`r`", "0x10"}))
		case 2:
			p = append(p, "\n")
		default:
			p = append(p, pick(r, c03Symbols))
		}
	}
	return strings.Join(p, pick(r, []string{" ", " ", "", "\n"}))
}

func c03Malformed(r *rng, c *c03Corpus) (string, string) {
	switch r.intn(11) {
	case 0:
		n := r.intn(300)
		if r.chance(10) {
			n = r.intn(60000)
		}
		return c03RandBytes(r, n, r.intn(4)), "mal-bytes"
	case 1, 2:
		return c03Soup(r, 1+r.intn(120)), "mal-soup"
	case 3:
		src, _, _ := c.base(r)
		toks := c03Lex(src)
		for k := 1 + r.intn(4); k > 0 && len(toks) > 0; k-- {
			i := r.intn(len(toks))
			toks[i] += strings.Repeat("\x00", 1+r.intn(3))
		}
		if r.chance(20) {
			return strings.Repeat("\x00", 1+r.intn(100)), "mal-nul"
		}
		return c03Join(toks), "mal-nul"
	case 4:
		src, _, _ := c.base(r)
		bad := []string{"\xff", "\xc0\x80", "\xe2\x82", "\xed\xa0\x80", "\xf8\x88\x80\x80\x80", "\xef\xbb\xbf", "\xfe\xff", "\x80", "\xf4\x90\x80\x80", "é\xcc", "\"\xff\"", "'\xff'", "x\xffy := 1"}
		toks := c03Lex(src)
		for k := 1 + r.intn(3); k > 0 && len(toks) > 0; k-- {
			i := r.intn(len(toks))
			toks[i] += pick(r, bad)
		}
		if r.chance(25) {
			return pick(r, bad) + c03Join(toks), "mal-utf8"
		}
		return c03Join(toks), "mal-utf8"
	case 5:
		n := pick(r, []int{1000, 65535, 65536, 70000, 200000, 1000000})
		switch r.intn(6) {
		case 0:
			return strings.Repeat("a", n) + " := 1; " + strings.Repeat("a", n), "mal-long"
		case 1:
			return "x := \"" + strings.Repeat("s", n) + "\"; len(x)", "mal-long"
		case 2:
			return "// " + strings.Repeat("c", n) + "\nx := 1; x", "mal-long"
		case 3:
			return strings.Repeat(" ", n) + "x := 1; y()", "mal-long" // a column beyond 65535
		case 4:
			return "x := 0; " + strings.Repeat("x = 1; ", n/8) + "y()", "mal-long"
		default:
			return "x := `" + strings.Repeat("r\n", n/2) + "`; len(x)", "mal-long"
		}
	case 6:
		n := pick(r, []int{1000, 65535, 65536, 65537, 70000, 131072, 262143, 262144, 262145, 300000, 524288, 1 << 20})
		tail := pick(r, []string{"x()", "1", "x := 1; x", "func f() int { return g() }; f()", "panic(\"p\")", "var a []int; a[3]", ""})
		return strings.Repeat("\n", n) + tail, "mal-manylines"
	case 7:
		return pick(r, []string{"", " ", "\n", "\t\n \n", ";", ";;;;", "\r\n", "\x00", "\ufeff"}), "mal-empty"
	case 8:
		return pick(r, []string{"// only a comment", "/* unterminated", "/**/", "/* a */ // b\n", "/* /* nested */ */", "//", "/*", "/", "// x\n// y\n", "/*\n\n*/\n\n", "#!/usr/bin/goat\nx := 1"}), "mal-comments"
	case 9:
		// mutate a malformed thing further
		s := c03Soup(r, 1+r.intn(40))
		s, _ = c03Mutate(r, s)
		return s, "mal-soup"
	default:
		src, _, _ := c.base(r)
		for k := 3 + r.intn(6); k > 0; k-- {
			src, _ = c03Mutate(r, src)
		}
		return src, "mal-heavy-mutation"
	}
}

// ---- file trees --------------------------------------------------------------------------------------------

// the library available to every Eval job (all of it terminates)
func c03EvalFS() map[string]string {
	return map[string]string{
		"lib/lib.go":          "package lib\nfunc Add(a int, b int) int { return a + b }\nvar V = 7\n",
		"lib/more.go":         "package lib\nfunc Twice(a int) int { return Add(a, a) }\n",
		"lib/lib_test.go":     "package lib\nthis is not goat {{{\n",
		"bad/bad.go":          "package bad\nfunc F( {\n",
		"emptyp/e.go":         "",
		"nopkg/n.go":          "x := 1\n",
		"cyc1/c.go":           "package cyc1\nimport \"cyc2\"\nvar A = 1\n",
		"cyc2/c.go":           "package cyc2\nimport \"cyc1\"\nvar B = 2\n",
		"selfi/s.go":          "package selfi\nimport \"selfi\"\n",
		"conf/a.go":           "package conf\n",
		"conf/b.go":           "package other\n",
		"vendor/ven/v.go":     "package ven\nfunc V() int { return 1 }\n",
		"rt/rt.go":            "package rt\nvar X = boom()\nfunc boom() int { var a []int; return a[1] }\n",
		"deep/a/b/c/d/e/f.go": "package f\nvar D = 1\n",
		"notgo/readme.txt":    "hello",
		"tagged/t.go":         "//go:build !goat\n\npackage tagged\nthis is skipped ((((\n",
		"tagged/u.go":         "//go:build goat\n\npackage tagged\nvar T = 3\n",
		"badtag/t.go":         "//go:build !!((\n\npackage badtag\n",
		"alias/a.go":          "package alias\nimport (\n\tl \"lib\"\n)\nvar Q = l.V\n",
		"badalias/a.go":       "package badalias\nimport (\n\tl \"\\400\"\n)\n",
		"nilop/n.go":          "package nilop\nvar N = 1 /;\n",
		"starpkg/s.go":        "*package starpkg\nvar S = 1\n",
		"amppkg/a.go":         "package amppkg\n",
		"amppkg/b.go":         "&package\n",
	}
}

var c03PkgBodies = []string{
	"package %s\nvar V%d = %d\nfunc F%d(x int) int { return x + %d }\n",
	"package %s\nimport \"fmt\"\nfunc init() { fmt.Println(\"init %s\") }\nvar W%d = %d\nconst K%d = %d\n",
	"package %s\ntype T%d struct { a int }\nfunc (t *T%d) Get() int { return t.a + %d }\n",
}

func c03PkgFile(r *rng, name string, imports []string) string {
	k := r.intn(1000)
	var sb strings.Builder
	fmt.Fprintf(&sb, "package %s\n", name)
	if len(imports) > 0 {
		if r.chance(50) {
			for _, q := range imports {
				fmt.Fprintf(&sb, "import \"%s\"\n", q)
			}
		} else {
			sb.WriteString("import (\n")
			for i, q := range imports {
				if r.chance(40) {
					fmt.Fprintf(&sb, "\ta%d \"%s\"\n", i, q)
				} else {
					fmt.Fprintf(&sb, "\t\"%s\"\n", q)
				}
			}
			sb.WriteString(")\n")
		}
	}
	fmt.Fprintf(&sb, "var V%d = %d\nfunc F%d(x int) int { return x + %d }\n", k, k, k, k)
	if r.chance(30) {
		fmt.Fprintf(&sb, "func init() { println(\"init %s\") }\n", name)
	}
	return sb.String()
}

// c03GenLoad builds a file tree, an argument for Load and a label of the planted irregularity.
func c03GenLoad(r *rng, c *c03Corpus) (files map[string]string, arg string, class string) {
	files = map[string]string{}
	// a small valid skeleton: main imports a and b/c; a imports b/c
	prog, _, hasMain := "", "", false
	for !hasMain {
		prog, _, hasMain = c.base(r)
	}
	files["main/main.go"] = prog
	files["a/a.go"] = c03PkgFile(r, "a", []string{"b/c"})
	files["b/c/c.go"] = c03PkgFile(r, "c", nil)
	files["main/extra.go"] = "package main\nimport (\n\t\"a\"\n\tcc \"b/c\"\n)\nvar _ = 0\n"
	arg = "main"
	class = "load-valid"
	bad := func() string {
		if r.chance(50) {
			s, _ := c03Malformed(r, c)
			if len(s) > 5000 {
				s = s[:5000]
			}
			return s
		}
		s, _, _ := c.base(r)
		s, _ = c03Mutate(r, s)
		return s
	}
	where := pick(r, []string{"main", "a", "b/c"})
	switch r.intn(23) {
	case 0:
		class = "load-valid"
	case 1:
		files[where+"/broken.go"] = bad()
		class = "load-broken-file"
	case 2:
		files[where+"/empty.go"] = pick(r, []string{"", "\n", " ", "// nothing\n", "/* c */"})
		class = "load-empty-file"
	case 3:
		files[where+"/nopkg.go"] = pick(r, []string{"var x = 1\n", "func f() {}\n", "import \"fmt\"\n", "x := 1\n", "1\n", ";\n", "package\n", "package 1\n", "package \"s\"\n", "package main.x\n"})
		class = "load-nopkg"
	case 4:
		files[where+"/conflict.go"] = "package " + pick(r, []string{"other", "main2", "_", "x"}) + "\nvar Z = 1\n"
		class = "load-conflict"
	case 5:
		files["b/c/back.go"] = "package c\nimport \"a\"\n"
		class = "load-cycle"
	case 6:
		files[where+"/self.go"] = "package " + pkgName(where) + "\nimport \"" + where + "\"\n"
		class = "load-selfimport"
	case 7:
		files[where+"/miss.go"] = "package " + pkgName(where) + "\nimport \"" + pick(r, []string{"nope", "no/such/pkg", "fmt", "strings", "", ".", "..", "a/../a", "/abs", "a/", "./a", "*", "?", "[", "a[b", "\\\\", "vendor/x", "main"}) + "\"\n"
		class = "load-missing-import"
	case 8:
		files[where+"/x_test.go"] = bad()
		files[where+"/_test.go"] = bad()
		class = "load-testfile"
	case 9:
		tag := pick(r, []string{"//go:build !!((", "//go:build", "//go:build goat &&", "//go:build !goat", "//go:build goat", "// +build ignore", "//go:build (", "//go:build goat || ", "//go:build \x00", "//go:build " + strings.Repeat("(", 200) + "goat" + strings.Repeat(")", 200), "//go:build " + strings.Repeat("!", 5000) + "goat"})
		files[where+"/tag.go"] = tag + "\n\npackage " + pkgName(where) + "\nvar Tg = 1\n"
		class = "load-buildtag"
	case 10:
		files["nogo/readme.txt"] = "hi"
		files["nogo/sub/x.go"] = "package sub\n"
		arg = "nogo"
		class = "load-no-go-files"
	case 11:
		p := strings.Repeat("d/", 5+r.intn(60)) + "leaf"
		files[p+"/l.go"] = c03PkgFile(r, "leaf", nil)
		files["main/deep.go"] = "package main\nimport \"" + p + "\"\n"
		if r.chance(50) {
			arg = p
		}
		class = "load-deep-path"
	case 12:
		arg = pick(r, []string{"main/main.go", "a/a.go", "b/c/c.go", "main/extra.go", "main/none.go", "x.go", ".go", "main.go", "main/main.go/", "main/main.go/x.go"})
		class = "load-file-arg"
	case 13:
		arg = pick(r, []string{"", ".", "..", "a/../main", "/main", "main/", "./main", "main//", "nonexistent", "vendor/x", "main/..", "../main", "a//b", "\\main", "main\x00", "*", "[", "ma?n", "m*", strings.Repeat("x/", 300), "/", "//", "b", "b/c/", "a/a.go/.."})
		class = "load-weird-arg"
	case 14:
		files["x.go/inner.go"] = "package x\n" // a directory whose name ends in .go
		arg = "x.go"
		class = "load-dir-named-go"
	case 15:
		files[where+"/alias.go"] = "package " + pkgName(where) + "\nimport (\n\tz " + pick(r, []string{`"\400"`, `"\ud800"`, `"b/c"`, "`b/c`", `""`, `"\x"`, `"a" "b"`, `1`, `z`}) + "\n)\n"
		class = "load-alias-import"
	case 16:
		files["vendor/a/v.go"] = "package a\nvar Vendored = 1\n"
		files["vendor/vendor/a/v.go"] = "package a\n"
		class = "load-vendor"
	case 17:
		files[where+"/ops.go"] = "package " + pkgName(where) + "\nvar O = 1 " + pick(r, []string{"/;", "+;", "*", "||;", ".;"}) + "\n"
		class = "load-empty-operand"
	case 21, 22:
		// a malformed package clause, in a file of the argument package or of an imported one, for both Load forms.
		// (`*package`: skipNud hands back the bare keyword token, a "package" node without children)
		clause := pick(r, c03BadClauses)
		if r.chance(35) {
			// skipNud (prefix * and &) returns the NEXT token as it is: a keyword node without children
			clause = pick(r, []string{"*", "&", "* ", "& "}) + pick(r, []string{"package", "package", "package x", "package main", "package " + pkgName(where), "import", "func", "type", "var", "if", "return"})
		} else if r.chance(30) {
			clause = pick(r, []string{"*", "&", "-", "!", "^", "(", "[]", "$", "* ", "&&", "**", "*&"}) + pick(r, []string{"package", "package " + pkgName(where), "import", "import \"fmt\"", "func", "type", "var", "const", "if", "for", "switch", "return", "map", "struct", "interface", "case", "default", "else", "range", "make"})
		}
		content := clause + pick(r, []string{"", "\n", "\nvar Z = 1\n", "\nfunc Zf() int { return 1 }\n", " x\n", ";\n"})
		name := where + "/" + pick(r, []string{"0clause.go", "zclause.go", "a.go"})
		if r.chance(50) {
			// the only file of its package
			for k := range files {
				if strings.HasPrefix(k, where+"/") && !strings.Contains(k[len(where)+1:], "/") {
					delete(files, k)
				}
			}
		}
		files[name] = content
		switch r.intn(5) {
		case 0:
			arg = name // the single-file form
		case 1, 2:
			arg = where // the package with the malformed clause is the argument itself (read outside loadImports)
		}
		class = "load-package-clause"
	case 19:
		files[where+"/expr.go"] = "package " + pkgName(where) + "\n" + pick(r, []string{"42", "x := 1; x", "\"s\"", "1, 2", "len(\"abc\")", "func() int { return 1 }()", "nil", "true"}) + "\n"
		class = "load-toplevel-value"
	case 18:
		for k := 0; k < 3; k++ {
			files[fmt.Sprintf("%s/m%d.go", where, k)] = bad()
		}
		class = "load-many-broken"
	default:
		// the whole skeleton replaced by a generated program split over two files
		files = map[string]string{"main/main.go": prog, "main/second.go": "package main\nvar second = 2\n"}
		class = "load-valid"
	}
	return files, arg, class
}

// ---- cyclic data ---------------------------------------------------------------------------------------------
// Terminating scripts that build a value containing itself and hand it to a stringer.  Go's own fmt detects
// such cycles only for pointers; goatlang's Value.String must stay bounded on them: a runaway recursion there
// is Go's fatal stack overflow, not a recoverable panic.

// c03CyclicSetup returns statements (separated by "; ") that build cyclic data, and the variables that hold it.
func c03CyclicSetup(r *rng, id int) (string, []string) {
	v := func(n string) string { return fmt.Sprintf("%s%d", n, id) }
	switch r.intn(14) {
	case 0: // a slice that contains itself
		return fmt.Sprintf("%s := []any{1, 2}; %s[0] = %s; ", v("cs"), v("cs"), v("cs")), []string{v("cs")}
	case 1: // two slices containing each other
		return fmt.Sprintf("%s := []any{1}; %s := []any{%s, 2}; %s[0] = %s; ", v("ca"), v("cb"), v("ca"), v("ca"), v("cb")), []string{v("ca"), v("cb")}
	case 2, 3: // a cycle through k nested slices, k = 1..4
		k := 1 + r.intn(4)
		var sb strings.Builder
		names := []string{v("c0_")}
		fmt.Fprintf(&sb, "%s := []any{0, \"x\"}; ", names[0])
		for i := 1; i <= k; i++ {
			n := fmt.Sprintf("%s%d_", v("c"), i)
			fmt.Fprintf(&sb, "%s := []any{%s}; ", n, names[i-1])
			names = append(names, n)
		}
		fmt.Fprintf(&sb, "%s[0] = %s; ", names[0], names[k])
		return sb.String(), names
	case 4: // typed slice of slices
		return fmt.Sprintf("%s := [][]any{{1}, {2}}; %s[0][0] = %s; ", v("cq"), v("cq"), v("cq")), []string{v("cq")}
	case 5: // literal nesting, then the cycle at depth 3
		return fmt.Sprintf("%s := []any{[]any{[]any{0}}}; %s := []any{%s}; %s[0] = %s; ", v("cd"), v("ce"), v("cd"), v("cd"), v("ce")), []string{v("cd"), v("ce")}
	case 6: // a map that contains itself
		return fmt.Sprintf("%s := map[string]any{\"a\": 1}; %s[\"self\"] = %s; ", v("cm"), v("cm"), v("cm")), []string{v("cm")}
	case 7: // int-keyed map
		return fmt.Sprintf("%s := map[int]any{}; %s[1] = %s; ", v("ci"), v("ci"), v("ci")), []string{v("ci")}
	case 8: // a struct whose field points to itself
		return fmt.Sprintf("type CycN%d struct { next any; v int }; %s := &CycN%d{v: 1}; %s.next = %s; ", id, v("cn"), id, v("cn"), v("cn")), []string{v("cn")}
	case 9: // a ring of structs
		return fmt.Sprintf("type CycR%d struct { next *CycR%d; v int }; %s := &CycR%d{v: 1}; %s := &CycR%d{v: 2}; %s := &CycR%d{v: 3}; %s.next = %s; %s.next = %s; %s.next = %s; ",
			id, id, v("ra"), id, v("rb"), id, v("rc"), id, v("ra"), v("rb"), v("rb"), v("rc"), v("rc"), v("ra")), []string{v("ra"), v("rb")}
	case 10: // slice <-> map
		return fmt.Sprintf("%s := []any{1}; %s := map[string]any{}; %s[\"s\"] = %s; %s[0] = %s; ", v("xs"), v("xm"), v("xm"), v("xs"), v("xs"), v("xm")), []string{v("xs"), v("xm")}
	case 11: // struct <-> slice <-> map
		return fmt.Sprintf("type CycM%d struct { items []any; m map[string]any }; %s := &CycM%d{items: []any{1, 2}, m: map[string]any{}}; %s.items[0] = %s; %s.m[\"o\"] = %s.items; ",
			id, v("mo"), id, v("mo"), v("mo"), v("mo"), v("mo")), []string{v("mo"), v("mo") + ".items", v("mo") + ".m"}
	case 12: // built with append
		return fmt.Sprintf("%s := []any{1}; %s = append(%s, %s); %s[0] = %s; ", v("ap"), v("ap"), v("ap"), v("ap"), v("ap"), v("ap")), []string{v("ap")}
	default: // a slice of slices holding a map holding the outer slice
		return fmt.Sprintf("%s := []any{[]any{map[string]any{}}}; %s := []any{%s, %s}; %s[0] = %s; ", v("so"), v("sp"), v("so"), v("so"), v("so"), v("sp")), []string{v("so"), v("sp")}
	}
}

var c03ErrorsOK = false // set while generating a script that imports "errors"

// c03CyclicRoute renders the variable through one stringer route.  value = the route may end the script with
// the value itself (it is then returned to the host, which prints it).
func c03CyclicRoute(r *rng, x string, fmtOK bool, value bool) string {
	routes := []string{"println(%s)", "print(%s)", "println(1, %s, \"z\")", "panic(%s)"}
	if fmtOK {
		routes = append(routes, "fmt.Println(%s)", "fmt.Print(%s)", "println(fmt.Sprintf(\"%%v|%%s|%%d\", %[1]s, %[1]s, %[1]s))", "cy_ := fmt.Sprint(%s); _ = cy_",
			"cy_ := \"a\" + fmt.Sprint(%s) + \"b\"; println(cy_)", "cy_ := fmt.Sprintf(\"%%v\", %s); println(len(cy_))", "panic(fmt.Sprint(%s))", "panic(\"p \" + fmt.Sprint(%s))")
	}
	if fmtOK && c03ErrorsOK {
		routes = append(routes, "cye_ := errors.New(fmt.Sprint(%s)); println(cye_)", "cye_ := errors.New(fmt.Sprint(%s)); panic(cye_)")
	}
	if value {
		routes = append(routes, "%s", "%[1]s, %[1]s", "1, %s", "[]any{%s}")
	}
	return fmt.Sprintf(pick(r, routes), x)
}

// c03CyclicEval: a whole script for Eval
func c03CyclicEval(r *rng) string {
	var sb strings.Builder
	sb.WriteString(pick(r, []string{"import \"fmt\"\nimport \"errors\"\n", "import (\n\t\"fmt\"\n\t\"errors\"\n)\n", "package main\nimport \"fmt\"\nimport \"errors\"\n"}))
	c03ErrorsOK = true
	defer func() { c03ErrorsOK = false }()
	setup, vars := c03CyclicSetup(r, r.intn(100))
	sep := pick(r, []string{"; ", "\n"})
	sb.WriteString(strings.ReplaceAll(setup, "; ", sep))
	x := pick(r, vars)
	// functions the host can call afterwards: one returns the value, one prints it
	fmt.Fprintf(&sb, "func cycGet() any { return %s }%sfunc cycShow() { %s }%s", x, sep, c03CyclicRoute(r, x, true, false), sep)
	for k := r.intn(3); k > 0; k-- {
		sb.WriteString(c03CyclicRoute(r, pick(r, vars), true, false) + sep)
	}
	sb.WriteString(c03CyclicRoute(r, pick(r, vars), true, true))
	return sb.String()
}

// c03CyclicLoad: package main for Load; the cyclic value is rendered at top level, in main / cycShow, returned by
// cycGet, or left on the stack by the package's top-level code ("unexpected returns: %v")
func c03CyclicLoad(r *rng) string {
	var sb strings.Builder
	sb.WriteString("package main\nimport \"fmt\"\nimport \"errors\"\n")
	c03ErrorsOK = true
	defer func() { c03ErrorsOK = false }()
	setup, vars := c03CyclicSetup(r, r.intn(100))
	body := strings.ReplaceAll(setup, "; ", "\n")
	x := pick(r, vars)
	switch r.intn(4) {
	case 0: // everything at top level, a value left over
		sb.WriteString(body)
		fmt.Fprintf(&sb, "func cycGet() any { return %s }\nfunc cycShow() { %s }\nfunc main() { cycShow() }\n", x, c03CyclicRoute(r, x, true, false))
		sb.WriteString(pick(r, []string{x, "1, " + x, "[]any{" + x + "}"}) + "\n")
	case 1: // top-level rendering
		sb.WriteString(body)
		fmt.Fprintf(&sb, "func cycGet() any { return %s }\nfunc cycShow() { %s }\nfunc main() { cycShow() }\n", x, c03CyclicRoute(r, x, true, false))
		sb.WriteString(c03CyclicRoute(r, pick(r, vars), true, false) + "\n")
	case 2: // inside init
		fmt.Fprintf(&sb, "func init() {\n%s%s\n}\nfunc main() {}\n", body, c03CyclicRoute(r, x, true, false))
	default: // only when the host calls
		fmt.Fprintf(&sb, "func build() any {\n%sreturn %s\n}\nfunc cycGet() any { return build() }\nfunc cycShow() { cy := build(); %s }\nfunc main() { cycShow() }\n",
			body, x, c03CyclicRoute(r, "cy", true, false))
	}
	return sb.String()
}

// ---- scripts that terminate by construction ---------------------------------------------------------------------
// Straight-line code, for loops with constant bounds, recursion on a counter that decreases from a literal.  Nothing
// here can run for long, so an entry point or host call that does not return has WEDGED the host (a deadlock, a
// lost wake-up ...), which is as bad as a crash.  The library exercises every native that calls back into the VM
// (builtins.go: slices.SortFunc and slices.SortStableFunc run the script comparator through VM.Func; time.Sleep
// yields through VM.Yield -> Call -> Func), with comparators that are functions, lambdas, bound methods, that
// panic, sleep, recurse or sort again, on 0, 1, 2 and many elements.

const c03TermLib = `type Cmp struct { k int }
func (c *Cmp) less(a int, b int) bool { return a*c.k < b*c.k }
func less(a int, b int) bool { return a < b }
func greater(a int, b int) bool { return b < a }
func lessStr(a string, b string) bool { return a < b }
func lessPanic(a int, b int) bool { if a == 3 { panic("cmp 3") }; return a < b }
func lessNested(a int, b int) bool { t := []int{3, 1, 2}; slices.SortFunc(t, less); return a < b }
func lessNested2(a int, b int) bool { t := []int{2, 1}; slices.SortStableFunc(t, lessNested); return a < b }
func lessSleep(a int, b int) bool { time.Sleep(1); return a < b }
func down(n int) int { if n <= 0 { return 0 }; return 1 + down(n-1) }
func lessDeep(a int, b int) bool { return down(5) + a < down(5) + b }
func sort0() []int { s := []int{}; slices.SortFunc(s, less); return s }
func sort1() []int { s := []int{7}; slices.SortFunc(s, less); return s }
func sort2() []int { s := []int{7, 3}; slices.SortFunc(s, less); return s }
func sortMany() []int { s := []int{9, 3, 7, 1, 8, 2, 6, 4, 5, 0, 11, 15, 13, 12, 14, 10, 19, 17, 16, 18}; slices.SortFunc(s, greater); return s }
func sortStable() []int { s := []int{4, 2, 1, 3}; slices.SortStableFunc(s, less); return s }
func sortStable0() []int { s := []int{}; slices.SortStableFunc(s, less); return s }
func sortPanics() []int { s := []int{5, 3, 1}; slices.SortFunc(s, lessPanic); return s }
func sortNested() []int { s := []int{5, 3, 1, 4}; slices.SortFunc(s, lessNested); return s }
func sortNested2() []int { s := []int{5, 3, 1}; slices.SortFunc(s, lessNested2); return s }
func sortSleep() []int { s := []int{2, 1}; slices.SortStableFunc(s, lessSleep); return s }
func sortDeep() []int { s := []int{2, 1, 3}; slices.SortFunc(s, lessDeep); return s }
func sortLambda() []int { s := []int{3, 1, 2}; slices.SortFunc(s, func(a int, b int) bool { return a < b }); return s }
func sortMethod() []int { c := &Cmp{k: 2}; s := []int{3, 1, 2}; slices.SortFunc(s, c.less); return s }
func sortLoop() int { n := 0; for i := 0; i < 5; i++ { s := []int{3, 2, 1}; slices.SortStableFunc(s, greater); n += s[0] }; return n }
func sortStr() []string { s := []string{"b", "a", "c"}; slices.SortFunc(s, lessStr); return s }
func sortPlain() []int { s := []int{3, 1, 2}; slices.Sort(s); return s }
func nap() int { time.Sleep(1); return 1 }
func naps() int { n := 0; for i := 0; i < 3; i++ { time.Sleep(2); n++ }; return n }
`

var c03TermFuncs = []string{"sort0", "sort1", "sort2", "sortMany", "sortStable", "sortStable0", "sortPanics", "sortNested", "sortNested2", "sortSleep", "sortDeep", "sortLambda", "sortMethod", "sortLoop", "sortStr", "sortPlain", "nap", "naps"}

// c03TermJob: Eval or Load of the library plus some top-level / init / main activity, then host calls
func c03TermJob(r *rng, id int, opts int) c03Job {
	j := c03Job{ID: id, Opts: opts, MustTerminate: true, Fname: "eval"}
	imports := "import \"golang.org/x/exp/slices\"\nimport \"time\"\nimport \"fmt\"\n"
	// a few calls made by the script itself
	var acts []string
	for k := r.intn(4); k > 0; k-- {
		f := pick(r, c03TermFuncs)
		acts = append(acts, pick(r, []string{f + "()", "fmt.Sprint(" + f + "())", "t" + fmt.Sprint(k) + " := " + f + "(); _ = t" + fmt.Sprint(k)}))
	}
	globals := "cmpObj := &Cmp{k: 1}\nboundLess := cmpObj.less\nlambdaLess := func(a int, b int) bool { return b < a }\n"
	switch r.intn(4) {
	case 0: // Eval of a snippet: definitions, then top-level code
		j.Entry, j.Class = "eval", "term-eval"
		j.Src = imports + c03TermLib + globals + strings.Join(acts, "\n") + "\n"
		if r.chance(40) {
			j.Src += pick(r, []string{"sortMany()", "sort2(), nap()", "boundLess(1, 2)", "down(10)"}) + "\n" // values for the host
		}
		j.Files = map[string]string{}
	case 1: // Eval of a package main source
		j.Entry, j.Class = "eval", "term-eval-package"
		j.Src = "package main\n" + imports + c03TermLib + "var cmpObj = &Cmp{k: 1}\nvar boundLess = cmpObj.less\nvar lambdaLess = func(a int, b int) bool { return b < a }\nfunc init() {\n" + strings.Join(acts, "\n") + "\n}\nfunc main() {\n" + strings.Join(acts, "\n") + "\n}\n"
		j.Files = map[string]string{}
	case 2: // Load: top-level code and init
		j.Entry, j.Class, j.Arg = "load", "term-load", "main"
		j.Files = map[string]string{"main/main.go": "package main\n" + imports + c03TermLib + "var cmpObj = &Cmp{k: 1}\nvar boundLess = cmpObj.less\nvar lambdaLess = func(a int, b int) bool { return b < a }\nfunc init() {\n" + strings.Join(acts, "\n") + "\n}\nfunc main() {\n" + strings.Join(acts, "\n") + "\n}\n" +
			pick(r, []string{"", "var topSorted = sortMany()\n", "var topNap = nap()\n", "var topNested = sortNested()\n"})}
	default: // Load of a single file, the library in an imported script package
		j.Entry, j.Class, j.Arg = "load", "term-load-file", "main/main.go"
		j.Files = map[string]string{
			"main/main.go": "package main\nimport \"tl\"\nfunc main() { tl.Run() }\nfunc sortMany() []int { return tl.SortMany() }\nfunc less(a int, b int) bool { return a < b }\n",
			"tl/tl.go":     "package tl\n" + imports + c03TermLib + "var cmpObj = &Cmp{k: 1}\nvar boundLess = cmpObj.less\nvar lambdaLess = func(a int, b int) bool { return b < a }\nfunc Run() {\n" + strings.Join(acts, "\n") + "\n}\nfunc SortMany() []int { return sortMany() }\nfunc init() { Run() }\n",
		}
	}
	pfx := "main."
	if j.Class == "term-load-file" {
		pfx = "tl." // the library lives in the imported package
	}
	// host calls: Call by name, Func on a function value obtained with Get, on a bound method, on a lambda, on the
	// natives themselves with a script comparator, and on a host native that calls back into the VM
	for k := 1 + r.intn(5); k > 0; k-- {
		switch r.intn(10) {
		case 0, 1, 2, 3:
			j.Calls = append(j.Calls, c03Call{Kind: "call", Name: pfx + pick(r, c03TermFuncs), XRets: 1})
		case 4:
			j.Calls = append(j.Calls, c03Call{Kind: "func", Fn: c03Arg{K: "global", S: pfx + pick(r, c03TermFuncs)}, XRets: 1})
		case 5:
			j.Calls = append(j.Calls, c03Call{Kind: "func", Fn: c03Arg{K: "global", S: pfx + pick(r, []string{"boundLess", "lambdaLess", "less", "lessNested", "lessSleep"})}, XRets: 1,
				Args: []c03Arg{{K: "int", I: r.intn(5)}, {K: "int", I: r.intn(5)}}})
		case 6, 7:
			j.Calls = append(j.Calls, c03Call{Kind: pick(r, []string{"func", "call"}), Name: pick(r, []string{"golang.org/x/exp/slices.SortFunc", "golang.org/x/exp/slices.SortStableFunc"}),
				Fn:   c03Arg{K: "global", S: pick(r, []string{"golang.org/x/exp/slices.SortFunc", "golang.org/x/exp/slices.SortStableFunc"})},
				Args: []c03Arg{{K: "intslice", I: pick(r, []int{0, 1, 2, 3, 17})}, {K: "global", S: pfx + pick(r, []string{"less", "greater", "lessPanic", "lessNested", "lessSleep", "boundLess", "lambdaLess"})}}})
		case 8:
			j.Calls = append(j.Calls, c03Call{Kind: "func", Fn: c03Arg{K: "nativecb", S: pfx + pick(r, []string{"less", "lessNested", "lessSleep"})}, XRets: 1})
		default:
			j.Calls = append(j.Calls, c03Call{Kind: "call", Name: pick(r, []string{"time.Sleep", "main.main", "main.down"}), Args: []c03Arg{{K: "float", F: 1}}})
		}
	}
	return j
}

// c03TermSeedJobs: hand-written jobs of the terminating class that every run starts with (independent of the PRNG):
// each entry point, then every kind of host call that reaches a native calling back into the VM
func c03TermSeedJobs() []c03Job {
	imports := "import \"golang.org/x/exp/slices\"\nimport \"time\"\nimport \"fmt\"\n"
	vars := "var cmpObj = &Cmp{k: 1}\nvar boundLess = cmpObj.less\nvar lambdaLess = func(a int, b int) bool { return b < a }\n"
	sortNative := func(kind, native, cmp string, n int) c03Call {
		return c03Call{Kind: kind, Name: "golang.org/x/exp/slices." + native, Fn: c03Arg{K: "global", S: "golang.org/x/exp/slices." + native},
			Args: []c03Arg{{K: "intslice", I: n}, {K: "global", S: cmp}}}
	}
	calls := func(pfx string) []c03Call {
		return []c03Call{
			{Kind: "call", Name: pfx + "sort0", XRets: 1}, {Kind: "call", Name: pfx + "sort1", XRets: 1}, {Kind: "call", Name: pfx + "sort2", XRets: 1},
			{Kind: "call", Name: pfx + "sortMany", XRets: 1}, {Kind: "call", Name: pfx + "sortStable", XRets: 1}, {Kind: "call", Name: pfx + "sortPanics", XRets: 1},
			{Kind: "call", Name: pfx + "sortNested2", XRets: 1}, {Kind: "call", Name: pfx + "sortSleep", XRets: 1}, {Kind: "call", Name: pfx + "sortMethod", XRets: 1},
			{Kind: "call", Name: pfx + "sortLambda", XRets: 1}, {Kind: "call", Name: pfx + "naps", XRets: 1},
			{Kind: "func", Fn: c03Arg{K: "global", S: pfx + "sortMany"}, XRets: 1},
			{Kind: "func", Fn: c03Arg{K: "global", S: pfx + "boundLess"}, XRets: 1, Args: []c03Arg{{K: "int", I: 1}, {K: "int", I: 2}}},
			{Kind: "func", Fn: c03Arg{K: "global", S: pfx + "lambdaLess"}, XRets: 1, Args: []c03Arg{{K: "int", I: 1}, {K: "int", I: 2}}},
			{Kind: "func", Fn: c03Arg{K: "global", S: pfx + "lessNested"}, XRets: 1, Args: []c03Arg{{K: "int", I: 1}, {K: "int", I: 2}}},
			sortNative("func", "SortFunc", pfx+"less", 17), sortNative("call", "SortStableFunc", pfx+"greater", 2), sortNative("func", "SortFunc", pfx+"less", 1),
			sortNative("func", "SortStableFunc", pfx+"lessPanic", 3), sortNative("call", "SortFunc", pfx+"lessNested", 3), sortNative("func", "SortFunc", pfx+"boundLess", 4),
			{Kind: "func", Fn: c03Arg{K: "nativecb", S: pfx + "less"}, XRets: 1}, {Kind: "func", Fn: c03Arg{K: "nativecb", S: pfx + "lessNested"}, XRets: 1},
			{Kind: "call", Name: "time.Sleep", Args: []c03Arg{{K: "float", F: 1}}},
		}
	}
	pkg := "package main\n" + imports + c03TermLib + vars + "func init() {\nsortNested()\nnap()\n}\nfunc main() {\nsortMany()\nsortStable()\nnaps()\n}\n"
	return []c03Job{
		{Entry: "eval", Class: "term-eval", Fname: "eval", Files: map[string]string{}, MustTerminate: true,
			Src: imports + c03TermLib + "cmpObj := &Cmp{k: 1}\nboundLess := cmpObj.less\nlambdaLess := func(a int, b int) bool { return b < a }\nsortMany()\nsortNested2()\nnaps()\nsort2(), boundLess(2, 1)\n", Calls: calls("main.")},
		{Entry: "eval", Class: "term-eval-package", Fname: "eval", Files: map[string]string{}, MustTerminate: true, Opts: 7, Src: pkg, Calls: append(calls("main."), c03Call{Kind: "call", Name: "main.main"})},
		{Entry: "load", Class: "term-load", Arg: "main", MustTerminate: true, Files: map[string]string{"main/main.go": pkg + "var topSorted = sortMany()\nvar topNap = nap()\n"},
			Calls: append(calls("main."), c03Call{Kind: "call", Name: "main.main"})},
		{Entry: "load", Class: "term-load-file", Arg: "main/main.go", MustTerminate: true, Opts: 3, Files: map[string]string{
			"main/main.go": "package main\nimport \"tl\"\nfunc main() { tl.Run() }\n",
			"tl/tl.go":     "package tl\n" + imports + c03TermLib + vars + "func Run() {\nsortMany()\nsortNested()\nnap()\n}\nfunc init() { Run() }\n"},
			Calls: append(calls("tl."), c03Call{Kind: "call", Name: "main.main"})},
	}
}
