package main

import (
	"bytes"
	"fmt"
	"testing/fstest"

	g "github.com/philhassey/goatlang"
)

// c09BlankParams: every parameter has a place of its own, also when several of them are blank: functions,
// methods (blank receiver), variadic functions and function values with 1..3 blank parameters at every position,
// called directly, through a function value, as a method value and from the host.  Expected values computed here.
func c09BlankParams(st *stats) {
	report := func(what, src, exp, got string) {
		st.mismatchG("c09|blank-params|"+what, map[string]any{"kind": "c09|blank-params", "what": what, "src": src, "expected": exp, "got": got})
	}
	for n := 1; n <= 4; n++ {
		for mask := 0; mask < 1<<n; mask++ {
			// parameters: blank where the mask bit is set; the function returns the weighted sum of the named ones
			var ps, terms, args []string
			want := 0
			for i := 0; i < n; i++ {
				if mask&(1<<i) != 0 {
					ps = append(ps, "_ int")
				} else {
					ps = append(ps, fmt.Sprintf("p%d int", i))
					terms = append(terms, fmt.Sprintf("p%d*%d", i, i+2))
					want += (10 + i) * (i + 2)
				}
				args = append(args, fmt.Sprint(10+i))
			}
			body := "0"
			if len(terms) > 0 {
				body = joinStr(terms, " + ")
			}
			pl, al := joinStr(ps, ", "), joinStr(args, ", ")
			src := fmt.Sprintf("package main\n\nimport \"fmt\"\n\ntype T struct {\n\tv int\n}\n\nfunc f(%s) int {\n\treturn %s\n}\n\nfunc (_ *T) m(%s) int {\n\treturn %s\n}\n\nfunc h(%s, xs ...int) int {\n\treturn %s + len(xs)*1000\n}\n\nfunc main() {\n\tt := &T{v: 1}\n\tfv := f\n\tmv := t.m\n\tfmt.Println(f(%s), t.m(%s), h(%s), h(%s, 7, 8), fv(%s), mv(%s))\n}\n",
				pl, body, pl, body, pl, body, al, al, al, al, al, al)
			exp := fmt.Sprintf("%d %d %d %d %d %d\n", want, want, want, want+2000, want, want)
			var out bytes.Buffer
			vm := g.New(g.WithStdout(&out))
			err := vm.Load(fstest.MapFS{"main/main.go": &fstest.MapFile{Data: []byte(src)}}, "main")
			if err == nil {
				_, err = vm.Call("main.main", 0)
			}
			st.add("blank parameters", fmt.Sprintf("n=%d mask=%d", n, mask))
			got := out.String()
			if err != nil {
				got += "ERROR " + err.Error()
			}
			if got != exp {
				report("script calls", src, exp, got)
				continue
			}
			var hv []g.Value
			for i := 0; i < n; i++ {
				hv = append(hv, g.Int(10+i))
			}
			rets, err := vm.Call("main.f", 1, hv...)
			if err != nil || len(rets) != 1 || rets[0].Int() != want {
				report("host call", src, fmt.Sprint(want), fmt.Sprint(rets, err))
			}
		}
	}
}

func joinStr(xs []string, sep string) string {
	s := ""
	for i, x := range xs {
		if i > 0 {
			s += sep
		}
		s += x
	}
	return s
}
