package main

// c07CorpusProgram: one hand-written valid Go program holding every statement form of the supported
// subset that the random generators do not reach (if / else-if with init statements, function
// literals and calls of call results, method values, interface calls, nested literals, swaps and
// indexed op-assignment, compound assignment operators, range forms, nested switches with break /
// continue / return, panics on not-taken paths, package-level multi-value initialisers, init()).
// It is checked statically by c07-check (optimizer off and on) and run against the Go toolchain by
// c07-script.
const c07CorpusProgram = `package main

import "fmt"

type T struct {
	v int
	f func(int) int
}

func (t *T) add(d int) int {
	t.v += d
	return t.v
}

type U struct {
	t *T
}

type I interface {
	add(d int) int
}

func pair(a int, b int) (int, int) {
	return b, a
}

func one(p int) int {
	return p
}

func getf() func(int) int {
	return one
}

func use(i I) int {
	return i.add(1)
}

func apply(f func(int) int, x int) int {
	return f(x)
}

func mk(n int) func(int) int {
	return func(a int) int {
		return a + 1
	}
}

func eachOf(xs []int, f func(int)) int {
	for _, x := range xs {
		f(x)
	}
	return int(len(xs))
}

func litThenPair() (int, int) {
	h := func(x int) int {
		return one(x)
	}
	_ = h
	return pair(1, 2)
}

func litThenOne() int {
	h := func(x int) (int, int) {
		return pair(x, x)
	}
	_ = h
	e := func() {
		fmt.Println("e")
	}
	e()
	return one(7)
}

func litArgOfReturn() int {
	return eachOf([]int{1, 2}, func(x int) {
		fmt.Println("each", x)
	})
}

func litNested() (int, int) {
	g := func(p int) (int, int) {
		k := func(b int) int {
			return one(b + 1)
		}
		return pair(k(p), p)
	}
	a, b := g(3)
	return pair(a, b)
}

type Celsius float64

func blankSeven(s []int) int {
	_ = len(s)
	_ = append(s, 1)
	return 7
}

func blankEarly(s []int) int {
	for i := 0; i < 60; i++ {
		_ = len(s)
		_ = float64(i)
		_ = Celsius(2.5)
		_ = uint8(i)
		f := 2.5
		_ = int(f)
		if i == 55 {
			return 9
		}
	}
	return 0
}

func blankTwo(s []int, str string, m map[string]int, t *T) (int, int) {
	b := []byte(str)
	_ = string(b)
	_ = []byte(str)
	_ = len(str)
	_ = s[0]
	_ = m["k"]
	_, ok := m["k"]
	_ = ok
	_ = t.add(0)
	_ = t.v
	_ = one(1) + 2
	_ = func(x int) int { return x }
	_, _ = pair(1, 2)
	_, _ = one(1), len(s)
	a, _ := pair(1, 2)
	_, c := pair(3, 4)
	d := make([]int, 2)
	_ = copy(d, s)
	for _ = len(s); a < 0; a++ {
		a++
	}
	if _ = len(s); a > 0 {
		a++
	}
	return a, c
}

func vs(xs ...int) int {
	n := 0
	for _, x := range xs {
		n += x
	}
	return n
}

func two() (int, int) {
	return one(1), one(2)
}

func three() (int, int, int) {
	for i := 0; i < 3; i++ {
		switch i {
		case 1:
			return i, i, i
		}
	}
	return 0, 0, 0
}

func chain(a int) (int, string) {
	if a == 0 {
		return 0, "z"
	} else if a == 1 {
		return 1, "o"
	} else {
		return a, "m"
	}
}

func nested(a int) int {
	for i := 0; i < 5; i++ {
		switch {
		case i == a:
			switch a {
			case 2:
				break
			default:
				return i
			}
			continue
		case i > 3:
			break
		}
		a--
	}
	return -1
}

func words(a int) string {
	switch a {
	case 1:
		return "one"
	case 2, 3:
		if a == 3 {
			break
		}
		return "two"
	default:
	}
	switch {
	default:
		return "d"
	}
}

func quiet(a int) {
	for i := 0; i < 3; i++ {
		for j := 0; j < 3; j++ {
			if i+j == a {
				return
			}
			if j == 1 {
				break
			}
		}
		if i == 1 {
			continue
		}
	}
}

func loud(a int) int {
	if a > 100 {
		panic("big")
	}
	for {
		if a == 0 {
			panic(fmt.Sprint("z", a))
		}
		return a
	}
}

func fib(n int) (int, int) {
	a := 0
	b := 1
	for i := 0; i < n; i++ {
		a, b = b, a+b
	}
	return a, b
}

func rm(n int) (int, int) {
	if n == 0 {
		return 0, 1
	}
	a, b := rm(n - 1)
	for i := 0; i < 2; i++ {
		if i == 1 {
			return a + n, b * 2
		}
	}
	return -1, -1
}

func e0() {
}

func e1(a int) int {
	switch a {
	}
	switch {
	default:
	}
	switch a {
	case 1:
	case 2, 3:
	default:
	}
	for i := 0; i < 2; i++ {
	}
	for range []int{1} {
	}
	if a > 0 {
	} else {
	}
	if a > 0 {
	} else if a < 0 {
	}
	for {
		if a > 0 {
			break
		} else {
			break
		}
	}
	return a
}

var g1 = one(2)
var g2, g3 = pair(g1, 5)
var gs = []int{one(1), 2}
var gm = map[string]int{"a": one(3)}
var gt = &T{v: one(4)}
var ga, gb int

const K = 3

func init() {
	ga = K
}

func testInit() {
	m := map[string]int{"a": 1}
	for i := 0; i < 3; i++ {
		if v, ok := m["a"]; ok && i == 0 {
			fmt.Println(v)
			continue
		}
		if x := one(i); x > 1 {
			fmt.Println("a", x)
		} else if y := one(2); y > x {
			fmt.Println("b", y)
			continue
		} else {
			break
		}
		if a, b := pair(1, 2); a < b {
			break
		}
	}
}

func testFuncs() {
	g := func(a int) int {
		for {
			if a > 0 {
				return a
			}
			a++
		}
	}
	t := &T{v: 1, f: one}
	fs := []func(int) int{one}
	h := t.add
	var vf func(int) int = one
	var i I = &T{v: 1}
	for k := 0; k < 2; k++ {
		g(k)
		getf()(k)
		t.f(2)
		fs[0](3)
		h(1)
		vf(k)
		_ = vf(k)
		_, _ = pair(1, 2)
		i.add(k)
		use(i)
		apply(one, k)
		apply(func(a int) int { return a * 2 }, k)
		mk(k)(k)
		vs()
		vs(1)
		vs(fs[0](1), k)
		fmt.Println(g(k), getf()(k), t.f(2), fs[0](3), h(2), mk(1)(2))
	}
	fmt.Println(use(i), apply(func(a int) int { return a + 1 }, 1), t.v)
}

func testData() {
	a := []int{1, 2, 3}
	u := &U{t: &T{v: 1}}
	x := 1
	for i := 0; i < 2; i++ {
		a[i], a[2] = a[2], a[i]
		a[one(0)] += 1
		a[one(1)]++
		u.t.v = one(i)
		u.t.v += 2
		u.t.add(1)
		x <<= 1
		x |= 1
		x ^= 2
		x &= 255
		x %= 100
		x >>= 1
		ts := []*T{{v: 1}, {v: i}}
		ms := map[string][]int{"a": {1, 2}, "b": {}}
		gg := [][]int{{1}, {2, 3}}
		gg[1][0] = i
		gg[1][1]++
		gg[0] = append(gg[0], 1)
		ms["a"] = append(ms["a"], i)
		p := &T{}
		p.v = i
		type Q struct {
			a int
		}
		q := &Q{a: i}
		q.a++
		fmt.Println(len(ts), ts[1].v, ms["a"], gg, p.v, q.a)
	}
	fmt.Println(a, u.t.v, x)
}

func testLoops() {
	s := "hello"
	n := 0
	for i := range s {
		n += int(i)
	}
	for range []int{1, 2} {
		n++
	}
	for i := range []int{4, 5, 6} {
		if i == 1 {
			continue
		}
		n += int(i)
	}
	m := map[string]int{"a": 1}
	for k := range m {
		fmt.Println(k)
	}
	for k, v := range m {
		fmt.Println(k, v)
		break
	}
	i := 0
	for i < 3 {
		i++
	}
	for i < 5 {
		i++
	}
	for {
		break
	}
	var t *T
	var xs []int
	var mm map[string]int
	for j := 0; j < 2; j++ {
		if t == nil && xs == nil && mm == nil {
			t = &T{}
			continue
		}
		fmt.Println(t != nil)
	}
	y := 5
	b := true
	for j := 0; j < 2; j++ {
		y = -y
		y = ^y
		b = !b
		if !b && -y > 0 || ^y < 0 {
			continue
		}
	}
	const k = 3
	for j := 0; j < k; j++ {
		const w = 2
		n += j * w
	}
	fmt.Println(n, i, y, b)
}

func main() {
	e0()
	fmt.Println(e1(1))
	bs := []int{1, 2, 3}
	b1, b2 := blankTwo(bs, "ab", map[string]int{"k": 1}, &T{v: 2})
	fmt.Println(blankSeven(bs), blankEarly(bs), b1, b2)
	l1, l2 := litThenPair()
	l3, l4 := litNested()
	fmt.Println(l1, l2, litThenOne(), litArgOfReturn(), l3, l4)
	testInit()
	testFuncs()
	testData()
	testLoops()
	a, b := two()
	c, d, e := three()
	fmt.Println(a, b, c, d, e)
	for i := 0; i < 5; i++ {
		x, s := chain(i)
		fmt.Println(x, s, nested(i), words(i))
		quiet(i)
	}
	var x, y = pair(3, 4)
	var z int
	fmt.Println(g1, g2, g3, gs, gm["a"], gt.v, ga, gb, x, y, z, loud(1))
	f1, f2 := fib(10)
	r1, r2 := rm(5)
	fmt.Println(f1, f2, r1, r2)
}
`

// c07ValueCorpus: valid Go programs using a builtin call both as a statement and as a value.
var c07ValueCorpus = []string{
	`package main

import "fmt"

func main() {
	a := []int{1, 2, 3}
	b := make([]int, 2)
	k := 7
	copy(b, a)
	n := copy(b, a)
	fmt.Println(n, b, k)
}
`,
	`package main

import "fmt"

func main() {
	a := []int{1, 2, 3}
	b := make([]int, 2)
	for i := 0; i < 2; i++ {
		if copy(b, a[i:]) > 1 {
			fmt.Println("two", b)
		}
	}
	fmt.Println(b)
}
`,
}
