package main

import (
	"bytes"
	"context"
	"fmt"
	"os"
	"os/exec"
	"path/filepath"
	"regexp"
	"strings"
	"sync"
	"testing/fstest"
	"time"

	g "github.com/philhassey/goatlang"
)

// goRefRun compiles and runs a Go program (package main) with the real Go
// toolchain and returns its stdout; a run-time panic yields the output up to
// the panic and panicked = true.  The oracle for "as Go does".
type goRefRes struct {
	out      string
	panicked bool
	err      error
}

var (
	goRefMu    sync.Mutex
	goRefCache = map[string]goRefRes{}
)

// goRefPrefetch builds and runs the reference programs in parallel (go build dominates the differential's time);
// goRefRun then answers from the cache.
func goRefPrefetch(srcs []string) {
	sem := make(chan struct{}, 12)
	var wg sync.WaitGroup
	for _, s := range srcs {
		s := s
		wg.Add(1)
		sem <- struct{}{}
		go func() {
			defer wg.Done()
			defer func() { <-sem }()
			o, p, e := goRefRunUncached(s)
			goRefMu.Lock()
			goRefCache[s] = goRefRes{o, p, e}
			goRefMu.Unlock()
		}()
	}
	wg.Wait()
}

func goRefRun(src string) (out string, panicked bool, err error) {
	goRefMu.Lock()
	r, ok := goRefCache[src]
	goRefMu.Unlock()
	if ok {
		return r.out, r.panicked, r.err
	}
	return goRefRunUncached(src)
}

func goRefRunUncached(src string) (out string, panicked bool, err error) {
	dir, err := os.MkdirTemp("", "goref")
	if err != nil {
		return "", false, err
	}
	defer os.RemoveAll(dir)
	must(os.WriteFile(filepath.Join(dir, "go.mod"), []byte("module ref\n\ngo 1.20\n"), 0o644))
	must(os.WriteFile(filepath.Join(dir, "main.go"), []byte(src), 0o644))
	ctx, cancel := context.WithTimeout(context.Background(), 120*time.Second)
	defer cancel()
	build := exec.CommandContext(ctx, "go", "build", "-o", "ref", ".")
	build.Dir = dir
	if b, e := build.CombinedOutput(); e != nil {
		return "", false, fmt.Errorf("go build: %v\n%s", e, b)
	}
	run := exec.CommandContext(ctx, filepath.Join(dir, "ref"))
	var so, se bytes.Buffer
	run.Stdout, run.Stderr = &so, &se
	e := run.Run()
	if e != nil {
		if strings.Contains(se.String(), "panic:") || strings.Contains(se.String(), "fatal error") {
			return so.String(), true, nil
		}
		return so.String(), false, fmt.Errorf("run: %v %s", e, se.String())
	}
	return so.String(), false, nil
}

var intWord = regexp.MustCompile(`\bint\b`)

// asInt32 gives the reference program goatlang's meaning of int (int32).
func asInt32(src string) string {
	src = intLitDecl.ReplaceAllString(src, "$1 := int32($2)$3")
	return intWord.ReplaceAllString(src, "int32")
}

// x := 5  declares an int in Go; goatlang's int is int32
var intLitDecl = regexp.MustCompile(`(\b\w+) := (-?\d+)([;\n ])`)

// goatRun loads src as package main into a fresh VM and calls main.main; a run that does not finish
// within 20 s is reported as an error (the goroutine is abandoned).
func goatRun(src string) (string, error) {
	type res struct {
		out string
		err error
	}
	ch := make(chan res, 1)
	go func() {
		o, e := goatRunRaw(src)
		ch <- res{o, e}
	}()
	select {
	case r := <-ch:
		return r.out, r.err
	case <-time.After(20 * time.Second):
		return "", fmt.Errorf("GOATLANG DID NOT TERMINATE within 20s")
	}
}

func goatRunRaw(src string) (out string, err error) {
	var buf capBuf
	vm := g.New(g.WithStdout(&buf))
	defer func() {
		if r := recover(); r != nil {
			out, err = buf.String(), fmt.Errorf("GO PANIC ESCAPED: %v", r)
		}
	}()
	fs := fstest.MapFS{"main/main.go": &fstest.MapFile{Data: []byte(src)}}
	if e := vm.Load(fs, "main"); e != nil {
		return buf.String(), e
	}
	if _, e := vm.Call("main.main", 0); e != nil {
		return buf.String(), e
	}
	return buf.String(), nil
}

func cmdProbe(file string) {
	b, err := os.ReadFile(file)
	must(err)
	o1, p, e1 := goRefRun(string(b))
	o2, e2 := goatRun(string(b))
	fmt.Printf("--- go (panicked=%v err=%v)\n%s--- goat (err=%v)\n%s", p, e1, o1, e2, o2)
}
