package main

import (
	"bytes"
	"fmt"
	"os"
	"strconv"
	"strings"
	"testing/fstest"

	g "github.com/philhassey/goatlang"
)

// ---------------------------------------------------------------------------
// C06: break / continue / return reach the target Go specifies.
//
// Control skeletons (GoSpec/GoCtl.v `stmt`) are enumerated exhaustively up to
// a number of control nodes and sampled beyond; each is rendered as a Go
// function over emit(l) / c(k) / rs(k) / tg(k).
//   c06-corr    real compiler (optimizer off) vs Model/Ctl.v compile_ctl, instruction
//               for instruction; real VM run (optimizer off) vs the abstract machine
//   c06-spec    Go toolchain run vs the GoSpec/GoCtl.v evaluator
//   c06-script  goatlang (default Load path, optimizer on) vs Go toolchain

func init() {
	register("c06-dump", func(a cmdArgs) { cmdC06Dump(a.file, a.thorough) })
	register("c06-corr", func(a cmdArgs) { cmdC06Corr(a.seed, a.n, a.dir, a.thorough) })
	register("c06-spec", func(a cmdArgs) { cmdC06Spec(a.seed, a.n, a.dir, a.thorough) })
	register("c06-script", func(a cmdArgs) { cmdC06Script(a.seed, a.n, a.dir, a.thorough) })
	register("c06-count", func(a cmdArgs) {
		for n := 1; n <= a.n; n++ {
			fmt.Println("control nodes", n, "skeletons", len(skEnum(n)))
		}
	})
}

// cmdC06Dump prints the compiled code of a source file (debugging aid).
func cmdC06Dump(file string, opt bool) {
	b, err := os.ReadFile(file)
	must(err)
	vm := g.New()
	ins, slots, err := g.VerifCompile(vm, string(b), opt)
	if err != nil {
		fmt.Println("ERR", err)
		return
	}
	fmt.Println("slots", slots)
	for n, i := range ins {
		fmt.Printf("%3d %-12s %d %d %d   %s\n", n, i.Code, i.A, i.B, i.C, i.Text)
	}
}

// ---- skeletons --------------------------------------------------------------

type skCase struct {
	gs   []int // guards: condition numbers (tagless) or literals (tagged)
	body []*sk
}

type sk struct {
	kind string // emit if for range switch break continue return
	l    int    // emit label; if: condition number; range: rs argument
	// if
	init     int // emit label of the init statement, -1 none (also for)
	thn, els []*sk
	elseIf   bool // render `else if` when els is a single if
	emptyEls bool // render `else {}` when els is empty
	// for
	cond, post int // -1 none
	semis      bool // render the three-clause header even when init and post are absent
	body       []*sk
	// switch
	tag    int // -1 tagless, else the tg argument
	cases  []skCase
	hasDef bool
	dpos   int
	dflt   []*sk
}

func leaf(kind string) *sk { return &sk{kind: kind, init: -1, cond: -1, post: -1, tag: -1} }

// shape alphabet of the exhaustive enumeration: the child blocks of a node
type shape struct {
	name  string
	slots int
	mk    func(ch [][]*sk) *sk
}

var skShapes = func() []shape {
	var s []shape
	for _, k := range []string{"break", "continue", "return"} {
		k := k
		s = append(s, shape{k, 0, func([][]*sk) *sk { return leaf(k) }})
	}
	s = append(s, shape{"if", 1, func(ch [][]*sk) *sk { x := leaf("if"); x.thn = ch[0]; return x }})
	s = append(s, shape{"ifelse", 2, func(ch [][]*sk) *sk { x := leaf("if"); x.thn, x.els = ch[0], ch[1]; x.emptyEls = true; return x }})
	s = append(s, shape{"forever", 1, func(ch [][]*sk) *sk { x := leaf("for"); x.body = ch[0]; return x }})
	s = append(s, shape{"forcond", 1, func(ch [][]*sk) *sk { x := leaf("for"); x.cond = 0; x.body = ch[0]; return x }})
	s = append(s, shape{"range", 1, func(ch [][]*sk) *sk { x := leaf("range"); x.body = ch[0]; return x }})
	for nc := 0; nc <= 2; nc++ {
		for d := -1; d <= nc; d++ {
			nc, d := nc, d
			slots := nc
			if d >= 0 {
				slots++
			}
			s = append(s, shape{fmt.Sprintf("switch%d/def%d", nc, d), slots, func(ch [][]*sk) *sk {
				x := leaf("switch")
				for i := 0; i < nc; i++ {
					x.cases = append(x.cases, skCase{gs: []int{0}, body: ch[i]})
				}
				if d >= 0 {
					x.hasDef, x.dpos, x.dflt = true, d, ch[nc]
				}
				return x
			}})
		}
	}
	return s
}()

var skEnumMemo = map[int][][]*sk{}

// compositions of n into k non-negative parts
func compositions(n, k int) [][]int {
	if k == 0 {
		if n == 0 {
			return [][]int{{}}
		}
		return nil
	}
	var res [][]int
	for a := 0; a <= n; a++ {
		for _, r := range compositions(n-a, k-1) {
			res = append(res, append([]int{a}, r...))
		}
	}
	return res
}

// skStmts lists all statements with exactly n control nodes (sharing sub-blocks; cloned on use).
func skStmts(n int) []*sk {
	var res []*sk
	for _, sh := range skShapes {
		if sh.slots == 0 {
			if n == 1 {
				res = append(res, sh.mk(nil))
			}
			continue
		}
		for _, comp := range compositions(n-1, sh.slots) {
			// cartesian product of the child blocks
			choices := [][][]*sk{}
			ok := true
			for _, m := range comp {
				bl := skEnum(m)
				if len(bl) == 0 {
					ok = false
				}
				choices = append(choices, bl)
			}
			if !ok {
				continue
			}
			idx := make([]int, len(comp))
			for {
				ch := make([][]*sk, len(comp))
				for i := range comp {
					ch[i] = choices[i][idx[i]]
				}
				res = append(res, sh.mk(ch))
				k := len(idx) - 1
				for k >= 0 {
					idx[k]++
					if idx[k] < len(choices[k]) {
						break
					}
					idx[k] = 0
					k--
				}
				if k < 0 {
					break
				}
			}
		}
	}
	return res
}

// skEnum lists all blocks with exactly n control nodes (n = 0: the empty block).
func skEnum(n int) [][]*sk {
	if r, ok := skEnumMemo[n]; ok {
		return r
	}
	var res [][]*sk
	if n == 0 {
		res = [][]*sk{{}}
	} else {
		for first := 1; first <= n; first++ {
			for _, s := range skStmts(first) {
				for _, rest := range skEnum(n - first) {
					res = append(res, append([]*sk{s}, rest...))
				}
			}
		}
	}
	skEnumMemo[n] = res
	return res
}

func skWf(b []*sk, inLoop, inSwitch bool) bool {
	for _, s := range b {
		switch s.kind {
		case "break":
			if !inLoop && !inSwitch {
				return false
			}
		case "continue":
			if !inLoop {
				return false
			}
		case "if":
			if !skWf(s.thn, inLoop, inSwitch) || !skWf(s.els, inLoop, inSwitch) {
				return false
			}
		case "for", "range":
			if !skWf(s.body, true, false) {
				return false
			}
		case "switch":
			for _, c := range s.cases {
				if !skWf(c.body, inLoop, true) {
					return false
				}
			}
			if !skWf(s.dflt, inLoop, true) {
				return false
			}
		}
	}
	return true
}

// skFinish deep-copies a shape, decorates it with emits (mode 0: none, 1: before every statement and
// at the end of every block), picks the secondary attributes and numbers labels, conditions and guards.
type finisher struct {
	r     *rng
	mode  int
	label int
	kinds map[string]int
}

func (f *finisher) next() int { f.label++; return f.label }

func (f *finisher) emit() *sk { e := leaf("emit"); e.l = f.next(); return e }

func (f *finisher) block(b []*sk, top bool) []*sk {
	var out []*sk
	for _, s := range b {
		if f.mode == 1 || (f.mode == 2 && f.r.chance(40)) {
			out = append(out, f.emit())
		}
		out = append(out, f.stmt(s))
	}
	if f.mode == 1 || (f.mode == 2 && f.r.chance(40)) {
		out = append(out, f.emit())
	}
	return out
}

func (f *finisher) stmt(s *sk) *sk {
	x := *s
	f.kinds[s.kind]++
	switch s.kind {
	case "emit":
		x.l = f.next()
	case "if":
		if f.r.chance(25) {
			x.init = f.next()
			f.kinds["if-init"]++
		}
		x.l = f.next()
		x.thn = f.block(s.thn, false)
		x.els = f.block(s.els, false)
		x.elseIf = f.r.chance(70)
		x.emptyEls = s.emptyEls && f.r.chance(50)
		if len(x.els) == 1 && x.els[0].kind == "if" {
			if x.elseIf {
				f.kinds["else-if"]++
			} else {
				f.kinds["else{if}"]++
			}
		} else if len(x.els) > 0 {
			f.kinds["else"]++
		}
	case "for":
		form := f.r.intn(5) // 0: short header, 1: ;;, 2: init, 3: post, 4: init and post
		x.semis = form > 0
		if form == 2 || form == 4 {
			x.init = f.next()
		}
		if s.cond >= 0 {
			x.cond = f.next()
		}
		if form == 3 || form == 4 {
			x.post = f.next()
		}
		f.kinds[fmt.Sprintf("for init=%v cond=%v post=%v semis=%v", x.init >= 0, x.cond >= 0, x.post >= 0, x.semis)]++
		x.body = f.block(s.body, false)
	case "range":
		x.l = f.next()
		x.body = f.block(s.body, false)
	case "switch":
		tagged := f.r.chance(40)
		if tagged {
			x.tag = f.next()
			f.kinds["switch-tagged"]++
		} else {
			f.kinds["switch-tagless"]++
		}
		lit := 0
		x.cases = nil
		for _, c := range s.cases {
			ng := 1
			if f.r.chance(35) {
				ng = 2 + f.r.intn(2)
				f.kinds["case-multi"]++
			}
			var gs []int
			for i := 0; i < ng; i++ {
				if tagged {
					gs = append(gs, lit)
					lit++
				} else {
					gs = append(gs, f.next())
				}
			}
			x.cases = append(x.cases, skCase{gs: gs, body: f.block(c.body, false)})
		}
		if s.hasDef {
			x.dflt = f.block(s.dflt, false)
			f.kinds[fmt.Sprintf("default pos=%d/%d", s.dpos, len(s.cases))]++
		}
	}
	return &x
}

// ---- rendering --------------------------------------------------------------

func (s *sk) src(sb *strings.Builder, ind int) {
	t := strings.Repeat("\t", ind)
	blk := func(b []*sk) {
		for _, x := range b {
			x.src(sb, ind+1)
		}
	}
	switch s.kind {
	case "emit":
		fmt.Fprintf(sb, "%semit(%d)\n", t, s.l)
	case "break", "continue", "return":
		fmt.Fprintf(sb, "%s%s\n", t, s.kind)
	case "if":
		sb.WriteString(t)
		cur := s
		for {
			if cur.init >= 0 {
				fmt.Fprintf(sb, "if emit(%d); c(%d) {\n", cur.init, cur.l)
			} else {
				fmt.Fprintf(sb, "if c(%d) {\n", cur.l)
			}
			for _, x := range cur.thn {
				x.src(sb, ind+1)
			}
			if len(cur.els) == 1 && cur.els[0].kind == "if" && cur.elseIf {
				fmt.Fprintf(sb, "%s} else ", t)
				cur = cur.els[0]
				continue
			}
			if len(cur.els) > 0 || cur.emptyEls {
				fmt.Fprintf(sb, "%s} else {\n", t)
				for _, x := range cur.els {
					x.src(sb, ind+1)
				}
			}
			fmt.Fprintf(sb, "%s}\n", t)
			break
		}
	case "for":
		e := func(l int) string {
			if l < 0 {
				return ""
			}
			return fmt.Sprintf("emit(%d)", l)
		}
		c := ""
		if s.cond >= 0 {
			c = fmt.Sprintf("c(%d)", s.cond)
		}
		switch {
		case s.semis || s.init >= 0 || s.post >= 0:
			fmt.Fprintf(sb, "%sfor %s; %s; %s {\n", t, e(s.init), c, e(s.post))
		case s.cond >= 0:
			fmt.Fprintf(sb, "%sfor %s {\n", t, c)
		default:
			fmt.Fprintf(sb, "%sfor {\n", t)
		}
		blk(s.body)
		fmt.Fprintf(sb, "%s}\n", t)
	case "range":
		fmt.Fprintf(sb, "%sfor range rs(%d) {\n", t, s.l)
		blk(s.body)
		fmt.Fprintf(sb, "%s}\n", t)
	case "switch":
		if s.tag >= 0 {
			fmt.Fprintf(sb, "%sswitch tg(%d) {\n", t, s.tag)
		} else {
			fmt.Fprintf(sb, "%sswitch {\n", t)
		}
		def := func() {
			fmt.Fprintf(sb, "%sdefault:\n", t)
			blk(s.dflt)
		}
		for i, c := range s.cases {
			if s.hasDef && s.dpos == i {
				def()
			}
			var gs []string
			for _, g := range c.gs {
				if s.tag >= 0 {
					gs = append(gs, strconv.Itoa(g))
				} else {
					gs = append(gs, fmt.Sprintf("c(%d)", g))
				}
			}
			fmt.Fprintf(sb, "%scase %s:\n", t, strings.Join(gs, ", "))
			blk(c.body)
		}
		if s.hasDef && s.dpos >= len(s.cases) {
			def()
		}
		fmt.Fprintf(sb, "%s}\n", t)
	}
}

func coqOptZ(v int) string {
	if v < 0 {
		return "None"
	}
	return fmt.Sprintf("(Some %d)", v)
}

func coqBlock(b []*sk) string {
	var p []string
	for _, s := range b {
		p = append(p, s.coq())
	}
	return "(blk [" + strings.Join(p, "; ") + "])"
}

func (s *sk) coq() string {
	switch s.kind {
	case "emit":
		return fmt.Sprintf("Emit %d", s.l)
	case "break":
		return "Break"
	case "continue":
		return "Continue"
	case "return":
		return "Return"
	case "if":
		return fmt.Sprintf("If %s %d %s %s", coqOptZ(s.init), s.l, coqBlock(s.thn), coqBlock(s.els))
	case "for":
		return fmt.Sprintf("For %s %s %s %s", coqOptZ(s.init), coqOptZ(s.cond), coqOptZ(s.post), coqBlock(s.body))
	case "range":
		return fmt.Sprintf("Range %d %s", s.l, coqBlock(s.body))
	case "switch":
		var cs []string
		for _, c := range s.cases {
			var gs []string
			for _, g := range c.gs[1:] {
				gs = append(gs, strconv.Itoa(g))
			}
			cs = append(cs, fmt.Sprintf("(%d, [%s], %s)", c.gs[0], strings.Join(gs, "; "), coqBlock(c.body)))
		}
		return fmt.Sprintf("Switch %s (css [%s]) %d %s", coqOptZ(s.tag), strings.Join(cs, "; "), s.dpos, coqBlock(s.dflt))
	}
	panic("kind " + s.kind)
}

// ---- reference evaluator (only used to discard non-terminating skeleton/seed pairs and to
// predict nothing else: the Go toolchain is the reference) -------------------

type skRun struct {
	n, sd int
	fuel  int
	out   []string
}

func patCond(n, k, sd int) bool { return ((n*n+k)*sd)%7 < 4 }
func patLen(n, k, sd int) int   { return (n + k + sd) % 3 }
func patTag(n, k, sd int) int   { return (n + k + sd) % 4 }

const (
	oNormal = iota
	oBrk
	oCont
	oRet
	oFuel
)

func (r *skRun) ev(s string) bool {
	r.fuel--
	r.out = append(r.out, s)
	return r.fuel > 0
}
func (r *skRun) emit(l int) bool { return r.ev(strconv.Itoa(l)) }
func (r *skRun) c(k int) (bool, bool) {
	r.n++
	ok := r.ev(fmt.Sprintf("c %d", k))
	return patCond(r.n, k, r.sd), ok
}

func (r *skRun) block(b []*sk) int {
	for _, s := range b {
		if o := r.stmt(s); o != oNormal {
			return o
		}
	}
	return oNormal
}

func (r *skRun) stmt(s *sk) int {
	r.fuel--
	if r.fuel <= 0 {
		return oFuel
	}
	switch s.kind {
	case "emit":
		if !r.emit(s.l) {
			return oFuel
		}
	case "break":
		return oBrk
	case "continue":
		return oCont
	case "return":
		return oRet
	case "if":
		if s.init >= 0 && !r.emit(s.init) {
			return oFuel
		}
		b, ok := r.c(s.l)
		if !ok {
			return oFuel
		}
		if b {
			return r.block(s.thn)
		}
		return r.block(s.els)
	case "for":
		if s.init >= 0 && !r.emit(s.init) {
			return oFuel
		}
		for {
			r.fuel--
			if r.fuel <= 0 {
				return oFuel
			}
			if s.cond >= 0 {
				b, ok := r.c(s.cond)
				if !ok {
					return oFuel
				}
				if !b {
					break
				}
			}
			o := r.block(s.body)
			if o == oBrk {
				break
			}
			if o == oRet || o == oFuel {
				return o
			}
			if s.post >= 0 && !r.emit(s.post) {
				return oFuel
			}
		}
	case "range":
		r.n++
		if !r.ev(fmt.Sprintf("r %d", s.l)) {
			return oFuel
		}
		m := patLen(r.n, s.l, r.sd)
		for i := 0; i < m; i++ {
			o := r.block(s.body)
			if o == oBrk {
				break
			}
			if o == oRet || o == oFuel {
				return o
			}
		}
	case "switch":
		tv := 0
		if s.tag >= 0 {
			r.n++
			if !r.ev(fmt.Sprintf("t %d", s.tag)) {
				return oFuel
			}
			tv = patTag(r.n, s.tag, r.sd)
		}
		o := -1
	cases:
		for _, c := range s.cases {
			for _, gd := range c.gs {
				m := false
				if s.tag >= 0 {
					m = tv == gd
				} else {
					b, ok := r.c(gd)
					if !ok {
						return oFuel
					}
					m = b
				}
				if m {
					o = r.block(c.body)
					break cases
				}
			}
		}
		if o < 0 {
			o = r.block(s.dflt)
		}
		if o == oBrk {
			o = oNormal
		}
		return o
	}
	return oNormal
}

// skSeed finds a pattern seed under which the function body terminates within the event budget.
func skSeed(r *rng, body []*sk, budget int) (int, bool) {
	for try := 0; try < 6; try++ {
		sd := 1 + r.intn(6)
		run := &skRun{sd: sd, fuel: budget}
		if o := run.block(body); o != oFuel {
			return sd, true
		}
	}
	return 0, false
}

// ---- programs ---------------------------------------------------------------

const c06Header = `package main

import "fmt"

var n int
var sd int

func emit(l int) { fmt.Println(l) }
func c(k int) bool {
	n++
	fmt.Println("c", k)
	return ((n*n+k)*sd)%7 < 4
}
func rs(k int) []int {
	n++
	fmt.Println("r", k)
	return make([]int, (n+k+sd)%3)
}
func tg(k int) int {
	n++
	fmt.Println("t", k)
	return (n + k + sd) % 4
}
`

type skFunc struct {
	body []*sk
	sd   int
	desc string
}

func c06Program(fs []skFunc) string {
	var sb strings.Builder
	sb.WriteString(c06Header)
	for i, f := range fs {
		fmt.Fprintf(&sb, "func t%d() {\n", i)
		for _, s := range f.body {
			s.src(&sb, 1)
		}
		sb.WriteString("}\n")
	}
	sb.WriteString("func main() {\n")
	for i, f := range fs {
		fmt.Fprintf(&sb, "\tsd = %d\n\tn = 0\n\tfmt.Println(\"T\", %d)\n\tt%d()\n", f.sd, i, i)
	}
	sb.WriteString("}\n")
	return sb.String()
}

// splitTraces cuts the output at the "T i" markers: one slice of lines per function that started.
func splitTraces(out string) [][]string {
	var res [][]string
	for _, l := range strings.Split(strings.TrimRight(out, "\n"), "\n") {
		if strings.HasPrefix(l, "T ") {
			res = append(res, []string{})
			continue
		}
		if len(res) > 0 {
			res[len(res)-1] = append(res[len(res)-1], l)
		}
	}
	return res
}

func coqTrace(lines []string) (string, bool) {
	var p []string
	for _, l := range lines {
		var k int
		switch {
		case strings.HasPrefix(l, "c "):
			k, _ = strconv.Atoi(l[2:])
			p = append(p, fmt.Sprintf("EvCond %d", k))
		case strings.HasPrefix(l, "r "):
			k, _ = strconv.Atoi(l[2:])
			p = append(p, fmt.Sprintf("EvRange %d", k))
		case strings.HasPrefix(l, "t "):
			k, _ = strconv.Atoi(l[2:])
			p = append(p, fmt.Sprintf("EvTag %d", k))
		default:
			k, err := strconv.Atoi(l)
			if err != nil {
				return "", false
			}
			p = append(p, fmt.Sprintf("EvEmit %d", k))
		}
	}
	return "[" + strings.Join(p, "; ") + "]", true
}

// skSample draws a random block: depth-bounded, every construct, placeholders wherever legal.
func skSample(r *rng, depth int, inLoop, inSwitch bool, maxLen int) []*sk {
	n := r.intn(maxLen + 1)
	var b []*sk
	for i := 0; i < n; i++ {
		var kinds []string
		kinds = append(kinds, "emit", "return")
		if inLoop || inSwitch {
			kinds = append(kinds, "break", "break")
		}
		if inLoop {
			kinds = append(kinds, "continue", "continue")
		}
		if depth > 0 {
			kinds = append(kinds, "if", "if", "ifelse", "ifelse", "forever", "forcond", "forcond", "range", "range", "switch", "switch", "switch")
		}
		switch k := pick(r, kinds); k {
		case "emit", "return", "break", "continue":
			b = append(b, leaf(k))
		case "if", "ifelse":
			x := leaf("if")
			x.thn = skSample(r, depth-1, inLoop, inSwitch, maxLen)
			if k == "ifelse" {
				if r.chance(40) { // else-if chain
					y := leaf("if")
					y.thn = skSample(r, depth-1, inLoop, inSwitch, maxLen)
					if r.chance(60) {
						y.els = skSample(r, depth-1, inLoop, inSwitch, maxLen)
					}
					x.els = []*sk{y}
				} else {
					x.els = skSample(r, depth-1, inLoop, inSwitch, maxLen)
					x.emptyEls = true
				}
			}
			b = append(b, x)
		case "forever", "forcond":
			x := leaf("for")
			if k == "forcond" {
				x.cond = 0
			}
			x.body = skSample(r, depth-1, true, false, maxLen)
			b = append(b, x)
		case "range":
			x := leaf("range")
			x.body = skSample(r, depth-1, true, false, maxLen)
			b = append(b, x)
		case "switch":
			x := leaf("switch")
			nc := r.intn(4)
			for j := 0; j < nc; j++ {
				x.cases = append(x.cases, skCase{gs: []int{0}, body: skSample(r, depth-1, inLoop, true, maxLen)})
			}
			if r.chance(70) {
				x.hasDef, x.dpos, x.dflt = true, r.intn(nc+1), skSample(r, depth-1, inLoop, true, maxLen)
			}
			b = append(b, x)
		}
	}
	return b
}

// c06Funcs builds the list of test functions: every well-formed skeleton with at most `exh`
// control nodes (bare and decorated with emits), then `sampled` random ones.
func c06Funcs(r *rng, exh, sampled int, bare bool, st *stats, kinds map[string]int) []skFunc {
	var fs []skFunc
	for n := 0; n <= exh; n++ {
		cnt := 0
		for _, b := range skEnum(n) {
			if !skWf(b, false, false) {
				continue
			}
			cnt++
			modes := []int{1}
			if bare {
				modes = []int{0, 1}
			}
			for _, mode := range modes {
				f := &finisher{r: r, mode: mode, kinds: kinds}
				fs = append(fs, skFunc{body: f.block(b, true), desc: fmt.Sprintf("exhaustive nodes=%d", n)})
			}
		}
		st.Histogram[fmt.Sprintf("exhaustive skeletons with %d control nodes", n)] = cnt
	}
	for i := 0; i < sampled; i++ {
		depth := 2 + i%4
		b := skSample(r, depth, false, false, 2+i%3)
		f := &finisher{r: r, mode: 2, kinds: kinds}
		fs = append(fs, skFunc{body: f.block(b, true), desc: fmt.Sprintf("sampled depth=%d", depth)})
	}
	return fs
}

const c06CaseHeader = "From Coq Require Import ZArith List Bool.\nFrom GV Require Import GoSpec.GoCtl Model.Ctl Model.CorrC06.\nImport ListNotations.\nOpen Scope Z_scope.\n"

// realCode maps the instructions of a function body to the abstract instruction set.
func realCode(ins []g.VerifIns) string {
	var p []string
	fn := map[string]string{"main.emit": "FEmit", "main.c": "FCond", "main.rs": "FLen", "main.tg": "FTag"}
	for _, i := range ins {
		s := ""
		switch i.Code {
		case "PUSH":
			s = fmt.Sprintf("CPush %s", coqZ(int64(i.A)))
		case "GLOBALGET":
			if f, ok := fn[strings.TrimPrefix(i.Text, "GLOBALGET ")]; ok {
				s = "CGet " + f
			}
		case "CALL":
			s = fmt.Sprintf("CCall %s %s", coqZ(int64(i.A)), coqZ(int64(i.B)))
		case "LOCALSET":
			s = fmt.Sprintf("CLocalSet %d", i.A)
		case "LOCALGET":
			s = fmt.Sprintf("CLocalGet %d", i.A)
		case "EQ":
			s = "CEq"
		case "JUMP":
			s = fmt.Sprintf("CJump %s", coqZ(int64(i.A)))
		case "JUMPFALSE":
			s = fmt.Sprintf("CJumpFalse %s", coqZ(int64(i.A)))
		case "JUMPTRUE":
			s = fmt.Sprintf("CJumpTrue %s", coqZ(int64(i.A)))
		case "OR":
			s = fmt.Sprintf("COr %s", coqZ(int64(i.A)))
		case "RANGE":
			s = fmt.Sprintf("CRange %d %s", i.A, coqZ(int64(i.B)))
		case "ITER":
			k, v := ((i.B>>16)&0xffff)-32768, (i.B&0xffff)-32768
			s = fmt.Sprintf("CIter %d %d %d %s", i.A, k, v, coqZ(int64(i.C)))
		case "RETURN":
			s = fmt.Sprintf("CReturn %s", coqZ(int64(i.A)))
		case "BREAK":
			s = "CBreak"
		case "CONTINUE":
			s = "CContinue"
		}
		if s == "" {
			p = append(p, fmt.Sprintf("RX %s", coqZ(int64(i.CodeN))))
		} else {
			p = append(p, "RI ("+s+")")
		}
	}
	return "[" + strings.Join(p, "; ") + "]"
}

// funcBodies locates `func tN()` bodies: FUNC (A, slots, C = body length), nargs+nrets TYPE
// instructions, the body, GLOBALFUNC main.tN.
func funcBodies(ins []g.VerifIns) map[string][]g.VerifIns {
	res := map[string][]g.VerifIns{}
	for p := 0; p < len(ins); p++ {
		if ins[p].Code != "FUNC" {
			continue
		}
		q := p + 1
		for q < len(ins) && ins[q].Code == "TYPE" {
			q++
		}
		end := q + ins[p].C
		if end < len(ins) && ins[end].Code == "GLOBALFUNC" {
			res[strings.TrimPrefix(ins[end].Text, "GLOBALFUNC ")] = ins[q:end]
			p = end
		}
	}
	return res
}

func c06Chunks(fs []skFunc, per int) [][]skFunc {
	var res [][]skFunc
	for i := 0; i < len(fs); i += per {
		res = append(res, fs[i:minInt(i+per, len(fs))])
	}
	return res
}

// limitBuf stops a run-away program: writing beyond the limit panics inside the VM.
type limitBuf struct {
	bytes.Buffer
	limit int
}

func (b *limitBuf) Write(p []byte) (int, error) {
	if b.Len() > b.limit {
		panic("output limit exceeded")
	}
	return b.Buffer.Write(p)
}

// multiCallGuards: some tagless case clause lists several conditions (classification of mismatches only).
func multiCallGuards(b []*sk) bool {
	for _, s := range b {
		if s.kind == "switch" && s.tag < 0 {
			for _, c := range s.cases {
				if len(c.gs) > 1 {
					return true
				}
			}
		}
		if multiCallGuards(s.thn) || multiCallGuards(s.els) || multiCallGuards(s.body) || multiCallGuards(s.dflt) {
			return true
		}
		for _, c := range s.cases {
			if multiCallGuards(c.body) {
				return true
			}
		}
	}
	return false
}

// skKey identifies a case by its skeleton (for the distinct count and the samples).
func skKey(what string, f skFunc) string {
	return what + " " + f.desc + ": " + strings.TrimSuffix(strings.TrimPrefix(coqBlock(f.body), "(blk "), ")")
}

func singleProgram(f skFunc) string { return c06Program([]skFunc{f}) }

// cmdC06Corr: real compiler output (optimizer off) vs compile_ctl; real VM (optimizer off) vs machine.
func cmdC06Corr(seed uint64, n int, dir string, thorough bool) {
	r := newRng(seed)
	st := newStats()
	kinds := map[string]int{}
	exh := 2
	if thorough {
		exh = 3
	}
	fs := c06Funcs(r, exh, n, true, st, kinds)
	var cases []string
	for _, chunk := range c06Chunks(fs, 200) {
		for i := range chunk {
			sd, ok := skSeed(r, chunk[i].body, 300)
			chunk[i].sd = sd
			if !ok {
				chunk[i].sd = -1
			}
		}
		// code correspondence: all functions
		src := c06Program(chunk)
		vm := g.New()
		ins, _, err := g.VerifCompile(vm, src, false)
		if err != nil {
			st.mismatchG("compile-error", progMismatch{Kind: "compile-error", Src: src, Err: err.Error()})
			continue
		}
		bodies := funcBodies(ins)
		for i, f := range chunk {
			body, ok := bodies[fmt.Sprintf("main.t%d", i)]
			if !ok {
				st.mismatchG("body-not-found", progMismatch{Kind: "body-not-found", Src: singleProgram(f)})
				continue
			}
			cases = append(cases, fmt.Sprintf("KCode %s %s", coqBlock(f.body), realCode(body)))
			st.add("code: "+f.desc, skKey("code", f))
		}
		// run correspondence: the terminating ones, optimizer off
		var runs []skFunc
		for _, f := range chunk {
			if f.sd > 0 {
				runs = append(runs, f)
			} else {
				st.Histogram["run: skipped (no terminating seed)"]++
			}
		}
		if len(runs) == 0 {
			continue
		}
		out := &limitBuf{limit: 1 << 20}
		vm2 := g.New(g.WithStdout(out))
		mfs := fstest.MapFS{"main/main.go": &fstest.MapFile{Data: []byte(c06Program(runs))}}
		func() {
			defer func() {
				if rec := recover(); rec != nil {
					err = fmt.Errorf("GO PANIC ESCAPED: %v", rec)
				}
			}()
			_, _, _, err = g.VerifLoadTrace(vm2, mfs, "main", false)
			if err == nil {
				_, err = vm2.Call("main.main", 0)
			}
		}()
		traces := splitTraces(out.String())
		for i, f := range runs {
			if i >= len(traces) || (err != nil && i == len(traces)-1) {
				st.mismatchG("run-error", progMismatch{Kind: "run-error (optimizer off)", Src: singleProgram(f), Err: fmt.Sprint(err)})
				break
			}
			tr, ok := coqTrace(traces[i])
			if !ok {
				st.mismatchG("run-output", progMismatch{Kind: "unparsable output", Src: singleProgram(f)})
				continue
			}
			cases = append(cases, fmt.Sprintf("KRun %s %d %s", coqBlock(f.body), f.sd, tr))
			st.add("run: "+f.desc, skKey(fmt.Sprintf("run sd=%d", f.sd), f))
		}
	}
	for k, v := range kinds {
		st.Histogram["construct:"+k] = v
	}
	files := writeCases(dir, "cases_C06", c06CaseHeader, "xmismatches", cases, 400)
	st.Extra["files"] = files
	st.write(dir + "/C06_corr_stats.json")
}

// cmdC06Spec: the Go toolchain's trace vs the GoSpec/GoCtl.v evaluator under the same oracle.
func cmdC06Spec(seed uint64, n int, dir string, thorough bool) {
	r := newRng(seed + 77)
	st := newStats()
	kinds := map[string]int{}
	exh := 1
	if thorough {
		exh = 2
	}
	var fs []skFunc
	for _, f := range c06Funcs(r, exh, n, false, st, kinds) {
		if sd, ok := skSeed(r, f.body, 300); ok {
			f.sd = sd
			fs = append(fs, f)
		}
	}
	var cases []string
	for _, chunk := range c06Chunks(fs, 400) {
		out, panicked, err := goRefRun(asInt32(c06Program(chunk)))
		if err != nil || panicked {
			st.Histogram["invalid_go_program"]++
			st.Extra["invalid_go"] = fmt.Sprint(err)
			continue
		}
		traces := splitTraces(out)
		for i, f := range chunk {
			if i >= len(traces) {
				break
			}
			tr, ok := coqTrace(traces[i])
			if !ok {
				continue
			}
			cases = append(cases, fmt.Sprintf("KSem %s %d %s", coqBlock(f.body), f.sd, tr))
			st.add("spec: "+f.desc, skKey(fmt.Sprintf("spec sd=%d", f.sd), f))
		}
	}
	files := writeCases(dir, "cases_C06spec", c06CaseHeader, "xmismatches", cases, 400)
	st.Extra["files"] = files
	st.write(dir + "/C06_spec_stats.json")
}

// cmdC06Script: goatlang (default Load path: optimizer on) vs the Go toolchain, n programs.
func cmdC06Script(seed uint64, n int, dir string, thorough bool) {
	r := newRng(seed + 1)
	st := newStats()
	kinds := map[string]int{}
	exh, per := 2, 120
	if thorough {
		exh = 3
	}
	// the exhaustive part, then n programs of sampled functions
	if thorough {
		per = 400
	}
	fs := c06Funcs(r, exh, n*per, false, st, kinds)
	var live []skFunc
	for _, f := range fs {
		if sd, ok := skSeed(r, f.body, 300); ok {
			f.sd = sd
			live = append(live, f)
		} else {
			st.Histogram["skipped (no terminating seed)"]++
		}
	}
	for _, chunk := range c06Chunks(live, per) {
		src := c06Program(chunk)
		exp, panicked, err := goRefRun(asInt32(src))
		if err != nil || panicked {
			st.Histogram["invalid_go_program"]++
			st.Extra["invalid_go"] = fmt.Sprint(err, panicked)
			continue
		}
		got, gerr := goatRun(src)
		et, gt := splitTraces(exp), splitTraces(got)
		for i, f := range chunk {
			st.add("script: "+f.desc, skKey(fmt.Sprintf("script sd=%d", f.sd), f))
			if i < len(gt) && strings.Join(et[i], "\n") == strings.Join(gt[i], "\n") && !(gerr != nil && i == len(gt)-1) {
				continue
			}
			// re-run alone for a small replayable record
			one := singleProgram(f)
			e1, _, _ := goRefRun(asInt32(one))
			g1, ge1 := goatRun(one)
			es := ""
			if ge1 != nil {
				es = ge1.Error()
			}
			el, gl := strings.Split(e1, "\n"), strings.Split(g1, "\n")
			k := 0
			for k < len(el) && k < len(gl) && el[k] == gl[k] {
				k++
			}
			e, gg := "<end>", "<end>"
			if k < len(el) {
				e = el[k]
			}
			if k < len(gl) {
				gg = gl[k]
			}
			group := "control-flow"
			if multiCallGuards(f.body) {
				group = "control-flow (function has a tagless multi-value case list)"
			}
			st.mismatchG(group, progMismatch{Kind: group, Src: one, Expected: e, Got: gg, Line: k + 1, Err: es})
			if gerr != nil {
				break // the rest of this program did not run
			}
		}
	}
	for k, v := range kinds {
		st.Histogram["construct:"+k] = v
	}
	st.write(dir + "/C06_script_stats.json")
}
