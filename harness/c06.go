package main

import (
	"bytes"
	"fmt"
	"os"
	"strconv"
	"strings"
	"sync"
	"testing/fstest"
	"time"

	g "github.com/philhassey/goatlang"
)

// ---------------------------------------------------------------------------
// C06: break / continue / return reach the target Go specifies.
//
// Control skeletons (GoSpec/GoCtl.v `stmt`) are enumerated exhaustively up to
// a number of control nodes and sampled beyond; each is rendered as a Go
// function over emit(l) / c(k) / rs(k) / tg(k).
//   c06-corr    real compiler (optimizer off) vs Model/Ctl.v compile_ctl, instruction
//               for instruction; real VM run (optimizer off) vs the abstract machine
//   c06-spec    Go toolchain run vs the GoSpec/GoCtl.v evaluator
//   c06-script  goatlang (default Load path, optimizer on) vs Go toolchain

func init() {
	register("c06-dump", func(a cmdArgs) { cmdC06Dump(a.file, a.thorough) })
	register("c06-corr", func(a cmdArgs) { cmdC06Corr(a.seed, a.n, a.dir, a.thorough) })
	register("c06-spec", func(a cmdArgs) { cmdC06Spec(a.seed, a.n, a.dir, a.thorough) })
	register("c06-script", func(a cmdArgs) { cmdC06Script(a.seed, a.n, a.dir, a.thorough) })
	register("c06-count", func(a cmdArgs) {
		for n := 1; n <= a.n; n++ {
			fmt.Println("control nodes", n, "skeletons", len(skEnum(n)))
		}
	})
}

// cmdC06Dump prints the compiled code of a source file (debugging aid).
func cmdC06Dump(file string, opt bool) {
	b, err := os.ReadFile(file)
	must(err)
	vm := g.New()
	ins, slots, err := g.VerifCompile(vm, string(b), opt)
	if err != nil {
		fmt.Println("ERR", err)
		return
	}
	fmt.Println("slots", slots)
	for n, i := range ins {
		fmt.Printf("%3d %-12s %d %d %d   %s\n", n, i.Code, i.A, i.B, i.C, i.Text)
	}
}

// ---- skeletons --------------------------------------------------------------

type skCase struct {
	gs   []int      // guards: condition numbers (tagless) or literals (tagged)
	fs   []condForm // tagless: the surface form of each guard (nil: atomic c(k))
	body []*sk
}

// condForm is the surface form a condition slot c(k) is rendered in (a harness-level refinement: the
// skeleton language of GoSpec/GoCtl.v keeps atomic oracle calls; the expected trace of a compound form
// is computed by the Go rendering of the evaluator with Go's short-circuit order).
//
//	0 c(k)   1 !c(k)   2 !!c(k)   3 c(k) && c(k2)   4 c(k) || c(k2)   5 c(k) && !c(k2)
//	6 c(k) || !c(k2)   7 !(c(k) && c(k2))   8 c(k) == false
type condForm struct{ form, k2 int }

const nCondForms = 9

func (cf condForm) two() bool { return cf.form >= 3 && cf.form <= 7 }

func condSrc(k int, cf condForm) string {
	a, b := fmt.Sprintf("c(%d)", k), fmt.Sprintf("c(%d)", cf.k2)
	switch cf.form {
	case 1:
		return "!" + a
	case 2:
		return "!!" + a
	case 3:
		return a + " && " + b
	case 4:
		return a + " || " + b
	case 5:
		return a + " && !" + b
	case 6:
		return a + " || !" + b
	case 7:
		return "!(" + a + " && " + b + ")"
	case 8:
		return a + " == false"
	}
	return a
}

// tag expression forms of a tagged switch: 0 tg(k)  1 -(-tg(k))  2 tg(k) + 0  3 tg(k) & 15
func tagSrc(k, form int) string {
	a := fmt.Sprintf("tg(%d)", k)
	switch form {
	case 1:
		return "-(-" + a + ")"
	case 2:
		return a + " + 0"
	case 3:
		return a + " & 15"
	}
	return a
}

type sk struct {
	kind string // emit if for range switch break continue return
	l    int    // emit label; if: condition number; range: rs argument
	// if
	init     int // emit label of the init statement, -1 none (also for)
	thn, els []*sk
	elseIf   bool // render `else if` when els is a single if
	emptyEls bool // render `else {}` when els is empty
	// for
	cond, post int  // -1 none
	semis      bool // render the three-clause header even when init and post are absent
	body       []*sk
	// switch
	tag     int // -1 tagless, else the tg argument
	tagForm int
	noTag   bool     // keep this switch tagless when the attributes are drawn
	cf      condForm // surface form of the if / for condition
	cases   []skCase
	hasDef  bool
	dpos    int
	dflt    []*sk
}

func leaf(kind string) *sk { return &sk{kind: kind, init: -1, cond: -1, post: -1, tag: -1} }

// shape alphabet of the exhaustive enumeration: the child blocks of a node
type shape struct {
	name  string
	slots int
	mk    func(ch [][]*sk) *sk
}

var skShapes = func() []shape {
	var s []shape
	for _, k := range []string{"break", "continue", "return"} {
		k := k
		s = append(s, shape{k, 0, func([][]*sk) *sk { return leaf(k) }})
	}
	s = append(s, shape{"if", 1, func(ch [][]*sk) *sk { x := leaf("if"); x.thn = ch[0]; return x }})
	s = append(s, shape{"ifelse", 2, func(ch [][]*sk) *sk { x := leaf("if"); x.thn, x.els = ch[0], ch[1]; x.emptyEls = true; return x }})
	s = append(s, shape{"forever", 1, func(ch [][]*sk) *sk { x := leaf("for"); x.body = ch[0]; return x }})
	s = append(s, shape{"forcond", 1, func(ch [][]*sk) *sk { x := leaf("for"); x.cond = 0; x.body = ch[0]; return x }})
	s = append(s, shape{"range", 1, func(ch [][]*sk) *sk { x := leaf("range"); x.body = ch[0]; return x }})
	for nc := 0; nc <= 2; nc++ {
		for d := -1; d <= nc; d++ {
			nc, d := nc, d
			slots := nc
			if d >= 0 {
				slots++
			}
			s = append(s, shape{fmt.Sprintf("switch%d/def%d", nc, d), slots, func(ch [][]*sk) *sk {
				x := leaf("switch")
				for i := 0; i < nc; i++ {
					x.cases = append(x.cases, skCase{gs: []int{0}, body: ch[i]})
				}
				if d >= 0 {
					x.hasDef, x.dpos, x.dflt = true, d, ch[nc]
				}
				return x
			}})
		}
	}
	return s
}()

var skEnumMemo = map[int][][]*sk{}

// compositions of n into k non-negative parts
func compositions(n, k int) [][]int {
	if k == 0 {
		if n == 0 {
			return [][]int{{}}
		}
		return nil
	}
	var res [][]int
	for a := 0; a <= n; a++ {
		for _, r := range compositions(n-a, k-1) {
			res = append(res, append([]int{a}, r...))
		}
	}
	return res
}

// skStmts lists all statements with exactly n control nodes (sharing sub-blocks; cloned on use).
func skStmts(n int) []*sk {
	var res []*sk
	for _, sh := range skShapes {
		if sh.slots == 0 {
			if n == 1 {
				res = append(res, sh.mk(nil))
			}
			continue
		}
		for _, comp := range compositions(n-1, sh.slots) {
			// cartesian product of the child blocks
			choices := [][][]*sk{}
			ok := true
			for _, m := range comp {
				bl := skEnum(m)
				if len(bl) == 0 {
					ok = false
				}
				choices = append(choices, bl)
			}
			if !ok {
				continue
			}
			idx := make([]int, len(comp))
			for {
				ch := make([][]*sk, len(comp))
				for i := range comp {
					ch[i] = choices[i][idx[i]]
				}
				res = append(res, sh.mk(ch))
				k := len(idx) - 1
				for k >= 0 {
					idx[k]++
					if idx[k] < len(choices[k]) {
						break
					}
					idx[k] = 0
					k--
				}
				if k < 0 {
					break
				}
			}
		}
	}
	return res
}

// skEnum lists all blocks with exactly n control nodes (n = 0: the empty block).
func skEnum(n int) [][]*sk {
	if r, ok := skEnumMemo[n]; ok {
		return r
	}
	var res [][]*sk
	if n == 0 {
		res = [][]*sk{{}}
	} else {
		for first := 1; first <= n; first++ {
			for _, s := range skStmts(first) {
				for _, rest := range skEnum(n - first) {
					res = append(res, append([]*sk{s}, rest...))
				}
			}
		}
	}
	skEnumMemo[n] = res
	return res
}

func skWf(b []*sk, inLoop, inSwitch bool) bool {
	for _, s := range b {
		switch s.kind {
		case "break":
			if !inLoop && !inSwitch {
				return false
			}
		case "continue":
			if !inLoop {
				return false
			}
		case "if":
			if !skWf(s.thn, inLoop, inSwitch) || !skWf(s.els, inLoop, inSwitch) {
				return false
			}
		case "for", "range":
			if !skWf(s.body, true, false) {
				return false
			}
		case "switch":
			for _, c := range s.cases {
				if !skWf(c.body, inLoop, true) {
					return false
				}
			}
			if !skWf(s.dflt, inLoop, true) {
				return false
			}
		}
	}
	return true
}

// skFinish deep-copies a shape, decorates it with emits (mode 0: none, 1: before every statement and
// at the end of every block), picks the secondary attributes and numbers labels, conditions and guards.
type finisher struct {
	r     *rng
	mode  int
	forms bool // draw compound / negated surface forms for the conditions
	label int
	kinds map[string]int
}

// form keeps a preset surface form, else (forms on) draws one; a second condition number is allotted
// after the first.
func (f *finisher) form(pre condForm) condForm {
	cf := condForm{form: pre.form}
	if cf.form == 0 && f.forms && f.r.chance(55) {
		cf.form = 1 + f.r.intn(nCondForms-1)
	}
	if cf.two() {
		cf.k2 = f.next()
	}
	if cf.form != 0 {
		f.kinds["cond-form "+condSrc(0, condForm{cf.form, 1})]++
	}
	return cf
}

func (f *finisher) next() int { f.label++; return f.label }

func (f *finisher) emit() *sk { e := leaf("emit"); e.l = f.next(); return e }

func (f *finisher) block(b []*sk, top bool) []*sk {
	var out []*sk
	for _, s := range b {
		if f.mode == 1 || f.mode == 3 || (f.mode == 2 && f.r.chance(40)) {
			out = append(out, f.emit())
		}
		out = append(out, f.stmt(s))
	}
	if f.mode == 1 || (f.mode == 2 && f.r.chance(40)) {
		out = append(out, f.emit())
	}
	return out
}

func (f *finisher) stmt(s *sk) *sk {
	x := *s
	f.kinds[s.kind]++
	switch s.kind {
	case "emit":
		x.l = f.next()
	case "if":
		if f.r.chance(25) {
			x.init = f.next()
			f.kinds["if-init"]++
		}
		x.l = f.next()
		x.cf = f.form(s.cf)
		x.thn = f.block(s.thn, false)
		x.els = f.block(s.els, false)
		x.elseIf = f.r.chance(70)
		x.emptyEls = s.emptyEls && f.r.chance(50)
		if len(x.els) == 1 && x.els[0].kind == "if" {
			if x.elseIf {
				f.kinds["else-if"]++
			} else {
				f.kinds["else{if}"]++
			}
		} else if len(x.els) > 0 {
			f.kinds["else"]++
		}
	case "for":
		form := f.r.intn(5) // 0: short header, 1: ;;, 2: init, 3: post, 4: init and post
		if s.semis {
			form = 4 // preset: the full three-clause header
		}
		x.semis = form > 0
		if form == 2 || form == 4 {
			x.init = f.next()
		}
		if s.cond >= 0 {
			x.cond = f.next()
			x.cf = f.form(s.cf)
		}
		if form == 3 || form == 4 {
			x.post = f.next()
		}
		f.kinds[fmt.Sprintf("for init=%v cond=%v post=%v semis=%v", x.init >= 0, x.cond >= 0, x.post >= 0, x.semis)]++
		x.body = f.block(s.body, false)
	case "range":
		x.l = f.next()
		x.body = f.block(s.body, false)
	case "switch":
		tagged := !s.noTag && f.r.chance(40)
		if tagged {
			x.tag = f.next()
			if f.forms && f.r.chance(50) {
				x.tagForm = f.r.intn(4)
			}
			f.kinds["switch-tagged"]++
		} else {
			f.kinds["switch-tagless"]++
		}
		lit := 0
		x.cases = nil
		for _, c := range s.cases {
			ng := 1
			if c.fs != nil {
				ng = len(c.fs) // preset guard forms: keep their number
			} else if f.r.chance(35) {
				ng = 2 + f.r.intn(2)
				f.kinds["case-multi"]++
			}
			var gs []int
			var fs []condForm
			for i := 0; i < ng; i++ {
				if tagged {
					gs = append(gs, lit)
					lit++
				} else {
					gs = append(gs, f.next())
					pre := condForm{}
					if c.fs != nil {
						pre = c.fs[i]
					}
					fs = append(fs, f.form(pre))
				}
			}
			x.cases = append(x.cases, skCase{gs: gs, fs: fs, body: f.block(c.body, false)})
		}
		if s.hasDef {
			x.dflt = f.block(s.dflt, false)
			f.kinds[fmt.Sprintf("default pos=%d/%d", s.dpos, len(s.cases))]++
		}
	}
	return &x
}

// ---- rendering --------------------------------------------------------------

func (s *sk) src(sb *strings.Builder, ind int) {
	t := strings.Repeat("\t", ind)
	blk := func(b []*sk) {
		for _, x := range b {
			x.src(sb, ind+1)
		}
	}
	switch s.kind {
	case "emit":
		fmt.Fprintf(sb, "%semit(%d)\n", t, s.l)
	case "break", "continue", "return":
		fmt.Fprintf(sb, "%s%s\n", t, s.kind)
	case "if":
		sb.WriteString(t)
		cur := s
		for {
			if cur.init >= 0 {
				fmt.Fprintf(sb, "if emit(%d); %s {\n", cur.init, condSrc(cur.l, cur.cf))
			} else {
				fmt.Fprintf(sb, "if %s {\n", condSrc(cur.l, cur.cf))
			}
			for _, x := range cur.thn {
				x.src(sb, ind+1)
			}
			if len(cur.els) == 1 && cur.els[0].kind == "if" && cur.elseIf {
				fmt.Fprintf(sb, "%s} else ", t)
				cur = cur.els[0]
				continue
			}
			if len(cur.els) > 0 || cur.emptyEls {
				fmt.Fprintf(sb, "%s} else {\n", t)
				for _, x := range cur.els {
					x.src(sb, ind+1)
				}
			}
			fmt.Fprintf(sb, "%s}\n", t)
			break
		}
	case "for":
		e := func(l int) string {
			if l < 0 {
				return ""
			}
			return fmt.Sprintf("emit(%d)", l)
		}
		c := ""
		if s.cond >= 0 {
			c = condSrc(s.cond, s.cf)
		}
		switch {
		case s.semis || s.init >= 0 || s.post >= 0:
			fmt.Fprintf(sb, "%sfor %s; %s; %s {\n", t, e(s.init), c, e(s.post))
		case s.cond >= 0:
			fmt.Fprintf(sb, "%sfor %s {\n", t, c)
		default:
			fmt.Fprintf(sb, "%sfor {\n", t)
		}
		blk(s.body)
		fmt.Fprintf(sb, "%s}\n", t)
	case "range":
		fmt.Fprintf(sb, "%sfor range rs(%d) {\n", t, s.l)
		blk(s.body)
		fmt.Fprintf(sb, "%s}\n", t)
	case "switch":
		if s.tag >= 0 {
			fmt.Fprintf(sb, "%sswitch %s {\n", t, tagSrc(s.tag, s.tagForm))
		} else {
			fmt.Fprintf(sb, "%sswitch {\n", t)
		}
		def := func() {
			fmt.Fprintf(sb, "%sdefault:\n", t)
			blk(s.dflt)
		}
		for i, c := range s.cases {
			if s.hasDef && s.dpos == i {
				def()
			}
			var gs []string
			for gi, g := range c.gs {
				if s.tag >= 0 {
					gs = append(gs, strconv.Itoa(g))
				} else if c.fs != nil {
					gs = append(gs, condSrc(g, c.fs[gi]))
				} else {
					gs = append(gs, fmt.Sprintf("c(%d)", g))
				}
			}
			fmt.Fprintf(sb, "%scase %s:\n", t, strings.Join(gs, ", "))
			blk(c.body)
		}
		if s.hasDef && s.dpos >= len(s.cases) {
			def()
		}
		fmt.Fprintf(sb, "%s}\n", t)
	}
}

func coqOptZ(v int) string {
	if v < 0 {
		return "None"
	}
	return fmt.Sprintf("(Some %d)", v)
}

func coqBlock(b []*sk) string {
	var p []string
	for _, s := range b {
		p = append(p, s.coq())
	}
	return "(blk [" + strings.Join(p, "; ") + "])"
}

func (s *sk) coq() string {
	switch s.kind {
	case "emit":
		return fmt.Sprintf("Emit %d", s.l)
	case "break":
		return "Break"
	case "continue":
		return "Continue"
	case "return":
		return "Return"
	case "if":
		return fmt.Sprintf("If %s %d %s %s", coqOptZ(s.init), s.l, coqBlock(s.thn), coqBlock(s.els))
	case "for":
		return fmt.Sprintf("For %s %s %s %s", coqOptZ(s.init), coqOptZ(s.cond), coqOptZ(s.post), coqBlock(s.body))
	case "range":
		return fmt.Sprintf("Range %d %s", s.l, coqBlock(s.body))
	case "switch":
		var cs []string
		for _, c := range s.cases {
			var gs []string
			for _, g := range c.gs[1:] {
				gs = append(gs, strconv.Itoa(g))
			}
			cs = append(cs, fmt.Sprintf("(%d, [%s], %s)", c.gs[0], strings.Join(gs, "; "), coqBlock(c.body)))
		}
		return fmt.Sprintf("Switch %s (css [%s]) %d %s", coqOptZ(s.tag), strings.Join(cs, "; "), s.dpos, coqBlock(s.dflt))
	}
	panic("kind " + s.kind)
}

// ---- reference evaluator: a Go transcription of GoSpec/GoCtl.v exec (validated on every run: the Coq
// side recomputes the traces with GoCtl itself, KRun / KRef / KSem cases; GoCtl against the Go toolchain) ----

// orc is an answer vector: the i-th evaluated condition gets bit (i mod cm) of cb, the i-th range
// expression a slice of length (2-bit digit i mod 4 of lv), the i-th switch tag the 4-bit digit i mod 4 of tv.
type orc struct{ cb, cm, lv, tv int }

func (o orc) String() string {
	return fmt.Sprintf("conditions: bits of %d cycling every %d; range lengths: 2-bit digits of %d; tags: 4-bit digits of %d", o.cb, o.cm, o.lv, o.tv)
}
func (o orc) coq() string { return fmt.Sprintf("%d %d %d %d", o.cb, o.cm, o.lv, o.tv) }

type skRun struct {
	o          orc
	nc, nr, nt int
	fuel       int
	out        []string
}

const (
	oNormal = iota
	oBrk
	oCont
	oRet
	oFuel
)

func (r *skRun) ev(s string) bool {
	r.fuel--
	r.out = append(r.out, s)
	return r.fuel > 0
}
func (r *skRun) emit(l int) bool { return r.ev(strconv.Itoa(l)) }
func (r *skRun) c(k int) (bool, bool) {
	ok := r.ev(fmt.Sprintf("c %d", k))
	b := (r.o.cb>>(r.nc%r.o.cm))&1 == 1
	r.nc++
	return b, ok
}

// cond evaluates a condition slot in its surface form with Go's short-circuit order.
func (r *skRun) cond(k int, cf condForm) (bool, bool) {
	a, ok := r.c(k)
	if !ok {
		return false, false
	}
	switch cf.form {
	case 1, 8:
		return !a, true
	case 2:
		return a, true
	case 3, 5, 7:
		v := a
		if a {
			b, ok := r.c(cf.k2)
			if !ok {
				return false, false
			}
			if cf.form == 5 {
				b = !b
			}
			v = b
		}
		if cf.form == 7 {
			v = !v
		}
		return v, true
	case 4, 6:
		if a {
			return true, true
		}
		b, ok := r.c(cf.k2)
		if !ok {
			return false, false
		}
		if cf.form == 6 {
			b = !b
		}
		return b, true
	}
	return a, true
}

func (r *skRun) block(b []*sk) int {
	for _, s := range b {
		if o := r.stmt(s); o != oNormal {
			return o
		}
	}
	return oNormal
}

func (r *skRun) stmt(s *sk) int {
	r.fuel--
	if r.fuel <= 0 {
		return oFuel
	}
	switch s.kind {
	case "emit":
		if !r.emit(s.l) {
			return oFuel
		}
	case "break":
		return oBrk
	case "continue":
		return oCont
	case "return":
		return oRet
	case "if":
		if s.init >= 0 && !r.emit(s.init) {
			return oFuel
		}
		b, ok := r.cond(s.l, s.cf)
		if !ok {
			return oFuel
		}
		if b {
			return r.block(s.thn)
		}
		return r.block(s.els)
	case "for":
		if s.init >= 0 && !r.emit(s.init) {
			return oFuel
		}
		for {
			r.fuel--
			if r.fuel <= 0 {
				return oFuel
			}
			if s.cond >= 0 {
				b, ok := r.cond(s.cond, s.cf)
				if !ok {
					return oFuel
				}
				if !b {
					break
				}
			}
			o := r.block(s.body)
			if o == oBrk {
				break
			}
			if o == oRet || o == oFuel {
				return o
			}
			if s.post >= 0 && !r.emit(s.post) {
				return oFuel
			}
		}
	case "range":
		if !r.ev(fmt.Sprintf("r %d", s.l)) {
			return oFuel
		}
		m := (r.o.lv >> (2 * (r.nr % 4))) & 3
		r.nr++
		for i := 0; i < m; i++ {
			o := r.block(s.body)
			if o == oBrk {
				break
			}
			if o == oRet || o == oFuel {
				return o
			}
		}
	case "switch":
		tv := 0
		if s.tag >= 0 {
			if !r.ev(fmt.Sprintf("t %d", s.tag)) {
				return oFuel
			}
			tv = (r.o.tv >> (4 * (r.nt % 4))) & 15
			r.nt++
		}
		o := -1
	cases:
		for _, c := range s.cases {
			for gi, gd := range c.gs {
				m := false
				if s.tag >= 0 {
					m = tv == gd
				} else {
					cf := condForm{}
					if c.fs != nil {
						cf = c.fs[gi]
					}
					b, ok := r.cond(gd, cf)
					if !ok {
						return oFuel
					}
					m = b
				}
				if m {
					o = r.block(c.body)
					break cases
				}
			}
		}
		if o < 0 {
			o = r.block(s.dflt)
		}
		if o == oBrk {
			o = oNormal
		}
		return o
	}
	return oNormal
}

// skPredict is what Go does with the body under the answer vector (ok = false: event budget exceeded).
func skPredict(body []*sk, o orc, budget int) ([]string, bool) {
	run := &skRun{o: o, fuel: budget}
	if run.block(body) == oFuel {
		return nil, false
	}
	return run.out, true
}

// ---- answer vectors ---------------------------------------------------------

type skShape struct {
	conds, ranges, tags int
	loop                bool
	tagVals             map[int]bool
}

func (sh *skShape) scan(b []*sk) {
	for _, s := range b {
		switch s.kind {
		case "if":
			sh.conds++
			if s.cf.two() {
				sh.conds++
			}
		case "for":
			sh.loop = true
			if s.cond >= 0 {
				sh.conds++
				if s.cf.two() {
					sh.conds++
				}
			}
		case "range":
			sh.loop = true
			sh.ranges++
		case "switch":
			if s.tag >= 0 {
				sh.tags++
				sh.tagVals[15] = true // no literal: the default
				for _, c := range s.cases {
					sh.tagVals[c.gs[0]] = true
					sh.tagVals[c.gs[len(c.gs)-1]] = true
				}
			} else {
				for _, c := range s.cases {
					sh.conds += len(c.gs)
					for _, cf := range c.fs {
						if cf.two() {
							sh.conds++
						}
					}
				}
			}
		}
		sh.scan(s.thn)
		sh.scan(s.els)
		sh.scan(s.body)
		sh.scan(s.dflt)
		for _, c := range s.cases {
			sh.scan(c.body)
		}
	}
}

// skVectors lists answer vectors for a body: all boolean vectors for the conditions (one more bit than
// there are conditions when a loop can re-evaluate them) up to maxBits bits, beyond that sampled longer
// vectors too; every range length in {0,1,2}; every tag value hitting the first and last value of each
// case and the default; the product, thinned to at most limit vectors.
func skVectors(r *rng, body []*sk, maxBits, limit int) []orc {
	sh := &skShape{tagVals: map[int]bool{}}
	sh.scan(body)
	type cv struct{ cb, cm int }
	var cvs []cv
	if sh.conds == 0 {
		cvs = []cv{{0, 1}}
	} else {
		m := sh.conds
		if sh.loop {
			m++
		}
		if m > maxBits {
			m = maxBits
		}
		for b := 0; b < 1<<m; b++ {
			cvs = append(cvs, cv{b, m})
		}
		if sh.conds > maxBits || (sh.loop && sh.conds == maxBits) {
			for i := 0; i < 16; i++ {
				cm := maxBits + 1 + r.intn(6)
				cvs = append(cvs, cv{r.intn(1 << cm), cm})
			}
		}
	}
	digits := func(n, base, bitsPer int, vals []int) []int {
		// all assignments of vals to the first n digits; the 4 digits cycle through them
		var res []int
		idx := make([]int, n)
		for {
			v := 0
			for d := 0; d < 4; d++ {
				v |= vals[idx[d%n]] << (bitsPer * d)
			}
			res = append(res, v)
			k := 0
			for k < n {
				idx[k]++
				if idx[k] < len(vals) {
					break
				}
				idx[k] = 0
				k++
			}
			if k == n {
				break
			}
		}
		return res
	}
	lvs := []int{0}
	if sh.ranges > 0 {
		n := sh.ranges
		if sh.loop && n < 2 {
			n = 2
		}
		if n > 3 {
			n = 3
		}
		lvs = digits(n, 3, 2, []int{0, 1, 2})
	}
	tvs := []int{0}
	if sh.tags > 0 {
		var vals []int
		for _, k := range sortedKeysInt(sh.tagVals) {
			vals = append(vals, k)
		}
		n := sh.tags
		if n > 2 {
			n = 2
		}
		tvs = digits(n, 0, 4, vals)
	}
	total := len(cvs) * len(lvs) * len(tvs)
	var res []orc
	at := func(i int) orc {
		c := cvs[i%len(cvs)]
		i /= len(cvs)
		l := lvs[i%len(lvs)]
		i /= len(lvs)
		return orc{c.cb, c.cm, l, tvs[i]}
	}
	if total <= limit {
		for i := 0; i < total; i++ {
			res = append(res, at(i))
		}
		return res
	}
	// thinned: a stride walk with a random start covers all factors evenly
	seen := map[int]bool{}
	for len(res) < limit {
		i := r.intn(total)
		if !seen[i] {
			seen[i] = true
			res = append(res, at(i))
		}
	}
	return res
}

func sortedKeysInt(m map[int]bool) []int {
	var k []int
	for x := range m {
		k = append(k, x)
	}
	for i := range k {
		for j := i + 1; j < len(k); j++ {
			if k[j] < k[i] {
				k[i], k[j] = k[j], k[i]
			}
		}
	}
	return k
}

// ---- programs ---------------------------------------------------------------

const c06Header = `package main

import "fmt"

var nc, nr, nt int
var cb, cm, lv, tv int

func set(a int, b int, c int, d int) {
	cb, cm, lv, tv = a, b, c, d
	nc, nr, nt = 0, 0, 0
}
func emit(l int) { fmt.Println(l) }
func c(k int) bool {
	fmt.Println("c", k)
	b := (cb >> (nc % cm)) & 1
	nc++
	return b == 1
}
func rs(k int) []int {
	fmt.Println("r", k)
	d := (lv >> (2 * (nr % 4))) & 3
	nr++
	return make([]int, d)
}
func tg(k int) int {
	fmt.Println("t", k)
	d := (tv >> (4 * (nt % 4))) & 15
	nt++
	return d
}
`

type skFunc struct {
	body []*sk
	desc string
}

type skCall struct {
	fn int
	o  orc
}

// c06Program: the functions t0..tn and a main running the given calls, each announced by "T".
func c06Program(fs []skFunc, calls []skCall) string {
	var sb strings.Builder
	sb.WriteString(c06Header)
	for i, f := range fs {
		fmt.Fprintf(&sb, "func t%d() {\n", i)
		for _, s := range f.body {
			s.src(&sb, 1)
		}
		sb.WriteString("}\n")
	}
	sb.WriteString("func main() {\n")
	for _, c := range calls {
		fmt.Fprintf(&sb, "\tset(%d, %d, %d, %d)\n\tfmt.Println(\"T\")\n\tt%d()\n", c.o.cb, c.o.cm, c.o.lv, c.o.tv, c.fn)
	}
	sb.WriteString("}\n")
	return sb.String()
}

func singleFunc(f skFunc) string {
	var sb strings.Builder
	for _, s := range f.body {
		s.src(&sb, 0)
	}
	return sb.String()
}

func singleProgram(f skFunc, o orc) string {
	return c06Program([]skFunc{f}, []skCall{{0, o}})
}

// splitTraces cuts the output at the "T" markers: one slice of lines per call that started.
func splitTraces(out string) [][]string {
	var res [][]string
	for _, l := range strings.Split(strings.TrimRight(out, "\n"), "\n") {
		if l == "T" {
			res = append(res, []string{})
			continue
		}
		if len(res) > 0 {
			res[len(res)-1] = append(res[len(res)-1], l)
		}
	}
	return res
}

func traceLines(out string) []string {
	out = strings.TrimRight(out, "\n")
	if out == "" {
		return nil
	}
	return strings.Split(out, "\n")
}

func coqTrace(lines []string) (string, bool) {
	var p []string
	for _, l := range lines {
		var k int
		switch {
		case strings.HasPrefix(l, "c "):
			k, _ = strconv.Atoi(l[2:])
			p = append(p, fmt.Sprintf("EvCond %d", k))
		case strings.HasPrefix(l, "r "):
			k, _ = strconv.Atoi(l[2:])
			p = append(p, fmt.Sprintf("EvRange %d", k))
		case strings.HasPrefix(l, "t "):
			k, _ = strconv.Atoi(l[2:])
			p = append(p, fmt.Sprintf("EvTag %d", k))
		default:
			k, err := strconv.Atoi(l)
			if err != nil {
				return "", false
			}
			p = append(p, fmt.Sprintf("EvEmit %d", k))
		}
	}
	return "[" + strings.Join(p, "; ") + "]", true
}

// exitTail: a construct that leaves conditionally, so the block it ends does NOT end for every path
// (x = return / break / continue); form 0 is the unconditional exit.
func exitTail(form int, x string) []*sk {
	X := leaf(x)
	switch form {
	case 0:
		return []*sk{X}
	case 1: // if c { X }
		a := leaf("if")
		a.thn = []*sk{X}
		return []*sk{a}
	case 2: // if c { emit } else if c { X }
		a, b := leaf("if"), leaf("if")
		a.thn = []*sk{leaf("emit")}
		b.thn = []*sk{X}
		a.els = []*sk{b}
		return []*sk{a}
	case 3: // if c { emit } else { X }
		a := leaf("if")
		a.thn = []*sk{leaf("emit")}
		a.els = []*sk{X}
		return []*sk{a}
	case 4: // switch { case c: X }
		a := leaf("switch")
		a.cases = []skCase{{gs: []int{0}, body: []*sk{X}}}
		return []*sk{a}
	case 5: // switch { case c: emit; default: X }
		a := leaf("switch")
		a.cases = []skCase{{gs: []int{0}, body: []*sk{leaf("emit")}}}
		a.hasDef, a.dpos, a.dflt = true, 1, []*sk{X}
		return []*sk{a}
	case 6: // switch { default: X; case c: emit }  (default first in the source, last in the code)
		a := leaf("switch")
		a.cases = []skCase{{gs: []int{0}, body: []*sk{leaf("emit")}}}
		a.hasDef, a.dpos, a.dflt = true, 0, []*sk{X}
		return []*sk{a}
	case 7: // for c { X }
		a := leaf("for")
		a.cond = 0
		a.body = []*sk{X}
		return []*sk{a}
	case 8: // for range rs { X }
		a := leaf("range")
		a.body = []*sk{X}
		return []*sk{a}
	}
	return nil
}

const exitTailForms = 9

// skExitTails: blocks ending in a (conditional) exit directly followed by code they must skip: the
// else branch of an if, an else-if chain, the next case or the default of a switch -- at top level and
// inside for, range and switch-in-for.
func skExitTails() [][]*sk {
	var res [][]*sk
	e := func() *sk { return leaf("emit") }
	for form := 0; form < exitTailForms; form++ {
		for _, x := range []string{"return", "break", "continue"} {
			for outer := 0; outer < 4; outer++ {
				then := append([]*sk{e()}, exitTail(form, x)...)
				var o *sk
				switch outer {
				case 0: // if c { then } else { emit }
					o = leaf("if")
					o.thn, o.els = then, []*sk{e()}
				case 1: // if c { then } else if c { emit } else { emit }
					o = leaf("if")
					b := leaf("if")
					b.thn, b.els = []*sk{e()}, []*sk{e()}
					o.thn, o.els = then, []*sk{b}
				case 2: // switch { case c: then; default: emit }
					o = leaf("switch")
					o.cases = []skCase{{gs: []int{0}, body: then}}
					o.hasDef, o.dpos, o.dflt = true, 1, []*sk{e()}
				case 3: // switch { case c: then; case c: emit }
					o = leaf("switch")
					o.cases = []skCase{{gs: []int{0}, body: then}, {gs: []int{0}, body: []*sk{e()}}}
				}
				for ctx := 0; ctx < 4; ctx++ {
					var b []*sk
					switch ctx {
					case 0:
						b = []*sk{o, e()}
					case 1: // for { o; emit; break }
						l := leaf("for")
						l.body = []*sk{o, e(), leaf("break")}
						b = []*sk{l, e()}
					case 2: // for range rs { o; emit }
						l := leaf("range")
						l.body = []*sk{o, e()}
						b = []*sk{l, e()}
					case 3: // for c { switch { case c: o; emit }; emit }
						l, w := leaf("for"), leaf("switch")
						l.cond = 0
						w.cases = []skCase{{gs: []int{0}, body: []*sk{o, e()}}}
						l.body = []*sk{w, e()}
						b = []*sk{l, e()}
					}
					if skWf(b, false, false) {
						res = append(res, b)
					}
				}
			}
		}
	}
	return res
}

// skNegFamily: tagless switches with NEGATED / compound case conditions after an earlier case that is
// taken (with and without an executed break), ending a range body, a three-clause for body (post
// statement), a `for { ...; break }` body or standing at top level, always followed by statements; and
// every condition form in an if with and without else.  Surface forms are preset (see condForm).
func skNegFamily() [][]*sk {
	var res [][]*sk
	e := func() *sk { return leaf("emit") }
	negForms := []condForm{{form: 1}, {form: 8}, {form: 5}, {form: 7}, {form: 2}, {form: 6}}
	for first := 0; first < 3; first++ {
		for later := 1; later <= 2; later++ {
			for _, nf := range negForms {
				for def := 0; def < 3; def++ {
					for ctx := 0; ctx < 4; ctx++ {
						var fb []*sk
						switch first {
						case 0:
							fb = []*sk{e()}
						case 1:
							fb = []*sk{e(), leaf("break")}
						case 2: // if c { break }; emit
							i := leaf("if")
							i.thn = []*sk{leaf("break")}
							fb = []*sk{i, e()}
						}
						w := leaf("switch")
						w.noTag = true
						w.cases = []skCase{{gs: []int{0}, fs: []condForm{{}}, body: fb}}
						for k := 0; k < later; k++ {
							w.cases = append(w.cases, skCase{gs: []int{0}, fs: []condForm{nf}, body: []*sk{e()}})
						}
						switch def {
						case 1:
							w.hasDef, w.dpos, w.dflt = true, len(w.cases), []*sk{e()}
						case 2:
							w.hasDef, w.dpos, w.dflt = true, 0, []*sk{e()}
						}
						var b []*sk
						switch ctx {
						case 0: // switch; emit
							b = []*sk{w, e()}
						case 1: // for range rs { emit; switch }; emit
							l := leaf("range")
							l.body = []*sk{e(), w}
							b = []*sk{l, e()}
						case 2: // for emit; c; emit { emit; switch }; emit
							l := leaf("for")
							l.cond, l.semis = 0, true
							l.body = []*sk{e(), w}
							b = []*sk{l, e()}
						case 3: // for { switch; emit; break }; emit
							l := leaf("for")
							l.body = []*sk{w, e(), leaf("break")}
							b = []*sk{l, e()}
						}
						res = append(res, b)
					}
				}
			}
		}
	}
	for form := 0; form < nCondForms; form++ {
		for els := 0; els < 2; els++ {
			i := leaf("if")
			i.cf = condForm{form: form}
			i.thn = []*sk{e()}
			if els == 1 {
				i.els = []*sk{e()}
			}
			res = append(res, []*sk{i, e()})
			l := leaf("for") // for <form> { emit; if c { break } }
			l.cond = 0
			l.cf = condForm{form: form}
			x := leaf("if")
			x.thn = []*sk{leaf("break")}
			l.body = []*sk{e(), x}
			if els == 1 {
				res = append(res, []*sk{l, e()})
			}
		}
	}
	return res
}

// skSample draws a random block: depth-bounded, every construct, placeholders wherever legal.
func skSample(r *rng, depth int, inLoop, inSwitch bool, maxLen int) []*sk {
	n := r.intn(maxLen + 1)
	var b []*sk
	exits := func() []string {
		x := []string{"return"}
		if inLoop || inSwitch {
			x = append(x, "break")
		}
		if inLoop {
			x = append(x, "continue")
		}
		return x
	}
	for i := 0; i < n; i++ {
		var kinds []string
		kinds = append(kinds, "emit", "return")
		if inLoop || inSwitch {
			kinds = append(kinds, "break", "break")
		}
		if inLoop {
			kinds = append(kinds, "continue", "continue")
		}
		if depth > 0 {
			kinds = append(kinds, "if", "if", "ifelse", "ifelse", "forever", "forcond", "forcond", "range", "range", "switch", "switch", "switch")
		}
		switch k := pick(r, kinds); k {
		case "emit", "return", "break", "continue":
			b = append(b, leaf(k))
		case "if", "ifelse":
			x := leaf("if")
			x.thn = skSample(r, depth-1, inLoop, inSwitch, maxLen)
			if k == "ifelse" {
				if r.chance(40) { // the then branch ends in a (conditional) exit, an else branch follows
					x.thn = append(x.thn, exitTail(r.intn(exitTailForms), pick(r, exits()))...)
				}
				if r.chance(40) { // else-if chain
					y := leaf("if")
					y.thn = skSample(r, depth-1, inLoop, inSwitch, maxLen)
					if r.chance(60) {
						y.els = skSample(r, depth-1, inLoop, inSwitch, maxLen)
					}
					x.els = []*sk{y}
				} else {
					x.els = skSample(r, depth-1, inLoop, inSwitch, maxLen)
					x.emptyEls = true
				}
			}
			b = append(b, x)
		case "forever", "forcond":
			x := leaf("for")
			if k == "forcond" {
				x.cond = 0
			}
			x.body = skSample(r, depth-1, true, false, maxLen)
			b = append(b, x)
		case "range":
			x := leaf("range")
			x.body = skSample(r, depth-1, true, false, maxLen)
			b = append(b, x)
		case "switch":
			x := leaf("switch")
			nc := r.intn(4)
			for j := 0; j < nc; j++ {
				body := skSample(r, depth-1, inLoop, true, maxLen)
				if r.chance(25) { // a case block ending in a conditional exit, more clauses follow
					ex := []string{"return", "break"}
					if inLoop {
						ex = append(ex, "continue")
					}
					body = append(body, exitTail(r.intn(exitTailForms), pick(r, ex))...)
				}
				x.cases = append(x.cases, skCase{gs: []int{0}, body: body})
			}
			if r.chance(70) {
				x.hasDef, x.dpos, x.dflt = true, r.intn(nc+1), skSample(r, depth-1, inLoop, true, maxLen)
			}
			b = append(b, x)
		}
	}
	return b
}

// c06Funcs builds the list of test functions: every well-formed skeleton with at most `exh` control
// nodes, the exit-tail family, then `sampled` random ones.  Decoration modes: 0 bare, 1 an emit before
// every statement and at the end of every block, 3 an emit before every statement only (blocks keep
// their last statement), 2 random.
func c06Funcs(r *rng, exh, sampled int, modes []int, forms bool, st *stats, kinds map[string]int) []skFunc {
	var fs []skFunc
	for n := 0; n <= exh; n++ {
		cnt := 0
		for _, b := range skEnum(n) {
			if !skWf(b, false, false) {
				continue
			}
			cnt++
			for _, mode := range modes {
				f := &finisher{r: r, mode: mode, forms: forms, kinds: kinds}
				fs = append(fs, skFunc{body: f.block(b, true), desc: fmt.Sprintf("exhaustive nodes=%d", n)})
			}
		}
		st.Histogram[fmt.Sprintf("exhaustive skeletons with %d control nodes", n)] = cnt
	}
	if exh >= 0 {
		tails := skExitTails()
		for _, b := range tails {
			for _, mode := range []int{0, 3} {
				f := &finisher{r: r, mode: mode, forms: forms, kinds: kinds}
				fs = append(fs, skFunc{body: f.block(b, true), desc: "exit-tail family"})
			}
		}
		st.Histogram["exit-tail family skeletons (conditional exit at the end of a then/case block)"] = len(tails)
		if forms {
			negs := skNegFamily()
			for _, b := range negs {
				f := &finisher{r: r, mode: 0, forms: false, kinds: kinds}
				fs = append(fs, skFunc{body: f.block(b, true), desc: "negated-condition family"})
			}
			st.Histogram["negated-condition family skeletons (negated / compound case conditions after a taken case, ending loop bodies; every condition form in if and for)"] = len(negs)
		}
	}
	for i := 0; i < sampled; i++ {
		depth := 2 + i%4
		b := skSample(r, depth, false, false, 2+i%3)
		f := &finisher{r: r, mode: 2, forms: forms, kinds: kinds}
		fs = append(fs, skFunc{body: f.block(b, true), desc: fmt.Sprintf("sampled depth=%d", depth)})
	}
	return fs
}

const c06CaseHeader = "From Coq Require Import ZArith List Bool.\nFrom GV Require Import GoSpec.GoCtl Model.Ctl Model.CorrC06.\nImport ListNotations.\nOpen Scope Z_scope.\n"

// realCode maps the instructions of a function body to the abstract instruction set ("" = no counterpart).
func realCode(ins []g.VerifIns) []string {
	var p []string
	fn := map[string]string{"main.emit": "FEmit", "main.c": "FCond", "main.rs": "FLen", "main.tg": "FTag"}
	for _, i := range ins {
		s := ""
		switch i.Code {
		case "PUSH":
			s = fmt.Sprintf("CPush %s", coqZ(int64(i.A)))
		case "GLOBALGET":
			if f, ok := fn[strings.TrimPrefix(i.Text, "GLOBALGET ")]; ok {
				s = "CGet " + f
			}
		case "CALL":
			s = fmt.Sprintf("CCall %s %s", coqZ(int64(i.A)), coqZ(int64(i.B)))
		case "LOCALSET":
			s = fmt.Sprintf("CLocalSet %d", i.A)
		case "LOCALGET":
			s = fmt.Sprintf("CLocalGet %d", i.A)
		case "EQ":
			s = "CEq"
		case "JUMP":
			s = fmt.Sprintf("CJump %s", coqZ(int64(i.A)))
		case "JUMPFALSE":
			s = fmt.Sprintf("CJumpFalse %s", coqZ(int64(i.A)))
		case "JUMPTRUE":
			s = fmt.Sprintf("CJumpTrue %s", coqZ(int64(i.A)))
		case "OR":
			s = fmt.Sprintf("COr %s", coqZ(int64(i.A)))
		case "RANGE":
			s = fmt.Sprintf("CRange %d %s", i.A, coqZ(int64(i.B)))
		case "ITER":
			k, v := ((i.B>>16)&0xffff)-32768, (i.B&0xffff)-32768
			s = fmt.Sprintf("CIter %d %d %d %s", i.A, k, v, coqZ(int64(i.C)))
		case "RETURN":
			s = fmt.Sprintf("CReturn %s", coqZ(int64(i.A)))
		case "BREAK":
			s = "CBreak"
		case "CONTINUE":
			s = "CContinue"
		}
		if s == "" {
			s = fmt.Sprintf("RX %s", coqZ(int64(i.CodeN)))
		}
		p = append(p, s)
	}
	return p
}

func coqRealCode(code []string) string {
	var p []string
	for _, s := range code {
		if strings.HasPrefix(s, "RX ") {
			p = append(p, s)
		} else {
			p = append(p, "RI ("+s+")")
		}
	}
	return "[" + strings.Join(p, "; ") + "]"
}

// ---- a Go rendering of Model/Ctl.v compile (only used to notice, inside the harness, that the real
// compiler's code differs from the model, so that a deeper behavioural search is run on that skeleton;
// the deciding comparison is the Coq one, KCode) -----------------------------

func mCall(f string, k, nrets int) []string {
	return []string{fmt.Sprintf("CPush %s", coqZ(int64(k))), "CGet " + f, fmt.Sprintf("CCall 1 %d", nrets)}
}
func mSimple(l int) []string {
	if l < 0 {
		return nil
	}
	return mCall("FEmit", l, 0)
}
func mJ(op string, d int) string { return fmt.Sprintf("%s %s", op, coqZ(int64(d))) }

func mRewrite(b []string, brk, cnt func(n int) (int, bool)) []string {
	out := make([]string, len(b))
	for n, i := range b {
		out[n] = i
		if i == "CBreak" {
			if d, ok := brk(n); ok {
				out[n] = mJ("CJump", d)
			}
		}
		if i == "CContinue" {
			if d, ok := cnt(n); ok {
				out[n] = mJ("CJump", d)
			}
		}
	}
	return out
}

func mSlotsBlock(b []*sk) int {
	n := 0
	for _, s := range b {
		n += mSlots(s)
	}
	return n
}
func mSlots(s *sk) int {
	switch s.kind {
	case "if":
		return mSlotsBlock(s.thn) + mSlotsBlock(s.els)
	case "for":
		return mSlotsBlock(s.body)
	case "range":
		return 2 + mSlotsBlock(s.body)
	case "switch":
		n := mSlotsBlock(s.dflt)
		if s.tag >= 0 {
			n++
		}
		for _, c := range s.cases {
			n += mSlotsBlock(c.body)
		}
		return n
	}
	return 0
}

func mBlock(L int, b []*sk) []string {
	var res []string
	for _, s := range b {
		res = append(res, mCompile(L, s)...)
		L += mSlots(s)
	}
	return res
}

func mCompile(L int, s *sk) []string {
	none := func(int) (int, bool) { return 0, false }
	switch s.kind {
	case "emit":
		return mCall("FEmit", s.l, 0)
	case "break":
		return []string{"CBreak"}
	case "continue":
		return []string{"CContinue"}
	case "return":
		return []string{"CReturn 0"}
	case "if":
		thenI, elseI := mBlock(L, s.thn), mBlock(L+mSlotsBlock(s.thn), s.els)
		res := append(mSimple(s.init), mCall("FCond", s.l, 1)...)
		if len(elseI) == 0 {
			res = append(res, mJ("CJumpFalse", len(thenI)))
			return append(res, thenI...)
		}
		res = append(res, mJ("CJumpFalse", len(thenI)+1))
		res = append(res, thenI...)
		res = append(res, mJ("CJump", len(elseI)))
		return append(res, elseI...)
	case "for":
		var cnd []string
		if s.cond >= 0 {
			cnd = mCall("FCond", s.cond, 1)
		}
		block, pst := mBlock(L, s.body), mSimple(s.post)
		res := mSimple(s.init)
		if len(cnd) > 0 {
			res = append(res, mJ("CJump", len(block)+len(pst)))
		}
		res = append(res, mRewrite(block,
			func(n int) (int, bool) { return len(block) - n + len(pst) + len(cnd), true },
			func(n int) (int, bool) { return len(block) - n - 1, true })...)
		res = append(res, pst...)
		if len(cnd) > 0 {
			res = append(res, cnd...)
			return append(res, mJ("CJumpTrue", -(len(block)+len(pst)+len(cnd)+1)))
		}
		return append(res, mJ("CJump", -(len(block)+len(pst)+1)))
	case "range":
		block := mBlock(L+2, s.body)
		res := append(mCall("FLen", s.l, 1), fmt.Sprintf("CRange %d %s", L, coqZ(int64(len(block)))))
		res = append(res, mRewrite(block,
			func(n int) (int, bool) { return len(block) - n, true },
			func(n int) (int, bool) { return len(block) - n - 1, true })...)
		return append(res, fmt.Sprintf("CIter %d %d %d %s", L, L+1, L+1, coqZ(int64(-(len(block)+1)))))
	case "switch":
		var res []string
		isv, L1 := s.tag >= 0, L
		if isv {
			res = append(mCall("FTag", s.tag, 1), fmt.Sprintf("CLocalSet %d", L))
			L1 = L + 1
		}
		def0 := mBlock(L1, s.dflt)
		def := mRewrite(def0, func(n int) (int, bool) { return len(def0) - n - 1, true }, none)
		one := func(g int) []string {
			if isv {
				return []string{fmt.Sprintf("CPush %s", coqZ(int64(g))), fmt.Sprintf("CLocalGet %d", L), "CEq"}
			}
			return mCall("FCond", g, 1)
		}
		var out []string
		Lc := L1 + mSlotsBlock(s.dflt)
		for i := len(s.cases) - 1; i >= 0; i-- {
			c := s.cases[i]
			chunk := one(c.gs[0])
			for _, g := range c.gs[1:] {
				o := one(g)
				chunk = append(chunk, mJ("COr", len(o)))
				chunk = append(chunk, o...)
			}
			cs0 := mBlock(Lc, c.body)
			Lc += mSlotsBlock(c.body)
			lout := len(out)
			csB := mRewrite(cs0, func(n int) (int, bool) { return len(cs0) - n + lout + len(def), true }, none)
			chunk = append(chunk, mJ("CJumpFalse", len(csB)+1))
			chunk = append(chunk, csB...)
			chunk = append(chunk, mJ("CJump", lout+len(def)))
			out = append(chunk, out...)
		}
		res = append(res, out...)
		return append(res, def...)
	}
	panic("kind " + s.kind)
}

// funcBodies locates `func tN()` bodies: FUNC (A, slots, C = body length), nargs+nrets TYPE
// instructions, the body, GLOBALFUNC main.tN.
func funcBodies(ins []g.VerifIns) map[string][]g.VerifIns {
	res := map[string][]g.VerifIns{}
	for p := 0; p < len(ins); p++ {
		if ins[p].Code != "FUNC" {
			continue
		}
		q := p + 1
		for q < len(ins) && ins[q].Code == "TYPE" {
			q++
		}
		end := q + ins[p].C
		if end < len(ins) && ins[end].Code == "GLOBALFUNC" {
			res[strings.TrimPrefix(ins[end].Text, "GLOBALFUNC ")] = ins[q:end]
			p = end
		}
	}
	return res
}

func c06Chunks(fs []skFunc, per int) [][]skFunc {
	var res [][]skFunc
	for i := 0; i < len(fs); i += per {
		res = append(res, fs[i:minInt(i+per, len(fs))])
	}
	return res
}

// limitBuf stops a run-away program: writing beyond the limit panics inside the VM.
type limitBuf struct {
	bytes.Buffer
	limit int
}

func (b *limitBuf) Write(p []byte) (int, error) {
	if b.Len() > b.limit {
		panic("output limit exceeded")
	}
	return b.Buffer.Write(p)
}

// skKey identifies a case by its skeleton (for the distinct count and the samples).
func skKey(what string, f skFunc) string {
	return what + " " + f.desc + ": " + strings.TrimSuffix(strings.TrimPrefix(coqBlock(f.body), "(blk "), ")")
}

// ---- running the real VM function by function --------------------------------

type vmSess struct {
	vm  *g.VM
	out *limitBuf
}

// newSess loads the program: optimize == nil is the default Load path (optimizer on), otherwise the
// verif hook with the flag given (and the compiled code is returned).
func newSess(src string, optimize *bool) (s *vmSess, ins []g.VerifIns, err error) {
	s = &vmSess{out: &limitBuf{limit: 1 << 18}}
	s.vm = g.New(g.WithStdout(s.out))
	mfs := fstest.MapFS{"main/main.go": &fstest.MapFile{Data: []byte(src)}}
	defer func() {
		if rec := recover(); rec != nil {
			err = fmt.Errorf("GO PANIC ESCAPED: %v", rec)
		}
	}()
	if optimize == nil {
		err = s.vm.Load(mfs, "main")
	} else {
		ins, _, _, err = g.VerifLoadTrace(s.vm, mfs, "main", *optimize)
	}
	return s, ins, err
}

// c06Watch turns a silent endless loop of the VM into a failing input: the command records it and exits.
var c06Watch struct {
	mu      sync.Mutex
	active  bool
	since   time.Time
	onStuck func()
}

func c06StartWatch() {
	go func() {
		for {
			time.Sleep(300 * time.Millisecond)
			c06Watch.mu.Lock()
			stuck := c06Watch.active && time.Since(c06Watch.since) > 8*time.Second
			f := c06Watch.onStuck
			c06Watch.mu.Unlock()
			if stuck && f != nil {
				f()
				os.Exit(0)
			}
		}
	}()
}

func (s *vmSess) run(fn string, o orc, onStuck func()) (lines []string, err error) {
	s.out.Reset()
	c06Watch.mu.Lock()
	c06Watch.active, c06Watch.since, c06Watch.onStuck = true, time.Now(), onStuck
	c06Watch.mu.Unlock()
	defer func() {
		c06Watch.mu.Lock()
		c06Watch.active = false
		c06Watch.mu.Unlock()
		if rec := recover(); rec != nil {
			lines, err = traceLines(s.out.String()), fmt.Errorf("GO PANIC ESCAPED: %v", rec)
		}
	}()
	if _, err = s.vm.Call("main.set", 0, g.Int(o.cb), g.Int(o.cm), g.Int(o.lv), g.Int(o.tv)); err == nil {
		_, err = s.vm.Call(fn, 0)
	}
	return traceLines(s.out.String()), err
}

type c06Mismatch struct {
	Kind      string   `json:"kind"`
	Src       string   `json:"src"`
	Oracle    string   `json:"oracle"`
	Expected  string   `json:"expected"`
	Got       string   `json:"got"`
	Line      int      `json:"first_diff_line"`
	Err       string   `json:"err,omitempty"`
	ExpTrace  []string `json:"expected_trace"`
	GotTrace  []string `json:"observed_trace"`
	Optimizer string   `json:"optimizer"`
}

func sameLines(a, b []string) bool {
	if len(a) != len(b) {
		return false
	}
	for i := range a {
		if a[i] != b[i] {
			return false
		}
	}
	return true
}

func capLines(l []string) []string {
	if len(l) > 60 {
		return append(append([]string{}, l[:60]...), "...")
	}
	return l
}

func newMismatch(kind, opt string, f skFunc, o orc, exp, got []string, err error) c06Mismatch {
	k := 0
	for k < len(exp) && k < len(got) && exp[k] == got[k] {
		k++
	}
	e, gg := "<end>", "<end>"
	if k < len(exp) {
		e = exp[k]
	}
	if k < len(got) {
		gg = got[k]
	}
	es := ""
	if err != nil {
		es = err.Error()
	}
	return c06Mismatch{Kind: kind, Src: singleProgram(f, o), Oracle: o.String(), Expected: e, Got: gg, Line: k + 1, Err: es,
		ExpTrace: capLines(exp), GotTrace: capLines(got), Optimizer: opt}
}

// behaviour compares the real VM with Go's semantics on one function under each answer vector.
// It returns the vectors run (with the observed trace) and records every difference as a failing input.
type vmObs struct {
	o    orc
	obs  []string
	pred []string
	bad  bool
}

func behaviour(st *stats, sess *vmSess, fname string, f skFunc, vecs []orc, kind, opt string, flush func()) []vmObs {
	var res []vmObs
	for _, o := range vecs {
		pred, ok := skPredict(f.body, o, 300)
		if !ok {
			st.Histogram["answer vectors skipped (no termination within the event budget)"]++
			continue
		}
		obs, err := sess.run(fname, o, func() {
			st.mismatchG(kind+": endless loop", newMismatch(kind+": the VM does not terminate (Go does)", opt, f, o, pred, []string{"<no termination within 8 s>"}, nil))
			flush()
		})
		bad := err != nil || !sameLines(obs, pred)
		if bad {
			st.mismatchG(kind+" / "+f.desc, newMismatch(kind, opt, f, o, pred, obs, err)) // one example per generator family
		}
		res = append(res, vmObs{o, obs, pred, bad})
	}
	return res
}

// cmdC06Corr: real compiler output (optimizer off) vs compile_ctl; real VM (optimizer off) vs the
// abstract machine AND vs Go's semantics, under systematically enumerated answer vectors.
func cmdC06Corr(seed uint64, n int, dir string, thorough bool) {
	r := newRng(seed)
	st := newStats()
	kinds := map[string]int{}
	exh, limit, coqVecs := 2, 24, 2
	if thorough {
		exh, limit = 3, 32
	}
	fs := c06Funcs(r, exh, n, []int{0, 1, 3}, false, st, kinds)
	var cases []string
	flush := func() {
		for k, v := range kinds {
			st.Histogram["construct:"+k] = v
		}
		files := writeCases(dir, "cases_C06", c06CaseHeader, "xmismatches", cases, 400)
		st.Extra["files"] = files
		st.write(dir + "/C06_corr_stats.json")
	}
	c06StartWatch()
	off := false
	for _, chunk := range c06Chunks(fs, 200) {
		src := c06Program(chunk, nil)
		sess, ins, err := newSess(src, &off)
		if err != nil {
			st.mismatchG("compile-error", progMismatch{Kind: "compile-error", Src: src, Err: err.Error()})
			continue
		}
		bodies := funcBodies(ins)
		for i, f := range chunk {
			fname := fmt.Sprintf("main.t%d", i)
			body, ok := bodies[fname]
			if !ok {
				st.mismatchG("body-not-found", progMismatch{Kind: "body-not-found", Src: singleProgram(f, orc{0, 1, 0, 0})})
				continue
			}
			real := realCode(body)
			cases = append(cases, fmt.Sprintf("KCode %s %s", coqBlock(f.body), coqRealCode(real)))
			st.add("code: "+f.desc, skKey("code", f))
			// behaviour under answer vectors; a deeper search where the code differs from the model
			lim, bits, kind := limit, 4, "control-flow (optimizer off)"
			if !sameLines(real, mBlock(0, f.body)) {
				st.Histogram["functions whose compiled code differs from the model"]++
				kind = "control-flow (optimizer off; compiled code differs from Model/Ctl.v)"
				// deep search: all condition vectors up to 8 bits x lengths x tags, until enough witnesses are in
				if st.Groups[kind] < 40 && st.Histogram["deep behavioural searches run"] < 600 {
					st.Histogram["deep behavioural searches run"]++
					lim, bits = 4096, 8
				}
			}
			runs := behaviour(st, sess, fname, f, skVectors(r, f.body, bits, lim), kind, "off", flush)
			st.Histogram["VM runs (optimizer off) compared with Go's semantics"] += len(runs)
			// the Coq side re-checks a few of them (abstract machine = GoCtl = observed), and every bad one
			sent := 0
			for k, ro := range runs {
				want := coqVecs
				if strings.HasPrefix(f.desc, "exhaustive") {
					want = 1
				}
				if !(ro.bad || sent < want && (k == len(runs)/2 || k == len(runs)-1)) {
					continue
				}
				if ro.bad && sent > coqVecs+2 {
					continue
				}
				sent++
				if tr, ok := coqTrace(ro.obs); ok {
					cases = append(cases, fmt.Sprintf("KRun %s %s %s", coqBlock(f.body), ro.o.coq(), tr))
					st.add("run: "+f.desc, skKey("run "+ro.o.coq(), f))
				}
				if ro.bad {
					if tr, ok := coqTrace(ro.pred); ok {
						cases = append(cases, fmt.Sprintf("KRef %s %s %s", coqBlock(f.body), ro.o.coq(), tr))
					}
				}
			}
		}
	}
	flush()
}

// cmdC06Spec: the Go toolchain's trace vs the GoSpec/GoCtl.v evaluator (and the harness's Go rendering
// of it) under the same answer vectors.
func cmdC06Spec(seed uint64, n int, dir string, thorough bool) {
	r := newRng(seed + 77)
	st := newStats()
	kinds := map[string]int{}
	exh := 1
	if thorough {
		exh = 2
	}
	fs := c06Funcs(r, exh, n, []int{3}, false, st, kinds)
	var cases []string
	for _, chunk := range c06Chunks(fs, 300) {
		var calls []skCall
		var preds [][]string
		for i, f := range chunk {
			vecs := skVectors(r, f.body, 4, 3)
			for _, o := range vecs {
				if pred, ok := skPredict(f.body, o, 300); ok {
					calls = append(calls, skCall{i, o})
					preds = append(preds, pred)
				}
			}
		}
		out, panicked, err := goRefRun(asInt32(c06Program(chunk, calls)))
		if err != nil || panicked {
			st.Histogram["invalid_go_program"]++
			st.Extra["invalid_go"] = fmt.Sprint(err)
			continue
		}
		traces := splitTraces(out)
		for k, c := range calls {
			if k >= len(traces) {
				break
			}
			f := chunk[c.fn]
			if !sameLines(traces[k], preds[k]) {
				st.mismatchG("gospec", newMismatch("harness evaluator differs from the Go toolchain (a defect of the checker, not of goatlang)", "-", f, c.o, traces[k], preds[k], nil))
			}
			if tr, ok := coqTrace(traces[k]); ok {
				cases = append(cases, fmt.Sprintf("KSem %s %s %s", coqBlock(f.body), c.o.coq(), tr))
				st.add("spec: "+f.desc, skKey("spec "+c.o.coq(), f))
			}
		}
	}
	files := writeCases(dir, "cases_C06spec", c06CaseHeader, "xmismatches", cases, 400)
	st.Extra["files"] = files
	st.write(dir + "/C06_spec_stats.json")
}

// cmdC06Script: goatlang on the default Load path (optimizer on) vs Go: every function under all its
// answer vectors against Go's semantics, and under a few of them against the Go toolchain itself
// (n programs of sampled functions after the exhaustive part).
func cmdC06Script(seed uint64, n int, dir string, thorough bool) {
	r := newRng(seed + 1)
	st := newStats()
	kinds := map[string]int{}
	exh, per, limit := 2, 250, 24
	if thorough {
		exh, per, limit = 3, 400, 32
	}
	fs := c06Funcs(r, exh, n*per, []int{1, 3}, true, st, kinds)
	flush := func() { st.write(dir + "/C06_script_stats.json") }
	c06StartWatch()
	kind := "control-flow"
	for _, chunk := range c06Chunks(fs, per) {
		sess, _, err := newSess(c06Program(chunk, nil), nil)
		if err != nil {
			st.mismatchG("load-error", progMismatch{Kind: "load-error", Src: c06Program(chunk, nil), Err: err.Error()})
			continue
		}
		var calls []skCall
		var goat [][]string
		for i, f := range chunk {
			runs := behaviour(st, sess, fmt.Sprintf("main.t%d", i), f, skVectors(r, f.body, 4, limit), kind, "on (default Load path)", flush)
			st.Histogram["VM runs (optimizer on) compared with Go's semantics"] += len(runs)
			if len(runs) > 0 {
				st.add("script: "+f.desc, "script "+f.desc+": "+strings.Join(strings.Fields(singleFunc(f)), " "))
			} else {
				st.Histogram["skipped (no terminating answer vector)"]++
			}
			for k, ro := range runs {
				if k == 0 || k == len(runs)-1 || k == len(runs)/2 {
					calls = append(calls, skCall{i, ro.o})
					goat = append(goat, ro.obs)
				}
			}
		}
		// the Go toolchain on up to three vectors per function
		exp, panicked, err := goRefRun(asInt32(c06Program(chunk, calls)))
		if err != nil || panicked {
			st.Histogram["invalid_go_program"]++
			st.Extra["invalid_go"] = fmt.Sprint(err, panicked)
			continue
		}
		et := splitTraces(exp)
		for k, c := range calls {
			if k >= len(et) {
				break
			}
			st.Histogram["runs compared with the Go toolchain"]++
			if !sameLines(et[k], goat[k]) {
				st.mismatchG(kind+" (vs go build)", newMismatch(kind+" (vs go build)", "on (default Load path)", chunk[c.fn], c.o, et[k], goat[k], nil))
			}
		}
	}
	for k, v := range kinds {
		st.Histogram["construct:"+k] = v
	}
	flush()
}
