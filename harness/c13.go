package main

import (
	"fmt"
	"os"
	"strings"
	"unicode/utf8"

	g "github.com/philhassey/goatlang"
)

func init() {
	register("c13-corr", func(a cmdArgs) { cmdC13Corr(a.seed, a.n, a.dir) })
	register("c13-script", func(a cmdArgs) { cmdC13Script(a.seed, a.n, a.dir) })

}

// ---------------------------------------------------------------------------
// string generator: concatenations of segments of named classes

type c13Class struct {
	name string
	gen  func(r *rng) string
}

func rndRune(r *rng, lo, hi int) rune {
	for {
		x := rune(r.rangeI(lo, hi))
		if x < 0xD800 || x > 0xDFFF {
			return x
		}
	}
}

var c13Classes = []c13Class{
	{"ascii", func(r *rng) string {
		n := 1 + r.intn(4)
		b := make([]byte, n)
		for i := range b {
			b[i] = byte(r.rangeI(0x20, 0x7e))
		}
		return string(b)
	}},
	{"ascii-control", func(r *rng) string { return string([]byte{byte(r.rangeI(1, 0x1f))}) }},
	{"del-7f", func(r *rng) string { return "\x7f" }},
	{"nul", func(r *rng) string { return "\x00" }},
	{"rune2", func(r *rng) string {
		return string(pick(r, []rune{0x80, 0xe9, 0x7ff, rndRune(r, 0x80, 0x7ff)}))
	}},
	{"rune3", func(r *rng) string {
		return string(pick(r, []rune{0x800, 0x4e16, 0xd7ff, 0xe000, 0xfffd, 0xffff, rndRune(r, 0x800, 0xffff)}))
	}},
	{"rune4", func(r *rng) string {
		return string(pick(r, []rune{0x10000, 0x1f600, 0x10ffff, rndRune(r, 0x10000, 0x10ffff)}))
	}},
	{"surrogate-enc", func(r *rng) string { // ED A0..BF xx : U+D800..U+DFFF
		return string([]byte{0xed, byte(r.rangeI(0xa0, 0xbf)), byte(r.rangeI(0x80, 0xbf))})
	}},
	{"overlong", func(r *rng) string {
		return pick(r, []string{"\xc0\x80", "\xc1\xbf", "\xc0\xaf", "\xe0\x80\x80", "\xe0\x9f\xbf", "\xf0\x80\x80\x80", "\xf0\x8f\xbf\xbf", "\xf0\x80\x80\xaf"})
	}},
	{"above-10ffff", func(r *rng) string {
		return pick(r, []string{"\xf4\x90\x80\x80", "\xf4\xbf\xbf\xbf", "\xf5\x80\x80\x80", "\xf7\xbf\xbf\xbf", "\xf8\x88\x80\x80\x80", "\xfc\x84\x80\x80\x80\x80"})
	}},
	{"stray-continuation", func(r *rng) string {
		n := 1 + r.intn(2)
		b := make([]byte, n)
		for i := range b {
			b[i] = byte(r.rangeI(0x80, 0xbf))
		}
		return string(b)
	}},
	{"truncated", func(r *rng) string { // a lead byte with too few continuation bytes
		return pick(r, []string{"\xc3", "\xdf", "\xe4", "\xe4\xb8", "\xe0\xa0", "\xed\x9f", "\xf0", "\xf0\x9f", "\xf0\x9f\x98", "\xf4\x8f\xbf"})
	}},
	{"bad-second-byte", func(r *rng) string { // lead byte followed by a non-continuation byte
		return pick(r, []string{"\xc3A", "\xe4\xb8A", "\xe4A\x96", "\xf0\x9fA\x80", "\xf0\x9f\x98A", "\xc3\xc3\xa9", "\xe0\x80A"})
	}},
	{"fe-ff", func(r *rng) string { return pick(r, []string{"\xfe", "\xff", "\xff\xfe"}) }},
	{"random-bytes", func(r *rng) string {
		n := 1 + r.intn(5)
		b := make([]byte, n)
		for i := range b {
			b[i] = byte(r.intn(256))
		}
		return string(b)
	}},
}

// genC13String returns a string and the classes it was built from ("empty" for "").
func genC13String(r *rng) (string, []string) {
	if r.chance(4) {
		return "", []string{"empty"}
	}
	n := 1 + r.intn(6)
	var sb strings.Builder
	var cl []string
	for i := 0; i < n; i++ {
		c := pick(r, c13Classes)
		sb.WriteString(c.gen(r))
		cl = append(cl, c.name)
	}
	return sb.String(), cl
}

// ---------------------------------------------------------------------------
// C13 correspondence

func caught13(f func()) (panicked bool) {
	defer func() {
		if recover() != nil {
			panicked = true
		}
	}()
	f()
	return false
}

func coqResStr(panicked bool, ok string) string {
	if panicked {
		return "Panic"
	}
	return "(Ok " + ok + ")"
}

func coqValues(vs []g.Value) string {
	p := make([]string, len(vs))
	for i, v := range vs {
		p[i] = coqValue(v)
	}
	return "[" + strings.Join(p, "; ") + "]"
}

func coqZs(zs []int64) string {
	p := make([]string, len(zs))
	for i, z := range zs {
		p[i] = coqZ(z)
	}
	return "[" + strings.Join(p, "; ") + "]"
}

func sliceElems(v g.Value) []g.Value {
	n := v.Len()
	out := make([]g.Value, n)
	for i := 0; i < n; i++ {
		out[i], _ = v.Get(g.Int32(int32(i)))
	}
	return out
}

func joinParamsC13(a, b int) int { return (((a + 32768) & 0xffff) << 16) | ((b + 32768) & 0xffff) }

type c13Direct struct {
	Kind     string `json:"kind"`
	Input    string `json:"input"`
	Expected string `json:"expected"`
	Got      string `json:"got"`
}

func cmdC13Corr(seed uint64, n int, dir string) {
	r := newRng(seed)
	st := newStats()
	var cases []string
	kinds := map[string]int{}
	add := func(kind, format string, args ...any) {
		cases = append(cases, fmt.Sprintf(format, args...))
		kinds[kind]++
	}
	vm := g.New()
	code := map[string]int{}
	for k, v := range g.VerifCodeNames() {
		code[v] = k
	}
	for _, nm := range []string{"GET", "FASTGETINT", "LEN", "SLICE", "RANGE", "ITER", "LOCALGET", "CONVERT", "COPY"} {
		if _, ok := code[nm]; !ok {
			must(fmt.Errorf("opcode %s not found", nm))
		}
	}
	exec := func(ins [][4]int, stack []g.Value) (out []g.Value, panicked bool) {
		var err error
		p := caught13(func() { out, _, err = g.VerifExec(vm, ins, stack) })
		return out, p || err != nil
	}
	top := func(out []g.Value, panicked bool) string {
		if panicked || len(out) == 0 {
			return "Panic"
		}
		return "(Ok " + coqValue(out[len(out)-1]) + ")"
	}
	idxChoices := func(l int) []int {
		c := []int{0, -1, l, l - 1, l + 1, r.intn(l + 1), r.intn(l + 1), r.intn(l+3) - 1, 1 << 20, -(1 << 31), 1<<31 - 1}
		return c
	}
	keyOf := func(i int) g.Value {
		switch r.intn(4) {
		case 0:
			return g.VerifNewUntyped(i)
		case 1:
			if i >= 0 && i < 256 {
				return g.Uint8(uint8(i))
			}
		case 2:
			if i >= 0 {
				return g.Uint32(uint32(i))
			}
		}
		return g.Int32(int32(i))
	}
	var pool []string // earlier strings, for comparisons against related strings
	for c := 0; c < n; c++ {
		s, cl := genC13String(r)
		seen := map[string]bool{}
		for _, k := range cl {
			if !seen[k] {
				seen[k] = true
				st.Histogram["class:"+k]++
			}
		}
		st.add(fmt.Sprintf("string segments=%d", len(cl)), fmt.Sprintf("%q %v", s, cl))
		sb := coqBytes(s)
		v := g.String(s)
		l := len(s)

		// --- host API -------------------------------------------------------
		add("SLen", "SLen %s %d", sb, v.Len())
		for _, i := range idxChoices(l)[:7+r.intn(4)] {
			k := keyOf(i)
			var rv g.Value
			var ok bool
			p := caught13(func() { rv, ok = v.Get(k) })
			add("SGet", "SGet %s %s %s %s", sb, coqValue(k), coqResStr(p, fmt.Sprintf("(%s, %v)", coqValue(rv), ok)), coqBytes(v.String()))
		}
		for t := 0; t < 8; t++ {
			ch := idxChoices(l)
			i, j := pick(r, ch[:8]), pick(r, ch[:8])
			if r.chance(60) && i > j {
				i, j = j, i
			}
			var rv g.Value
			p := caught13(func() { rv = v.Slice(i, j) })
			add("SSlice", "SSlice %s %s %s %s %s", sb, coqZ(int64(i)), coqZ(int64(j)), coqResStr(p, coqValue(rv)), coqBytes(v.String()))
		}
		{
			k, x := g.Int32(int32(r.intn(l+1))), g.Uint8(uint8(r.intn(256)))
			p := caught13(func() { v.Set(k, x) })
			add("SSet", "SSet %s %s %s %s %s", sb, coqValue(k), coqValue(x), coqResStr(p, "tt"), coqBytes(v.String()))
		}
		{
			next := v.Range()
			var vis []string
			for {
				k, x, ok := next()
				if !ok {
					break
				}
				vis = append(vis, "("+coqValue(k)+", "+coqValue(x)+")")
				if len(vis) > l+2 {
					break
				}
			}
			_, _, again := next()
			add("SRange", "SRange %s [%s] %v", sb, strings.Join(vis, "; "), again)
			// directly against Go's own range over the same string
			var exp []string
			for i, rn := range s {
				exp = append(exp, "("+coqValue(g.Int32(int32(i)))+", "+coqValue(g.Int32(rn))+")")
			}
			if strings.Join(exp, "; ") != strings.Join(vis, "; ") {
				var gexp []string
				for i, rn := range s {
					gexp = append(gexp, fmt.Sprintf("%d:%d", i, rn))
				}
				st.mismatchG("range over string", c13Direct{"for i, r := range s (offset:rune pairs)", fmt.Sprintf("%q", s), strings.Join(gexp, " "), strings.Join(vis, "; ")})
			}
			if v.Len() != len(s) {
				st.mismatchG("len of string", c13Direct{"len(s)", fmt.Sprintf("%q", s), fmt.Sprint(len(s)), fmt.Sprint(v.Len())})
			}
			for i := 0; i < l; i++ {
				var rv g.Value
				p := caught13(func() { rv, _ = v.Get(g.Int32(int32(i))) })
				if p || g.VerifTag(rv) != 3 || g.VerifNum(rv) != float64(s[i]) {
					st.mismatchG("index of string", c13Direct{"s[i]", fmt.Sprintf("%q [%d]", s, i), fmt.Sprintf("uint8 %d", s[i]), fmt.Sprintf("panic=%v tag=%d num=%v", p, g.VerifTag(rv), g.VerifNum(rv))})
					break
				}
			}
			if l >= 2 {
				i, j := r.intn(l), 0
				j = i + r.intn(l-i+1)
				var rv g.Value
				p := caught13(func() { rv = v.Slice(i, j) })
				if p || rv.String() != s[i:j] {
					st.mismatchG("slice of string", c13Direct{"s[i:j]", fmt.Sprintf("%q [%d:%d]", s, i, j), fmt.Sprintf("%q", s[i:j]), fmt.Sprintf("panic=%v %q", p, rv.String())})
				}
			}
		}
		{
			sl := g.VerifConvert(v, 128)
			el := sliceElems(sl)
			add("SToBytes", "SToBytes %s %d %s", sb, g.VerifTag(sl), coqValues(el))
			back := g.VerifConvert(sl, 64)
			add("SFromData", "SFromData %s %s", coqValues(el), coqValue(back))
			if back.String() != s || g.VerifTag(back) != tagString {
				st.mismatchG("roundtrip string([]byte(s))", c13Direct{"roundtrip string([]byte(s))", fmt.Sprintf("%q", s), fmt.Sprintf("%q", s), fmt.Sprintf("%q", back.String())})
			}
			// []byte(string(b)) for a host-built []uint8
			var bs []g.Value
			for i := 0; i < l; i++ {
				bs = append(bs, g.Uint8(s[i]))
			}
			hb := g.NewSlice(g.Type(3), bs)
			str := g.VerifConvert(hb, 64)
			add("SFromData", "SFromData %s %s", coqValues(sliceElems(hb)), coqValue(str))
			el2 := sliceElems(g.VerifConvert(str, 128))
			same := len(el2) == l
			for i := 0; same && i < l; i++ {
				same = g.VerifTag(el2[i]) == 3 && g.VerifNum(el2[i]) == float64(s[i])
			}
			if !same {
				st.mismatchG("roundtrip []byte(string(b))", c13Direct{"roundtrip []byte(string(b))", fmt.Sprintf("%q", s), fmt.Sprintf("%v", []byte(s)), coqValues(el2)})
			}
			add("SToString", "SToString %s (Ok %s)", coqValue(v), coqValue(g.VerifConvert(v, 64)))
		}
		// --- operators: against a related string ------------------------------
		for t := 0; t < 4; t++ {
			var o string
			switch r.intn(6) {
			case 0:
				o = s
			case 1:
				o = s[:r.intn(l+1)]
			case 2:
				o = s + pick(r, c13Classes).gen(r)
			case 3:
				if l > 0 {
					b := []byte(s)
					i := r.intn(l)
					b[i] = byte(int(b[i]) + pick(r, []int{1, -1, 128, 64}))
					o = string(b)
				}
			case 4:
				if len(pool) > 0 {
					o = pick(r, pool)
				}
			default:
				o, _ = genC13String(r)
			}
			a, b := v, g.String(o)
			if r.chance(50) {
				a, b = b, a
			}
			for _, op := range []struct {
				name string
				n    int
			}{{"ADD", 0}, {"LT", 10}, {"LTE", 11}, {"EQ", 12}, {"NEQ", 13}} {
				ca, cb := coqValue(a), coqValue(b)
				var rv g.Value
				p := caught13(func() { rv = g.VerifBinOp(op.name, a, b) })
				add("SBin "+op.name, "SBin %d %s %s %s %s %s", op.n, ca, cb, coqResStr(p, coqValue(rv)), coqBytes(a.String()), coqBytes(b.String()))
			}
			sa, sb2 := a.String(), b.String()
			add("GCmp", "GCmp %s %s %v %v %v", coqBytes(sa), coqBytes(sb2), sa < sb2, sa <= sb2, sa == sb2)
		}
		pool = append(pool, s)
		if len(pool) > 40 {
			pool = pool[1:]
		}

		// --- exec loop (do.go) ------------------------------------------------
		for _, i := range idxChoices(l)[:6] {
			k := keyOf(i)
			add("XGet", "XGet %s %s %s", sb, coqValue(k), top(exec([][4]int{{code["GET"], 0, 0, 0}}, []g.Value{v, k})))
			if i >= 0 && i < 1<<16 {
				add("XFastGetInt", "XFastGetInt %s %d %s", sb, i, top(exec([][4]int{{code["FASTGETINT"], 0, i, 0}}, []g.Value{v})))
			}
		}
		add("XLen", "XLen %s %s", sb, top(exec([][4]int{{code["LEN"], 0, 0, 0}}, []g.Value{v})))
		for t := 0; t < 8; t++ {
			ch := idxChoices(l)
			i, j := pick(r, ch[:8]), pick(r, ch[:8])
			if r.chance(60) && i > j {
				i, j = j, i
			}
			ka, kb := keyOf(i), keyOf(j)
			if r.chance(35) {
				kb = g.Nil()
			}
			add("XSlice", "XSlice %s %s %s %s", sb, coqValue(ka), coqValue(kb), top(exec([][4]int{{code["SLICE"], 0, 0, 0}}, []g.Value{v, ka, kb})))
		}
		{
			ins := [][4]int{{code["RANGE"], 0, 2, 0}, {code["LOCALGET"], 1, 0, 0}, {code["LOCALGET"], 2, 0, 0}, {code["ITER"], 0, joinParamsC13(1, 2), -3}}
			out, p := exec(ins, []g.Value{g.Nil(), g.Nil(), g.Nil(), v})
			if p || len(out) < 3 || (len(out)-3)%2 != 0 {
				st.mismatchG("exec range loop", c13Direct{"exec range loop", fmt.Sprintf("%q", s), "loop runs to completion", fmt.Sprintf("panicked=%v stack=%d", p, len(out))})
			} else {
				var vis []string
				for i := 3; i+1 < len(out); i += 2 {
					vis = append(vis, "("+coqValue(out[i])+", "+coqValue(out[i+1])+")")
				}
				add("XRange", "XRange %s [%s]", sb, strings.Join(vis, "; "))
			}
		}
		for _, x := range []int64{0, 0x41, 0x7f, 0x80, 0xe9, 0x7ff, 0x800, 0xd7ff, 0xd800, 0xdfff, 0xe000, 0xfffd, 0xffff, 0x10000, 0x10ffff, 0x110000, -1, 1<<31 - 1, -(1 << 31), int64(r.intn(0x110000)), int64(r.intn(0x110000))}[r.intn(8):][:13] {
			var nv g.Value
			switch r.intn(5) {
			case 0:
				nv = g.VerifNewUntyped(int(x))
			case 1:
				nv = g.Uint8(uint8(x))
			case 2:
				nv = g.Uint32(uint32(x))
			case 3:
				nv = g.Int8(int8(x))
			default:
				nv = g.Int32(int32(x))
			}
			var rv g.Value
			p := caught13(func() { rv = g.VerifConvert(nv, 64) })
			add("SToString", "SToString %s %s", coqValue(nv), coqResStr(p, coqValue(rv)))
			// native oracle: string(x) of an integer value is the UTF-8 encoding of rune(x) (U+FFFD when x is no rune)
			if want := string(rune(int32(g.VerifNum(nv)))); g.VerifTag(nv) != g.VerifTag(g.Uint32(0)) || g.VerifNum(nv) < (1<<31) {
				if g.VerifTag(nv) == g.VerifTag(g.Uint32(0)) {
					want = string(rune(uint32(g.VerifNum(nv))))
				}
				if p || rv.String() != want {
					st.mismatchG("string(integer)", c13Direct{"string(x) for an integer x", fmt.Sprintf("x = %v (tag %d)", g.VerifNum(nv), g.VerifTag(nv)), fmt.Sprintf("%q % x", want, want), fmt.Sprintf("panic=%v %q % x", p, rv.String(), rv.String())})
				}
			}
			add("XConvert", "XConvert %s %s", coqValue(nv), top(exec([][4]int{{code["CONVERT"], 64, 0, 0}}, []g.Value{nv})))
			rr := rune(int32(x))
			add("GEncode", "GEncode %s %s", coqZ(int64(rr)), coqBytes(string(rr)))
		}
		{
			dn := r.intn(l + 3)
			var dv []g.Value
			for i := 0; i < dn; i++ {
				dv = append(dv, g.Uint8(uint8(r.intn(256))))
			}
			dst := g.NewSlice(g.Type(3), dv)
			before := coqValues(sliceElems(dst))
			_, p := exec([][4]int{{code["COPY"], 0, 0, 0}}, []g.Value{dst, v})
			add("XCopy", "XCopy %s %s %s %s", before, sb, coqResStr(p, coqValues(sliceElems(dst))), coqBytes(v.String()))
			// native copy
			nd := make([]byte, dn)
			for i := range nd {
				nd[i] = byte(r.intn(256))
			}
			ndBefore := coqBytes(string(nd))
			copy(nd, s)
			add("GCopy", "GCopy %s %s %s", ndBefore, sb, coqBytes(string(nd)))
		}

		// --- the Go runtime: validation of the specification -------------------
		{
			var pairs []string
			var runes []int64
			for i, x := range s {
				pairs = append(pairs, fmt.Sprintf("(%d, %d)", i, x))
				runes = append(runes, int64(x))
			}
			add("GRange", "GRange %s [%s]", sb, strings.Join(pairs, "; "))
			rs := []rune(s)
			if len(rs) != len(runes) {
				must(fmt.Errorf("[]rune and range disagree on %q", s))
			}
			add("GRunes", "GRunes %s %s %v", sb, coqZs(runes), utf8.ValidString(s))
			for off := 0; off <= l; off++ {
				if off > 0 && off < l && !r.chance(60) {
					continue
				}
				x, w := utf8.DecodeRuneInString(s[off:])
				add("GDecode", "GDecode %s %d %d", coqBytes(s[off:]), x, w)
			}
			for _, i := range idxChoices(l)[:8] {
				var b byte
				p := caught13(func() { b = s[i] })
				add("GIndex", "GIndex %s %s %s", sb, coqZ(int64(i)), coqResStr(p, fmt.Sprint(b)))
			}
			for t := 0; t < 6; t++ {
				ch := idxChoices(l)
				i, j := pick(r, ch[:8]), pick(r, ch[:8])
				if r.chance(60) && i > j {
					i, j = j, i
				}
				var sub string
				p := caught13(func() { sub = s[i:j] })
				add("GSlice", "GSlice %s %s %s %s", sb, coqZ(int64(i)), coqZ(int64(j)), coqResStr(p, coqBytes(sub)))
			}
		}
	}
	// exhaustive small sweep of the decoder against the Go runtime: every lead byte with
	// boundary second bytes (one-off, independent of n)
	for b0 := 0; b0 < 256; b0++ {
		for _, b1 := range []int{0x00, 0x7f, 0x80, 0x8f, 0x90, 0x9f, 0xa0, 0xbf, 0xc0, 0xff} {
			for _, tail := range []string{"", "\x80\x80", "\xbf\x7f"} {
				s := string([]byte{byte(b0), byte(b1)}) + tail
				x, w := utf8.DecodeRuneInString(s)
				add("GDecode sweep", "GDecode %s %d %d", coqBytes(s), x, w)
			}
		}
		s := string([]byte{byte(b0)})
		x, w := utf8.DecodeRuneInString(s)
		add("GDecode sweep", "GDecode %s %d %d", coqBytes(s), x, w)
	}
	{
		x, w := utf8.DecodeRuneInString("")
		add("GDecode sweep", "GDecode [] %d %d", x, w)
	}
	for k, v := range kinds {
		st.Histogram["case:"+k] = v
	}
	st.Extra["case_total"] = len(cases)
	files := writeCases(dir, "cases_C13", "From Coq Require Import ZArith List Floats.\nFrom GV Require Import GoSpec.GoPrim Model.CorrC13.\nImport ListNotations.\nOpen Scope Z_scope.\n", "cmismatches", cases, 1500)
	st.Extra["files"] = files
	st.write(dir + "/C13_corr_stats.json")
}

// ---------------------------------------------------------------------------
// C13 system level: generated Go programs over string, raw-string and character
// literals of every spelling; the oracle is the Go toolchain (diffProgram).

type litPiece struct {
	kind string
	src  string // spelling inside the literal
	val  string // bytes denoted
}

const bsl = `\`

var simpleEscapes = []litPiece{
	{`\a`, `\a`, "\a"}, {`\b`, `\b`, "\b"}, {`\f`, `\f`, "\f"}, {`\n`, `\n`, "\n"}, {`\r`, `\r`, "\r"},
	{`\t`, `\t`, "\t"}, {`\v`, `\v`, "\v"}, {`\\`, `\\`, "\\"},
}

var directRunes = []string{"é", "ß", "世", "界", "€", "😀", "𝄞", "�"}

// interpreted-string piece of the given kind
func interpPiece(r *rng, kind string) litPiece {
	switch kind {
	case "plain":
		for {
			c := byte(r.rangeI(0x20, 0x7e))
			if c != '"' && c != '\\' {
				return litPiece{"plain", string(c), string(c)}
			}
		}
	case "utf8-direct":
		x := pick(r, directRunes)
		return litPiece{"utf8-direct", x, x}
	case "comment-like":
		x := pick(r, []string{"//", "/*", "*/", "/* c */", "`", ";", "{", "}", "%d"})
		return litPiece{"comment-like / delimiter text", x, x}
	case "simple":
		return pick(r, simpleEscapes)
	case `\"`:
		return litPiece{`\"`, `\"`, `"`}
	case "'":
		return litPiece{"' in string", "'", "'"}
	case `\x`:
		b := byte(r.intn(256))
		if r.chance(30) {
			b = pick(r, []byte{0, 0x7f, 0x80, 0xbf, 0xc0, 0xc3, 0xe4, 0xed, 0xf0, 0xf4, 0xff})
		}
		f := pick(r, []string{`\x%02x`, `\x%02X`})
		return litPiece{`\x`, fmt.Sprintf(f, b), string([]byte{b})}
	case `\ooo`:
		b := byte(r.intn(256))
		if r.chance(30) {
			b = pick(r, []byte{0, 7, 0o77, 0o100, 0o177, 0o200, 0o377})
		}
		return litPiece{`\ooo`, fmt.Sprintf(`\%03o`, b), string([]byte{b})}
	case "u4":
		x := pick(r, []rune{0, 0x41, 0x7f, 0x80, 0xe9, 0x7ff, 0x800, 0xd7ff, 0xe000, 0xfffd, 0xffff, rndRune(r, 0, 0xffff)})
		f := pick(r, []string{"u%04x", "u%04X"})
		return litPiece{bsl + "uHHHH", bsl + fmt.Sprintf(f, x), string(x)}
	default: // U8
		x := pick(r, []rune{0x41, 0xe9, 0x4e16, 0x10000, 0x1f600, 0x10ffff, rndRune(r, 0, 0x10ffff)})
		f := pick(r, []string{"U%08x", "U%08X"})
		return litPiece{bsl + "UHHHHHHHH", bsl + fmt.Sprintf(f, x), string(x)}
	}
}

var interpKinds = []string{"plain", "plain", "utf8-direct", "comment-like", "simple", `\"`, "'", `\x`, `\x`, `\ooo`, "u4", "U8"}

func rawPiece(r *rng, kind string) litPiece {
	switch kind {
	case "plain":
		for {
			c := byte(r.rangeI(0x20, 0x7e))
			if c != '`' {
				return litPiece{"raw plain", string(c), string(c)}
			}
		}
	case "backslash":
		x := pick(r, []string{`\`, `\n`, `\x41`, `\\`, `\"`, bsl + "u00e9", `\'`, `\0`})
		return litPiece{"raw backslash", x, x}
	case "quote":
		x := pick(r, []string{`"`, `'`, `""`})
		return litPiece{"raw quote", x, x}
	case "comment-like":
		x := pick(r, []string{"//", "/*", "*/", "/* c */", ";", "{", "}", "%d"})
		return litPiece{"raw comment-like / delimiter text", x, x}
	case "newline":
		return litPiece{"raw newline", "\n", "\n"}
	case "tab":
		return litPiece{"raw tab", "\t", "\t"}
	case "cr":
		return litPiece{"raw carriage-return (discarded)", "\r", ""}
	default:
		x := pick(r, directRunes)
		return litPiece{"raw utf8-direct", x, x}
	}
}

var rawKinds = []string{"plain", "plain", "backslash", "backslash", "quote", "comment-like", "newline", "tab", "utf8"}

type c13Lit struct {
	src   string
	val   string
	kinds []string
}

// genLit builds a string literal; all=true uses every piece kind at least once.
func genLit(r *rng, raw, all bool) c13Lit {
	var l c13Lit
	var sb, vb strings.Builder
	put := func(p litPiece) {
		sb.WriteString(p.src)
		vb.WriteString(p.val)
		l.kinds = append(l.kinds, p.kind)
	}
	if raw {
		if all {
			for _, k := range []string{"plain", "backslash", "quote", "comment-like", "newline", "tab", "utf8", "backslash", "cr", "plain"} {
				put(rawPiece(r, k))
			}
		} else {
			for i, n := 0, r.intn(7); i < n; i++ {
				k := pick(r, rawKinds)
				if r.chance(4) {
					k = "cr"
				}
				put(rawPiece(r, k))
			}
		}
		l.src, l.val = "`"+sb.String()+"`", vb.String()
		if len(l.kinds) == 0 {
			l.kinds = []string{"raw empty"}
		}
		return l
	}
	if all {
		for _, p := range simpleEscapes {
			put(p)
		}
		for _, k := range []string{"plain", "utf8-direct", "comment-like", `\"`, "'", `\x`, `\ooo`, "u4", "U8", `\x`, "plain"} {
			put(interpPiece(r, k))
		}
	} else {
		for i, n := 0, r.intn(8); i < n; i++ {
			put(interpPiece(r, pick(r, interpKinds)))
		}
	}
	l.src, l.val = `"`+sb.String()+`"`, vb.String()
	if len(l.kinds) == 0 {
		l.kinds = []string{"interpreted empty"}
	}
	return l
}

type charLit struct{ kind, src string }

var charLits = []charLit{
	{"char plain", `'a'`}, {"char plain", `'~'`}, {"char plain", `' '`}, {"char plain", `'0'`},
	{"char utf8-direct", `'é'`}, {"char utf8-direct", `'世'`}, {"char utf8-direct", `'😀'`},
	{`char \a`, `'\a'`}, {`char \b`, `'\b'`}, {`char \f`, `'\f'`}, {`char \n`, `'\n'`}, {`char \r`, `'\r'`},
	{`char \t`, `'\t'`}, {`char \v`, `'\v'`}, {`char \\`, `'\\'`}, {`char \'`, `'\''`}, {`char "`, `'"'`},
	{`char \x`, `'\x41'`}, {`char \x`, `'\xff'`}, {`char \x`, `'\x00'`}, {`char \x`, `'\x7F'`},
	{`char \ooo`, `'\101'`}, {`char \ooo`, `'\000'`}, {`char \ooo`, `'\377'`}, {`char \ooo`, `'\047'`},
	{"char " + bsl + "uHHHH", `'` + bsl + `u00e9'`}, {"char " + bsl + "uHHHH", `'` + bsl + `uffff'`},
	{"char " + bsl + "uHHHH", `'` + bsl + `u4E16'`}, {"char " + bsl + "uHHHH", `'` + bsl + `u0027'`},
	{"char " + bsl + "UHHHHHHHH", `'\U0001F600'`}, {"char " + bsl + "UHHHHHHHH", `'\U0010ffff'`}, {"char " + bsl + "UHHHHHHHH", `'\U00000041'`},
}

const c13Show = `func show(tag int, s string) {
	fmt.Println(tag, "len", len(s))
	for i := 0; i < len(s); i++ {
		fmt.Println(tag, "byte", i, s[i])
	}
	for i, r := range s {
		fmt.Println(tag, "range", i, r, len(string(r)))
	}
	n := 0
	for i := range s {
		n += i + 1
	}
	var m int = 0
	for _, r := range s {
		m += int(r) % 1000
	}
	fmt.Println(tag, "sums", n, m)
	b := []byte(s)
	fmt.Println(tag, "bytes", len(b), b)
	for i := 0; i < len(b); i++ {
		if b[i] != s[i] {
			fmt.Println(tag, "DIFF", i)
		}
	}
	fmt.Println(tag, "roundtrip", string(b) == s, string([]byte(string(b))) == s, len(string(b)))
	fmt.Println(tag, "text", s)
}

func grow(s string, n int) string {
	for i := int(0); i < n; i++ {
		s += "+"
	}
	s = s[1:]
	return s
}

`

func genC13Program(r *rng, c int, hist map[string]int) string {
	var sb strings.Builder
	line := func(format string, args ...any) {
		sb.WriteString("\t")
		fmt.Fprintf(&sb, format, args...)
		sb.WriteString("\n")
	}
	sb.WriteString("package main\n\nimport \"fmt\"\n\n")
	sb.WriteString(c13Show)
	all := c == 0
	nl := 3 + r.intn(3)
	var lits []c13Lit
	for i := 0; i < nl; i++ {
		raw := i%2 == 1
		if !all && i >= 2 {
			raw = r.chance(35)
		}
		l := genLit(r, raw, all && i < 2)
		lits = append(lits, l)
		for _, k := range l.kinds {
			hist["spelling:"+k]++
		}
	}
	// a string with arbitrary (mostly invalid UTF-8) content built from bytes
	inv, _ := genC13String(r)
	var bl []string
	for i := 0; i < len(inv); i++ {
		bl = append(bl, fmt.Sprintf(pick(r, []string{"%d", "0x%02x"}), inv[i]))
	}
	hist["construct:string([]byte{...})"]++
	if r.chance(50) {
		fmt.Fprintf(&sb, "const k0 = %s\n\n", lits[0].src)
		hist["construct:const string"]++
	} else {
		fmt.Fprintf(&sb, "var k0 = %s\n\n", lits[0].src)
		hist["construct:global var string"]++
	}
	sb.WriteString("func main() {\n")
	for i, l := range lits {
		line("s%d := %s", i, l.src)
	}
	line("sb := string([]byte{%s})", strings.Join(bl, ", "))
	vals := []string{}
	names := []string{}
	for i, l := range lits {
		vals = append(vals, l.val)
		names = append(names, fmt.Sprintf("s%d", i))
	}
	vals = append(vals, inv)
	names = append(names, "sb")
	for i, nm := range names {
		line("show(%d, %s)", i, nm)
	}
	line("fmt.Println(\"k0\", len(k0), k0 == s0, k0 < s1, k0+s1 == s0+s1)")
	// indexing and slicing with constants and variables
	for t := 0; t < 6; t++ {
		k := r.intn(len(names))
		nm, v := names[k], vals[k]
		l := len(v)
		i := r.intn(l + 1)
		j := i + r.intn(l-i+1)
		hist["construct:slice"]++
		switch r.intn(5) {
		case 0:
			line("fmt.Println(\"slice\", %d, len(%s[%d:%d]), %s[%d:%d], %s[%d:], %s[:%d], %s[:])", t, nm, i, j, nm, i, j, nm, i, nm, j, nm)
		case 1:
			line("i%d, j%d := %d, %d", t, t, i, j)
			line("fmt.Println(\"vslice\", %d, %s[i%d:j%d], len(%s[i%d:]), %s[:j%d], %s[i%d:] == %s[i%d:len(%s)])", t, nm, t, t, nm, t, nm, t, nm, t, nm, t, nm)
		case 2:
			line("t%d := %s[%d:]", t, nm, i)
			line("fmt.Println(\"reslice\", %d, len(t%d), t%d[:%d], t%d == %s[%d:], %s)", t, t, t, j-i, t, nm, i, nm)
		case 3:
			if l > 0 {
				i = r.intn(l)
				line("x%d := %s[%d]", t, nm, i)
				line("x%d += 200", t)
				line("fmt.Println(\"bytearith\", %d, %s[%d], x%d, %s[%d] == %s[%d:%d][0], %s[%d] < 128)", t, nm, i, t, nm, i, nm, i, i+1, nm, i)
				hist["construct:byte arithmetic"]++
			}
		default:
			line("u%d := %s[%d:%d]", t, nm, i, j)
			line("fmt.Println(\"subrange\", %d, len(u%d))", t, t)
			line("for p, q := range u%d {", t)
			line("\tfmt.Println(\"sub\", p, q)")
			line("}")
			hist["construct:range over a sliced string"]++
		}
	}
	// comparisons: pairs incl. a string with itself, a prefix and an extension
	for t := 0; t < 4; t++ {
		a, b := pick(r, names), pick(r, names)
		switch r.intn(4) {
		case 0:
			b = a
		case 1:
			k := r.intn(len(names))
			a = names[k]
			b = fmt.Sprintf("%s[:%d]", a, r.intn(len(vals[k])+1))
		case 2:
			b = fmt.Sprintf("(%s + %s)", a, pick(r, []string{`"a"`, `"\x00"`, `"\xff"`, `""`, "`z`"}))
		}
		line("fmt.Println(\"cmp\", %d, %s < %s, %s <= %s, %s == %s, %s != %s, %s > %s, %s >= %s)", t, a, b, a, b, a, b, a, b, a, b, a, b)
		hist["construct:comparison"]++
	}
	// concatenation; operands unchanged afterwards
	{
		ka, kb := r.intn(len(names)), r.intn(len(names))
		a, b := names[ka], names[kb]
		line("c := %s + %s", a, b)
		line("fmt.Println(\"cat\", len(c), c == %s+%s, c[:len(%s)] == %s, c[len(%s):] == %s)", a, b, a, a, a, b)
		line("d := %s", a)
		line("d += %s", b)
		line("d += \"!\"")
		line("fmt.Println(\"pluseq\", d == c+\"!\", len(d), len(%s), len(%s))", a, b)
		line("e := \"\"")
		line("for i := 0; i < 3; i++ {")
		line("\te = e + %s + \"|\"", a)
		line("}")
		line("fmt.Println(\"loopcat\", len(e), e)")
		line("show(%d, %s)", 100+ka, a)
		line("show(%d, %s)", 100+kb, b)
		line("show(200, c)")
		hist["construct:concatenation, operands re-shown"]++
	}
	// values are immutable: reassigning or growing a variable never changes a string that was
	// copied, passed, stored or is being ranged over
	{
		k := r.intn(len(names))
		nm := names[k]
		line("w := %s + \"ab\"", nm)
		line("g := grow(w, 2)")
		line("fmt.Println(\"arg\", len(w), len(g), w == %s+\"ab\", g == w[1:]+\"++\")", nm)
		line("steps := 0")
		line("for p, q := range w {")
		line("\tw += \"x\"")
		line("\tw = w[1:]")
		line("\tsteps++")
		line("\tfmt.Println(\"ranging\", p, q, len(w))")
		line("}")
		line("fmt.Println(\"ranged\", steps, len(w))")
		line("arr := []string{%s, %s}", nm, pick(r, names))
		line("cp := arr[0]")
		line("arr[0] += \"#\"")
		line("arr[1] = arr[0][1:]")
		line("fmt.Println(\"elems\", cp == %s, arr[0] == %s+\"#\", len(arr[1]), len(cp), len(%s))", nm, nm, nm)
		line("switch cp {")
		line("case %s + \"#\":", nm)
		line("\tfmt.Println(\"switch\", 1)")
		line("case %s:", nm)
		line("\tfmt.Println(\"switch\", 2)")
		line("default:")
		line("\tfmt.Println(\"switch\", 3)")
		line("}")
		hist["construct:immutability (argument, range while reassigning, slice element, switch)"]++
	}
	// character literals
	{
		var cs []string
		if all {
			for _, cl := range charLits {
				cs = append(cs, cl.src)
				hist["spelling:"+cl.kind]++
			}
		} else {
			for i := 0; i < 6; i++ {
				cl := pick(r, charLits)
				cs = append(cs, cl.src)
				hist["spelling:"+cl.kind]++
			}
		}
		for i := 0; i < len(cs); i += 8 {
			line("fmt.Println(\"char\", %s)", strings.Join(cs[i:minInt(i+8, len(cs))], ", "))
		}
		cl := pick(r, charLits)
		hist["spelling:"+cl.kind]++
		line("r0 := %s", cl.src)
		line("fmt.Println(\"charvar\", r0, string(r0), len(string(r0)), []byte(string(r0)), string(%s) == string(r0))", cl.src)
		cl2 := pick(r, charLits)
		hist["spelling:"+cl2.kind]++
		line("fmt.Println(\"charcmp\", %s < %s, %s == %s, r0 == %s, \"x\"+string(%s))", cl.src, cl2.src, cl.src, cl2.src, cl.src, cl2.src)
		k := r.intn(len(names))
		if len(vals[k]) > 0 {
			i := r.intn(len(vals[k]))
			line("fmt.Println(\"bytechar\", %s[%d] == 'a', %s[%d] == %d, %s[%d] != '\\n')", names[k], i, names[k], i, vals[k][i], names[k], i)
		}
	}
	// string(rune(x)) for run-time values
	{
		xs := []int{0, 0x41, 0x7f, 0x80, 0x7ff, 0x800, 0xd7ff, 0xd800, 0xdfff, 0xe000, 0xfffd, 0xffff, 0x10000, 0x10ffff, 0x110000, -1, r.intn(0x110000), r.intn(0x800)}
		line("xs := []int{%s}", strings.Trim(strings.Join(strings.Fields(fmt.Sprint(xs)), ", "), "[]"))
		line("for _, x := range xs {")
		line("\tq := string(rune(x))")
		line("\tfmt.Println(\"rune\", x, len(q), []byte(q), q)")
		line("\tfor p, w := range q {")
		line("\t\tfmt.Println(\"back\", p, w)")
		line("\t}")
		line("}")
		hist["construct:string(rune(x))"]++
	}
	// copy into a byte slice; the source stays as it was; []byte(s) does not alias s
	{
		k := r.intn(len(names))
		n := r.intn(len(vals[k]) + 3)
		line("buf := make([]byte, %d)", n)
		line("copy(buf, %s)", names[k])
		line("fmt.Println(\"copy\", buf, string(buf), len(%s))", names[k])
		line("bs := []byte(%s)", names[k])
		line("if len(bs) > 0 {")
		line("\tbs[0] = 'Z'")
		line("}")
		line("fmt.Println(\"aliasing\", string(bs), %s)", names[k])
		hist["construct:copy, []byte mutation does not alias"]++
	}
	// a final statement that panics in Go (every third program)
	if c%3 == 2 {
		k := r.intn(len(names))
		nm, l := names[k], len(vals[k])
		switch r.intn(6) {
		case 0:
			line("p := len(%s)", nm)
			line("fmt.Println(\"panic index len\", %s[p])", nm)
			hist["panic:index == len"]++
		case 1:
			line("p := 0")
			line("p--")
			line("fmt.Println(\"panic index -1\", %s[p])", nm)
			hist["panic:index -1"]++
		case 2:
			line("p := len(%s) + 1", nm)
			line("fmt.Println(\"panic slice high\", %s[:p])", nm)
			hist["panic:slice j > len"]++
		case 3:
			line("p, q := %d, %d", l+1, l+1)
			line("fmt.Println(\"panic slice low\", %s[p:], q)", nm)
			hist["panic:slice i > len (omitted upper bound)"]++
		case 4:
			line("p, q := 1, 0")
			line("fmt.Println(\"panic slice inverted\", (%s + \"ab\")[p:q])", nm)
			hist["panic:slice i > j"]++
		default:
			line("p := 0")
			line("p--")
			line("fmt.Println(\"panic slice -1\", %s[0:p])", nm)
			hist["panic:slice upper -1"]++
		}
	}
	sb.WriteString("}\n")
	return sb.String()
}

// genRuneSliceProgram: conversions between strings and []rune.
func genRuneSliceProgram(r *rng) string {
	var sb strings.Builder
	sb.WriteString("package main\n\nimport \"fmt\"\n\nfunc main() {\n")
	var lit strings.Builder
	for i, n := 0, 1+r.intn(5); i < n; i++ {
		lit.WriteString(pick(r, append([]string{"a", "z", "0"}, directRunes...)))
	}
	fmt.Fprintf(&sb, "\ts := \"%s\"\n", lit.String())
	sb.WriteString("\tr := []rune(s)\n\tfmt.Println(\"runes\", len(r), r)\n\tfor i, c := range r {\n\t\tfmt.Println(i, c)\n\t}\n\tfmt.Println(\"back\", string(r) == s)\n")
	var qs []string
	for i, n := 0, 1+r.intn(5); i < n; i++ {
		qs = append(qs, fmt.Sprint(int(pick(r, []rune{0x41, 0xe9, 0x7ff, 0x800, 0x4e16, 0xffff, 0x1f600, 0x10ffff, rndRune(r, 0x80, 0x10ffff)}))))
	}
	fmt.Fprintf(&sb, "\tq := []rune{%s}\n\tt := string(q)\n\tfmt.Println(\"string\", len(t), t, []byte(t))\n\tfor i, c := range t {\n\t\tfmt.Println(i, c)\n\t}\n}\n", strings.Join(qs, ", "))
	return sb.String()
}

func cmdC13Script(seed uint64, n int, dir string) {
	r := newRng(seed)
	st := newStats()
	hist := map[string]int{}
	for c := 0; c < n; c++ {
		src := genC13Program(r, c, hist)
		grp := "string-program"
		if c%3 == 2 {
			grp = "string-program ending in a run-time panic"
		}
		st.add(grp, fmt.Sprintf("program %d: %d lines", c, strings.Count(src, "\n")))
		if d := os.Getenv("C13_DUMP"); d != "" { // keep the generated programs for inspection
			must(os.WriteFile(fmt.Sprintf("%s/c13_prog_%d.go", d, c), []byte(src), 0o644))
		}
		diffProgram(st, grp, src)
		if c%25 == 0 {
			src := genRuneSliceProgram(r)
			grp := "rune-slice conversion ([]rune(s), string([]rune{...}))"
			st.add(grp, fmt.Sprintf("rune-slice program after %d: %d lines", c, strings.Count(src, "\n")))
			if d := os.Getenv("C13_DUMP"); d != "" {
				must(os.WriteFile(fmt.Sprintf("%s/c13_runes_%d.go", d, c), []byte(src), 0o644))
			}
			diffProgram(st, grp, src)
		}
	}
	for k, v := range hist {
		st.Histogram[k] = v
	}
	c13LiteralOracle(st, newRng(seed^0xC13117), 300+10*n) // c13lit.go: native oracle (strconv.Unquote / UnquoteChar), no toolchain needed
	c13ConcatImmutability(st, newRng(seed^0xC13CA7), 60+2*n) // c13cat.go
	st.write(dir + "/C13_script_stats.json")
}
