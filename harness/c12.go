package main

import (
	"fmt"
	"strings"
	"testing/fstest"

	g "github.com/philhassey/goatlang"
)

// C12 correspondence: histories on the real intMap (hook VerifIntMap) with
// every Get/Len answer and the final table recorded for the Coq model.

func optValCoq(v g.Value, ok bool) string {
	if !ok {
		return "None"
	}
	return "(Some " + coqValue(v) + ")"
}

func cmdC12Corr(seed uint64, n int, dir string) {
	r := newRng(seed)
	st := newStats()
	var cases []string
	for c := 0; c < n; c++ {
		alloc := pick(r, []int{0, 0, 1, 4, 7, 8, 9, 20, 40})
		m := g.VerifNewIntMap(alloc)
		oracle := map[int]g.Value{} // the finite map the table must behave like
		var trace []string
		bad := ""
		// key pool: several keys per home slot so that probe chains, swaps and wrap-around occur
		var pool []int
		stride := pick(r, []int{1, 16, 32, 64, 3, 17})
		base := r.intn(64)
		np := 4 + r.intn(40)
		for i := 0; i < np; i++ {
			switch r.intn(4) {
			case 0:
				pool = append(pool, base+i*stride)
			case 1:
				pool = append(pool, 15+16*r.intn(6)) // end of table: wrap-around
			case 2:
				pool = append(pool, r.intn(400))
			default:
				pool = append(pool, base+16*r.intn(8))
			}
		}
		nops := 5 + r.intn(120)
		delPct := pick(r, []int{5, 20, 45})
		var ops []string
		shape := map[string]int{}
		for i := 0; i < nops; i++ {
			k := pick(r, pool)
			x := r.intn(100)
			switch {
			case x < delPct:
				m.Delete(k)
				delete(oracle, k)
				trace = append(trace, fmt.Sprintf("delete %d", k))
				ops = append(ops, fmt.Sprintf("IDel %d", k))
				shape["del"]++
			case x < delPct+35:
				v := g.Int32(int32(r.intn(1000)))
				if r.chance(20) {
					v = g.Float64(float64(r.intn(10)) + 0.5)
				}
				m.Set(k, v)
				oracle[k] = v
				trace = append(trace, fmt.Sprintf("set %d=%s", k, v.String()))
				ops = append(ops, fmt.Sprintf("ISet %d %s", k, coqValue(v)))
				shape["set"]++
			case x < delPct+50:
				v := g.VerifNewUntyped(r.intn(300))
				m.Assign(k, v)
				if old, ok := oracle[k]; ok {
					oracle[k] = g.VerifAssign(v, g.VerifTag(old))
				}
				trace = append(trace, fmt.Sprintf("assign %d=%s", k, v.String()))
				ops = append(ops, fmt.Sprintf("IAssign %d %s", k, coqValue(v)))
				shape["assign"]++
			case x < delPct+55:
				ops = append(ops, fmt.Sprintf("ILen %d", m.Len()))
				if m.Len() != len(oracle) && bad == "" {
					bad = fmt.Sprintf("Len = %d after [%s], a map holds %d keys", m.Len(), strings.Join(trace, "; "), len(oracle))
				}
				shape["len"]++
			default:
				v, ok := m.Get(k)
				ops = append(ops, fmt.Sprintf("IGet %d %s", k, optValCoq(v, ok)))
				ev, eok := oracle[k]
				if (ok != eok || (ok && (g.VerifTag(v) != g.VerifTag(ev) || v.String() != ev.String()))) && bad == "" {
					bad = fmt.Sprintf("Get(%d) = (%s, %v) after [%s], a map gives (%s, %v)", k, v.String(), ok, strings.Join(trace, "; "), ev.String(), eok)
				}
				shape["get"]++
			}
		}
		if bad != "" {
			st.mismatchG("intmap-history", map[string]any{"kind": "field-table history (Set/Assign/Get/Delete/Len on the real intMap)", "what": bad, "alloc": alloc})
		}
		size, _, _, _, total := m.Params()
		dist, keys, vals := m.Dump()
		var cells []string
		maxd := 0
		for i := range dist {
			cells = append(cells, fmt.Sprintf("(%d, %s, %s)", dist[i], coqZ(int64(keys[i])), coqValue(vals[i])))
			if dist[i] > maxd {
				maxd = dist[i]
			}
		}
		cases = append(cases, fmt.Sprintf("CIMap %d [%s] %d %d [%s]", alloc, strings.Join(ops, "; "), size, total, strings.Join(cells, "; ")))
		st.add(fmt.Sprintf("size=%d maxdist=%d", size, minInt(maxd, 6)), fmt.Sprintf("alloc=%d ops=%d size=%d total=%d maxdist=%d %v", alloc, nops, size, total, maxd, shape))
	}
	files := writeCases(dir, "cases_C12", "From Coq Require Import ZArith List Floats.\nFrom GV Require Import GoSpec.GoPrim Model.CorrC12.\nImport ListNotations.\nOpen Scope Z_scope.\n", "imismatches", cases, 60)
	st.Extra["files"] = files
	st.write(dir + "/C12_corr_stats.json")
}

// ---------------------------------------------------------------------------
// C12 system level: struct programs against the Go toolchain.

func cmdC12Script(seed uint64, n int, dir string) {
	r := newRng(seed)
	st := newStats()
	ftypes := []string{"int", "int", "string", "float64", "bool", "uint8"}
	for c := 0; c < n; c++ {
		nfields := pick(r, []int{0, 1, 2, 5, 11, 12, 13, 24, 25, 26, 48, 49, 50, 96, 97, 150, 200})
		nmeth := pick(r, []int{0, 1, 3, 8, 20})
		var sb strings.Builder
		sb.WriteString("package main\n\nimport \"fmt\"\n\ntype S struct {\n")
		types := make([]string, nfields)
		for i := 0; i < nfields; i++ {
			types[i] = pick(r, ftypes)
			fmt.Fprintf(&sb, "\tf%d %s\n", i, types[i])
		}
		sb.WriteString("}\n\n")
		byType := map[string][]int{}
		for i, t := range types {
			byType[t] = append(byType[t], i)
		}
		for m := 0; m < nmeth; m++ {
			if len(byType["int"]) > 0 {
				f := pick(r, byType["int"])
				fmt.Fprintf(&sb, "func (s *S) m%d(a int) int {\n\ts.f%d += a\n\treturn s.f%d * 2\n}\n\n", m, f, f)
			} else {
				fmt.Fprintf(&sb, "func (s *S) m%d(a int) int {\n\treturn a + %d\n}\n\n", m, m)
			}
		}
		sb.WriteString("func bump(p *S, k int) {\n")
		if len(byType["int"]) > 0 {
			fmt.Fprintf(&sb, "\tp.f%d = p.f%d + k\n", byType["int"][0], byType["int"][0])
		}
		sb.WriteString("\t_ = k\n}\n\nfunc main() {\n")
		// instances and aliases
		vars := []string{"a", "b", "c"}
		lit := func() string {
			var parts []string
			for i := 0; i < nfields; i++ {
				if r.chance(8) {
					switch types[i] {
					case "int":
						parts = append(parts, fmt.Sprintf("f%d: %d", i, r.intn(100)))
					case "string":
						parts = append(parts, fmt.Sprintf("f%d: \"s%d\"", i, r.intn(9)))
					case "float64":
						parts = append(parts, fmt.Sprintf("f%d: %d.5", i, r.intn(9)))
					case "bool":
						parts = append(parts, fmt.Sprintf("f%d: true", i))
					case "uint8":
						parts = append(parts, fmt.Sprintf("f%d: %d", i, r.intn(256)))
					}
				}
			}
			return "&S{" + strings.Join(parts, ", ") + "}"
		}
		fmt.Fprintf(&sb, "\ta := %s\n\tb := %s\n\tc := a\n\t_, _, _ = a, b, c\n", lit(), lit())
		nops := 20 + r.intn(60)
		for i := 0; i < nops && nfields > 0; i++ {
			v := pick(r, vars)
			f := r.intn(nfields)
			switch r.intn(10) {
			case 0, 1, 2:
				switch types[f] {
				case "int":
					fmt.Fprintf(&sb, "\t%s.f%d = %d\n", v, f, r.intn(1000))
				case "string":
					fmt.Fprintf(&sb, "\t%s.f%d = \"v%d\"\n", v, f, r.intn(100))
				case "float64":
					fmt.Fprintf(&sb, "\t%s.f%d = %d.25\n", v, f, r.intn(100))
				case "bool":
					fmt.Fprintf(&sb, "\t%s.f%d = !%s.f%d\n", v, f, v, f)
				case "uint8":
					fmt.Fprintf(&sb, "\t%s.f%d = %d\n", v, f, r.intn(256))
				}
			case 3:
				switch types[f] {
				case "int":
					fmt.Fprintf(&sb, "\t%s.f%d += %d\n", v, f, r.intn(9)+1)
				case "uint8":
					fmt.Fprintf(&sb, "\t%s.f%d += %d\n", v, f, 100+r.intn(150))
				case "string":
					fmt.Fprintf(&sb, "\t%s.f%d += \"+\"\n", v, f)
				case "float64":
					fmt.Fprintf(&sb, "\t%s.f%d *= 2\n", v, f)
				default:
					fmt.Fprintf(&sb, "\t%s.f%d = true\n", v, f)
				}
			case 4:
				if nmeth > 0 {
					fmt.Fprintf(&sb, "\tfmt.Println(%s.m%d(%d))\n", v, r.intn(nmeth), r.intn(7))
				}
			case 5:
				fmt.Fprintf(&sb, "\tbump(%s, %d)\n", v, r.intn(5))
			case 6:
				if r.chance(30) {
					w := pick(r, vars)
					fmt.Fprintf(&sb, "\t%s = %s\n", v, w) // re-alias
				}
			default:
				g := r.intn(nfields)
				fmt.Fprintf(&sb, "\tfmt.Println(a.f%d, b.f%d, c.f%d, a.f%d)\n", f, f, f, g)
			}
		}
		// read every field of every instance at the end
		for i := 0; i < nfields; i++ {
			if i%7 == 0 || nfields < 30 {
				fmt.Fprintf(&sb, "\tfmt.Println(%d, a.f%d, b.f%d, c.f%d)\n", i, i, i, i)
			}
		}
		sb.WriteString("\tfmt.Println(a == c, a == b)\n}\n")
		src := sb.String()
		st.add(fmt.Sprintf("fields=%d methods=%d", nfields, nmeth), fmt.Sprintf("struct program: %d fields, %d methods, %d lines", nfields, nmeth, strings.Count(src, "\n")))
		diffProgram(st, "struct-program", src)
	}
	c12MethodGrowth(st, r)
	c12NilFields(st, r, 6)
	c12SharedMethodNames(st, r, 40+n/4)
	st.write(dir + "/C12_script_stats.json")
}

// c12MethodGrowth: methods attached AFTER instances exist (statement by statement through Eval, and by reloading a
// package with more methods on the same VM) are found on every instance made before, across every growth
// threshold of the method table (13, 25, 49, 97, 193 entries), and on instances made afterwards.  Expected values
// are computed here.
func c12MethodGrowth(st *stats, r *rng) {
	report := func(mode, what, exp, got, hist string) {
		st.mismatchG("c12|method-growth", map[string]any{"kind": "c12|method-growth", "mode": mode, "what": what, "expected": exp, "got": got, "history": hist})
	}
	for _, total := range []int{3, 12, 13, 14, 24, 25, 26, 48, 50, 97, 100, 200} {
		// (a) successive Evals on one VM
		vm := g.New()
		ev := func(src string) (string, error) {
			rets, err := vm.Eval(fstest.MapFS{}, "in", src)
			if err != nil {
				return "", err
			}
			var p []string
			for _, v := range rets {
				p = append(p, v.String())
			}
			return strings.Join(p, ","), nil
		}
		hist := "type T struct { k int }; old := &T{k: 7}"
		if _, err := ev("type T struct { k int }\nold := &T{k: 7}"); err != nil {
			report("eval", "setup", "no error", err.Error(), hist)
			continue
		}
		step := 1 + r.intn(4)
		for m := 0; m < total; {
			var sb strings.Builder
			for k := 0; k < step && m < total; k, m = k+1, m+1 {
				fmt.Fprintf(&sb, "func (t *T) m%d(a int) int { return t.k*1000 + a + %d }\n", m, m)
			}
			hist += fmt.Sprintf("; methods up to m%d", m-1)
			if _, err := ev(sb.String()); err != nil {
				report("eval", "declaring methods", "no error", err.Error(), hist)
				break
			}
			// every method declared so far, on the old instance and on a fresh one
			for _, q := range []int{0, m / 2, m - 1} {
				want := fmt.Sprint(7*1000 + 5 + q)
				got, err := ev(fmt.Sprintf("r := old.m%d(5); r", q))
				if err != nil {
					got = err.Error()
				}
				st.add("method growth", fmt.Sprintf("eval total=%d", total))
				if got != want {
					report("eval", fmt.Sprintf("old.m%d(5) after %d methods were declared (instance made before them)", q, m), want, got, hist)
				}
				want2 := fmt.Sprint(9*1000 + 5 + q)
				got2, err := ev(fmt.Sprintf("fresh := &T{k: 9}; r2 := fresh.m%d(5); r2", q))
				if err != nil {
					got2 = err.Error()
				}
				if got2 != want2 {
					report("eval", fmt.Sprintf("(&T{k: 9}).m%d(5) after %d methods were declared", q, m), want2, got2, hist)
				}
			}
		}
		// (b) reload with more methods while an old instance is alive in a global
		vm2 := g.New()
		src := func(n int) string {
			var sb strings.Builder
			sb.WriteString("package p\n\ntype T struct {\n\tk int\n}\n\nvar G *T\n\nfunc Make() int {\n\tG = &T{k: 7}\n\treturn 1\n}\n\n")
			for m := 0; m < n; m++ {
				fmt.Fprintf(&sb, "func (t *T) m%d(a int) int {\n\treturn t.k*1000 + a + %d\n}\n\n", m, m)
			}
			fmt.Fprintf(&sb, "func CallLast(a int) int {\n\treturn G.m%d(a)\n}\n\nfunc CallFirst(a int) int {\n\treturn G.m0(a)\n}\n", n-1)
			return sb.String()
		}
		first := 1 + r.intn(3)
		fs := fstest.MapFS{"p/a.go": &fstest.MapFile{Data: []byte(src(first))}}
		h2 := fmt.Sprintf("Load(%d methods); Make(); Load(%d methods)", first, total)
		if err := vm2.Load(fs, "p"); err != nil {
			report("reload", "first load", "no error", err.Error(), h2)
			continue
		}
		vm2.Call("p.Make", 1)
		fs["p/a.go"].Data = []byte(src(total))
		if err := vm2.Load(fs, "p"); err != nil {
			report("reload", "second load", "no error", err.Error(), h2)
			continue
		}
		for _, c := range []struct {
			fn   string
			want int
		}{{"p.CallLast", 7*1000 + 5 + total - 1}, {"p.CallFirst", 7*1000 + 5}} {
			rets, err := vm2.Call(c.fn, 1, g.Int(5))
			got := ""
			if err != nil {
				got = err.Error()
			} else {
				got = rets[0].String()
			}
			st.add("method growth", fmt.Sprintf("reload total=%d", total))
			if got != fmt.Sprint(c.want) {
				report("reload", c.fn+"(5) on the instance made before the reload", fmt.Sprint(c.want), got, h2)
			}
		}
	}
}

// c12NilFields: a field holds the last value stored, TYPED as declared -- also when that value is nil: nil stored
// into slice / map / pointer / func fields (through a local alias, a parameter, a receiver, a global, and a
// composite-literal initialiser), then uses that depend on the field's type (printing, len, append + arithmetic on
// the element, reading a missing map key, comparisons).  Compared with the Go toolchain.
func c12NilFields(st *stats, r *rng, n int) {
	for c := 0; c < n; c++ {
		var sb strings.Builder
		sb.WriteString("package main\n\nimport \"fmt\"\n\ntype N struct {\n\tid int\n}\n\ntype T struct {\n\tk  int\n\tfs []float64\n\tbs []uint8\n\tm  map[string]int\n\tp  *N\n\tfn func(int) int\n}\n\n")
		sb.WriteString("func inc(a int) int {\n\treturn a + 1\n}\n\nfunc viaParam(t *T) {\n\tt.fs = nil\n\tt.m = nil\n}\n\nfunc (t *T) viaRecv() {\n\tt.bs = nil\n\tt.p = nil\n\tt.fn = nil\n}\n\nvar G = &T{k: 1, fs: []float64{1.5}, bs: []uint8{200}, m: map[string]int{\"a\": 1}, p: &N{id: 3}, fn: inc}\n\n")
		sb.WriteString("func show(t *T) {\n\tfmt.Println(t.k, t.fs, len(t.fs), t.bs, len(t.bs), len(t.m), t.m[\"zz\"], t.p == nil, t.fn == nil)\n}\n\n")
		sb.WriteString("func use(t *T) {\n\tt.fs = append(t.fs, 1)\n\tt.bs = append(t.bs, 200)\n\tfmt.Println(t.fs[len(t.fs)-1]/2, t.bs[len(t.bs)-1]+100)\n\tif t.m == nil {\n\t\tt.m = map[string]int{}\n\t}\n\tt.m[\"q\"] += 2\n\tfmt.Println(t.m[\"q\"], len(t.m))\n}\n\n")
		sb.WriteString("func main() {\n\tt := &T{k: 2, fs: []float64{2.5, 3.5}, bs: []uint8{1, 2}, m: map[string]int{\"b\": 2}, p: &N{id: 4}, fn: inc}\n\tshow(t)\n\tshow(G)\n")
		steps := []string{"t.fs = nil", "t.bs = nil", "t.m = nil", "t.p = nil", "t.fn = nil", "viaParam(t)", "t.viaRecv()", "G.fs = nil", "G.m = nil", "viaParam(G)", "G.viaRecv()",
			"t = &T{k: 5, fs: nil, bs: nil, m: nil, p: nil, fn: nil}", "u := t\n\tu.fs = nil\n\tu.m = nil\n\t_ = u", "use(t)", "use(G)", "show(t)", "show(G)", "t.fs = []float64{4.5}", "t.m = map[string]int{\"c\": 3}"}
		for k := 0; k < 6+r.intn(8); k++ {
			sb.WriteString("\t" + pick(r, steps) + "\n")
		}
		sb.WriteString("\tshow(t)\n\tshow(G)\n\tuse(t)\n\tuse(G)\n\tshow(t)\n\tshow(G)\n}\n")
		src := sb.String()
		st.add("nil stored into typed fields", fmt.Sprintf("nil-field program %d", c))
		diffProgram(st, "c12|nil-field", src)
	}
}
