package main

import (
	"fmt"
	"strings"

	g "github.com/philhassey/goatlang"
)

// C12 correspondence: histories on the real intMap (hook VerifIntMap) with
// every Get/Len answer and the final table recorded for the Coq model.

func optValCoq(v g.Value, ok bool) string {
	if !ok {
		return "None"
	}
	return "(Some " + coqValue(v) + ")"
}

func cmdC12Corr(seed uint64, n int, dir string) {
	r := newRng(seed)
	st := newStats()
	var cases []string
	for c := 0; c < n; c++ {
		alloc := pick(r, []int{0, 0, 1, 4, 7, 8, 9, 20, 40})
		m := g.VerifNewIntMap(alloc)
		// key pool: several keys per home slot so that probe chains, swaps and wrap-around occur
		var pool []int
		stride := pick(r, []int{1, 16, 32, 64, 3, 17})
		base := r.intn(64)
		np := 4 + r.intn(40)
		for i := 0; i < np; i++ {
			switch r.intn(4) {
			case 0:
				pool = append(pool, base+i*stride)
			case 1:
				pool = append(pool, 15+16*r.intn(6)) // end of table: wrap-around
			case 2:
				pool = append(pool, r.intn(400))
			default:
				pool = append(pool, base+16*r.intn(8))
			}
		}
		nops := 5 + r.intn(120)
		delPct := pick(r, []int{5, 20, 45})
		var ops []string
		shape := map[string]int{}
		for i := 0; i < nops; i++ {
			k := pick(r, pool)
			x := r.intn(100)
			switch {
			case x < delPct:
				m.Delete(k)
				ops = append(ops, fmt.Sprintf("IDel %d", k))
				shape["del"]++
			case x < delPct+35:
				v := g.Int32(int32(r.intn(1000)))
				if r.chance(20) {
					v = g.Float64(float64(r.intn(10)) + 0.5)
				}
				m.Set(k, v)
				ops = append(ops, fmt.Sprintf("ISet %d %s", k, coqValue(v)))
				shape["set"]++
			case x < delPct+50:
				v := g.VerifNewUntyped(r.intn(300))
				m.Assign(k, v)
				ops = append(ops, fmt.Sprintf("IAssign %d %s", k, coqValue(v)))
				shape["assign"]++
			case x < delPct+55:
				ops = append(ops, fmt.Sprintf("ILen %d", m.Len()))
				shape["len"]++
			default:
				v, ok := m.Get(k)
				ops = append(ops, fmt.Sprintf("IGet %d %s", k, optValCoq(v, ok)))
				shape["get"]++
			}
		}
		size, _, _, _, total := m.Params()
		dist, keys, vals := m.Dump()
		var cells []string
		maxd := 0
		for i := range dist {
			cells = append(cells, fmt.Sprintf("(%d, %s, %s)", dist[i], coqZ(int64(keys[i])), coqValue(vals[i])))
			if dist[i] > maxd {
				maxd = dist[i]
			}
		}
		cases = append(cases, fmt.Sprintf("CIMap %d [%s] %d %d [%s]", alloc, strings.Join(ops, "; "), size, total, strings.Join(cells, "; ")))
		st.add(fmt.Sprintf("size=%d maxdist=%d", size, minInt(maxd, 6)), fmt.Sprintf("alloc=%d ops=%d size=%d total=%d maxdist=%d %v", alloc, nops, size, total, maxd, shape))
	}
	files := writeCases(dir, "cases_C12", "From Coq Require Import ZArith List Floats.\nFrom GV Require Import GoSpec.GoPrim Model.CorrC12.\nImport ListNotations.\nOpen Scope Z_scope.\n", "imismatches", cases, 60)
	st.Extra["files"] = files
	st.write(dir + "/C12_corr_stats.json")
}
