package main

// C20: run-time errors point at the failing line and the active call chain.
//
// c20-script: generated call chains (functions, methods, lambdas, function values, variadics,
//   direct and mutual recursion; the call placed in every statement/expression position) with ONE
//   planted run-time fault.  The generator emits the source line by line, so it knows the line of
//   every call and of the fault, and computes the expected error text from the property statement:
//   first the function and line of the failing operation, then one line per active call, innermost
//   first (calling function, line of the call).  Compared: (a) goatlang's text (default Load+Call,
//   hook with optimizer on, hook with optimizer off) against the expectation, (b) optimizer off vs on,
//   (c) output before the fault and "a panic happened" against the Go toolchain, (d) a second failing
//   call on the same VM after the recovered error (no stale backtrace lines).
// c20-corr: the same generator restricted to the fragment Model/VM.v executes; the real compiled
//   code, the failing position and the backtrace positions parsed from the real error text are
//   written as Coq cases for Model/CorrC20.v.

import (
	"bytes"
	"fmt"
	"go/ast"
	"go/parser"
	"go/token"
	"os"
	"regexp"
	"strconv"
	"strings"
	"sync"
	"testing/fstest"

	g "github.com/philhassey/goatlang"
)

func init() {
	register("c20-script", func(a cmdArgs) { cmdC20Script(a.seed, a.n, a.dir) })
	register("c20-corr", func(a cmdArgs) { cmdC20Corr(a.seed, a.n, a.dir) })
	register("c20-pos", func(a cmdArgs) { cmdC20Pos(a.seed, a.n, a.dir) })
	register("c20-probe", func(a cmdArgs) { cmdC20Probe(a.file) })
	register("c20-gen", func(a cmdArgs) { // print generated program number n of the seed, with its expectation
		r := newRng(c20Seed(a.seed))
		var p *c20Prog
		for c := 0; c <= a.n; c++ {
			p = genC20(r, 1+c%30, c%4 == 3, a.thorough)
		}
		fmt.Printf("%s// fault=%s wrap=%s entry=%s multi=%v\n// expected: %s\n// again: %s\n", p.Src, p.Fault, p.Wrap, p.Entry, p.Multi, c20Expect(p.Frames), c20Expect(p.Again))
	})
}

// c20Seed spreads the seeds: the shared splitmix64 wrapper starts seed k at state k*G+c and advances by G per
// draw, so the stream of seed k+1 is the stream of seed k shifted by ONE draw (two runs can fall into step and
// generate the same programs); multiplying the seed moves consecutive seeds ~10^12 draws apart.
func c20Seed(seed uint64) uint64 { return seed*0x100000001b3 + 0xc20 }

// ---------------------------------------------------------------------------
// generator

type c20Frame struct {
	Fn string `json:"fn"` // as goatlang prints it; "" = package level; lambdas: main.main/main.go:<line> (column dropped)
	Lo int    `json:"line"`
	Hi int    `json:"last_line"` // > Lo: the call expression is written over the lines Lo..Hi
}

type c20Prog struct {
	Src      string
	Fault    string
	Wrap     string
	Entry    string
	Depth    int
	Frames   []c20Frame // innermost first; Frames[0] = the failing operation
	Again    []c20Frame // expected frames of the second entry point main.again
	Multi    bool       // some call of the active chain is written over several lines
	Kinds    []string
	Ctxs     []string
	Msg      string         // substring of the panic value that must appear (explicit panic only)
	MultiOp  bool           // the failing operation itself (not a call) is written over two lines
	Noises   map[string]int // completed calls planted before the call / the fault of each frame, by kind
	GoatOnly bool           // a fault Go has no run-time counterpart for: kind of every mismatch = the fault's name
}

type c20Level struct {
	kind  string
	ctx   string
	multi string
	k     int // recursion depth for rec / mutual / rec-unwind
	j     int // rec-unwind: the recursion level that goes on after the deeper ones have returned
	// filled while emitting
	name     string     // frame name of code inside this level
	call     c20Frame   // the call this level makes to the next one
	entry    []c20Frame // frames between the caller's call and this level's body (innermost first)
	declLine int
}

type c20Gen struct {
	r      *rng
	lines  []string
	lv     []*c20Level // 1-based; lv[0] unused
	depth  int
	fault  string
	wrap   string
	fLine  int  // line of the failing operation
	fHi    int  // its last line (> fLine: the failing operation is written over two lines)
	mFault bool // write the failing operation over two lines where the fault kind allows it
	model  bool
	useStr bool // program imports strings
	nid    int  // counter for the names of noise variables
	lam    int  // > 0: inside the body of a local lambda
	noises map[string]int
}

func (q *c20Gen) ln(ind int, s string) int {
	q.lines = append(q.lines, strings.Repeat("\t", ind)+s)
	return len(q.lines)
}

// stmt emits a statement "pre E post" where the expression E may be written over several lines;
// returns the first and last line of E.
func (q *c20Gen) stmt(ind int, pre string, e []string, post string) (int, int) {
	if len(e) == 1 {
		l := q.ln(ind, pre+e[0]+post)
		return l, l
	}
	lo := q.ln(ind, pre+e[0])
	for _, m := range e[1 : len(e)-1] {
		q.ln(ind+1, m)
	}
	hi := q.ln(ind, e[len(e)-1]+post)
	return lo, hi
}

var c20KindsAll = []string{"func", "func", "func", "method", "method", "method-lit", "method-inner", "lambda-global", "lambda-local", "field", "variadic", "variadic-spread", "rec", "mutual", "rec-unwind", "funcparam"}
var c20KindsModel = []string{"func", "func", "func", "lambda-global", "lambda-local", "variadic", "variadic-spread", "rec", "mutual", "rec-unwind", "funcparam"}
var c20CtxAll = []string{"plain", "return", "for", "range", "forinit", "forcond", "forpost", "if", "ifinit", "ifthen", "ifelse", "elseif", "switchtag", "switchcase", "switcharm", "nested", "compound", "indexassign", "andor", "unary", "mapval", "structlit", "slicelit", "callarg2", "discard", "multiassign", "structlit-ml", "binop-ml", "arglist-ml", "for-later", "range-later"}
var c20CtxModel = []string{"plain", "return", "for", "range", "forinit", "forcond", "forpost", "if", "ifinit", "ifthen", "ifelse", "elseif", "switchtag", "switchcase", "switcharm", "nested", "compound", "indexassign", "andor", "unary", "slicelit", "callarg2", "discard", "binop-ml", "arglist-ml", "for-later", "range-later"}
var c20FaultsAll = []string{"div", "mod", "divassign", "index", "indexset", "indexneg", "nilslice", "strindex", "slicebound", "slicelow", "strslice", "nilmap", "nilmapint", "panic", "nilfunc", "nilfield", "nilfieldset", "nilinner", "nilfieldfunc", "nilrecvcall", "makeneg", "native",
	"opidx-read", "opidx-div", "opidx-dec", "opfield-div", "opfield-nested-div", "opfield-nested-nil", "nilptr-inc", "nilptr-opassign", "mapstruct-inc", "opmap-mod", "fieldidx-inc", "tuple-store", "tuple-store2"}
var c20FaultsModel = []string{"div", "mod", "divassign", "index", "indexset", "indexneg", "nilslice", "strindex", "slicebound", "slicelow", "strslice", "panic", "nilfunc", "makeneg", "opidx-read", "opidx-div", "opidx-dec", "tuple-store", "tuple-store2"}
var c20Wraps = []string{"none", "none", "loop", "branch", "switch", "range"}

// callExpr renders the call of level j with argument arg; pre = statements that must precede it
// (emitted by the caller through prelude()).
func (q *c20Gen) callee(j int) (fn string, args string, isMethod bool) {
	l := q.lv[j]
	switch l.kind {
	case "func", "field", "funcparam":
		return fmt.Sprintf("c%d", j), "a + 1", false
	case "variadic":
		return fmt.Sprintf("c%d", j), "a + 1, 1, 2", false
	case "variadic-spread":
		return fmt.Sprintf("c%d", j), "a + 1, ys...", false
	case "rec", "mutual", "rec-unwind":
		return fmt.Sprintf("c%d", j), fmt.Sprintf("a + 1, %d", l.k), false
	case "method":
		return fmt.Sprintf("t.m%d", j), "a + 1", true
	case "method-lit":
		return fmt.Sprintf("(&T{v: a}).m%d", j), "a + 1", false
	case "method-inner":
		return fmt.Sprintf("t.in.m%d", j), "a + 1", false
	case "lambda-global":
		return fmt.Sprintf("h%d", j), "a + 1", false
	case "lambda-local":
		return "h", "a + 1", false
	}
	panic("kind " + l.kind)
}

// prelude emits what the call of level j needs before the calling statement (inside the caller's body).
func (q *c20Gen) prelude(ind, j int) {
	l := q.lv[j]
	switch l.kind {
	case "method":
		q.ln(ind, "t := &T{v: a}")
	case "method-inner":
		q.ln(ind, "t := &T{in: &T{v: a}}")
	case "variadic-spread":
		q.ln(ind, "ys := []int{1, 2}")
	case "lambda-local":
		line := q.ln(ind, "h := func(a int) int {")
		l.declLine = line
		l.name = fmt.Sprintf("main.main/main.go:%d", line)
		q.lam++
		q.body(ind+1, j)
		q.lam--
		q.ln(ind, "}")
	}
}

// callLines renders the call of level j in the multi-line style of the calling level.
func (q *c20Gen) callLines(i, j int) []string {
	fn, args, isMethod := q.callee(j)
	kind := q.lv[j].kind
	if kind == "field" {
		fn = "t.f"
		isMethod = true
	}
	if kind == "funcparam" {
		args = fmt.Sprintf("c%d, a + 1", j)
		fn = "apply"
	}
	switch q.lv[i].multi {
	case "args":
		return []string{fn + "(", args + ")"}
	case "close":
		return []string{fn + "(", args + ",", ")"}
	case "chain":
		if isMethod {
			k := strings.LastIndex(fn, ".")
			return []string{fn[:k+1], fn[k+1:] + "(" + args + ")"}
		}
		return []string{fn + "(", args + ")"}
	case "tail":
		// the first argument stays on the line of the "(": the "call" node is on the callee's line
		if strings.Contains(args, ", ") {
			k := strings.Index(args, ", ")
			return []string{fn + "(" + args[:k+1], args[k+2:] + ")"}
		}
		return []string{fn + "(" + args + ",", ")"}
	}
	return []string{fn + "(" + args + ")"}
}

var c20NoiseAll = []string{"void", "void", "void-method", "one-used", "one-discard", "two-used", "two-discard", "two-half", "variadic-void", "variadic-void-empty", "variadic-void-spread", "lambda-void-global", "lambda-void-local", "field-void", "funcparam-void", "nested", "loop", "unwind", "unwind-value", "in-condition", "method-one"}
var c20NoiseModel = []string{"void", "void", "one-used", "one-discard", "two-used", "two-discard", "two-half", "variadic-void", "variadic-void-empty", "variadic-void-spread", "lambda-void-global", "lambda-void-local", "funcparam-void", "nested", "loop", "unwind", "unwind-value", "in-condition"}

// noise emits 0..3 statements whose calls COMPLETE before the frame goes on to its call / its fault: none of them
// may appear in the error text (one line per ACTIVE call).  Uses only the parameter a and package-level names.
func (q *c20Gen) noise(ind int) {
	kinds := c20NoiseAll
	if q.model {
		kinds = c20NoiseModel
	}
	for n := q.r.intn(4); n > 0; n-- {
		k := pick(q.r, kinds)
		if k == "lambda-void-local" && q.lam > 0 {
			k = "void"
		}
		q.nid++
		u := q.nid
		if q.noises != nil {
			q.noises[k]++
		}
		switch k {
		case "void":
			q.ln(ind, "note(a)")
		case "void-method":
			q.ln(ind, fmt.Sprintf("n%d := &T{}", u))
			q.ln(ind, fmt.Sprintf("n%d.touch(a)", u))
		case "void-method-lit":
			q.ln(ind, "(&T{}).touch(a)")
		case "one-used":
			q.ln(ind, fmt.Sprintf("n%d := one(a)", u))
			q.ln(ind, fmt.Sprintf("_ = n%d", u))
		case "one-discard":
			q.ln(ind, "one(a)")
		case "two-used":
			q.ln(ind, fmt.Sprintf("n%d, m%d := pair(a)", u, u))
			q.ln(ind, fmt.Sprintf("_ = n%d + m%d", u, u))
		case "two-discard":
			q.ln(ind, "pair(a)")
		case "two-half":
			q.ln(ind, fmt.Sprintf("_, n%d := pair(a)", u))
			q.ln(ind, fmt.Sprintf("_ = n%d", u))
		case "variadic-void":
			q.ln(ind, "vnote(a, 1, 2)")
		case "variadic-void-empty":
			q.ln(ind, "vnote()")
		case "variadic-void-spread":
			q.ln(ind, fmt.Sprintf("n%d := []int{a, a}", u))
			q.ln(ind, fmt.Sprintf("vnote(n%d...)", u))
		case "lambda-void-global":
			q.ln(ind, "hv(a)")
		case "lambda-void-local":
			q.ln(ind, fmt.Sprintf("n%d := func(x int) {", u))
			q.ln(ind+1, "fmt.Println(\"w\", x)")
			q.ln(ind, "}")
			q.ln(ind, fmt.Sprintf("n%d(a)", u))
		case "field-void":
			q.ln(ind, fmt.Sprintf("n%d := &T{g: note}", u))
			q.ln(ind, fmt.Sprintf("n%d.g(a)", u))
		case "funcparam-void":
			q.ln(ind, "run(note, a)")
		case "nested":
			q.ln(ind, "deep(a)")
		case "loop":
			q.ln(ind, fmt.Sprintf("for n%d := 0; n%d < 3; n%d++ {", u, u, u))
			q.ln(ind+1, fmt.Sprintf("note(n%d)", u))
			q.ln(ind, "}")
		case "unwind":
			q.ln(ind, "unwind(a, 3)")
		case "unwind-value":
			q.ln(ind, "_ = unwindv(a, 2)")
		case "in-condition":
			q.ln(ind, "if one(a) > 0 {")
			q.ln(ind+1, "note(a)")
			q.ln(ind, "}")
		case "method-one":
			q.ln(ind, "_ = (&T{v: a}).get()")
		}
	}
}

// body emits the body of level i at indentation ind (header and footer are the caller's business).
func (q *c20Gen) body(ind, i int) {
	l := q.lv[i]
	q.ln(ind, fmt.Sprintf("fmt.Println(\"enter\", %d, a)", i))
	switch l.kind {
	case "rec":
		q.ln(ind, "if k > 0 {")
		rl := q.ln(ind+1, fmt.Sprintf("return c%d(a, k-1)", i))
		q.ln(ind, "}")
		for n := 0; n < l.k; n++ {
			l.entry = append(l.entry, c20Frame{l.name, rl, rl})
		}
	case "mutual":
		q.ln(ind, "if k > 0 {")
		rl := q.ln(ind+1, fmt.Sprintf("return d%d(a, k-1)", i))
		q.ln(ind, "}")
		// d<i>'s call line is known once d<i> is emitted (emitTop); recorded there
		l.declLine = rl
	case "rec-unwind":
		q.ln(ind, "r0 := 0")
		q.ln(ind, "if k > 0 {")
		rl := q.ln(ind+1, fmt.Sprintf("r0 = c%d(a, k-1)", i))
		q.ln(ind, "}")
		q.ln(ind, fmt.Sprintf("if k != %d {", l.j))
		q.ln(ind+1, "return r0")
		q.ln(ind, "}")
		for n := 0; n < l.k-l.j; n++ {
			l.entry = append(l.entry, c20Frame{l.name, rl, rl})
		}
	}
	q.noise(ind)
	if i == q.depth {
		q.faultBody(ind)
		return
	}
	j := i + 1
	if q.lv[j].kind == "field" {
		q.ln(ind, fmt.Sprintf("t := &T{f: c%d}", j))
	}
	q.prelude(ind, j)
	e := q.callLines(i, j)
	var lo, hi int
	switch l.ctx {
	case "plain":
		lo, hi = q.stmt(ind, "x := ", e, "")
		q.ln(ind, "return x * 2")
	case "return":
		lo, hi = q.stmt(ind, "return ", e, " + 1")
	case "for":
		q.ln(ind, "r := 0")
		q.ln(ind, "for i := 0; i < 2; i++ {")
		lo, hi = q.stmt(ind+1, "r += ", e, "")
		q.ln(ind, "}")
		q.ln(ind, "return r")
	case "range":
		q.ln(ind, "r := 0")
		q.ln(ind, "for _, v := range []int{1, 2} {")
		lo, hi = q.stmt(ind+1, "r += v + ", e, "")
		q.ln(ind, "}")
		q.ln(ind, "return r")
	case "forinit":
		q.ln(ind, "r := 0")
		lo, hi = q.stmt(ind, "for i := ", e, "; i < 3; i++ {")
		q.ln(ind+1, "r += i")
		q.ln(ind, "}")
		q.ln(ind, "return r")
	case "forcond":
		q.ln(ind, "r := 0")
		lo, hi = q.stmt(ind, "for i := 0; i < ", e, "; i++ {")
		q.ln(ind+1, "r += i")
		q.ln(ind, "}")
		q.ln(ind, "return r")
	case "forpost":
		q.ln(ind, "r := 0")
		lo, hi = q.stmt(ind, "for i := 0; i < 3; i += ", e, " {")
		q.ln(ind+1, "r++")
		q.ln(ind, "}")
		q.ln(ind, "return r")
	case "if":
		lo, hi = q.stmt(ind, "if ", e, " > 0 {")
		q.ln(ind+1, "return 1")
		q.ln(ind, "}")
		q.ln(ind, "return 0")
	case "ifinit":
		lo, hi = q.stmt(ind, "if x := ", e, "; x > 0 {")
		q.ln(ind+1, "return x")
		q.ln(ind, "}")
		q.ln(ind, "return 0")
	case "ifthen":
		q.ln(ind, "if a >= 0 {")
		lo, hi = q.stmt(ind+1, "return ", e, "")
		q.ln(ind, "}")
		q.ln(ind, "return 0")
	case "ifelse":
		q.ln(ind, "if a < 0 {")
		q.ln(ind+1, "return 0")
		q.ln(ind, "} else {")
		lo, hi = q.stmt(ind+1, "return ", e, "")
		q.ln(ind, "}")
	case "elseif":
		q.ln(ind, "if a < 0 {")
		q.ln(ind+1, "return 0")
		q.ln(ind, "} else if a >= 0 {")
		lo, hi = q.stmt(ind+1, "return ", e, "")
		q.ln(ind, "}")
		q.ln(ind, "return 0")
	case "switchtag":
		lo, hi = q.stmt(ind, "switch ", e, " {")
		q.ln(ind, "case 1:")
		q.ln(ind+1, "return 1")
		q.ln(ind, "}")
		q.ln(ind, "return 0")
	case "switchcase":
		q.ln(ind, "switch {")
		lo, hi = q.stmt(ind, "case ", e, " == 1:")
		q.ln(ind+1, "return 1")
		q.ln(ind, "}")
		q.ln(ind, "return 0")
	case "switcharm":
		q.ln(ind, "switch {")
		q.ln(ind, "case a > 100:")
		q.ln(ind+1, "return 1")
		q.ln(ind, "default:")
		lo, hi = q.stmt(ind+1, "return ", e, "")
		q.ln(ind, "}")
	case "nested":
		lo, hi = q.stmt(ind, "return id(", e, ") + id(1)")
	case "compound":
		q.ln(ind, "x := 1")
		lo, hi = q.stmt(ind, "x += ", e, "")
		q.ln(ind, "return x")
	case "indexassign":
		q.ln(ind, "s := []int{0}")
		lo, hi = q.stmt(ind, "s[0] = ", e, "")
		q.ln(ind, "return s[0]")
	case "andor":
		lo, hi = q.stmt(ind, "if a >= 0 && ", e, " > 0 {")
		q.ln(ind+1, "return 1")
		q.ln(ind, "}")
		q.ln(ind, "return 0")
	case "unary":
		lo, hi = q.stmt(ind, "return -", e, "")
	case "mapval":
		q.ln(ind, "m := map[string]int{}")
		lo, hi = q.stmt(ind, "m[\"k\"] = ", e, "")
		q.ln(ind, "return m[\"k\"]")
	case "structlit":
		lo, hi = q.stmt(ind, "u := &T{v: ", e, "}")
		q.ln(ind, "return u.v")
	case "slicelit":
		lo, hi = q.stmt(ind, "s := []int{", e, "}")
		q.ln(ind, "return s[0]")
	case "callarg2":
		lo, hi = q.stmt(ind, "return add(1, ", e, ")")
	case "discard":
		lo, hi = q.stmt(ind, "_ = ", e, "")
		q.ln(ind, "return a")
	case "multiassign":
		lo, hi = q.stmt(ind, "x, y := a, ", e, "")
		q.ln(ind, "return x + y")
	case "for-later": // earlier iterations complete void calls, a later iteration makes the call
		q.ln(ind, "r := 0")
		q.ln(ind, "for i := 0; i < 3; i++ {")
		q.ln(ind+1, "note(i)")
		q.ln(ind+1, "if i == 2 {")
		lo, hi = q.stmt(ind+2, "r += ", e, "")
		q.ln(ind+1, "}")
		q.ln(ind, "}")
		q.ln(ind, "return r")
	case "range-later":
		q.ln(ind, "r := 0")
		q.ln(ind, "for _, v := range []int{1, 2, 3} {")
		q.ln(ind+1, "vnote(v, v)")
		q.ln(ind+1, "if v == 3 {")
		lo, hi = q.stmt(ind+2, "r += ", e, "")
		q.ln(ind+1, "}")
		q.ln(ind, "}")
		q.ln(ind, "return r")
	case "structlit-ml": // the statement spans several lines, the call itself is on one line
		q.ln(ind, "u := &T{")
		lo, hi = q.stmt(ind+1, "v: ", e, ",")
		q.ln(ind, "}")
		q.ln(ind, "return u.v")
	case "binop-ml":
		q.ln(ind, "x := 1 +")
		lo, hi = q.stmt(ind+1, "", e, " +")
		q.ln(ind+1, "2")
		q.ln(ind, "return x")
	case "arglist-ml":
		q.ln(ind, "return add(")
		q.ln(ind+1, "id(1),")
		lo, hi = q.stmt(ind+1, "", e, ",")
		q.ln(ind, ")")
	default:
		panic("ctx " + l.ctx)
	}
	l.call = c20Frame{l.name, lo, hi}
}

// faultBody emits the planted fault (in its wrapper) and records its line.
func (q *c20Gen) faultBody(ind int) {
	type fl struct {
		s string
		f bool
	}
	var f []fl
	tail := ""
	switch q.fault {
	case "div":
		f = []fl{{"z := a - a", false}, {"return 10 / z", true}}
	case "mod":
		f = []fl{{"z := a - a", false}, {"return 10 % z", true}}
	case "divassign":
		f = []fl{{"z := a - a", false}, {"x := 10", false}, {"x /= z", true}, {"return x", false}}
	case "index":
		f = []fl{{"s := []int{1, 2, 3}", false}, {"return s[a+3]", true}}
	case "indexset":
		f = []fl{{"s := []int{1, 2, 3}", false}, {"s[a+3] = 1", true}, {"return s[0]", false}}
	case "indexneg":
		f = []fl{{"s := []int{1, 2, 3}", false}, {"i := -1 - a", false}, {"return s[i]", true}}
	case "nilslice":
		f = []fl{{"var s []int", false}, {"return s[a]", true}}
	case "strindex":
		f = []fl{{"s := \"abc\"", false}, {"return int(s[a+3])", true}}
	case "slicebound":
		f = []fl{{"s := []int{1, 2, 3}", false}, {"n := a + 5", false}, {"u := s[1:n]", true}, {"return int(len(u))", false}}
	case "slicelow":
		f = []fl{{"s := []int{1, 2, 3}", false}, {"n := a + 5", false}, {"u := s[n:]", true}, {"return int(len(u))", false}}
	case "strslice":
		f = []fl{{"s := \"abc\"", false}, {"n := a + 5", false}, {"u := s[1:n]", true}, {"return int(len(u))", false}}
	case "nilmap":
		f = []fl{{"var m map[string]int", false}, {"m[\"k\"] = a", true}, {"return a", false}}
	case "nilmapint":
		f = []fl{{"var m map[int]int", false}, {"m[a] = a", true}, {"return a", false}}
	case "panic":
		f = []fl{{"if a >= 0 {", false}, {"\tpanic(\"boom\")", true}, {"}", false}, {"return a", false}}
	case "nilfunc":
		f = []fl{{"var f func(int) int", false}, {"return f(a)", true}}
	case "nilfield":
		f = []fl{{"var t *T", false}, {"return t.v", true}}
	case "nilfieldset":
		f = []fl{{"var t *T", false}, {"t.v = a", true}, {"return a", false}}
	case "nilinner":
		f = []fl{{"t := &T{}", false}, {"return t.in.v", true}}
	case "nilfieldfunc":
		f = []fl{{"t := &T{}", false}, {"return t.f(a)", true}}
	// compound assignments: the READ of the target or the OPERATION faults (instructions the assignment node emits
	// between the code of its sub-expressions), and tuple assignments whose first / second store faults
	case "opidx-read":
		f = []fl{{"vs := []int{1}", false}, {"vs[a+3] += 2", true}, {"return vs[0]", false}}
	case "opidx-div":
		f = []fl{{"vs := []int{1}", false}, {"z := a - a", false}, {"vs[0] /= z", true}, {"return vs[0]", false}}
	case "opidx-dec":
		f = []fl{{"vs := []int{1}", false}, {"vs[a+3]--", true}, {"return vs[0]", false}}
	case "opfield-div":
		f = []fl{{"t := &T{v: 5}", false}, {"z := a - a", false}, {"t.v /= z", true}, {"return t.v", false}}
	case "opfield-nested-div":
		f = []fl{{"t := &T{in: &T{v: 3}}", false}, {"z := a - a", false}, {"t.in.v /= z", true}, {"return t.in.v", false}}
	case "opfield-nested-nil":
		f = []fl{{"t := &T{}", false}, {"t.in.v *= 2", true}, {"return a", false}}
	case "nilptr-inc":
		f = []fl{{"var p *T", false}, {"p.v++", true}, {"return a", false}}
	case "nilptr-opassign":
		f = []fl{{"var p *T", false}, {"p.v += a", true}, {"return a", false}}
	case "mapstruct-inc":
		f = []fl{{"m := map[string]*T{}", false}, {"m[\"k\"].v++", true}, {"return a", false}}
	case "opmap-mod":
		f = []fl{{"m := map[string]int{\"k\": 4}", false}, {"z := a - a", false}, {"m[\"k\"] %= z", true}, {"return m[\"k\"]", false}}
	case "fieldidx-inc":
		f = []fl{{"t := &T{xs: []int{1}}", false}, {"t.xs[a+3]++", true}, {"return t.xs[0]", false}}
	case "tuple-store":
		f = []fl{{"s := []int{1}", false}, {"u := []int{2}", false}, {"s[a+3], u[0] = 1, 2", true}, {"return s[0] + u[0]", false}}
	case "tuple-store2":
		f = []fl{{"s := []int{1}", false}, {"u := []int{2}", false}, {"s[0], u[a+3] = 1, 2", true}, {"return s[0] + u[0]", false}}
	case "nilrecvcall":
		f = []fl{{"var t *T", false}, {"return t.f(a)", true}}
	case "makeneg":
		f = []fl{{"n := -1 - a", false}, {"s := make([]int, n)", true}, {"return int(len(s))", false}}
	case "native":
		f = []fl{{"s := strings.Repeat(\"x\", -1)", true}, {"return int(len(s)) + a", false}}
	default:
		panic("fault " + q.fault)
	}
	in := ind
	switch q.wrap {
	case "loop":
		q.ln(ind, "for i := 0; i < 3; i++ {")
		q.ln(ind+1, "fmt.Println(\"it\", i)")
		q.ln(ind+1, "note(i)")
		q.ln(ind+1, "if i == 1 {")
		in = ind + 2
		tail = "}}"
	case "branch":
		q.ln(ind, "if a >= 0 {")
		in = ind + 1
		tail = "}"
	case "switch":
		q.ln(ind, "switch {")
		q.ln(ind, "case a >= 0:")
		in = ind + 1
		tail = "s"
	case "range":
		q.ln(ind, "for _, v := range []int{5, 6} {")
		q.ln(ind+1, "fmt.Println(\"v\", v)")
		q.ln(ind+1, "note(v)")
		in = ind + 1
		tail = "}"
	}
	// the failing operation written over two lines (multi-line class only)
	split := map[string][2]string{
		"nilmap":       {"m[", "\"k\"] = a"},
		"nilmapint":    {"m[", "7] = a"},
		"nilfieldset":  {"t.", "v = a"},
		"nilfield":     {"return t.", "v"},
		"nilinner":     {"return t.in.", "v"},
		"nilfieldfunc": {"return t.", "f(a)"},
		"nilrecvcall":  {"return t.f(", "a)"},
		"strindex":     {"return int(s[", "9])"},
		"nilslice":     {"return s[", "0]"},
	}
	for _, x := range f {
		if sp, ok := split[q.fault]; ok && x.f && q.mFault {
			q.fLine = q.ln(in, sp[0])
			q.fHi = q.ln(in+1, sp[1])
			continue
		}
		l := q.ln(in, x.s)
		if x.f {
			q.fLine, q.fHi = l, l
		}
	}
	switch tail {
	case "}}":
		q.ln(ind+1, "}")
		q.ln(ind, "}")
		q.ln(ind, "return 0")
	case "}", "s":
		q.ln(ind, "}")
		q.ln(ind, "return 0")
	}
}

// emitTop emits the top-level declaration(s) of level i (nothing for a local lambda).
func (q *c20Gen) emitTop(i int) {
	l := q.lv[i]
	switch l.kind {
	case "lambda-local":
		return
	case "func", "field", "funcparam":
		q.ln(0, fmt.Sprintf("func c%d(a int) int {", i))
	case "variadic", "variadic-spread":
		q.ln(0, fmt.Sprintf("func c%d(a int, xs ...int) int {", i))
	case "rec", "mutual", "rec-unwind":
		q.ln(0, fmt.Sprintf("func c%d(a int, k int) int {", i))
	case "method", "method-lit", "method-inner":
		q.ln(0, fmt.Sprintf("func (o *T) m%d(a int) int {", i))
	case "lambda-global":
		line := q.ln(0, fmt.Sprintf("var h%d = func(a int) int {", i))
		l.name = fmt.Sprintf("main.main/main.go:%d", line)
	}
	q.body(1, i)
	q.ln(0, "}")
	q.ln(0, "")
	if l.kind == "mutual" {
		q.ln(0, fmt.Sprintf("func d%d(a int, k int) int {", i))
		dl := q.ln(1, fmt.Sprintf("return c%d(a, k)", i))
		q.ln(0, "}")
		q.ln(0, "")
		for n := 0; n < l.k; n++ {
			l.entry = append(l.entry, c20Frame{fmt.Sprintf("main.d%d", i), dl, dl}, c20Frame{l.name, l.declLine, l.declLine})
		}
	}
}

// c20ForceFault: when set, genC20 plants this fault and writes the failing operation over two lines.
var c20ForceFault string

// genC20 builds one program.  multi: write some calls of the chain over several lines.
func genC20(r *rng, depth int, multi bool, model bool) *c20Prog {
	q := &c20Gen{r: r, depth: depth, model: model, noises: map[string]int{}}
	kinds, ctxs, faults := c20KindsAll, c20CtxAll, c20FaultsAll
	if model {
		kinds, ctxs, faults = c20KindsModel, c20CtxModel, c20FaultsModel
	}
	q.fault = pick(r, faults)
	q.wrap = pick(r, c20Wraps)
	q.useStr = q.fault == "native"
	q.mFault = multi && r.chance(25)
	if c20ForceFault != "" {
		q.fault, q.mFault = c20ForceFault, true
		q.useStr = false
	}
	q.lv = make([]*c20Level, depth+2)
	budget := 36 // bound on the number of active calls
	for i := 1; i <= depth; i++ {
		l := &c20Level{kind: pick(r, kinds), ctx: pick(r, ctxs)}
		if l.kind == "rec-unwind" {
			// descends k levels, unwinds to level j (those calls COMPLETE), and goes on from there
			l.k = 1 + r.intn(4)
			l.j = 1 + r.intn(l.k)
			budget -= l.k - l.j
		} else if (l.kind == "rec" || l.kind == "mutual") && budget-depth > 4 {
			l.k = 1 + r.intn(4)
			if r.chance(15) {
				l.k = 5 + r.intn(8)
			}
			if l.kind == "mutual" {
				budget -= 2 * l.k
			} else {
				budget -= l.k
			}
		} else if l.kind == "rec" || l.kind == "mutual" {
			l.kind = "func"
		}
		// a lambda body cannot hold another local lambda's definition of the level after next? it can; but
		// level 1 is called from the entry point, which has no body of ours: no local lambda there
		if l.kind == "lambda-local" && i == 1 {
			l.kind = "lambda-global"
		}
		if multi && r.chance(45) {
			l.multi = pick(r, []string{"args", "close", "chain", "tail"})
		}
		switch l.kind {
		case "func", "field", "funcparam", "variadic", "variadic-spread", "rec", "mutual", "rec-unwind":
			l.name = fmt.Sprintf("main.c%d", i)
		case "method", "method-lit", "method-inner":
			l.name = fmt.Sprintf("main.T.m%d", i)
		}
		q.lv[i] = l
	}
	// the entry level (index 0) calls level 1
	entry := pick(r, []string{"main", "main", "main", "main-assign", "init", "global"})
	q.lv[0] = &c20Level{kind: "entry"}
	if multi && r.chance(50) {
		q.lv[0].multi = pick(r, []string{"args", "close", "tail"})
	}
	if multi {
		// at least one call of the chain is written over several lines
		any := false
		for i := 0; i < depth; i++ {
			any = any || q.lv[i].multi != ""
		}
		if !any {
			q.lv[r.intn(depth)].multi = pick(r, []string{"args", "close"})
		}
	}
	q.lv[depth].multi = "" // the last level makes no call

	q.ln(0, "package main")
	q.ln(0, "")
	if q.useStr {
		q.ln(0, "import (")
		q.ln(1, "\"fmt\"")
		q.ln(1, "\"strings\"")
		q.ln(0, ")")
	} else {
		q.ln(0, "import \"fmt\"")
	}
	q.ln(0, "")
	if !model {
		q.ln(0, "type T struct {")
		q.ln(1, "v  int")
		q.ln(1, "f  func(int) int")
		q.ln(1, "xs []int")
		q.ln(1, "g  func(int)")
		q.ln(1, "in *T")
		q.ln(0, "}")
		q.ln(0, "")
	}
	// helpers
	q.ln(0, "func id(a int) int {")
	q.ln(1, "return a")
	q.ln(0, "}")
	q.ln(0, "")
	q.ln(0, "func add(a int, b int) int {")
	q.ln(1, "return a + b")
	q.ln(0, "}")
	q.ln(0, "")
	// callees that COMPLETE: void function / method / lambda / variadic, one and two results, a completed nested
	// chain, recursion that returns
	for _, d := range [][]string{
		{"func note(a int) {", "\tfmt.Println(\"note\", a)", "}"},
		{"func one(a int) int {", "\treturn a + 1", "}"},
		{"func pair(a int) (int, int) {", "\tnote(a)", "\treturn a, a + 1", "}"},
		{"func vnote(xs ...int) {", "\tfor _, x := range xs {", "\t\tnote(x)", "\t}", "}"},
		{"var hv = func(a int) {", "\tfmt.Println(\"hv\", a)", "}"},
		{"func run(f func(int), a int) {", "\tf(a)", "}"},
		{"func deep(a int) {", "\tnote(a)", "\t_ = one(a)", "\tinner(a)", "\tnote(a + 2)", "}"},
		{"func inner(a int) {", "\tnote(a + 1)", "\tpair(a)", "}"},
		{"func unwind(a int, k int) {", "\tif k > 0 {", "\t\tunwind(a, k-1)", "\t}", "\tnote(k)", "}"},
		{"func unwindv(a int, k int) int {", "\tif k > 0 {", "\t\treturn unwindv(a, k-1) + 1", "\t}", "\tnote(k)", "\treturn a", "}"},
	} {
		for _, l := range d {
			q.ln(0, l)
		}
		q.ln(0, "")
	}
	if !model {
		for _, d := range [][]string{
			{"func (o *T) touch(a int) {", "\to.v = a", "\tnote(a)", "}"},
			{"func (o *T) get() int {", "\treturn o.v", "}"},
		} {
			for _, l := range d {
				q.ln(0, l)
			}
			q.ln(0, "")
		}
	}
	q.ln(0, "func apply(f func(int) int, a int) int {")
	applyLine := q.ln(1, "return f(a)")
	q.ln(0, "}")
	q.ln(0, "")
	for i := 1; i <= depth; i++ {
		if q.lv[i].kind == "funcparam" {
			q.lv[i].entry = append(q.lv[i].entry, c20Frame{"main.apply", applyLine, applyLine})
		}
	}

	// top-level declarations in a random order (goatlang and Go both resolve forward references)
	order := make([]int, 0, depth+1)
	for i := 0; i <= depth; i++ {
		order = append(order, i)
	}
	for i := len(order) - 1; i > 0; i-- {
		j := r.intn(i + 1)
		order[i], order[j] = order[j], order[i]
	}
	if entry == "global" {
		// goatlang runs package-level var initializers in source order (Go orders them by dependency):
		// the initializer that starts the chain comes after every function-valued variable
		for k, i := range order {
			if i == 0 {
				order = append(append(order[:k:k], order[k+1:]...), 0)
				break
			}
		}
	}
	var again []c20Frame
	emitEntry := func() {
		e0 := q.lv[0]
		// the call of level 1 from the entry point (arguments: a literal instead of a + 1)
		if q.lv[1].kind == "field" || q.lv[1].kind == "method" || q.lv[1].kind == "method-inner" || q.lv[1].kind == "variadic-spread" {
			// these need a prelude with a variable a: give the entry a local a
		}
		fix := func(e []string) []string {
			out := make([]string, len(e))
			for k, s := range e {
				out[k] = strings.Replace(s, "a + 1", "0", 1)
			}
			return out
		}
		needA := false
		switch q.lv[1].kind {
		case "method", "method-inner", "method-lit":
			needA = true
		}
		body := func(ind int, name string) {
			if needA {
				q.ln(ind, "a := 0")
			}
			if q.lv[1].kind == "field" {
				q.ln(ind, "t := &T{f: c1}")
			}
			if !needA {
				q.ln(ind, "a := 7")
				q.ln(ind, "_ = a")
			}
			q.noise(ind)
			q.prelude(ind, 1)
			e := fix(q.callLines(0, 1))
			var lo, hi int
			if entry == "main-assign" {
				lo, hi = q.stmt(ind, "x := ", e, "")
				q.ln(ind, "fmt.Println(x)")
			} else {
				lo, hi = q.stmt(ind, "fmt.Println(", e, ")")
			}
			e0.call = c20Frame{name, lo, hi}
		}
		switch entry {
		case "main", "main-assign":
			q.ln(0, "func main() {")
			q.ln(1, "fmt.Println(\"start\")")
			body(1, "main.main")
			q.ln(1, "fmt.Println(\"not reached\")")
			q.ln(0, "}")
			q.ln(0, "")
		case "init":
			il := q.ln(0, "func init() {")
			q.ln(1, "fmt.Println(\"init\")")
			body(1, "main.init")
			q.ln(0, "}")
			q.ln(0, "")
			e0.entry = []c20Frame{{"", il, il}} // init is called by the package-level code, at its declaration
			q.ln(0, "func main() {")
			q.ln(1, "fmt.Println(\"not reached\")")
			q.ln(0, "}")
			q.ln(0, "")
		case "global":
			// a package-level initializer: no function name
			kind := q.lv[1].kind
			if kind == "method" || kind == "method-inner" || kind == "method-lit" || kind == "field" || kind == "variadic-spread" || kind == "lambda-local" {
				// needs statements: go through init instead
				il := q.ln(0, "func init() {")
				body(1, "main.init")
				q.ln(0, "}")
				q.ln(0, "")
				e0.entry = []c20Frame{{"", il, il}}
			} else {
				e := fix(q.callLines(0, 1))
				lo, hi := q.stmt(0, "var G = ", e, "")
				q.ln(0, "")
				e0.call = c20Frame{"", lo, hi}
			}
			q.ln(0, "func main() {")
			if e0.call.Fn == "" && len(e0.entry) == 0 {
				q.ln(1, "fmt.Println(\"not reached\", G)")
			} else {
				q.ln(1, "fmt.Println(\"not reached\")")
			}
			q.ln(0, "}")
			q.ln(0, "")
		}
		// second entry point for the stale-backtrace check
		q.ln(0, "func again() {")
		q.ln(1, "fmt.Println(\"again\")")
		a1 := q.ln(1, "again2(0)")
		q.ln(0, "}")
		q.ln(0, "")
		q.ln(0, "func again2(q int) {")
		a2 := q.ln(1, "fmt.Println(7 / q)")
		q.ln(0, "}")
		q.ln(0, "")
		again = []c20Frame{{"main.again2", a2, a2}, {"main.again", a1, a1}}
	}
	for _, i := range order {
		if i == 0 {
			emitEntry()
		} else {
			q.emitTop(i)
		}
	}

	p := &c20Prog{Src: strings.Join(q.lines, "\n") + "\n", Fault: q.fault, Wrap: q.wrap, Entry: entry, Depth: depth, Again: again}
	p.Noises = q.noises
	if q.fault == "panic" {
		p.Msg = "boom"
	}
	p.Frames = append(p.Frames, c20Frame{q.lv[depth].name, q.fLine, q.fHi})
	if q.fHi > q.fLine {
		p.Multi = true
		p.MultiOp = q.fault != "nilfieldfunc" && q.fault != "nilrecvcall" // t.f(a) is a call; the others are index / field operations
	}
	for i := depth; i >= 0; i-- {
		l := q.lv[i]
		if i < depth {
			p.Frames = append(p.Frames, l.call)
			if l.call.Hi > l.call.Lo {
				p.Multi = true
			}
		}
		p.Frames = append(p.Frames, l.entry...)
		if i > 0 {
			p.Kinds = append(p.Kinds, l.kind)
			if i < depth {
				p.Ctxs = append(p.Ctxs, l.ctx)
			}
		}
	}
	return p
}

// genC20GoatOnly: run-time faults that exist in goatlang only (Go rejects the program at compile time, or the
// package is not available to the reference toolchain): a script callback run by a native function, a function
// that runs off its end without returning its result, a function value called with the wrong argument count.
func genC20GoatOnly(r *rng, which string) *c20Prog {
	q := &c20Gen{r: r}
	pre := r.intn(4)
	q.ln(0, "package main")
	q.ln(0, "")
	if which == "native-callback" {
		q.ln(0, "import (")
		q.ln(1, "\"fmt\"")
		q.ln(1, "\"golang.org/x/exp/slices\"")
		q.ln(0, ")")
	} else {
		q.ln(0, "import \"fmt\"")
	}
	q.ln(0, "")
	var fr []c20Frame
	switch which {
	case "native-callback":
		inner := r.intn(3)
		q.ln(0, "func bad(a int) int {")
		q.ln(1, "z := a - a")
		fl := q.ln(1, "return a / z")
		q.ln(0, "}")
		q.ln(0, "")
		fr = append(fr, c20Frame{"main.bad", fl, fl})
		prev := "bad"
		for i := 1; i <= inner; i++ {
			q.ln(0, fmt.Sprintf("func e%d(a int) int {", i))
			l := q.ln(1, fmt.Sprintf("return %s(a)", prev))
			q.ln(0, "}")
			q.ln(0, "")
			fr = append(fr, c20Frame{fmt.Sprintf("main.e%d", i), l, l})
			prev = fmt.Sprintf("e%d", i)
		}
		q.ln(0, "func less(a int, b int) bool {")
		l := q.ln(1, fmt.Sprintf("return %s(a) < b", prev))
		q.ln(0, "}")
		q.ln(0, "")
		fr = append(fr, c20Frame{"main.less", l, l})
		q.ln(0, "func p0(a int) int {")
		q.ln(1, "s := []int{3, 1, 2}")
		l = q.ln(1, "slices.SortFunc(s, less)")
		q.ln(1, "return s[0] + a")
		q.ln(0, "}")
		q.ln(0, "")
		fr = append(fr, c20Frame{"main.p0", l, l})
	case "missing-return":
		q.ln(0, "func nr(a int) int {")
		q.ln(1, "if a > 0 {")
		q.ln(2, "return 1")
		q.ln(1, "}")
		q.ln(0, "}")
		q.ln(0, "")
		q.ln(0, "func p0(a int) int {")
		l := q.ln(1, "x := nr(a - a)")
		q.ln(1, "return x")
		q.ln(0, "}")
		q.ln(0, "")
		fr = append(fr, c20Frame{"main.p0", l, l}) // the callee has returned: the failing operation is the call
	case "incorrect-args":
		q.ln(0, "func two(a int, b int) int {")
		q.ln(1, "return a + b")
		q.ln(0, "}")
		q.ln(0, "")
		q.ln(0, "func p0(a int) int {")
		q.ln(1, "var f func(int) int")
		q.ln(1, "f = two")
		l := q.ln(1, "return f(a)")
		q.ln(0, "}")
		q.ln(0, "")
		fr = append(fr, c20Frame{"main.p0", l, l})
	}
	for i := 1; i <= pre; i++ {
		q.ln(0, fmt.Sprintf("func p%d(a int) int {", i))
		l := q.ln(1, fmt.Sprintf("return p%d(a + 1)", i-1))
		q.ln(0, "}")
		q.ln(0, "")
		fr = append(fr, c20Frame{fmt.Sprintf("main.p%d", i), l, l})
	}
	q.ln(0, "func main() {")
	q.ln(1, "fmt.Println(\"start\")")
	l := q.ln(1, fmt.Sprintf("fmt.Println(p%d(0))", pre))
	q.ln(0, "}")
	q.ln(0, "")
	fr = append(fr, c20Frame{"main.main", l, l})
	q.ln(0, "func again() {")
	q.ln(1, "fmt.Println(\"again\")")
	a1 := q.ln(1, "again2(0)")
	q.ln(0, "}")
	q.ln(0, "")
	q.ln(0, "func again2(q int) {")
	a2 := q.ln(1, "fmt.Println(7 / q)")
	q.ln(0, "}")
	return &c20Prog{Src: strings.Join(q.lines, "\n") + "\n", Fault: which, Wrap: "none", Entry: "main", Depth: pre + 1, Frames: fr,
		Again: []c20Frame{{"main.again2", a2, a2}, {"main.again", a1, a1}}, GoatOnly: true}
}

// ---------------------------------------------------------------------------
// running and parsing

type c20Text struct {
	Out    string
	Err    string // error text ("" = no error)
	Panic  string // a Go panic that escaped the VM
	Stage  string // "load" or "call"
	Err2   string // error text of the second call (main.again) on the same VM
	Panic2 string
	ins    []g.VerifIns
	slots  int
	gl     []g.VerifGlobal
}

// c20Run: mode "load" = VM.Load + VM.Call (the default path, optimizer on); "on"/"off" = hook VerifLoadTrace.
func c20Run(src, mode string) (t c20Text) {
	var out bytes.Buffer
	vm := g.New(g.WithStdout(&out))
	fs := fstest.MapFS{"main/main.go": &fstest.MapFile{Data: []byte(src)}}
	func() {
		defer func() {
			if r := recover(); r != nil {
				t.Panic = fmt.Sprint(r)
			}
		}()
		var err error
		t.Stage = "load"
		if mode == "load" {
			err = vm.Load(fs, "main")
		} else if mode == "eval" {
			_, err = vm.Eval(fstest.MapFS{}, "main/main.go", src)
		} else {
			t.ins, t.slots, t.gl, err = g.VerifLoadTrace(vm, fs, "main", mode == "on")
		}
		if err == nil {
			t.Stage = "call"
			_, err = vm.Call("main.main", 0)
		}
		if err != nil {
			t.Err = err.Error()
		}
	}()
	t.Out = out.String()
	func() {
		defer func() {
			if r := recover(); r != nil {
				t.Panic2 = fmt.Sprint(r)
			}
		}()
		_, err := vm.Call("main.again", 0)
		if err != nil {
			t.Err2 = err.Error()
		}
	}()
	return
}

type c20Parsed struct {
	Fn   string
	Line int
	Col  int
}

var c20FirstRe = regexp.MustCompile(`^(?:(.+?)\(\.\.\.\) )?main/main\.go:(\d+):(\d+): ([A-Z]+): (.*)$`)
var c20BtRe = regexp.MustCompile(`^\t(?:(.+)\(\.\.\.\) )?main/main\.go:(\d+):(\d+)$`)
var c20DigitsRe = regexp.MustCompile(`\d+`)
var c20LambdaRe = regexp.MustCompile(`^(main\.main/main\.go:\d+):\d+$`)

// c20Parse: the error text as (function, line, column) per line; op = opcode name, msg = panic value.
func c20Parse(text string) (fr []c20Parsed, op, msg string, ok bool) {
	text = strings.TrimPrefix(text, "error in run: ")
	lines := strings.Split(text, "\n")
	m := c20FirstRe.FindStringSubmatch(lines[0])
	if m == nil {
		return nil, "", "", false
	}
	l, _ := strconv.Atoi(m[2])
	c, _ := strconv.Atoi(m[3])
	fr = append(fr, c20Parsed{m[1], l, c})
	op, msg = m[4], m[5]
	for _, s := range lines[1:] {
		b := c20BtRe.FindStringSubmatch(s)
		if b == nil {
			return fr, op, msg, false
		}
		l, _ := strconv.Atoi(b[2])
		c, _ := strconv.Atoi(b[3])
		fr = append(fr, c20Parsed{b[1], l, c})
	}
	return fr, op, msg, true
}

func c20Norm(fn string) string {
	if m := c20LambdaRe.FindStringSubmatch(fn); m != nil {
		return m[1]
	}
	return fn
}

// canonical (function, line) rendering: what the property speaks about (columns and opcode names differ
// between the optimizer modes by design: FASTCALL/CALL, position of the first fused instruction)
func c20Canon(fr []c20Parsed) string {
	var p []string
	for _, f := range fr {
		p = append(p, fmt.Sprintf("%s@%d", c20Norm(f.Fn), f.Line))
	}
	return strings.Join(p, " < ")
}

func c20Expect(fr []c20Frame) string {
	var p []string
	for _, f := range fr {
		if f.Hi > f.Lo {
			p = append(p, fmt.Sprintf("%s@%d..%d", f.Fn, f.Lo, f.Hi))
		} else {
			p = append(p, fmt.Sprintf("%s@%d", f.Fn, f.Lo))
		}
	}
	return strings.Join(p, " < ")
}

// c20Against compares a parsed text with the expectation; "" = agrees.
func c20Against(exp []c20Frame, got []c20Parsed) string {
	if len(got) != len(exp) {
		if len(got) > len(exp) {
			return fmt.Sprintf("%d extra lines", len(got)-len(exp))
		}
		return fmt.Sprintf("%d missing lines", len(exp)-len(got))
	}
	for i := range exp {
		if c20Norm(got[i].Fn) != exp[i].Fn {
			return fmt.Sprintf("text line %d: function %q, expected %q", i+1, c20Norm(got[i].Fn), exp[i].Fn)
		}
		if got[i].Line < exp[i].Lo || got[i].Line > exp[i].Hi {
			return fmt.Sprintf("text line %d: source line %d, expected %s", i+1, got[i].Line, strings.TrimPrefix(c20Expect([]c20Frame{{"", exp[i].Lo, exp[i].Hi}}), "@"))
		}
	}
	return ""
}

type c20Mismatch struct {
	Kind     string `json:"kind"`
	Fault    string `json:"fault"`
	Mode     string `json:"mode,omitempty"`
	What     string `json:"what"`
	Expected string `json:"expected,omitempty"`
	Got      string `json:"got,omitempty"`
	Off      string `json:"optimizer_off,omitempty"`
	On       string `json:"optimizer_on,omitempty"`
	Src      string `json:"src"`
}

// c20Check runs one program in the three modes and records every disagreement.
func c20Check(st *stats, p *c20Prog) {
	class := "single-line"
	if p.Multi {
		class = "multi-line"
	}
	texts := map[string]c20Text{}
	parsed := map[string][]c20Parsed{}
	for _, mode := range []string{"load", "eval", "on", "off"} {
		if mode == "eval" && (p.Entry == "init" || p.Entry == "global") {
			// VM.Eval runs the declarations in source order (VM.Load sorts them: functions before init and
			// package-level initializers), so a chain started from init needs the Load path
			continue
		}
		t := c20Run(p.Src, mode)
		texts[mode] = t
		rec := func(kind, what, exp, got string) {
			if p.Fault == "native-callback" && kind != "host-panic" {
				kind = p.Fault // open finding: its own kind; every other class is an ordinary check
			}
			st.mismatchG(kind+"|"+class+"|"+mode+"|"+c20DigitsRe.ReplaceAllString(strings.SplitN(what, ":", 2)[0], "N"), c20Mismatch{Kind: kind, Fault: p.Fault, Mode: mode, What: what, Expected: exp, Got: got, Src: p.Src})
		}
		if t.Panic != "" || t.Panic2 != "" {
			rec("host-panic", "a Go panic escaped the VM: "+t.Panic+t.Panic2, "", "")
			continue
		}
		if t.Err == "" {
			rec("expected-text", "no error returned", c20Expect(p.Frames), "")
			continue
		}
		wantStage := "call"
		if p.Entry == "init" || p.Entry == "global" {
			wantStage = "load"
		}
		if t.Stage != wantStage {
			rec("expected-text", "error raised in stage "+t.Stage+", expected "+wantStage, "", t.Err)
		}
		fr, _, msg, ok := c20Parse(t.Err)
		if !ok {
			rec("expected-text", "unparsable error text", c20Expect(p.Frames), t.Err)
			continue
		}
		parsed[mode] = fr
		if d := c20Against(p.Frames, fr); d != "" {
			rec("expected-text", d, c20Expect(p.Frames), t.Err)
		}
		if p.Msg != "" && !strings.Contains(msg, p.Msg) {
			rec("expected-text", "panic value missing from the first line", p.Msg, t.Err)
		}
		// the second failing call on the same VM: no leftovers of the first error
		fr2, _, _, ok2 := c20Parse(t.Err2)
		if !ok2 {
			rec("stale-backtrace", "second call: unparsable or missing error", c20Expect(p.Again), t.Err2)
		} else if d := c20Against(p.Again, fr2); d != "" {
			rec("stale-backtrace", "second call on the same VM: "+d, c20Expect(p.Again), t.Err2)
		}
	}
	// the hook with the optimizer on is the default path
	if a, b := texts["load"], texts["on"]; a.Err != b.Err || a.Out != b.Out {
		st.mismatchG("hook-fidelity", c20Mismatch{Kind: "hook-fidelity", Fault: p.Fault, What: "VerifLoadTrace(optimize=true) differs from VM.Load", Expected: a.Err, Got: b.Err, Src: p.Src})
	}
	// optimizer off vs on
	off, on := parsed["off"], parsed["on"]
	if off == nil || on == nil {
		return
	}
	if texts["off"].Out != texts["on"].Out {
		st.mismatchG("optimizer-mode|output", c20Mismatch{Kind: "optimizer-mode", Fault: p.Fault, What: "output before the fault differs", Off: texts["off"].Out, On: texts["on"].Out, Src: p.Src})
	}
	if c20Canon(off) == c20Canon(on) {
		if fmt.Sprint(off) != fmt.Sprint(on) {
			st.Histogram["columns differ between optimizer modes (lines agree)"]++
		}
		return
	}
	// any difference of the (function, line) text between the optimizer modes is a failing input; one residual
	// case has its own kind so that it can be tracked precisely: the nil-RECEIVER call t.f(<newline>a) -- and
	// only when nothing but the line of the failing operation differs, both lines inside that call expression
	kind := "optimizer-mode"
	what := "function/line text differs between optimizer off and on"
	if p.Fault == "nilrecvcall" && len(off) == len(on) && len(off) == len(p.Frames) && p.Frames[0].Hi > p.Frames[0].Lo {
		only := off[0].Line != on[0].Line
		for i := range off {
			if c20Norm(off[i].Fn) != c20Norm(on[i].Fn) || (i > 0 && off[i].Line != on[i].Line) {
				only = false
			}
		}
		e := p.Frames[0]
		if only && off[0].Line >= e.Lo && off[0].Line <= e.Hi && on[0].Line >= e.Lo && on[0].Line <= e.Hi {
			kind = "multiline-nilrecv-call"
			what = "t.f(<newline>args) with a nil t fails on the line of .f with the optimizer off (GETATTR) and on the line after the parenthesis with it on (FASTCALLATTR carries the CALL's position)"
		}
	}
	st.mismatchG(kind, c20Mismatch{Kind: kind, Fault: p.Fault, What: what, Expected: c20Expect(p.Frames), Off: texts["off"].Err, On: texts["on"].Err, Src: p.Src})
}

func cmdC20Script(seed uint64, n int, dir string) {
	r := newRng(c20Seed(seed))
	st := newStats()
	cov := map[string]map[string]int{"fault": {}, "wrap": {}, "entry": {}, "callee kind": {}, "call context": {}, "active calls": {}, "completed call": {}}
	var progs []*c20Prog
	for c := 0; c < n; c++ {
		depth := 1 + c%30
		if c%7 == 3 {
			depth = 1 + r.intn(4)
		}
		multi := c%4 == 3
		p := genC20(r, depth, multi, false)
		progs = append(progs, p)
		class := "single-line"
		if p.Multi {
			class = "multi-line call"
		}
		st.add(fmt.Sprintf("%s fault=%s entry=%s", class, p.Fault, p.Entry), fmt.Sprintf("program %d: depth %d, %d active calls, fault %s in %s, entry %s, %d lines", c, depth, len(p.Frames)-1, p.Fault, p.Wrap, p.Entry, strings.Count(p.Src, "\n")))
		cov["fault"][p.Fault]++
		cov["wrap"][p.Wrap]++
		cov["entry"][p.Entry]++
		for _, k := range p.Kinds {
			cov["callee kind"][k]++
		}
		for _, k := range p.Ctxs {
			cov["call context"][k]++
		}
		for k, v := range p.Noises {
			cov["completed call"][k] += v
		}
		cov["active calls"][fmt.Sprintf("%02d-%02d", (len(p.Frames)-1)/5*5, (len(p.Frames)-1)/5*5+4)]++
		c20Check(st, p)
	}
	// every multi-line form of the failing operation at least once per run, whatever the seed
	for _, f := range []string{"nilmap", "nilmapint", "nilfieldset", "nilfield", "nilinner", "nilfieldfunc", "nilrecvcall", "strindex", "nilslice"} {
		c20ForceFault = f
		p := genC20(r, 1+r.intn(6), true, false)
		c20ForceFault = ""
		progs = append(progs, p)
		st.add("multi-line failing operation fault="+f, fmt.Sprintf("forced multi-line %s: %d active calls, entry %s", f, len(p.Frames)-1, p.Entry))
		cov["fault"][f]++
		c20Check(st, p)
	}
	for c := 0; c < 3+n/40; c++ {
		which := []string{"native-callback", "missing-return", "incorrect-args"}[c%3]
		p := genC20GoatOnly(r, which)
		st.add("goatlang-only fault="+which, fmt.Sprintf("goatlang-only program %d: fault %s, %d active calls", c, which, len(p.Frames)-1))
		cov["fault"][which]++
		c20Check(st, p)
	}
	// a host call of a function that does not exist fails at the synthetic CALL of VM.Func, which has no source
	// position: the text must not invent one
	{
		var out bytes.Buffer
		vm := g.New(g.WithStdout(&out))
		src := "package main\n\nfunc main() {\n}\n"
		must(vm.Load(fstest.MapFS{"main/main.go": &fstest.MapFile{Data: []byte(src)}}, "main"))
		_, err := vm.Call("main.nosuch", 0)
		st.add("host call of a missing function", "vm.Call(\"main.nosuch\") after loading an empty main")
		if err == nil || regexp.MustCompile(`^\S*\(\.\.\.\) \S*:0:0: |^\S*:0:0: `).MatchString(err.Error()) {
			es := "<nil>"
			if err != nil {
				es = err.Error()
			}
			st.mismatchG("host-call-position", c20Mismatch{Kind: "host-call-position", Fault: "nilfunc", What: "the error of a host call that fails before any script code runs names a function, file and line 0:0 that do not exist", Expected: "an error text without a source position", Got: es, Src: src + "// host: vm.Call(\"main.nosuch\", 0)"})
		}
	}
	// (c) the Go toolchain: output before the fault, and that a panic happens
	type ref struct {
		out      string
		panicked bool
		err      error
	}
	refs := make([]ref, len(progs))
	var wg sync.WaitGroup
	sem := make(chan struct{}, 12)
	for i, p := range progs {
		wg.Add(1)
		go func(i int, src string) {
			defer wg.Done()
			sem <- struct{}{}
			defer func() { <-sem }()
			o, pk, e := goRefRun(asInt32(src))
			refs[i] = ref{o, pk, e}
		}(i, p.Src)
	}
	wg.Wait()
	for i, p := range progs {
		rf := refs[i]
		if rf.err != nil {
			st.Histogram["invalid_go_program"]++
			if st.Histogram["invalid_go_program"] <= 3 {
				st.Extra[fmt.Sprintf("invalid_go_%d", st.Histogram["invalid_go_program"])] = rf.err.Error() + "\n" + p.Src
			}
			continue
		}
		t := c20Run(p.Src, "load")
		if !rf.panicked {
			st.mismatchG("generator", c20Mismatch{Kind: "generator", Fault: p.Fault, What: "the planted fault is no panic in Go", Src: p.Src})
			continue
		}
		if t.Out != rf.out || t.Err == "" {
			st.mismatchG("go-reference|"+p.Fault, c20Mismatch{Kind: "go-reference", Fault: p.Fault, What: "output before the fault / failure differs from the Go toolchain", Expected: rf.out, Got: t.Out + "\nerr=" + t.Err, Src: p.Src})
		}
	}
	st.Extra["coverage"] = cov
	st.write(dir + "/C20_script_stats.json")
}

// ---------------------------------------------------------------------------
// correspondence with Model/VM.v + Model/Backtrace.v (Model/CorrC20.v)

func c20Pos(fidx map[string]int, fn string, line, col int) int64 {
	if line == 0 && col == 0 && fn == "" {
		return 0
	}
	k, ok := fidx[fn]
	if !ok {
		k = len(fidx) + 1
		fidx[fn] = k
	}
	if fn == "" {
		k = 0
	}
	return int64(k)<<32 | int64(line)<<16 | int64(col)
}

func c20InsCoq(fidx map[string]int, ins []g.VerifIns) string {
	var p []string
	for _, i := range ins {
		p = append(p, fmt.Sprintf("mkI %s %s %s %s %d", coqZ(int64(i.CodeN)), coqZ(int64(i.A)), coqZ(int64(i.B)), coqZ(int64(i.C)), c20Pos(fidx, i.Func, i.Line, i.Col)))
	}
	return "[" + strings.Join(p, "; ") + "]"
}

func c20Case(p *c20Prog, optimize bool) (string, bool) {
	mode := "off"
	if optimize {
		mode = "on"
	}
	t := c20Run(p.Src, mode)
	if t.Panic != "" || t.ins == nil {
		return "", false
	}
	mainIdx := -1
	for i, e := range t.gl {
		if e.Key == "main.main" {
			mainIdx = i
		}
	}
	if mainIdx < 0 {
		return "", false
	}
	fidx := map[string]int{"": 0}
	all := append(append([]g.VerifIns{}, t.ins...), g.VerifIns{Code: "FASTCALL", CodeN: fastCallN(t.ins), A: mainIdx})
	codes := c20InsCoq(fidx, all)
	var trace []string
	if t.Err != "" {
		fr, _, _, ok := c20Parse(t.Err)
		if !ok {
			return "unparsable:" + t.Err, false
		}
		for _, f := range fr {
			trace = append(trace, coqZ(c20Pos(fidx, f.Fn, f.Line, f.Col)))
		}
	}
	return fmt.Sprintf("CRunBt %s %d %d %s %s %v [%s]", codes, t.slots, len(t.gl), globalsCoq(all, t.gl), coqBytes(t.Out), t.Err == "", strings.Join(trace, "; ")), true
}

func cmdC20Corr(seed uint64, n int, dir string) {
	r := newRng(c20Seed(seed))
	st := newStats()
	var cases []string
	for c := 0; c < n; c++ {
		depth := 1 + c%12
		if c%5 == 4 {
			depth = 13 + r.intn(18)
		}
		p := genC20(r, depth, c%4 == 3, true)
		opt := c%2 == 0
		cs, ok := c20Case(p, opt)
		if !ok {
			if strings.HasPrefix(cs, "unparsable:") {
				// an error text without "<function> <file>:<line>:<col>: <OPCODE>: " / "\t<position>" lines cannot be compared at all
				st.mismatchG("corr-unparsable", c20Mismatch{Kind: "expected-text", Fault: p.Fault, Mode: fmt.Sprintf("optimize=%v", opt), What: "the error text of the run has no parsable position lines", Expected: c20Expect(p.Frames), Got: strings.TrimPrefix(cs, "unparsable:"), Src: p.Src})
			}
			st.Histogram["not_compiled"]++
			continue
		}
		cases = append(cases, cs)
		st.add(fmt.Sprintf("fault=%s optimize=%v", p.Fault, opt), fmt.Sprintf("corr program %d: depth %d, %d active calls, fault %s, entry %s, optimize=%v", c, depth, len(p.Frames)-1, p.Fault, p.Entry, opt))
	}
	files := writeCases(dir, "cases_C20", "From Coq Require Import ZArith List String Floats.\nFrom GV Require Import GoSpec.GoPrim Model.VM Model.CorrVM Model.CorrC20.\nImport ListNotations.\nOpen Scope string_scope.\nOpen Scope Z_scope.\n", "xmismatches", cases, 6)
	st.Extra["files"] = files
	st.write(dir + "/C20_corr_stats.json")
}

// c20-probe -file prog.go: the three error texts of a program (for replays)
func cmdC20Probe(file string) {
	b, err := os.ReadFile(file)
	must(err)
	for _, mode := range []string{"load", "eval", "off", "on"} {
		t := c20Run(string(b), mode)
		fmt.Printf("=== %s (stage %s) out=%q panic=%q\n%s\n--- again: %s\n", mode, t.Stage, t.Out, t.Panic, t.Err, t.Err2)
	}
}

// ---------------------------------------------------------------------------
// c20-pos: structural check of the positions the REAL compiler stamped on the code of every generated program
// (optimizer off and on) and of every test-table string of the repository:
//   - no instruction has a zero position;
//   - file = the program's file; the function name is one the program declares (or "" = package level), and the
//     line lies inside the source range of that function (ranges from the Go parser: the programs are valid Go);
//   - (line, column) is the position of some node of goatlang's own syntax tree (hook VerifParse, full rendering):
//     the observable part of "every instruction carries the position of the node that emitted it".

type c20Range struct{ lo, hi int }

// c20FuncRanges: goatlang's function names -> source line range (lambdas keyed without the column).
func c20FuncRanges(src string) (map[string]c20Range, int, error) {
	fset := token.NewFileSet()
	f, err := parser.ParseFile(fset, "main.go", src, 0)
	if err != nil {
		return nil, 0, err
	}
	res := map[string]c20Range{}
	ast.Inspect(f, func(n ast.Node) bool {
		switch d := n.(type) {
		case *ast.FuncDecl:
			name := "main." + d.Name.Name
			if d.Recv != nil && len(d.Recv.List) == 1 {
				t := d.Recv.List[0].Type
				if st, ok := t.(*ast.StarExpr); ok {
					t = st.X
				}
				if id, ok := t.(*ast.Ident); ok {
					name = "main." + id.Name + "." + d.Name.Name
				}
			}
			res[name] = c20Range{fset.Position(d.Pos()).Line, fset.Position(d.End()).Line}
		case *ast.FuncLit:
			l := fset.Position(d.Pos()).Line
			res[fmt.Sprintf("main.main/main.go:%d", l)] = c20Range{l, fset.Position(d.End()).Line}
		}
		return true
	})
	return res, strings.Count(src, "\n") + 1, nil
}

var c20NodePosRe = regexp.MustCompile(`\|(\d+):(\d+)[ )]`)

type c20PosMismatch struct {
	Kind  string `json:"kind"`
	What  string `json:"what"`
	Mode  string `json:"mode"`
	Index int    `json:"instruction_index"`
	Ins   string `json:"instruction"`
	Pos   string `json:"position"`
	Src   string `json:"src"`
}

func c20PosCheck(st *stats, group, src string, ins []g.VerifIns, mode string, ranges map[string]c20Range, nlines int, nodes map[[2]int]bool, file string) {
	for idx, i := range ins {
		pos := fmt.Sprintf("%s(...) %s:%d:%d", i.Func, i.File, i.Line, i.Col)
		bad := ""
		switch {
		case i.File == "" && i.Line == 0 && i.Col == 0:
			bad = "zero-position: the instruction carries no position (a failure raised here has no function and no line)"
		case file != "" && i.File != file:
			bad = "wrong-file: the instruction names another file"
		case ranges != nil:
			if i.Func == "" {
				if i.Line < 1 || i.Line > nlines {
					bad = "out-of-file: package-level instruction outside the file"
				}
			} else if rg, ok := ranges[c20Norm(i.Func)]; !ok {
				bad = "unknown-function: the instruction names a function the program does not declare"
			} else if i.Line < rg.lo || i.Line > rg.hi {
				bad = fmt.Sprintf("out-of-function: line outside the source range %d..%d of the function it names", rg.lo, rg.hi)
			}
		}
		if bad == "" && nodes != nil && !nodes[[2]int{i.Line, i.Col}] {
			bad = "no-such-node: (line, column) is not the position of any node of the syntax tree"
		}
		if bad != "" {
			k := strings.SplitN(bad, ":", 2)[0]
			st.mismatchG("instruction-position|"+group+"|"+k+"|"+i.Code, c20PosMismatch{Kind: "instruction-position", What: bad, Mode: mode, Index: idx, Ins: i.Text, Pos: pos, Src: src})
		}
	}
}

func cmdC20Pos(seed uint64, n int, dir string) {
	r := newRng(c20Seed(seed) + 7)
	st := newStats()
	total := 0
	for c := 0; c < n; c++ {
		p := genC20(r, 1+c%30, c%4 == 3, c%5 == 4)
		ranges, nlines, err := c20FuncRanges(p.Src)
		if err != nil {
			st.Histogram["generator: not parsable as Go"]++
			continue
		}
		nodes := map[[2]int]bool{}
		if tree, err := g.VerifParse(p.Src, true); err == nil {
			for _, m := range c20NodePosRe.FindAllStringSubmatch(tree, -1) {
				l, _ := strconv.Atoi(m[1])
				cc, _ := strconv.Atoi(m[2])
				nodes[[2]int{l, cc}] = true
			}
		} else {
			nodes = nil
		}
		for _, opt := range []bool{false, true} {
			var out bytes.Buffer
			vm := g.New(g.WithStdout(&out))
			fs := fstest.MapFS{"main/main.go": &fstest.MapFile{Data: []byte(p.Src)}}
			var ins []g.VerifIns
			func() {
				defer func() { recover() }()
				ins, _, _, _ = g.VerifLoadTrace(vm, fs, "main", opt)
			}()
			if ins == nil {
				st.Histogram["not compiled"]++
				continue
			}
			total += len(ins)
			c20PosCheck(st, "generated", p.Src, ins, fmt.Sprintf("optimize=%v", opt), ranges, nlines, nodes, "main/main.go")
		}
		st.add(fmt.Sprintf("generated program fault=%s", p.Fault), fmt.Sprintf("positions of program %d (fault %s, %d lines)", c, p.Fault, strings.Count(p.Src, "\n")))
	}
	// every input string of the repository's test tables that compiles
	nt := 0
	for _, s := range testTableStrings() {
		for _, opt := range []bool{false, true} {
			var ins []g.VerifIns
			var err error
			func() {
				defer func() {
					if r := recover(); r != nil {
						err = fmt.Errorf("%v", r)
					}
				}()
				ins, _, err = g.VerifCompile(g.New(), s, opt)
			}()
			if err != nil || ins == nil {
				continue
			}
			total += len(ins)
			c20PosCheck(st, "test-table", s, ins, fmt.Sprintf("optimize=%v", opt), nil, 0, nil, "")
			if opt {
				nt++
				st.add("test-table string", s)
			}
		}
	}
	st.Extra["instructions_checked"] = total
	st.Extra["test_table_strings"] = nt
	st.write(dir + "/C20_pos_stats.json")
}
