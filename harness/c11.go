package main

import (
	"fmt"
	"strings"

	g "github.com/philhassey/goatlang"
)

func init() {
	register("c11-corr", func(a cmdArgs) { cmdC11Corr(a.seed, a.n, a.dir) })
	register("c11-script", func(a cmdArgs) { cmdC11Script(a.seed, a.n, a.dir) })
}

// ---------------------------------------------------------------------------
// C11 correspondence: histories over a pool of slice variables through the
// host-side Value API (NewSlice/Get/Set/Slice/Append/Len/Range) and through the
// real opcodes (VerifExec: NEWSLICE MAKE SLICE APPEND COPY GET SET LEN) against
// Model/Slice.v.  The capacity of every produced slice is read with VerifCap
// and handed to the model (for a reallocating append it is the growth oracle,
// otherwise the model must agree with it).

type c11Drv struct {
	r     *rng
	vm    *g.VM
	vars  []g.Value
	ety   []int
	codes map[string]int
	shape map[string]int
}

var c11Etys = []int{tagInt32, tagFloat64, tagUint8, tagString}

func c11Caught(f func()) (ok bool) {
	defer func() {
		if r := recover(); r != nil {
			ok = false
		}
	}()
	f()
	return true
}

func (d *c11Drv) exec(name string, a, b int, stack ...g.Value) ([]g.Value, bool) {
	out, _, err := g.VerifExec(d.vm, [][4]int{{d.codes[name], a, b, 0}}, stack)
	return out, err == nil
}

// elem produces a value to store into a slice of element type t: mostly of
// that type, sometimes an untyped constant, rarely nil or a value of another type.
func (d *c11Drv) elem(t int) g.Value {
	x := d.r.intn(100)
	switch {
	case x < 20 && t != tagString:
		return g.VerifNewUntyped(d.r.intn(400) - 100)
	case x < 24:
		return g.VerifMake(0, 0)
	case x < 28:
		return g.Float64(float64(d.r.intn(9)) + 0.5)
	case x < 31:
		return g.Int32(int32(d.r.intn(1000)))
	}
	switch t {
	case tagInt32:
		return g.Int32(int32(d.r.intn(2000) - 1000))
	case tagFloat64:
		return g.Float64(float64(d.r.intn(64)) / 4)
	case tagUint8:
		return g.VerifMake(tagUint8, float64(d.r.intn(256)))
	}
	return g.String(pick(d.r, []string{"", "a", "bc", "xyz", "é"}))
}

func (d *c11Drv) elems(t, n int) ([]g.Value, string) {
	vs := make([]g.Value, n)
	var cs []string
	for i := range vs {
		vs[i] = d.elem(t)
		cs = append(cs, coqValue(vs[i]))
	}
	return vs, "[" + strings.Join(cs, "; ") + "]"
}

func (d *c11Drv) idx(n int) g.Value {
	i := d.r.intn(n+4) - 2
	if n > 0 && d.r.chance(70) {
		i = d.r.intn(n)
	}
	if d.r.chance(30) {
		return g.VerifNewUntyped(i)
	}
	return g.Int32(int32(i))
}

func c11Bool(b bool) string {
	if b {
		return "true"
	}
	return "false"
}

func (d *c11Drv) check(x int) string {
	v := d.vars[x]
	var cs []string
	if g.VerifHasObj(v) {
		for i := 0; i < v.Len(); i++ {
			e, _ := v.Get(g.Int32(int32(i)))
			cs = append(cs, coqValue(e))
		}
	}
	return fmt.Sprintf("HCheck %d [%s]", x, strings.Join(cs, "; "))
}

func (d *c11Drv) initVar(x int) string {
	t := pick(d.r, c11Etys)
	d.ety[x] = t
	switch d.r.intn(5) {
	case 0:
		d.vars[x] = g.VerifMake(g.VerifSliceType(t), 0)
		d.shape["nil"]++
		return fmt.Sprintf("HNil %d %d", x, t)
	case 1:
		n, extra := d.r.intn(6), d.r.intn(7)
		vs, cs := d.elems(t, n)
		data := make([]g.Value, n, n+extra)
		copy(data, vs)
		d.vars[x] = g.NewSlice(g.Type(t), data)
		d.shape["host_newslice"]++
		return fmt.Sprintf("HHost %d %d %s %d %d", x, t, cs, extra, g.VerifCap(d.vars[x]))
	case 2:
		n := d.r.intn(8) - 1
		nv := g.Int32(int32(n))
		if d.r.chance(30) {
			nv = g.VerifNewUntyped(n)
		}
		out, ok := d.exec("MAKE", t, 0, nv)
		d.shape["make"]++
		c := -1
		if ok {
			d.vars[x] = out[len(out)-1]
			c = g.VerifCap(d.vars[x])
		} else {
			d.shape["make_panic"]++
			d.vars[x] = g.VerifMake(g.VerifSliceType(t), 0)
			return fmt.Sprintf("HMakeOp %d %d %s false (-1); HNil %d %d", x, t, coqValue(nv), x, t)
		}
		return fmt.Sprintf("HMakeOp %d %d %s true %d", x, t, coqValue(nv), c)
	default:
		n := d.r.intn(7)
		vs, cs := d.elems(t, n)
		out, _ := d.exec("NEWSLICE", t, n, vs...)
		d.vars[x] = out[len(out)-1]
		d.shape["newslice"]++
		return fmt.Sprintf("HLitOp %d %d %s %d", x, t, cs, g.VerifCap(d.vars[x]))
	}
}

func (d *c11Drv) ops(n, depth int) []string {
	var out []string
	nv := len(d.vars)
	for i := 0; i < n; i++ {
		x, y := d.r.intn(nv), d.r.intn(nv)
		vy := d.vars[y]
		k := d.r.intn(100)
		switch {
		case k < 4:
			out = append(out, d.initVar(x))
		case k < 22: // sub-slice
			ln := vy.Len()
			cp := g.VerifCap(vy)
			if cp < 0 {
				cp = 0
			}
			hi := cp
			if d.r.chance(50) {
				hi = ln
			}
			lo := d.r.intn(hi + 1)
			up := lo + d.r.intn(hi-lo+1)
			if d.r.chance(12) {
				lo, up = d.r.intn(cp+4)-2, d.r.intn(cp+4)-2
			}
			if d.r.chance(50) {
				var res g.Value
				ok := c11Caught(func() { res = vy.Slice(lo, up) })
				c := -1
				if ok {
					d.vars[x], d.ety[x] = res, d.ety[y]
					c = g.VerifCap(res)
				} else {
					d.shape["slice_panic"]++
				}
				d.shape["api_slice"]++
				out = append(out, fmt.Sprintf("HSlice %d %d %s %s %s %s", x, y, coqZ(int64(lo)), coqZ(int64(up)), c11Bool(ok), coqZ(int64(c))))
			} else {
				a, b := g.Value(g.Int32(int32(lo))), g.Value(g.Int32(int32(up)))
				if d.r.chance(30) {
					a = g.VerifNewUntyped(lo)
				}
				if d.r.chance(30) {
					b = g.VerifMake(0, 0) // omitted upper bound
					d.shape["slice_open_end"]++
				}
				st, ok := d.exec("SLICE", 0, 0, vy, a, b)
				c := -1
				if ok {
					d.vars[x], d.ety[x] = st[len(st)-1], d.ety[y]
					c = g.VerifCap(d.vars[x])
				} else {
					d.shape["slice_panic"]++
				}
				d.shape["op_slice"]++
				out = append(out, fmt.Sprintf("HSliceOp %d %d %s %s %s %s", x, y, coqValue(a), coqValue(b), c11Bool(ok), coqZ(int64(c))))
			}
		case k < 34: // element write
			key := d.idx(d.vars[x].Len())
			v := d.elem(d.ety[x])
			var ok bool
			if d.r.chance(50) {
				ok = c11Caught(func() { d.vars[x].Set(key, v) })
				d.shape["api_set"]++
			} else {
				_, ok = d.exec("SET", 0, 0, v, d.vars[x], key)
				d.shape["op_set"]++
			}
			if !ok {
				d.shape["set_panic"]++
			}
			out = append(out, fmt.Sprintf("HSet %d %s %s %s", x, coqValue(key), coqValue(v), c11Bool(ok)))
		case k < 44: // element read
			key := d.idx(d.vars[x].Len())
			var v g.Value
			var ok bool
			if d.r.chance(50) {
				ok = c11Caught(func() { v, _ = d.vars[x].Get(key) })
				d.shape["api_get"]++
			} else {
				var st []g.Value
				st, ok = d.exec("GET", 0, 0, d.vars[x], key)
				if ok {
					v = st[len(st)-1]
				}
				d.shape["op_get"]++
			}
			r := "Panic"
			if ok {
				r = "(Ok " + coqValue(v) + ")"
			} else {
				d.shape["get_panic"]++
			}
			out = append(out, fmt.Sprintf("HGet %d %s %s", x, coqValue(key), r))
		case k < 66: // append
			nIt := d.r.intn(4)
			if d.r.chance(15) {
				nIt += d.r.intn(6)
			}
			vs, cs := d.elems(d.ety[y], nIt)
			before := g.VerifCap(vy)
			if d.r.chance(35) {
				items := make([]g.Value, len(vs))
				copy(items, vs)
				var res g.Value
				if len(items) == 0 {
					res = vy.Append()
				} else {
					res = vy.Append(items...)
				}
				d.shape["api_append"]++
				if !g.VerifHasObj(vy) {
					d.shape["api_append_nil"]++
				}
				out = append(out, fmt.Sprintf("HAppend %d %d %s %d", x, y, cs, g.VerifCap(res)))
				d.vars[x], d.ety[x] = res, d.ety[y]
			} else {
				stack := append([]g.Value{vy}, vs...)
				sp, b := "RNone", 0
				extra := 0
				switch z := d.r.intn(nv + 3); {
				case z < nv && d.r.chance(60):
					stack = append(stack, d.vars[z])
					sp, b = fmt.Sprintf("(RVar %d)", z), 1
					extra = d.vars[z].Len()
					d.shape["append_spread"]++
					if z == y {
						d.shape["append_spread_self"]++
					}
				case z == nv && d.ety[y] == tagUint8:
					s := pick(d.r, []string{"", "a", "hello", "xyz!", "é", "h\x00é\xff", "日本"})
					stack = append(stack, g.String(s))
					sp, b = "(RStr "+coqBytes(s)+")", 1
					extra = len(s)
					d.shape["append_spread_string"]++
				}
				st, ok := d.exec("APPEND", len(stack), b, stack...)
				if !ok {
					must(fmt.Errorf("APPEND panicked"))
				}
				res := st[len(st)-1]
				d.shape["op_append"]++
				if !g.VerifHasObj(vy) {
					d.shape["op_append_nil"]++
				}
				if before >= 0 && vy.Len()+nIt+extra <= before {
					d.shape["append_in_place"]++
				} else {
					d.shape["append_realloc"]++
				}
				out = append(out, fmt.Sprintf("HAppendOp %d %d %s %s %d", x, y, cs, sp, g.VerifCap(res)))
				d.vars[x], d.ety[x] = res, d.ety[y]
			}
		case k < 76: // copy
			if d.r.chance(20) && d.ety[x] == tagUint8 {
				s := pick(d.r, []string{"", "go", "héllo", "abcdefgh"})
				_, ok := d.exec("COPY", 0, 0, d.vars[x], g.String(s))
				if !ok {
					must(fmt.Errorf("COPY panicked"))
				}
				d.shape["copy_string"]++
				out = append(out, fmt.Sprintf("HCopyOp %d (RStr %s)", x, coqBytes(s)))
			} else {
				_, ok := d.exec("COPY", 0, 0, d.vars[x], vy)
				if !ok {
					must(fmt.Errorf("COPY panicked"))
				}
				d.shape["copy"]++
				out = append(out, fmt.Sprintf("HCopyOp %d (RVar %d)", x, y))
			}
		case k < 82:
			if d.r.chance(50) {
				out = append(out, fmt.Sprintf("HLen %d %d", x, d.vars[x].Len()))
			} else {
				st, _ := d.exec("LEN", 0, 0, d.vars[x])
				out = append(out, fmt.Sprintf("HLenOp %d %s", x, coqValue(st[len(st)-1])))
			}
			d.shape["len"]++
		case k < 85:
			out = append(out, fmt.Sprintf("HIsNil %d %s", x, c11Bool(!g.VerifHasObj(d.vars[x]))))
			d.shape["isnil"]++
		case k < 92:
			if depth <= 0 {
				continue
			}
			d.shape["range"]++
			next := d.vars[x].Range()
			var visits []string
			for {
				kk, vv, ok := next()
				if !ok {
					break
				}
				var body []string
				if len(visits) < 8 { // operations between the calls of the iterator, for the first visits
					body = d.ops(d.r.intn(3), depth-1)
				}
				if len(body) > 0 {
					d.shape["mutation_in_range"]++
				}
				visits = append(visits, fmt.Sprintf("(%s, %s, [%s])", coqValue(kk), coqValue(vv), strings.Join(body, "; ")))
			}
			out = append(out, "HRange "+fmt.Sprint(x)+" ["+strings.Join(visits, "; ")+"]")
		default:
			out = append(out, d.check(d.r.intn(nv)))
			d.shape["check"]++
		}
	}
	return out
}

func cmdC11Corr(seed uint64, n int, dir string) {
	r := newRng(seed)
	st := newStats()
	codes := map[string]int{}
	for k, v := range g.VerifCodeNames() {
		codes[v] = k
	}
	for _, need := range []string{"NEWSLICE", "MAKE", "SLICE", "APPEND", "COPY", "GET", "SET", "LEN"} {
		if _, ok := codes[need]; !ok {
			must(fmt.Errorf("opcode %s not found", need))
		}
	}
	var cases []string
	for c := 0; c < n; c++ {
		nv := 3 + r.intn(3)
		d := &c11Drv{r: r, vm: g.New(), vars: make([]g.Value, nv), ety: make([]int, nv), codes: codes, shape: map[string]int{}}
		var ops []string
		for x := 0; x < nv; x++ {
			ops = append(ops, d.initVar(x))
		}
		// bias towards one element type so that aliasing and copies between variables are frequent
		ops = append(ops, d.ops(15+r.intn(50), 2)...)
		for x := 0; x < nv; x++ {
			ops = append(ops, d.check(x))
		}
		cases = append(cases, fmt.Sprintf("CHist %d [%s]", nv, strings.Join(ops, "; ")))
		st.add(fmt.Sprintf("vars=%d", nv), fmt.Sprintf("vars=%d ops=%d %v", nv, len(ops), d.shape))
		for k, v := range d.shape {
			st.Histogram["op:"+k] += v
		}
	}
	files := writeCases(dir, "cases_C11", "From Coq Require Import ZArith List Floats.\nFrom GV Require Import GoSpec.GoPrim Model.CorrC11.\nImport ListNotations.\nOpen Scope Z_scope.\n", "xmismatches", cases, 40)
	st.Extra["files"] = files
	st.write(dir + "/C11_corr_stats.json")
}

// ---------------------------------------------------------------------------
// C11 system level: generated Go programs over a pool of aliasing slice
// variables; the oracle is the Go toolchain.  The generator tracks, per
// variable, (array, offset, length) and per array a lower bound of its size
// and whether that bound is exact, so that every generated observation is one
// the Go specification fixes independently of the growth policy:
//   - an append whose result fits the KNOWN capacity is in place (aliases see it);
//   - an append that exceeds an EXACTLY known capacity goes to a new array;
//   - any other append is only generated as x = append(x, ...) while no other
//     variable shares x's array (then the outcome does not depend on the policy);
//   - re-slicing never reaches beyond the known array size; cap() is never printed.

type c11Kind struct {
	name, goType string
	lits         []string
	derive       []string // %s = an element expression
}

var c11Kinds = []c11Kind{
	{"int", "int", []string{"0", "1", "-3", "7", "42", "100", "2147483647", "-2147483648", "65536"}, []string{"%s + 1", "%s * 2", "%s - 10"}},
	{"string", "string", []string{`""`, `"a"`, `"b"`, `"xy"`, `"go"`, `"é"`}, []string{`%s + "z"`, `"<" + %s + ">"`}},
	{"float64", "float64", []string{"0", "1", "2.5", "-3", "0.25", "100", "1e3", "7"}, []string{"%s / 2", "%s + 0.5", "%s * 3"}},
	{"uint8", "uint8", []string{"0", "1", "7", "100", "200", "255", "128"}, []string{"%s + 200", "%s * 3", "%s - 1"}},
}

type c11Arr struct {
	size  int
	exact bool
}
type c11Var struct {
	name         string
	isNil        bool
	pure         bool // nil by declaration or by `x = nil` (not derived from another nil slice)
	arr, off, ln int
}

type c11Gen struct {
	r     *rng
	sb    *strings.Builder
	T     c11Kind
	vars  []*c11Var
	arrs  []*c11Arr
	kinds map[string]int
	ind   string
	step  int
}

func (s *c11Gen) line(format string, args ...any) {
	s.sb.WriteString(s.ind)
	fmt.Fprintf(s.sb, format, args...)
	s.sb.WriteString("\n")
}

func (s *c11Gen) capLo(v *c11Var) int {
	if v.isNil {
		return 0
	}
	return s.arrs[v.arr].size - v.off
}
func (s *c11Gen) exact(v *c11Var) bool { return v.isNil || s.arrs[v.arr].exact }
func (s *c11Gen) sole(v *c11Var) bool {
	if v.isNil {
		return true
	}
	for _, w := range s.vars {
		if w != v && !w.isNil && w.arr == v.arr {
			return false
		}
	}
	return true
}
func (s *c11Gen) newArr(size int, exact bool) int {
	s.arrs = append(s.arrs, &c11Arr{size, exact})
	return len(s.arrs) - 1
}
func (s *c11Gen) lit() string { return pick(s.r, s.T.lits) }
func (s *c11Gen) lits(n int) string {
	var p []string
	for i := 0; i < n; i++ {
		p = append(p, s.lit())
	}
	return strings.Join(p, ", ")
}

// value: a literal, or an expression over an element of some variable
func (s *c11Gen) value() string {
	if s.r.chance(35) {
		var c []*c11Var
		for _, v := range s.vars {
			if v.ln > 0 {
				c = append(c, v)
			}
		}
		if len(c) > 0 {
			v := pick(s.r, c)
			e := fmt.Sprintf("%s[%d]", v.name, s.r.intn(v.ln))
			if s.r.chance(50) {
				return e
			}
			return fmt.Sprintf(pick(s.r, s.T.derive), e)
		}
	}
	return s.lit()
}

// idx renders an in-range run-time or constant index
func (s *c11Gen) idx(i int) string {
	if s.r.chance(35) {
		s.line("k = %d", i)
		return "k"
	}
	return fmt.Sprint(i)
}

func (s *c11Gen) printAll() {
	s.step++
	var p []string
	for _, v := range s.vars {
		p = append(p, v.name, "len("+v.name+")")
	}
	s.line("fmt.Println(%d, %s)", s.step, strings.Join(p, ", "))
}

func (s *c11Gen) assignFresh(x *c11Var, n int, exact bool) {
	x.isNil, x.arr, x.off, x.ln = false, s.newArr(n, exact), 0, n
}

// one statement changing or observing the pool; inRange limits the choice
// inside range bodies
func (s *c11Gen) stmt(depth int) {
	x, y := pick(s.r, s.vars), pick(s.r, s.vars)
	if s.r.chance(40) { // prefer a second variable that shares x's array
		for _, w := range s.vars {
			if w != x && !w.isNil && !x.isNil && w.arr == x.arr && s.r.chance(60) {
				y = w
				break
			}
		}
	}
	k := s.r.intn(100)
	switch {
	case k < 4:
		n := s.r.intn(6)
		s.line("%s = []%s{%s}", x.name, s.T.goType, s.lits(n))
		s.assignFresh(x, n, true)
		s.kinds["literal"]++
	case k < 8:
		n := s.r.intn(7)
		s.line("%s = make([]%s, %s)", x.name, s.T.goType, s.idx(n))
		s.assignFresh(x, n, true)
		s.kinds["make"]++
	case k < 10:
		s.line("%s = nil", x.name)
		x.isNil, x.pure, x.ln = true, true, 0
		s.kinds["nil"]++
	case k < 30: // sub-slice (two-index forms), possibly beyond len within the known capacity
		if y.isNil {
			s.line("%s = %s[%s]", x.name, y.name, pick(s.r, []string{":", "0:0", ":0", "0:"}))
			x.isNil, x.pure, x.ln = true, false, 0
			s.kinds["subslice_of_nil"]++
			break
		}
		hi := s.capLo(y)
		if s.r.chance(45) {
			hi = y.ln
		}
		i := s.r.intn(hi + 1)
		j := i + s.r.intn(hi-i+1)
		form := s.r.intn(4)
		switch {
		case form == 0 && j == y.ln:
			s.line("%s = %s[%s:]", x.name, y.name, s.idx(i))
		case form == 1:
			i = 0
			s.line("%s = %s[:%s]", x.name, y.name, s.idx(j))
		case form == 2 && j == y.ln:
			i = 0
			s.line("%s = %s[:]", x.name, y.name)
		default:
			a := s.idx(i)
			b := fmt.Sprint(j)
			if a != "k" {
				b = s.idx(j)
			}
			s.line("%s = %s[%s:%s]", x.name, y.name, a, b)
		}
		if j > y.ln {
			s.kinds["subslice_beyond_len"]++
		}
		x.isNil, x.arr, x.off, x.ln = false, y.arr, y.off+i, j-i
		s.kinds["subslice"]++
	case k < 45: // element write
		if x.ln == 0 {
			break
		}
		i := s.r.intn(x.ln)
		if s.r.chance(25) {
			s.line("setAt(%s, %s, %s)", x.name, s.idx(i), s.value())
			s.kinds["write_via_call"]++
		} else if s.r.chance(15) && s.T.name != "string" {
			s.line("%s[%s]++", x.name, s.idx(i))
		} else if s.r.chance(15) {
			s.line("%s[%s] += %s", x.name, s.idx(i), s.lit())
		} else {
			s.line("%s[%s] = %s", x.name, s.idx(i), s.value())
		}
		s.kinds["write"]++
	case k < 67: // append
		spread := s.r.chance(30)
		var z *c11Var
		strSpread := ""
		n := s.r.intn(4)
		if s.r.chance(10) {
			n += s.r.intn(5)
		}
		if spread && s.T.name == "uint8" && s.r.chance(35) {
			strSpread = pick(s.r, []string{"", "a", "go!", "é", "héllo", "日本"})
			n = len(strSpread)
		} else if spread {
			z = pick(s.r, s.vars)
			n = z.ln
		}
		mode := "inplace"
		switch {
		case y.isNil && n == 0:
			mode = "nil"
		case y.isNil:
			mode = "fresh"
		case y.ln+n <= s.capLo(y):
		case s.exact(y):
			mode = "fresh"
		default:
			mode = "uncertain"
		}
		if mode == "uncertain" {
			if !s.sole(y) {
				s.kinds["append_skipped_policy_dependent"]++
				break
			}
			x = y
		}
		var src string
		switch {
		case strSpread != "" || (spread && z == nil):
			src = fmt.Sprintf("append(%s, %q...)", y.name, strSpread)
			s.kinds["append_spread_string"]++
		case spread:
			src = fmt.Sprintf("append(%s, %s...)", y.name, z.name)
			s.kinds["append_spread"]++
			if z == y || (!z.isNil && !y.isNil && z.arr == y.arr) {
				s.kinds["append_spread_same_array"]++
			}
		case n == 0:
			src = fmt.Sprintf("append(%s)", y.name)
		case n == 1 && s.r.chance(30):
			if s.r.chance(50) {
				src = fmt.Sprintf("push(%s, %s)", y.name, s.value())
			} else {
				src = fmt.Sprintf("pushRet(%s, %s)", y.name, s.value())
				s.kinds["append_in_return"]++
			}
			s.kinds["append_via_call"]++
		default:
			var p []string
			for i := 0; i < n; i++ {
				p = append(p, s.value())
			}
			src = fmt.Sprintf("append(%s, %s)", y.name, strings.Join(p, ", "))
		}
		s.line("%s = %s", x.name, src)
		s.kinds["append_"+mode]++
		switch mode {
		case "nil":
			x.isNil, x.pure, x.ln = true, false, 0
		case "inplace":
			x.isNil, x.arr, x.off, x.ln = false, y.arr, y.off, y.ln+n
			if !s.sole(x) {
				s.kinds["append_inplace_with_aliases"]++
			}
		default:
			s.assignFresh(x, y.ln+n, false)
		}
	case k < 78: // copy
		if s.T.name == "uint8" && s.r.chance(30) {
			s.line("copy(%s, %s)", x.name, pick(s.r, []string{`""`, `"go"`, `"héllo"`, `"abcdefgh"`}))
			s.kinds["copy_string"]++
			break
		}
		if x.ln >= 2 && s.r.chance(30) {
			i := 1 + s.r.intn(x.ln-1)
			if s.r.chance(50) {
				s.line("copy(%s[%s:], %s)", x.name, s.idx(i), x.name)
			} else {
				s.line("copy(%s, %s[%s:])", x.name, x.name, s.idx(i))
			}
			s.kinds["copy"]++
			s.kinds["copy_overlapping"]++
			break
		}
		s.line("copy(%s, %s)", x.name, y.name)
		s.kinds["copy"]++
		if !x.isNil && !y.isNil && x.arr == y.arr && x.off != y.off && x.ln > 0 && y.ln > 0 {
			s.kinds["copy_overlapping"]++
		}
	case k < 86: // element reads and arithmetic on them (shows the element type)
		if x.ln == 0 {
			if nk := s.nilKnown(); len(nk) > 0 {
				s.line("fmt.Println(len(%s), %s == nil)", x.name, pick(s.r, nk))
				s.kinds["nil_comparison"]++
			}
			break
		}
		e := fmt.Sprintf("%s[%s]", x.name, s.idx(s.r.intn(x.ln)))
		s.line("fmt.Println(%s, %s)", e, fmt.Sprintf(pick(s.r, s.T.derive), e))
		s.kinds["read"]++
	case k < 96:
		if depth <= 0 {
			break
		}
		s.kinds["range"]++
		switch s.r.intn(4) {
		case 0:
			s.line("for i := range %s {", x.name)
			s.line("\tfmt.Println(i)")
		case 1:
			s.line("for _, v := range %s {", x.name)
			s.line("\tfmt.Println(v)")
		default:
			s.line("for i, v := range %s {", x.name)
			s.line("\tfmt.Println(i, v)")
			if x.ln > 0 && s.r.chance(60) {
				s.kinds["mutation_in_range"]++
				s.line("\tif i == %d {", s.r.intn(x.ln))
				s.ind += "\t\t"
				for n := 1 + s.r.intn(2); n > 0; n-- {
					s.stmt(0)
				}
				s.ind = s.ind[:len(s.ind)-2]
				s.line("\t}")
			}
		}
		s.line("}")
	default:
		s.line("fill(%s, %s)", x.name, s.lit())
		s.kinds["fill_via_call"]++
	}
}

// nilKnown: names of variables whose nil-ness is the same in Go and in every
// faithful implementation (declared nil, or certainly non-nil)
func (s *c11Gen) nilKnown() []string {
	res := []string{}
	for _, v := range s.vars {
		if !v.isNil || v.pure {
			res = append(res, v.name)
		}
	}
	return res
}

// panicEnd emits one out-of-range access through run-time operands
func (s *c11Gen) panicEnd() {
	x := pick(s.r, s.vars)
	s.line("fmt.Println(\"before\")")
	if x.isNil {
		switch s.r.intn(3) {
		case 0:
			s.line("k = 0")
			s.line("fmt.Println(%s[k])", x.name)
		case 1:
			s.line("k = 1")
			s.line("fmt.Println(%s[:k])", x.name)
		default:
			s.line("k = 0")
			s.line("%s[k] = %s", x.name, s.lit())
		}
		s.kinds["panic_nil"]++
		return
	}
	c := s.r.intn(8)
	if !s.exact(x) && (c == 4 || c == 5) {
		c = 0
	}
	switch c {
	case 0:
		s.line("k = %d", x.ln+s.r.intn(3))
		s.line("fmt.Println(%s[k])", x.name)
		s.kinds["panic_index_high"]++
	case 1:
		s.line("k = -%d", 1+s.r.intn(2))
		s.line("fmt.Println(%s[k])", x.name)
		s.kinds["panic_index_negative"]++
	case 2:
		s.line("k = %d", x.ln)
		s.line("%s[k] = %s", x.name, s.lit())
		s.kinds["panic_write_high"]++
	case 3:
		s.line("k = -1")
		s.line("fmt.Println(%s[%s])", x.name, pick(s.r, []string{"k:", ":k", "k:0"}))
		s.kinds["panic_slice_negative"]++
	case 4:
		s.line("k = %d", s.capLo(x)+1+s.r.intn(2))
		s.line("fmt.Println(%s[:k])", x.name)
		s.kinds["panic_slice_beyond_cap"]++
	case 5:
		s.line("k = %d", s.capLo(x)+1)
		s.line("fmt.Println(%s[k:k])", x.name)
		s.kinds["panic_slice_beyond_cap"]++
	case 6:
		s.line("k = %d", x.ln+1)
		s.line("fmt.Println(%s[k:%d])", x.name, x.ln)
		s.kinds["panic_slice_inverted"]++
	default:
		s.line("k = -%d", 1+s.r.intn(3))
		s.line("%s = make([]%s, k)", x.name, s.T.goType)
		s.kinds["panic_make_negative"]++
	}
	s.line("fmt.Println(\"not reached\", %s)", x.name)
}

func c11Helpers(T c11Kind) string {
	t := T.goType
	return fmt.Sprintf("func setAt(s []%s, i int, v %s) {\n\ts[i] = v\n}\n\nfunc push(s []%s, v %s) []%s {\n\tr := append(s, v)\n\treturn r\n}\n\nfunc pushRet(s []%s, v %s) []%s {\n\treturn append(s, v)\n}\n\nfunc fill(s []%s, v %s) {\n\tfor i := range s {\n\t\ts[i] = v\n\t}\n}\n\n", t, t, t, t, t, t, t, t, t, t)
}

func genC11Program(r *rng, T c11Kind, nHist int, kinds map[string]int, withPanic bool) string {
	var sb strings.Builder
	sb.WriteString("package main\n\nimport \"fmt\"\n\n")
	sb.WriteString(c11Helpers(T))
	for h := 0; h < nHist; h++ {
		s := &c11Gen{r: r, sb: &sb, T: T, kinds: kinds, ind: "\t"}
		fmt.Fprintf(&sb, "func h%d() {\n\tvar k int\n\t_ = k\n", h)
		nv := 3 + r.intn(3)
		for i := 0; i < nv; i++ {
			v := &c11Var{name: string(rune('a' + i))}
			s.vars = append(s.vars, v)
			switch r.intn(4) {
			case 0:
				s.line("var %s []%s", v.name, T.goType)
				v.isNil, v.pure = true, true
			case 1:
				n := r.intn(6)
				s.line("%s := make([]%s, %d)", v.name, T.goType, n)
				s.assignFresh(v, n, true)
			default:
				n := 1 + r.intn(6)
				s.line("%s := []%s{%s}", v.name, T.goType, s.lits(n))
				s.assignFresh(v, n, true)
			}
		}
		s.printAll()
		for n := 12 + r.intn(25); n > 0; n-- {
			s.stmt(1)
			s.printAll()
		}
		if withPanic && h == nHist-1 {
			s.panicEnd()
		}
		sb.WriteString("}\n\n")
	}
	sb.WriteString("func main() {\n")
	for h := 0; h < nHist; h++ {
		fmt.Fprintf(&sb, "\tfmt.Println(\"history\", %d)\n\th%d()\n", h, h)
	}
	sb.WriteString("}\n")
	return sb.String()
}

// fixed-shape programs for the constructs with an OPEN finding; one group each
// (group name = the `kind` matched by known_findings.json)
func c11Special(r *rng) [][2]string {
	n1 := r.intn(50) + 1
	return [][2]string{
		{"c11|copy-count", fmt.Sprintf("package main\n\nimport \"fmt\"\n\nfunc main() {\n\ta := []int{1, 2, 3, %d}\n\tn := copy(a, a[2:])\n\tfmt.Println(n)\n\tfmt.Println(a)\n\tm := copy(a[:1], a)\n\tfmt.Println(m)\n}\n", n1)},
		{"c11|nil-stays-nil", "package main\n\nimport \"fmt\"\n\nfunc main() {\n\tvar s []int\n\tt := s[:]\n\tfmt.Println(t == nil, len(t))\n\tu := append(s)\n\tfmt.Println(u == nil)\n\tvar e []int\n\tw := append(s, e...)\n\tfmt.Println(w == nil)\n\tw = append(w, 1)\n\tfmt.Println(w == nil, w)\n}\n"},
	}
}

type c11Job struct {
	group, src, class, key string
	exp                    string
	panicked               bool
	err                    error
}

func cmdC11Script(seed uint64, n int, dir string) {
	r := newRng(seed)
	st := newStats()
	kinds := map[string]int{}
	var jobs []*c11Job
	for c := 0; c < n; c++ {
		T := c11Kinds[c%len(c11Kinds)]
		withPanic := (c/len(c11Kinds))%2 == 0
		src := genC11Program(r, T, 6, kinds, withPanic)
		jobs = append(jobs, &c11Job{group: "c11|history|" + T.name, src: src, class: fmt.Sprintf("history program []%s panic_end=%v", T.name, withPanic),
			key: fmt.Sprintf("program %d: []%s, %d lines", c, T.name, strings.Count(src, "\n"))})
	}
	for _, sp := range c11Special(r) {
		jobs = append(jobs, &c11Job{group: sp[0], src: sp[1], class: "special " + sp[0], key: sp[0]})
	}
	// the Go toolchain runs in parallel; goatlang and the bookkeeping run sequentially
	sem := make(chan struct{}, 8)
	done := make(chan struct{})
	for _, j := range jobs {
		go func(j *c11Job) {
			sem <- struct{}{}
			j.exp, j.panicked, j.err = goRefRun(asInt32(j.src))
			<-sem
			done <- struct{}{}
		}(j)
	}
	for range jobs {
		<-done
	}
	for _, j := range jobs {
		st.add(j.class, j.key)
		c11DiffWith(st, j.group, j.src, j.exp, j.panicked, j.err)
	}
	for k, v := range kinds {
		st.Histogram["construct:"+k] = v
	}
	st.write(dir + "/C11_script_stats.json")
}

// c11DiffWith is diffProgram (c08.go) with the reference run already done.
func c11DiffWith(st *stats, group, src, exp string, panicked bool, err error) {
	if err != nil {
		st.Histogram["invalid_go_program"]++
		if st.Histogram["invalid_go_program"] <= 3 {
			st.Extra[fmt.Sprintf("invalid_go_%d", st.Histogram["invalid_go_program"])] = err.Error() + "\n" + src
		}
		return
	}
	if panicked {
		st.Histogram["reference_run_panicked"]++
	}
	got, gerr := goatRun(src)
	if got == exp && (gerr != nil) == panicked {
		return
	}
	el, gl := strings.Split(exp, "\n"), strings.Split(got, "\n")
	i := 0
	for i < len(el) && i < len(gl) && el[i] == gl[i] {
		i++
	}
	e, gg := "<end>", "<end>"
	if i < len(el) {
		e = el[i]
	}
	if i < len(gl) {
		gg = gl[i]
	}
	es := ""
	if gerr != nil {
		es = gerr.Error()
	}
	st.mismatchG(group, progMismatch{Kind: group, Src: src, Expected: e, Got: gg, Line: i + 1, Err: es})
}
