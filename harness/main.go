// verifharness: drives the real goatlang implementation (built from /repo's
// working tree with -tags verif) and writes observations for the Coq side.
package main

import (
	"flag"
	"fmt"
	"os"
	"sort"
)

type cmdArgs struct {
	seed     uint64
	n        int
	dir      string
	thorough bool
	file     string
}

var commands = map[string]func(cmdArgs){}

// register adds a sub-command; each property file registers its own in an init().
func register(name string, f func(cmdArgs)) { commands[name] = f }

func init() {
	register("c04-corr", func(a cmdArgs) { cmdC04Corr(a.seed, a.n, a.dir) })
	register("c04-sweep", func(a cmdArgs) { cmdC04Sweep(a.seed, a.thorough, a.dir) })
	register("c05", func(a cmdArgs) { cmdC05(a.seed, a.thorough, a.dir) })
	register("c08-corr", func(a cmdArgs) { cmdC08Corr(a.seed, a.n, a.dir) })
	register("c08-script", func(a cmdArgs) { cmdC08Script(a.seed, a.n, a.dir) })
	register("c10-corr", func(a cmdArgs) { cmdC10Corr(a.seed, a.n, a.dir) })
	register("c10-script", func(a cmdArgs) { cmdC10Script(a.seed, a.n, a.dir) })
	register("c12-corr", func(a cmdArgs) { cmdC12Corr(a.seed, a.n, a.dir) })
	register("c12-script", func(a cmdArgs) { cmdC12Script(a.seed, a.n, a.dir) })
	register("c15", func(a cmdArgs) { cmdC15(a.seed, a.n, a.dir) })
	register("c16-corr", func(a cmdArgs) { cmdC16Corr(a.seed, a.n, a.dir) })
	register("c16-perm", func(a cmdArgs) { cmdC16Perm(a.seed, a.n, a.dir) })
	register("probe", func(a cmdArgs) { cmdProbe(a.file) })
}

func main() {
	if len(os.Args) < 2 {
		var names []string
		for k := range commands {
			names = append(names, k)
		}
		sort.Strings(names)
		fmt.Fprintln(os.Stderr, "usage: harness <cmd> [flags]; commands:", names)
		os.Exit(2)
	}
	cmd := os.Args[1]
	fs := flag.NewFlagSet(cmd, flag.ExitOnError)
	var a cmdArgs
	fs.Uint64Var(&a.seed, "seed", 1, "PRNG seed")
	fs.IntVar(&a.n, "n", 1000, "case count")
	fs.StringVar(&a.dir, "out", ".", "output directory")
	fs.BoolVar(&a.thorough, "thorough", false, "thorough tier")
	fs.StringVar(&a.file, "file", "", "input file (probe / replay)")
	fs.Parse(os.Args[2:])
	must(os.MkdirAll(a.dir, 0o755))
	f, ok := commands[cmd]
	if !ok {
		fmt.Fprintln(os.Stderr, "unknown command", cmd)
		os.Exit(2)
	}
	f(a)
}
