// verifharness: drives the real goatlang implementation (built from /repo's
// working tree with -tags verif) and writes observations for the Coq side.
package main

import (
	"flag"
	"fmt"
	"os"
)

func main() {
	if len(os.Args) < 2 {
		fmt.Fprintln(os.Stderr, "usage: harness <cmd> [flags]")
		os.Exit(2)
	}
	cmd := os.Args[1]
	fs := flag.NewFlagSet(cmd, flag.ExitOnError)
	seed := fs.Uint64("seed", 1, "PRNG seed")
	n := fs.Int("n", 1000, "case count")
	dir := fs.String("out", ".", "output directory")
	thorough := fs.Bool("thorough", false, "thorough tier")
	file := fs.String("file", "", "input file (replay)")
	fs.Parse(os.Args[2:])
	_ = file
	must(os.MkdirAll(*dir, 0o755))
	switch cmd {
	case "c04-corr":
		cmdC04Corr(*seed, *n, *dir)
	case "c04-sweep":
		cmdC04Sweep(*seed, *thorough, *dir)
	case "c12-corr":
		cmdC12Corr(*seed, *n, *dir)
	case "c10-corr":
		cmdC10Corr(*seed, *n, *dir)
	case "c10-script":
		cmdC10Script(*seed, *n, *dir)
	case "probe":
		cmdProbe(*file)
	case "c08-corr":
		cmdC08Corr(*seed, *n, *dir)
	case "c08-script":
		cmdC08Script(*seed, *n, *dir)
	case "c15":
		cmdC15(*seed, *n, *dir)
	case "c16-corr":
		cmdC16Corr(*seed, *n, *dir)
	case "c16-perm":
		cmdC16Perm(*seed, *n, *dir)
	case "c12-script":
		cmdC12Script(*seed, *n, *dir)
	case "c05":
		cmdC05(*seed, *thorough, *dir)
	default:
		fmt.Fprintln(os.Stderr, "unknown command", cmd)
		os.Exit(2)
	}
}
