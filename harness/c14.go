package main

import (
	"bytes"
	"fmt"
	"math"
	"os"
	"reflect"
	"regexp"
	"strconv"
	"strings"
	"testing/fstest"
	"time"

	g "github.com/philhassey/goatlang"
)

// ---------------------------------------------------------------------------
// C14: printed values look as Go prints them, and printing always terminates.
//
// A value is described once (p14v) and realised four ways: as a goatlang Value
// through the host API, as a native Go value (reflect) whose fmt rendering is the
// oracle, as a Coq gval (GoSpec/GoFmt.v) and as Go source text for the script
// differential.

func init() {
	register("c14-corr", func(a cmdArgs) { cmdC14Corr(a.seed, a.n, a.dir) })
	register("c14-script", func(a cmdArgs) { cmdC14Script(a.seed, a.n, a.dir) })
	// c14-goat -file prog.go: run one program with goatlang only (replaying a recorded src)
	register("c14-goat", func(a cmdArgs) {
		b, err := os.ReadFile(a.file)
		must(err)
		out, gerr := goatRun(string(b))
		fmt.Printf("%s--- err=%v\n", out, gerr)
	})
}

type p14t struct {
	kind string // bool int8 uint8 int32 uint32 float64 string slice map
	elem *p14t
	key  *p14t
}

type p14v struct {
	t     *p14t
	isNil bool // nil slice / nil map
	b     bool
	i     int64
	f     float64
	s     string
	elems []*p14v // slice elements
	key   *p14v   // single map entry; nil = empty map
	val   *p14v
}

var p14Scalars = []string{"bool", "int8", "uint8", "int32", "uint32", "float64", "string"}
var p14Keys = []string{"string", "int32", "uint8", "bool", "float64", "uint32", "int8"}

func (t *p14t) scalar() bool { return t.kind != "slice" && t.kind != "map" }

func (t *p14t) goSrc() string {
	switch t.kind {
	case "slice":
		return "[]" + t.elem.goSrc()
	case "map":
		return "map[" + t.key.goSrc() + "]" + t.elem.goSrc()
	case "int32":
		return "int" // goatlang's int is int32; asInt32 rewrites the reference program
	}
	return t.kind
}

func (t *p14t) tag() int {
	switch t.kind {
	case "bool":
		return tagBool
	case "int8":
		return tagInt8
	case "uint8":
		return tagUint8
	case "int32":
		return tagInt32
	case "uint32":
		return tagUint32
	case "float64":
		return tagFloat64
	case "string":
		return tagString
	case "slice":
		return g.VerifSliceType(t.elem.tag())
	}
	return g.VerifMapType(t.key.tag(), t.elem.tag())
}

func (t *p14t) rtype() reflect.Type {
	switch t.kind {
	case "bool":
		return reflect.TypeOf(false)
	case "int8":
		return reflect.TypeOf(int8(0))
	case "uint8":
		return reflect.TypeOf(uint8(0))
	case "int32":
		return reflect.TypeOf(int32(0))
	case "uint32":
		return reflect.TypeOf(uint32(0))
	case "float64":
		return reflect.TypeOf(float64(0))
	case "string":
		return reflect.TypeOf("")
	case "slice":
		return reflect.SliceOf(t.elem.rtype())
	}
	return reflect.MapOf(t.key.rtype(), t.elem.rtype())
}

// depth: scalars 0; every slice or map (nil or not) is one level (GoFmt.depth).
func (p *p14v) depth() int {
	if p.t.scalar() {
		return 0
	}
	d := 0
	for _, e := range p.elems {
		d = maxInt14(d, e.depth())
	}
	if p.val != nil {
		d = maxInt14(d, p.val.depth())
	}
	return d + 1
}

func maxInt14(a, b int) int {
	if a > b {
		return a
	}
	return b
}

func (p *p14v) floats(acc *[]float64) {
	if p.t.kind == "float64" {
		*acc = append(*acc, p.f)
	}
	for _, e := range p.elems {
		e.floats(acc)
	}
	if p.key != nil {
		p.key.floats(acc)
		p.val.floats(acc)
	}
}

func (p *p14v) hasSpecialFloat() bool {
	var fs []float64
	p.floats(&fs)
	for _, f := range fs {
		if math.IsNaN(f) || math.IsInf(f, 0) || (f == 0 && math.Signbit(f)) {
			return true
		}
	}
	return false
}

// goat builds the value through the public host API.
func (p *p14v) goat() g.Value {
	switch p.t.kind {
	case "bool":
		return g.Bool(p.b)
	case "int8":
		return g.Int8(int8(p.i))
	case "uint8":
		return g.Uint8(uint8(p.i))
	case "int32":
		return g.Int32(int32(p.i))
	case "uint32":
		return g.Uint32(uint32(p.i))
	case "float64":
		return g.Float64(p.f)
	case "string":
		return g.String(p.s)
	case "slice":
		if p.isNil {
			return g.VerifAssign(g.Nil(), p.t.tag()) // what NewSlice does with a Nil() element
		}
		var vs []g.Value
		for _, e := range p.elems {
			if e.isNil {
				vs = append(vs, g.Nil()) // assign() gives it the element type
			} else {
				vs = append(vs, e.goat())
			}
		}
		return g.NewSlice(g.Type(p.t.elem.tag()), vs)
	}
	if p.isNil {
		return g.VerifAssign(g.Nil(), p.t.tag())
	}
	var in []g.Value
	if p.key != nil {
		v := p.val.goat()
		if p.val.isNil {
			v = g.Nil()
		}
		in = []g.Value{p.key.goat(), v}
	}
	return g.NewMap(g.Type(p.t.key.tag()), g.Type(p.t.elem.tag()), in)
}

func (p *p14v) native() reflect.Value {
	rt := p.t.rtype()
	v := reflect.New(rt).Elem()
	switch p.t.kind {
	case "bool":
		v.SetBool(p.b)
	case "int8", "int32":
		v.SetInt(p.i)
	case "uint8", "uint32":
		v.SetUint(uint64(p.i))
	case "float64":
		v.SetFloat(p.f)
	case "string":
		v.SetString(p.s)
	case "slice":
		if !p.isNil {
			v.Set(reflect.MakeSlice(rt, 0, len(p.elems)))
			for _, e := range p.elems {
				v.Set(reflect.Append(v, e.native()))
			}
		}
	case "map":
		if !p.isNil {
			v.Set(reflect.MakeMap(rt))
			if p.key != nil {
				v.SetMapIndex(p.key.native(), p.val.native())
			}
		}
	}
	return v
}

func (p *p14v) coqG() string {
	switch p.t.kind {
	case "bool":
		return fmt.Sprintf("(GBool %v)", p.b)
	case "int8", "uint8", "int32", "uint32":
		return "(GInt " + coqZ(p.i) + ")"
	case "float64":
		return "(GFloat " + coqFloat(p.f) + ")"
	case "string":
		return "(GStr " + coqBytes(p.s) + ")"
	case "slice":
		if p.isNil {
			return "GNilSlice"
		}
		var es []string
		for _, e := range p.elems {
			es = append(es, e.coqG())
		}
		return "(GSlice [" + strings.Join(es, "; ") + "])"
	}
	if p.isNil {
		return "GNilMap"
	}
	if p.key == nil {
		return "GMap0"
	}
	return "(GMap1 " + p.key.coqG() + " " + p.val.coqG() + ")"
}

// goLit: Go source of the value.  typed = the context already fixes the type
// (element of a composite literal, initialiser of a typed var).  Special floats
// are written as arithmetic on the variable z (z := 0.0 in scope).
func (p *p14v) goLit(typed bool) string { return p.goLitP(typed, nil) }

// goLitP: pre collects `var nK T` declarations for nil slices / maps used as operands
// (goatlang has no T(nil) conversion syntax; without pre the text is only descriptive).
func (p *p14v) goLitP(typed bool, pre *[]string) string {
	nilOperand := func() string {
		if pre == nil {
			return p.t.goSrc() + "(nil)"
		}
		name := fmt.Sprintf("n%d", len(*pre))
		*pre = append(*pre, fmt.Sprintf("var %s %s\n", name, p.t.goSrc()))
		return name
	}
	switch p.t.kind {
	case "bool":
		return fmt.Sprint(p.b)
	case "int8", "uint8", "uint32":
		if typed {
			return fmt.Sprint(p.i)
		}
		return fmt.Sprintf("%s(%d)", p.t.kind, p.i)
	case "int32":
		if !typed && p.i < 0 {
			return fmt.Sprintf("(%d)", p.i)
		}
		return fmt.Sprint(p.i)
	case "float64":
		f := p.f
		switch {
		case math.IsNaN(f):
			return "z / z"
		case math.IsInf(f, 1):
			return "1 / z"
		case math.IsInf(f, -1):
			return "-1 / z"
		case f == 0 && math.Signbit(f):
			return "-z"
		}
		s := strconv.FormatFloat(f, 'g', -1, 64)
		if !strings.ContainsAny(s, ".e") {
			s += ".0"
		}
		if !typed && f < 0 {
			return "(" + s + ")"
		}
		return s
	case "string":
		return strconv.Quote(p.s)
	case "slice":
		if p.isNil {
			if typed {
				return "nil"
			}
			return nilOperand()
		}
		var es []string
		for _, e := range p.elems {
			es = append(es, e.goLitP(true, pre))
		}
		if typed {
			return "{" + strings.Join(es, ", ") + "}"
		}
		return p.t.goSrc() + "{" + strings.Join(es, ", ") + "}"
	}
	if p.isNil {
		if typed {
			return "nil"
		}
		return nilOperand()
	}
	body := ""
	if p.key != nil {
		body = p.key.goLitP(true, pre) + ": " + p.val.goLitP(true, pre)
	}
	if typed {
		return "{" + body + "}"
	}
	return p.t.goSrc() + "{" + body + "}"
}

// ---- generators ----

// newRng(seed) and newRng(seed+1) are the same splitmix64 stream shifted by one draw;
// take the stream position from a mixed seed so that seeds give unrelated runs.
func c14Rng(seed uint64) *rng { return newRng(newRng(seed).next() ^ 0xC14) }

var p14Strings = []string{"", "a", "a b", "héllo", "日本語", "✓ ok", "x:y", "[1 2]", "map[", "\"q\"", "back\\slash",
	" lead", "trail ", "tab\there", "<nil>", "nil", "true", "-0", "%d%v", "é", "&{A:1}", "0x1p-2", "NaN", "+Inf"}

var p14Floats = []float64{0, math.Copysign(0, -1), 1, -1, 0.5, 1.5, -2.25, 3, 100, 1e20, 1e21, 1.5e21, 123456789, 1.2345678901234567e+20,
	99999999999999983222784, 0.0001, 0.00001, 0.000123, 1.5e-7, 1e-5, 9.999e-5, 5e-324, 2.2250738585072014e-308, 2.225073858507201e-308,
	math.MaxFloat64, -math.MaxFloat64, math.Inf(1), math.Inf(-1), math.NaN(), 0.1, 0.2, 0.30000000000000004, 1.0 / 3, 2147483648, 4294967296,
	9007199254740992, 9007199254740993, 1e15, 1e16, 123456.789, -0.000001, 16777216.5, math.Pi, math.E, math.SmallestNonzeroFloat64 * 3}

func p14FloatClass(f float64) string {
	a := math.Abs(f)
	switch {
	case math.IsNaN(f):
		return "nan"
	case math.IsInf(f, 0):
		return "inf"
	case f == 0 && math.Signbit(f):
		return "negzero"
	case f == 0:
		return "zero"
	case a < 2.2250738585072014e-308:
		return "subnormal"
	case a < 1e-4:
		return "small-exponent-form"
	case a >= 1e21:
		return "large-exponent-form"
	case a == math.Trunc(a):
		return "integral"
	}
	return "fraction"
}

func p14GenFloat(r *rng, scriptSafe bool) float64 {
	x := r.intn(100)
	switch {
	case x < 45:
		return pick(r, p14Floats)
	case x < 70:
		// random bit pattern: every exponent equally likely
		f := math.Float64frombits(r.next())
		if math.IsNaN(f) {
			return math.NaN()
		}
		return f
	case x < 85:
		// around the %e/%f thresholds
		e := pick(r, []int{-6, -5, -4, -3, 19, 20, 21, 22})
		return float64(1+r.intn(9999)) / 1000 * math.Pow(10, float64(e))
	default:
		return float64(r.intn(2000001)-1000000) / float64(pick(r, []int{1, 2, 4, 8, 10, 100, 1000}))
	}
}

func p14GenScalar(r *rng, kind string) *p14v {
	p := &p14v{t: &p14t{kind: kind}}
	edge := r.chance(50)
	switch kind {
	case "bool":
		p.b = r.chance(50)
	case "int8":
		p.i = int64(pick(r, []int{-128, -1, 0, 1, 127, 100, -100}))
		if !edge {
			p.i = int64(r.intn(256) - 128)
		}
	case "uint8":
		p.i = int64(pick(r, []int{0, 1, 127, 128, 200, 255}))
		if !edge {
			p.i = int64(r.intn(256))
		}
	case "int32":
		p.i = pick(r, []int64{-2147483648, -2147483647, -1, 0, 1, 9, 10, 99, 100, 1000000, 2147483647, 2147483646, 1 << 24, -(1 << 24) - 1})
		if !edge {
			p.i = int64(int32(uint32(r.next())))
		}
	case "uint32":
		p.i = pick(r, []int64{0, 1, 2147483647, 2147483648, 2147483649, 3000000000, 4294967295, 4294967294})
		if !edge {
			p.i = int64(uint32(r.next()))
		}
	case "float64":
		p.f = p14GenFloat(r, false)
	case "string":
		p.s = pick(r, p14Strings)
	}
	return p
}

// bits: width of goatlang's Type encoding of t (8 per scalar / slice level, 16 per map level).
// Beyond 64 the encoding overflows (scripts are rejected with "untyped data", a nil of such a type
// degenerates to the untyped nil): a limitation of the type representation, not of printing, so the
// generators stay within it.
func (t *p14t) bits() int {
	switch t.kind {
	case "slice":
		return 8 + t.elem.bits()
	case "map":
		return 16 + t.elem.bits()
	}
	return 8
}

func p14GenType(r *rng, depth int) *p14t {
	for {
		if t := p14GenTypeRaw(r, depth); t.bits() <= 64 {
			return t
		}
	}
}

func p14GenTypeRaw(r *rng, depth int) *p14t {
	if depth == 0 {
		return &p14t{kind: pick(r, p14Scalars)}
	}
	if r.chance(70) {
		return &p14t{kind: "slice", elem: p14GenTypeRaw(r, depth-1)}
	}
	return &p14t{kind: "map", key: &p14t{kind: pick(r, p14Keys)}, elem: p14GenTypeRaw(r, depth-1)}
}

// p14GenValue: full = do not cut the nesting short with nil / empty containers
func p14GenValue(r *rng, t *p14t, full bool) *p14v {
	if t.scalar() {
		p := p14GenScalar(r, t.kind)
		p.t = t
		return p
	}
	p := &p14v{t: t}
	x := r.intn(100)
	if !full && x < 12 {
		p.isNil = true
		return p
	}
	if !full && x < 24 {
		return p // empty, non-nil
	}
	if t.kind == "slice" {
		n := 1 + r.intn(3)
		for i := 0; i < n; i++ {
			p.elems = append(p.elems, p14GenValue(r, t.elem, full && i == 0))
		}
		return p
	}
	p.key = p14GenScalar(r, t.key.kind)
	p.key.t = t.key
	if t.key.kind == "float64" && math.IsNaN(p.key.f) {
		p.key.f = 2.5
	}
	p.val = p14GenValue(r, t.elem, full)
	return p
}

// ---- observations ----

type c14Mismatch struct {
	Kind     string `json:"kind"`    // "print"
	Class    string `json:"class"`   // which family of operands
	Depth    int    `json:"depth"`   // nesting depth of the deepest operand
	Deep     bool   `json:"deep"`    // depth >= 3
	Symptom  string `json:"symptom"` // elided ([...] / map[...] / &{...} in the output) | error | differs
	Via      string `json:"via"`     // host-api | script
	Src      string `json:"src"`
	Expected string `json:"expected"`
	Got      string `json:"got"`
	Err      string `json:"err,omitempty"`
}

var c14Elided = regexp.MustCompile(`\[\.\.\.\]|&\{\.\.\.\}`)

func c14Record(st *stats, class string, depth int, via, src, exp, got, err string) {
	symptom := "differs"
	switch {
	case err != "":
		symptom = "error"
	case c14Elided.MatchString(got) && !c14Elided.MatchString(exp):
		symptom = "elided"
	}
	st.mismatchG(fmt.Sprintf("print|%s|%s|depth=%d|%s", via, class, depth, symptom),
		c14Mismatch{Kind: "print", Class: class, Depth: depth, Deep: depth >= 3, Symptom: symptom, Via: via, Src: src, Expected: exp, Got: got, Err: err})
}

func c14ObsErr(obs string) string {
	if strings.HasPrefix(obs, "(OStr") {
		return ""
	}
	return obs
}

// watched runs f under a watchdog: a panic or non-termination is an observation.
func c14Watched(f func() string) (s string, obs string) {
	type res struct {
		s   string
		obs string
	}
	ch := make(chan res, 1)
	go func() {
		defer func() {
			if r := recover(); r != nil {
				ch <- res{fmt.Sprint(r), "OPanic"}
			}
		}()
		ch <- res{f(), ""}
	}()
	select {
	case r := <-ch:
		if r.obs != "" {
			return r.s, r.obs
		}
		return r.s, "(OStr " + coqBytes(r.s) + ")"
	case <-time.After(10 * time.Second):
		return "<no answer within 10 s>", "OTimeout"
	}
}

// ---- heap description of a real object graph ----

type c14Heap struct {
	vm     *g.VM
	fields map[string][]string // struct type name -> field names in declaration order
	objs   []g.Value
	descr  []string
	floats []float64
	bad    string
}

func (w *c14Heap) val(v g.Value) string {
	tag := g.VerifTag(v)
	base := tag & 0xff
	num := coqNum(tag, g.VerifNum(v))
	if tag == tagFloat64 {
		w.floats = append(w.floats, g.VerifNum(v))
	}
	if !g.VerifHasObj(v) {
		return fmt.Sprintf("(mkValue %s %s PNone)", coqZ(int64(tag)), num)
	}
	if base == tagString {
		return fmt.Sprintf("(mkValue %s %s (PStr %s))", coqZ(int64(tag)), num, coqBytes(v.String()))
	}
	if base != 128 && base != 160 && base != 224 {
		w.bad = fmt.Sprintf("object of tag %d is not modelled", tag)
		return fmt.Sprintf("(mkValue %s %s (PRef 0))", coqZ(int64(tag)), num)
	}
	for i, o := range w.objs {
		if g.VerifSameObject(o, v) {
			return fmt.Sprintf("(mkValue %s %s (PRef %d))", coqZ(int64(tag)), num, i+1)
		}
	}
	w.objs = append(w.objs, v)
	w.descr = append(w.descr, "")
	addr := len(w.objs)
	var d string
	switch base {
	case 128:
		var es []string
		for i := 0; i < v.Len(); i++ {
			e, _ := v.Get(g.Int32(int32(i)))
			es = append(es, w.val(e))
		}
		d = "OSlice [" + strings.Join(es, "; ") + "]"
	case 160:
		kt := (tag >> 8) & 0xff
		if v.Len() > 1 {
			w.bad = "map with more than one entry (print order unspecified)"
		}
		var es []string
		next := v.Range()
		for {
			k, e, ok := next()
			if !ok {
				break
			}
			if kt == tagFloat64 {
				w.floats = append(w.floats, g.VerifNum(k))
			}
			if kt == tagString {
				es = append(es, fmt.Sprintf("(%s, %s)", coqBytes(k.String()), w.val(e)))
			} else {
				es = append(es, fmt.Sprintf("(%s, %s)", coqNum(kt, g.VerifNum(k)), w.val(e)))
			}
		}
		if kt == tagString {
			d = "OStrMap [" + strings.Join(es, "; ") + "]"
		} else {
			d = fmt.Sprintf("ONumMap %d [%s]", kt, strings.Join(es, "; "))
		}
	case 224:
		name := g.VerifTypeStr(w.vm, v)
		fs, ok := w.fields[name]
		if !ok {
			w.bad = "unknown struct type " + name
		}
		var es []string
		for _, f := range fs {
			es = append(es, fmt.Sprintf("(%s, %s)", coqBytes(f), w.val(v.GetAttr(f))))
		}
		d = "OStruct [" + strings.Join(es, "; ") + "]"
	}
	w.descr[addr-1] = fmt.Sprintf("(%d, %s)", addr, d)
	return fmt.Sprintf("(mkValue %s %s (PRef %d))", coqZ(int64(tag)), num, addr)
}

func (w *c14Heap) heap() string { return "[" + strings.Join(w.descr, "; ") + "]" }

func c14FTab(fs []float64) string {
	var es []string
	seen := map[uint64]bool{}
	for _, f := range fs {
		b := math.Float64bits(f)
		if math.IsNaN(f) {
			b = 0x7ff8000000000001 // one entry for all NaNs
		}
		if seen[b] {
			continue
		}
		seen[b] = true
		es = append(es, fmt.Sprintf("(%s, %s)", coqFloat(f), coqBytes(fmt.Sprint(f))))
	}
	return "[" + strings.Join(es, "; ") + "]"
}

func p14Class(p *p14v) string {
	switch {
	case p.t.kind == "float64":
		return "float64:" + p14FloatClass(p.f)
	case p.t.scalar():
		return p.t.kind
	}
	return p.t.kind
}

const c14Header = "From Coq Require Import ZArith List Floats.\nFrom GV Require Import GoSpec.GoPrim GoSpec.GoFmt Model.Print Model.CorrC14.\nImport ListNotations.\nOpen Scope Z_scope.\n"

// struct types used by script-built values (declaration order matters)
type c14Struct struct {
	name   string
	fields []string
	types  []*p14t
}

func c14StructDecl(s c14Struct, self bool) string {
	var sb strings.Builder
	fmt.Fprintf(&sb, "type %s struct {\n", s.name)
	for i, f := range s.fields {
		fmt.Fprintf(&sb, "\t%s %s\n", f, s.types[i].goSrc())
	}
	if self {
		fmt.Fprintf(&sb, "\tNext *%s\n\tKids []*%s\n", s.name, s.name)
	}
	sb.WriteString("}\n")
	return sb.String()
}

func c14GenStruct(r *rng, name string, maxDepth int) c14Struct {
	s := c14Struct{name: name}
	pool := []string{"A", "Bb", "C", "Zed", "D1", "E", "F", "Go", "H", "Aa"}
	n := r.intn(6)
	perm := []int{0, 1, 2, 3, 4, 5, 6, 7, 8, 9}
	for i := range perm { // declaration order is NOT alphabetical
		j := i + r.intn(len(perm)-i)
		perm[i], perm[j] = perm[j], perm[i]
	}
	for i := 0; i < n; i++ {
		s.fields = append(s.fields, pool[perm[i]])
		d := 0
		if r.chance(50) {
			d = 1 + r.intn(maxDepth)
		}
		s.types = append(s.types, p14GenType(r, d))
	}
	return s
}

// native pointer-to-struct for the oracle (%+v)
func c14NativeStruct(s c14Struct, vals []*p14v) any {
	var sf []reflect.StructField
	for i, f := range s.fields {
		sf = append(sf, reflect.StructField{Name: f, Type: s.types[i].rtype()})
	}
	p := reflect.New(reflect.StructOf(sf))
	for i := range s.fields {
		if vals[i] != nil {
			p.Elem().Field(i).Set(vals[i].native())
		}
	}
	return p.Interface()
}

func c14StructG(s c14Struct, vals []*p14v) string {
	var es []string
	for i, f := range s.fields {
		es = append(es, fmt.Sprintf("(%s, %s)", coqBytes(f), vals[i].coqG()))
	}
	return "(GStructRef [" + strings.Join(es, "; ") + "])"
}

func p14Zero(t *p14t) *p14v {
	p := &p14v{t: t}
	if !t.scalar() {
		p.isNil = true
	}
	return p
}

func cmdC14Corr(seed uint64, n int, dir string) {
	r := c14Rng(seed)
	st := newStats()
	var cases []string
	add := func(class, key, c string) {
		cases = append(cases, c)
		st.add(class, key)
	}

	// 1. values built through NewSlice / NewMap / scalar constructors
	for c := 0; c < n; c++ {
		depth := c % 6 // 0..5
		p := p14GenValue(r, p14GenType(r, depth), c%3 == 0)
		v := p.goat()
		w := &c14Heap{}
		vt := w.val(v)
		var fs []float64
		p.floats(&fs)
		tab := c14FTab(append(fs, w.floats...))
		got, obs := c14Watched(v.String)
		d := p.depth()
		class := fmt.Sprintf("host value depth=%d %s", d, p14Class(p))
		if w.bad != "" {
			st.Histogram["skipped: "+w.bad]++
			continue
		}
		add("String: "+class, "String "+p.goLit(false), fmt.Sprintf("CString %s %s %s %s", tab, w.heap(), vt, obs))
		exp := fmt.Sprint(p.native().Interface())
		add("spec: Go value depth="+strconv.Itoa(d), "spec "+p.goLit(false), fmt.Sprintf("CSpec %s (GVal %s) %s", tab, p.coqG(), coqBytes(exp)))
		if got != exp || !strings.HasPrefix(obs, "(OStr") {
			c14Record(st, p14Class(p), d, "host-api", "Value.String() of "+p.goLit(false), exp, got, c14ObsErr(obs))
		}
	}

	// 1b. every float64 class: as a scalar, inside a slice and as key and value of a map
	fl := append([]float64{}, p14Floats...)
	for i := 0; i < n/3; i++ {
		fl = append(fl, p14GenFloat(r, false))
	}
	for i, f := range fl {
		ft := &p14t{kind: "float64"}
		p := &p14v{t: ft, f: f}
		switch i % 3 {
		case 1:
			p = &p14v{t: &p14t{kind: "slice", elem: ft}, elems: []*p14v{p, {t: ft, f: -f}}}
		case 2:
			if !math.IsNaN(f) {
				p = &p14v{t: &p14t{kind: "map", key: ft, elem: ft}, key: p, val: &p14v{t: ft, f: f}}
			}
		}
		v := p.goat()
		w := &c14Heap{}
		vt := w.val(v)
		tab := c14FTab(append([]float64{f, -f}, w.floats...))
		got, obs := c14Watched(v.String)
		class := "float64:" + p14FloatClass(f)
		add("String: "+class, fmt.Sprintf("String float %x %d", math.Float64bits(f), i%3), fmt.Sprintf("CString %s %s %s %s", tab, w.heap(), vt, obs))
		exp := fmt.Sprint(p.native().Interface())
		add("spec: "+class, fmt.Sprintf("spec float %x %d", math.Float64bits(f), i%3), fmt.Sprintf("CSpec %s (GVal %s) %s", tab, p.coqG(), coqBytes(exp)))
		if got != exp {
			c14Record(st, class, p.depth(), "host-api", "Value.String() of "+p.goLit(false), exp, got, c14ObsErr(obs))
		}
	}

	// 2. Println / Sprint of several operands through vm.Call
	for c := 0; c < n/4+4; c++ {
		var out bytes.Buffer
		vm := g.New(g.WithStdout(&out))
		k := r.intn(5)
		if c < 2 {
			k = c // no operand, one operand
		}
		var ps []*p14v
		var vs []g.Value
		var nat []any
		var gs, lits []string
		w := &c14Heap{vm: vm}
		var vts []string
		var fs []float64
		d := 0
		for i := 0; i < k; i++ {
			p := p14GenValue(r, p14GenType(r, r.intn(3)), false)
			ps = append(ps, p)
			v := p.goat()
			vs = append(vs, v)
			vts = append(vts, w.val(v))
			nat = append(nat, p.native().Interface())
			gs = append(gs, "GVal "+p.coqG())
			lits = append(lits, p.goLit(false))
			p.floats(&fs)
			d = maxInt14(d, p.depth())
		}
		tab := c14FTab(append(fs, w.floats...))
		key := strings.Join(lits, ", ")
		_, obs := c14Watched(func() string {
			if _, err := vm.Call("fmt.Println", 0, append([]g.Value{}, vs...)...); err != nil {
				panic(err)
			}
			return out.String()
		})
		got := out.String()
		add(fmt.Sprintf("Println operands=%d", k), "Println "+key, fmt.Sprintf("CPrintln %s %s [%s] %s", tab, w.heap(), strings.Join(vts, "; "), obs))
		exp := fmt.Sprintln(nat...)
		add(fmt.Sprintf("spec: Sprintln operands=%d", k), "Sprintln "+key, fmt.Sprintf("CSpecLn %s [%s] %s", tab, strings.Join(gs, "; "), coqBytes(exp)))
		if got != exp {
			c14Record(st, "println", d, "host-api", "fmt.Println("+key+")", exp, got, c14ObsErr(obs))
		}
		if k >= 1 {
			sgot, sobs := c14Watched(func() string {
				rets, err := vm.Call("fmt.Sprint", 1, append([]g.Value{}, vs...)...)
				if err != nil {
					panic(err)
				}
				return rets[0].String()
			})
			add(fmt.Sprintf("Sprint operands=%d", k), "Sprint "+key, fmt.Sprintf("CSprint %s %s [%s] %s", tab, w.heap(), strings.Join(vts, "; "), sobs))
			if k == 1 {
				if e1 := fmt.Sprint(nat[0]); sgot != e1 {
					c14Record(st, "sprint1", d, "host-api", "fmt.Sprint("+key+")", e1, sgot, c14ObsErr(sobs))
				}
			}
		}
	}

	// 3. struct references created by scripts: fields in declaration order, zero values, %+v oracle
	for c := 0; c < n/4+4; c++ {
		s := c14GenStruct(r, "T", 3)
		var out bytes.Buffer
		vm := g.New(g.WithStdout(&out))
		vals := make([]*p14v, len(s.fields))
		var inits []string
		for i, f := range s.fields {
			if r.chance(25) {
				vals[i] = p14Zero(s.types[i]) // omitted field
				continue
			}
			vals[i] = p14GenValue(r, s.types[i], false)
			for vals[i].hasSpecialFloat() {
				vals[i] = p14GenValue(r, s.types[i], false)
			}
			if !vals[i].isNil {
				inits = append(inits, f+": "+vals[i].goLit(false))
			}
		}
		src := c14StructDecl(s, false) + "x := &T{" + strings.Join(inits, ", ") + "}\nfunc mk() *T { return x }\n"
		if _, err := vm.Eval(fstest.MapFS{}, "in", src); err != nil {
			st.Histogram["struct script rejected"]++
			st.Extra["struct_script_error"] = err.Error() + "\n" + src
			continue
		}
		v := vm.Get("main.x")
		if c%2 == 1 {
			rets, err := vm.Call("main.mk", 1)
			if err != nil || len(rets) != 1 {
				st.Histogram["struct call failed"]++
				continue
			}
			v = rets[0]
		}
		w := &c14Heap{vm: vm, fields: map[string][]string{"main.T": s.fields}}
		vt := w.val(v)
		if w.bad != "" {
			st.Histogram["skipped: "+w.bad]++
			continue
		}
		var fs []float64
		d := 0
		for _, p := range vals {
			p.floats(&fs)
			d = maxInt14(d, p.depth())
		}
		d++
		tab := c14FTab(append(fs, w.floats...))
		got, obs := c14Watched(v.String)
		key := "struct " + src
		add(fmt.Sprintf("String: struct ref depth=%d fields=%d", d, len(s.fields)), key, fmt.Sprintf("CString %s %s %s %s", tab, w.heap(), vt, obs))
		exp := fmt.Sprintf("%+v", c14NativeStruct(s, vals))
		add(fmt.Sprintf("spec: struct ref %%+v depth=%d", d), "spec "+key, fmt.Sprintf("CSpec %s %s %s", tab, c14StructG(s, vals), coqBytes(exp)))
		if got != exp {
			c14Record(st, "struct", d, "host-api", src+"// Value.String() of x", exp, got, c14ObsErr(obs))
		}
	}

	// 4. cyclic object graphs: termination and agreement with the model (no Go oracle: Go's
	// fmt does not terminate on a []any containing itself and prints addresses for pointers)
	cyc := []struct{ name, src, get string }{
		{"struct field holding itself", "type T struct { A int; Next *T; Kids []*T }\nx := &T{A: 1}\nx.Next = x\n", "main.x"},
		{"two structs referring to each other", "type T struct { A int; Next *T; Kids []*T }\nx := &T{A: 1}\ny := &T{A: 2, Next: x}\nx.Next = y\n", "main.x"},
		{"struct in its own slice field", "type T struct { A int; Next *T; Kids []*T }\nx := &T{A: 1}\nx.Kids = []*T{x, x}\n", "main.x"},
		{"slice of structs forming a ring", "type T struct { A int; Next *T; Kids []*T }\nx := &T{A: 1}\ny := &T{A: 2, Next: x}\nx.Next = y\nr := []*T{x, y}\nx.Kids = r\n", "main.r"},
		{"map holding the struct that holds it", "type T struct { A int; M map[string]*T }\nx := &T{A: 1}\nx.M = map[string]*T{\"me\": x}\n", "main.x"},
		{"nil struct pointer field", "type T struct { A int; Next *T; Kids []*T }\nx := &T{A: 5}\n", "main.x"},
		{"any slice containing itself", "a := []any{1, \"s\"}\na[0] = a\n", "main.a"},
		{"map of any containing itself", "m := map[string]any{}\nm[\"k\"] = m\n", "main.m"},
	}
	for _, cy := range cyc {
		var out bytes.Buffer
		vm := g.New(g.WithStdout(&out))
		if _, err := vm.Eval(fstest.MapFS{}, "in", cy.src); err != nil {
			st.Histogram["cyclic script rejected"]++
			st.Extra["cyclic_script_error:"+cy.name] = err.Error()
			continue
		}
		v := vm.Get(cy.get)
		w := &c14Heap{vm: vm, fields: map[string][]string{"main.T": {"A", "Next", "Kids"}}}
		if strings.Contains(cy.src, "M map") {
			w.fields["main.T"] = []string{"A", "M"}
		}
		vt := w.val(v)
		if w.bad != "" {
			st.Histogram["skipped: "+w.bad]++
			continue
		}
		got, obs := c14Watched(v.String)
		add("String: cyclic graph", "cyclic "+cy.name+" -> "+got, fmt.Sprintf("CString [] %s %s %s", w.heap(), vt, obs))
		if !strings.HasPrefix(obs, "(OStr") {
			c14Record(st, "cyclic:"+cy.name, 99, "host-api", cy.src+"// Value.String() of "+cy.get, "a finite string", got, obs)
		}
		// through the script's own Println as well
		_, pobs := c14Watched(func() string {
			out.Reset()
			if _, err := vm.Call("fmt.Println", 0, v, v); err != nil {
				panic(err)
			}
			return out.String()
		})
		add("Println: cyclic graph", "cyclic println "+cy.name, fmt.Sprintf("CPrintln [] %s [%s; %s] %s", w.heap(), vt, vt, pobs))
		if !strings.HasPrefix(pobs, "(OStr") {
			c14Record(st, "cyclic:"+cy.name, 99, "host-api", cy.src+"// fmt.Println of "+cy.get, "a finite line", "", pobs)
		}
	}
	// self-containing slices built with Set (element type is a slice type, the element is the slice itself)
	for depth := 1; depth <= 3; depth++ {
		t := p14GenType(r, 0)
		t.kind = "int32"
		for i := 0; i < depth; i++ {
			t = &p14t{kind: "slice", elem: t}
		}
		p := p14GenValue(r, t, true)
		v := p.goat()
		outer := g.NewSlice(g.Type(t.tag()), []g.Value{v, v})
		outer.Set(g.Int32(1), outer)
		if depth > 1 {
			v.Set(g.Int32(0), outer) // mutual cycle: outer -> v -> outer
		}
		w := &c14Heap{}
		vt := w.val(outer)
		got, obs := c14Watched(outer.String)
		add("String: cyclic graph", fmt.Sprintf("self-containing slice depth %d -> %s", depth, got), fmt.Sprintf("CString [] %s %s %s", w.heap(), vt, obs))
		if !strings.HasPrefix(obs, "(OStr") {
			c14Record(st, "cyclic:self-slice", 99, "host-api", "NewSlice + Set(i, itself)", "a finite string", got, obs)
		}
	}

	// 4b. nil interface / nil struct pointer (Go: <nil>)
	{
		var out bytes.Buffer
		vm := g.New(g.WithStdout(&out))
		_, err := vm.Eval(fstest.MapFS{}, "in", "type T struct { A int }\nvar p *T\nvar a any\n")
		nils := []struct {
			name string
			v    g.Value
		}{{"g.Nil()", g.Nil()}}
		if err == nil {
			nils = append(nils, struct {
				name string
				v    g.Value
			}{"var p *T", vm.Get("main.p")}, struct {
				name string
				v    g.Value
			}{"var a any", vm.Get("main.a")})
		}
		for _, nv := range nils {
			w := &c14Heap{vm: vm}
			vt := w.val(nv.v)
			got, obs := c14Watched(nv.v.String)
			add("String: nil", "nil "+nv.name, fmt.Sprintf("CString [] [] %s %s", vt, obs))
			add("spec: nil", "spec nil "+nv.name, fmt.Sprintf("CSpec [] (GVal GNil) %s", coqBytes(fmt.Sprint(nil))))
			if got != fmt.Sprint(nil) {
				c14Record(st, "nil", 0, "host-api", "Value.String() of "+nv.name, fmt.Sprint(nil), got, c14ObsErr(obs))
			}
		}
	}

	// 5. decimal rendering: print_Z against strconv for boundaries and random integers
	ints := []int64{0, 1, -1, 9, 10, -10, 99, 100, 127, 128, -128, -129, 255, 256, 2147483647, 2147483648, -2147483648, -2147483649,
		4294967295, 4294967296, math.MaxInt64, math.MinInt64, 1000000000, 999999999, -1000000000}
	for i := 0; i < n/2; i++ {
		ints = append(ints, int64(r.next())>>uint(r.intn(64)))
	}
	for _, z := range ints {
		add("spec: decimal", fmt.Sprintf("dec %d", z), fmt.Sprintf("CDec %s %s", coqZ(z), coqBytes(strconv.FormatInt(z, 10))))
	}

	files := writeCases(dir, "cases_C14", c14Header, "pmismatches", cases, 150)
	st.Extra["files"] = files
	st.write(dir + "/C14_corr_stats.json")
}

// ---------------------------------------------------------------------------
// C14 system level: programs printing values of every kind, goatlang against the
// Go toolchain.  Every item is one function; the reference program calls them
// all (one `go build` per chunk), goatlang runs each item as its own program, so
// that a mismatch names one operand list with its nesting depth.

type c14Item struct {
	class string
	depth int
	goFn  string // body for the Go reference
	gtFn  string // body for goatlang (differs only for struct references: Println vs Printf %+v)
}

func c14PrintStmt(form int, operand string) string {
	switch form % 5 {
	case 0:
		return "fmt.Println(" + operand + ")\n"
	case 1:
		return "fmt.Print(" + operand + ")\nfmt.Println()\n"
	case 2:
		return "fmt.Println(fmt.Sprint(" + operand + "))\n"
	case 3:
		return "x := " + operand + "\nfmt.Println(x)\n"
	}
	return "s := fmt.Sprint(" + operand + ")\nfmt.Println(len(s), s)\n"
}

func c14GenItems(r *rng, n int, structs []c14Struct) []c14Item {
	var items []c14Item
	for c := 0; len(items) < n; c++ {
		switch x := c % 10; {
		case x < 6: // one operand of depth 0..5
			depth := c % 6
			if x == 5 {
				depth = r.intn(3)
			}
			p := p14GenValue(r, p14GenType(r, depth), c%4 != 0)
			var body string
			var pre []string
			if p.t.scalar() && r.chance(50) {
				body = fmt.Sprintf("var x %s = %s\nfmt.Println(x)\n", p.t.goSrc(), p.goLit(true))
			} else {
				body = c14PrintStmt(r.intn(5), p.goLitP(false, &pre))
				body = strings.Join(pre, "") + body
			}
			items = append(items, c14Item{class: p14Class(p), depth: p.depth(), goFn: body, gtFn: body})
		case x < 8: // several operands: exactly one space between them
			k := 2 + r.intn(4)
			var ops, pre []string
			d := 0
			for i := 0; i < k; i++ {
				p := p14GenValue(r, p14GenType(r, r.intn(3)), false)
				ops = append(ops, p.goLitP(false, &pre))
				d = maxInt14(d, p.depth())
			}
			body := strings.Join(pre, "") + "fmt.Println(" + strings.Join(ops, ", ") + ")\n"
			items = append(items, c14Item{class: "println-operands", depth: d, goFn: body, gtFn: body})
		case x == 8: // struct reference
			s := structs[r.intn(len(structs))]
			var inits []string
			d := 0
			for i, f := range s.fields {
				if r.chance(25) {
					d = maxInt14(d, p14Zero(s.types[i]).depth())
					continue
				}
				p := p14GenValue(r, s.types[i], r.chance(50))
				if !p.isNil {
					inits = append(inits, f+": "+p.goLit(false))
				}
				d = maxInt14(d, p.depth())
			}
			lit := "&" + s.name + "{" + strings.Join(inits, ", ") + "}"
			form := r.intn(2)
			gt := c14PrintStmt(form*3, lit) // Println(lit) or x := lit; Println(x)
			goB := strings.Replace(gt, "fmt.Println(", "fmt.Printf(\"%+v\\n\", ", 1)
			items = append(items, c14Item{class: "struct", depth: d + 1, goFn: goB, gtFn: gt})
		default: // float64 produced by arithmetic on variables
			a, b := p14GenFloat(r, true), p14GenFloat(r, true)
			pa := &p14v{t: &p14t{kind: "float64"}, f: a}
			pb := &p14v{t: &p14t{kind: "float64"}, f: b}
			op := pick(r, []string{"+", "-", "*", "/"})
			body := fmt.Sprintf("var a float64 = %s\nvar b float64 = %s\nfmt.Println(a %s b, a, -b)\n", pa.goLit(true), pb.goLit(true), op)
			items = append(items, c14Item{class: "float64:arithmetic", depth: 0, goFn: body, gtFn: body})
		}
	}
	return items
}

// fixed items: boundaries every run must see
func c14FixedItems() []c14Item {
	mk := func(class string, depth int, body string) c14Item {
		return c14Item{class: class, depth: depth, goFn: body, gtFn: body}
	}
	var fl []c14Item
	for i, f := range p14Floats {
		p := &p14v{t: &p14t{kind: "float64"}, f: f}
		body := fmt.Sprintf("var a float64 = %s\nfmt.Println(a, -a)\n", p.goLit(true))
		if i%2 == 1 {
			body = fmt.Sprintf("fmt.Println([]float64{%s}, map[string]float64{\"k\": %s})\n", p.goLit(true), p.goLit(true))
		}
		fl = append(fl, mk("float64:"+p14FloatClass(f), i%2, body))
	}
	return append(fl, []c14Item{
		mk("int8", 0, "var a int8 = -128\nvar b int8 = 127\nfmt.Println(a, b)\n"),
		mk("uint8", 0, "var a uint8 = 0\nvar b uint8 = 255\nfmt.Println(a, b)\n"),
		mk("int32", 0, "var a int = -2147483648\nvar b int = 2147483647\nfmt.Println(a, b)\n"),
		mk("uint32", 0, "var a uint32 = 2147483648\nvar b uint32 = 4294967295\nvar c uint32 = 0\nfmt.Println(a, b, c)\n"),
		mk("float64:negzero", 0, "fmt.Println(-z, z)\n"),
		mk("float64:inf", 0, "fmt.Println(1/z, -1/z)\n"),
		mk("float64:nan", 0, "fmt.Println(z/z)\n"),
		mk("float64:large-exponent-form", 0, "fmt.Println(1e20, 1e21, 123456789012345678901.0, 999999999999999900000.0)\n"),
		mk("float64:small-exponent-form", 0, "fmt.Println(0.0001, 0.00001, 1e-5, 0.00009999)\n"),
		mk("float64:subnormal", 0, "fmt.Println(5e-324, 2.2250738585072014e-308, 1.7976931348623157e+308)\n"),
		mk("bool", 0, "fmt.Println(true, false, 1 < 2)\n"),
		mk("string", 0, "fmt.Println(\"\", \"héllo ✓ 日本語\", \"a  b\", \"\")\n"),
		mk("slice", 1, "var s []int\nfmt.Println(s, []int{}, len(s))\n"),
		mk("map", 1, "var m map[string]int\nfmt.Println(m, map[string]int{}, len(m))\n"),
		mk("slice", 2, "fmt.Println([][]int{{1, 2}, {}, nil, {3}})\n"),
		mk("slice", 2, "fmt.Println([]map[string]int{{\"a\": 1}, {}, nil})\n"),
		mk("map", 2, "fmt.Println(map[string][]int{\"a\": {1, 2}}, map[int]map[int]int{1: {2: 3}})\n"),
		mk("slice", 3, "fmt.Println([][][]int{{{1}}})\n"),
		mk("slice", 3, "fmt.Println([][][]int{{nil}})\n"),
		mk("slice", 2, "fmt.Println([][][]int{nil, {}})\n"),
		mk("slice", 4, "fmt.Println([][][][]string{{{{\"a\", \"b\"}, {}}}})\n"),
		mk("slice", 5, "fmt.Println([][][][][]int{{{{{1, 2}, {3}}}, {}}})\n"),
		mk("map", 3, "fmt.Println(map[string][][]int{\"a\": {{1}}})\n"),
		mk("slice", 3, "fmt.Println([]map[string][]int{{\"a\": {1}}})\n"),
		mk("println-operands", 1, "fmt.Println(\"a\", 1, 2.5, []int{1}, \"b\", true)\n"),
		mk("println-operands", 0, "fmt.Println()\n"),
		mk("println-operands", 0, "fmt.Println(\"\", \"\")\n"),
		mk("slice-of-any", 1, "fmt.Println([]any{1, \"a\", 2.5, true})\n"),
		mk("nil", 0, "fmt.Println(nil)\n"),
		mk("nil", 0, "var a any\nfmt.Println(a)\n"),
		mk("nil", 0, "var p *S0\nfmt.Println(p)\n"),
		mk("nil", 1, "fmt.Println([]any{nil})\n"),
	}...)
}

func c14Program(structs []c14Struct, items []c14Item, idx []int, goSide bool) string {
	var sb strings.Builder
	sb.WriteString("package main\n\nimport \"fmt\"\n\n")
	for _, s := range structs {
		sb.WriteString(c14StructDecl(s, false))
	}
	for _, i := range idx {
		body := items[i].gtFn
		if goSide {
			body = items[i].goFn
		}
		fmt.Fprintf(&sb, "func f%d() {\n\tz := 0.0\n\t_ = z\n", i)
		for _, l := range strings.Split(strings.TrimRight(body, "\n"), "\n") {
			sb.WriteString("\t" + l + "\n")
		}
		sb.WriteString("}\n")
	}
	sb.WriteString("func main() {\n")
	for _, i := range idx {
		fmt.Fprintf(&sb, "\tf%d()\n", i)
		if goSide {
			sb.WriteString("\tfmt.Println(\"@@@\")\n")
		}
	}
	sb.WriteString("}\n")
	return sb.String()
}

func cmdC14Script(seed uint64, n int, dir string) {
	r := c14Rng(seed)
	st := newStats()
	var structs []c14Struct
	for i := 0; i < 6; i++ {
		structs = append(structs, c14GenStruct(r, fmt.Sprintf("S%d", i), 1+i%4))
	}
	items := append(c14FixedItems(), c14GenItems(r, n, structs)...)
	const chunk = 200
	for lo := 0; lo < len(items); lo += chunk {
		hi := minInt(lo+chunk, len(items))
		var idx []int
		for i := lo; i < hi; i++ {
			idx = append(idx, i)
		}
		ref, panicked, err := goRefRun(asInt32(c14Program(structs, items, idx, true)))
		if err != nil || panicked {
			// an invalid item spoils the chunk: fall back to one reference build per item
			st.Histogram["reference chunk rejected"]++
			if err != nil {
				st.Extra[fmt.Sprintf("invalid_go_chunk_%d", lo)] = err.Error()[:minInt(len(err.Error()), 1500)]
			}
			continue
		}
		parts := strings.Split(ref, "@@@\n")
		if len(parts) != len(idx)+1 {
			st.Histogram["reference output unparsable"]++
			continue
		}
		before := st.MismatchN
		for k, i := range idx {
			it := items[i]
			src := c14Program(structs, items, []int{i}, false)
			got, gerr := goatRun(src)
			es := ""
			if gerr != nil {
				es = gerr.Error()
			}
			st.add(fmt.Sprintf("%s depth=%d", it.class, it.depth), it.gtFn)
			if got != parts[k] || gerr != nil {
				min := "package main\nimport \"fmt\"\n" + func() string {
					if strings.Contains(it.gtFn, "S") {
						var sb strings.Builder
						for _, s := range structs {
							if strings.Contains(it.gtFn, s.name) {
								sb.WriteString(c14StructDecl(s, false))
							}
						}
						return sb.String()
					}
					return ""
				}() + "func main() {\n\tz := 0.0\n\t_ = z\n\t" + strings.ReplaceAll(strings.TrimRight(it.gtFn, "\n"), "\n", "\n\t") + "\n}\n"
				c14Record(st, it.class, it.depth, "script", min, parts[k], got, es)
			}
		}
		// the whole chunk as one goatlang program, too (operands of different items must not interact)
		wholeSrc := c14Program(structs, items, idx, false)
		whole, werr := goatRun(wholeSrc)
		want := strings.ReplaceAll(ref, "@@@\n", "")
		st.add("whole chunk", fmt.Sprintf("chunk %d..%d", lo, hi))
		if werr != nil {
			if d := os.Getenv("C14_DUMP"); d != "" {
				os.WriteFile(fmt.Sprintf("%s/chunk_%d.go", d, lo), []byte(wholeSrc), 0o644)
			}
			where := ""
			var ln int
			if k := strings.Index(werr.Error(), "main.go:"); k >= 0 {
				fmt.Sscanf(werr.Error()[k+8:], "%d", &ln)
				if ls := strings.Split(wholeSrc, "\n"); ln >= 1 && ln <= len(ls) {
					where = ": line " + ls[ln-1]
				}
			}
			c14Record(st, "whole-chunk", 0, "script", fmt.Sprintf("chunk of items %d..%d%s", lo, hi, where), "no error", "", werr.Error())
		} else if whole != want {
			// a difference that no single item of the chunk shows is new
			if st.MismatchN == before {
				c14Record(st, "whole-chunk", 0, "script", fmt.Sprintf("chunk of items %d..%d differs although every item agrees in isolation", lo, hi), "", "", "")
			}
		}
	}
	c14MapHistories(st, r, 200+n/2) // c14map.go: native oracle, maps with 0 or 1 live entries after deletes
	st.write(dir + "/C14_script_stats.json")
}
