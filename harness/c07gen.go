package main

import (
	"bytes"
	"fmt"
	"strings"
	"testing/fstest"
	"time"

	g "github.com/philhassey/goatlang"
)

// genStackProgram: valid Go programs (inside goatlang's subset) built around the
// constructs that move the operand stack and the frames: early exits (break,
// continue, return) out of nested for / range / switch inside called functions
// while the caller holds live locals, calls in for init/post, calls whose
// results are dropped, multi-value assignment from calls, variadic and method
// calls, struct / map / slice literals, switch with case lists, deep recursion.
// Every function prints what it computes, main prints its own locals after
// every call: a corrupted local or a residual operand changes the output.

type stackGen struct {
	r      *rng
	sb     *strings.Builder
	uniq   int
	inLoop int
	rets   int             // results of the function being generated
	ro     map[string]bool // loop counters: never assigned by generated statements
	top    bool            // generating top-level statements of an Eval snippet: no return
	kinds  map[string]int
}

func (s *stackGen) line(ind int, f string, a ...any) {
	s.sb.WriteString(strings.Repeat("\t", ind))
	fmt.Fprintf(s.sb, f, a...)
	s.sb.WriteString("\n")
}

func (s *stackGen) fresh(p string) string {
	s.uniq++
	return fmt.Sprintf("%s%d", p, s.uniq)
}

func (s *stackGen) rw(vars []string) []string {
	var res []string
	for _, v := range vars {
		if !s.ro[v] {
			res = append(res, v)
		}
	}
	return res
}

func (s *stackGen) atom(vars []string) string {
	if len(vars) > 0 && s.r.chance(70) {
		return pick(s.r, vars)
	}
	return fmt.Sprint(s.r.intn(9))
}

func (s *stackGen) expr(vars []string, d int) string {
	if d <= 0 || s.r.chance(30) {
		return s.atom(vars)
	}
	switch s.r.intn(8) {
	case 0:
		return fmt.Sprintf("(%s + %s)", s.expr(vars, d-1), s.expr(vars, d-1))
	case 1:
		return fmt.Sprintf("(%s - %s)", s.expr(vars, d-1), s.expr(vars, d-1))
	case 2:
		return fmt.Sprintf("(%s * %d)", s.expr(vars, d-1), 1+s.r.intn(3))
	case 3:
		return fmt.Sprintf("(%s %% %d)", s.expr(vars, d-1), 2+s.r.intn(5))
	case 4:
		return fmt.Sprintf("one(%s)", s.expr(vars, d-1))
	case 5:
		return fmt.Sprintf("vsum(%s, %s, %s)", s.atom(vars), s.atom(vars), s.atom(vars))
	case 6:
		return fmt.Sprintf("gt.add(%s)", s.atom(vars))
	default:
		return fmt.Sprintf("deep(%d, %s)", 1+s.r.intn(4), s.atom(vars))
	}
}

func (s *stackGen) cond(vars []string) string {
	op := pick(s.r, []string{"<", ">", "==", "!=", "<=", ">="})
	c := fmt.Sprintf("%s %s %s", np(s.expr(vars, 1)), op, s.expr(vars, 1))
	switch s.r.intn(6) {
	case 0:
		return fmt.Sprintf("%s && %s %s %s", c, s.atom(vars), pick(s.r, []string{"<", ">"}), s.atom(vars))
	case 1:
		return fmt.Sprintf("%s || isPos(%s)", c, s.atom(vars))
	}
	return c
}

// np keeps a return operand from starting with a parenthesis ("return (a), b" does not parse in goatlang)
func np(e string) string {
	if strings.HasPrefix(e, "(") {
		return "0 + " + e
	}
	return e
}

func (s *stackGen) retStmt(ind int, vars []string) {
	switch s.rets {
	case 0:
		s.line(ind, "return")
	case 1:
		switch x := s.r.intn(100); {
		case x < 30:
			s.line(ind, "return one(%s)", s.expr(vars, 1))
		case x < 40: // a literal without results as an argument of the returned call
			s.line(ind, "return each(mk(%s), func(q int) { fmt.Println(\"each\", q) })", s.atom(vars))
			s.kinds["return call(literal argument)"]++
		case x < 48:
			s.line(ind, "return apply1(func(q int) int { return one(q * 2) }, %s)", s.atom(vars))
			s.kinds["return call(literal argument)"]++
		default:
			s.line(ind, "return %s", np(s.expr(vars, 1)))
		}
	case 2:
		switch x := s.r.intn(100); {
		case x < 35:
			s.line(ind, "return pair(%s, %s)", s.atom(vars), s.atom(vars))
		case x < 50:
			s.line(ind, "return apply2(func(q int) (int, int) { return pair(q, %d) }, %s)", s.r.intn(5), s.atom(vars))
			s.kinds["return call(literal argument)"]++
		default:
			s.line(ind, "return %s, %s", np(s.expr(vars, 1)), s.expr(vars, 1))
		}
	default:
		if s.r.chance(35) {
			s.line(ind, "return triple(%s)", s.atom(vars))
		} else {
			s.line(ind, "return %s, %s, \"r\"", np(s.expr(vars, 1)), s.atom(vars))
		}
	}
}

// blankForm returns one blank assignment "_ = e" / "_, _ = e1, e2" / "a, _ := f()" whose right-hand side is a
// real call (1 and 2 results), a builtin (len, append, copy as a value), a conversion (int, float64, string,
// []byte, uint8, the named type Celsius), a method call, an index / field / map read, arithmetic or a
// function literal.  Every such statement must leave the operand stack as it found it; the values it
// discards must never reach a caller.  decl = names it declares (int32 in the reference).
func (s *stackGen) blankForm(vars []string) (stmt []string, decl []string) {
	a := s.atom(vars)
	switch s.r.intn(26) {
	case 0:
		return []string{fmt.Sprintf("_ = one(%s)", a)}, nil
	case 1:
		return []string{fmt.Sprintf("_, _ = pair(%s, 1)", a)}, nil
	case 2:
		v := s.fresh("ba")
		return []string{fmt.Sprintf("%s, _ := pair(%s, 2)", v, a), "_ = " + v}, []string{v}
	case 3:
		v := s.fresh("bb")
		return []string{fmt.Sprintf("_, %s := pair(3, %s)", v, a), "_ = " + v}, []string{v}
	case 4:
		return []string{"_ = len(gxs)"}, nil
	case 5:
		return []string{"_ = len(gstr)"}, nil
	case 6:
		return []string{fmt.Sprintf("_ = len(mk(%s))", a)}, nil
	case 7:
		return []string{fmt.Sprintf("_ = append(gxs, %s)", a)}, nil
	case 8:
		return []string{"_ = copy(make([]int, 2), gxs)"}, nil
	case 9:
		return []string{"_ = int(gf)"}, nil
	case 10:
		return []string{fmt.Sprintf("_ = float64(%s)", a)}, nil
	case 11:
		return []string{"_ = string([]byte(gstr))"}, nil
	case 12:
		return []string{"_ = []byte(gstr)"}, nil
	case 13:
		return []string{fmt.Sprintf("_ = uint8(%s)", a)}, nil
	case 14:
		return []string{"_ = Celsius(gf)"}, nil
	case 15:
		return []string{fmt.Sprintf("_ = gt.add(%d)", s.r.intn(3))}, nil
	case 16:
		return []string{"_ = gt.v"}, nil
	case 17:
		return []string{fmt.Sprintf("_ = gxs[%d]", s.r.intn(3))}, nil
	case 18:
		return []string{"_ = gm[\"k\"]"}, nil
	case 19:
		ok := s.fresh("ok")
		return []string{fmt.Sprintf("_, %s := gm[\"k\"]", ok), "_ = " + ok}, nil
	case 20:
		return []string{fmt.Sprintf("_ = %s + one(%s)*2", a, a)}, nil
	case 21:
		return []string{"_ = func(x int) int { return one(x) }"}, nil
	case 22:
		return []string{fmt.Sprintf("_, _ = one(%s), len(gxs)", a)}, nil
	case 23:
		return []string{fmt.Sprintf("_, _ = float64(%s), string([]byte(gstr))", a)}, nil
	case 24:
		return []string{"_ = Celsius(float64(len(gstr)))"}, nil
	default:
		return []string{fmt.Sprintf("_ = int(float64(%s) * gf)", a)}, nil
	}
}

func (s *stackGen) blank(ind int, vars []string) []string {
	st, decl := s.blankForm(vars)
	for _, l := range st {
		s.line(ind, "%s", l)
	}
	s.kinds["blank assignment"]++
	return append(vars, decl...)
}

// blankLoop: blank assignments in a loop of 60 iterations (a residual operand per iteration would grow the
// stack) with an early exit near the end, and blank assignments as for-init / if-init statements.
func (s *stackGen) blankLoop(ind int, vars []string, allowReturn bool) {
	i := s.fresh("i")
	if s.r.chance(50) {
		st, _ := s.blankForm(nil)
		for len(st) != 1 { // a declaring form cannot be an init statement
			st, _ = s.blankForm(nil)
		}
		s.line(ind, "%s := 0", i)
		s.line(ind, "for %s; %s < 60; %s++ {", st[0], i, i)
		s.kinds["blank assignment as for-init / if-init"]++
	} else {
		s.line(ind, "for %s := 0; %s < 60; %s++ {", i, i, i)
	}
	s.ro[i] = true
	inner := append(append([]string{}, vars...), i)
	for k := 0; k < 1+s.r.intn(3); k++ {
		inner = s.blank(ind+1, inner)
	}
	if s.r.chance(50) {
		st, _ := s.blankForm(nil)
		for len(st) != 1 {
			st, _ = s.blankForm(nil)
		}
		s.line(ind+1, "if %s; %s == %d {", st[0], i, 50+s.r.intn(9))
		s.kinds["blank assignment as for-init / if-init"]++
	} else {
		s.line(ind+1, "if %s == %d {", i, 50+s.r.intn(9))
	}
	s.line(ind+2, "fmt.Println(\"bl\", %s)", i)
	if allowReturn && s.r.chance(60) {
		inner = s.blank(ind+2, inner)
		s.retStmt(ind+2, inner)
	} else {
		s.line(ind+2, "break")
	}
	s.line(ind+1, "}")
	s.line(ind, "}")
	s.kinds["blank assignments in a 60-iteration loop"]++
}

// literal emits a function literal INSIDE the function being generated: 0, 1 or 2 results (whatever the
// enclosing function declares), as a local variable, immediately called, as an argument of a call, or
// nested two deep; the literals capture nothing (goatlang has no closures): their bodies use only their
// own parameters, their own locals and package-level functions, and end in "return call(...)" forms.
// The enclosing function goes on afterwards and ends in its own return (retStmt: often "return call(...)").
func (s *stackGen) literal(ind int, vars []string) []string {
	a := s.atom(vars)
	k := 1 + s.r.intn(4)
	switch s.r.intn(8) {
	case 0: // local variable, one result, early return inside a loop
		h := s.fresh("h")
		s.line(ind, "%s := func(x int) int {", h)
		s.line(ind+1, "for i := 0; i < 3; i++ {")
		s.line(ind+2, "if i == x {")
		s.line(ind+3, "return one(i + %d)", k)
		s.line(ind+2, "}")
		s.line(ind+1, "}")
		s.line(ind+1, "return one(x * %d)", k)
		s.line(ind, "}")
		s.line(ind, "fmt.Println(\"lit1\", %s(%s), %s(1))", h, a, h)
	case 1: // local variable, two results
		h := s.fresh("h")
		m, n := s.fresh("m"), s.fresh("n")
		s.line(ind, "%s := func(x int) (int, int) {", h)
		s.line(ind+1, "if x > %d {", k)
		s.line(ind+2, "return pair(x, %d)", k)
		s.line(ind+1, "}")
		s.line(ind+1, "return x, 0")
		s.line(ind, "}")
		s.line(ind, "%s, %s := %s(%s)", m, n, h, a)
		s.line(ind, "fmt.Println(\"lit2\", %s, %s)", m, n)
		vars = append(vars, m, n)
	case 2: // local variable, no result
		h := s.fresh("h")
		s.line(ind, "%s := func(x int) {", h)
		s.line(ind+1, "fmt.Println(\"lit0\", x)")
		s.line(ind+1, "if x > %d {", k)
		s.line(ind+2, "return")
		s.line(ind+1, "}")
		s.line(ind+1, "one(x)")
		s.line(ind, "}")
		s.line(ind, "%s(%s)", h, a)
	case 3: // immediately called
		v := s.fresh("v")
		s.line(ind, "%s := func(x int) int { return one(x) + %d }(%s)", v, k, a)
		s.line(ind, "func() { fmt.Println(\"imm\", %d) }()", k)
		s.line(ind, "fmt.Println(\"imm\", %s)", v)
		vars = append(vars, v)
	case 4: // argument of a call statement whose result is dropped
		s.line(ind, "each(mk(%s), func(x int) { fmt.Println(\"e\", x) })", a)
	case 5: // argument of calls with one and two results
		m, n := s.fresh("m"), s.fresh("n")
		s.line(ind, "fmt.Println(\"ap\", apply1(func(x int) int { return one(x * %d) }, %s))", k, a)
		s.line(ind, "%s, %s := apply2(func(c int) (int, int) { return pair(c, %d) }, %s)", m, n, k, a)
		s.line(ind, "fmt.Println(\"ap\", %s, %s)", m, n)
		vars = append(vars, m, n)
	case 6: // nested two deep
		gname := s.fresh("g")
		m, n := s.fresh("m"), s.fresh("n")
		s.line(ind, "%s := func(p int) (int, int) {", gname)
		s.line(ind+1, "k := func(b int) int { return one(b + %d) }", k)
		s.line(ind+1, "e := func(b int) { fmt.Println(\"in\", b) }")
		s.line(ind+1, "e(p)")
		s.line(ind+1, "return pair(k(p), p)")
		s.line(ind, "}")
		s.line(ind, "%s, %s := %s(%s)", m, n, gname, a)
		s.line(ind, "fmt.Println(\"nest\", %s, %s)", m, n)
		vars = append(vars, m, n)
	default: // defined and dropped
		s.line(ind, "_ = func() (int, int) { return pair(%d, 2) }", k)
		s.line(ind, "_ = func(x int) { one(x) }")
	}
	s.kinds["function literal inside a function"]++
	return vars
}

// exit emits a guarded early exit
func (s *stackGen) exit(ind int, vars []string) {
	s.line(ind, "if %s {", s.cond(vars))
	s.line(ind+1, "fmt.Println(\"exit\", %s)", s.atom(vars))
	x := s.r.intn(10)
	switch {
	case s.inLoop > 0 && x < 4:
		s.line(ind+1, "break")
		s.kinds["break"]++
	case s.inLoop > 0 && x < 7:
		s.line(ind+1, "continue")
		s.kinds["continue"]++
	default:
		s.retStmt(ind+1, vars)
		s.kinds["return in block"]++
	}
	s.line(ind, "}")
}

func (s *stackGen) stmts(ind, depth, n int, vars []string) []string {
	for k := 0; k < n; k++ {
		x := s.r.intn(100)
		switch {
		case x < 8:
			v := s.fresh("v")
			e := s.expr(vars, 2)
			if !strings.ContainsAny(e, "abcdefghijklmnopqrstuvwxyz") { // a constant expression would be an int, not an int32, in the reference
				e = "one(" + e + ")"
			}
			s.line(ind, "%s := %s", v, e)
			s.line(ind, "_ = %s", v)
			vars = append(vars, v)
		case x < 14 && len(s.rw(vars)) > 0:
			v := pick(s.r, s.rw(vars))
			switch s.r.intn(4) {
			case 0:
				s.line(ind, "%s = %s", v, s.expr(vars, 2))
			case 1:
				s.line(ind, "%s += %s", v, s.expr(vars, 1))
			case 2:
				s.line(ind, "%s++", v)
			default:
				s.line(ind, "%s--", v)
			}
		case x < 22: // calls whose results are dropped
			switch s.r.intn(6) {
			case 0:
				s.line(ind, "one(%s)", s.expr(vars, 1))
			case 1:
				s.line(ind, "pair(%s, %s)", s.atom(vars), s.atom(vars))
			case 2:
				s.line(ind, "triple(%s)", s.atom(vars))
			case 3:
				s.line(ind, "gt.add(%s)", s.atom(vars))
			case 4:
				s.line(ind, "vsum(%s)", s.atom(vars))
			default:
				s.line(ind, "gt.two(%s)", s.atom(vars))
			}
			s.kinds["call statement dropping results"]++
		case x < 32: // multi-value assignment from calls
			a, b := s.fresh("a"), s.fresh("b")
			switch s.r.intn(6) {
			case 0:
				s.line(ind, "%s, %s := pair(%s, %s)", a, b, s.atom(vars), s.expr(vars, 1))
			case 1:
				s.line(ind, "%s, %s := gt.two(%s)", a, b, s.atom(vars))
			case 2:
				s.line(ind, "%s, _, %ss := triple(%s)", a, b, s.atom(vars))
				s.line(ind, "fmt.Println(%ss)", b)
				s.line(ind, "%s := 0", b)
			case 3:
				s.line(ind, "_, %s := pair(%s, %s)", a, s.atom(vars), s.atom(vars))
				s.line(ind, "%s := %s", b, a)
			case 4:
				s.line(ind, "%s := 0", a)
				s.line(ind, "%s := 0", b)
				s.line(ind, "%s, %s = pair(%s, %s)", b, a, s.atom(vars), s.atom(vars))
			default:
				s.line(ind, "%s, %s := one(%s), one(%s)", a, b, s.expr(vars, 1), s.expr(vars, 1))
				s.line(ind, "%s, %s = %s, %s", a, b, b, a)
			}
			s.line(ind, "fmt.Println(%s, %s)", a, b)
			vars = append(vars, a, b)
			s.kinds["multi-assign"]++
		case x < 40 && depth > 0:
			s.line(ind, "if %s {", s.cond(vars))
			s.stmts(ind+1, depth-1, 1+s.r.intn(2), vars)
			if s.r.chance(50) {
				s.line(ind, "} else if %s {", s.cond(vars))
				s.stmts(ind+1, depth-1, 1, vars)
			}
			if s.r.chance(60) {
				s.line(ind, "} else {")
				s.stmts(ind+1, depth-1, 1+s.r.intn(2), vars)
			}
			s.line(ind, "}")
		case x < 52 && depth > 0: // for in its forms
			i := s.fresh("i")
			switch s.r.intn(4) {
			case 0:
				s.line(ind, "for %s := 0; %s < %d; %s++ {", i, i, 2+s.r.intn(3), i)
			case 1: // calls in init and post
				// ("i = one(i + 1)" as a post statement does not parse in goatlang: "=" swallows the block)
				if s.r.chance(50) {
					s.line(ind, "for %s := one(0); %s < %d; %s += one(1) {", i, i, 2+s.r.intn(3), i)
				} else {
					s.line(ind, "%s := 0", i)
					s.line(ind, "for pair(%s, 1); %s < %d; one(%s) {", i, i, 2+s.r.intn(3), i)
					s.line(ind+1, "%s++", i)
				}
				s.kinds["for with calls in init/post"]++
			case 2:
				s.line(ind, "%s := 0", i)
				s.line(ind, "for %s < %d {", i, 2+s.r.intn(3))
				s.line(ind+1, "%s++", i)
			default:
				s.line(ind, "%s := 0", i)
				s.line(ind, "for {")
				s.line(ind+1, "%s++", i)
				s.line(ind+1, "if %s > %d {", i, 1+s.r.intn(3))
				s.line(ind+2, "break")
				s.line(ind+1, "}")
			}
			s.inLoop++
			s.ro[i] = true
			inner := append(append([]string{}, vars...), i)
			if s.r.chance(70) {
				s.exit(ind+1, inner)
			}
			s.stmts(ind+1, depth-1, 1+s.r.intn(3), inner)
			if s.r.chance(40) {
				s.exit(ind+1, inner)
			}
			s.inLoop--
			s.line(ind, "}")
			s.kinds["for"]++
		case x < 62 && depth > 0: // range
			k, v := s.fresh("k"), s.fresh("x")
			switch s.r.intn(4) {
			case 0:
				s.line(ind, "for %s, %s := range []int{%s, %s, %s} {", k, v, s.atom(vars), s.atom(vars), s.atom(vars))
				s.line(ind+1, "_ = %s", k)
			case 1:
				s.line(ind, "for _, %s := range mk(%s) {", v, s.atom(vars))
			case 2:
				s.line(ind, "for %s, %sc := range \"abc\" {", k, v)
				s.line(ind+1, "%s := int(%sc) - 90 + int(%s)", v, v, k)
			default:
				s.line(ind, "for _, %s := range map[string]int{\"k\": %s} {", v, s.atom(vars))
			}
			s.line(ind+1, "_ = %s", v)
			s.inLoop++
			inner := append(append([]string{}, vars...), v)
			if s.r.chance(70) {
				s.exit(ind+1, inner)
			}
			s.stmts(ind+1, depth-1, 1+s.r.intn(2), inner)
			s.inLoop--
			s.line(ind, "}")
			s.kinds["range"]++
		case x < 72 && depth > 0: // switch, with case lists and breaks
			if s.r.chance(70) {
				if s.r.chance(50) {
					s.line(ind, "switch one(%s) {", s.expr(vars, 1))
				} else {
					s.line(ind, "switch %s %% 7 {", pick(s.r, vars))
				}
				s.line(ind, "case %d, %d:", s.r.intn(3), 3+s.r.intn(3))
				s.stmts(ind+1, depth-1, 1, vars)
				if s.r.chance(50) {
					s.line(ind+1, "if %s {", s.cond(vars))
					s.line(ind+2, "break")
					s.line(ind+1, "}")
					s.line(ind+1, "fmt.Println(\"after break\")")
				}
				s.line(ind, "case one(%d):", 6+s.r.intn(3))
				s.stmts(ind+1, depth-1, 1, vars)
			} else {
				s.line(ind, "switch {")
				s.line(ind, "case %s:", s.cond(vars))
				s.stmts(ind+1, depth-1, 1, vars)
				s.line(ind, "case isPos(%s):", s.atom(vars))
				s.stmts(ind+1, depth-1, 1, vars)
			}
			if s.r.chance(70) {
				s.line(ind, "default:")
				if s.inLoop > 0 && s.r.chance(40) {
					s.exit(ind+1, vars)
				}
				s.stmts(ind+1, depth-1, 1, vars)
			}
			s.line(ind, "}")
			s.kinds["switch"]++
		case x < 82: // literals and container statements
			switch s.r.intn(5) {
			case 0:
				xs := s.fresh("xs")
				s.line(ind, "%s := []int{%s, %s}", xs, s.expr(vars, 1), s.atom(vars))
				s.line(ind, "%s = append(%s, %s, %s)", xs, xs, s.atom(vars), s.atom(vars))
				s.line(ind, "%s[0] += %s", xs, s.atom(vars))
				s.line(ind, "%s[1]++", xs)
				s.line(ind, "fmt.Println(%s, len(%s), vsum(0, %s...))", xs, xs, xs)
			case 1:
				m := s.fresh("m")
				s.line(ind, "%s := map[string]int{\"a\": %s, \"b\": %s}", m, s.atom(vars), s.expr(vars, 1))
				s.line(ind, "%s[\"a\"] += %s", m, s.atom(vars))
				s.line(ind, "%s[\"c\"] = one(%s)", m, s.atom(vars))
				s.line(ind, "delete(%s, \"b\")", m)
				q, ok := s.fresh("q"), s.fresh("ok")
				s.line(ind, "%s, %s := %s[\"b\"]", q, ok, m)
				s.line(ind, "fmt.Println(%s[\"a\"], %s[\"c\"], len(%s), %s, %s)", m, m, m, q, ok)
			case 2:
				t := s.fresh("t")
				s.line(ind, "%s := &T{v: %s, s: \"n\"}", t, s.expr(vars, 1))
				s.line(ind, "%s.v += %s", t, s.atom(vars))
				s.line(ind, "%s.add(%s)", t, s.atom(vars))
				s.line(ind, "%s.v++", t)
				s.line(ind, "fmt.Println(%s.v, %s.s)", t, t)
				s.line(ind, "fmt.Println(%s.add(1))", t)
			case 3:
				ys := s.fresh("ys")
				s.line(ind, "%s := make([]int, 3)", ys)
				s.line(ind, "copy(%s, mk(%s))", ys, s.atom(vars))
				s.line(ind, "fmt.Println(%s, %s[1:], len(%s[:2]))", ys, ys, ys)
			default:
				s.line(ind, "fmt.Println(vsum(%s), vsum(%s, %s), vsum(1, mk(%s)...))", s.atom(vars), s.atom(vars), s.atom(vars), s.atom(vars))
			}
			s.kinds["literal / container statements"]++
		case x < 85:
			vars = s.blank(ind, vars)
		case x < 86 && depth > 0:
			s.blankLoop(ind, vars, !s.top)
		case x < 89:
			vars = s.literal(ind, vars)
		case x < 91 && len(vars) > 0:
			s.line(ind, "fmt.Println(\"s\", %s)", strings.Join(vars[max0(len(vars)-4):], ", "))
		default:
			if depth > 0 {
				s.exit(ind, vars)
			} else {
				s.line(ind, "fmt.Println(%s)", s.expr(vars, 2))
			}
		}
	}
	return vars
}

func max0(x int) int {
	if x < 0 {
		return 0
	}
	return x
}

const stackPrelude = `package main

import "fmt"

type T struct {
	v int
	s string
}

func (t *T) add(d int) int {
	t.v += d
	return t.v
}

func (t *T) two(a int) (int, int) {
	return a + t.v, a - t.v
}

var gt = &T{v: 3, s: "g"}

var calls int

type Celsius float64

var gxs = []int{4, 5, 6}
var gstr = "hey"
var gm = map[string]int{"k": 1}
var gf = 2.5

func one(p int) int {
	calls++
	return p
}

func isPos(p int) bool {
	return p > 0
}

func pair(a int, b int) (int, int) {
	for i := 0; i < 3; i++ {
		if i == b {
			return a + i, b
		}
	}
	return b, a
}

func triple(a int) (int, int, string) {
	switch a {
	case 1, 2:
		return a, 2, "low"
	}
	return a, a * 2, "t"
}

func vsum(base int, xs ...int) int {
	for _, x := range xs {
		if x == 7 {
			continue
		}
		base += x
	}
	return base
}

func mk(n int) []int {
	return []int{n, n + 1, n + 2}
}

func each(xs []int, f func(int)) int {
	for _, x := range xs {
		f(x)
	}
	return int(len(xs))
}

func apply1(f func(int) int, x int) int {
	return f(x)
}

func apply2(f func(int) (int, int), x int) (int, int) {
	return f(x)
}

func deep(n int, acc int) int {
	local := n * 2
	other := acc + 1
	if n <= 0 {
		return acc
	}
	for i := 0; i < 3; i++ {
		for _, x := range []int{1, 2, 3} {
			if x == 2 && i == 1 {
				r := deep(n-1, acc+x)
				if local != n*2 || other != acc+1 {
					fmt.Println("CORRUPT", n, local, other)
				}
				return r + local
			}
			if x == 3 {
				break
			}
		}
	}
	return -1
}

`

func genStackProgram(r *rng, nf int) string {
	return genStackProgramK(r, nf, map[string]int{})
}

func genStackProgramK(r *rng, nf int, kinds map[string]int) string {
	var sb strings.Builder
	s := &stackGen{r: r, sb: &sb, kinds: kinds, ro: map[string]bool{}}
	sb.WriteString(stackPrelude)
	type sig struct {
		name         string
		params, rets int
	}
	var sigs []sig
	for i := 0; i < nf; i++ {
		f := sig{fmt.Sprintf("f%d", i), 1 + r.intn(3), r.intn(4)}
		var ps, vars []string
		for p := 0; p < f.params; p++ {
			ps = append(ps, fmt.Sprintf("p%d int", p))
			vars = append(vars, fmt.Sprintf("p%d", p))
		}
		rs := []string{"", " int", " (int, int)", " (int, int, string)"}[f.rets]
		s.rets = f.rets
		s.line(0, "func %s(%s)%s {", f.name, strings.Join(ps, ", "), rs)
		vars = s.stmts(1, 3, 3+r.intn(4), vars)
		if r.chance(70) { // blank assignments right before the final return: the caller must get the declared results
			vars = s.blank(1, vars)
			if r.chance(40) {
				vars = s.blank(1, vars)
			}
		}
		if r.chance(25) {
			s.blankLoop(1, vars, true)
		}
		s.line(1, "fmt.Println(\"%s done\", %s)", f.name, strings.Join(vars[max0(len(vars)-3):], ", "))
		s.retStmt(1, vars)
		s.line(0, "}\n")
		sigs = append(sigs, f)
	}
	// main: live locals around every call
	s.rets = 0
	s.line(0, "func main() {")
	s.line(1, "a := 11")
	s.line(1, "b := 22")
	s.line(1, "c := 33")
	s.line(1, "str := \"live\"")
	s.line(1, "xs := []int{4, 5, 6}")
	for _, f := range sigs {
		var args []string
		for p := 0; p < f.params; p++ {
			args = append(args, pick(r, []string{"a", "b", "c", "1", "2", "3", "xs[1]", "one(2)"}))
		}
		call := fmt.Sprintf("%s(%s)", f.name, strings.Join(args, ", "))
		loop := r.chance(50)
		ind := 1
		if loop {
			s.line(1, "for i := 0; i < 2; i++ {")
			ind = 2
		}
		switch {
		case f.rets == 0 || r.chance(25):
			s.line(ind, "%s", call)
		case f.rets == 1:
			if r.chance(50) {
				s.line(ind, "fmt.Println(\"r\", %s)", call)
			} else {
				s.line(ind, "c = %s %% 1000", call)
			}
		case f.rets == 2:
			if r.chance(50) {
				s.line(ind, "a, b = %s", call)
				s.line(ind, "a, b = a %% 1000, b %% 1000")
			} else {
				m, n := s.fresh("m"), s.fresh("n")
				s.line(ind, "%s, %s := %s", m, n, call)
				s.line(ind, "fmt.Println(\"r\", %s, %s)", m, n)
			}
		default:
			m, n := s.fresh("m"), s.fresh("n")
			s.line(ind, "%s, _, %s := %s", m, n, call)
			s.line(ind, "fmt.Println(\"r\", %s, %s)", m, n)
		}
		if loop {
			s.line(2, "if i == 0 {")
			s.line(3, "continue")
			s.line(2, "}")
			s.line(2, "fmt.Println(\"loop\", i, a, b, c, str, xs)")
			s.line(1, "}")
		}
		s.line(1, "fmt.Println(\"main\", a, b, c, str, xs, calls, gt.v %% 1000)")
		s.line(1, "gt.v = gt.v %% 1000")
	}
	s.line(1, "fmt.Println(deep(6, 0), deep(40, 1))")
	s.line(0, "}")
	return sb.String()
}

// genStatementSnippet: a statements-only input for VM.Eval (no package clause): declarations,
// assignments, control flow and call statements -- never a bare expression.
func genStatementSnippet(r *rng) string {
	var sb strings.Builder
	s := &stackGen{r: r, sb: &sb, kinds: map[string]int{}, ro: map[string]bool{}}
	sb.WriteString("import \"fmt\"\n")
	sb.WriteString("type T struct {\n\tv int\n\ts string\n}\nfunc (t *T) add(d int) int {\n\tt.v += d\n\treturn t.v\n}\nfunc (t *T) two(a int) (int, int) {\n\treturn a + t.v, a - t.v\n}\n")
	sb.WriteString("type Celsius float64\nvar gxs = []int{4, 5, 6}\nvar gstr = \"hey\"\nvar gm = map[string]int{\"k\": 1}\nvar gf = 2.5\n")
	sb.WriteString("var gt = &T{v: 3, s: \"g\"}\nvar calls int\nfunc one(p int) int {\n\tcalls++\n\treturn p\n}\nfunc isPos(p int) bool {\n\treturn p > 0\n}\n")
	sb.WriteString("func pair(a int, b int) (int, int) {\n\treturn b, a\n}\nfunc triple(a int) (int, int, string) {\n\treturn a, a * 2, \"t\"\n}\n")
	sb.WriteString("func vsum(base int, xs ...int) int {\n\tfor _, x := range xs {\n\t\tbase += x\n\t}\n\treturn base\n}\nfunc mk(n int) []int {\n\treturn []int{n, n + 1, n + 2}\n}\n")
	sb.WriteString("func each(xs []int, f func(int)) int {\n\tfor _, x := range xs {\n\t\tf(x)\n\t}\n\treturn int(len(xs))\n}\nfunc apply1(f func(int) int, x int) int {\n\treturn f(x)\n}\nfunc apply2(f func(int) (int, int), x int) (int, int) {\n\treturn f(x)\n}\n")
	sb.WriteString("func deep(n int, acc int) int {\n\tif n <= 0 {\n\t\treturn acc\n\t}\n\treturn deep(n-1, acc+1)\n}\n")
	s.rets = 1
	s.line(0, "func body(p0 int) int {")
	vars := s.stmts(1, 3, 3+r.intn(4), []string{"p0"})
	vars = s.blank(1, vars)
	if r.chance(50) {
		s.blankLoop(1, vars, true)
	}
	s.retStmt(1, vars)
	s.line(0, "}")
	// top-level statements of the snippet (Eval runs them): only loops may hold exits
	s.rets = 0
	s.line(0, "w := 5")
	top := []string{"w"}
	for k := 0; k < 2+r.intn(4); k++ {
		switch r.intn(9) {
		case 6, 7: // blank assignments at the top level of the snippet: Eval must return no residual value
			s.top = true
			top = s.blank(0, top)
			top = s.blank(0, top)
		case 8:
			s.top = true
			s.blankLoop(0, top, false)
		case 0:
			s.line(0, "body(%s)", s.atom(top))
		case 1:
			s.line(0, "pair(w, 2)")
		case 2:
			s.line(0, "for i := 0; i < 3; i++ {\n\tif i == 1 {\n\t\tcontinue\n\t}\n\tw += one(i)\n\tif w > 100 {\n\t\tbreak\n\t}\n}")
		case 3:
			s.line(0, "for _, x := range mk(w) {\n\tswitch x {\n\tcase 5, 6:\n\t\tw++\n\tdefault:\n\t\tgt.add(x)\n\t}\n}")
		case 4:
			s.line(0, "w, _ = pair(w, body(w))")
		default:
			s.line(0, "if w > 3 {\n\ttriple(w)\n} else {\n\tw = 9\n}")
		}
	}
	s.line(0, "fmt.Println(w %% 1000)")
	return sb.String()
}

// ---------------------------------------------------------------------------
// c07-script: the dynamic cross-check through the real VM.

type c07Residual struct {
	Kind string `json:"kind"`
	Src  string `json:"src"`
	Rets string `json:"returned"`
	Err  string `json:"err,omitempty"`
}

func cmdC07Script(seed uint64, n int, dir string) {
	r := newRng(seed)
	st := newStats()
	kinds := map[string]int{}
	// (a) generated programs against the Go toolchain
	for c := 0; c < n; c++ {
		src := genStackProgramK(r, 10, kinds)
		st.add("stack program vs go", fmt.Sprintf("stack program %d (%d lines)", c, strings.Count(src, "\n")))
		done := make(chan bool, 1)
		go func() { diffProgram(st, "stack-program", src); done <- true }()
		select {
		case <-done:
		case <-time.After(60 * time.Second):
			st.mismatchG("stack-program-timeout", progMismatch{Kind: "stack-program does not finish within 60 s (go build + run + goatlang run)", Src: src})
			st.write(dir + "/C07_script_stats.json")
			return
		}
	}
	for k, src := range append([]string{c07CorpusProgram}, c07ValueCorpus...) {
		st.add("corpus program vs go", fmt.Sprintf("corpus program %d", k))
		group := "corpus-program"
		if k > 0 {
			group = "copy-as-value"
		}
		diffProgram(st, group, src)
	}
	// (b) Eval of statements-only inputs returns no residual values
	for c := 0; c < 12*n; c++ {
		src := genStatementSnippet(r)
		var out bytes.Buffer
		vm := g.New(g.WithStdout(&out))
		var rets []g.Value
		var err error
		func() {
			defer func() {
				if p := recover(); p != nil {
					err = fmt.Errorf("GO PANIC ESCAPED: %v", p)
				}
			}()
			rets, err = vm.Eval(fstest.MapFS{}, "in", src)
		}()
		st.add("statements-only Eval", fmt.Sprintf("snippet %d (%d lines)", c, strings.Count(src, "\n")))
		switch {
		case err != nil:
			st.mismatchG("eval-error", c07Residual{Kind: "statements-only Eval fails", Src: src, Err: err.Error()})
		case len(rets) != 0:
			var p []string
			for _, v := range rets {
				p = append(p, v.String())
			}
			st.mismatchG("eval-residual", c07Residual{Kind: "statements-only Eval returns residual values", Src: src, Rets: strings.Join(p, ",")})
		}
	}
	// the statements-only strings of the test tables, too
	for _, s := range testTableStrings() {
		if !c07StatementsOnly(s) || strings.Contains(s, "time.Sleep") || strings.Contains(s, "os.") {
			continue
		}
		if _, ok := c07Compile(s, true); !ok {
			continue
		}
		if endlessTestString(s) {
			st.Histogram["test-table string is an endless loop (not run)"]++
			continue
		}
		src := s
		type res struct {
			n   int
			err error
		}
		ch := make(chan res, 1)
		go func() {
			defer func() {
				if p := recover(); p != nil {
					ch <- res{0, fmt.Errorf("GO PANIC ESCAPED: %v", p)}
				}
			}()
			vm := g.New(g.WithStdout(&bytes.Buffer{}))
			rets, err := vm.Eval(fstest.MapFS{}, "in", src)
			ch <- res{len(rets), err}
		}()
		select {
		case x := <-ch:
			st.add("test-table statements-only Eval", s)
			if x.err == nil && x.n != 0 {
				st.mismatchG("eval-residual-table", c07Residual{Kind: "statements-only test-table input returns residual values", Src: s, Rets: fmt.Sprint(x.n, " values")})
			}
		case <-time.After(3 * time.Second):
			st.Histogram["test-table string does not terminate (skipped)"]++
		}
	}
	// (c) frame hygiene: fresh frames start from nil slots (see c07hyg.go)
	cmdC07Hygiene(r, st, (n+2)/3, kinds)
	for k, v := range kinds {
		st.Histogram["construct:"+k] = v
	}
	st.write(dir + "/C07_script_stats.json")
}
