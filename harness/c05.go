package main

import (
	"bytes"
	"fmt"
	"go/ast"
	"go/parser"
	"go/token"
	"go/types"
	"strings"
	"testing/fstest"

	g "github.com/philhassey/goatlang"
)

// C05: expression grouping.  Oracle for "as the Go specification prescribes":
// the Go toolchain's own parser (go/parser) for the grouping, and a direct
// int32/bool evaluation of its AST for the value.

var c05Bin = []string{"*", "/", "%", "<<", ">>", "&", "+", "-", "|", "^", "==", "!=", "<", "<=", ">", ">=", "&&", "||"}
var c05Un = []string{"-", "^", "!"}

type etok struct {
	atom  bool
	isInt bool
	text  string
}

func toksString(ts []etok) string {
	var p []string
	for _, t := range ts {
		p = append(p, t.text)
	}
	return strings.Join(p, " ")
}

// layoutToks renders the tokens with a line break after operators and opening parentheses (all of them, or a
// random subset); a break after an operand or a closing parenthesis would end the statement in Go
func layoutToks(ts []etok, all bool, r *rng) string {
	var sb strings.Builder
	for i, t := range ts {
		sb.WriteString(t.text)
		if i == len(ts)-1 {
			break
		}
		if !t.atom && t.text != ")" && (all || r.chance(40)) {
			sb.WriteString("\n")
		} else {
			sb.WriteString(" ")
		}
	}
	return sb.String()
}

func toksCoq(ts []etok) string {
	var p []string
	for _, t := range ts {
		if t.atom {
			p = append(p, fmt.Sprintf("TAtom %v %s", t.isInt, coqStrLit(t.text)))
		} else {
			p = append(p, "TSym "+coqStrLit(t.text))
		}
	}
	return "[" + strings.Join(p, "; ") + "]"
}

func coqStrLit(s string) string { return "\"" + strings.ReplaceAll(s, "\"", "\"\"") + "\"" }

// goDump renders a go/parser AST in the format of goatlang's tree dump.
func goDump(e ast.Expr) string {
	switch x := e.(type) {
	case *ast.ParenExpr:
		return goDump(x.X)
	case *ast.Ident:
		return x.Name
	case *ast.BasicLit:
		return x.Value
	case *ast.BinaryExpr:
		if x.Op == token.AND_NOT { // goatlang has no &^ token: it reads & followed by the unary ^
			return "(& " + goDump(x.X) + " (complement " + goDump(x.Y) + "))"
		}
		return "(" + x.Op.String() + " " + goDump(x.X) + " " + goDump(x.Y) + ")"
	case *ast.UnaryExpr:
		inner := goDump(x.X)
		switch x.Op {
		case token.SUB:
			// goatlang folds the sign into an integer literal
			y := x.X
			for {
				if p, ok := y.(*ast.ParenExpr); ok {
					y = p.X
					continue
				}
				break
			}
			if bl, ok := y.(*ast.BasicLit); ok && bl.Kind == token.INT {
				return "-" + bl.Value // goatlang folds the sign into an integer literal
			}
			return "(negate " + inner + ")"
		case token.XOR:
			return "(complement " + inner + ")"
		case token.NOT:
			return "(! " + inner + ")"
		}
	}
	return "?"
}

type tval struct {
	isBool bool
	i      int32
	b      bool
}

type evalPanic struct{}

func goEval(e ast.Expr, env map[string]tval) (res tval, typeOK bool) {
	switch x := e.(type) {
	case *ast.ParenExpr:
		return goEval(x.X, env)
	case *ast.Ident:
		v, ok := env[x.Name]
		return v, ok
	case *ast.BasicLit:
		var n int64
		fmt.Sscan(x.Value, &n)
		return tval{i: int32(n)}, true
	case *ast.UnaryExpr:
		v, ok := goEval(x.X, env)
		if !ok {
			return v, false
		}
		switch x.Op {
		case token.SUB:
			return tval{i: -v.i}, !v.isBool
		case token.XOR:
			return tval{i: ^v.i}, !v.isBool
		case token.NOT:
			return tval{isBool: true, b: !v.b}, v.isBool
		}
	case *ast.BinaryExpr:
		a, ok := goEval(x.X, env)
		if !ok {
			return a, false
		}
		if x.Op == token.LAND || x.Op == token.LOR {
			if !a.isBool {
				return a, false
			}
			// short circuit, but the right operand must still type-check
			b, ok := goEvalNoPanic(x.Y, env)
			if !ok || !b.isBool {
				return a, false
			}
			if x.Op == token.LAND {
				if !a.b {
					return tval{isBool: true, b: false}, true
				}
			} else if a.b {
				return tval{isBool: true, b: true}, true
			}
			b, _ = goEval(x.Y, env)
			return b, true
		}
		b, ok := goEval(x.Y, env)
		if !ok {
			return b, false
		}
		switch x.Op {
		case token.EQL, token.NEQ:
			if a.isBool != b.isBool {
				return a, false
			}
			eq := a.i == b.i && a.b == b.b
			if x.Op == token.NEQ {
				eq = !eq
			}
			return tval{isBool: true, b: eq}, true
		}
		if a.isBool || b.isBool {
			return a, false
		}
		switch x.Op {
		case token.LSS:
			return tval{isBool: true, b: a.i < b.i}, true
		case token.LEQ:
			return tval{isBool: true, b: a.i <= b.i}, true
		case token.GTR:
			return tval{isBool: true, b: a.i > b.i}, true
		case token.GEQ:
			return tval{isBool: true, b: a.i >= b.i}, true
		case token.ADD:
			return tval{i: a.i + b.i}, true
		case token.SUB:
			return tval{i: a.i - b.i}, true
		case token.MUL:
			return tval{i: a.i * b.i}, true
		case token.QUO:
			if b.i == 0 {
				panic(evalPanic{})
			}
			return tval{i: a.i / b.i}, true
		case token.REM:
			if b.i == 0 {
				panic(evalPanic{})
			}
			return tval{i: a.i % b.i}, true
		case token.SHL:
			if b.i < 0 {
				panic(evalPanic{})
			}
			return tval{i: a.i << b.i}, true
		case token.SHR:
			if b.i < 0 {
				panic(evalPanic{})
			}
			return tval{i: a.i >> b.i}, true
		case token.AND:
			return tval{i: a.i & b.i}, true
		case token.AND_NOT:
			return tval{i: a.i &^ b.i}, true
		case token.OR:
			return tval{i: a.i | b.i}, true
		case token.XOR:
			return tval{i: a.i ^ b.i}, true
		}
	}
	return tval{}, false
}

func goEvalNoPanic(e ast.Expr, env map[string]tval) (v tval, ok bool) {
	defer func() {
		if r := recover(); r != nil {
			if _, is := r.(evalPanic); !is {
				panic(r)
			}
			// type is still determinable: evaluate the type only
			v, ok = goType(e), true
			if v.i == -99 {
				ok = false
			}
		}
	}()
	return goEval(e, env)
}

// goType returns a value whose isBool field is the static type; i = -99 on type error.
func goType(e ast.Expr) tval {
	env := map[string]tval{"a": {i: 1}, "b": {i: 1}, "c": {i: 1}, "d": {i: 1}, "p": {isBool: true}, "q": {isBool: true}}
	var res tval
	func() {
		defer func() {
			if r := recover(); r != nil {
				res = tval{i: -99}
			}
		}()
		v, ok := goEval(e, env)
		if !ok {
			res = tval{i: -99}
			return
		}
		res = v
	}()
	return res
}

type c05Mismatch struct {
	Kind     string `json:"kind"`
	Expr     string `json:"expr"`
	Ops      string `json:"ops"`
	Expected string `json:"expected"`
	Got      string `json:"got"`
	Env      string `json:"env,omitempty"`
}

func binOpsOf(ts []etok) string {
	var p []string
	for i, t := range ts {
		if !t.atom && t.text != "(" && t.text != ")" && i > 0 && (ts[i-1].atom || ts[i-1].text == ")") {
			p = append(p, t.text)
		}
	}
	return strings.Join(p, " ")
}

// genExpr builds a random token list: operand (binop operand)* with unary
// prefixes and balanced parentheses around sub-ranges.
func genExpr(r *rng, nops int, unaryPct, parenPct int) []etok {
	atoms := []etok{{true, false, "a"}, {true, false, "b"}, {true, false, "c"}, {true, false, "d"}, {true, false, "p"}, {true, false, "q"},
		{true, true, "1"}, {true, true, "2"}, {true, true, "3"}, {true, true, "7"}, {true, true, "8"}}
	type item struct{ toks []etok }
	operand := func() []etok {
		var ts []etok
		for r.chance(unaryPct) {
			ts = append(ts, etok{text: pick(r, c05Un)})
			if len(ts) >= 2 {
				break
			}
		}
		return append(ts, pick(r, atoms))
	}
	var items [][]etok
	var ops []string
	for i := 0; i <= nops; i++ {
		items = append(items, operand())
		if i < nops {
			ops = append(ops, pick(r, c05Bin))
		}
	}
	// random parenthesisation: pick sub-ranges [i,j] and wrap
	open := make([]int, nops+1)
	closeP := make([]int, nops+1)
	pre := make([][]etok, nops+1)
	for k := 0; k < 2; k++ {
		if nops >= 1 && r.chance(parenPct) {
			i := r.intn(nops)
			j := i + 1 + r.intn(nops-i)
			open[i]++
			closeP[j]++
			if r.chance(unaryPct) {
				pre[i] = append(pre[i], etok{text: pick(r, c05Un)})
			}
		}
	}
	var out []etok
	for i := 0; i <= nops; i++ {
		out = append(out, pre[i]...)
		for k := 0; k < open[i]; k++ {
			out = append(out, etok{text: "("})
		}
		out = append(out, items[i]...)
		for k := 0; k < closeP[i]; k++ {
			out = append(out, etok{text: ")"})
		}
		if i < nops {
			out = append(out, etok{text: ops[i]})
		}
	}
	return out
}

func cmdC05(seed uint64, thorough bool, dir string) {
	r := newRng(seed)
	st := newStats()
	var exprs [][]etok
	seen := map[string]bool{}
	addE := func(ts []etok) {
		s := toksString(ts)
		if !seen[s] {
			seen[s] = true
			exprs = append(exprs, ts)
		}
	}
	at := func(s string) etok { return etok{true, false, s} }
	// exhaustive: every operator pair and triple over plain operands
	for _, o1 := range c05Bin {
		for _, o2 := range c05Bin {
			addE([]etok{at("a"), {text: o1}, at("b"), {text: o2}, at("c")})
			for _, u := range c05Un {
				addE([]etok{{text: u}, at("a"), {text: o1}, at("b"), {text: o2}, at("c")})
				addE([]etok{at("a"), {text: o1}, {text: u}, at("b"), {text: o2}, at("c")})
				addE([]etok{at("a"), {text: o1}, at("b"), {text: o2}, {text: u}, at("c")})
			}
			addE([]etok{at("a"), {text: o1}, {text: "("}, at("b"), {text: o2}, at("c"), {text: ")"}})
			addE([]etok{{text: "("}, at("a"), {text: o1}, at("b"), {text: ")"}, {text: o2}, at("c")})
			for _, o3 := range c05Bin {
				addE([]etok{at("a"), {text: o1}, at("b"), {text: o2}, at("c"), {text: o3}, at("d")})
			}
		}
	}
	nExh := len(exprs)
	// Go's remaining binary operator, &^ (bit clear): goatlang reads it as & followed by unary ^, which groups
	// like Go's level-5 operator; every pair and triple with it (differential only; GoPrec's token alphabet has no &^)
	withAndNot := append(append([]string{}, c05Bin...), "&^")
	for _, o1 := range withAndNot {
		for _, o2 := range withAndNot {
			if o1 != "&^" && o2 != "&^" {
				continue
			}
			addE([]etok{at("a"), {text: o1}, at("b"), {text: o2}, at("c")})
			addE([]etok{at("a"), {text: o1}, {text: "("}, at("b"), {text: o2}, at("c"), {text: ")"}})
			for _, o3 := range c05Bin {
				addE([]etok{at("a"), {text: o1}, at("b"), {text: o2}, at("c"), {text: o3}, at("d")})
				addE([]etok{at("a"), {text: o3}, at("b"), {text: o1}, at("c"), {text: o2}, at("d")})
			}
		}
	}
	nExhAll := len(exprs)
	nr := 6000
	if thorough {
		nr = 150000
	}
	for i := 0; i < nr; i++ {
		addE(genExpr(r, 1+r.intn(4), 25, 35))
	}
	st.Extra["exhaustive_pairs_triples"] = nExh
	// --- (a) grouping: real parser vs go/parser; (b) Coq cases
	var cases []string
	wellTyped := map[int]ast.Expr{}
	for i, ts := range exprs {
		src := toksString(ts)
		got, err := g.VerifParse(src, false)
		gotS := got
		if err != nil {
			gotS = "ERR"
		} else {
			// tree of the single top-level statement: "(_ X)"
			gotS = strings.TrimSuffix(strings.TrimPrefix(got, "(_ "), ")")
		}
		class := fmt.Sprintf("ops=%d", strings.Count(binOpsOf(ts), " ")+1)
		st.add(class, src)
		ge, perr := parser.ParseExpr(src)
		if perr == nil {
			exp := goDump(ge)
			if exp != gotS {
				st.mismatchG("grouping|"+binOpsOf(ts), c05Mismatch{Kind: "grouping", Expr: src, Ops: binOpsOf(ts), Expected: exp, Got: gotS})
			}
			// valid Go only: go/types with a, b, c, d int32 and p, q bool rejects what the int32 evaluation below
			// cannot see (an untyped constant sub-expression that overflows int32, a constant division by zero, ...)
			if tv := goType(ge); tv.i != -99 && c05ValidGo(src) {
				wellTyped[i] = ge
			} else if tv.i != -99 {
				st.Histogram["not valid Go for the type checker (skipped in the value comparison)"]++
			}
		}
		// source layout: the same tokens spread over several lines -- a line break after an operator or an opening
		// parenthesis never ends a Go expression -- must give the same tree (every break, and a random subset)
		if perr == nil {
			for mode := 0; mode < 2; mode++ {
				ml := layoutToks(ts, mode == 0, r)
				if !strings.Contains(ml, "\n") {
					continue
				}
				gm, merr := parser.ParseExpr(ml)
				if merr != nil || goDump(gm) != goDump(ge) {
					continue // not the same Go expression in this layout (never observed; kept as a guard)
				}
				st.Histogram["multi-line layout"]++
				got2, err2 := g.VerifParse(ml, false)
				got2S := "ERR"
				if err2 == nil {
					got2S = strings.TrimSuffix(strings.TrimPrefix(got2, "(_ "), ")")
				}
				if got2S != goDump(ge) {
					st.mismatchG("layout|"+binOpsOf(ts), c05Mismatch{Kind: "grouping of a multi-line expression", Expr: ml, Ops: binOpsOf(ts), Expected: goDump(ge), Got: got2S})
				}
			}
		}
		if strings.Contains(src, "&^") {
			continue // not in the Coq model's token alphabet
		}
		if i < nExh/6 || len(cases) < 4000 && (i%7 == 0 || i >= nExhAll) {
			cases = append(cases, fmt.Sprintf("CParse %s %s", toksCoq(ts), coqStrLit(gotS)))
		}
	}
	st.Extra["coq_cases"] = len(cases)
	files := writeCases(dir, "cases_C05", "From Coq Require Import ZArith List String.\nFrom GV Require Import GoSpec.GoPrec Model.CorrC05.\nImport ListNotations.\nOpen Scope string_scope.\n", "pmismatches", cases, 800)
	st.Extra["files"] = files
	// --- (c) values: well-typed expressions evaluated by goatlang vs the AST evaluation
	envs := []map[string]tval{}
	ivals := []int32{0, 1, 2, 3, 7, 8, -1, -8, 100}
	for k := 0; k < 6; k++ {
		e := map[string]tval{}
		for _, n := range []string{"a", "b", "c", "d"} {
			e[n] = tval{i: pick(r, ivals)}
		}
		e["p"] = tval{isBool: true, b: r.chance(50)}
		e["q"] = tval{isBool: true, b: r.chance(50)}
		envs = append(envs, e)
	}
	envs = append(envs, map[string]tval{"a": {i: 1}, "b": {i: 3}, "c": {i: 1}, "d": {i: 2}, "p": {isBool: true, b: true}, "q": {isBool: true}},
		map[string]tval{"a": {i: 6}, "b": {i: 1}, "c": {i: 1}, "d": {i: 3}, "p": {isBool: true}, "q": {isBool: true, b: true}},
		map[string]tval{"a": {i: 8}, "b": {i: 1}, "c": {i: 1}, "d": {i: 0}, "p": {isBool: true, b: true}, "q": {isBool: true, b: true}})
	var idxs []int
	for i := range exprs {
		if _, ok := wellTyped[i]; ok {
			idxs = append(idxs, i)
		}
	}
	st.Extra["well_typed"] = len(idxs)
	nval := 0
	for start := 0; start < len(idxs); start += 3000 {
		end := start + 3000
		if end > len(idxs) {
			end = len(idxs)
		}
		var sb strings.Builder
		for _, i := range idxs[start:end] {
			rt := "int"
			if goType(wellTyped[i]).isBool {
				rt = "bool"
			}
			fmt.Fprintf(&sb, "func e%d(a, b, c, d int, p, q bool) %s { return %s }\n", i, rt, toksString(exprs[i]))
		}
		var out bytes.Buffer
		vm := g.New(g.WithStdout(&out))
		if _, err := vm.Eval(fstest.MapFS{}, "in", sb.String()); err != nil {
			st.mismatchG("setup", c05Mismatch{Kind: "setup", Got: err.Error()})
			continue
		}
		for _, i := range idxs[start:end] {
			for _, env := range envs {
				nval++
				var exp string
				func() {
					defer func() {
						if r := recover(); r != nil {
							exp = "panic"
						}
					}()
					v, _ := goEval(wellTyped[i], env)
					if v.isBool {
						exp = fmt.Sprintf("bool:%v", v.b)
					} else {
						exp = fmt.Sprintf("int32:%d", v.i)
					}
				}()
				rets, err := vm.Call(fmt.Sprintf("main.e%d", i), 1, g.Int32(env["a"].i), g.Int32(env["b"].i), g.Int32(env["c"].i), g.Int32(env["d"].i), g.Bool(env["p"].b), g.Bool(env["q"].b))
				got := "panic"
				if err == nil {
					got = descr(rets[0], vm)
				}
				if got != exp {
					st.mismatchG("value|"+binOpsOf(exprs[i]), c05Mismatch{Kind: "value", Expr: toksString(exprs[i]), Ops: binOpsOf(exprs[i]), Expected: exp, Got: got,
						Env: fmt.Sprintf("a=%d b=%d c=%d d=%d p=%v q=%v", env["a"].i, env["b"].i, env["c"].i, env["d"].i, env["p"].b, env["q"].b)})
				}
			}
		}
	}
	st.Extra["value_evaluations"] = nval
	c05BoolChains(st)
	st.write(dir + "/C05_stats.json")
}

var c05Pkg = func() *types.Package {
	pkg := types.NewPackage("p", "p")
	for _, n := range []string{"a", "b", "c", "d"} {
		pkg.Scope().Insert(types.NewVar(token.NoPos, pkg, n, types.Typ[types.Int32]))
	}
	for _, n := range []string{"p", "q"} {
		pkg.Scope().Insert(types.NewVar(token.NoPos, pkg, n, types.Typ[types.Bool]))
	}
	return pkg
}()

// c05ValidGo: does the Go type checker accept the expression, with the integer variables typed int32?  The
// expression must also be usable where an int32 or a bool is expected (an untyped constant result must fit).
func c05ValidGo(src string) bool {
	fset := token.NewFileSet()
	tv, err := types.Eval(fset, c05Pkg, token.NoPos, src)
	if err != nil {
		return false
	}
	if b, ok := tv.Type.Underlying().(*types.Basic); ok && b.Info()&types.IsUntyped != 0 && b.Info()&types.IsInteger != 0 {
		_, err = types.Eval(fset, c05Pkg, token.NoPos, "int32("+src+")")
		return err == nil
	}
	return true
}

// c05BoolChains: every chain of && / || over four boolean operands in every parenthesisation (and with a negated
// operand or group), each under all 16 truth assignments, evaluated by goatlang with the optimizer on (the
// short-circuit jumps of a chain are where a code generator can regroup what the parser grouped correctly)
// against the evaluation of go/parser's tree.
func c05BoolChains(st *stats) {
	c05BoolChainsOver(st, "bool", []string{"p", "q", "r", "s"})
	// comparisons as operands: a negation in front of a group whose last operand is a comparison, a comparison
	// next to a short-circuit jump target ...
	c05BoolChainsOver(st, "cmp", []string{"a == b", "p", "c != d", "a < c"})
	c05BoolChainsOver(st, "cmp2", []string{"p", "a == b", "q", "c != d"})
}

func c05BoolChainsOver(st *stats, tag string, atoms []string) {
	ops := []string{"&&", "||"}
	var exprs []string
	shapes4 := []string{"A o1 B o2 C o3 D", "(A o1 B) o2 C o3 D", "A o1 (B o2 C) o3 D", "A o1 B o2 (C o3 D)", "(A o1 B o2 C) o3 D", "A o1 (B o2 C o3 D)",
		"(A o1 B) o2 (C o3 D)", "((A o1 B) o2 C) o3 D", "A o1 ((B o2 C) o3 D)", "(A o1 (B o2 C)) o3 D", "A o1 (B o2 (C o3 D))"}
	shapes3 := []string{"A o1 B o2 C", "(A o1 B) o2 C", "A o1 (B o2 C)"}
	fill := func(shape string, o []string, neg int) string {
		e := shape
		for i, a := range atoms {
			v := a
			if neg == i+1 {
				v = "!" + a
				if strings.Contains(a, " ") {
					v = "!(" + a + ")"
				}
			}
			e = strings.ReplaceAll(e, string(rune('A'+i)), v)
		}
		for i := range o {
			e = strings.ReplaceAll(e, fmt.Sprintf("o%d", i+1), o[i])
		}
		if neg == 5 {
			e = strings.Replace(e, "(", "!(", 1)
		}
		return e
	}
	for _, o1 := range ops {
		for _, o2 := range ops {
			for _, sh := range shapes3 {
				for neg := 0; neg <= 5; neg++ {
					exprs = append(exprs, fill(sh, []string{o1, o2}, neg))
				}
			}
			for _, o3 := range ops {
				for _, sh := range shapes4 {
					for neg := 0; neg <= 5; neg++ {
						exprs = append(exprs, fill(sh, []string{o1, o2, o3}, neg))
					}
				}
			}
		}
	}
	seen := map[string]bool{}
	var uniq []string
	for _, e := range exprs {
		if !seen[e] {
			seen[e] = true
			uniq = append(uniq, e)
		}
	}
	var sb strings.Builder
	for i, e := range uniq {
		fmt.Fprintf(&sb, "func bc%d(p bool, q bool, r bool, s bool, a int, b int, c int, d int) bool { return %s }\n", i, e)
		// the same chain as the condition of an if, where the last jump of the chain is the statement's own
		fmt.Fprintf(&sb, "func bi%d(p bool, q bool, r bool, s bool, a int, b int, c int, d int) int { if %s { return 1 }; return 0 }\n", i, e)
	}
	var out bytes.Buffer
	vm := g.New(g.WithStdout(&out))
	if _, err := vm.Eval(fstest.MapFS{}, "in", sb.String()); err != nil {
		st.mismatchG("setup", c05Mismatch{Kind: "setup", Got: err.Error()})
		return
	}
	for i, e := range uniq {
		ge, err := parser.ParseExpr(e)
		must(err)
		for m := 0; m < 256; m++ {
			if tag == "bool" && m >= 16 {
				break // the integer operands do not occur
			}
			env := map[string]tval{}
			var args []g.Value
			for k, a := range []string{"p", "q", "r", "s"} {
				b := m>>k&1 == 1
				env[a] = tval{isBool: true, b: b}
				args = append(args, g.Bool(b))
			}
			for k, a := range []string{"a", "b", "c", "d"} {
				x := int32(m >> (4 + k) & 1)
				env[a] = tval{i: x}
				args = append(args, g.Int32(x))
			}
			v, _ := goEval(ge, env)
			st.add("boolean chain ("+tag+")", e)
			for _, form := range []string{"bc", "bi"} {
				rets, err := vm.Call(fmt.Sprintf("main.%s%d", form, i), 1, args...)
				got := "error"
				if err == nil {
					got = rets[0].String()
				}
				want := fmt.Sprint(v.b)
				if form == "bi" {
					want = "0"
					if v.b {
						want = "1"
					}
				}
				if got != want {
					st.mismatchG("value|boolean chain", c05Mismatch{Kind: "value", Expr: e, Ops: form, Expected: want, Got: got,
						Env: fmt.Sprintf("p=%v q=%v r=%v s=%v a=%d b=%d c=%d d=%d", env["p"].b, env["q"].b, env["r"].b, env["s"].b, env["a"].i, env["b"].i, env["c"].i, env["d"].i)})
				}
			}
		}
	}
	st.Extra["boolean_chains_"+tag] = len(uniq)
}
