package main

import (
	"fmt"
	"testing/fstest"

	g "github.com/philhassey/goatlang"
)

// c19Rebind: Call resolves the NAME at the time of the call.  One shared VM, one fixed global name: natives of
// every NewFunc form (different arities, result counts, raising ones) are registered under that name one after
// the other with vm.Set, a script rebinds a func-typed global between two host calls, and after every rebinding
// the name is called (twice in a row, and interleaved with calls of another name).  The native registered LAST
// must receive exactly the parameters given to Call, and its results / its error must come back.
func c19Rebind(st *stats, r *rng, n int) {
	report := func(what, exp, got string, hist []string) {
		st.mismatchG("c19|rebind|"+what, map[string]any{"kind": "c19|rebind", "what": what, "expected": exp, "got": got, "history": hist})
	}
	vm := g.New()
	var hist []string
	var lastRecv string
	vm.Set("other", g.NewFunc(1, 1, func(v *g.VM, a []g.Value) g.Value { return g.Int(a[0].Int() + 1) }))
	for c := 0; c < n; c++ {
		id := c
		argc := r.intn(4)
		form := r.intn(5)
		var fn g.Value
		var wantRets []string
		raises := false
		switch form {
		case 0: // N -> 0
			fn = g.NewFunc(argc, 0, func(v *g.VM, a []g.Value) { lastRecv = fmt.Sprint(id, a) })
		case 1: // N -> 1
			fn = g.NewFunc(argc, 1, func(v *g.VM, a []g.Value) g.Value { lastRecv = fmt.Sprint(id, a); return g.Int(id * 7) })
			wantRets = []string{fmt.Sprint(id * 7)}
		case 2: // N -> 2
			fn = g.NewFunc(argc, 2, func(v *g.VM, a []g.Value) []g.Value {
				lastRecv = fmt.Sprint(id, a)
				return []g.Value{g.Int(id), g.String(fmt.Sprint("r", id))}
			})
			wantRets = []string{fmt.Sprint(id), fmt.Sprint("r", id)}
		case 3: // raises
			fn = g.NewFunc(argc, 1, func(v *g.VM, a []g.Value) g.Value { lastRecv = fmt.Sprint(id, a); panic(fmt.Sprint("boom", id)) })
			raises = true
		default: // 0 -> 1 without args slice
			argc = 0
			fn = g.NewFunc(0, 1, func(v *g.VM) g.Value { lastRecv = fmt.Sprint(id, []g.Value{}); return g.Int(id + 1000) })
			wantRets = []string{fmt.Sprint(id + 1000)}
		}
		vm.Set("entry", fn)
		hist = append(hist, fmt.Sprintf("Set(entry, native #%d: form %d, %d args)", id, form, argc))
		if len(hist) > 12 {
			hist = hist[len(hist)-12:]
		}
		reps := 1 + r.intn(2)
		for k := 0; k < reps; k++ {
			if r.chance(30) {
				vm.Call("other", 1, g.Int(k))
				hist = append(hist, "Call(other)")
			}
			params := make([]g.Value, argc)
			for i := range params {
				params[i] = g.Int(100*id + i + k)
			}
			lastRecv = "<not called>"
			rets, err := vm.Call("entry", len(wantRets), params...)
			hist = append(hist, fmt.Sprintf("Call(entry, %v)", params))
			st.add("rebind native", fmt.Sprintf("form=%d argc=%d", form, argc))
			wantRecv := fmt.Sprint(id, params)
			if lastRecv != wantRecv {
				report("the native registered last receives the parameters", wantRecv, lastRecv, hist)
			}
			if raises {
				if err == nil {
					report("the error raised by the native registered last reaches the caller", "an error", fmt.Sprint(rets), hist)
				}
				continue
			}
			if err != nil {
				report("no error", "nil", err.Error(), hist)
				continue
			}
			var got []string
			for _, v := range rets {
				got = append(got, v.String())
			}
			if fmt.Sprint(got) != fmt.Sprint(wantRets) {
				report("the results of the native registered last come back", fmt.Sprint(wantRets), fmt.Sprint(got), hist)
			}
		}
	}
	// a script rebinds a func-typed global between two host calls
	{
		vm := g.New()
		_, err := vm.Eval(fstest.MapFS{}, "in", "func double(x int) int { return x * 2 }\nfunc triple(x int) int { return x * 3 }\nHandler := double\n")
		if err != nil {
			report("script setup", "no error", err.Error(), nil)
			return
		}
		for k, want := range []struct {
			stmt string
			res  int
		}{{"", 10}, {"Handler = triple", 15}, {"", 15}, {"Handler = double", 10}, {"Handler = triple", 15}} {
			if want.stmt != "" {
				if _, err := vm.Eval(fstest.MapFS{}, "in", want.stmt); err != nil {
					report("script rebind", "no error", err.Error(), nil)
				}
			}
			rets, err := vm.Call("main.Handler", 1, g.Int(5))
			st.add("rebind by script", want.stmt)
			got := ""
			if err != nil {
				got = err.Error()
			} else {
				got = rets[0].String()
			}
			if got != fmt.Sprint(want.res) {
				report("Call after a script rebinds the global", fmt.Sprint(want.res), got, []string{fmt.Sprintf("step %d: %s; Call(Handler, 5)", k, want.stmt)})
			}
		}
	}
}
