package main

import (
	"bytes"
	"fmt"
	"strings"
	"testing/fstest"

	g "github.com/philhassey/goatlang"
)

// c13ConcatImmutability: strings are immutable and concatenation never alters its operands.  Histories of
// concatenations that SHARE stems (t := s + x; u := s + y; v := s + t ...; also += in loops, concatenation of a
// result with itself, results passed through functions and stored in slices / struct fields / maps), every
// variable printed AFTER all of them were computed, compared with the same history run natively.
func c13ConcatImmutability(st *stats, r *rng, n int) {
	pieces := []string{"a", "bc", "X", "Y", "-", "é", "世", "0123456789", "", "q"}
	for c := 0; c < n; c++ {
		var sb strings.Builder
		sb.WriteString("package main\n\nimport \"fmt\"\n\ntype B struct {\n\ts string\n}\n\nfunc id(s string) string {\n\treturn s\n}\n\nfunc app(s string, x string) string {\n\treturn s + x\n}\n\nfunc main() {\n")
		nat := []string{}
		names := []string{}
		add := func(expr string, val string) {
			name := fmt.Sprintf("v%d", len(names))
			fmt.Fprintf(&sb, "\t%s := %s\n", name, expr)
			names = append(names, name)
			nat = append(nat, val)
		}
		lit := func() (string, string) {
			p := pick(r, pieces)
			return fmt.Sprintf("%q", p), p
		}
		// stems that are themselves results of concatenations
		l1, p1 := lit()
		l2, p2 := lit()
		add(l1+" + "+l2, p1+p2)
		steps := 4 + r.intn(10)
		for k := 0; k < steps; k++ {
			i := r.intn(len(names))
			switch r.intn(8) {
			case 0, 1, 2:
				l, p := lit()
				add(names[i]+" + "+l, nat[i]+p)
			case 3:
				j := r.intn(len(names))
				add(names[i]+" + "+names[j], nat[i]+nat[j])
			case 4:
				l, p := lit()
				add("app("+names[i]+", "+l+")", nat[i]+p)
			case 5:
				l, p := lit()
				add(l+" + "+names[i], p+nat[i])
			case 6:
				// += in a loop on a copy of a stem
				l, p := lit()
				name := fmt.Sprintf("v%d", len(names))
				fmt.Fprintf(&sb, "\t%s := id(%s)\n\tfor i := 0; i < 3; i++ {\n\t\t%s += %s\n\t}\n", name, names[i], name, l)
				names = append(names, name)
				nat = append(nat, nat[i]+p+p+p)
			default:
				l, p := lit()
				name := fmt.Sprintf("v%d", len(names))
				fmt.Fprintf(&sb, "\tb%d := &B{s: %s}\n\tm%d := map[string]string{\"k\": %s + %s}\n\t%s := b%d.s + m%d[\"k\"]\n", k, names[i], k, names[i], l, name, k, k)
				names = append(names, name)
				nat = append(nat, nat[i]+nat[i]+p)
			}
		}
		var want strings.Builder
		for i, nm := range names {
			fmt.Fprintf(&sb, "\tfmt.Println(%d, len(%s), %s)\n", i, nm, nm)
			fmt.Fprintf(&want, "%d %d %s\n", i, len(nat[i]), nat[i])
		}
		sb.WriteString("}\n")
		src := sb.String()
		var out bytes.Buffer
		vm := g.New(g.WithStdout(&out))
		fs := fstest.MapFS{"main/main.go": &fstest.MapFile{Data: []byte(src)}}
		err := vm.Load(fs, "main")
		if err == nil {
			_, err = vm.Call("main.main", 0)
		}
		st.add("concatenation history", fmt.Sprintf("%d strings", len(names)))
		if err != nil || out.String() != want.String() {
			st.mismatchG("concatenation alters an operand or an earlier result", c13Direct{"strings sharing stems, all printed after all concatenations", src, want.String(), out.String() + fmt.Sprint(err)})
		}
	}
}
