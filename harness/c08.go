package main

import (
	"fmt"
	"strings"

	g "github.com/philhassey/goatlang"
)

// ---------------------------------------------------------------------------
// C08 correspondence: the real lookup + compiler.Shadow/Begin/End (hook
// VerifLookup) against Model/Lookup.v on well-bracketed operation sequences.

func cmdC08Corr(seed uint64, n int, dir string) {
	r := newRng(seed)
	st := newStats()
	var cases []string
	names := []string{"x", "y", "z", "i", "err"}
	for c := 0; c < n; c++ {
		l := g.VerifNewLookup()
		l.Begin()
		depth := 1
		maxDepth := 1
		var ops, ans []string
		nops := 5 + r.intn(60)
		tmp := 0
		for i := 0; i < nops; i++ {
			x := r.intn(100)
			nm := pick(r, names[:2+r.intn(4)])
			switch {
			case x < 22 && depth < 9:
				l.Begin()
				depth++
				if depth > maxDepth {
					maxDepth = depth
				}
				ops = append(ops, "SBegin")
				ans = append(ans, "None")
			case x < 44 && depth > 1:
				l.End()
				depth--
				ops = append(ops, "SEnd")
				ans = append(ans, "None")
			case x < 70:
				n := l.Declare(nm)
				ops = append(ops, "SDeclare "+coqStrLit(nm))
				ans = append(ans, fmt.Sprintf("Some (Some %d)", n))
			case x < 74:
				tmp++
				t := fmt.Sprintf("in:%d:%d", c, tmp)
				n := l.Index(t)
				ops = append(ops, "STemp "+coqStrLit(t))
				ans = append(ans, fmt.Sprintf("Some (Some %d)", n))
			default:
				ops = append(ops, "SResolve "+coqStrLit(nm))
				if l.Exists(nm) {
					ans = append(ans, fmt.Sprintf("Some (Some %d)", l.Index(nm)))
				} else {
					ans = append(ans, "Some None")
				}
			}
		}
		for depth > 1 {
			l.End()
			depth--
			ops = append(ops, "SEnd")
			ans = append(ans, "None")
			for _, nm := range names[:3] {
				ops = append(ops, "SResolve "+coqStrLit(nm))
				if l.Exists(nm) {
					ans = append(ans, fmt.Sprintf("Some (Some %d)", l.Index(nm)))
				} else {
					ans = append(ans, "Some None")
				}
			}
		}
		cases = append(cases, fmt.Sprintf("CScope [%s] [%s] %d", strings.Join(ops, "; "), strings.Join(ans, "; "), l.Cap()))
		st.add(fmt.Sprintf("maxdepth=%d", maxDepth), fmt.Sprintf("ops=%d maxdepth=%d slots=%d", len(ops), maxDepth, l.Len()))
	}
	files := writeCases(dir, "cases_C08", "From Coq Require Import ZArith List String.\nFrom GV Require Import Model.Lookup Model.CorrC08.\nImport ListNotations.\nOpen Scope string_scope.\n", "smismatches", cases, 150)
	st.Extra["files"] = files
	st.write(dir + "/C08_corr_stats.json")
}

// ---------------------------------------------------------------------------
// C08 system level: generated Go programs that redeclare x, y, z at every kind
// of block boundary; the oracle is the Go toolchain (goRefRun).

type scopeGen struct {
	r     *rng
	sb    *strings.Builder
	tag   int
	nfunc int
	kinds map[string]int
}

var scopeNames = []string{"x", "y", "z"}

func (s *scopeGen) line(ind int, format string, args ...any) {
	s.sb.WriteString(strings.Repeat("\t", ind))
	fmt.Fprintf(s.sb, format, args...)
	s.sb.WriteString("\n")
}

func (s *scopeGen) print(ind int) {
	s.tag++
	s.line(ind, "fmt.Println(%d, x, y, z)", s.tag)
}

func (s *scopeGen) expr() string {
	a := pick(s.r, scopeNames)
	switch s.r.intn(4) {
	case 0:
		return fmt.Sprintf("%s + %d", a, s.r.intn(9)+1)
	case 1:
		return fmt.Sprintf("%s*2 - %s", a, pick(s.r, scopeNames))
	case 2:
		return fmt.Sprintf("int(%d)", s.r.intn(50))
	}
	return a
}

func (s *scopeGen) stmts(ind, depth, n int, declared map[string]bool) {
	for i := 0; i < n; i++ {
		nm := pick(s.r, scopeNames)
		x := s.r.intn(100)
		switch {
		case x < 22:
			// declaration in the current block (Go forbids := of an already-declared name in the same block)
			if declared[nm] {
				s.line(ind, "%s = %s", nm, s.expr())
				continue
			}
			declared[nm] = true
			switch s.r.intn(3) {
			case 0:
				s.line(ind, "%s := %s", nm, s.expr())
				s.kinds["decl :="]++
			case 1:
				s.line(ind, "var %s int = %s", nm, s.expr())
				s.kinds["decl var="]++
			default:
				s.line(ind, "var %s int", nm)
				s.kinds["decl var"]++
			}
			s.line(ind, "_ = %s", nm)
		case x < 40:
			switch s.r.intn(3) {
			case 0:
				s.line(ind, "%s = %s", nm, s.expr())
			case 1:
				s.line(ind, "%s += %d", nm, s.r.intn(5)+1)
			default:
				s.line(ind, "%s++", nm)
			}
			s.kinds["assign"]++
		case x < 55:
			s.print(ind)
		case depth <= 0:
			s.print(ind)
		case x < 63:
			s.kinds["if"]++
			s.line(ind, "if %s > %d {", pick(s.r, scopeNames), s.r.intn(100))
			s.stmts(ind+1, depth-1, 1+s.r.intn(4), map[string]bool{})
			s.print(ind + 1)
			if s.r.chance(50) {
				s.line(ind, "} else {")
				s.kinds["else"]++
				s.stmts(ind+1, depth-1, 1+s.r.intn(4), map[string]bool{})
				s.print(ind + 1)
			}
			s.line(ind, "}")
		case x < 70:
			s.kinds["if init"]++
			v := pick(s.r, scopeNames)
			s.line(ind, "if %s := %s; %s > %d {", v, s.expr(), v, s.r.intn(60))
			s.stmts(ind+1, depth-1, 1+s.r.intn(3), map[string]bool{})
			s.print(ind + 1)
			s.line(ind, "} else if %s < %d {", v, s.r.intn(30))
			s.stmts(ind+1, depth-1, 1+s.r.intn(3), map[string]bool{})
			s.print(ind + 1)
			s.line(ind, "} else {")
			s.stmts(ind+1, depth-1, 1+s.r.intn(3), map[string]bool{})
			s.print(ind + 1)
			s.line(ind, "}")
		case x < 79:
			s.kinds["for"]++
			v := pick(s.r, append([]string{"i", "i"}, scopeNames...))
			s.line(ind, "for %s := int(0); %s < %d; %s++ {", v, v, 1+s.r.intn(3), v)
			s.stmts(ind+1, depth-1, 1+s.r.intn(4), map[string]bool{})
			s.print(ind + 1)
			s.line(ind, "}")
		case x < 86:
			s.kinds["range"]++
			v := pick(s.r, scopeNames)
			k := pick(s.r, []string{"_", "_", "k"})
			if k == "k" {
				s.line(ind, "for k, %s := range []int{%d, %d} {", v, s.r.intn(9), s.r.intn(9))
				s.line(ind+1, "_ = k")
			} else {
				s.line(ind, "for _, %s := range []int{%d, %d} {", v, s.r.intn(9), s.r.intn(9))
			}
			s.line(ind+1, "_ = %s", v)
			s.stmts(ind+1, depth-1, 1+s.r.intn(4), map[string]bool{})
			s.print(ind + 1)
			s.line(ind, "}")
		case x < 94:
			s.kinds["switch"]++
			tagged := s.r.chance(50)
			if tagged {
				s.line(ind, "switch %s %% 3 {", pick(s.r, scopeNames))
				s.line(ind, "case %d:", s.r.intn(2))
			} else {
				s.line(ind, "switch {")
				s.line(ind, "case %s > %d:", pick(s.r, scopeNames), s.r.intn(100))
			}
			s.stmts(ind+1, depth-1, 1+s.r.intn(3), map[string]bool{})
			s.print(ind + 1)
			if s.r.chance(60) {
				if tagged {
					s.line(ind, "case 2, -1, -2:")
				} else {
					s.line(ind, "case %s < %d:", pick(s.r, scopeNames), s.r.intn(100))
				}
				s.stmts(ind+1, depth-1, 1+s.r.intn(3), map[string]bool{})
				s.print(ind + 1)
			}
			s.line(ind, "default:")
			s.stmts(ind+1, depth-1, 1+s.r.intn(3), map[string]bool{})
			s.print(ind + 1)
			s.line(ind, "}")
		default:
			if s.nfunc > 0 {
				s.kinds["call"]++
				s.line(ind, "%s = g%d(%s, %s)", nm, s.r.intn(s.nfunc), s.expr(), s.expr())
			}
		}
	}
}

func genScopeProgram(r *rng, nf, depth int, kinds map[string]int) string {
	var sb strings.Builder
	s := &scopeGen{r: r, sb: &sb, kinds: kinds}
	sb.WriteString("package main\n\nimport \"fmt\"\n\nvar x, y, z int = 100, 200, 300\n\n")
	// helper functions whose parameters shadow the globals
	for i := 0; i < 3; i++ {
		p1, p2 := pick(r, scopeNames), pick(r, scopeNames)
		if p1 == p2 {
			p2 = "w"
		}
		s.line(0, "func g%d(%s, %s int) int {", i, p1, p2)
		s.stmts(1, 1, 2+r.intn(3), map[string]bool{p1: true, p2: true})
		s.print(1)
		s.line(1, "return %s + %s", p1, p2)
		s.line(0, "}\n")
		s.nfunc = i + 1
	}
	for i := 0; i < nf; i++ {
		s.line(0, "func f%d() {", i)
		s.stmts(1, depth, 3+r.intn(6), map[string]bool{})
		s.print(1)
		s.line(0, "}\n")
	}
	s.line(0, "func main() {")
	for i := 0; i < nf; i++ {
		s.line(1, "f%d()", i)
		s.print(1)
	}
	s.line(0, "}")
	return sb.String()
}

type progMismatch struct {
	Kind     string `json:"kind"`
	Src      string `json:"src"`
	Expected string `json:"expected"`
	Got      string `json:"got"`
	Line     int    `json:"first_diff_line"`
	Err      string `json:"err,omitempty"`
}

// diffProgram runs src with the Go toolchain and with goatlang and records a mismatch.
func diffProgram(st *stats, group, src string) {
	exp, panicked, err := goRefRun(asInt32(src))
	if err != nil {
		// generator produced an invalid Go program: not a finding; count it
		st.Histogram["invalid_go_program"]++
		if st.Histogram["invalid_go_program"] <= 3 {
			st.Extra[fmt.Sprintf("invalid_go_%d", st.Histogram["invalid_go_program"])] = err.Error() + "\n" + src
		}
		return
	}
	got, gerr := goatRun(src)
	ok := got == exp && (gerr != nil) == panicked
	if !ok {
		el, gl := strings.Split(exp, "\n"), strings.Split(got, "\n")
		i := 0
		for i < len(el) && i < len(gl) && el[i] == gl[i] {
			i++
		}
		e, gg := "<end>", "<end>"
		if i < len(el) {
			e = el[i]
		}
		if i < len(gl) {
			gg = gl[i]
		}
		es := ""
		if gerr != nil {
			es = gerr.Error()
		}
		st.mismatchG(group, progMismatch{Kind: group, Src: src, Expected: e, Got: gg, Line: i + 1, Err: es})
	}
}

func cmdC08Script(seed uint64, n int, dir string) {
	r := newRng(seed)
	st := newStats()
	kinds := map[string]int{}
	for c := 0; c < n; c++ {
		depth := 2 + c%4
		src := genScopeProgram(r, 8, depth, kinds)
		st.add(fmt.Sprintf("program depth=%d", depth), fmt.Sprintf("program %d: %d lines, depth %d", c, strings.Count(src, "\n"), depth))
		diffProgram(st, "scope-program", src)
	}
	for k, v := range kinds {
		st.Histogram["construct:"+k] = v
	}
	st.write(dir + "/C08_script_stats.json")
}
