package main

import (
	"fmt"
	"strings"

	g "github.com/philhassey/goatlang"
)

// ---------------------------------------------------------------------------
// C08 correspondence: the real lookup + compiler.Shadow/Begin/End (hook
// VerifLookup) against Model/Lookup.v on well-bracketed operation sequences.

func cmdC08Corr(seed uint64, n int, dir string) {
	r := newRng(seed)
	st := newStats()
	var cases []string
	names := []string{"x", "y", "z", "i", "err"}
	for c := 0; c < n; c++ {
		l := g.VerifNewLookup()
		l.Begin()
		// oracle: Go's block scoping as a stack of maps name -> variable identity (creation order)
		blocks := []map[string]int{{}}
		fresh := 0
		oDeclare := func(nm string) int {
			top := blocks[len(blocks)-1]
			if id, ok := top[nm]; ok {
				return id
			}
			top[nm] = fresh
			fresh++
			return fresh - 1
		}
		oResolve := func(nm string) (int, bool) {
			for i := len(blocks) - 1; i >= 0; i-- {
				if id, ok := blocks[i][nm]; ok {
					return id, true
				}
			}
			return 0, false
		}
		var trace []string
		bad := ""
		noteBad := func(what string) {
			if bad == "" {
				bad = what
			}
		}
		depth := 1
		maxDepth := 1
		var ops, ans []string
		nops := 5 + r.intn(60)
		tmp := 0
		for i := 0; i < nops; i++ {
			x := r.intn(100)
			nm := pick(r, names[:2+r.intn(4)])
			switch {
			case x < 22 && depth < 9:
				l.Begin()
				blocks = append(blocks, map[string]int{})
				trace = append(trace, "{")
				depth++
				if depth > maxDepth {
					maxDepth = depth
				}
				ops = append(ops, "SBegin")
				ans = append(ans, "None")
			case x < 44 && depth > 1:
				l.End()
				blocks = blocks[:len(blocks)-1]
				trace = append(trace, "}")
				depth--
				ops = append(ops, "SEnd")
				ans = append(ans, "None")
			case x < 70:
				n := l.Declare(nm)
				trace = append(trace, "declare "+nm)
				if exp := oDeclare(nm); exp != n {
					noteBad(fmt.Sprintf("declaration of %s got slot %d, a new variable would be %d", nm, n, exp))
				}
				ops = append(ops, "SDeclare "+coqStrLit(nm))
				ans = append(ans, fmt.Sprintf("Some (Some %d)", n))
			case x < 74:
				tmp++
				t := fmt.Sprintf("in:%d:%d", c, tmp)
				n := l.Index(t)
				oDeclare(t)
				trace = append(trace, "temp "+t)
				ops = append(ops, "STemp "+coqStrLit(t))
				ans = append(ans, fmt.Sprintf("Some (Some %d)", n))
			default:
				ops = append(ops, "SResolve "+coqStrLit(nm))
				trace = append(trace, "use "+nm)
				eid, eok := oResolve(nm)
				if l.Exists(nm) {
					got := l.Index(nm)
					ans = append(ans, fmt.Sprintf("Some (Some %d)", got))
					if !eok {
						noteBad(fmt.Sprintf("%s resolves to local slot %d but no enclosing block declares it", nm, got))
					} else if eid != got {
						noteBad(fmt.Sprintf("%s resolves to slot %d, the innermost enclosing declaration is variable %d", nm, got, eid))
					}
				} else {
					ans = append(ans, "Some None")
					if eok {
						noteBad(fmt.Sprintf("%s is not found although an enclosing block declares it (variable %d)", nm, eid))
					}
				}
			}
		}
		for depth > 1 {
			l.End()
			blocks = blocks[:len(blocks)-1]
			trace = append(trace, "}")
			depth--
			ops = append(ops, "SEnd")
			ans = append(ans, "None")
			for _, nm := range names[:3] {
				ops = append(ops, "SResolve "+coqStrLit(nm))
				trace = append(trace, "use "+nm)
				eid, eok := oResolve(nm)
				if l.Exists(nm) {
					got := l.Index(nm)
					ans = append(ans, fmt.Sprintf("Some (Some %d)", got))
					if !eok || eid != got {
						noteBad(fmt.Sprintf("after the block ends %s resolves to slot %d (expected %v %d)", nm, got, eok, eid))
					}
				} else {
					ans = append(ans, "Some None")
					if eok {
						noteBad(fmt.Sprintf("after the block ends %s is not found (expected variable %d)", nm, eid))
					}
				}
			}
		}
		if bad != "" {
			st.mismatchG("scope-ops|"+strings.SplitN(bad, " ", 2)[0], map[string]any{"kind": "scope operation sequence (Begin/End/Declare/Resolve through the real lookup and compiler.Shadow)", "what": bad, "ops": strings.Join(trace, "; ")})
		}
		cases = append(cases, fmt.Sprintf("CScope [%s] [%s] %d", strings.Join(ops, "; "), strings.Join(ans, "; "), l.Cap()))
		st.add(fmt.Sprintf("maxdepth=%d", maxDepth), fmt.Sprintf("ops=%d maxdepth=%d slots=%d", len(ops), maxDepth, l.Len()))
	}
	files := writeCases(dir, "cases_C08", "From Coq Require Import ZArith List String.\nFrom GV Require Import Model.Lookup Model.CorrC08.\nImport ListNotations.\nOpen Scope string_scope.\n", "smismatches", cases, 150)
	st.Extra["files"] = files
	st.write(dir + "/C08_corr_stats.json")
}

// ---------------------------------------------------------------------------
// C08 system level: generated Go programs that redeclare x, y, z at every kind
// of block boundary; the oracle is the Go toolchain (goRefRun).

type scopeGen struct {
	r     *rng
	sb    *strings.Builder
	tag   int
	nfunc int
	kinds map[string]int
	loops map[string]int // names that are counters of an enclosing three-clause loop: only increased (the program must terminate)
}

// assign writes `nm = e`, or an increment when nm may be the counter of an enclosing loop.
func (s *scopeGen) assign(ind int, nm, e string) {
	if s.loops[nm] > 0 {
		s.line(ind, "%s += %d", nm, s.r.intn(5)+1)
		return
	}
	s.line(ind, "%s = %s", nm, e)
}

var scopeNames = []string{"x", "y", "z"}

func (s *scopeGen) line(ind int, format string, args ...any) {
	s.sb.WriteString(strings.Repeat("\t", ind))
	fmt.Fprintf(s.sb, format, args...)
	s.sb.WriteString("\n")
}

func (s *scopeGen) print(ind int) {
	s.tag++
	s.line(ind, "fmt.Println(%d, x, y, z)", s.tag)
}

func (s *scopeGen) expr() string {
	a := pick(s.r, scopeNames)
	switch s.r.intn(4) {
	case 0:
		return fmt.Sprintf("%s + %d", a, s.r.intn(9)+1)
	case 1:
		return fmt.Sprintf("%s*2 - %s", a, pick(s.r, scopeNames))
	case 2:
		return fmt.Sprintf("int(%d)", s.r.intn(50))
	}
	return a
}

func (s *scopeGen) stmts(ind, depth, n int, declared map[string]bool) {
	for i := 0; i < n; i++ {
		nm := pick(s.r, scopeNames)
		x := s.r.intn(100)
		switch {
		case x < 22:
			// declaration in the current block (Go forbids := of an already-declared name in the same block)
			if declared[nm] {
				s.assign(ind, nm, s.expr())
				continue
			}
			declared[nm] = true
			switch s.r.intn(3) {
			case 0:
				s.line(ind, "%s := %s", nm, s.expr())
				s.kinds["decl :="]++
			case 1:
				s.line(ind, "var %s int = %s", nm, s.expr())
				s.kinds["decl var="]++
			default:
				s.line(ind, "var %s int", nm)
				s.kinds["decl var"]++
			}
			s.line(ind, "_ = %s", nm)
		case x < 40:
			switch s.r.intn(3) {
			case 0:
				s.assign(ind, nm, s.expr())
			case 1:
				s.line(ind, "%s += %d", nm, s.r.intn(5)+1)
			default:
				s.line(ind, "%s++", nm)
			}
			s.kinds["assign"]++
		case x < 55:
			s.print(ind)
		case depth <= 0:
			s.print(ind)
		case x < 63:
			s.kinds["if"]++
			s.line(ind, "if %s > %d {", pick(s.r, scopeNames), s.r.intn(100))
			s.stmts(ind+1, depth-1, 1+s.r.intn(4), map[string]bool{})
			s.print(ind + 1)
			if s.r.chance(50) {
				s.line(ind, "} else {")
				s.kinds["else"]++
				s.stmts(ind+1, depth-1, 1+s.r.intn(4), map[string]bool{})
				s.print(ind + 1)
			}
			s.line(ind, "}")
		case x < 70:
			s.kinds["if init"]++
			v := pick(s.r, scopeNames)
			s.line(ind, "if %s := %s; %s > %d {", v, s.expr(), v, s.r.intn(60))
			s.stmts(ind+1, depth-1, 1+s.r.intn(3), map[string]bool{})
			s.print(ind + 1)
			s.line(ind, "} else if %s < %d {", v, s.r.intn(30))
			s.stmts(ind+1, depth-1, 1+s.r.intn(3), map[string]bool{})
			s.print(ind + 1)
			s.line(ind, "} else {")
			s.stmts(ind+1, depth-1, 1+s.r.intn(3), map[string]bool{})
			s.print(ind + 1)
			s.line(ind, "}")
		case x < 79:
			s.kinds["for"]++
			v := pick(s.r, append([]string{"i", "i"}, scopeNames...))
			s.line(ind, "for %s := int(0); %s < %d; %s++ {", v, v, 1+s.r.intn(3), v)
			if s.loops == nil {
				s.loops = map[string]int{}
			}
			s.loops[v]++
			s.stmts(ind+1, depth-1, 1+s.r.intn(4), map[string]bool{})
			s.loops[v]--
			s.print(ind + 1)
			s.line(ind, "}")
		case x < 86:
			s.kinds["range"]++
			v := pick(s.r, scopeNames)
			k := pick(s.r, []string{"_", "_", "k"})
			if k == "k" {
				s.line(ind, "for k, %s := range []int{%d, %d} {", v, s.r.intn(9), s.r.intn(9))
				s.line(ind+1, "_ = k")
			} else {
				s.line(ind, "for _, %s := range []int{%d, %d} {", v, s.r.intn(9), s.r.intn(9))
			}
			s.line(ind+1, "_ = %s", v)
			s.stmts(ind+1, depth-1, 1+s.r.intn(4), map[string]bool{})
			s.print(ind + 1)
			s.line(ind, "}")
		case x < 94:
			s.kinds["switch"]++
			tagged := s.r.chance(50)
			if tagged {
				s.line(ind, "switch %s %% 3 {", pick(s.r, scopeNames))
				s.line(ind, "case %d:", s.r.intn(2))
			} else {
				s.line(ind, "switch {")
				s.line(ind, "case %s > %d:", pick(s.r, scopeNames), s.r.intn(100))
			}
			s.stmts(ind+1, depth-1, 1+s.r.intn(3), map[string]bool{})
			s.print(ind + 1)
			if s.r.chance(60) {
				if tagged {
					s.line(ind, "case 2, -1, -2:")
				} else {
					s.line(ind, "case %s < %d:", pick(s.r, scopeNames), s.r.intn(100))
				}
				s.stmts(ind+1, depth-1, 1+s.r.intn(3), map[string]bool{})
				s.print(ind + 1)
			}
			s.line(ind, "default:")
			s.stmts(ind+1, depth-1, 1+s.r.intn(3), map[string]bool{})
			s.print(ind + 1)
			s.line(ind, "}")
		default:
			if s.nfunc > 0 {
				s.kinds["call"]++
				s.assign(ind, nm, fmt.Sprintf("g%d(%s, %s)", s.r.intn(s.nfunc), s.expr(), s.expr()))
			}
		}
	}
}

func genScopeProgram(r *rng, nf, depth int, kinds map[string]int) string {
	var sb strings.Builder
	s := &scopeGen{r: r, sb: &sb, kinds: kinds}
	sb.WriteString("package main\n\nimport \"fmt\"\n\nvar x, y, z int = 100, 200, 300\n\n")
	// helper functions whose parameters shadow the globals
	for i := 0; i < 3; i++ {
		p1, p2 := pick(r, scopeNames), pick(r, scopeNames)
		if p1 == p2 {
			p2 = "w"
		}
		s.line(0, "func g%d(%s, %s int) int {", i, p1, p2)
		s.stmts(1, 1, 2+r.intn(3), map[string]bool{p1: true, p2: true})
		s.print(1)
		s.line(1, "return %s + %s", p1, p2)
		s.line(0, "}\n")
		s.nfunc = i + 1
	}
	for i := 0; i < nf; i++ {
		s.line(0, "func f%d() {", i)
		s.stmts(1, depth, 3+r.intn(6), map[string]bool{})
		s.print(1)
		s.line(0, "}\n")
	}
	s.line(0, "func main() {")
	for i := 0; i < nf; i++ {
		s.line(1, "f%d()", i)
		s.print(1)
	}
	s.line(0, "}")
	return sb.String()
}

type progMismatch struct {
	Kind     string `json:"kind"`
	Src      string `json:"src"`
	Expected string `json:"expected"`
	Got      string `json:"got"`
	Line     int    `json:"first_diff_line"`
	Err      string `json:"err,omitempty"`
}

// diffProgram runs src with the Go toolchain and with goatlang and records a mismatch.
func diffProgram(st *stats, group, src string) {
	exp, panicked, err := goRefRun(asInt32(src))
	if err != nil {
		// generator produced an invalid Go program: not a finding; count it
		st.Histogram["invalid_go_program"]++
		if st.Histogram["invalid_go_program"] <= 3 {
			st.Extra[fmt.Sprintf("invalid_go_%d", st.Histogram["invalid_go_program"])] = err.Error() + "\n" + src
		}
		return
	}
	got, gerr := goatRun(src)
	ok := got == exp && (gerr != nil) == panicked
	if !ok {
		el, gl := strings.Split(exp, "\n"), strings.Split(got, "\n")
		i := 0
		for i < len(el) && i < len(gl) && el[i] == gl[i] {
			i++
		}
		e, gg := "<end>", "<end>"
		if i < len(el) {
			e = el[i]
		}
		if i < len(gl) {
			gg = gl[i]
		}
		es := ""
		if gerr != nil {
			es = gerr.Error()
		}
		st.mismatchG(group, progMismatch{Kind: group, Src: src, Expected: e, Got: gg, Line: i + 1, Err: es})
	}
}

func cmdC08Script(seed uint64, n int, dir string) {
	r := newRng(seed)
	st := newStats()
	kinds := map[string]int{}
	for c := 0; c < n; c++ {
		depth := 2 + c%4
		src := genScopeProgram(r, 8, depth, kinds)
		st.add(fmt.Sprintf("program depth=%d", depth), fmt.Sprintf("program %d: %d lines, depth %d", c, strings.Count(src, "\n"), depth))
		diffProgram(st, "scope-program", src)
	}
	for k, v := range kinds {
		st.Histogram["construct:"+k] = v
	}
	st.write(dir + "/C08_script_stats.json")
}
