package main

import (
	"fmt"
	"strings"
)

// gen.go: generator of well-typed Go programs inside goatlang's supported subset
// ("core" profile: ints, bools, strings, floats, slices, maps with string keys,
// struct references with methods, multiple results, variadics, bounded recursion,
// every statement form) and of programs with one planted run-time fault.

type gvar struct{ name, typ string }

type fsig struct {
	name   string
	params []string // types
	rets   []string
}

type coreGen struct {
	r      *rng
	sb     *strings.Builder
	funcs  []fsig
	tag    int
	uniq   int
	inLoop int
	kinds  map[string]int
}

func (g *coreGen) line(ind int, f string, a ...any) {
	g.sb.WriteString(strings.Repeat("\t", ind))
	fmt.Fprintf(g.sb, f, a...)
	g.sb.WriteString("\n")
}

func (g *coreGen) fresh(p string) string {
	g.uniq++
	return fmt.Sprintf("%s%d", p, g.uniq)
}

func varsOf(vars []gvar, typ string) []string {
	var res []string
	for _, v := range vars {
		if v.typ == typ || (typ == "int" && v.typ == "roint") {
			res = append(res, v.name)
		}
	}
	return res
}

func (g *coreGen) intExpr(vars []gvar, d int) string {
	iv := varsOf(vars, "int")
	if d <= 0 || g.r.chance(25) {
		if len(iv) > 0 && g.r.chance(70) {
			return pick(g.r, iv)
		}
		return fmt.Sprint(g.r.intn(20))
	}
	a, b := g.intExpr(vars, d-1), g.intExpr(vars, d-1)
	switch g.r.intn(16) {
	case 0, 1:
		return fmt.Sprintf("(%s + %s)", a, b)
	case 2:
		return fmt.Sprintf("(%s - %s)", a, b)
	case 3:
		return fmt.Sprintf("(%s * %s)", a, b)
	case 4:
		return fmt.Sprintf("(%s / (%s*%s + 1))", a, b, b)
	case 5:
		return fmt.Sprintf("(%s %% %d)", a, g.r.intn(7)+2)
	case 6:
		return fmt.Sprintf("(%s << %d)", a, g.r.intn(5))
	case 7:
		return fmt.Sprintf("(%s >> %d)", a, g.r.intn(5))
	case 8:
		return fmt.Sprintf("(%s & %s)", a, b)
	case 9:
		return fmt.Sprintf("(%s | %s)", a, b)
	case 10:
		return fmt.Sprintf("(%s ^ %s)", a, b)
	case 11:
		return fmt.Sprintf("(-%s)", a)
	case 12:
		if sv := varsOf(vars, "[]int"); len(sv) > 0 {
			return fmt.Sprintf("int(len(%s))", pick(g.r, sv))
		}
		if sv := varsOf(vars, "string"); len(sv) > 0 {
			return fmt.Sprintf("int(len(%s))", pick(g.r, sv))
		}
		return a
	case 13:
		// call of an earlier int function
		var cands []fsig
		for k, f := range g.funcs {
			if g.inLoop > 0 && k >= 3 {
				continue // generated functions are only called outside loops (bounded running time)
			}
			if len(f.rets) == 1 && f.rets[0] == "int" {
				cands = append(cands, f)
			}
		}
		if len(cands) > 0 {
			f := pick(g.r, cands)
			return g.callExpr(f, vars, d-1)
		}
		return b
	case 14:
		if fv := varsOf(vars, "float64"); len(fv) > 0 {
			return fmt.Sprintf("int(%s)", pick(g.r, fv))
		}
		return a
	default:
		if mv := varsOf(vars, "map[string]int"); len(mv) > 0 {
			return fmt.Sprintf("%s[%q]", pick(g.r, mv), pick(g.r, []string{"a", "b", "c"}))
		}
		return a
	}
}

func (g *coreGen) callExpr(f fsig, vars []gvar, d int) string {
	var args []string
	for _, p := range f.params {
		switch p {
		case "int":
			if f.name == "fact" {
				args = append(args, fmt.Sprintf("(%s %% 7)", g.intExpr(vars, d))) // bounded recursion depth
				continue
			}
			args = append(args, g.intExpr(vars, d))
		case "bool":
			args = append(args, g.boolExpr(vars, d))
		case "string":
			args = append(args, g.strExpr(vars, d))
		case "float64":
			args = append(args, g.floatExpr(vars, d))
		case "...int":
			n := g.r.intn(4)
			for i := 0; i < n; i++ {
				args = append(args, g.intExpr(vars, 0))
			}
		}
	}
	return fmt.Sprintf("%s(%s)", f.name, strings.Join(args, ", "))
}

func (g *coreGen) boolExpr(vars []gvar, d int) string {
	bv := varsOf(vars, "bool")
	if d <= 0 {
		if len(bv) > 0 && g.r.chance(50) {
			return pick(g.r, bv)
		}
		return fmt.Sprintf("(%s < %s)", g.intExpr(vars, 0), g.intExpr(vars, 0))
	}
	switch g.r.intn(8) {
	case 0:
		return fmt.Sprintf("(%s < %s)", g.intExpr(vars, d-1), g.intExpr(vars, d-1))
	case 1:
		return fmt.Sprintf("(%s == %s)", g.intExpr(vars, d-1), g.intExpr(vars, d-1))
	case 2:
		return fmt.Sprintf("(%s >= %s)", g.intExpr(vars, d-1), g.intExpr(vars, d-1))
	case 3:
		return fmt.Sprintf("!%s", g.boolExpr(vars, d-1))
	case 4, 5:
		op := "&&"
		if g.r.chance(50) {
			op = "||"
		}
		right := g.boolExpr(vars, d-1)
		if g.r.chance(60) {
			// the skipped operand holds what the optimizer fuses (x+c, s[c], p.x, local+local, a call): the
			// short-circuit distance must be measured on the code that is finally executed
			right = fmt.Sprintf("(%s %s %s)", g.fusableInt(vars), pick(g.r, []string{"<", ">", "==", "!=", "<=", ">="}), g.fusableInt(vars))
			g.kinds["short-circuit over fusable operand"]++
		}
		return fmt.Sprintf("(%s %s %s)", g.boolExpr(vars, d-1), op, right)
	case 6:
		return fmt.Sprintf("(%s != %s)", g.strExpr(vars, 0), g.strExpr(vars, 0))
	default:
		l, r := g.floatExpr(vars, d-1), g.floatExpr(vars, d-1)
		if g.r.chance(30) {
			// NaN and the infinities (computed at run time from the global FZ = 0.0; never stored, so no
			// implementation-defined float-to-int conversion can see them): every ordered comparison with NaN is false
			sp := pick(g.r, []string{"(FZ / FZ)", "(1.0 / FZ)", "(-1.0 / FZ)"})
			if g.r.chance(50) {
				l = sp
			} else {
				r = sp
			}
			g.kinds["comparison with NaN or an infinity"]++
		}
		return fmt.Sprintf("(%s %s %s)", l, pick(g.r, []string{"<=", "<=", ">=", "<", ">", "==", "!="}), r)
	}
}

// fusableInt is an int expression of one of the shapes the peephole optimizer rewrites.
func (g *coreGen) fusableInt(vars []gvar) string {
	iv := varsOf(vars, "int")
	a := fmt.Sprint(g.r.intn(9))
	b := a
	if len(iv) > 0 {
		a, b = pick(g.r, iv), pick(g.r, iv)
	}
	switch g.r.intn(8) {
	case 0:
		return fmt.Sprintf("%s + %d", a, 1+g.r.intn(5))
	case 1:
		return fmt.Sprintf("%s - %d", a, 1+g.r.intn(5))
	case 2:
		return fmt.Sprintf("%s %s %s", a, pick(g.r, []string{"+", "-", "*"}), b)
	case 3:
		if sv := varsOf(vars, "[]int"); len(sv) > 0 {
			return fmt.Sprintf("%s[%d]", pick(g.r, sv), g.r.intn(3))
		}
	case 4:
		if pv := varsOf(vars, "*P"); len(pv) > 0 {
			if g.r.chance(50) {
				return fmt.Sprintf("%s.x", pick(g.r, pv))
			}
			return fmt.Sprintf("%s.get()", pick(g.r, pv))
		}
	case 5:
		return fmt.Sprintf("vsum(%s, %d)", a, g.r.intn(5))
	case 6:
		if mv := varsOf(vars, "map[string]int"); len(mv) > 0 {
			return fmt.Sprintf("%s[%q]", pick(g.r, mv), pick(g.r, []string{"a", "b"}))
		}
	}
	return fmt.Sprintf("%s + %d + %d", a, g.r.intn(4), 1+g.r.intn(4))
}

func (g *coreGen) strExpr(vars []gvar, d int) string {
	sv := varsOf(vars, "string")
	if d <= 0 || g.r.chance(40) {
		if len(sv) > 0 && g.r.chance(60) {
			return pick(g.r, sv)
		}
		return fmt.Sprintf("%q", pick(g.r, []string{"", "a", "go", "héé", "x y", "Z"}))
	}
	switch g.r.intn(3) {
	case 0:
		return fmt.Sprintf("(%s + %s)", g.strExpr(vars, d-1), g.strExpr(vars, d-1))
	case 1:
		return fmt.Sprintf("fmt.Sprint(%s)", g.intExpr(vars, d-1))
	default:
		return fmt.Sprintf("(%s + \"-\")", g.strExpr(vars, d-1))
	}
}

func (g *coreGen) floatExpr(vars []gvar, d int) string {
	fv := varsOf(vars, "float64")
	if d <= 0 || g.r.chance(35) {
		if len(fv) > 0 && g.r.chance(60) {
			return pick(g.r, fv)
		}
		return pick(g.r, []string{"0.5", "1.25", "2.0", "10.75", "3.0"})
	}
	switch g.r.intn(5) {
	case 0:
		return fmt.Sprintf("(%s + %s)", g.floatExpr(vars, d-1), g.floatExpr(vars, d-1))
	case 1:
		return fmt.Sprintf("(%s * %s)", g.floatExpr(vars, d-1), g.floatExpr(vars, d-1))
	case 2:
		return fmt.Sprintf("(%s - %s)", g.floatExpr(vars, d-1), g.floatExpr(vars, d-1))
	case 3:
		return fmt.Sprintf("float64(%s)", g.intExpr(vars, d-1))
	default:
		// division by a literal that is not a power of two, with a run-time dividend (a float variable: a constant
		// dividend would be folded exactly by Go): x / c and x * (1/c) round differently
		if len(fv) > 0 && g.r.chance(60) {
			g.kinds["float variable divided by a non-power-of-two literal"]++
			return fmt.Sprintf("(%s / %s)", pick(g.r, fv), pick(g.r, []string{"3.0", "10.0", "0.3", "7.0", "1.1", "60.0", "49.0"}))
		}
		return fmt.Sprintf("(%s / 4.0)", g.floatExpr(vars, d-1))
	}
}

func (g *coreGen) exprOf(typ string, vars []gvar, d int) string {
	switch typ {
	case "int":
		return g.intExpr(vars, d)
	case "bool":
		return g.boolExpr(vars, d)
	case "string":
		return g.strExpr(vars, d)
	case "float64":
		return g.floatExpr(vars, d)
	}
	return "0"
}

func (g *coreGen) printVars(ind int, vars []gvar) {
	g.tag++
	var names []string
	for _, v := range vars {
		switch v.typ {
		case "int", "roint", "bool", "string", "float64", "[]int":
			names = append(names, v.name)
		case "map[string]int":
			names = append(names, fmt.Sprintf("len(%s)", v.name), fmt.Sprintf("%s[\"a\"]", v.name))
		case "key":
			names = append(names, v.name)
		case "*P":
			names = append(names, v.name+".x", v.name+".name")
		}
	}
	if len(names) > 6 {
		names = names[len(names)-6:]
	}
	g.line(ind, "fmt.Println(%s)", strings.Join(append([]string{fmt.Sprint(g.tag)}, names...), ", "))
}

// stmts emits n statements; returns the variable set extended by declarations of this block.
func (g *coreGen) stmts(ind, depth, n int, vars []gvar, rets []string) []gvar {
	local := append([]gvar{}, vars...)
	for i := 0; i < n; i++ {
		x := g.r.intn(100)
		switch {
		case x < 14: // declaration
			typ := pick(g.r, []string{"int", "int", "int", "bool", "string", "float64", "[]int", "map[string]int", "*P"})
			name := g.fresh("v")
			switch typ {
			case "[]int":
				g.line(ind, "%s := []int{%s, %s, %s}", name, g.intExpr(local, 1), g.intExpr(local, 0), g.intExpr(local, 0))
			case "map[string]int":
				g.line(ind, "%s := map[string]int{\"a\": %s}", name, g.intExpr(local, 1))
			case "*P":
				g.line(ind, "%s := &P{x: %s, name: %s}", name, g.intExpr(local, 1), g.strExpr(local, 0))
			default:
				if g.r.chance(50) || typ == "bool" {
					g.line(ind, "var %s %s = %s", name, typ, g.exprOf(typ, local, 2))
				} else {
					g.line(ind, "%s := %s(%s)", name, typ, g.exprOf(typ, local, 2))
				}
			}
			g.line(ind, "_ = %s", name)
			g.kinds["decl "+typ]++
			local = append(local, gvar{name, typ})
		case x < 30: // assignment
			if len(local) == 0 {
				continue
			}
			v := pick(g.r, local)
			switch v.typ {
			case "int":
				switch g.r.intn(8) {
				case 0:
					g.line(ind, "%s = %s", v.name, g.intExpr(local, 2))
				case 1:
					g.line(ind, "%s += %s", v.name, g.intExpr(local, 1))
				case 2:
					g.line(ind, "%s -= %d", v.name, g.r.intn(9))
				case 3:
					g.line(ind, "%s++", v.name)
				case 4:
					g.line(ind, "%s *= %d", v.name, g.r.intn(4))
				default:
					// the shapes the peephole optimizer rewrites (and their near misses): the same local on both
					// sides, unparenthesised chains of constants, a second local as operand
					w := v.name
					if iv := varsOf(local, "int"); len(iv) > 0 && g.r.chance(50) {
						w = pick(g.r, iv)
					}
					c1, c2 := g.r.intn(12), g.r.intn(12)
					op := func() string { return pick(g.r, []string{"+", "-"}) }
					switch g.r.intn(8) {
					case 0:
						g.line(ind, "%s = %s %s %d %s %d", v.name, v.name, op(), c1, op(), c2)
					case 1:
						g.line(ind, "%s = %s %s %d", v.name, v.name, op(), c1)
					case 2:
						g.line(ind, "%s = %s %s %s", v.name, v.name, pick(g.r, []string{"+", "-", "*"}), w)
					case 3:
						g.line(ind, "%s = %s / (%s*%s + 1)", v.name, v.name, w, w)
					case 4:
						g.line(ind, "%s = %s %s %d %s %d", v.name, w, op(), c1, op(), c2)
					case 5:
						g.line(ind, "%s = %d %s %s %s %d", v.name, c1, op(), v.name, op(), c2)
					case 6:
						g.line(ind, "%s = %s %s %d %s %s %s %d", v.name, v.name, op(), c1, op(), w, op(), c2)
					default:
						g.line(ind, "%s %s= %s %s %d %s %d", v.name, op(), w, op(), c1, op(), c2)
					}
					g.kinds["peephole-shaped int assignment"]++
				}
			case "bool":
				g.line(ind, "%s = %s", v.name, g.boolExpr(local, 2))
			case "string":
				if g.r.chance(50) {
					g.line(ind, "%s = %s", v.name, g.strExpr(local, 2))
				} else {
					g.line(ind, "%s += %s", v.name, g.strExpr(local, 0))
				}
			case "float64":
				switch g.r.intn(6) {
				case 0:
					// integer constants added to a float at the edge of integer precision: (x+1)+1 is not x+2
					g.line(ind, "%s = %s", v.name, pick(g.r, []string{"9007199254740992.0", "-9007199254740992.0", "9007199254740993.0", "4503599627370496.5"}))
					g.line(ind, "%s = %s %s %d %s %d", v.name, v.name, pick(g.r, []string{"+", "-"}), 1+g.r.intn(3), pick(g.r, []string{"+", "-"}), 1+g.r.intn(3))
					g.kinds["peephole-shaped float assignment"]++
				case 1:
					g.line(ind, "%s = %s %s %d %s %d", v.name, v.name, pick(g.r, []string{"+", "-"}), g.r.intn(4), pick(g.r, []string{"+", "-"}), g.r.intn(4))
					g.kinds["peephole-shaped float assignment"]++
				default:
					g.line(ind, "%s = %s", v.name, g.floatExpr(local, 2))
				}
			case "[]int":
				switch g.r.intn(4) {
				case 0:
					g.line(ind, "%s = append(%s, %s)", v.name, v.name, g.intExpr(local, 1))
				case 1:
					g.line(ind, "%s[%d] = %s", v.name, g.r.intn(3), g.intExpr(local, 1))
				case 2:
					g.line(ind, "%s[%d] += %d", v.name, g.r.intn(3), g.r.intn(5))
				default:
					g.line(ind, "%s = append(%s, %d, %d)", v.name, v.name, g.r.intn(9), g.r.intn(9))
				}
			case "map[string]int":
				switch g.r.intn(3) {
				case 0:
					g.line(ind, "%s[%q] = %s", v.name, pick(g.r, []string{"a", "b", "c"}), g.intExpr(local, 1))
				case 1:
					g.line(ind, "delete(%s, %q)", v.name, pick(g.r, []string{"a", "b", "c"}))
				default:
					g.line(ind, "%s[%q] += %d", v.name, pick(g.r, []string{"a", "b"}), g.r.intn(5))
				}
			case "*P":
				switch g.r.intn(3) {
				case 0:
					g.line(ind, "%s.x = %s", v.name, g.intExpr(local, 1))
				case 1:
					g.line(ind, "%s.bump(%s)", v.name, g.intExpr(local, 0))
				default:
					g.line(ind, "%s.name = %s", v.name, g.strExpr(local, 1))
				}
			}
			g.kinds["assign"]++
		case x < 35: // tiny bodies: exactly one short statement that the optimizer fuses as a whole (a bare call of a
			// zero-argument function, a field read, x++) inside a construct whose jump distance is that body's length
			g.kinds["tiny body"]++
			body := pick(g.r, []string{"tick()", "tick()", "TK++", "TK += 2"})
			if pv := varsOf(local, "*P"); len(pv) > 0 && g.r.chance(30) {
				body = pick(g.r, pv) + ".x++"
			}
			switch g.r.intn(5) {
			case 0:
				g.line(ind, "if %s {", g.boolExpr(local, 1))
				g.line(ind+1, "%s", body)
				g.line(ind, "}")
			case 1:
				g.line(ind, "if %s {", g.boolExpr(local, 1))
				g.line(ind+1, "%s", body)
				g.line(ind, "} else {")
				g.line(ind+1, "tick()")
				g.line(ind, "}")
			case 2:
				iv := g.fresh("i")
				g.line(ind, "for %s := 0; %s < %d; %s++ {", iv, iv, g.r.intn(4), iv)
				g.line(ind+1, "%s", body)
				g.line(ind, "}")
			case 3:
				g.line(ind, "switch {")
				g.line(ind, "case %s:", g.boolExpr(local, 1))
				g.line(ind+1, "%s", body)
				g.line(ind, "case %s:", g.boolExpr(local, 0))
				g.line(ind+1, "tick()")
				g.line(ind, "}")
			default:
				g.line(ind, "for range []int{1, 2} {")
				g.line(ind+1, "%s", body)
				g.line(ind, "}")
			}
			g.line(ind, "fmt.Println(\"tk\", TK)")
		case x < 40:
			g.printVars(ind, local)
		case depth <= 0:
			g.printVars(ind, local)
		case x < 50: // if / else if / else
			g.kinds["if"]++
			g.line(ind, "if %s {", g.boolExpr(local, 2))
			g.stmts(ind+1, depth-1, 1+g.r.intn(3), local, rets)
			if g.r.chance(40) {
				g.line(ind, "} else if %s {", g.boolExpr(local, 1))
				g.stmts(ind+1, depth-1, 1+g.r.intn(2), local, rets)
			}
			if g.r.chance(50) {
				g.line(ind, "} else {")
				g.stmts(ind+1, depth-1, 1+g.r.intn(3), local, rets)
			}
			g.line(ind, "}")
		case x < 60: // counted for with break / continue
			g.kinds["for"]++
			iv := g.fresh("i")
			g.line(ind, "for %s := 0; %s < %d; %s++ {", iv, iv, 1+g.r.intn(4), iv)
			inner := append(append([]gvar{}, local...), gvar{iv, "roint"})
			g.inLoop++
			if g.r.chance(40) {
				g.line(ind+1, "if %s {", g.boolExpr(inner, 1))
				g.line(ind+2, "%s", pick(g.r, []string{"break", "continue"}))
				g.line(ind+1, "}")
				g.kinds["break/continue"]++
			}
			g.stmts(ind+1, depth-1, 1+g.r.intn(3), inner, rets)
			g.inLoop--
			g.line(ind, "}")
		case x < 66: // condition-only loop with explicit counter
			g.kinds["for cond"]++
			cv := g.fresh("c")
			g.line(ind, "%s := 0", cv)
			g.line(ind, "for %s < %d {", cv, 1+g.r.intn(4))
			g.line(ind+1, "%s++", cv)
			inner := append(append([]gvar{}, local...), gvar{cv, "roint"})
			g.inLoop++
			if g.r.chance(40) {
				g.line(ind+1, "if %s {", g.boolExpr(inner, 1))
				g.line(ind+2, "%s", pick(g.r, []string{"break", "continue"}))
				g.line(ind+1, "}")
			}
			g.stmts(ind+1, depth-1, 1+g.r.intn(2), inner, rets)
			g.inLoop--
			g.line(ind, "}")
			local = append(local, gvar{cv, "int"})
		case x < 73: // range
			g.kinds["range"]++
			kv, vv := g.fresh("k"), g.fresh("e")
			ranged := ""
			if sv := varsOf(local, "[]int"); len(sv) > 0 && g.r.chance(70) {
				ranged = pick(g.r, sv)
				g.line(ind, "for %s, %s := range %s {", kv, vv, ranged)
			} else if sv := varsOf(local, "string"); len(sv) > 0 && g.r.chance(50) {
				g.line(ind, "for %s, %s := range %s {", kv, vv, pick(g.r, sv))
			} else {
				g.line(ind, "for %s, %s := range []int{%d, %d, %d} {", kv, vv, g.r.intn(9), g.r.intn(9), g.r.intn(9))
			}
			g.line(ind+1, "fmt.Println(%s, %s)", kv, vv)
			if ranged != "" && g.r.chance(60) {
				// the body writes to an element the loop has not reached yet: only the LENGTH is fixed at loop start,
				// the element is read when its turn comes (in-place prefix sums)
				g.line(ind+1, "if %s+1 < len(%s) {", kv, ranged)
				g.line(ind+2, "%s[%s+1] += %s", ranged, kv, vv)
				g.line(ind+1, "}")
				g.kinds["range body writes a later element"]++
			}
			// the ranged slice itself is not visible to the generated body: the loop reads the array the slice had at
			// loop start, and whether an append in the body moves later writes to a NEW array depends on the capacity
			// growth policy, which Go leaves to the implementation (thorough false alarm: `v = append(v, 8, 0)` followed
			// by `v[k+1] += e` inside `for k, e := range v`)
			inner := []gvar{}
			for _, lv := range local {
				if lv.name != ranged {
					inner = append(inner, lv)
				}
			}
			inner = append(inner, gvar{kv, "key"})
			g.inLoop++
			g.stmts(ind+1, depth-1, g.r.intn(3), inner, rets)
			g.inLoop--
			g.line(ind, "}")
		case x < 81: // switch
			g.kinds["switch"]++
			if g.r.chance(50) {
				g.line(ind, "switch {")
				g.line(ind, "case %s:", g.boolExpr(local, 1))
				g.stmts(ind+1, depth-1, 1+g.r.intn(2), local, rets)
				if g.r.chance(50) {
					g.line(ind, "case %s:", g.boolExpr(local, 1))
					g.stmts(ind+1, depth-1, 1+g.r.intn(2), local, rets)
				}
				if g.r.chance(50) {
					// a LATER case whose expression is something the optimizer fuses (the lengths of later case
					// expressions are part of the exit jumps of earlier cases), also as the second value of a case list
					cmp := func() string {
						return fmt.Sprintf("%s %s %s", g.fusableInt(local), pick(g.r, []string{"<", ">", "==", "!=", "<=", ">="}), g.fusableInt(local))
					}
					if g.r.chance(40) {
						g.line(ind, "case %s, %s:", g.boolExpr(local, 0), cmp())
					} else {
						g.line(ind, "case %s:", cmp())
					}
					g.stmts(ind+1, depth-1, 1+g.r.intn(2), local, rets)
					g.kinds["switch: fusable later case"]++
				}
			} else if g.r.chance(50) {
				g.line(ind, "switch %s %% 4 {", g.intExpr(local, 1))
				g.line(ind, "case 0:")
				g.stmts(ind+1, depth-1, 1+g.r.intn(2), local, rets)
				g.line(ind, "case 1:")
				g.stmts(ind+1, depth-1, 1+g.r.intn(2), local, rets)
			} else {
				// tagged switch with non-constant (fusable) case expressions after a constant first case
				g.line(ind, "switch int(%s %% 4) {", g.intExpr(local, 1))
				g.line(ind, "case 0:")
				g.stmts(ind+1, depth-1, 1+g.r.intn(2), local, rets)
				g.line(ind, "case %s:", g.fusableInt(local))
				g.stmts(ind+1, depth-1, 1+g.r.intn(2), local, rets)
				if g.r.chance(50) {
					g.line(ind, "case 100, %s:", g.fusableInt(local))
					g.stmts(ind+1, depth-1, 1, local, rets)
				}
				g.kinds["switch: fusable later case"]++
			}
			if g.r.chance(70) {
				g.line(ind, "default:")
				g.stmts(ind+1, depth-1, 1+g.r.intn(2), local, rets)
				if g.inLoop > 0 && g.r.chance(20) {
					g.line(ind+1, "if %s {", g.boolExpr(local, 0))
					g.line(ind+2, "break")
					g.line(ind+1, "}")
					g.kinds["break in switch default"]++
				}
			}
			g.line(ind, "}")
		case x < 90: // calls: statement, multi-assign
			if len(g.funcs) == 0 {
				continue
			}
			f := pick(g.r, g.funcs)
			if g.inLoop > 0 {
				f = pick(g.r, g.funcs[:3])
			}
			g.kinds["call"]++
			switch len(f.rets) {
			case 0:
				g.line(ind, "%s", g.callExpr(f, local, 1))
			case 1:
				name := g.fresh("r")
				g.line(ind, "%s := %s", name, g.callExpr(f, local, 1))
				g.line(ind, "_ = %s", name)
				local = append(local, gvar{name, f.rets[0]})
			default:
				a, b := g.fresh("q"), g.fresh("w")
				g.line(ind, "%s, %s := %s", a, b, g.callExpr(f, local, 1))
				g.line(ind, "_, _ = %s, %s", a, b)
				local = append(local, gvar{a, f.rets[0]}, gvar{b, f.rets[1]})
			}
		default: // early return inside a conditional
			if len(rets) > 0 && depth >= 1 {
				g.kinds["early return"]++
				g.line(ind, "if %s {", g.boolExpr(local, 1))
				g.line(ind+1, "return %s", g.retExprs(rets, local))
				g.line(ind, "}")
			}
		}
	}
	return local
}

func (g *coreGen) retExprs(rets []string, vars []gvar) string {
	var p []string
	for _, t := range rets {
		p = append(p, g.exprOf(t, vars, 1))
	}
	return strings.Join(p, ", ")
}

func genCoreProgram(r *rng, nf int) string {
	var sb strings.Builder
	g := &coreGen{r: r, sb: &sb, kinds: map[string]int{}}
	sb.WriteString("package main\n\nimport \"fmt\"\n\ntype P struct {\n\tx    int\n\tname string\n}\n\n")
	sb.WriteString("func (p *P) bump(d int) {\n\tp.x += d\n}\n\nfunc (p *P) get() int {\n\treturn p.x * 2\n}\n\n")
	sb.WriteString("func vsum(base int, xs ...int) int {\n\tfor _, x := range xs {\n\t\tbase += x\n\t}\n\treturn base\n}\n\n")
	sb.WriteString("func fact(n int) int {\n\tif n <= 1 {\n\t\treturn 1\n\t}\n\treturn n * fact(n-1)\n}\n\n")
	sb.WriteString("func divmod(a int, b int) (int, int) {\n\treturn a / (b*b + 1), a %% (b*b + 1)\n}\n\n")
	sb.WriteString("var G int = 7\n\nvar FZ float64 = 0.0\n\nvar TK int\n\nfunc tick() {\n\tTK++\n}\n\n")
	g.funcs = []fsig{{"vsum", []string{"int", "...int"}, []string{"int"}}, {"fact", []string{"int"}, []string{"int"}}, {"divmod", []string{"int", "int"}, []string{"int", "int"}}}
	// fix the literal %% written through WriteString
	s := strings.ReplaceAll(sb.String(), "%%", "%")
	sb.Reset()
	sb.WriteString(s)
	for i := 0; i < nf; i++ {
		np := r.intn(4)
		var params []gvar
		var ptypes []string
		for p := 0; p < np; p++ {
			t := pick(r, []string{"int", "int", "bool", "string", "float64"})
			params = append(params, gvar{fmt.Sprintf("p%d", p), t})
			ptypes = append(ptypes, t)
		}
		var rets []string
		switch r.intn(4) {
		case 0:
		case 1, 2:
			rets = []string{pick(r, []string{"int", "int", "bool", "string"})}
		default:
			rets = []string{"int", pick(r, []string{"int", "bool"})}
		}
		name := fmt.Sprintf("f%d", i)
		var ps []string
		for _, p := range params {
			ps = append(ps, p.name+" "+p.typ)
		}
		rs := ""
		if len(rets) == 1 {
			rs = " " + rets[0]
		} else if len(rets) > 1 {
			rs = " (" + strings.Join(rets, ", ") + ")"
		}
		g.line(0, "func %s(%s)%s {", name, strings.Join(ps, ", "), rs)
		// the global G is read-only inside the generated functions (it is written in main only): Go leaves the order
		// between reading a variable and a call that modifies it unspecified (`G + f(G)`, `G += f(G)`), so a program in
		// which a callee writes what its caller's expression reads has no single expected output
		vars := append([]gvar{{"G", "roint"}}, params...)
		for _, p := range params {
			g.line(1, "_ = %s", p.name)
		}
		vars = g.stmts(1, 2+r.intn(2), 3+r.intn(5), vars, rets)
		g.printVars(1, vars)
		if len(rets) > 0 {
			g.line(1, "return %s", g.retExprs(rets, vars))
		}
		g.line(0, "}\n")
		g.funcs = append(g.funcs, fsig{name, ptypes, rets})
	}
	g.line(0, "func main() {")
	vars := []gvar{{"G", "int"}}
	vars = g.stmts(1, 3, 4+r.intn(6), vars, nil)
	for _, f := range g.funcs[3:] {
		switch len(f.rets) {
		case 0:
			g.line(1, "%s", g.callExpr(f, vars, 1))
		case 1:
			g.line(1, "fmt.Println(%s)", g.callExpr(f, vars, 1))
		default:
			a, b := g.fresh("m"), g.fresh("n")
			g.line(1, "%s, %s := %s", a, b, g.callExpr(f, vars, 1))
			g.line(1, "fmt.Println(%s, %s)", a, b)
		}
	}
	g.line(1, "fmt.Println(vsum(1), vsum(1, 2, 3), fact(5), G)")
	g.line(0, "}")
	return sb.String()
}

// genFaultProgram: a call chain through functions, methods, loops and branches with exactly one
// planted run-time fault; everything before it prints.
func genFaultProgram(r *rng) string {
	var sb strings.Builder
	depth := 1 + r.intn(8)
	fault := pick(r, []string{"div", "index", "nilmap", "panic", "slicebound", "strindex"})
	sb.WriteString("package main\n\nimport \"fmt\"\n\ntype T struct {\n\tv int\n}\n\n")
	for i := depth; i >= 1; i-- {
		if i%3 == 0 {
			fmt.Fprintf(&sb, "func (t *T) m%d(a int) int {\n", i)
		} else {
			fmt.Fprintf(&sb, "func c%d(a int) int {\n", i)
		}
		fmt.Fprintf(&sb, "\tfmt.Println(\"enter\", %d, a)\n", i)
		if i == depth {
			switch fault {
			case "div":
				sb.WriteString("\tz := a - a\n\treturn 10 / z\n")
			case "index":
				sb.WriteString("\ts := []int{1, 2, 3}\n\treturn s[a+3]\n")
			case "nilmap":
				sb.WriteString("\tvar m map[string]int\n\tm[\"k\"] = a\n\treturn a\n")
			case "panic":
				sb.WriteString("\tif a >= 0 {\n\t\tpanic(\"boom\")\n\t}\n\treturn a\n")
			case "slicebound":
				sb.WriteString("\ts := []int{1, 2, 3}\n\tn := a + 5\n\tu := s[1:n]\n\treturn int(len(u))\n")
			case "strindex":
				sb.WriteString("\ts := \"abc\"\n\treturn int(s[a+3])\n")
			}
		} else {
			next := fmt.Sprintf("c%d(a + 1)", i+1)
			if (i+1)%3 == 0 {
				next = fmt.Sprintf("(&T{v: a}).m%d(a + 1)", i+1)
				sb.WriteString("\tt := &T{v: a}\n")
				next = fmt.Sprintf("t.m%d(a + 1)", i+1)
			}
			switch r.intn(4) {
			case 0:
				fmt.Fprintf(&sb, "\tr := 0\n\tfor i := 0; i < 2; i++ {\n\t\tr += %s\n\t}\n\treturn r\n", next)
			case 1:
				fmt.Fprintf(&sb, "\tif a >= 0 {\n\t\treturn %s + 1\n\t}\n\treturn 0\n", next)
			case 2:
				fmt.Fprintf(&sb, "\tx := %s\n\treturn x * 2\n", next)
			default:
				fmt.Fprintf(&sb, "\tswitch {\n\tcase a > 100:\n\t\treturn 1\n\tdefault:\n\t\treturn %s\n\t}\n", next)
			}
		}
		sb.WriteString("}\n\n")
	}
	first := "c1(0)"
	sb.WriteString("func main() {\n\tfmt.Println(\"start\")\n")
	if 1%3 == 0 {
		first = "(&T{}).m1(0)"
	}
	fmt.Fprintf(&sb, "\tfmt.Println(%s)\n\tfmt.Println(\"not reached\")\n}\n", first)
	return sb.String()
}

func init() {
	register("gen-diff", func(a cmdArgs) {
		r := newRng(a.seed)
		st := newStats()
		for c := 0; c < a.n; c++ {
			src := genCoreProgram(r, 5)
			st.add("core", fmt.Sprintf("core %d", c))
			diffProgram(st, "core-program", src)
			src = genFaultProgram(r)
			st.add("fault", fmt.Sprintf("fault %d", c))
			diffProgram(st, "fault-program", src)
		}
		st.write(a.dir + "/gen_stats.json")
	})
}
