package main

import (
	"bytes"
	"fmt"
	"sort"
	"strings"
	"testing/fstest"

	g "github.com/philhassey/goatlang"
)

// C15 / C16: loader order, file selection, declaration order.

type pkgGraph struct {
	paths      []string            // import paths of the script packages, paths[0] = top ("main")
	edges      map[string][]string // imports in source order (script and native)
	dir        map[string]string   // directory in the file system
	files      map[string]int      // number of files the package is split into
	dupImports map[string]bool     // some dependencies are imported from more than one file of the package
}

var nativePkgs = []string{"fmt", "strings", "math"}

func genGraph(r *rng, n int, cyclic bool) *pkgGraph {
	gph := &pkgGraph{edges: map[string][]string{}, dir: map[string]string{}, files: map[string]int{}, dupImports: map[string]bool{}}
	gph.paths = append(gph.paths, "main")
	gph.dir["main"] = "main"
	gph.files["main"] = 1 + r.intn(2)
	gph.dupImports["main"] = r.chance(40)
	for i := 1; i < n; i++ {
		var p string
		switch r.intn(4) {
		case 0:
			p = fmt.Sprintf("p%d", i)
			gph.dir[p] = p
		case 1:
			p = fmt.Sprintf("lib/p%d", i)
			gph.dir[p] = p
		case 2:
			p = fmt.Sprintf("example.com/x/p%d", i)
			gph.dir[p] = pick(r, []string{"vendor/" + p, "x/" + fmt.Sprintf("p%d", i), fmt.Sprintf("p%d", i), p})
		default:
			p = fmt.Sprintf("q/p%d", i)
			gph.dir[p] = "vendor/" + p
		}
		gph.paths = append(gph.paths, p)
		gph.files[p] = 1 + r.intn(3)
		gph.dupImports[p] = r.chance(40)
	}
	// DAG edges: i -> j for j > i, every package reachable from main
	for j := 1; j < n; j++ {
		i := r.intn(j)
		gph.edges[gph.paths[i]] = append(gph.edges[gph.paths[i]], gph.paths[j])
	}
	extra := r.intn(2 * n)
	for k := 0; k < extra; k++ {
		i := r.intn(n)
		j := r.intn(n)
		if i < j {
			gph.edges[gph.paths[i]] = append(gph.edges[gph.paths[i]], gph.paths[j])
		}
	}
	for _, p := range gph.paths {
		if r.chance(30) {
			gph.edges[p] = append(gph.edges[p], pick(r, nativePkgs))
		}
		// dedupe, keep order
		seen := map[string]bool{}
		var e []string
		for _, q := range gph.edges[p] {
			if !seen[q] {
				seen[q] = true
				e = append(e, q)
			}
		}
		// shuffle source order
		for a := len(e) - 1; a > 0; a-- {
			b := r.intn(a + 1)
			e[a], e[b] = e[b], e[a]
		}
		gph.edges[p] = e
	}
	if cyclic && n >= 2 {
		// add a back edge j -> i with i <= j along an existing path
		j := 1 + r.intn(n-1)
		i := r.intn(j + 1)
		if i == 0 {
			i = 1
			if j < 1 {
				j = 1
			}
		}
		if i > j {
			i = j
		}
		// ensure path i ~> j exists by adding chain edges
		if i != j {
			gph.edges[gph.paths[i]] = append(gph.edges[gph.paths[i]], gph.paths[j])
		}
		gph.edges[gph.paths[j]] = append(gph.edges[gph.paths[j]], gph.paths[i])
	}
	return gph
}

func pkgName(path string) string {
	parts := strings.Split(path, "/")
	return parts[len(parts)-1]
}

// buildFS writes one directory per package; every file prints a marker at top level and in init.
func (gph *pkgGraph) buildFS(r *rng, decoys bool) fstest.MapFS {
	fs := fstest.MapFS{}
	for _, p := range gph.paths {
		name := pkgName(p)
		nf := gph.files[p]
		imps := gph.edges[p]
		for f := 0; f < nf; f++ {
			var sb strings.Builder
			fmt.Fprintf(&sb, "package %s\n", name)
			// spread the imports over the files
			for k, q := range imps {
				if k%nf == f {
					fmt.Fprintf(&sb, "import \"%s\"\n", q)
				} else if gph.dupImports[p] && (k+f)%2 == 0 {
					// the same dependency imported again from another file of the package (one edge of the graph,
					// several import specs)
					fmt.Fprintf(&sb, "import \"%s\"\n", q)
				}
			}
			fmt.Fprintf(&sb, "var marker%d = mark%d()\nfunc mark%d() int { println(\"top %s %d\"); return %d }\n", f, f, f, p, f, f)
			if f == 0 {
				fmt.Fprintf(&sb, "func init() { println(\"init %s\") }\n", p)
			}
			if p == "main" && f == 0 {
				sb.WriteString("func main() { println(\"main\") }\n")
			}
			fs[fmt.Sprintf("%s/f%d_%s.go", gph.dir[p], f, pick(r, []string{"a", "b", "zz"}))] = &fstest.MapFile{Data: []byte(sb.String())}
		}
		if decoys {
			// files that must be ignored
			if r.chance(55) {
				// 1..4 test files, at every position of the directory's sorted file list (before, between and
				// after the ordinary files, adjacent to each other), internal and external (package x_test)
				names := []string{"x_test.go", "a_test.go", "aa_test.go", "f0_test.go", "f1_a_test.go", "m_test.go", "zz_test.go", "zzz_test.go"}
				nt := 1 + r.intn(4)
				for k := 0; k < nt; k++ {
					fn := names[r.intn(len(names))]
					pk := name
					if r.chance(30) {
						pk = name + "_test"
					}
					fs[gph.dir[p]+"/"+fn] = &fstest.MapFile{Data: []byte(fmt.Sprintf("package %s\nvar bad%d = badf%d()\nfunc badf%d() int { println(\"BAD test file %s %s\"); return 0 }\nfunc init() { println(\"BAD init of test file %s\") }\n", pk, k, k, k, p, fn, p))}
				}
			}
			if r.chance(40) {
				c := pick(r, []string{"//go:build ignore", "//go:build !goat", "//go:build linux && !goat", "\n\n//go:build never"})
				fs[gph.dir[p]+"/excluded.go"] = &fstest.MapFile{Data: []byte(fmt.Sprintf("%s\n\npackage %s\nvar bad2 = badg()\nfunc badg() int { println(\"BAD excluded file %s\"); return 0 }\n", c, name, p))}
			}
			if r.chance(30) {
				c := pick(r, []string{"//go:build goat", "//go:build goat || ignore", "// a comment, not a constraint"})
				fs[gph.dir[p]+"/included.go"] = &fstest.MapFile{Data: []byte(fmt.Sprintf("%s\n\npackage %s\nvar inc = incf()\nfunc incf() int { println(\"inc %s\"); return 0 }\n", c, name, p))}
			}
		}
	}
	return fs
}

func (gph *pkgGraph) hasCycle() bool {
	state := map[string]int{}
	var visit func(p string) bool
	visit = func(p string) bool {
		switch state[p] {
		case 1:
			return true
		case 2:
			return false
		}
		state[p] = 1
		for _, q := range gph.edges[p] {
			if _, script := gph.dir[q]; script && visit(q) {
				return true
			}
		}
		state[p] = 2
		return false
	}
	return visit("main")
}

func (gph *pkgGraph) coq() string {
	var es []string
	for _, p := range gph.paths {
		var qs []string
		for _, q := range gph.edges[p] {
			qs = append(qs, coqStrLit(q))
		}
		es = append(es, fmt.Sprintf("(%s, [%s])", coqStrLit(p), strings.Join(qs, "; ")))
	}
	return "[" + strings.Join(es, "; ") + "]"
}

type loadMismatch struct {
	Kind     string              `json:"kind"`
	Graph    map[string][]string `json:"graph"`
	Dirs     map[string]string   `json:"dirs"`
	Expected string              `json:"expected"`
	Got      string              `json:"got"`
}

func loadMarkers(fs fstest.MapFS) (lines []string, err error, escaped any) {
	var out bytes.Buffer
	vm := g.New(g.WithStdout(&out))
	func() {
		defer func() {
			if r := recover(); r != nil {
				escaped = r
			}
		}()
		err = vm.Load(fs, "main")
	}()
	s := strings.TrimRight(out.String(), "\n")
	if s != "" {
		lines = strings.Split(s, "\n")
	}
	return
}

func cmdC15(seed uint64, n int, dir string) {
	r := newRng(seed)
	st := newStats()
	var cases []string
	for c := 0; c < n; c++ {
		np := 1 + r.intn(12)
		cyc := c%5 == 4
		gph := genGraph(r, np, cyc)
		decoys := r.chance(50)
		fs := gph.buildFS(r, decoys)
		lines, err, esc := loadMarkers(fs)
		class := fmt.Sprintf("packages=%d cyclic=%v", np, gph.hasCycle())
		st.add(class, fmt.Sprintf("%s edges=%d decoys=%v", class, len(gph.edges), decoys))
		rec := func(exp, got string) {
			st.mismatchG("load|"+exp, loadMismatch{Kind: "load", Graph: gph.edges, Dirs: gph.dir, Expected: exp, Got: got})
		}
		// observed order of first top-level marker per package
		var order []string
		seenTop := map[string]int{}
		initSeen := map[string]int{}
		pos := map[string]int{}
		first, last := map[string]int{}, map[string]int{} // first / last marker line (top-level code or init) of a package
		for i, l := range lines {
			if f := strings.Fields(l); len(f) >= 2 && (f[0] == "top" || f[0] == "init") {
				if _, ok := first[f[1]]; !ok {
					first[f[1]] = i
				}
				last[f[1]] = i
			}
		}
		for i, l := range lines {
			f := strings.Fields(l)
			switch {
			case strings.HasPrefix(l, "BAD"):
				rec("ignored files contribute nothing", l)
			case len(f) >= 2 && f[0] == "top":
				if seenTop[f[1]] == 0 {
					order = append(order, f[1])
					pos[f[1]] = i
				}
				seenTop[f[1]]++
			case len(f) >= 2 && f[0] == "init":
				initSeen[f[1]]++
			}
		}
		if esc != nil {
			rec("no Go panic escapes Load", fmt.Sprint(esc))
			continue
		}
		if gph.hasCycle() {
			if err == nil {
				rec("import cycle is an error", "Load succeeded: "+strings.Join(order, " "))
			}
			cases = append(cases, fmt.Sprintf("CLoad %s \"main\" None", gph.coq()))
			continue
		}
		if err != nil {
			rec("acyclic graph loads", err.Error())
			continue
		}
		for _, p := range gph.paths {
			if seenTop[p] != gph.files[p] {
				rec(fmt.Sprintf("top-level code of %s runs once per file (%d files)", p, gph.files[p]), fmt.Sprint(seenTop[p]))
			}
			if initSeen[p] != 1 {
				rec("init of "+p+" runs exactly once", fmt.Sprint(initSeen[p]))
			}
			for _, q := range gph.edges[p] {
				if _, script := gph.dir[q]; script && pos[q] > pos[p] {
					rec(fmt.Sprintf("%s initialises before its importer %s", q, p), strings.Join(order, " "))
				}
				// ALL of the dependency's top-level code and its init run before ANY code of the importer
				if _, script := gph.dir[q]; script && last[q] > first[p] {
					rec("a dependency's top-level code and init all run before any code of its importer", fmt.Sprintf("%s imports %s; output: %s", p, q, strings.Join(lines, " | ")))
				}
			}
		}
		var os []string
		for _, p := range order {
			os = append(os, coqStrLit(p))
		}
		cases = append(cases, fmt.Sprintf("CLoad %s \"main\" (Some [%s])", gph.coq(), strings.Join(os, "; ")))
		// the package of every marker line (top-level code of each file, init), against run_events of the model
		var evs, nfs []string
		for _, l := range lines {
			if f := strings.Fields(l); len(f) >= 2 && (f[0] == "top" || f[0] == "init") {
				evs = append(evs, coqStrLit(f[1]))
			}
		}
		for _, p := range gph.paths {
			nfs = append(nfs, fmt.Sprintf("(%s, %d%%nat)", coqStrLit(p), gph.files[p]))
		}
		cases = append(cases, fmt.Sprintf("CLoadE %s [%s] \"main\" [%s]", gph.coq(), strings.Join(nfs, "; "), strings.Join(evs, "; ")))
	}
	// conflicting package clauses are an error
	{
		fs := fstest.MapFS{"main/a.go": {Data: []byte("package main\nimport \"p\"\n")}, "p/a.go": {Data: []byte("package p\n")}, "p/b.go": {Data: []byte("package other\n")}}
		_, err, esc := loadMarkers(fs)
		st.add("conflicting package clauses", "p/a.go: package p; p/b.go: package other")
		if esc != nil || err == nil {
			st.mismatchG("load|conflict", loadMismatch{Kind: "load", Expected: "conflicting package clauses yield an error", Got: fmt.Sprint(err, esc)})
		}
	}
	files := writeCases(dir, "cases_C15", "From Coq Require Import ZArith List String.\nFrom GV Require Import Model.CorrC15.\nImport ListNotations.\nOpen Scope string_scope.\nOpen Scope Z_scope.\n", "lmismatches", cases, 100)
	st.Extra["files"] = files
	st.write(dir + "/C15_stats.json")
}

// ---------------------------------------------------------------------------
// C16

var declKinds = []string{"function", "method", "type", "const", "var", "import"}

func cmdC16Corr(seed uint64, n int, dir string) {
	r := newRng(seed)
	st := newStats()
	var cases []string
	for c := 0; c < n; c++ {
		nd := 1 + r.intn(14)
		var sb strings.Builder
		sb.WriteString("package main\n")
		var syms []string
		syms = append(syms, "package")
		for i := 0; i < nd; i++ {
			switch pick(r, []string{"function", "function", "method", "type", "const", "var", "import", "init", "stmt", ":="}) {
			case "function":
				fmt.Fprintf(&sb, "func n%d() int { return %d }\n", i, i)
			case "method":
				fmt.Fprintf(&sb, "func (t *T) n%d() int { return %d }\n", i, i)
			case "type":
				fmt.Fprintf(&sb, "type n%d struct { a int }\n", i)
			case "const":
				fmt.Fprintf(&sb, "const n%d = %d\n", i, i)
			case "var":
				fmt.Fprintf(&sb, "var n%d int\n", i)
			case "import":
				fmt.Fprintf(&sb, "import (\n\tn%d \"fmt\"\n)\n", i)
			case "init":
				fmt.Fprintf(&sb, "func init() { n%d() }\n", i)
			case "stmt":
				fmt.Fprintf(&sb, "n%d(1)\n", i)
			case ":=":
				fmt.Fprintf(&sb, "n%d := 5\n", i)
			}
		}
		got, err := g.VerifTreeSort(sb.String())
		if err != nil {
			st.mismatchG("treesort|error", map[string]string{"src": sb.String(), "err": err.Error()})
			continue
		}
		// input symbols: parse unsorted to get them in source order
		var in, outIds []string
		tree, _ := g.VerifParse(sb.String(), true)
		_ = tree
		// the sorted output gives symbol + rendering; recover ids from the n<i> names
		id := func(s string) string {
			k := strings.Index(s, "n")
			for k >= 0 {
				j := k + 1
				for j < len(s) && s[j] >= '0' && s[j] <= '9' {
					j++
				}
				if j > k+1 {
					return s[k+1 : j]
				}
				nk := strings.Index(s[k+1:], "n")
				if nk < 0 {
					break
				}
				k = k + 1 + nk
			}
			return "-1"
		}
		type node struct{ sym, id string }
		var nodes []node
		for _, e := range got {
			p := strings.SplitN(e, "\x00", 2)
			i := id(p[1])
			if p[0] == "package" {
				i = "-1"
			}
			nodes = append(nodes, node{p[0], i})
			outIds = append(outIds, fmt.Sprintf("%s", i))
		}
		// source order = by id
		sorted := append([]node{}, nodes...)
		sort.SliceStable(sorted, func(a, b int) bool {
			var x, y int
			fmt.Sscan(sorted[a].id, &x)
			fmt.Sscan(sorted[b].id, &y)
			return x < y
		})
		for _, nd := range sorted {
			in = append(in, fmt.Sprintf("(%s, %s)", coqStrLit(nd.sym), coqZ(int64(atoi(nd.id)))))
		}
		var o []string
		for _, i := range outIds {
			o = append(o, coqZ(int64(atoi(i))))
		}
		cases = append(cases, fmt.Sprintf("CSort [%s] [%s]", strings.Join(in, "; "), strings.Join(o, "; ")))
		st.add(fmt.Sprintf("decls=%d", nd), sb.String())
	}
	files := writeCases(dir, "cases_C16", "From Coq Require Import ZArith List String.\nFrom GV Require Import Model.CorrC15.\nImport ListNotations.\nOpen Scope string_scope.\nOpen Scope Z_scope.\n", "tmismatches", cases, 200)
	st.Extra["files"] = files
	st.write(dir + "/C16_corr_stats.json")
}

func atoi(s string) int {
	var x int
	fmt.Sscan(s, &x)
	return x
}

// C16 system level: permutations and file partitions of the hoistable declarations behave identically.
func cmdC16Perm(seed uint64, n int, dir string) {
	r := newRng(seed)
	st := newStats()
	for c := 0; c < n; c++ {
		// hoistable declarations
		nt := 1 + r.intn(3)
		nf := 2 + r.intn(4)
		var hoist []string
		var tfields [][]string
		for i := 0; i < nt; i++ {
			// further fields with names SHARED between the types, in different orders: the rendering of a struct
			// value (field order) must not depend on which type is declared, or compiled, first
			extra := []string{"x", "y", "w"}
			for a := len(extra) - 1; a > 0; a-- {
				b := r.intn(a + 1)
				extra[a], extra[b] = extra[b], extra[a]
			}
			extra = extra[:1+r.intn(3)]
			decl := fmt.Sprintf("type T%d struct {\n", i)
			if r.chance(50) {
				decl += "\tv int\n"
				for _, f := range extra {
					decl += "\t" + f + " int\n"
				}
			} else {
				for _, f := range extra {
					decl += "\t" + f + " int\n"
				}
				decl += "\tv int\n"
			}
			hoist = append(hoist, decl+"}\n")
			tfields = append(tfields, extra)
			for m := 0; m < 1+r.intn(2); m++ {
				hoist = append(hoist, fmt.Sprintf("func (t *T%d) m%d(a int) int {\n\treturn t.v + helper(a) + %d\n}\n", i, m, m))
			}
		}
		for i := 0; i < nf; i++ {
			body := fmt.Sprintf("return a*%d + %d", i+2, i)
			if i > 0 && r.chance(60) {
				body = fmt.Sprintf("if a > 50 {\n\t\treturn a\n\t}\n\treturn f%d(a+%d) + 1", r.intn(i), i+1)
			}
			if r.chance(30) {
				body = fmt.Sprintf("t := &T%d{v: a}\n\treturn t.m0(%d)", r.intn(nt), i)
			} else if r.chance(35) {
				// a second imported package, needed by some declarations only: the files of a layout then import
				// different sets (a grouped import in the files that need it)
				body = fmt.Sprintf("return int(len(strings.Repeat(\"ab\", %d))) + a", i+1)
			}
			hoist = append(hoist, fmt.Sprintf("func f%d(a int) int {\n\t%s\n}\n", i, body))
		}
		hoist = append(hoist, "func helper(a int) int {\n\treturn a*3 - 1\n}\n")
		// names that are BOTH package-level identifiers and parameters / locals of other functions: which
		// declaration is compiled first must not decide what the inner name refers to
		hoist = append(hoist, "func readG() int {\n\treturn g0 + k0 + helper(1)\n}\n")
		hoist = append(hoist, fmt.Sprintf("func shadowP(g0 int, k0 int) int {\n\thelper := g0 * 2\n\treturn helper + k0 + %d\n}\n", r.intn(9)))
		hoist = append(hoist, "func shadowL(a int) int {\n\tg1 := a + 100\n\tf0 := g1 * 2\n\treturn f0 + g1\n}\n")
		hoist = append(hoist, fmt.Sprintf("func (t *T0) shadowM(g0 int) int {\n\treturn t.v + g0 + %d\n}\n", r.intn(9)))
		// a variadic function and callers that pass no surplus argument / some / a spread slice: whether the callee
		// is compiled before or after its callers must not decide what it receives (nil for no surplus argument)
		hoist = append(hoist, "func vlist(tag string, xs ...int) string {\n\tif xs == nil {\n\t\treturn tag + \":none\"\n\t}\n\treturn tag + \":\" + fmt.Sprint(len(xs))\n}\n")
		hoist = append(hoist, fmt.Sprintf("func callV0() string {\n\treturn vlist(\"a\") + vlist(\"b\", 1, %d)\n}\n", r.intn(9)))
		hoist = append(hoist, "func callV1(a int) string {\n\tys := []int{a}\n\treturn vlist(\"c\", ys...) + vlist(\"d\")\n}\n")
		// non-hoistable sequence (kept in order)
		var fixed []string
		fixed = append(fixed, fmt.Sprintf("const k0 = %d\n", r.intn(9)+1), "const k1 = k0 + 2\n")
		for i := 0; i < 2+r.intn(3); i++ {
			fixed = append(fixed, fmt.Sprintf("var g%d int = f%d(k1 + %d)\n", i, r.intn(nf), i))
		}
		fixed = append(fixed, "func init() {\n\tfmt.Println(\"init\", g0, g1)\n}\n")
		mainFn := "func main() {\n"
		for i := 0; i < nf; i++ {
			mainFn += fmt.Sprintf("\tfmt.Println(f%d(%d))\n", i, i+3)
		}
		for i := 0; i < nt; i++ {
			init := fmt.Sprintf("v: %d", i+5)
			for k, f := range tfields[i] {
				init += fmt.Sprintf(", %s: %d", f, 10*(i+1)+k)
			}
			// "S" lines: goatlang renders a struct reference with field names, Go without: compared between layouts only
			mainFn += fmt.Sprintf("\tx%d := &T%d{%s}\n\tfmt.Println(x%d.m0(2))\n\tfmt.Println(\"S\", x%d)\n", i, i, init, i, i)
		}
		mainFn += "\tfmt.Println(readG(), shadowP(3, 4), shadowL(5), x0.shadowM(6))\n"
		mainFn += "\tfmt.Println(callV0(), callV1(4), vlist(\"m\"))\n"
		mainFn += "\tfmt.Println(g0, g1, k1)\n}\n"
		hoist = append(hoist, mainFn)
		variant := func(perm bool, nfiles int) fstest.MapFS {
			h := append([]string{}, hoist...)
			if perm {
				for a := len(h) - 1; a > 0; a-- {
					b := r.intn(a + 1)
					h[a], h[b] = h[b], h[a]
				}
			}
			// interleave: fixed nodes keep their relative order, all in one stream
			var stream []string
			fi := 0
			for _, d := range h {
				for fi < len(fixed) && r.chance(30) {
					stream = append(stream, fixed[fi])
					fi++
				}
				stream = append(stream, d)
			}
			stream = append(stream, fixed[fi:]...)
			fs := fstest.MapFS{}
			// partition into files; the fixed nodes must keep their relative order ACROSS files too:
			// files are joined in name order, so cut the stream into consecutive chunks
			cuts := []int{0}
			for k := 1; k < nfiles; k++ {
				cuts = append(cuts, r.intn(len(stream)+1))
			}
			cuts = append(cuts, len(stream))
			sort.Ints(cuts)
			for k := 0; k+1 < len(cuts); k++ {
				chunk := strings.Join(stream[cuts[k]:cuts[k+1]], "\n")
				imp := "import \"fmt\"\n"
				if strings.Contains(chunk, "strings.") {
					imp = "import (\n\t\"fmt\"\n\t\"strings\"\n)\n"
				}
				src := "package main\n\n" + imp + "\nvar _ = fmt.Sprint\n\n" + chunk
				fs[fmt.Sprintf("main/f%02d.go", k)] = &fstest.MapFile{Data: []byte(src)}
			}
			return fs
		}
		run := func(fs fstest.MapFS) string {
			var out bytes.Buffer
			vm := g.New(g.WithStdout(&out))
			res := ""
			func() {
				defer func() {
					if rr := recover(); rr != nil {
						res = fmt.Sprintf("GO PANIC %v", rr)
					}
				}()
				if err := vm.Load(fs, "main"); err != nil {
					res = "load error: " + err.Error()
					return
				}
				if _, err := vm.Call("main.main", 0); err != nil {
					res = "run error: " + err.Error()
				}
			}()
			return out.String() + res
		}
		base := variant(false, 1)
		ref := run(base)
		// the Go toolchain on the canonical layout
		canonical := string(base["main/f00.go"].Data)
		if exp, panicked, err := goRefRun(asInt32(strings.Replace(canonical, "var _ = fmt.Sprint\n", "", 1))); err == nil && !panicked {
			noS := func(t string) string {
				var keep []string
				for _, l := range strings.Split(t, "\n") {
					if !strings.HasPrefix(l, "S ") {
						keep = append(keep, l)
					}
				}
				return strings.Join(keep, "\n")
			}
			if noS(exp) != noS(ref) {
				st.mismatchG("c16|go-vs-goat", progMismatch{Kind: "c16 canonical layout vs Go toolchain", Src: canonical, Expected: exp, Got: ref})
			}
		} else if err != nil {
			st.Histogram["invalid_go_program"]++
			st.Extra["invalid_go"] = err.Error()
		}
		nv := 6
		for v := 0; v < nv; v++ {
			fs := variant(true, 1+r.intn(4))
			got := run(fs)
			st.add(fmt.Sprintf("variant files=%d", len(fs)), fmt.Sprintf("package %d variant %d: %d decls in %d files", c, v, len(hoist)+len(fixed), len(fs)))
			if got != ref {
				var srcs []string
				var names []string
				for k := range fs {
					names = append(names, k)
				}
				sort.Strings(names)
				for _, k := range names {
					srcs = append(srcs, "// "+k+"\n"+string(fs[k].Data))
				}
				st.mismatchG("c16|permutation", progMismatch{Kind: "permutation/partition changes behaviour", Src: strings.Join(srcs, "\n"), Expected: ref, Got: got})
			}
		}
	}
	st.write(dir + "/C16_perm_stats.json")
}
