package main

import (
	"bytes"
	"fmt"
	"strings"
	"testing/fstest"

	g "github.com/philhassey/goatlang"
)

// c12SharedMethodNames: methods are found on every instance of THE type: several struct types share method names
// (with different bodies), a type may hold a func-typed FIELD whose name is another type's method name, and the
// calls are made on plain locals, on a global, and on the receiver from inside another method (t.m(a): the receiver
// bound by a method call is the place where a lookup keyed by anything coarser than the instance's own type goes
// wrong).  The calls of all types are interleaved in one run.  Expected output is computed here.
func c12SharedMethodNames(st *stats, r *rng, n int) {
	for c := 0; c < n; c++ {
		nt := 2 + r.intn(3)
		names := []string{"get", "step", "count", "name2"}
		type tdesc struct {
			meth  map[string]int // method name -> constant
			field string         // func-typed field named like another type's method ("" = none)
			k     int
		}
		ts := make([]tdesc, nt)
		for i := range ts {
			ts[i].meth = map[string]int{}
			ts[i].k = 2 + r.intn(7)
			for _, nm := range names {
				if r.chance(65) {
					ts[i].meth[nm] = 10*(i+1) + r.intn(9)
				}
			}
			if len(ts[i].meth) == 0 {
				ts[i].meth[names[0]] = 10*(i+1) + 1
			}
			for _, nm := range names {
				if _, has := ts[i].meth[nm]; !has && r.chance(50) {
					ts[i].field = nm
					break
				}
			}
		}
		var sb strings.Builder
		sb.WriteString("package main\n\nimport \"fmt\"\n\nfunc ff(a int) int {\n\treturn a + 777\n}\n\n")
		for i, t := range ts {
			fmt.Fprintf(&sb, "type T%d struct {\n\tk int\n", i)
			if t.field != "" {
				fmt.Fprintf(&sb, "\t%s func(int) int\n", t.field)
			}
			sb.WriteString("}\n\n")
			for _, nm := range names {
				cst, has := t.meth[nm]
				if !has {
					continue
				}
				fmt.Fprintf(&sb, "func (t *T%d) %s(a int) int {\n\treturn t.k*1000 + a + %d\n}\n\n", i, nm, cst)
				fmt.Fprintf(&sb, "func (t *T%d) via_%s(a int) int {\n\treturn t.%s(a) + 1\n}\n\n", i, nm, nm)
			}
			if t.field != "" {
				fmt.Fprintf(&sb, "func (t *T%d) via_%s(a int) int {\n\treturn t.%s(a) + 2\n}\n\n", i, t.field, t.field)
			}
		}
		for i := range ts {
			fmt.Fprintf(&sb, "var G%d *T%d\n\n", i, i)
		}
		sb.WriteString("func main() {\n")
		for i, t := range ts {
			if t.field != "" {
				fmt.Fprintf(&sb, "\tx%d := &T%d{k: %d, %s: ff}\n", i, i, t.k, t.field)
			} else {
				fmt.Fprintf(&sb, "\tx%d := &T%d{k: %d}\n", i, i, t.k)
			}
			fmt.Fprintf(&sb, "\tG%d = x%d\n", i, i)
		}
		var exp strings.Builder
		ncalls := 6 + r.intn(10)
		for q := 0; q < ncalls; q++ {
			i := r.intn(nt)
			t := ts[i]
			var cands []string
			for _, nm := range names {
				if _, has := t.meth[nm]; has {
					cands = append(cands, nm)
				}
			}
			if t.field != "" {
				cands = append(cands, t.field)
			}
			nm := pick(r, cands)
			a := r.intn(50)
			recv := pick(r, []string{fmt.Sprintf("x%d", i), fmt.Sprintf("G%d", i)})
			via := r.chance(60)
			val := 0
			if cst, has := t.meth[nm]; has {
				val = t.k*1000 + a + cst
				if via {
					val++
				}
			} else {
				val = a + 777
				if via {
					val += 2
				}
			}
			call := fmt.Sprintf("%s.%s(%d)", recv, nm, a)
			if via {
				call = fmt.Sprintf("%s.via_%s(%d)", recv, nm, a)
			}
			fmt.Fprintf(&sb, "\tfmt.Println(%d, %s)\n", q, call)
			fmt.Fprintf(&exp, "%d %d\n", q, val)
		}
		sb.WriteString("}\n")
		src := sb.String()
		var out bytes.Buffer
		vm := g.New(g.WithStdout(&out))
		err := vm.Load(fstest.MapFS{"main/main.go": &fstest.MapFile{Data: []byte(src)}}, "main")
		if err == nil {
			_, err = vm.Call("main.main", 0)
		}
		st.add("shared method names", fmt.Sprintf("types=%d calls=%d", nt, ncalls))
		got := out.String()
		if err != nil {
			got += "ERROR " + err.Error()
		}
		if got != exp.String() {
			st.mismatchG("c12|shared-method-names", map[string]any{"kind": "c12|shared-method-names", "src": src, "expected": exp.String(), "got": got})
		}
	}
}
