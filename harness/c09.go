package main

import (
	"bytes"
	"fmt"
	"strings"
	"testing/fstest"

	g "github.com/philhassey/goatlang"
)

// C09 "calls deliver arguments and results in order and with their declared types".
//
//   c09-corr   (this file)  hook-level checks of the clauses a Go compiler rejects statically
//              (wrong argument count, more results requested than yielded) through VM.Call /
//              VM.Func / the real exec loop (VerifExec) with a random operand prefix [lo] below
//              the call, against an oracle computed from the property statement; plus Coq cases
//              (CRun of Model/CorrVM.v): call-dominated programs run by the real VM and by the
//              model VM (exec / call_fn of Model/VM.v), which must print the same.
//   c09-script (c09_script.go)  generated Go programs vs the Go toolchain.

func init() {
	register("c09-corr", func(a cmdArgs) { cmdC09Corr(a.seed, a.n, a.dir) })
}

// ---- echo functions: results are selected parameters ----------------------------------------

type c09cTy struct {
	name string
	tag  int // declared tag for scalars; 0 = read from the compiled code
}

var c09cTys = []c09cTy{{"int", 23}, {"float64", 31}, {"string", 64}, {"bool", 32}, {"uint8", 3},
	{"[]int", 23<<8 | 128}, {"map[string]int", 0}, {"*T", 0}, {"func(int) int", 192}}

const (
	c09kInt = iota
	c09kFloat
	c09kStr
	c09kBool
	c09kU8
	c09kSlice
	c09kMap
	c09kPtr
	c09kFn
)

type c09cFn struct {
	name     string
	ptys     []int
	variadic bool // the last parameter is ...T (T scalar)
	sel      []int
	ptags    []int // declared parameter / result tags read from the FUNC instruction
	rtags    []int
	val      g.Value
}

func (f *c09cFn) source() string {
	var ps, rs, vals []string
	for i, t := range f.ptys {
		if f.variadic && i == len(f.ptys)-1 {
			ps = append(ps, fmt.Sprintf("p%d ...%s", i, c09cTys[t].name))
		} else {
			ps = append(ps, fmt.Sprintf("p%d %s", i, c09cTys[t].name))
		}
	}
	for _, i := range f.sel {
		vals = append(vals, fmt.Sprintf("p%d", i))
		if f.variadic && i == len(f.ptys)-1 {
			rs = append(rs, "[]"+c09cTys[f.ptys[i]].name)
		} else {
			rs = append(rs, c09cTys[f.ptys[i]].name)
		}
	}
	res, body := "", ""
	if len(rs) > 0 {
		res = "(" + strings.Join(rs, ", ") + ") "
		body = "return " + strings.Join(vals, ", ")
	}
	return fmt.Sprintf("func %s(%s) %s{ %s }\n", f.name, strings.Join(ps, ", "), res, body)
}

const c09cPrelude = `package main
type T struct { x int; name string }
func probe(a int, b int) int { return a*10 + b }
func nest(n int, x int) int { if n <= 0 { return x }; return nest(n-1, x) + 1 }
func add3(a int, b int, c int) int { return a + b + c }
func vsum(base int, xs ...int) int { for _, x := range xs { base += x }; return base }
func pair(a int, s string) (string, int) { return s + "!", a + 1 }
func chain(a int, b float64, s string) (string, float64, int) { x, y := pair(a, s); return x, b / 2, y + nest(5, 0) }
func fwd(a int, s string) (string, int) { return pair(a, s) }
func noret(a int) { a = a + 1 }
func multi3() (int, string, bool) { return 7, "z", true }
func dbl(x int) int { return x * 2 }
func mkS() []int { return []int{4, 5, 6} }
func mkM() map[string]int { return map[string]int{"a": 1} }
func mkT() *T { return &T{x: 3, name: "t"} }
var c09x int = 0
func revF(p float64) (float64, bool) { return p / 2, p/2 > 1 }
func revU(p uint8) uint8 { return p + 250 }
func revI(p int) int { return p * 1000000 }
func retK() (float64, uint8, int) { return 7, 200, 5 }
func retNil() ([]int, map[string]int, *T, func(int) int) { return nil, nil, nil, nil }
func vrev(k int, xs ...float64) float64 { return xs[k] / 2 }
func takeNil(a []int, m map[string]int, t *T, f func(int) int) (bool, bool, bool, bool) { return a == nil, m == nil, t == nil, f == nil }
`

type c09cH struct {
	r    *rng
	st   *stats
	vm   *g.VM
	fns  []*c09cFn
	ops  map[string]int
	objs map[int]g.Value // one object value per object kind
}

func (h *c09cH) fail(group string, rec map[string]any) {
	rec["kind"] = "c09|" + group
	h.st.mismatchG("c09|"+group, rec)
}

func c09cGuard(f func()) (escaped string) {
	defer func() {
		if r := recover(); r != nil {
			escaped = fmt.Sprint(r)
		}
	}()
	f()
	return ""
}

func (h *c09cH) load() {
	r := h.r
	var sb strings.Builder
	sb.WriteString(c09cPrelude)
	for i := 0; i < 48; i++ {
		f := &c09cFn{name: fmt.Sprintf("E%d", i)}
		np := i % 6
		for j := 0; j < np; j++ {
			f.ptys = append(f.ptys, r.intn(len(c09cTys)))
		}
		if np > 0 && i%4 == 3 {
			f.variadic = true
			f.ptys[np-1] = pick(r, []int{c09kInt, c09kStr, c09kFloat, c09kU8})
		}
		if np > 0 {
			for j := r.intn(4); j > 0; j-- {
				f.sel = append(f.sel, r.intn(np))
			}
		}
		h.fns = append(h.fns, f)
		sb.WriteString(f.source())
	}
	fs := fstest.MapFS{"main/main.go": &fstest.MapFile{Data: []byte(sb.String())}}
	ins, _, _, err := g.VerifLoadTrace(h.vm, fs, "main", true)
	if err != nil {
		fmt.Println("c09: script load failed:", err)
		must(err)
	}
	// declared types: FUNC {A: joinParams(args, rets), C: body length} is followed by one type token per
	// parameter and result, then the body, then GLOBALFUNC {A: global index}
	byName := map[string]*c09cFn{}
	for _, f := range h.fns {
		byName["main."+f.name] = f
		f.val = h.vm.Get("main." + f.name)
	}
	for k, i := range ins {
		if i.Code != "FUNC" {
			continue
		}
		args, rets := c09cSplit(i.A)
		if args < 0 {
			args = -args
		}
		end := k + 1 + args + rets + i.C
		if end >= len(ins) || ins[end].Code != "GLOBALFUNC" {
			continue
		}
		f := byName[g.VerifGlobalKey(h.vm, ins[end].A)]
		if f == nil || args != len(f.ptys) || rets != len(f.sel) {
			continue
		}
		for j := 0; j < args; j++ {
			f.ptags = append(f.ptags, ins[k+1+j].A)
		}
		for j := 0; j < rets; j++ {
			f.rtags = append(f.rtags, ins[k+1+args+j].A)
		}
	}
	for _, f := range h.fns {
		if f.ptags == nil && len(f.ptys) > 0 {
			h.st.Histogram["declared-types-not-found"]++
		}
	}
	h.objs = map[int]g.Value{}
	for k, n := range map[int]string{c09kSlice: "main.mkS", c09kMap: "main.mkM", c09kPtr: "main.mkT"} {
		out, err := h.vm.Call(n, 1)
		must(err)
		h.objs[k] = out[0]
	}
	h.objs[c09kFn] = h.vm.Get("main.dbl")
}

func c09cSplit(v int) (int, int) { return (v>>16)&65535 - 32768, v&65535 - 32768 }

// a host value for a parameter of type t: typed, an untyped constant, or nil where Go allows nil
func (h *c09cH) param(t int) g.Value {
	r := h.r
	switch t {
	case c09kInt:
		if r.chance(40) {
			return g.VerifNewUntyped(r.intn(2000) - 1000)
		}
		return g.Int32(int32(r.intn(200000) - 100000))
	case c09kFloat:
		if r.chance(40) {
			return g.VerifNewUntyped(r.intn(2000) - 1000)
		}
		return g.Float64(float64(r.intn(4000)-2000) / 4)
	case c09kStr:
		return g.String(pick(r, []string{"", "a", "héllo", "x y", "0123456789"}))
	case c09kBool:
		return g.Bool(r.chance(50))
	case c09kU8:
		if r.chance(40) {
			return g.VerifNewUntyped(r.intn(256))
		}
		return g.Uint8(uint8(r.intn(256)))
	}
	if r.chance(30) {
		return g.Nil()
	}
	return h.objs[t]
}

func (h *c09cH) args(f *c09cFn) (args []g.Value, nfixed int) {
	n := len(f.ptys)
	if f.variadic {
		n--
	}
	for j := 0; j < n; j++ {
		args = append(args, h.param(f.ptys[j]))
	}
	if f.variadic {
		for k := pick(h.r, []int{0, 0, 1, 2, 3, 7}); k > 0; k-- {
			args = append(args, h.param(f.ptys[n]))
		}
	}
	return args, n
}

func c09cSame(a, b g.Value) bool {
	if g.VerifTag(a) != g.VerifTag(b) || g.VerifHasObj(a) != g.VerifHasObj(b) {
		return false
	}
	na, nb := g.VerifNum(a), g.VerifNum(b)
	if na != nb && !(na != na && nb != nb) {
		return false
	}
	if g.VerifTag(a) == tagString {
		return a.String() == b.String()
	}
	return !g.VerifHasObj(a) || g.VerifSameObject(a, b)
}

func c09cShow(vs []g.Value) string {
	var p []string
	for _, v := range vs {
		p = append(p, coqValue(v))
	}
	return "[" + strings.Join(p, " ") + "]"
}

// expected: what the property says the call answers for xRets requested results (ok = comparable)
func (h *c09cH) expected(f *c09cFn, args []g.Value, nfixed, xRets int) (exp []func(g.Value) bool, desc []string) {
	typedParam := func(j int) (g.Value, bool) {
		if f.ptags == nil {
			return g.Nil(), false
		}
		return g.VerifAssign(args[j], f.ptags[j]), true
	}
	for k := 0; k < xRets; k++ {
		j := f.sel[k]
		if f.variadic && j == len(f.ptys)-1 {
			extras := args[nfixed:]
			et := c09cTys[f.ptys[j]].tag
			// no surplus argument: the NIL slice of the variadic type (no object part); otherwise a new slice
			if len(extras) == 0 {
				desc = append(desc, fmt.Sprintf("nil slice of tag %d", et))
			} else {
				desc = append(desc, fmt.Sprintf("slice of %d x tag %d", len(extras), et))
			}
			exp = append(exp, func(v g.Value) bool {
				if g.VerifTag(v) != et<<8|128 || v.Len() != len(extras) || g.VerifHasObj(v) != (len(extras) > 0) {
					return false
				}
				for i, e := range extras {
					it, _ := v.Get(g.Int(i))
					if !c09cSame(it, g.VerifAssign(e, et)) {
						return false
					}
				}
				return true
			})
			continue
		}
		p, ok := typedParam(j)
		if !ok {
			desc = append(desc, "?")
			exp = append(exp, func(g.Value) bool { return true })
			continue
		}
		want := g.VerifAssign(p, f.rtags[k])
		desc = append(desc, coqValue(want))
		exp = append(exp, func(v g.Value) bool { return c09cSame(v, want) })
	}
	return
}

func (h *c09cH) usable(after string) {
	var out []g.Value
	var err error
	esc := c09cGuard(func() { out, err = h.vm.Call("main.probe", 1, g.Int32(4), g.Int32(2)) })
	if esc != "" || err != nil || len(out) != 1 || out[0].Int() != 42 || g.VerifTag(out[0]) != 23 {
		h.fail("vm-unusable-after-error", map[string]any{"after": after, "panic": esc, "err": fmt.Sprint(err), "out": c09cShow(out)})
	}
	h.st.Histogram["usable-after-error-checked"]++
}

// scenario: 0 ok, 1 too few arguments, 2 too many arguments, 3 more results requested than yielded
func (h *c09cH) scenario(f *c09cFn) (sc int, args []g.Value, nfixed, xRets int) {
	r := h.r
	args, nfixed = h.args(f)
	xRets = r.intn(len(f.sel) + 1)
	sc = pick(r, []int{0, 0, 0, 1, 2, 3})
	switch sc {
	case 1:
		if nfixed == 0 {
			return 0, args, nfixed, xRets
		}
		if f.variadic {
			args = args[:r.intn(nfixed)] // fewer than the fixed parameters
		} else {
			args = args[:r.intn(len(args))]
		}
	case 2:
		if f.variadic {
			return 0, args, nfixed, xRets
		}
		for k := 1 + r.intn(3); k > 0; k-- {
			args = append(args, h.param(r.intn(5)))
		}
	case 3:
		xRets = len(f.sel) + 1 + r.intn(3)
	}
	return
}

var c09cScName = []string{"ok", "too-few-args", "too-many-args", "too-many-results"}

func (h *c09cH) judge(via, class string, f *c09cFn, sc int, args []g.Value, nfixed, xRets int, lo, out []g.Value, err error, esc string) {
	rec := func() map[string]any {
		return map[string]any{"via": via, "function": strings.TrimSpace(f.source()), "scenario": c09cScName[sc], "args": c09cShow(args),
			"xRets": xRets, "lo": c09cShow(lo), "out": c09cShow(out), "err": fmt.Sprint(err)}
	}
	h.st.add(class, fmt.Sprintf("%s %s %s args=%s xRets=%d lo=%d", via, c09cScName[sc], strings.TrimSpace(f.source()), c09cShow(args), xRets, len(lo)))
	if esc != "" {
		m := rec()
		m["panic"] = esc
		h.fail("escaped-panic:"+c09cScName[sc], m)
		return
	}
	if sc != 0 {
		if err == nil {
			h.fail("silent-success:"+c09cScName[sc], rec())
		} else {
			want := "incorrect args"
			if sc == 3 {
				want = "incorrect returns"
			}
			if f.variadic && sc == 1 {
				want = "" // Go run-time panic text (makeslice: len out of range)
			}
			if !strings.Contains(err.Error(), want) {
				h.fail("wrong-error:"+c09cScName[sc], rec())
			}
		}
		h.usable(via + " " + c09cScName[sc])
		return
	}
	if err != nil {
		h.fail("error-on-valid-call", rec())
		return
	}
	if len(out) != len(lo)+xRets {
		h.fail("misaligned-stack", rec())
		return
	}
	for i := range lo {
		if !c09cSame(out[i], lo[i]) {
			h.fail("prefix-changed", rec())
			return
		}
	}
	exp, desc := h.expected(f, args, nfixed, xRets)
	for k := 0; k < xRets; k++ {
		if !exp[k](out[len(lo)+k]) {
			m := rec()
			m["expected"] = desc
			h.fail("wrong-result", m)
			return
		}
	}
}

func (h *c09cH) prefix() []g.Value {
	var lo []g.Value
	for k := h.r.intn(7); k > 0; k-- {
		t := h.r.intn(len(c09cTys))
		lo = append(lo, h.param(t))
	}
	return lo
}

// (a') functions whose results reveal the dynamic type the parameters arrived with / the results left with
func (h *c09cH) reveal(n int) {
	type rv struct {
		tag int
		num float64
	}
	cases := []struct {
		fn   string
		args func() []g.Value
		want func(args []g.Value) []rv
	}{
		{"revF", func() []g.Value { return []g.Value{g.VerifNewUntyped(h.r.intn(40) - 20)} }, func(a []g.Value) []rv {
			x := g.VerifNum(a[0]) / 2
			b := 0.0
			if x > 1 {
				b = 1
			}
			return []rv{{31, x}, {32, b}}
		}},
		{"revU", func() []g.Value { return []g.Value{g.VerifNewUntyped(h.r.intn(256))} }, func(a []g.Value) []rv {
			return []rv{{3, float64(uint8(g.VerifNum(a[0])) + 250)}}
		}},
		{"revI", func() []g.Value { return []g.Value{g.VerifNewUntyped(h.r.intn(9000) - 4500)} }, func(a []g.Value) []rv {
			return []rv{{23, float64(int32(g.VerifNum(a[0])) * 1000000)}}
		}},
		{"retK", func() []g.Value { return nil }, func([]g.Value) []rv { return []rv{{31, 7}, {3, 200}, {23, 5}} }},
		{"retNil", func() []g.Value { return nil }, func([]g.Value) []rv { return []rv{{128, 0}, {160, 0}, {224, 0}, {192, 0}} }},
		{"takeNil", func() []g.Value { return []g.Value{g.Nil(), g.Nil(), g.Nil(), g.Nil()} }, func([]g.Value) []rv { return []rv{{32, 1}, {32, 1}, {32, 1}, {32, 1}} }},
		{"vrev", func() []g.Value {
			k := h.r.intn(3)
			return []g.Value{g.Int32(int32(k)), g.VerifNewUntyped(3), g.VerifNewUntyped(5 + h.r.intn(9)), g.VerifNewUntyped(-7)}
		}, func(a []g.Value) []rv { return []rv{{31, g.VerifNum(a[1+int(g.VerifNum(a[0]))]) / 2}} }},
	}
	for c := 0; c < n; c++ {
		cs := cases[c%len(cases)]
		args := cs.args()
		want := cs.want(args)
		lo := h.prefix()
		var out []g.Value
		var err error
		via := "VM.Call"
		esc := ""
		if c%2 == 0 {
			lo = nil
			esc = c09cGuard(func() { out, err = h.vm.Call("main."+cs.fn, len(want), append([]g.Value{}, args...)...) })
		} else {
			via = "FASTCALL"
			code := [][4]int{{h.ops["FASTCALL"], g.VerifGlobalIndex(h.vm, "main."+cs.fn), len(args), len(want)}}
			esc = c09cGuard(func() { out, _, err = g.VerifExec(h.vm, code, append(append([]g.Value{}, lo...), args...)) })
		}
		h.st.add("type-revealing function "+cs.fn+" via "+via, fmt.Sprintf("%s %s%s", via, cs.fn, c09cShow(args)))
		rec := map[string]any{"via": via, "function": cs.fn, "args": c09cShow(args), "lo": c09cShow(lo), "out": c09cShow(out), "err": fmt.Sprint(err), "panic": esc, "expected": fmt.Sprint(want)}
		if esc != "" || err != nil || len(out) != len(lo)+len(want) {
			h.fail("reveal-call-failed", rec)
			continue
		}
		for i := range lo {
			if !c09cSame(out[i], lo[i]) {
				h.fail("prefix-changed", rec)
				break
			}
		}
		for k, w := range want {
			v := out[len(lo)+k]
			tag := g.VerifTag(v)
			if w.tag >= 128 {
				tag &= 255
				if tag&0xe0 != w.tag || g.VerifHasObj(v) {
					h.fail("wrong-dynamic-type:"+cs.fn, rec)
					break
				}
				continue
			}
			if tag != w.tag || g.VerifNum(v) != w.num {
				h.fail("wrong-dynamic-type:"+cs.fn, rec)
				break
			}
		}
	}
}

// (a) VM.Call / VM.Func
func (h *c09cH) api(n int) {
	for c := 0; c < n; c++ {
		f := pick(h.r, h.fns)
		sc, args, nfixed, xRets := h.scenario(f)
		var out []g.Value
		var err error
		via := "VM.Call"
		cp := append([]g.Value{}, args...)
		esc := ""
		if c%2 == 0 {
			esc = c09cGuard(func() { out, err = h.vm.Call("main."+f.name, xRets, cp...) })
		} else {
			via = "VM.Func"
			esc = c09cGuard(func() { out, err = h.vm.Func(f.val, xRets, cp...) })
		}
		if err != nil {
			out = nil
		}
		h.judge(via, via+" "+c09cScName[sc], f, sc, args, nfixed, xRets, nil, out, err, esc)
	}
}

// (b) one CALL / FASTCALL of the real exec loop with a random prefix below the arguments
func (h *c09cH) execCalls(n int) {
	for c := 0; c < n; c++ {
		f := pick(h.r, h.fns)
		sc, args, nfixed, xRets := h.scenario(f)
		lo := h.prefix()
		stack := append(append([]g.Value{}, lo...), args...)
		var code [][4]int
		via := "CALL"
		if c%3 == 0 {
			via = "FASTCALL"
			code = [][4]int{{h.ops["FASTCALL"], g.VerifGlobalIndex(h.vm, "main."+f.name), len(args), xRets}}
		} else {
			stack = append(stack, f.val)
			code = [][4]int{{h.ops["CALL"], len(args), xRets, 0}}
		}
		var out []g.Value
		var err error
		esc := c09cGuard(func() { out, _, err = g.VerifExec(h.vm, code, stack) })
		h.judge(via, via+" with prefix "+c09cScName[sc], f, sc, args, nfixed, xRets, lo, out, err, esc)
	}
}

// (b') compiled nested call expressions over functions with a Go-side oracle, run with a prefix
type c09cExpr struct {
	src string
	val int32
}

func (h *c09cH) expr(d int) c09cExpr {
	r := h.r
	if d <= 0 || r.chance(25) {
		v := int32(r.intn(9))
		return c09cExpr{fmt.Sprint(v), v}
	}
	switch r.intn(6) {
	case 0:
		a, b := h.expr(d-1), h.expr(d-1)
		return c09cExpr{"probe(" + a.src + ", " + b.src + ")", a.val*10 + b.val}
	case 1:
		n := r.intn(40)
		x := h.expr(d - 1)
		return c09cExpr{fmt.Sprintf("nest(%d, %s)", n, x.src), x.val + int32(n)}
	case 2:
		a, b, c := h.expr(d-1), h.expr(d-1), h.expr(d-1)
		return c09cExpr{"add3(" + a.src + ", " + b.src + ", " + c.src + ")", a.val + b.val + c.val}
	case 3:
		base := h.expr(d - 1)
		e := c09cExpr{"vsum(" + base.src, base.val}
		for k := r.intn(4); k > 0; k-- {
			x := h.expr(d - 1)
			e.src += ", " + x.src
			e.val += x.val
		}
		e.src += ")"
		return e
	case 4:
		x := h.expr(d - 1)
		return c09cExpr{"dbl(" + x.src + ")", x.val * 2}
	default:
		a, b := h.expr(d-1), h.expr(d-1)
		return c09cExpr{"(" + a.src + " + " + b.src + ")", a.val + b.val}
	}
}

func (h *c09cH) compiled(n int) {
	for c := 0; c < n; c++ {
		e := h.expr(1 + h.r.intn(4))
		opt := c%2 == 0
		ins, slots, err := g.VerifCompile(h.vm, "c09x = "+e.src, opt)
		if err != nil {
			h.fail("compile-error", map[string]any{"src": e.src, "err": err.Error()})
			continue
		}
		code := make([][4]int, len(ins))
		calls := 0
		for k, i := range ins {
			code[k] = [4]int{i.CodeN, i.A, i.B, i.C}
			if strings.Contains(i.Code, "CALL") {
				calls++
			}
		}
		lo := h.prefix()
		stack := append(make([]g.Value, slots), lo...)
		var out []g.Value
		esc := c09cGuard(func() { out, _, err = g.VerifExec(h.vm, code, stack) })
		h.st.add(fmt.Sprintf("compiled call expression, %d calls, optimize=%v", minInt(calls, 6), opt), e.src)
		rec := map[string]any{"src": e.src, "expected": e.val, "lo": c09cShow(lo), "out": c09cShow(out), "err": fmt.Sprint(err), "panic": esc}
		switch {
		case esc != "" || err != nil:
			h.fail("compiled-call-failed", rec)
		case len(out) != slots+len(lo):
			h.fail("misaligned-stack", rec)
		default:
			for i := range lo {
				if !c09cSame(out[slots+i], lo[i]) {
					h.fail("prefix-changed", rec)
					break
				}
			}
			top := h.vm.Get("main.c09x")
			rec["got"] = coqValue(top)
			if top.Int32() != e.val || g.VerifTag(top) != 23 {
				h.fail("wrong-result", rec)
			}
		}
	}
}

// ---- (c) call-dominated programs inside the fragment of Model/VM.v -----------------------------

var c09mTys = []string{"int", "float64", "string", "bool", "uint8", "[]int"}

type c09mFn struct {
	name string
	ptys []string
	rtys []string
}

type c09mGen struct {
	r   *rng
	sb  *strings.Builder
	fns []c09mFn
	n   int
}

func (m *c09mGen) line(f string, a ...any) { fmt.Fprintf(m.sb, f+"\n", a...) }

// an argument expression of type t: constants (untyped) or typed locals of main
func (m *c09mGen) arg(t string, d int) string {
	r := m.r
	if d > 0 && r.chance(35) {
		var c []c09mFn
		for _, f := range m.fns {
			if len(f.rtys) == 1 && f.rtys[0] == t {
				c = append(c, f)
			}
		}
		if len(c) > 0 {
			return m.call(pick(r, c), d-1)
		}
	}
	switch t {
	case "int":
		return pick(r, []string{fmt.Sprint(r.intn(50)), "vi", "2 + 1", "vi * 2"})
	case "float64":
		return pick(r, []string{"3", "7", "2.5", "vf", "1 + 2"})
	case "string":
		return pick(r, []string{`"a"`, `"bc"`, "vs", `vs + "q"`})
	case "bool":
		return pick(r, []string{"true", "false", "vb", "vi > 2"})
	case "uint8":
		return pick(r, []string{"3", "200", "vu", "250 + 5"})
	}
	return pick(r, []string{"vl", "[]int{7, 8}", "nil", "vl[1:]"})
}

func (m *c09mGen) call(f c09mFn, d int) string {
	var a []string
	for _, t := range f.ptys {
		a = append(a, m.arg(t, d))
	}
	return f.name + "(" + strings.Join(a, ", ") + ")"
}

// statements that print a value of type t using only what the model prints (ints, bools, strings)
func c09mShow(t, e string) string {
	switch t {
	case "float64":
		return fmt.Sprintf("fmt.Println(%s/2 > 1, %s*2 == 5, %s < 0)", e, e, e)
	case "uint8":
		return fmt.Sprintf("fmt.Println(%s, %s+250)", e, e)
	case "[]int":
		return fmt.Sprintf("fmt.Println(len(%s), %s == nil)", e, e)
	case "int":
		return fmt.Sprintf("fmt.Println(%s, %s*1000000)", e, e)
	}
	return fmt.Sprintf("fmt.Println(%s)", e)
}

func c09cModelProgram(r *rng) string {
	var sb strings.Builder
	m := &c09mGen{r: r, sb: &sb}
	depth := 50 + r.intn(350)
	m.line("package main\n\nimport \"fmt\"\n")
	m.line("var gf func(int) int = dbl\n")
	m.line("func dbl(x int) int { return x * 2 }")
	m.line("func trp(x int) int { return x * 3 }")
	m.line("func apply(f func(int) int, x int) int { return f(x) + 1 }")
	m.line("func vsum(base int, xs ...int) int {\n\tfor _, x := range xs {\n\t\tbase += x\n\t}\n\tif len(xs) > 0 {\n\t\txs[0] = 99\n\t}\n\treturn base\n}")
	m.line("func vcat(sep string, xs ...string) string {\n\tres := \"\"\n\tfor _, x := range xs {\n\t\tres = res + x + sep\n\t}\n\treturn res\n}")
	m.line("func vhalf(xs ...float64) bool {\n\tif len(xs) == 0 {\n\t\treturn false\n\t}\n\treturn xs[0]/2 > 1\n}")
	// a variadic parameter without surplus arguments is nil (no slice is built); with surplus or a spread slice it is not
	m.line("func vnil(xs ...int) bool { return xs == nil }")
	m.line("func vnilS(base string, xs ...string) bool { return xs == nil }")
	m.line("func sum(n int) int {\n\tif n == 0 {\n\t\treturn 0\n\t}\n\treturn n + sum(n-1)\n}")
	m.line("func even(n int) bool {\n\tif n == 0 {\n\t\treturn true\n\t}\n\treturn odd(n - 1)\n}")
	m.line("func odd(n int) bool {\n\tif n == 0 {\n\t\treturn false\n\t}\n\treturn even(n - 1)\n}")
	m.line("func locals(n int, tag string) (int, string) {\n\ta := n * 2\n\tb := n + 1\n\ts := tag + \"x\"\n\tr := 0\n\tt := \"\"\n\tif n > 0 {\n\t\tr, t = locals(n-1, tag)\n\t}\n\tif s != tag+\"x\" || a != n*2 || b != n+1 {\n\t\tfmt.Println(\"frame damaged\", n)\n\t}\n\treturn r + a - b, t + s[0:1]\n}")
	// random signatures
	nf := 5 + r.intn(4)
	for i := 0; i < nf; i++ {
		f := c09mFn{name: fmt.Sprintf("E%d", i)}
		for k := r.intn(6); k > 0; k-- {
			f.ptys = append(f.ptys, pick(r, c09mTys))
		}
		for k := r.intn(4); k > 0; k-- {
			f.rtys = append(f.rtys, pick(r, c09mTys))
		}
		var ps []string
		for j, t := range f.ptys {
			ps = append(ps, fmt.Sprintf("p%d %s", j, t))
		}
		res := ""
		if len(f.rtys) > 0 {
			res = "(" + strings.Join(f.rtys, ", ") + ") "
		}
		m.line("func %s(%s) %s{", f.name, strings.Join(ps, ", "), res)
		m.line("\tfmt.Println(\"in %s\")", f.name)
		for j, t := range f.ptys {
			m.line("\t%s", c09mShow(t, fmt.Sprintf("p%d", j)))
		}
		var rv []string
		for _, t := range f.rtys {
			var c []string
			for j, pt := range f.ptys {
				if pt == t {
					c = append(c, fmt.Sprintf("p%d", j))
				}
			}
			if len(c) > 0 && r.chance(70) {
				rv = append(rv, pick(r, c))
			} else {
				rv = append(rv, pick(r, map[string][]string{"int": {"7", "40 + 2"}, "float64": {"7", "2.5"}, "uint8": {"3", "255"},
					"string": {`"k"`}, "bool": {"true", "false"}, "[]int": {"nil", "[]int{1, 2, 3}"}}[t]))
			}
		}
		if len(rv) > 0 {
			m.line("\treturn %s", strings.Join(rv, ", "))
		}
		m.line("}")
		m.fns = append(m.fns, f)
		// a wrapper forwarding every result: return f(...)
		if len(f.rtys) >= 1 && r.chance(60) {
			w := c09mFn{name: "W" + f.name[1:], ptys: f.ptys, rtys: f.rtys}
			var as []string
			for j := range f.ptys {
				as = append(as, fmt.Sprintf("p%d", j))
			}
			m.line("func %s(%s) %s{\n\treturn %s(%s)\n}", w.name, strings.Join(ps, ", "), res, f.name, strings.Join(as, ", "))
			m.fns = append(m.fns, w)
		}
	}
	m.line("func main() {")
	m.line("\tvi := 5\n\tvf := 2.5\n\tvs := \"s\"\n\tvb := true\n\tvar vu uint8 = 9\n\tvl := []int{1, 2, 3}")
	m.line("\t_, _, _, _, _, _ = vi, vf, vs, vb, vu, vl")
	for c := 0; c < 10+r.intn(8); c++ {
		f := pick(r, m.fns)
		switch {
		case len(f.rtys) == 0 || r.chance(20):
			m.line("\t%s", m.call(f, 1))
		case len(f.rtys) == 1:
			m.n++
			m.line("\tx%d := %s", m.n, m.call(f, 2))
			m.line("\t%s", c09mShow(f.rtys[0], fmt.Sprintf("x%d", m.n)))
		default:
			var ns []string
			for range f.rtys {
				m.n++
				ns = append(ns, fmt.Sprintf("x%d", m.n))
			}
			m.line("\t%s := %s", strings.Join(ns, ", "), m.call(f, 1))
			for j, t := range f.rtys {
				m.line("\t%s", c09mShow(t, ns[j]))
			}
		}
	}
	m.line("\tfmt.Println(vsum(1), vsum(1, 2), vsum(1, 2, 3, 4), vsum(vi, vl...), vl[0])")
	m.line("\tfmt.Println(vcat(\"-\"), vcat(\"-\", \"a\"), vcat(\"+\", vs, \"b\", \"c\"))")
	m.line("\tfmt.Println(vhalf(), vhalf(3), vhalf(2, 9), vhalf(vf))")
	m.line("\tvar nl []int\n\tfmt.Println(vnil(), vnil(4), vnil(4, 5), vnil(vl...), vnil(nl...), vnil([]int{}...), vnilS(\"b\"), vnilS(\"b\", vs))")
	m.line("\tf := dbl\n\tfmt.Println(f(3), apply(f, 4), gf(5))\n\tf = trp\n\tgf = trp\n\tfmt.Println(f(3), apply(f, 4), apply(trp, 1), gf(5))")
	m.line("\tfmt.Println(sum(%d), even(%d), odd(%d))", depth, depth, depth+1)
	m.line("\tla, lb := locals(%d, \"q\")\n\tfmt.Println(la, lb)", 5+r.intn(40))
	m.line("}")
	return sb.String()
}

func c09cGoatOut(src string) string {
	var buf bytes.Buffer
	vm := g.New(g.WithStdout(&buf))
	fs := fstest.MapFS{"main/main.go": &fstest.MapFile{Data: []byte(src)}}
	if vm.Load(fs, "main") == nil {
		vm.Call("main.main", 0)
	}
	return buf.String()
}

func cmdC09Corr(seed uint64, n int, dir string) {
	r := newRng(seed)
	st := newStats()
	var out bytes.Buffer
	h := &c09cH{r: r, st: st, vm: g.New(g.WithStdout(&out)), ops: map[string]int{}}
	for k, v := range g.VerifCodeNames() {
		h.ops[v] = k
	}
	h.load()
	h.api(n)
	h.reveal(n / 3)
	h.execCalls(n)
	h.compiled(n / 2)
	// Coq cases: the model VM must print what the real VM printed
	var cases []string
	np := n / 12
	if np < 6 {
		np = 6
	}
	for c := 0; c < np; c++ {
		src := c09cModelProgram(r)
		opt := c%2 == 0
		cs, ok := runCase(src, opt)
		if !ok {
			st.Histogram["model-program-not-compiled"]++
			if st.Histogram["model-program-not-compiled"] <= 2 {
				st.Extra[fmt.Sprintf("not_compiled_%d", st.Histogram["model-program-not-compiled"])] = src
			}
			continue
		}
		cases = append(cases, cs)
		st.add(fmt.Sprintf("model program optimize=%v", opt), fmt.Sprintf("model program %d: %d lines, %d output lines, optimize=%v", c, strings.Count(src, "\n"), strings.Count(c09cGoatOut(src), "\n"), opt))
	}
	files := writeCases(dir, "cases_C09", "From Coq Require Import ZArith List String Floats.\nFrom GV Require Import GoSpec.GoPrim Model.VM Model.CorrVM.\nImport ListNotations.\nOpen Scope string_scope.\nOpen Scope Z_scope.\n", "rmismatches", cases, 3)
	st.Extra["files"] = files
	st.write(dir + "/C09_corr_stats.json")
}
