package main

import (
	"bytes"
	"fmt"
	"strconv"
	"strings"
	"testing/fstest"

	g "github.com/philhassey/goatlang"
)

// ---------------------------------------------------------------------------
// C17: reloading swaps code in place and keeps state.
//
// One generator of package families (k versions with the same function, method,
// type and variable names; bodies differ), one session type that drives a real
// VM through histories of Load / capture / call / store / identity tests, and two
// commands: c17-corr (the answers go to Coq, compared with Model/Reload.v) and
// c17-script (native oracles: latest tag, scalar state, reload of unchanged
// source, fresh-VM replay, struct evolution).

func init() {
	register("c17-corr", func(a cmdArgs) { cmdC17Corr(a.seed, a.n, a.dir) })
	register("c17-script", func(a cmdArgs) { cmdC17Script(a.seed, a.n, a.dir) })
}

// ---- model-side syntax (mirrors Model/Reload.v) -------------------------------

type c17Path struct {
	K byte     `json:"-"` // 'g' global, 's' slot, 'a' attribute
	N string   `json:"n,omitempty"`
	S int      `json:"s,omitempty"` // slot id = id of the capturing op
	B *c17Path `json:"b,omitempty"`
}

func c17PG(n string) *c17Path             { return &c17Path{K: 'g', N: n} }
func c17PS(id int) *c17Path               { return &c17Path{K: 's', S: id} }
func c17PA(b *c17Path, n string) *c17Path { return &c17Path{K: 'a', N: n, B: b} }
func (p *c17Path) root() *c17Path {
	for p.K == 'a' {
		p = p.B
	}
	return p
}
func (p *c17Path) String() string {
	switch p.K {
	case 'g':
		return p.N
	case 's':
		return fmt.Sprintf("slot#%d", p.S)
	}
	return p.B.String() + "." + p.N
}

type c17Arg struct {
	Const bool
	Z     int
	P     *c17Path
}

func (a c17Arg) String() string {
	if a.Const {
		return strconv.Itoa(a.Z)
	}
	return a.P.String()
}

type c17Fld struct {
	N string
	A c17Arg
}
type c17Expr struct {
	New string // type name; "" = plain argument
	Fs  []c17Fld
	A   c17Arg
}

func (e c17Expr) String() string {
	if e.New == "" {
		return e.A.String()
	}
	var fs []string
	for _, f := range e.Fs {
		fs = append(fs, f.N+": "+f.A.String())
	}
	return "&" + e.New + "{" + strings.Join(fs, ", ") + "}"
}

type c17Loc struct {
	K byte // 's' slot, 'g' global, 'f' field
	N string
	P *c17Path
}

func (l c17Loc) String() string {
	switch l.K {
	case 's':
		return "slot"
	case 'g':
		return l.N
	}
	return l.P.String() + "." + l.N
}

type c17Op struct {
	Kind string // load call store same read bump
	V    int    // load: version (1-based)
	D    int    // driver index, -1 = host route
	P, Q *c17Path
	L    c17Loc
	E    c17Expr
	Arg  int    // argument handed to the driver / the callee
	ID   int    // op id; slot id for captures
	SK   string // kind of the captured value: func, type:T, inst:T
}

func (o c17Op) String() string {
	route := "host"
	if o.D >= 0 {
		route = fmt.Sprintf("script D%d(%d)", o.D, o.Arg)
	}
	switch o.Kind {
	case "load":
		return fmt.Sprintf("Load(v%d)", o.V)
	case "call":
		return fmt.Sprintf("call %v(%d) [%s]", o.P, o.Arg, route)
	case "store":
		l := o.L.String()
		if o.L.K == 's' {
			l = fmt.Sprintf("slot#%d", o.ID)
		}
		return fmt.Sprintf("%s = %v [%s]", l, o.E, route)
	case "same":
		return fmt.Sprintf("same(%v, %v)", o.P, o.Q)
	case "read":
		return fmt.Sprintf("read %s", o.P)
	case "bump":
		return fmt.Sprintf("%s++ [%s]", o.P, route)
	}
	return o.Kind
}

// ---- package families ------------------------------------------------------------

type c17Type struct {
	Name    string
	Methods []string
	Extra   bool // has a second int field `k`
}
type c17Var struct {
	Name  string
	Kind  string // cnt ini sav cb inst reg bm ldc
	T     int    // type index (inst, reg)
	Z     int    // ini: the constant; reg: the id; ldc: the argument
	F     int    // sav, reg (field h), ldc: function index
	R     string // bm: the reg variable; M: method
	M     string
	Typed bool // ini: `var m int = c`
}
type c17Pkg struct {
	K       int
	NF      int
	Types   []c17Type
	Vars    []c17Var
	Keys    []string         // key index -> "f0" / "T0.M1"
	Callees map[[2]int][]int // (version, key) -> functions called from the body
	Pad     map[[2]int]int   // (version, key) -> body shape
	Drivers []c17Op          // templates rendered as script functions D<i>
	Imp     bool             // p imports package q (one function G, key index = len(Keys)-1); Load("p") reloads both
	Split   bool             // the package is split over two files
	Script  bool             // script mode: also `var z = f(c)` initialisers
	Fresh   bool             // restrict ops so that a fresh-VM replay is well defined
}

func c17GKey(n string) string {
	if strings.HasPrefix(n, "q.") {
		return n
	}
	return "p." + n
}
func (pk *c17Pkg) fname(j int) string {
	if pk.Imp && j == pk.NF {
		return "q.G"
	}
	return fmt.Sprintf("f%d", j)
}
func (pk *c17Pkg) isMethodKey(k int) bool {
	return k >= pk.NF && !(pk.Imp && k == len(pk.Keys)-1)
}
func c17Tag(v, key int) int     { return v*10000 + key*10 + 1 }
func c17TagVersion(tag int) int { return tag / 10000 }
func c17TagKey(tag int) int     { return (tag % 10000) / 10 }

func (pk *c17Pkg) keyOf(name string) int {
	for i, k := range pk.Keys {
		if k == name {
			return i
		}
	}
	return -1
}
func (pk *c17Pkg) isInitVar(n string) bool {
	for _, v := range pk.Vars {
		if v.Name == n {
			return v.Kind == "ini" || v.Kind == "sav" || v.Kind == "reg" || v.Kind == "bm" || v.Kind == "ldc"
		}
	}
	return false
}
func (pk *c17Pkg) varKind(n string) string {
	for _, v := range pk.Vars {
		if v.Name == n {
			return v.Kind
		}
	}
	return ""
}

func genC17Pkg(r *rng, script, fresh bool) *c17Pkg {
	pk := &c17Pkg{K: 2 + r.intn(3), NF: 1 + r.intn(4), Callees: map[[2]int][]int{}, Pad: map[[2]int]int{}, Script: script, Fresh: fresh}
	for i := 0; i < pk.NF; i++ {
		pk.Keys = append(pk.Keys, fmt.Sprintf("f%d", i))
	}
	nt := 1 + r.intn(2)
	for t := 0; t < nt; t++ {
		ty := c17Type{Name: fmt.Sprintf("T%d", t), Extra: r.chance(40)}
		for m := 0; m < 1+r.intn(2); m++ {
			ty.Methods = append(ty.Methods, fmt.Sprintf("M%d", m)) // the same method names on every type
			pk.Keys = append(pk.Keys, ty.Name+"."+fmt.Sprintf("M%d", m))
		}
		pk.Types = append(pk.Types, ty)
	}
	pk.Imp, pk.Split = r.chance(40), r.chance(40)
	if pk.Imp {
		pk.Keys = append(pk.Keys, "q.G")
	}
	for v := 1; v <= pk.K; v++ {
		for k := range pk.Keys {
			if pk.Imp && k == len(pk.Keys)-1 {
				continue
			}
			if pk.Imp && r.chance(25) {
				pk.Callees[[2]int{v, k}] = append(pk.Callees[[2]int{v, k}], pk.NF)
			}
			lim := pk.NF
			if k < pk.NF {
				lim = k
			}
			for j := 0; j < lim; j++ {
				if r.chance(25) {
					pk.Callees[[2]int{v, k}] = append(pk.Callees[[2]int{v, k}], j)
				}
			}
			pk.Pad[[2]int{v, k}] = r.intn(4)
		}
	}
	// variables, in source order
	cnt := map[string]int{}
	var regs []c17Var
	add := func(v c17Var) {
		v.Name = fmt.Sprintf("%s%d", map[string]string{"cnt": "c", "ini": "m", "sav": "s", "cb": "cb", "inst": "i", "reg": "r", "bm": "b", "ldc": "z"}[v.Kind], cnt[v.Kind])
		cnt[v.Kind]++
		pk.Vars = append(pk.Vars, v)
		if v.Kind == "reg" {
			regs = append(regs, v)
		}
	}
	nv := 4 + r.intn(7)
	kinds := []string{"cnt", "ini", "sav", "cb", "inst", "reg", "bm"}
	if script {
		kinds = append(kinds, "ldc")
	}
	add(c17Var{Kind: "cnt"})
	add(c17Var{Kind: "ini", Z: 5, Typed: r.chance(50)})
	for i := 0; i < nv; i++ {
		k := pick(r, kinds)
		switch k {
		case "cnt", "cb":
			add(c17Var{Kind: k})
		case "ini":
			add(c17Var{Kind: k, Z: r.intn(90) + 1, Typed: r.chance(50)})
		case "sav":
			add(c17Var{Kind: k, F: r.intn(pk.NF)})
		case "ldc":
			add(c17Var{Kind: k, F: r.intn(pk.NF), Z: r.intn(50)})
		case "inst":
			add(c17Var{Kind: k, T: r.intn(nt)})
		case "reg":
			add(c17Var{Kind: k, T: r.intn(nt), Z: 100 + len(regs), F: r.intn(pk.NF)})
		case "bm":
			if len(regs) == 0 {
				add(c17Var{Kind: "reg", T: r.intn(nt), Z: 100, F: r.intn(pk.NF)})
			}
			rv := pick(r, regs)
			add(c17Var{Kind: k, R: rv.Name, M: pick(r, pk.Types[rv.T].Methods)})
		}
	}
	// driver templates from the static candidates
	nd := 8 + r.intn(8)
	for i := 0; i < nd; i++ {
		if op, ok := pk.genOp(r, nil, true); ok && op.Kind != "load" && op.Kind != "same" && op.Kind != "read" {
			op.D = len(pk.Drivers)
			pk.Drivers = append(pk.Drivers, op)
		}
	}
	return pk
}

// pathClass names the kind of reference a call goes through.
func (pk *c17Pkg) pathClass(p *c17Path) string {
	cls := ""
	if p.K == 'a' {
		if p.N == "h" {
			cls = "a struct field of "
		} else {
			cls = "a bound method of "
		}
		p = p.B
	}
	if p.K == 's' {
		return cls + "a host-side capture"
	}
	switch pk.varKind(p.N) {
	case "":
		return cls + "the global function name"
	case "sav", "bm", "reg":
		return cls + "a variable with initialiser (" + pk.varKind(p.N) + ")"
	}
	return cls + "a variable without initialiser (" + pk.varKind(p.N) + ")"
}

// typeIdx returns the index of the struct type with the given name.
func (pk *c17Pkg) typeIdx(name string) int {
	for i, t := range pk.Types {
		if t.Name == name {
			return i
		}
	}
	return -1
}

// candidates ---------------------------------------------------------------------

type c17Slots struct {
	order []int
	kind  map[int]string
}

// instPaths: paths whose static type is *T (t = type index).
func (pk *c17Pkg) instPaths(sl *c17Slots, t int, forCapture bool) []*c17Path {
	var ps []*c17Path
	for _, v := range pk.Vars {
		if v.T == t && (v.Kind == "inst" || (v.Kind == "reg" && !(pk.Fresh && forCapture))) {
			ps = append(ps, c17PG(v.Name))
		}
	}
	if sl != nil {
		for _, id := range sl.order {
			if sl.kind[id] == "inst:"+pk.Types[t].Name {
				ps = append(ps, c17PS(id))
			}
		}
	}
	return ps
}

// funcPaths: paths whose static type is func(int) int.
func (pk *c17Pkg) funcPaths(sl *c17Slots) []*c17Path {
	var ps []*c17Path
	for i := 0; i < pk.NF; i++ {
		ps = append(ps, c17PG(fmt.Sprintf("f%d", i)))
	}
	if pk.Imp {
		ps = append(ps, c17PG("q.G"))
	}
	for _, v := range pk.Vars {
		if v.Kind == "sav" || v.Kind == "cb" || v.Kind == "bm" {
			ps = append(ps, c17PG(v.Name))
		}
	}
	for t, ty := range pk.Types {
		for _, ip := range pk.instPaths(sl, t, false) {
			ps = append(ps, c17PA(ip, "h"))
			for _, m := range ty.Methods {
				ps = append(ps, c17PA(ip, m))
			}
		}
	}
	if sl != nil {
		for _, id := range sl.order {
			if sl.kind[id] == "func" {
				ps = append(ps, c17PS(id))
			}
		}
	}
	return ps
}

// genOp draws one operation; static = only what a script function can say (no slots).
func (pk *c17Pkg) genOp(r *rng, sl *c17Slots, static bool) (c17Op, bool) {
	op := c17Op{D: -1, Arg: 1 + r.intn(9)}
	x := r.intn(100)
	switch {
	case x < 20 && !static:
		op.Kind, op.V = "load", 1+r.intn(pk.K)
	case x < 45:
		op.Kind, op.P = "call", pick(r, pk.funcPaths(sl))
	case x < 80:
		op.Kind = "store"
		y := r.intn(100)
		switch {
		case y < 45: // a function value goes somewhere
			op.E = c17Expr{A: c17Arg{P: pick(r, pk.funcPaths(sl))}}
			op.SK = "func"
			var locs []c17Loc
			locs = append(locs, c17Loc{K: 's'}, c17Loc{K: 's'})
			for _, v := range pk.Vars {
				if v.Kind == "cb" || ((v.Kind == "sav" || v.Kind == "bm") && !pk.Fresh) {
					locs = append(locs, c17Loc{K: 'g', N: v.Name})
				}
			}
			for t := range pk.Types {
				for _, ip := range pk.instPaths(sl, t, false) {
					if pk.Fresh && ip.K == 'g' && pk.varKind(ip.N) == "reg" {
						continue
					}
					locs = append(locs, c17Loc{K: 'f', N: "h", P: ip})
				}
			}
			op.L = pick(r, locs)
		case y < 85: // an instance (new or existing) goes somewhere
			t := r.intn(len(pk.Types))
			op.SK = "inst:" + pk.Types[t].Name
			ips := pk.instPaths(sl, t, true)
			if len(ips) > 0 && r.chance(35) {
				op.E = c17Expr{A: c17Arg{P: pick(r, ips)}}
			} else {
				op.Arg = 1000 + r.intn(9000)
				e := c17Expr{New: pk.Types[t].Name, Fs: []c17Fld{{N: "id", A: c17Arg{Const: true, Z: op.Arg}}}}
				if r.chance(70) {
					e.Fs = append(e.Fs, c17Fld{N: "h", A: c17Arg{P: pick(r, pk.funcPaths(sl))}})
				}
				op.E = e
			}
			locs := []c17Loc{{K: 's'}}
			for _, v := range pk.Vars {
				if v.T == t && (v.Kind == "inst" || (v.Kind == "reg" && !pk.Fresh)) {
					locs = append(locs, c17Loc{K: 'g', N: v.Name}, c17Loc{K: 'g', N: v.Name})
				}
			}
			op.L = pick(r, locs)
		case y < 95 || static: // a scalar
			var locs []c17Loc
			for _, v := range pk.Vars {
				if v.Kind == "cnt" || (v.Kind == "ini" && !pk.Fresh) {
					locs = append(locs, c17Loc{K: 'g', N: v.Name})
				}
			}
			op.Arg = r.intn(500)
			op.E = c17Expr{A: c17Arg{Const: true, Z: op.Arg}}
			op.L = pick(r, locs)
		default: // the host keeps the type object
			t := pick(r, pk.Types)
			op.E = c17Expr{A: c17Arg{P: c17PG(t.Name)}}
			op.SK = "type:" + t.Name
			op.L = c17Loc{K: 's'}
		}
	case x < 88 && !static:
		op.Kind = "same"
		fp := pk.funcPaths(sl)
		op.P, op.Q = pick(r, fp), pick(r, fp)
		if r.chance(30) {
			t := r.intn(len(pk.Types))
			if ips := pk.instPaths(sl, t, false); len(ips) > 0 {
				op.P, op.Q = pick(r, ips), pick(r, ips)
			}
		} else if r.chance(15) && sl != nil {
			for _, id := range sl.order {
				if strings.HasPrefix(sl.kind[id], "type:") {
					op.P, op.Q = c17PS(id), c17PG(sl.kind[id][5:])
				}
			}
		}
	case x < 94 && !static:
		op.Kind = "read"
		var ns []string
		for _, v := range pk.Vars {
			if v.Kind == "cnt" || v.Kind == "ini" {
				ns = append(ns, v.Name)
			}
		}
		op.P = c17PG(pick(r, ns))
	default:
		op.Kind = "bump"
		var ns []string
		for _, v := range pk.Vars {
			if v.Kind == "cnt" || (v.Kind == "ini" && !pk.Fresh) {
				ns = append(ns, v.Name)
			}
		}
		op.P = c17PG(pick(r, ns))
	}
	if static && (op.Kind == "call" || op.Kind == "store") {
		// a script function cannot mention host slots
		if op.Kind == "store" && op.L.K == 'f' && op.L.P.root().K == 's' {
			return op, false
		}
	}
	return op, true
}

// ---- source rendering ------------------------------------------------------------

func (a c17Arg) script(argName string) string {
	if a.Const {
		return argName
	}
	return a.P.String()
}

func (pk *c17Pkg) body(v, key int, recv string) string {
	var sb strings.Builder
	tag := c17Tag(v, key)
	if recv != "" {
		fmt.Fprintf(&sb, "\tprintln(\"m\", %d, %s.id)\n", tag, recv)
	} else {
		fmt.Fprintf(&sb, "\tprintln(\"t\", %d)\n", tag)
	}
	switch pk.Pad[[2]int{v, key}] {
	case 1:
		fmt.Fprintf(&sb, "\tx := a + %d\n\t_ = x\n", v)
	case 2:
		sb.WriteString("\ts := 0\n\tfor i := 0; i < 2; i++ {\n\t\ts += i\n\t}\n\t_ = s\n")
	case 3:
		fmt.Fprintf(&sb, "\tx, y := %d, a\n\tif x > y {\n\t\tx = y\n\t}\n\t_ = x\n", v)
	}
	for _, j := range pk.Callees[[2]int{v, key}] {
		fmt.Fprintf(&sb, "\t%s(a)\n", pk.fname(j))
	}
	sb.WriteString("\treturn a\n")
	return sb.String()
}

func (pk *c17Pkg) source(v int) string {
	var sb strings.Builder
	sb.WriteString("package p\n\n")
	if pk.Imp {
		sb.WriteString("import \"q\"\n\n")
	}
	// variables first in the file: treeSort moves types, methods and functions in front of them
	for _, x := range pk.Vars {
		switch x.Kind {
		case "cnt":
			fmt.Fprintf(&sb, "var %s int\n", x.Name)
		case "ini":
			if x.Typed {
				fmt.Fprintf(&sb, "var %s int = %d\n", x.Name, x.Z)
			} else {
				fmt.Fprintf(&sb, "var %s = %d\n", x.Name, x.Z)
			}
		case "sav":
			fmt.Fprintf(&sb, "var %s = f%d\n", x.Name, x.F)
		case "ldc":
			fmt.Fprintf(&sb, "var %s = f%d(%d)\n", x.Name, x.F, x.Z)
		case "cb":
			fmt.Fprintf(&sb, "var %s func(int) int\n", x.Name)
		case "inst":
			fmt.Fprintf(&sb, "var %s *%s\n", x.Name, pk.Types[x.T].Name)
		case "reg":
			fmt.Fprintf(&sb, "var %s = &%s{id: %d, h: f%d}\n", x.Name, pk.Types[x.T].Name, x.Z, x.F)
		case "bm":
			fmt.Fprintf(&sb, "var %s = %s.%s\n", x.Name, x.R, x.M)
		}
	}
	sb.WriteString("\n")
	for _, t := range pk.Types {
		fmt.Fprintf(&sb, "type %s struct {\n\tid int\n\th func(int) int\n", t.Name)
		if t.Extra {
			sb.WriteString("\tk int\n")
		}
		sb.WriteString("}\n")
	}
	sb.WriteString("//SPLIT\n")
	for i := 0; i < pk.NF; i++ {
		fmt.Fprintf(&sb, "func f%d(a int) int {\n%s}\n", i, pk.body(v, i, ""))
	}
	for _, t := range pk.Types {
		for _, m := range t.Methods {
			fmt.Fprintf(&sb, "func (t *%s) %s(a int) int {\n%s}\n", t.Name, m, pk.body(v, pk.keyOf(t.Name+"."+m), "t"))
		}
	}
	// drivers: the same text in every version
	for i, d := range pk.Drivers {
		switch d.Kind {
		case "call":
			fmt.Fprintf(&sb, "func D%d(a int) int {\n\treturn %s(a)\n}\n", i, d.P)
		case "bump":
			fmt.Fprintf(&sb, "func D%d(a int) int {\n\t%s++\n\treturn %s\n}\n", i, d.P, d.P)
		case "store":
			rhs := ""
			if d.E.New == "" {
				rhs = d.E.A.script("a")
			} else {
				var fs []string
				for _, f := range d.E.Fs {
					fs = append(fs, f.N+": "+f.A.script("a"))
				}
				rhs = "&" + d.E.New + "{" + strings.Join(fs, ", ") + "}"
			}
			if d.L.K == 's' {
				rt := "func(int) int"
				if strings.HasPrefix(d.SK, "inst:") {
					rt = "*" + d.SK[5:]
				}
				fmt.Fprintf(&sb, "func D%d(a int) %s {\n\treturn %s\n}\n", i, rt, rhs)
			} else {
				fmt.Fprintf(&sb, "func D%d(a int) int {\n\t%s = %s\n\treturn 0\n}\n", i, d.L, rhs)
			}
		}
	}
	return sb.String()
}

// ---- session: one real VM --------------------------------------------------------

type c17Line struct {
	M    bool
	Tag  int
	Recv int
}
type c17Obs struct {
	Err     string
	Lines   []c17Line
	Raw     string
	Same    bool
	Val     int
	Skipped bool
	Ins     []g.VerifIns
}

type c17Sess struct {
	pk    *c17Pkg
	vm    *g.VM
	out   *bytes.Buffer
	fs    fstest.MapFS
	slots map[int]g.Value
	sl    c17Slots
	cur   int
	loads int
	probe int // calls through captured references still to be made after the last Load
}

func newC17Sess(pk *c17Pkg) *c17Sess {
	s := &c17Sess{pk: pk, out: &bytes.Buffer{}, slots: map[int]g.Value{}, sl: c17Slots{kind: map[int]string{}}}
	s.vm = g.New(g.WithStdout(s.out))
	s.fs = fstest.MapFS{"p/a.go": &fstest.MapFile{Data: nil}}
	return s
}

// setFiles swaps the contents of the file system to version v.
func (s *c17Sess) setFiles(v int) {
	src := s.pk.source(v)
	parts := strings.SplitN(src, "//SPLIT\n", 2)
	if s.pk.Split {
		s.fs["p/a.go"] = &fstest.MapFile{Data: []byte(parts[0])}
		s.fs["p/b.go"] = &fstest.MapFile{Data: []byte("package p\n\n" + parts[1])}
	} else {
		s.fs["p/a.go"] = &fstest.MapFile{Data: []byte(parts[0] + parts[1])}
	}
	if s.pk.Imp {
		s.fs["q/a.go"] = &fstest.MapFile{Data: []byte(fmt.Sprintf("package q\n\nfunc G(a int) int {\n\tprintln(\"t\", %d)\n\treturn a\n}\n", c17Tag(v, len(s.pk.Keys)-1)))}
	}
}

func c17Guard(f func() error) (err error) {
	defer func() {
		if r := recover(); r != nil {
			err = fmt.Errorf("host panic: %v", r)
		}
	}()
	return f()
}

func (s *c17Sess) evalHost(p *c17Path) (v g.Value, err error) {
	switch p.K {
	case 'g':
		return s.vm.Get(c17GKey(p.N)), nil
	case 's':
		x, ok := s.slots[p.S]
		if !ok {
			return v, fmt.Errorf("no such slot")
		}
		return x, nil
	}
	b, err := s.evalHost(p.B)
	if err != nil {
		return v, err
	}
	err = c17Guard(func() error {
		if b.IsNil() {
			return fmt.Errorf("nil receiver")
		}
		v = b.GetAttr(p.N)
		return nil
	})
	return v, err
}

func (s *c17Sess) evalArgHost(a c17Arg) (g.Value, error) {
	if a.Const {
		return g.Int(a.Z), nil
	}
	return s.evalHost(a.P)
}

func (s *c17Sess) parseOut() (lines []c17Line, raw string) {
	raw = s.out.String()
	s.out.Reset()
	for _, l := range strings.Split(strings.TrimSpace(raw), "\n") {
		f := strings.Fields(l)
		if len(f) == 2 && f[0] == "t" {
			n, _ := strconv.Atoi(f[1])
			lines = append(lines, c17Line{Tag: n})
		} else if len(f) == 3 && f[0] == "m" {
			n, _ := strconv.Atoi(f[1])
			id, _ := strconv.Atoi(f[2])
			lines = append(lines, c17Line{M: true, Tag: n, Recv: id})
		} else if l != "" {
			lines = append(lines, c17Line{Tag: -1})
		}
	}
	return
}

func c17ErrStr(e error) string {
	if e == nil {
		return ""
	}
	s := e.Error()
	if len(s) > 160 {
		s = s[:160]
	}
	return s
}

// slotRefsOK: every slot the op mentions exists (it may not after shrinking).
func (s *c17Sess) pathOK(p *c17Path) bool {
	if p == nil {
		return true
	}
	r := p.root()
	if r.K == 's' {
		_, ok := s.slots[r.S]
		return ok
	}
	return true
}

func (s *c17Sess) exec(op c17Op) (o c17Obs) {
	ok := s.pathOK(op.P) && s.pathOK(op.Q) && s.pathOK(op.L.P) && s.pathOK(op.E.A.P)
	for _, f := range op.E.Fs {
		ok = ok && s.pathOK(f.A.P)
	}
	if !ok || (s.cur == 0 && op.Kind != "load") {
		o.Skipped = true
		return
	}
	switch op.Kind {
	case "load":
		s.setFiles(op.V)
		ins, err := g.VerifLoad(s.vm, s.fs, "p", true)
		o.Ins, o.Err = ins, c17ErrStr(err)
		o.Lines, o.Raw = s.parseOut()
		if err == nil {
			s.cur = op.V
			s.loads++
		}
	case "call":
		var err error
		if op.D >= 0 {
			_, err = s.vm.Call(fmt.Sprintf("p.D%d", op.D), 1, g.Int(op.Arg))
		} else {
			var f g.Value
			if f, err = s.evalHost(op.P); err == nil {
				_, err = s.vm.Func(f, 1, g.Int(op.Arg))
			}
		}
		o.Err = c17ErrStr(err)
		o.Lines, o.Raw = s.parseOut()
	case "bump":
		o.Val = int(s.vm.Get("p." + op.P.N).Int())
		var err error
		if op.D >= 0 {
			var r []g.Value
			if r, err = s.vm.Call(fmt.Sprintf("p.D%d", op.D), 1, g.Int(op.Arg)); err == nil && r[0].Int() != o.Val+1 {
				err = fmt.Errorf("bump returned %d after %d", r[0].Int(), o.Val)
			}
		} else {
			s.vm.Set("p."+op.P.N, g.Int(o.Val+1))
		}
		o.Err = c17ErrStr(err)
	case "read":
		v := s.vm.Get("p." + op.P.N)
		if v.IsNil() {
			o.Err = "nil"
		}
		o.Val = v.Int()
	case "same":
		a, e1 := s.evalHost(op.P)
		b, e2 := s.evalHost(op.Q)
		if e1 != nil || e2 != nil || !g.VerifHasObj(a) || !g.VerifHasObj(b) {
			o.Skipped = true
			return
		}
		o.Same = g.VerifSameObject(a, b)
	case "store":
		var val g.Value
		var err error
		if op.D >= 0 {
			var r []g.Value
			if r, err = s.vm.Call(fmt.Sprintf("p.D%d", op.D), 1, g.Int(op.Arg)); err == nil {
				val = r[0]
			}
		} else {
			err = c17Guard(func() error {
				if op.E.New == "" {
					v, e := s.evalArgHost(op.E.A)
					val = v
					return e
				}
				var data []g.Value
				for _, f := range op.E.Fs {
					v, e := s.evalArgHost(f.A)
					if e != nil {
						return e
					}
					data = append(data, g.String(f.N), v)
				}
				val = g.NewStruct(s.vm.Get("p."+op.E.New), data)
				return nil
			})
			if err == nil {
				switch op.L.K {
				case 'g':
					s.vm.Set("p."+op.L.N, val)
				case 'f':
					var recv g.Value
					if recv, err = s.evalHost(op.L.P); err == nil {
						err = c17Guard(func() error {
							if recv.IsNil() {
								return fmt.Errorf("nil receiver")
							}
							recv.SetAttr(op.L.N, val)
							return nil
						})
					}
				}
			}
		}
		o.Err = c17ErrStr(err)
		o.Lines, o.Raw = s.parseOut()
		if err == nil && op.L.K == 's' {
			s.slots[op.ID] = val
			s.sl.order = append(s.sl.order, op.ID)
			s.sl.kind[op.ID] = op.SK
		}
	}
	return
}

// alive: the path currently yields a non-nil value (only used to steer generation).
func (s *c17Sess) alive(p *c17Path) bool {
	v, err := s.evalHost(p)
	return err == nil && g.VerifHasObj(v)
}

// next draws the next operation of a history (half of the time one of the script drivers).
func (s *c17Sess) next(r *rng, id int) c17Op {
	var op c17Op
	if s.cur == 0 {
		op = c17Op{Kind: "load", V: 1 + r.intn(s.pk.K), D: -1}
	} else if s.probe > 0 {
		// right after a Load: call through what was captured before it
		s.probe--
		var ps []*c17Path
		for _, p := range s.pk.funcPaths(&s.sl) {
			if !(p.K == 'g' && strings.HasPrefix(p.N, "f")) && s.alive(p) {
				ps = append(ps, p)
				if k := s.pk.varKind(p.root().N); p.root().K == 's' || k == "cb" || k == "inst" {
					ps = append(ps, p, p, p) // references that only survive a reload if the object is kept
				}
			}
		}
		if len(ps) == 0 {
			ps = s.pk.funcPaths(&s.sl)
		}
		op = c17Op{Kind: "call", D: -1, P: pick(r, ps), Arg: 1 + r.intn(9)}
		if r.chance(20) {
			op = c17Op{Kind: "same", D: -1, P: pick(r, ps), Q: pick(r, s.pk.funcPaths(&s.sl))}
		}
	} else if len(s.pk.Drivers) > 0 && r.chance(45) {
		op = pick(r, s.pk.Drivers)
		if op.Kind == "store" && op.E.New != "" {
			op.Arg = 1000 + r.intn(9000)
			op.E.Fs = append([]c17Fld{}, op.E.Fs...)
			op.E.Fs[0].A.Z = op.Arg
		} else if op.Kind == "store" && op.E.A.Const {
			op.Arg = r.intn(500)
			op.E.A.Z = op.Arg
		}
	} else {
		for {
			var ok bool
			if op, ok = s.pk.genOp(r, &s.sl, false); ok && !(op.Kind == "call" && !s.alive(op.P) && r.chance(75)) {
				break
			}
		}
		if op.Kind == "load" && r.chance(25) {
			op.V = s.cur // reload of unchanged source
		}
	}
	if op.Kind == "load" && s.cur != 0 {
		s.probe = 2 + r.intn(4)
	}
	op.ID = id
	return op
}

// expectShape consumes the printed lines of one call along the call structure of the bodies
// that actually ran (key and version are read off the tags) and returns the paths the nested
// calls went through; ok = false when the lines do not fit any body of the family.
func (pk *c17Pkg) expectShape(first *c17Path, lines []c17Line) (paths []*c17Path, ok bool) {
	pos := 0
	var walk func(p *c17Path) bool
	walk = func(p *c17Path) bool {
		if pos >= len(lines) || lines[pos].Tag < 0 {
			return false
		}
		l := lines[pos]
		pos++
		paths = append(paths, p)
		v, k := c17TagVersion(l.Tag), c17TagKey(l.Tag)
		if v < 1 || v > pk.K || k >= len(pk.Keys) || c17Tag(v, k) != l.Tag || l.M != pk.isMethodKey(k) {
			return false
		}
		for _, j := range pk.Callees[[2]int{v, k}] {
			if !walk(c17PG(pk.fname(j))) {
				return false
			}
		}
		return true
	}
	if !walk(first) {
		return nil, false
	}
	return paths, pos == len(lines)
}

// ---- Coq rendering -----------------------------------------------------------------

type c17Coq struct {
	s *c17Sess
}

func (c c17Coq) g(n string) int { return g.VerifGlobalIndex(c.s.vm, c17GKey(n)) }
func (c c17Coq) a(n string) int { return g.VerifGlobalIndex(c.s.vm, n) }
func (c c17Coq) path(p *c17Path) string {
	switch p.K {
	case 'g':
		return fmt.Sprintf("(PGlobal %d)", c.g(p.N))
	case 's':
		for i, id := range c.s.sl.order {
			if id == p.S {
				return fmt.Sprintf("(PSlot %d)", i)
			}
		}
		return "(PSlot 99999)"
	}
	return fmt.Sprintf("(PAttr %s %d)", c.path(p.B), c.a(p.N))
}
func (c c17Coq) arg(a c17Arg) string {
	if a.Const {
		return "(AConst " + coqZ(int64(a.Z)) + ")"
	}
	return "(APath " + c.path(a.P) + ")"
}
func (c c17Coq) expr(e c17Expr) string {
	if e.New == "" {
		return "(EArg " + c.arg(e.A) + ")"
	}
	var fs []string
	for _, f := range e.Fs {
		fs = append(fs, fmt.Sprintf("(%d, %s)", c.a(f.N), c.arg(f.A)))
	}
	return fmt.Sprintf("(ENew %d [%s])", c.g(e.New), strings.Join(fs, "; "))
}
func (c c17Coq) loc(l c17Loc) string {
	switch l.K {
	case 's':
		return "LSlot"
	case 'g':
		return fmt.Sprintf("(LGlobal %d)", c.g(l.N))
	}
	return fmt.Sprintf("(LField %s %d)", c.path(l.P), c.a(l.N))
}

// decompile turns the top-level code of one Load into Model/Reload.v instructions.
func c17Decompile(ins []g.VerifIns) (out []string, err error) {
	type item struct {
		kind string // const path ref zero fn struct new
		z    int
		s    string
		fs   []string
	}
	var st []item
	pop := func() item {
		if len(st) == 0 {
			err = fmt.Errorf("stack underflow")
			return item{}
		}
		x := st[len(st)-1]
		st = st[:len(st)-1]
		return x
	}
	zero := func(t int) string {
		if t == tagInt32 {
			return "(VInt 0)"
		}
		return "VNil"
	}
	asArg := func(x item) string {
		switch x.kind {
		case "const":
			return "(AConst " + coqZ(int64(x.z)) + ")"
		case "path":
			return "(APath " + x.s + ")"
		}
		err = fmt.Errorf("not an argument: %s", x.kind)
		return ""
	}
	for i := 0; i < len(ins) && err == nil; i++ {
		x := ins[i]
		switch x.Code {
		case "FUNC":
			args, rets := ((x.A>>16)&0xffff)-32768, (x.A&0xffff)-32768
			if args < 0 {
				args = -args
			}
			n := args + rets + x.C
			tag := -1
			for j := i + 1; j <= i+n && j < len(ins); j++ {
				if ins[j].Code == "PUSH" {
					tag = ins[j].A
					break
				}
			}
			i += n
			st = append(st, item{kind: "fn", z: tag})
		case "GLOBALREF":
			st = append(st, item{kind: "ref", z: x.A})
		case "ZERO":
			st = append(st, item{kind: "zero", s: zero(x.A)})
		case "PUSH":
			st = append(st, item{kind: "const", z: x.A})
		case "CAST":
			if x.A != tagInt32 {
				err = fmt.Errorf("CAST %d", x.A)
			}
		case "GLOBALGET":
			st = append(st, item{kind: "path", s: fmt.Sprintf("(PGlobal %d)", x.A)})
		case "GETATTR":
			p := pop()
			if p.kind != "path" {
				err = fmt.Errorf("GETATTR on %s", p.kind)
			}
			st = append(st, item{kind: "path", s: fmt.Sprintf("(PAttr %s %d)", p.s, x.A)})
		case "STRUCT", "NEWSTRUCT":
			n := x.A
			if x.Code == "NEWSTRUCT" {
				n = x.B
			}
			var fs []string
			for k := 0; k < n/2; k++ {
				v, key := pop(), pop()
				if key.kind != "ref" {
					err = fmt.Errorf("field key is %s", key.kind)
				}
				if x.Code == "STRUCT" {
					fs = append([]string{fmt.Sprintf("(%d, %s)", key.z, v.s)}, fs...)
				} else {
					fs = append([]string{fmt.Sprintf("(%d, %s)", key.z, asArg(v))}, fs...)
				}
			}
			if x.Code == "STRUCT" {
				st = append(st, item{kind: "struct", fs: fs})
			} else {
				st = append(st, item{kind: "new", s: fmt.Sprintf("(ENew %d [%s])", x.A, strings.Join(fs, "; "))})
			}
		case "GLOBALSTRUCT":
			s := pop()
			if s.kind != "struct" {
				err = fmt.Errorf("GLOBALSTRUCT of %s", s.kind)
			}
			out = append(out, fmt.Sprintf("GlobalStruct %d [%s]", x.A, strings.Join(s.fs, "; ")))
		case "SETMETHOD":
			t, f := pop(), pop()
			if t.kind != "path" || f.kind != "fn" || !strings.HasPrefix(t.s, "(PGlobal ") {
				err = fmt.Errorf("SETMETHOD operands %s %s", t.kind, f.kind)
			}
			out = append(out, fmt.Sprintf("SetMethod %s %d %s", strings.TrimSuffix(strings.TrimPrefix(t.s, "(PGlobal "), ")"), x.A, coqZ(int64(f.z))))
		case "GLOBALFUNC":
			f := pop()
			if f.kind != "fn" {
				err = fmt.Errorf("GLOBALFUNC of %s", f.kind)
			}
			out = append(out, fmt.Sprintf("GlobalFunc %d %s", x.A, coqZ(int64(f.z))))
		case "GLOBALZERO":
			out = append(out, fmt.Sprintf("GlobalZero %d %s", x.A, zero(x.B)))
		case "GLOBALSET":
			v := pop()
			e := v.s
			if v.kind != "new" {
				e = "(EArg " + asArg(v) + ")"
			}
			out = append(out, fmt.Sprintf("GlobalSet %d %s", x.A, e))
		default:
			err = fmt.Errorf("top-level %s", x.Code)
		}
	}
	if err == nil && len(st) != 0 {
		err = fmt.Errorf("%d items left", len(st))
	}
	return
}

// ---- c17-corr --------------------------------------------------------------------------

func cmdC17Corr(seed uint64, n int, dir string) {
	r := newRng(seed)
	st := newStats()
	var cases []string
	for c := 0; c < n; c++ {
		pk := genC17Pkg(r, false, false)
		s := newC17Sess(pk)
		cq := c17Coq{s}
		var cops []string
		shape := map[string]int{}
		nops := 20 + r.intn(30)
		bad := ""
		for i := 0; i < nops && bad == ""; i++ {
			op := s.next(r, i)
			o := s.exec(op)
			if o.Skipped {
				continue
			}
			route := "host"
			if op.D >= 0 {
				route = "script"
			}
			switch op.Kind {
			case "load":
				if o.Err != "" {
					bad = "load failed: " + o.Err
					break
				}
				is, err := c17Decompile(o.Ins)
				if err != nil {
					bad = "undecodable top-level code: " + err.Error()
					break
				}
				cops = append(cops, "CLoad ["+strings.Join(is, "; ")+"]")
				shape["load"]++
				if s.loads > 1 {
					shape["reload"]++
				}
			case "call":
				if o.Err != "" {
					if len(o.Lines) > 0 {
						bad = "failed call printed: " + o.Raw
					}
					cops = append(cops, "CFailCall "+cq.path(op.P))
					shape["call-fails"]++
					break
				}
				paths, ok := pk.expectShape(op.P, o.Lines)
				if !ok {
					bad = fmt.Sprintf("call %v printed lines that fit no body: %q", op.P, o.Raw)
					break
				}
				for k, p := range paths {
					rv := "None"
					if o.Lines[k].M {
						rv = fmt.Sprintf("(Some %s)", coqZ(int64(o.Lines[k].Recv)))
					}
					cops = append(cops, fmt.Sprintf("CCall %s %d %s", cq.path(p), o.Lines[k].Tag, rv))
				}
				shape["call-"+route]++
				if len(paths) > 1 {
					shape["call-nested"]++
				}
				if op.P.root().K == 's' {
					shape["call-through-host-capture"]++
				}
				if o.Lines[0].M {
					shape["call-bound-method"]++
				}
			case "store":
				// the slot position is the one BEFORE the store for paths inside the expression
				e, l := cq.expr(op.E), cq.loc(op.L)
				if o.Err != "" {
					cops = append(cops, fmt.Sprintf("CFailStore %s %s", l, e))
					shape["store-fails"]++
					break
				}
				if op.L.K == 's' {
					// re-render with the slot list as it was before this capture
					s.sl.order = s.sl.order[:len(s.sl.order)-1]
					e = cq.expr(op.E)
					s.sl.order = append(s.sl.order, op.ID)
				}
				cops = append(cops, fmt.Sprintf("CStore %s %s", l, e))
				shape["store-"+route]++
				shape["store-"+string(op.L.K)+"-"+strings.SplitN(op.SK+":", ":", 2)[0]]++
			case "same":
				cops = append(cops, fmt.Sprintf("CSame %s %s %v", cq.path(op.P), cq.path(op.Q), o.Same))
				shape["same"]++
			case "read":
				if o.Err == "" {
					cops = append(cops, fmt.Sprintf("CGlobal %d %s", cq.g(op.P.N), coqZ(int64(o.Val))))
					shape["read"]++
				}
			case "bump":
				if o.Err != "" {
					bad = "bump: " + o.Err
					break
				}
				gi := cq.g(op.P.N)
				cops = append(cops, fmt.Sprintf("CGlobal %d %s", gi, coqZ(int64(o.Val))),
					fmt.Sprintf("CStore (LGlobal %d) (EArg (AConst %s))", gi, coqZ(int64(o.Val+1))),
					fmt.Sprintf("CGlobal %d %s", gi, coqZ(int64(s.vm.Get("p."+op.P.N).Int()))))
				shape["bump"]++
			}
		}
		if bad != "" {
			st.mismatchG("harness:"+strings.SplitN(bad, ":", 2)[0], map[string]any{"kind": "c17-corr-undriveable", "what": bad, "src_v1": pk.source(1)})
			continue
		}
		cases = append(cases, fmt.Sprintf("CCase %d [%s]", cq.a("id"), strings.Join(cops, ";\n  ")))
		st.add(fmt.Sprintf("K=%d funcs=%d types=%d", pk.K, pk.NF, len(pk.Types)), fmt.Sprintf("K=%d nf=%d nt=%d vars=%d drivers=%d ops=%d %v", pk.K, pk.NF, len(pk.Types), len(pk.Vars), len(pk.Drivers), len(cops), shape))
		for k, v := range shape {
			st.Histogram["op:"+k] += v
		}
		if pk.Imp {
			st.Histogram["pkg:imports-second-package"]++
		}
		if pk.Split {
			st.Histogram["pkg:two-files"]++
		}
	}
	files := writeCases(dir, "cases_C17", "From Coq Require Import ZArith List.\nFrom GV Require Import Model.Reload Model.CorrC17.\nImport ListNotations.\nOpen Scope Z_scope.\n", "xmismatches", cases, 60)
	st.Extra["files"] = files
	st.write(dir + "/C17_corr_stats.json")
}

// ---- c17-script: native oracles -------------------------------------------------------------

type c17Viol struct {
	Kind     string `json:"kind"`
	Check    string `json:"check"`
	What     string `json:"what"`
	At       int    `json:"at_op"`
	Expected string `json:"expected"`
	Got      string `json:"got"`
}

// probeAll calls every function-typed reference there is (globals, fields, bound methods, host
// captures) and reads every scalar; one line per entry.
func (s *c17Sess) probeAll() (labels, results []string) {
	for _, p := range s.pk.funcPaths(&s.sl) {
		o := s.exec(c17Op{Kind: "call", D: -1, P: p, Arg: 3})
		res := "ERR"
		if o.Err == "" {
			res = strings.ReplaceAll(strings.TrimSpace(o.Raw), "\n", "|")
		}
		labels, results = append(labels, p.String()), append(results, res)
	}
	for _, v := range s.pk.Vars {
		if v.Kind == "cnt" || v.Kind == "ini" || v.Kind == "ldc" {
			labels, results = append(labels, v.Name), append(results, s.vm.Get("p."+v.Name).String())
		}
	}
	return
}

// c17Check replays ops on a fresh VM with the oracles on; nil = no violation.
func c17Check(pk *c17Pkg, ops []c17Op, fresh bool) (*c17Viol, *c17Sess) {
	s := newC17Sess(pk)
	scal := map[string]int{}
	dirty := false
	checkScalars := func(at int, why string) *c17Viol {
		for _, v := range pk.Vars {
			if v.Kind != "cnt" && v.Kind != "ini" && v.Kind != "ldc" {
				continue
			}
			got := s.vm.Get("p." + v.Name)
			if got.IsNil() || got.Int() != scal[v.Name] {
				return &c17Viol{Kind: "c17-state", Check: v.Kind + "-" + why, What: "package-level variable " + v.Name + " (" + v.Kind + ") " + why, At: at,
					Expected: strconv.Itoa(scal[v.Name]), Got: got.String()}
			}
		}
		return nil
	}
	checkLines := func(at int, first *c17Path, o c17Obs, what string) *c17Viol {
		if len(o.Lines) == 0 && first == nil {
			return nil
		}
		for _, l := range o.Lines {
			if c17TagVersion(l.Tag) != s.cur {
				return &c17Viol{Kind: "c17-latest", Check: what, What: fmt.Sprintf("%s ran the body of version %d (key %s) after Load(v%d)", what, c17TagVersion(l.Tag), pk.Keys[c17TagKey(l.Tag)%len(pk.Keys)], s.cur), At: at,
					Expected: fmt.Sprintf("tags of version %d", s.cur), Got: strings.TrimSpace(o.Raw)}
			}
		}
		if first != nil {
			if _, ok := pk.expectShape(first, o.Lines); !ok {
				return &c17Viol{Kind: "c17-latest", Check: what + "-shape", What: what + " printed lines that fit no body of the current version", At: at, Got: strings.TrimSpace(o.Raw)}
			}
		}
		return nil
	}
	for i, op := range ops {
		var before, labels []string
		redundant := op.Kind == "load" && op.V == s.cur
		if redundant {
			labels, before = s.probeAll()
		}
		o := s.exec(op)
		if o.Skipped {
			continue
		}
		switch op.Kind {
		case "load":
			if o.Err != "" {
				return &c17Viol{Kind: "c17-load", Check: "load-error", What: "Load failed", At: i, Got: o.Err}, s
			}
			for _, v := range pk.Vars {
				switch v.Kind {
				case "cnt":
					if s.loads == 1 {
						scal[v.Name] = 0
					}
				case "ini", "ldc":
					scal[v.Name] = v.Z
				}
			}
			if v := checkLines(i, nil, o, "an initialiser run by Load"); v != nil {
				return v, s
			}
			if v := checkScalars(i, "after Load"); v != nil {
				return v, s
			}
			if redundant {
				_, after := s.probeAll()
				for k := range labels {
					root := strings.SplitN(labels[k], ".", 2)[0]
					if dirty && pk.isInitVar(root) {
						continue
					}
					if before[k] != after[k] {
						return &c17Viol{Kind: "c17-unchanged", Check: "reload-same-source", What: "reloading unchanged source changed what " + labels[k] + " does", At: i, Expected: before[k], Got: after[k]}, s
					}
				}
			}
			dirty = false
		case "call":
			if o.Err == "" {
				if v := checkLines(i, op.P, o, "call through "+pk.pathClass(op.P)); v != nil {
					return v, s
				}
			}
		case "store":
			if o.Err == "" {
				if op.L.K == 'g' && op.E.New == "" && op.E.A.Const {
					scal[op.L.N] = op.E.A.Z
				}
				if op.L.K == 'f' || (op.L.K == 'g' && pk.isInitVar(op.L.N)) {
					dirty = true
				}
			}
		case "bump":
			if o.Err != "" {
				return &c17Viol{Kind: "c17-state", Check: "bump", What: "counter " + op.P.N, At: i, Got: o.Err}, s
			}
			scal[op.P.N]++
			if pk.isInitVar(op.P.N) {
				dirty = true
			}
			if v := checkScalars(i, "after ++"); v != nil {
				return v, s
			}
		case "read":
			if v := checkScalars(i, "read"); v != nil {
				return v, s
			}
		}
	}
	if fresh && s.cur != 0 {
		b := newC17Sess(pk)
		b.exec(c17Op{Kind: "load", V: s.cur, D: -1})
		for _, op := range ops {
			if op.Kind == "store" || op.Kind == "bump" {
				b.exec(op)
			}
		}
		la, ra := s.probeAll()
		_, rb := b.probeAll()
		for k := range la {
			if k >= len(rb) || ra[k] != rb[k] {
				got := "(missing)"
				if k < len(rb) {
					got = rb[k]
				}
				return &c17Viol{Kind: "c17-fresh", Check: "fresh-vm-replay", What: fmt.Sprintf("after the history, %s differs from a fresh VM that loaded only v%d and replayed the stores", la[k], s.cur), At: len(ops),
					Expected: got, Got: ra[k]}, s
			}
		}
	}
	return nil, s
}

// c17Shrink drops operations while the same kind of violation remains.
func c17Shrink(pk *c17Pkg, ops []c17Op, fresh bool, v *c17Viol) ([]c17Op, *c17Viol) {
	for changed := true; changed; {
		changed = false
		for i := len(ops) - 1; i >= 0; i-- {
			try := append(append([]c17Op{}, ops[:i]...), ops[i+1:]...)
			if w, _ := c17Check(pk, try, fresh); w != nil && w.Kind == v.Kind && w.Check == v.Check {
				ops, v, changed = try, w, true
			}
		}
	}
	return ops, v
}

func c17Report(st *stats, pk *c17Pkg, ops []c17Op, v *c17Viol, seed uint64, c int) {
	var hist []string
	vers := map[string]string{}
	for _, op := range ops {
		hist = append(hist, op.String())
		if op.Kind == "load" {
			vers[fmt.Sprintf("v%d", op.V)] = pk.source(op.V)
		}
	}
	st.mismatchG(v.Kind+"/"+v.Check, map[string]any{"kind": v.Kind, "check": v.Check, "what": v.What, "expected": v.Expected, "got": v.Got,
		"at_op": v.At, "minimal_history": hist, "sources": vers, "seed": seed, "case": c})
}

// evolve: versions that ADD a field and a method to a struct type of which instances already exist.
func c17Evolve(r *rng, st *stats, seed uint64, c int) {
	nMax := 1 + r.intn(3)
	newField := pick(r, []string{"k int", "k int\n\tw int", "name string"})
	fname := strings.Fields(newField)[0]
	hostNew := r.chance(50)
	src := func(v int) string {
		var sb strings.Builder
		sb.WriteString("package p\n\nvar all []*T\n\ntype T struct {\n\tid int\n\th func(int) int\n")
		if v >= 2 {
			sb.WriteString("\t" + newField + "\n")
		}
		sb.WriteString("}\n")
		fmt.Fprintf(&sb, "func f(a int) int {\n\tprintln(\"t\", %d)\n\treturn a\n}\n", v*10)
		fmt.Fprintf(&sb, "func (t *T) M(a int) int {\n\tprintln(\"m\", %d, t.id)\n\treturn a\n}\n", v*10+1)
		if v >= 2 {
			fmt.Fprintf(&sb, "func (t *T) N(a int) int {\n\tprintln(\"m\", %d, t.id)\n\treturn a\n}\n", v*10+2)
			fmt.Fprintf(&sb, "func GetNew(i int) %s {\n\treturn all[i].%s\n}\n", strings.Fields(newField)[1], fname)
			if strings.Fields(newField)[1] == "int" {
				fmt.Fprintf(&sb, "func SetNew(i int) int {\n\tall[i].%s = 4\n\treturn all[i].%s\n}\n", fname, fname)
			} else {
				fmt.Fprintf(&sb, "func SetNew(i int) string {\n\tall[i].%s = \"x\"\n\treturn all[i].%s\n}\n", fname, fname)
			}
			sb.WriteString("func CallN(i int) int {\n\treturn all[i].N(i)\n}\n")
		}
		sb.WriteString("func Make(id int) int {\n\tall = append(all, &T{id: id, h: f})\n\treturn len(all)\n}\n")
		sb.WriteString("func CallM(i int) int {\n\treturn all[i].M(i)\n}\n")
		return sb.String()
	}
	idxR := r.intn(nMax)
	// the scenario is tried with ONE old instance first so that the reported history is minimal
	scenario := func(nOld, idx int) (failed bool) {
		var out bytes.Buffer
		vm := g.New(g.WithStdout(&out))
		fs := fstest.MapFS{"p/a.go": &fstest.MapFile{Data: []byte(src(1))}}
		hist := []string{"Load(v1)"}
		report := func(check, what, exp, got string) {
			failed = true
			st.mismatchG("c17-evolve/"+check, map[string]any{"kind": "c17-evolve", "check": check, "what": what, "expected": exp, "got": got,
				"minimal_history": append([]string{}, hist...), "sources": map[string]string{"v1": src(1), "v2": src(2)}, "seed": seed, "case": c})
		}
		if err := vm.Load(fs, "p"); err != nil {
			report("load-v1", "Load failed", "nil", err.Error())
			return
		}
		for i := 0; i < nOld; i++ {
			vm.Call("p.Make", 1, g.Int(100+i))
			hist = append(hist, fmt.Sprintf("Make(%d)   // all = append(all, &T{id: %d, h: f})", 100+i, 100+i))
		}
		fs["p/a.go"].Data = []byte(src(2))
		hist = append(hist, "Load(v2)   // T gains field "+fname+" and method N")
		if err := vm.Load(fs, "p"); err != nil {
			report("load-v2", "Load of the version with the extra field failed", "nil", err.Error())
			return
		}
		out.Reset()
		call := func(name string) (string, string) {
			out.Reset()
			r, err := vm.Call("p."+name, 1, g.Int(idx))
			if err != nil {
				return "", c17ErrStr(err)
			}
			return r[0].String() + " " + strings.TrimSpace(out.String()), ""
		}
		st.Histogram["evolve:"+fname]++
		if res, e := call("CallM"); e != "" || !strings.Contains(res, "m 21 ") {
			report("old-instance-old-method", "method M on an instance made before the reload", "m 21 <id>", res+e)
		}
		if res, e := call("CallN"); e != "" || !strings.Contains(res, "m 22 ") {
			report("old-instance-new-method", "method N (added by v2) on an instance made before the reload", "m 22 <id>", res+e)
		}
		zero := "0"
		if fname == "name" {
			zero = ""
		}
		hist = append(hist, fmt.Sprintf("GetNew(%d)   // all[%d].%s", idx, idx, fname))
		if res, e := call("GetNew"); e != "" || strings.TrimSpace(res) != zero {
			report("old-instance-new-field-read", "reading field "+fname+" (added by v2) of an instance made before the reload", "the zero value "+strconv.Quote(zero), res+e)
		}
		hist[len(hist)-1] = fmt.Sprintf("SetNew(%d)   // all[%d].%s = ...; return all[%d].%s", idx, idx, fname, idx, fname)
		want := "4"
		if fname == "name" {
			want = "x"
		}
		if res, e := call("SetNew"); e != "" || strings.TrimSpace(res) != want {
			report("old-instance-new-field-write", "writing then reading field "+fname+" (added by v2) of an instance made before the reload", want, res+e)
		}
		// an instance made after the reload has the field
		hist = hist[:len(hist)-1]
		if hostNew {
			v := g.NewStruct(vm.Get("p.T"), []g.Value{g.String("id"), g.Int(7)})
			if got := v.GetAttr(fname).String(); got != zero {
				report("new-instance-new-field", "host-made instance after the reload, field "+fname, zero, got)
			}
		} else {
			vm.Call("p.Make", 1, g.Int(7))
			idx = nOld
			if res, e := call("GetNew"); e != "" || strings.TrimSpace(res) != zero {
				report("new-instance-new-field", "instance made after the reload, field "+fname, zero, res+e)
			}
		}
		return
	}
	if !scenario(1, 0) && nMax > 1 {
		scenario(nMax, idxR)
	}
	st.add("evolve", fmt.Sprintf("evolve old=%d field=%q host=%v", nMax, newField, hostNew))
}

func cmdC17Script(seed uint64, n int, dir string) {
	r := newRng(seed)
	st := newStats()
	for c := 0; c < n; c++ {
		x := r.intn(100)
		if x < 6 {
			c17Evolve(r, st, seed, c)
			continue
		}
		if x < 12 {
			c17Kept(r, st, seed, c)
			continue
		}
		fresh := x < 35
		pk := genC17Pkg(r, true, fresh)
		gen := newC17Sess(pk)
		var ops []c17Op
		nops := 20 + r.intn(35)
		for i := 0; i < nops; i++ {
			op := gen.next(r, i)
			if o := gen.exec(op); !o.Skipped {
				ops = append(ops, op)
			}
		}
		v, s := c17Check(pk, ops, fresh)
		mode := "general"
		if fresh {
			mode = "fresh-replay"
		}
		shape := map[string]int{}
		cur, reloads, same := 0, 0, 0
		for _, op := range ops {
			shape[op.Kind]++
			if op.Kind == "load" {
				if cur != 0 {
					reloads++
				}
				if op.V == cur {
					same++
				}
				cur = op.V
			}
		}
		st.Histogram["ops:reload"] += reloads
		st.Histogram["ops:reload-unchanged"] += same
		for k, n := range shape {
			st.Histogram["ops:"+k] += n
		}
		if pk.Imp {
			st.Histogram["pkg:imports-second-package"]++
		}
		if pk.Split {
			st.Histogram["pkg:two-files"]++
		}
		st.add(fmt.Sprintf("%s K=%d", mode, pk.K), fmt.Sprintf("%s K=%d nf=%d nt=%d vars=%d drivers=%d slots=%d %v", mode, pk.K, pk.NF, len(pk.Types), len(pk.Vars), len(pk.Drivers), len(s.sl.order), shape))
		if v != nil {
			ops2, v2 := c17Shrink(pk, ops, fresh, v)
			c17Report(st, pk, ops2, v2, seed, c)
		}
	}
	st.write(dir + "/C17_script_stats.json")
}

// c17Kept: package-level variables declared WITHOUT initialiser, of every kind of declared type (int, string,
// float64, bool, slice, map, pointer, func, `any`, a declared interface type), are given values of various
// dynamic types by a script function, the package is reloaded (unchanged source or the next version), and the
// values are read back: every one must be what it was (a variable WITH initialiser is reset).  Native oracle:
// the expected text is computed here.
func c17Kept(r *rng, st *stats, seed uint64, c int) {
	type kv struct{ decl, set, show, want string }
	pool := []kv{
		{"var ki int", "ki = 41", "ki", "41"},
		{"var ks string", "ks = \"héé\"", "ks", "héé"},
		{"var kf float64", "kf = 2.5", "kf", "2.5"},
		{"var kb bool", "kb = true", "kb", "true"},
		{"var ku uint8", "ku = 200", "ku", "200"},
		{"var kl []int", "kl = []int{4, 5}", "kl[1]", "5"},
		{"var km map[string]int", "km = map[string]int{\"a\": 9}", "km[\"a\"]", "9"},
		{"var kp *T", "kp = &T{id: 77}", "kp.id", "77"},
		{"var kh func(int) int", "kh = f", "kh(1) > 0", "true"},
		{"var ka any", "ka = 7", "ka", "7"},
		{"var ka2 any", "ka2 = \"s\"", "ka2", "s"},
		{"var ka3 any", "ka3 = 1.5", "ka3", "1.5"},
		{"var ka4 any", "ka4 = &T{id: 5}", "ka4 != nil", "true"},
		{"var ke I", "ke = &T{id: 12}", "ke.M(3)", "15"},
		{"var ke2 I", "ke2 = U{w: 2}", "ke2.M(3)", "6"},
		{"var ky interface{}", "ky = true", "ky", "true"},
	}
	var vars []kv
	for _, x := range pool {
		if r.chance(60) {
			vars = append(vars, x)
		}
	}
	if len(vars) == 0 {
		vars = pool[9:11]
	}
	src := func(v int) string {
		var sb strings.Builder
		sb.WriteString("package p\n\nimport \"fmt\"\n\n")
		for _, x := range vars {
			sb.WriteString(x.decl + "\n")
		}
		sb.WriteString("var reset int = 3\nvar rz int = 0\nvar rs string = \"\"\nvar rb bool = false\nvar rf float64 = 0.0\nvar ru uint8 = 0\nvar rq = 0\n\ntype I interface {\n\tM(a int) int\n}\n\ntype T struct {\n\tid int\n}\n\ntype U struct {\n\tw int\n}\n\n")
		fmt.Fprintf(&sb, "func f(a int) int {\n\treturn a + %d\n}\n\nfunc (t *T) M(a int) int {\n\treturn t.id + a\n}\n\nfunc (u U) M(a int) int {\n\treturn u.w * a\n}\n\n", v)
		// variables WITH an initialiser that happens to be the zero value of the type are re-initialised like any other
		sb.WriteString("func Set() {\n\treset = 8\n\trz = 5\n\trs = \"x\"\n\trb = true\n\trf = 2.5\n\tru = 9\n\trq = 4\n")
		for _, x := range vars {
			sb.WriteString("\t" + x.set + "\n")
		}
		sb.WriteString("}\n\nfunc Show() {\n\tfmt.Println(reset, rz, \"[\"+rs+\"]\", rb, rf, ru, rq)\n")
		for _, x := range vars {
			sb.WriteString("\tfmt.Println(" + x.show + ")\n")
		}
		sb.WriteString("}\n")
		return sb.String()
	}
	var out bytes.Buffer
	vm := g.New(g.WithStdout(&out))
	fs := fstest.MapFS{"p/a.go": &fstest.MapFile{Data: []byte(src(1))}}
	hist := []string{"Load(v1)"}
	report := func(check, exp, got string) {
		st.mismatchG("c17-kept/"+check, map[string]any{"kind": "c17-kept", "check": check, "expected": exp, "got": got,
			"minimal_history": append([]string{}, hist...), "sources": map[string]string{"v1": src(1), "v2": src(2)}, "seed": seed, "case": c})
	}
	step := func(what string, f func() error) bool {
		hist = append(hist, what)
		if err := c17Guard(f); err != nil {
			report("error", "no error", what+": "+c17ErrStr(err))
			return false
		}
		return true
	}
	if !step("Load(v1)", func() error { return vm.Load(fs, "p") }) {
		return
	}
	hist = hist[1:]
	if !step("Set()", func() error { _, err := vm.Call("p.Set", 0); return err }) {
		return
	}
	reloads := 1 + r.intn(3)
	for k := 0; k < reloads; k++ {
		v := 1
		if r.chance(50) {
			v = 2
		}
		fs["p/a.go"].Data = []byte(src(v))
		if !step(fmt.Sprintf("Load(v%d)", v), func() error { return vm.Load(fs, "p") }) {
			return
		}
	}
	out.Reset()
	if !step("Show()", func() error { _, err := vm.Call("p.Show", 0); return err }) {
		return
	}
	want := "3 0 [] false 0 0 0\n"
	for _, x := range vars {
		want += x.want + "\n"
	}
	st.Histogram["kept:variables"] += len(vars)
	for _, x := range vars {
		st.Histogram["kept:"+strings.Join(strings.Fields(x.decl)[2:], " ")+" <- "+strings.SplitN(x.set, " = ", 2)[1]]++
	}
	if out.String() != want {
		// name the first variable that differs
		gl, wl := strings.Split(out.String(), "\n"), strings.Split(want, "\n")
		which := "output"
		for i := range wl {
			if i >= len(gl) || gl[i] != wl[i] {
				if i == 0 {
					which = "var reset int = 3; var rz int = 0; var rs string = \"\"; var rb bool = false; var rf float64 = 0.0; var ru uint8 = 0; var rq = 0 (each must be reset to its initialiser)"
				} else if i-1 < len(vars) {
					which = vars[i-1].decl + " after `" + vars[i-1].set + "` (must keep its value)"
				}
				break
			}
		}
		report("value", which+": "+strconv.Quote(want), strconv.Quote(out.String()))
	}
	st.add("kept", fmt.Sprintf("kept vars=%d reloads=%d", len(vars), reloads))
}
