package main

import (
	"fmt"
	"strconv"
	"strings"
	"testing/fstest"
	"unicode/utf8"

	g "github.com/philhassey/goatlang"
)

// ---------------------------------------------------------------------------
// C13 native oracle for literals.
//
// The meaning of a string, raw-string or character literal is what strconv.Unquote / strconv.UnquoteChar give
// for its source text (Props/C13.v, c13_lit).  This oracle does not need the Go toolchain: it evaluates the
// literal with VM.Eval (and, in batches, through VM.Load + a reporting native) and compares
//   - the bytes of the resulting string (character literals: the integer) with strconv's answer,
//   - len(lit), lit[i], []byte(lit), string(charlit) computed by the script,
//   - lit == other spelling of the same bytes (all \xHH, all \ooo, strconv.Quote, string([]byte{...})).
// Sweeps: \xHH and \ooo over the whole byte range (a byte escape is ONE byte, also 0x80..0xff), every simple
// escape, \u / \U at the encoding-length and surrogate boundaries, multi-byte characters spelled as byte escapes,
// raw strings; then random literals mixing every piece kind.  A literal Go rejects must not make a Go panic
// escape; when goatlang accepts it, it is counted and skipped.  A literal Go accepts must evaluate to Go's bytes.

type c13LitH struct {
	st *stats
	vm *g.VM
	ok []c13OkLit // literals accepted by both, for the batch programs
}

type c13OkLit struct {
	src  string
	want string
}

func (h *c13LitH) fail(group string, rec map[string]any) {
	rec["group"] = "literal:" + group
	rec["kind"] = "literal oracle: " + group
	h.st.mismatchG("literal:"+group, rec)
}

// eval evaluates one expression on the shared VM (a fresh one after a failure)
func (h *c13LitH) eval(src string) (rets []g.Value, err error, escaped string) {
	if h.vm == nil {
		h.vm = g.New()
	}
	func() {
		defer func() {
			if r := recover(); r != nil {
				escaped = fmt.Sprint(r)
			}
		}()
		rets, err = h.vm.Eval(fstest.MapFS{}, "lit.go", src)
	}()
	if err != nil || escaped != "" {
		h.vm = nil
	}
	return
}

func hexBytes(s string) string {
	if s == "" {
		return "(no bytes)"
	}
	return fmt.Sprintf("% x", s)
}

// evalString: the expression must yield one string with exactly the bytes want
func (h *c13LitH) evalString(group, lit, expr, want string) bool {
	rets, err, esc := h.eval(expr)
	if esc != "" || err != nil || len(rets) != 1 || rets[0].Type() != g.TypeString || rets[0].String() != want {
		got := "<no value>"
		if len(rets) == 1 {
			got = fmt.Sprintf("type %d, bytes %s", int(rets[0].Type()), hexBytes(rets[0].String()))
		}
		h.fail(group, map[string]any{"literal": lit, "expr": expr, "expected": "string, bytes " + hexBytes(want), "got": got, "error": fmt.Sprint(err), "escaped": esc})
		return false
	}
	return true
}

// evalNum: the expression must yield one number (or bool) printing as want
func (h *c13LitH) evalNum(group, lit, expr, want string) bool {
	rets, err, esc := h.eval(expr)
	if esc != "" || err != nil || len(rets) != 1 || rets[0].Type() == g.TypeString || rets[0].String() != want {
		got := "<no value>"
		if len(rets) == 1 {
			got = fmt.Sprintf("%s (type %d)", rets[0].String(), int(rets[0].Type()))
		}
		h.fail(group, map[string]any{"literal": lit, "expr": expr, "expected": want, "got": got, "error": fmt.Sprint(err), "escaped": esc})
		return false
	}
	return true
}

func c13AllHex(s string) string {
	var sb strings.Builder
	sb.WriteByte('"')
	for i := 0; i < len(s); i++ {
		fmt.Fprintf(&sb, `\x%02x`, s[i])
	}
	return sb.String() + `"`
}

func c13AllOct(s string) string {
	var sb strings.Builder
	sb.WriteByte('"')
	for i := 0; i < len(s); i++ {
		fmt.Fprintf(&sb, `\%03o`, s[i])
	}
	return sb.String() + `"`
}

func c13ByteSliceExpr(s string) string {
	p := make([]string, len(s))
	for i := 0; i < len(s); i++ {
		p[i] = strconv.Itoa(int(s[i]))
	}
	return "string([]byte{" + strings.Join(p, ", ") + "})"
}

// stringLit checks one string / raw-string literal
func (h *c13LitH) stringLit(kind, lit string, c int) {
	want, goErr := strconv.Unquote(lit)
	if goErr == nil && (lit[0] == '\'' || !utf8.ValidString(lit)) {
		panic("c13 literal oracle: generator error: " + lit)
	}
	h.st.add("literal "+kind, lit)
	rets, err, esc := h.eval(lit)
	if esc != "" {
		h.fail("go-panic-escaped", map[string]any{"literal": lit, "expr": lit, "expected": "a value or an error", "got": "Go panic", "escaped": esc})
		return
	}
	if goErr != nil {
		if err != nil {
			h.st.Histogram["literal rejected by Go and by goatlang"]++
		} else {
			h.st.Histogram["literal rejected by Go, accepted by goatlang (skipped)"]++
		}
		return
	}
	if err != nil {
		h.fail("rejected "+kind, map[string]any{"literal": lit, "expr": lit, "expected": "string, bytes " + hexBytes(want), "got": "error", "error": err.Error()})
		return
	}
	if len(rets) != 1 || rets[0].Type() != g.TypeString || rets[0].String() != want {
		got := fmt.Sprintf("%d values", len(rets))
		if len(rets) == 1 {
			got = fmt.Sprintf("type %d, bytes %s", int(rets[0].Type()), hexBytes(rets[0].String()))
		}
		h.fail("value of "+kind, map[string]any{"literal": lit, "expr": lit, "expected": "string, bytes " + hexBytes(want), "got": got,
			"what": "the literal denotes the bytes strconv.Unquote gives (a \\xHH or \\ooo escape is one byte)"})
		return
	}
	h.ok = append(h.ok, c13OkLit{lit, want})
	// derived observations, computed by the script
	okAll := h.evalNum("len of "+kind, lit, "len("+lit+")", strconv.Itoa(len(want)))
	bs := make([]string, len(want))
	for i := 0; i < len(want); i++ {
		bs[i] = strconv.Itoa(int(want[i]))
	}
	okAll = h.evalNum("[]byte of "+kind, lit, "[]byte("+lit+")", "["+strings.Join(bs, " ")+"]") && okAll
	if len(want) > 0 {
		for _, i := range []int{0, len(want) / 2, len(want) - 1} {
			okAll = h.evalNum("index of "+kind, lit, fmt.Sprintf("%s[%d]", lit, i), strconv.Itoa(int(want[i]))) && okAll
		}
		okAll = h.evalString("slice of "+kind, lit, fmt.Sprintf("%s[%d:]", lit, len(want)-1), want[len(want)-1:]) && okAll
	}
	// other spellings of the same bytes
	alts := []string{c13AllHex(want), c13AllOct(want), c13ByteSliceExpr(want), strconv.Quote(want)}
	alt := alts[c%len(alts)]
	okAll = h.evalNum("== other spelling, "+kind, lit, lit+" == "+alt, "true") && okAll
	okAll = h.evalNum("== other spelling, "+kind, lit, c13ByteSliceExpr(want)+" != "+lit, "false") && okAll
	okAll = h.evalNum("< other spelling, "+kind, lit, lit+" < "+alts[(c+1)%len(alts)], "false") && okAll
	okAll = h.evalString("concatenation, "+kind, lit, lit+` + "|" + `+lit, want+"|"+want) && okAll
	_ = okAll
}

// charLit checks one character literal
func (h *c13LitH) charLit(kind, lit string) {
	h.st.add("literal "+kind, lit)
	_, goErr := strconv.Unquote(lit)
	var want rune
	if goErr == nil {
		var tail string
		want, _, tail, goErr = strconv.UnquoteChar(lit[1:len(lit)-1], '\'')
		if goErr == nil && tail != "" {
			panic("c13 literal oracle: generator error: " + lit)
		}
	}
	rets, err, esc := h.eval(lit)
	if esc != "" {
		h.fail("go-panic-escaped", map[string]any{"literal": lit, "expr": lit, "expected": "a value or an error", "got": "Go panic", "escaped": esc})
		return
	}
	if goErr != nil {
		if err != nil {
			h.st.Histogram["literal rejected by Go and by goatlang"]++
		} else {
			h.st.Histogram["literal rejected by Go, accepted by goatlang (skipped)"]++
		}
		return
	}
	if err != nil {
		h.fail("rejected "+kind, map[string]any{"literal": lit, "expr": lit, "expected": fmt.Sprint(int(want)), "got": "error", "error": err.Error()})
		return
	}
	if len(rets) != 1 || rets[0].Type() == g.TypeString || rets[0].Float64() != float64(want) {
		got := fmt.Sprintf("%d values", len(rets))
		if len(rets) == 1 {
			got = fmt.Sprintf("%s (type %d)", rets[0].String(), int(rets[0].Type()))
		}
		h.fail("value of "+kind, map[string]any{"literal": lit, "expr": lit, "expected": fmt.Sprint(int(want)), "got": got,
			"what": "the character literal denotes the code point strconv.UnquoteChar gives"})
		return
	}
	h.evalNum("== integer, "+kind, lit, fmt.Sprintf("%s == %d", lit, want), "true")
	h.evalString("string(char), "+kind, lit, "string("+lit+")", string(want))
	h.evalNum("len(string(char)), "+kind, lit, "len(string("+lit+"))", strconv.Itoa(len(string(want))))
	// the same spelling inside a string literal (where it is legal there)
	inner := lit[1 : len(lit)-1]
	if s, e := strconv.Unquote(`"` + inner + `"`); e == nil {
		h.evalString("char spelling inside a string, "+kind, lit, `"`+inner+`"`, s)
	}
}

// batch: literals in ONE loaded program, reported through a native
func (h *c13LitH) batch(lits []c13OkLit) {
	var sb strings.Builder
	sb.WriteString("package main\n\nfunc run() {\n")
	for i, l := range lits {
		fmt.Fprintf(&sb, "\ts%d := %s\n\trep(%d, s%d, len(s%d), []byte(s%d))\n", i, l.src, i, i, i, i)
	}
	sb.WriteString("}\n")
	src := sb.String()
	seen := map[int]bool{}
	vm := g.New()
	vm.Set("main.rep", g.NewFunc(4, 0, func(vm *g.VM, a []g.Value) {
		i := a[0].Int()
		if i < 0 || i >= len(lits) || seen[i] {
			h.fail("batch program", map[string]any{"script": src, "expected": "each literal reported once", "got": fmt.Sprintf("report %d", i)})
			return
		}
		seen[i] = true
		want := lits[i].want
		bs := make([]string, len(want))
		for k := 0; k < len(want); k++ {
			bs[k] = strconv.Itoa(int(want[k]))
		}
		wb := "[" + strings.Join(bs, " ") + "]"
		if a[1].Type() != g.TypeString || a[1].String() != want || a[2].Int() != len(want) || a[3].String() != wb {
			h.fail("literal in a loaded program", map[string]any{"literal": lits[i].src, "expr": fmt.Sprintf("s := %s; rep(s, len(s), []byte(s))", lits[i].src),
				"expected": fmt.Sprintf("bytes %s, len %d, %s", hexBytes(want), len(want), wb),
				"got":      fmt.Sprintf("bytes %s, len %s, %s", hexBytes(a[1].String()), a[2].String(), a[3].String()), "script": src})
		}
	}))
	var err error
	esc := c19Guard(func() {
		if err = vm.Load(fstest.MapFS{"main/main.go": &fstest.MapFile{Data: []byte(src)}}, "main"); err == nil {
			_, err = vm.Call("main.run", 0)
		}
	})
	h.st.add("literal batch program", fmt.Sprintf("%d literals in one loaded program", len(lits)))
	if esc != "" || err != nil || len(seen) != len(lits) {
		h.fail("batch program", map[string]any{"script": src, "expected": fmt.Sprintf("%d reports, no error", len(lits)), "got": fmt.Sprintf("%d reports", len(seen)), "error": fmt.Sprint(err), "escaped": esc})
	}
}

var c13LitDirect = []string{"é", "ß", "世", "界", "€", "🐐", "😀", "𝄞", "ÿ", "\u0080", "�"}
var c13LitBytes = []byte{0, 1, 0x22, 0x27, 0x5c, 0x7e, 0x7f, 0x80, 0x81, 0xa9, 0xbf, 0xc0, 0xc2, 0xc3, 0xdf, 0xe0, 0xe4, 0xed, 0xef, 0xf0, 0xf4, 0xf5, 0xfe, 0xff}
var c13LitU4 = []rune{0, 0x41, 0x7f, 0x80, 0xe9, 0xff, 0x100, 0x7ff, 0x800, 0xd7ff, 0xe000, 0xfffd, 0xfffe, 0xffff}
var c13LitU8 = []rune{0, 0x41, 0x80, 0xff, 0x7ff, 0x800, 0xd7ff, 0xe000, 0xffff, 0x10000, 0x1f410, 0x1f600, 0xfffff, 0x100000, 0x10ffff}
var c13LitInvalid = []string{`\'`, `\400`, `\777`, `\08`, `\8`, `\ud800`, `\udfff`, `\U0000d800`, `\U00110000`, `\UFFFFFFFF`, `\xg1`, `\x4`, `\u12`, `\U0001f41`, `\q`, `\ `, `\`}

// random piece of an interpreted string: (source, kind)
func c13LitPiece(r *rng) (string, string) {
	switch r.intn(12) {
	case 0, 1:
		for {
			c := byte(r.rangeI(0x20, 0x7e))
			if c != '"' && c != '\\' {
				return string(c), "plain"
			}
		}
	case 2:
		return pick(r, c13LitDirect), "utf8-direct"
	case 3:
		return pick(r, []string{`\a`, `\b`, `\f`, `\n`, `\r`, `\t`, `\v`, `\\`, `\"`, `'`}), "simple escape"
	case 4, 5:
		b := byte(r.intn(256))
		if r.chance(50) {
			b = pick(r, c13LitBytes)
		}
		return fmt.Sprintf(pick(r, []string{`\x%02x`, `\x%02X`}), b), `\x`
	case 6, 7:
		b := byte(r.intn(256))
		if r.chance(50) {
			b = pick(r, c13LitBytes)
		}
		return fmt.Sprintf(`\%03o`, b), `\ooo`
	case 8:
		x := pick(r, c13LitU4)
		if r.chance(40) {
			x = rndRune(r, 0, 0xffff)
		}
		return fmt.Sprintf(pick(r, []string{`\u%04x`, `\u%04X`}), x), `\u`
	case 9:
		x := pick(r, c13LitU8)
		if r.chance(40) {
			x = rndRune(r, 0, 0x10ffff)
		}
		return fmt.Sprintf(pick(r, []string{`\U%08x`, `\U%08X`}), x), `\U`
	case 10:
		return pick(r, []string{"//", "/*", "*/", "`", ";", "{", "}", "%d", " "}), "delimiter text"
	}
	if r.chance(40) {
		return pick(r, c13LitInvalid), "invalid escape"
	}
	return pick(r, c13LitDirect), "utf8-direct"
}

func c13RandInterp(r *rng) string {
	var sb strings.Builder
	for i, n := 0, r.intn(9); i < n; i++ {
		p, _ := c13LitPiece(r)
		sb.WriteString(p)
	}
	return `"` + sb.String() + `"`
}

func c13RandRaw(r *rng) string {
	var sb strings.Builder
	for i, n := 0, r.intn(8); i < n; i++ {
		switch r.intn(8) {
		case 0, 1:
			c := byte(r.rangeI(0x20, 0x7e))
			if c != '`' {
				sb.WriteByte(c)
			}
		case 2:
			sb.WriteString(pick(r, []string{`\`, `\n`, `\x41`, `\xff`, `\377`, `\\`, `\"`, `é`, `\'`, `\0`, `\q`}))
		case 3:
			sb.WriteString(pick(r, []string{`"`, `'`, `""`, `''`}))
		case 4:
			sb.WriteString(pick(r, []string{"\n", "\t", "\r", "\r\n", " "}))
		case 5:
			sb.WriteString(pick(r, []string{"//", "/*", "*/", ";", "{", "}"}))
		default:
			sb.WriteString(pick(r, c13LitDirect))
		}
	}
	return "`" + sb.String() + "`"
}

func c13RandChar(r *rng) string {
	switch r.intn(9) {
	case 0:
		for {
			c := byte(r.rangeI(0x20, 0x7e))
			if c != '\'' && c != '\\' {
				return "'" + string(c) + "'"
			}
		}
	case 1:
		return "'" + pick(r, c13LitDirect) + "'"
	case 2:
		return "'" + string(rndRune(r, 0x80, 0x10ffff)) + "'"
	case 3:
		return fmt.Sprintf(pick(r, []string{`'\x%02x'`, `'\x%02X'`, `'\%03o'`}), r.intn(256))
	case 4:
		return fmt.Sprintf(`'\u%04x'`, rndRune(r, 0, 0xffff))
	case 5:
		return fmt.Sprintf(`'\U%08x'`, rndRune(r, 0, 0x10ffff))
	case 6:
		return "'" + pick(r, []string{`\a`, `\b`, `\f`, `\n`, `\r`, `\t`, `\v`, `\\`, `\'`, `"`}) + "'"
	case 7:
		return "'" + pick(r, c13LitInvalid) + "'"
	}
	return pick(r, []string{`''`, `'ab'`, `'\"'`, `'éé'`, `'\x41\x42'`, "'\ud7ff'", "'\ue000'", `'\U0010FFFF'`})
}

// c13LiteralOracle is called from cmdC13Script; n random literals of each sort on top of the sweeps.
func c13LiteralOracle(st *stats, r *rng, n int) {
	h := &c13LitH{st: st}
	c := 0
	str := func(kind, lit string) { h.stringLit(kind, lit, c); c++ }

	// byte escapes over the whole byte range
	for b := 0; b < 256; b++ {
		str(`string \xHH sweep`, fmt.Sprintf(`"\x%02x"`, b))
		if up := fmt.Sprintf(`"\x%02X"`, b); up != fmt.Sprintf(`"\x%02x"`, b) {
			str(`string \xHH sweep`, up)
		}
		str(`string \ooo sweep`, fmt.Sprintf(`"\%03o"`, b))
	}
	for _, b := range c13LitBytes {
		str(`string \xHH between text`, fmt.Sprintf(`"a\x%02xz"`, b))
		str(`string \ooo between text`, fmt.Sprintf(`"é\%03o世"`, b))
		str(`string \xHH twice`, fmt.Sprintf(`"\x%02x\x%02x"`, b, 255-b))
	}
	// multi-byte characters spelled byte by byte, and next to their direct spelling
	for _, x := range c13LitDirect {
		str(`string character spelled as \xHH bytes`, c13AllHex(x))
		str(`string character spelled as \ooo bytes`, c13AllOct(x))
		str("string utf8-direct", `"`+x+`"`)
		str("string utf8-direct", `"a`+x+x+`b"`)
		h.evalNum(`direct character == its bytes as escapes`, x, `"`+x+`" == `+c13AllHex(x), "true")
		h.evalNum(`direct character == its bytes as escapes`, x, c13AllOct(x)+` == "`+x+`"`, "true")
		h.evalNum(`len of a character spelled as byte escapes`, x, "len("+c13AllHex(x)+")", strconv.Itoa(len(x)))
	}
	for _, e := range []string{`\a`, `\b`, `\f`, `\n`, `\r`, `\t`, `\v`, `\\`, `\"`, `'`, `\'`} {
		str("string simple escape", `"`+e+`"`)
		str("string simple escape", `"x`+e+e+`y"`)
	}
	for _, x := range c13LitU4 {
		str(`string \uHHHH`, fmt.Sprintf(`"\u%04x"`, x))
		str(`string \uHHHH`, fmt.Sprintf(`"<\u%04X>"`, x))
	}
	for _, x := range c13LitU8 {
		str(`string \UHHHHHHHH`, fmt.Sprintf(`"\U%08x"`, x))
		str(`string \UHHHHHHHH`, fmt.Sprintf(`"<\U%08X>"`, x))
	}
	for _, e := range c13LitInvalid {
		str("string with an escape Go rejects", `"`+e+`"`)
		str("string with an escape Go rejects", `"ab`+e+`cd"`)
	}
	for _, l := range []string{`""`, "``", "`abc`", "`\\n`", "`\\xff`", "`\\377\\u00e9`", "`\"`", "`'`", "`a\nb`", "`a\tb`", "`é世🐐`", "`a\rb`", "`a\r\nb`", "`\\`", "`//`", "`/* */`", "\"a\nb\""} {
		str("raw / fixed string", l)
	}

	// character literals
	for b := 0; b < 256; b++ {
		h.charLit(`char \xHH sweep`, fmt.Sprintf(`'\x%02x'`, b))
		h.charLit(`char \ooo sweep`, fmt.Sprintf(`'\%03o'`, b))
	}
	for b := 0x20; b <= 0x7e; b++ {
		h.charLit("char plain ASCII", "'"+string(rune(b))+"'")
	}
	for _, e := range []string{`\a`, `\b`, `\f`, `\n`, `\r`, `\t`, `\v`, `\\`, `\'`, `"`, `\"`} {
		h.charLit("char simple escape", "'"+e+"'")
	}
	for _, x := range c13LitDirect {
		h.charLit("char utf8-direct", "'"+x+"'")
	}
	for _, x := range c13LitU4 {
		h.charLit(`char \uHHHH`, fmt.Sprintf(`'\u%04x'`, x))
	}
	for _, x := range c13LitU8 {
		h.charLit(`char \UHHHHHHHH`, fmt.Sprintf(`'\U%08X'`, x))
	}
	for _, e := range c13LitInvalid {
		h.charLit("char Go rejects", "'"+e+"'")
	}
	for _, l := range []string{`''`, `'ab'`, `'éé'`, `'\x41\x42'`, `'\ud800'`, `'\udfff'`} {
		h.charLit("char Go rejects", l)
	}

	// random literals
	for i := 0; i < n; i++ {
		str("random interpreted string", c13RandInterp(r))
		if i%3 == 0 {
			str("random raw string", c13RandRaw(r))
		}
		h.charLit("random char", c13RandChar(r))
	}

	// every literal accepted by both, again inside loaded programs
	for lo := 0; lo < len(h.ok); lo += 40 {
		h.batch(h.ok[lo:minInt(lo+40, len(h.ok))])
	}
	st.Histogram["literal oracle: string literals accepted by Go and goatlang"] = len(h.ok)
}
