package main

import (
	"bytes"
	"fmt"
	"regexp"
	"strconv"
	"strings"
	"testing/fstest"

	g "github.com/philhassey/goatlang"
)

// Run-level correspondence for the VM model (Model/VM.v): real compiled code +
// globals snapshot + observed behaviour, written as Coq cases.

func insCoq(ins []g.VerifIns) string {
	var p []string
	for _, i := range ins {
		p = append(p, fmt.Sprintf("mkI %s %s %s %s %d", coqZ(int64(i.CodeN)), coqZ(int64(i.A)), coqZ(int64(i.B)), coqZ(int64(i.C)), i.Line*65536+i.Col))
	}
	return "[" + strings.Join(p, "; ") + "]"
}

var printNatives = map[string]bool{"builtin.println": true, "builtin.print": true, "fmt.Println": true, "fmt.Print": true}

// globalsCoq lists the global slots the code refers to.
func globalsCoq(ins []g.VerifIns, gl []g.VerifGlobal) string {
	used := map[int]bool{}
	for _, i := range ins {
		switch i.Code {
		case "GLOBALGET", "GLOBALSET", "CONST", "GLOBALFUNC", "GLOBALZERO", "FASTCALL", "GLOBALSTRUCT", "NEWSTRUCT":
			used[i.A] = true
		case "FASTGET", "FASTSET":
			used[i.B] = true
		}
	}
	var p []string
	for idx := 0; idx < len(gl); idx++ {
		if !used[idx] {
			continue
		}
		e := gl[idx]
		switch {
		case e.IsFunc:
			p = append(p, fmt.Sprintf("(%d, GNative %s)", idx, coqStrLit(e.Key)))
		case e.Tag == tagString:
			p = append(p, fmt.Sprintf("(%d, GVal (mkValue %d (Zn 0) (PStr %s)))", idx, e.Tag, coqBytes(e.Str)))
		case e.HasObj:
			p = append(p, fmt.Sprintf("(%d, GVal (mkValue %d (Zn 0) (PRef 1000000)))", idx, e.Tag))
		default:
			p = append(p, fmt.Sprintf("(%d, GVal (mkValue %d %s PNone))", idx, e.Tag, coqNum(e.Tag, e.Num)))
		}
	}
	return "[" + strings.Join(p, "; ") + "]"
}

var errPosRe = regexp.MustCompile(`:(\d+):(\d+): `)

func errPos(err error) int {
	if err == nil {
		return 0
	}
	first := strings.SplitN(err.Error(), "\n", 2)[0]
	m := errPosRe.FindStringSubmatch(first)
	if m == nil {
		return -1
	}
	l, _ := strconv.Atoi(m[1])
	c, _ := strconv.Atoi(m[2])
	return l*65536 + c
}

// runCase compiles and runs a package-main program on the real VM and renders the Coq case.
func runCase(src string, optimize bool) (string, bool) {
	var out bytes.Buffer
	vm := g.New(g.WithStdout(&out))
	fs := fstest.MapFS{"main/main.go": &fstest.MapFile{Data: []byte(src)}}
	var ins []g.VerifIns
	var slots int
	var gl []g.VerifGlobal
	var err error
	escaped := false
	func() {
		defer func() {
			if r := recover(); r != nil {
				escaped = true
			}
		}()
		ins, slots, gl, err = g.VerifLoadTrace(vm, fs, "main", optimize)
		if err == nil {
			_, err = vm.Call("main.main", 0)
		}
	}()
	if escaped || ins == nil {
		return "", false
	}
	mainIdx := -1
	for i, e := range gl {
		if e.Key == "main.main" {
			mainIdx = i
		}
	}
	if mainIdx < 0 {
		return "", false
	}
	// the model runs the top-level code followed by a call of main.main
	all := append(append([]g.VerifIns{}, ins...), g.VerifIns{Code: "FASTCALL", CodeN: fastCallN(ins), A: mainIdx})
	return fmt.Sprintf("CRun %s %d %d %s %s %v %s", insCoq(all), slots, len(gl), globalsCoq(all, gl), coqBytes(out.String()), err == nil, coqZ(int64(errPos(err)))), true
}

var fastCallCode = -1

func fastCallN(ins []g.VerifIns) int {
	if fastCallCode < 0 {
		for k, v := range g.VerifCodeNames() {
			if v == "FASTCALL" {
				fastCallCode = k
			}
		}
	}
	return fastCallCode
}

func init() {
	register("vm-corr", func(a cmdArgs) { cmdVMCorr(a.seed, a.n, a.dir) })
}

func cmdVMCorr(seed uint64, n int, dir string) {
	r := newRng(seed)
	st := newStats()
	var cases []string
	kinds := map[string]int{}
	for c := 0; c < n; c++ {
		src := genScopeProgram(r, 3, 2+c%3, kinds)
		opt := c%2 == 0
		cs, ok := runCase(src, opt)
		if !ok {
			st.Histogram["not_compiled"]++
			continue
		}
		cases = append(cases, cs)
		st.add(fmt.Sprintf("scope-program optimize=%v", opt), fmt.Sprintf("program %d, %d lines, optimize=%v", c, strings.Count(src, "\n"), opt))
	}
	files := writeCases(dir, "cases_VM", "From Coq Require Import ZArith List String Floats.\nFrom GV Require Import GoSpec.GoPrim Model.VM Model.CorrVM.\nImport ListNotations.\nOpen Scope string_scope.\nOpen Scope Z_scope.\n", "rmismatches", cases, 10)
	st.Extra["files"] = files
	st.write(dir + "/VM_corr_stats.json")
}
