package main

import (
	"bytes"
	"fmt"
	"sort"
	"strings"
	"testing/fstest"

	g "github.com/philhassey/goatlang"
)

// C18: feeding a program to one VM a top-level statement at a time (successive
// Eval calls, as cli.go's REPL does) is equivalent to one Eval of the whole
// program.
//
//	c18-script  metamorphic system check: whole vs every cutting into chunks
//	c18-corr    code-level tie for Model/Incr.v: whole code = concatenation of
//	            the chunk codes up to top-level slot numbering and positions

func init() {
	register("c18-script", func(a cmdArgs) { cmdC18Script(a.seed, a.n, a.dir, a.thorough) })
	register("c18-corr", func(a cmdArgs) { cmdC18Corr(a.seed, a.n, a.dir) })
}

// ---------------------------------------------------------------------------
// generator of top-level statement sequences

type tvar struct{ name, typ string } // typ: int string float64 bool []int map[string]int *<Struct> named:<T>
type tfunc struct {
	name   string
	params int
	ret    string // int or string
}
type tstructT struct {
	name    string
	methods []string
	defined bool
}

type topGen struct {
	r       *rng
	vars    []tvar
	funcs   []tfunc // callable now (defined earlier)
	later   []tfunc // referenced by an earlier function body, to be defined later
	structs []*tstructT
	namedT  []tvar // named scalar / slice / map types: name, underlying
	imports map[string]bool
	uniq    int
	stmts   []string
	decls   []string // every global variable / constant the program declares
	kinds   map[string]int
	noImp   bool // no imports (c18-corr drives VerifEvalTrace, which has no import handling)
	faults  bool // allow statements that may fail at run time
}

func (t *topGen) fresh(p string) string { t.uniq++; return fmt.Sprintf("%s%d", p, t.uniq) }
func (t *topGen) emit(kind, s string) {
	t.kinds[kind]++
	t.stmts = append(t.stmts, s)
}

// reuseName: a name that was the header variable of a block statement (whose body declared a local of its own) is
// declared again as a top-level variable, assigned and read: the block's names must be gone when the block ends,
// in one Eval of the whole program just as in successive Evals
func (t *topGen) reuseName(n string) {
	t.emit("block header name reused by a later top-level variable", n+" := "+t.intE(1, nil)+";")
	t.declare(n, "int")
	t.emit("x = e", n+" = "+n+" + 1;")
	t.emit("println", "println("+n+");")
}
func (t *topGen) of(typ string) []string {
	var res []string
	for _, v := range t.vars {
		if v.typ == typ {
			res = append(res, v.name)
		}
	}
	return res
}
func (t *topGen) declare(name, typ string) {
	t.vars = append(t.vars, tvar{name, typ})
	t.decls = append(t.decls, name)
}

// locals: names of int locals usable inside a body
func (t *topGen) intE(d int, locals []string) string {
	r := t.r
	iv := append(append([]string{}, t.of("int")...), locals...)
	if d <= 0 || r.chance(30) {
		switch {
		case len(iv) > 0 && r.chance(65):
			return pick(r, iv)
		default:
			return fmt.Sprint(r.intn(12))
		}
	}
	a, b := t.intE(d-1, locals), t.intE(d-1, locals)
	switch r.intn(12) {
	case 0, 1, 2:
		return "(" + a + " + " + b + ")"
	case 3:
		return "(" + a + " - " + b + ")"
	case 4:
		return "(" + a + " * " + fmt.Sprint(1+r.intn(3)) + ")"
	case 5:
		return "(" + a + " % " + fmt.Sprint(2+r.intn(5)) + ")"
	case 6:
		if ss := t.of("[]int"); len(ss) > 0 {
			return "len(" + pick(r, ss) + ")"
		}
	case 7:
		if ss := t.of("string"); len(ss) > 0 {
			return "len(" + pick(r, ss) + ")"
		}
	case 8:
		if len(t.funcs) > 0 {
			f := pick(r, t.funcs)
			if f.ret == "int" {
				return t.call(f, d-1, locals)
			}
		}
	case 9:
		if ms := t.of("map[string]int"); len(ms) > 0 {
			return pick(r, ms) + "[" + pick(r, []string{`"a"`, `"b"`, `"zz"`}) + "]"
		}
	case 10:
		for _, v := range t.vars {
			if strings.HasPrefix(v.typ, "*") && r.chance(50) {
				st := t.structOf(v.typ[1:])
				if st != nil && len(st.methods) > 0 && r.chance(50) {
					return v.name + "." + pick(r, st.methods) + "(" + a + ")"
				}
				return v.name + ".a"
			}
		}
	case 11:
		for _, v := range t.vars {
			if strings.HasPrefix(v.typ, "named:") && r.chance(60) {
				return "int(" + v.name + ")"
			}
		}
	}
	return "(" + a + " + " + b + ")"
}

func (t *topGen) call(f tfunc, d int, locals []string) string {
	var args []string
	for i := 0; i < f.params; i++ {
		args = append(args, t.intE(d, locals))
	}
	return f.name + "(" + strings.Join(args, ", ") + ")"
}

func (t *topGen) structOf(name string) *tstructT {
	for _, s := range t.structs {
		if s.name == name {
			return s
		}
	}
	return nil
}

func (t *topGen) strE(d int) string {
	r := t.r
	sv := t.of("string")
	if d <= 0 || r.chance(40) {
		if len(sv) > 0 && r.chance(60) {
			return pick(r, sv)
		}
		return pick(r, []string{`"a"`, `"bc"`, `"xyz"`, `""`, `"q r"`})
	}
	switch r.intn(6) {
	case 0, 1:
		return "(" + t.strE(d-1) + " + " + t.strE(d-1) + ")"
	case 2:
		if t.imports["strings"] {
			return "strings.Repeat(" + t.strE(d-1) + ", " + fmt.Sprint(r.intn(3)) + ")"
		}
	case 3:
		if t.imports["strconv"] {
			return "strconv.Itoa(" + t.intE(d-1, nil) + ")"
		}
	case 4:
		if t.imports["fmt"] {
			return "fmt.Sprint(" + t.intE(d-1, nil) + ", " + t.strE(d-1) + ")"
		}
	case 5:
		for _, f := range t.funcs {
			if f.ret == "string" {
				return t.call(f, d-1, nil)
			}
		}
	}
	return "(" + t.strE(d-1) + " + " + t.strE(d-1) + ")"
}

func (t *topGen) floatE(d int) string {
	r := t.r
	fv := t.of("float64")
	if d <= 0 || r.chance(40) {
		if len(fv) > 0 && r.chance(60) {
			return pick(r, fv)
		}
		return pick(r, []string{"0.5", "2.0", "1.25", "3.0"})
	}
	switch r.intn(4) {
	case 0:
		if t.imports["math"] {
			return "math.Floor(" + t.floatE(d-1) + ")"
		}
	case 1:
		if t.imports["math"] {
			return "math.Max(" + t.floatE(d-1) + ", " + t.floatE(d-1) + ")"
		}
	case 2:
		return "float64(" + t.intE(d-1, nil) + ")"
	}
	return "(" + t.floatE(d-1) + pick(r, []string{" + ", " * ", " - "}) + t.floatE(d-1) + ")"
}

func (t *topGen) boolE(d int, locals []string) string {
	r := t.r
	bv := t.of("bool")
	switch r.intn(5) {
	case 0:
		if len(bv) > 0 {
			return pick(r, bv)
		}
	case 1:
		if d > 0 {
			return "(" + t.boolE(d-1, locals) + pick(r, []string{" && ", " || "}) + t.boolE(d-1, locals) + ")"
		}
	case 2:
		if t.imports["strings"] {
			return "strings.Contains(" + t.strE(1) + ", " + pick(r, []string{`"a"`, `"b"`, `"x"`}) + ")"
		}
	}
	return "(" + t.intE(d, locals) + pick(r, []string{" < ", " > ", " == ", " != ", " <= "}) + t.intE(d, locals) + ")"
}

// printable global (an expression whose rendering is deterministic)
func (t *topGen) printable() string {
	r := t.r
	if len(t.vars) == 0 {
		return fmt.Sprint(r.intn(9))
	}
	v := pick(r, t.vars)
	switch {
	case v.typ == "map[string]int":
		return "len(" + v.name + "), " + v.name + `["a"]`
	case strings.HasPrefix(v.typ, "*"):
		return v.name + ".a, " + v.name + ".b"
	case v.typ == "namedslice" || v.typ == "namedmap":
		return "len(" + v.name + ")"
	}
	return v.name
}

// body statements (inside if / for / switch / range / function bodies); they act on globals
func (t *topGen) body(n int, locals []string, inLoop bool) string {
	r := t.r
	var p []string
	for i := 0; i < n; i++ {
		switch r.intn(9) {
		case 0, 1:
			if iv := t.of("int"); len(iv) > 0 {
				p = append(p, pick(r, iv)+pick(r, []string{" = ", " += ", " -= "})+t.intE(1, locals))
				continue
			}
		case 2:
			if sv := t.of("string"); len(sv) > 0 {
				p = append(p, pick(r, sv)+" += "+t.strE(0))
				continue
			}
		case 3:
			p = append(p, "println("+t.printable()+", "+t.intE(1, locals)+")")
			continue
		case 4:
			if ss := t.of("[]int"); len(ss) > 0 {
				s := pick(r, ss)
				p = append(p, s+" = append("+s+", "+t.intE(1, locals)+")")
				continue
			}
		case 5:
			if ms := t.of("map[string]int"); len(ms) > 0 {
				p = append(p, pick(r, ms)+"["+pick(r, []string{`"a"`, `"b"`, `"c"`})+"] = "+t.intE(1, locals))
				continue
			}
		case 6:
			l := t.fresh("l")
			p = append(p, l+" := "+t.intE(1, locals), "println("+l+")")
			locals = append(locals, l)
			continue
		case 7:
			if inLoop && r.chance(40) {
				p = append(p, "if "+t.boolE(0, locals)+" { "+pick(r, []string{"break", "continue"})+" }")
				continue
			}
		case 8:
			for _, v := range t.vars {
				if strings.HasPrefix(v.typ, "*") {
					p = append(p, v.name+".a"+pick(r, []string{" = ", " += "})+t.intE(1, locals))
					break
				}
			}
			continue
		}
		p = append(p, "println("+t.intE(1, locals)+")")
	}
	return strings.Join(p, "; ")
}

func (t *topGen) stmt() {
	r := t.r
	if t.faults && r.chance(10) { // a statement that fails (at run time, or already at compile time)
		switch r.intn(6) {
		case 0:
			if ss := t.of("[]int"); len(ss) > 0 {
				t.emit("fault: index out of range", "println("+pick(r, ss)+"["+fmt.Sprint(40+r.intn(9))+"]);")
				return
			}
		case 1:
			t.emit("fault: call of an undefined function", t.fresh("nofn")+"("+t.intE(0, nil)+");")
			return
		case 2:
			if iv := t.of("int"); len(iv) > 0 {
				v := pick(r, iv)
				t.emit("fault: division by zero", v+" = "+fmt.Sprint(1+r.intn(9))+" / ("+v+" - "+v+");")
				return
			}
		case 3:
			t.emit("fault: panic", `panic("boom`+fmt.Sprint(r.intn(9))+`");`)
			return
		case 4:
			if !t.noImp {
				if !t.imports["strings"] {
					t.emit("import", `import "strings";`)
					t.imports["strings"] = true
				}
				t.emit("fault: undefined package member (compile error)", "println(strings.Nope"+fmt.Sprint(r.intn(9))+"(1));")
				return
			}
		case 5:
			t.emit("fault: unknown field of nil", "println("+t.fresh("nov")+".a);")
			return
		}
	}
	switch k := r.intn(40); {
	case k < 4:
		x := t.fresh("x")
		switch r.intn(4) {
		case 0:
			t.emit("x := e", x+" := "+t.intE(2, nil)+";")
		case 1:
			t.emit("var x T = e", "var "+x+" int = "+t.intE(2, nil)+";")
		case 2:
			t.emit("var x T", "var "+x+" int;")
		default:
			t.emit("var x = e", "var "+x+" = "+t.intE(1, nil)+";")
		}
		t.declare(x, "int")
	case k < 6:
		s := t.fresh("s")
		if r.chance(70) {
			t.emit("x := e", s+" := "+t.strE(2)+";")
		} else {
			t.emit("var x T", "var "+s+" string;")
		}
		t.declare(s, "string")
	case k < 7:
		f := t.fresh("f")
		if r.chance(50) {
			t.emit("var x T = e", "var "+f+" float64 = "+t.intE(1, nil)+";")
		} else {
			t.emit("x := e", f+" := "+t.floatE(2)+";")
		}
		t.declare(f, "float64")
	case k < 8:
		b := t.fresh("b")
		t.emit("x := e", b+" := "+t.boolE(1, nil)+";")
		t.declare(b, "bool")
	case k < 10:
		s := t.fresh("sl")
		if r.chance(75) {
			t.emit("slice literal", s+" := []int{"+t.intE(1, nil)+", "+t.intE(1, nil)+", "+t.intE(0, nil)+"};")
		} else {
			t.emit("var x T", "var "+s+" []int;")
		}
		t.declare(s, "[]int")
	case k < 11:
		m := t.fresh("m")
		t.emit("map literal", m+` := map[string]int{"a": `+t.intE(1, nil)+`, "b": `+t.intE(0, nil)+"};")
		t.declare(m, "map[string]int")
	case k < 13:
		c := t.fresh("k")
		if r.chance(70) {
			t.emit("const k = e", "const "+c+" = "+fmt.Sprint(r.intn(50))+";")
			t.declare(c, "int")
		} else {
			t.emit("const k = e", "const "+c+" = "+pick(r, []string{`"c1"`, `"c22"`})+";")
			t.declare(c, "string")
		}
	case k < 17: // assignments
		if len(t.vars) == 0 {
			t.stmt()
			return
		}
		v := pick(r, t.vars)
		switch v.typ {
		case "int":
			switch r.intn(4) {
			case 0:
				t.emit("x = e", v.name+" = "+t.intE(2, nil)+";")
			case 1:
				t.emit("x op= e", v.name+pick(r, []string{" += ", " -= ", " *= "})+t.intE(1, nil)+";")
			case 2:
				t.emit("x++", v.name+pick(r, []string{"++", "--"})+";")
			default:
				t.emit("x op= e", v.name+" %= "+fmt.Sprint(3+r.intn(5))+";")
			}
		case "string":
			t.emit("x op= e", v.name+" += "+t.strE(1)+";")
		case "float64":
			t.emit("x op= e", v.name+pick(r, []string{" += ", " *= ", " = "})+t.floatE(1)+";")
		case "bool":
			t.emit("x = e", v.name+" = "+t.boolE(1, nil)+";")
		case "[]int":
			if r.chance(60) {
				t.emit("append", v.name+" = append("+v.name+", "+t.intE(1, nil)+");")
			} else if t.faults || r.chance(0) {
				t.emit("s[i] = e (may fail)", v.name+"["+fmt.Sprint(r.intn(4))+"] = "+t.intE(1, nil)+";")
			} else {
				t.emit("append", v.name+" = append("+v.name+", 1, 2);")
			}
		case "map[string]int":
			t.emit("m[k] = e", v.name+"["+pick(r, []string{`"a"`, `"b"`, `"c"`})+"]"+pick(r, []string{" = ", " += "})+t.intE(1, nil)+";")
		default:
			if strings.HasPrefix(v.typ, "*") {
				t.emit("p.a = e", v.name+".a"+pick(r, []string{" = ", " += "})+t.intE(1, nil)+";")
			} else {
				t.emit("println", "println("+t.printable()+");")
			}
		}
	case k < 19:
		if r.chance(40) {
			l := t.fresh("t")
			body := t.body(2, []string{l}, false)
			reuse := r.chance(40)
			if reuse {
				l2 := t.fresh("l")
				body = l2 + " := " + l + " + 1; println(" + l2 + "); " + body
			}
			t.emit("if (with init)", "if "+l+" := "+t.intE(1, nil)+"; "+l+" > "+fmt.Sprint(r.intn(8))+" { "+body+" } else { "+t.body(1, []string{l}, false)+" };")
			if reuse {
				t.reuseName(l)
			}
		} else if r.chance(50) {
			t.emit("if", "if "+t.boolE(1, nil)+" { "+t.body(2, nil, false)+" };")
		} else {
			t.emit("if/else", "if "+t.boolE(1, nil)+" { "+t.body(1, nil, false)+" } else if "+t.boolE(0, nil)+" { "+t.body(1, nil, false)+" } else { "+t.body(1, nil, false)+" };")
		}
	case k < 21:
		i := t.fresh("i")
		body := t.body(2, []string{i}, true)
		reuse := r.chance(40)
		if reuse {
			l := t.fresh("l")
			body = l + " := " + i + " * 2; println(" + l + "); " + body
		}
		t.emit("for", "for "+i+" := 0; "+i+" < "+fmt.Sprint(1+r.intn(4))+"; "+i+"++ { "+body+" };")
		if reuse {
			t.reuseName(i)
		}
	case k < 23:
		if r.chance(60) {
			t.emit("switch (value)", "switch "+t.intE(1, nil)+" % 3 { case 0: "+t.body(1, nil, false)+"; case 1, 2: "+t.body(1, nil, false)+"; default: "+t.body(1, nil, false)+" };")
		} else {
			t.emit("switch (bool)", "switch { case "+t.boolE(0, nil)+": "+t.body(1, nil, false)+"; case "+t.boolE(0, nil)+": "+t.body(2, nil, false)+"; default: "+t.body(1, nil, false)+" };")
		}
	case k < 25:
		if ss := t.of("[]int"); len(ss) > 0 {
			kk, vv := t.fresh("rk"), t.fresh("rv")
			s := pick(r, ss)
			// the body must not grow the slice it ranges over beyond bounds: appends go to a snapshot (range evaluates once)
			t.emit("range slice", "for "+kk+", "+vv+" := range "+s+" { "+t.body(1, []string{kk, vv}, true)+" };")
		} else if ms := t.of("map[string]int"); len(ms) > 0 {
			vv := t.fresh("rv")
			t.emit("range map", "for _, "+vv+" := range "+pick(r, ms)+" { println("+vv+") };")
		} else {
			t.emit("println", "println("+t.printable()+");")
		}
	case k < 28: // function definitions
		f := tfunc{name: t.fresh("fn"), params: r.intn(3), ret: "int"}
		saved, isLater := t.funcs, false
		if len(t.later) > 0 && r.chance(60) { // define a function an earlier body already refers to
			f = t.later[0]
			t.later = t.later[1:]
			isLater = true
			t.funcs = nil // it calls nothing: no recursion through the functions that call it
		}
		var ps, locals []string
		for i := 0; i < f.params; i++ {
			p := fmt.Sprintf("a%d", i)
			ps = append(ps, p+" int")
			locals = append(locals, p)
		}
		body := t.body(r.intn(3), locals, false)
		if body != "" {
			body += "; "
		}
		ret := t.intE(2, locals)
		kind := "func"
		if !isLater && r.chance(25) { // call a function that is defined LATER in the sequence (legal at package level in Go)
			fw := tfunc{name: t.fresh("fw"), params: 1, ret: "int"}
			t.later = append(t.later, fw)
			ret = "(" + ret + " + " + fw.name + "(" + t.intE(0, locals) + "))"
			kind = "func calling a later-defined func"
		}
		if r.chance(15) {
			f.ret = "string"
			ret = t.strE(1)
		}
		t.emit(kind, "func "+f.name+"("+strings.Join(ps, ", ")+") "+f.ret+" { "+body+"return "+ret+" };")
		t.funcs = append(saved, f)
	case k < 31: // type definitions and values of those types
		switch r.intn(6) {
		case 0, 1:
			st := &tstructT{name: t.fresh("P"), defined: true}
			if r.chance(25) && !t.noFwdType() { // use before definition: legal at package level in Go
				q := t.fresh("q")
				t.emit("var x *T before type T", "var "+q+" *"+st.name+";")
				t.emit("type struct", "type "+st.name+" struct { a int; b string };")
				t.structs = append(t.structs, st)
				t.emit("p = &T{..}", q+" = &"+st.name+`{a: `+t.intE(1, nil)+`, b: `+t.strE(0)+"};")
				t.declare(q, "*"+st.name)
				return
			}
			t.emit("type struct", "type "+st.name+" struct { a int; b string };")
			t.structs = append(t.structs, st)
		case 2:
			n := t.fresh("T")
			t.emit("type T int", "type "+n+" "+pick(r, []string{"int", "uint8", "float64"})+";")
			t.namedT = append(t.namedT, tvar{n, "scalar"})
		case 3:
			n := t.fresh("S")
			t.emit("type S []int", "type "+n+" []int;")
			t.namedT = append(t.namedT, tvar{n, "slice"})
		case 4:
			n := t.fresh("M")
			t.emit("type M map", "type "+n+" map[string]int;")
			t.namedT = append(t.namedT, tvar{n, "map"})
		default:
			n := t.fresh("A")
			t.emit("type A = B", "type "+n+" = "+pick(r, []string{"int", "float64", "string"})+";")
			t.namedT = append(t.namedT, tvar{n, "alias"})
		}
	case k < 34: // values of declared types
		if len(t.structs) > 0 && r.chance(50) {
			st := pick(r, t.structs)
			p := t.fresh("p")
			if r.chance(70) {
				t.emit("p := &T{..}", p+" := &"+st.name+`{a: `+t.intE(1, nil)+`, b: `+t.strE(1)+"};")
			} else {
				t.emit("p := &T{..}", "var "+p+" *"+st.name+" = &"+st.name+"{a: "+t.intE(0, nil)+"};")
			}
			t.declare(p, "*"+st.name)
			return
		}
		if len(t.namedT) > 0 {
			nt := pick(r, t.namedT)
			x := t.fresh("v")
			switch nt.typ {
			case "scalar":
				if r.chance(60) {
					t.emit("T(x) conversion", x+" := "+nt.name+"("+t.intE(1, nil)+");")
				} else {
					t.emit("var x T = e", "var "+x+" "+nt.name+" = "+t.intE(1, nil)+";")
				}
				t.declare(x, "named:"+nt.name)
			case "alias":
				t.emit("T(x) conversion", x+" := "+nt.name+"("+fmt.Sprint(r.intn(9))+");")
				t.declare(x, "aliasval")
			case "slice":
				if r.chance(50) {
					t.emit("make(S, n)", x+" := make("+nt.name+", "+fmt.Sprint(r.intn(3))+");")
				} else {
					t.emit("S{..}", x+" := "+nt.name+"{"+t.intE(0, nil)+", "+t.intE(0, nil)+"};")
				}
				t.declare(x, "namedslice")
			case "map":
				if r.chance(50) {
					t.emit("make(M)", x+" := make("+nt.name+");")
				} else {
					t.emit("M{..}", x+" := "+nt.name+`{"a": `+t.intE(0, nil)+"};")
				}
				t.declare(x, "namedmap")
			}
			return
		}
		t.emit("println", "println("+t.printable()+");")
	case k < 36: // method definitions
		if len(t.structs) == 0 {
			t.stmt()
			return
		}
		st := pick(r, t.structs)
		m := t.fresh("Mt")
		t.emit("method", "func (p *"+st.name+") "+m+"(n int) int { p.a += n; "+t.body(1, []string{"n"}, false)+"; return p.a + "+t.intE(1, []string{"n"})+" };")
		st.methods = append(st.methods, m)
	case k < 38: // imports
		if t.noImp {
			t.emit("println", "println("+t.printable()+");")
			return
		}
		pk := pick(r, []string{"strings", "math", "strconv", "fmt"})
		if r.chance(20) {
			t.emit("import (..)", `import ( "`+pk+`" );`)
		} else {
			t.emit("import", `import "`+pk+`";`)
		}
		t.imports[pk] = true
		switch pk {
		case "strings":
			x := t.fresh("s")
			t.emit("use of import", x+" := strings.Repeat("+t.strE(1)+", 2);")
			t.declare(x, "string")
		case "math":
			x := t.fresh("f")
			t.emit("use of import", x+" := math.Floor("+t.floatE(1)+" / 2.0);")
			t.declare(x, "float64")
		case "strconv":
			x := t.fresh("s")
			t.emit("use of import", x+" := strconv.Itoa("+t.intE(1, nil)+");")
			t.declare(x, "string")
		case "fmt":
			t.emit("use of import", "fmt.Println("+t.printable()+");")
		}
	default:
		if len(t.funcs) > 0 && r.chance(40) {
			t.emit("call statement", t.call(pick(r, t.funcs), 1, nil)+";")
		} else {
			t.emit("println", "println("+t.printable()+", "+t.intE(1, nil)+");")
		}
	}
}

func (t *topGen) noFwdType() bool { return false }

// genTopProgram returns a sequence of top-level statements (each ends with ";") and the globals it declares.
func genTopProgram(r *rng, n int, noImp, faults bool, kinds map[string]int) ([]string, []string) {
	t := &topGen{r: r, imports: map[string]bool{}, kinds: kinds, noImp: noImp, faults: faults}
	for len(t.stmts) < n-1 {
		t.stmt()
	}
	// functions still owed to earlier bodies: define them (sometimes not: the call then fails in both modes)
	for _, f := range t.later {
		if faults && r.chance(30) {
			continue
		}
		t.emit("func (defined after its first use)", "func "+f.name+"(a0 int) int { return a0 + "+fmt.Sprint(r.intn(5))+" };")
		t.funcs = append(t.funcs, f)
	}
	t.later = nil
	// a final expression statement: its value is what Eval returns
	switch r.intn(4) {
	// (no statement may begin with "(" or "-": see the adversarial template "statement beginning with ( after ;")
	case 0:
		t.emit("final expression", "0 + "+t.intE(2, nil)+";")
	case 1:
		t.emit("final expression", `"" + `+t.strE(1)+";")
	case 2:
		if len(t.funcs) > 0 {
			f := pick(r, t.funcs)
			if f.ret == "int" {
				t.emit("final expression", t.call(f, 1, nil)+" + 0;")
			} else {
				t.emit("final expression", t.call(f, 1, nil)+` + "";`)
			}
			break
		}
		fallthrough
	default:
		if len(t.vars) > 0 {
			v := pick(r, t.vars)
			if v.typ == "int" || v.typ == "string" || v.typ == "float64" || v.typ == "bool" {
				t.emit("final expression", v.name+";")
				break
			}
		}
		t.emit("final expression", "1 * "+t.intE(1, nil)+";")
	}
	return t.stmts, t.decls
}

// ---------------------------------------------------------------------------
// evaluation of one cutting

type chunkObs struct {
	Err    bool   `json:"err"`
	Stage  string `json:"stage,omitempty"` // tokenize / parse / compile / run ...
	Msg    string `json:"msg,omitempty"`
	Rets   string `json:"rets"`
	OutLen int    `json:"-"`
}

type cutObs struct {
	Chunks  []chunkObs
	Out     string
	Globals string // rendering of every declared global after the last evaluated chunk
	Keys    []string
	Panic   string
}

func stageOf(err error) string {
	s := err.Error()
	if strings.HasPrefix(s, "error in ") {
		s = s[len("error in "):]
		if i := strings.Index(s, ":"); i > 0 {
			return s[:i]
		}
	}
	return "?"
}

func renderGlobals(vm *g.VM, decls []string) string {
	idx := map[string]int{}
	n := g.VerifGlobalLen(vm)
	for i := 0; i < n; i++ {
		k := g.VerifGlobalKey(vm, i)
		if _, ok := idx[k]; !ok {
			idx[k] = i
		}
	}
	var p []string
	for _, d := range decls {
		i, ok := idx["main."+d]
		if !ok || i < 0 {
			p = append(p, d+"=any:nil") // never interned: reads as nil
			continue
		}
		v := g.VerifGlobalRead(vm, i)
		p = append(p, d+"="+canonMaps(descr(v, vm)))
	}
	return strings.Join(p, " | ")
}

// evalCut feeds the chunks to one VM through successive Eval calls sharing one evalImports map
// (as cli.go does).  stopAtErr: stop after the first failing chunk.
func evalCut(chunks []string, decls []string, stopAtErr, shareImports bool) (o cutObs) {
	var out bytes.Buffer
	vm := g.New(g.WithStdout(&out))
	imports := map[string]string{}
	sys := fstest.MapFS{}
	for _, c := range chunks {
		var co chunkObs
		func() {
			defer func() {
				if r := recover(); r != nil {
					o.Panic = fmt.Sprint(r)
					co.Err, co.Stage = true, "go panic"
				}
			}()
			opts := []g.RunOption{}
			if shareImports {
				opts = append(opts, g.WithEvalImports(imports))
			}
			rets, err := vm.Eval(sys, "stdin", c, opts...)
			if err != nil {
				co.Err, co.Stage = true, stageOf(err)
				co.Msg = strings.SplitN(err.Error(), "\n", 2)[0]
			}
			var p []string
			for _, v := range rets {
				p = append(p, canonMaps(descr(v, vm)))
			}
			co.Rets = strings.Join(p, ",")
		}()
		co.OutLen = out.Len()
		o.Chunks = append(o.Chunks, co)
		if co.Err && stopAtErr {
			break
		}
	}
	o.Out = out.String()
	o.Globals = renderGlobals(vm, decls)
	return
}

func joinStmts(stmts []string) string { return strings.Join(stmts, "\n") }

// cutting: bit i set = a cut between statement i and i+1
func chunksOf(stmts []string, mask uint64) []string {
	var res []string
	cur := []string{stmts[0]}
	for i := 1; i < len(stmts); i++ {
		if mask&(1<<uint(i-1)) != 0 {
			res = append(res, joinStmts(cur))
			cur = nil
		}
		cur = append(cur, stmts[i])
	}
	return append(res, joinStmts(cur))
}

func firstErr(o cutObs) int {
	for i, c := range o.Chunks {
		if c.Err {
			return i
		}
	}
	return -1
}

func allRets(o cutObs) string {
	var p []string
	for _, c := range o.Chunks {
		if c.Rets != "" {
			p = append(p, c.Rets)
		}
	}
	return strings.Join(p, ",")
}

// compareCut returns "" when the cutting agrees with the single call, else the first differing observable.
//   - the single call succeeds: every chunk must succeed; same output, same globals, and the values the
//     chunks return, concatenated, are the values the single call returns (the last chunk returns the
//     value of the last expression);
//   - the single call fails while running: the cutting must fail too, and up to (and including) its
//     first failing chunk it must have produced the same output and globals (the REPL goes on with the
//     remaining chunks; the single call does not);
//   - the single call fails before running (tokenize / parse / compile): some chunk must fail.
func compareCut(whole cutObs, stmts, decls []string, mask uint64) (what string, inc cutObs) {
	chunks := chunksOf(stmts, mask)
	w := whole.Chunks[0]
	if !w.Err {
		inc = evalCut(chunks, decls, false, true)
		switch {
		case inc.Panic != whole.Panic:
			return "go panic", inc
		case firstErr(inc) >= 0:
			return "single call succeeds, chunk " + fmt.Sprint(firstErr(inc)) + " fails (" + inc.Chunks[firstErr(inc)].Stage + ")", inc
		case inc.Out != whole.Out:
			return "output", inc
		case inc.Globals != whole.Globals:
			return "final globals", inc
		case allRets(inc) != w.Rets:
			return "returned values", inc
		}
		return "", inc
	}
	inc = evalCut(chunks, decls, true, true)
	k := firstErr(inc)
	switch {
	case inc.Panic != whole.Panic:
		return "go panic", inc
	case k < 0:
		return "single call fails (" + w.Stage + "), every chunk succeeds", inc
	case w.Stage != "run":
		return "", inc
	case inc.Chunks[k].Stage != "run":
		// an earlier compile-time failure in a chunk: the single call would have reported it first
		return "single call fails while running, chunk " + fmt.Sprint(k) + " fails in " + inc.Chunks[k].Stage, inc
	case inc.Out != whole.Out:
		return "output up to the failure", inc
	case inc.Globals != whole.Globals:
		return "globals at the failure", inc
	}
	return "", inc
}

type c18Mismatch struct {
	Group   string   `json:"group"`
	What    string   `json:"what"`
	Program []string `json:"program"`
	Cutting []int    `json:"cutting_chunk_sizes"`
	Whole   string   `json:"whole"`
	Incr    string   `json:"incremental"`
	Shrunk  []string `json:"shrunk_program,omitempty"`
	ShrCut  []int    `json:"shrunk_cutting_chunk_sizes,omitempty"`
	ShrWhat string   `json:"shrunk_what,omitempty"`
}

func cutSizes(n int, mask uint64) []int {
	var res []int
	cur := 1
	for i := 1; i < n; i++ {
		if mask&(1<<uint(i-1)) != 0 {
			res = append(res, cur)
			cur = 0
		}
		cur++
	}
	return append(res, cur)
}

func obsString(o cutObs) string {
	var p []string
	for i, c := range o.Chunks {
		if c.Err {
			p = append(p, fmt.Sprintf("chunk %d: %s", i, c.Msg))
		}
	}
	return fmt.Sprintf("out=%q rets=[%s] globals={%s} %s", o.Out, allRets(o), o.Globals, strings.Join(p, "; "))
}

// disagreement of one (program, cutting): "" = agree
func disagree(stmts, decls []string, mask uint64) (string, cutObs, cutObs) {
	whole := evalCut([]string{joinStmts(stmts)}, decls, false, true)
	what, inc := compareCut(whole, stmts, decls, mask)
	return what, whole, inc
}

// shrink: drop statements while the disagreement persists (the cutting keeps the surviving boundaries)
func shrinkC18(stmts, decls []string, mask uint64) ([]string, uint64, string) {
	chunkID := make([]int, len(stmts))
	id := 0
	for i := 1; i < len(stmts); i++ {
		if mask&(1<<uint(i-1)) != 0 {
			id++
		}
		chunkID[i] = id
	}
	maskOf := func(ids []int) uint64 {
		var m uint64
		for i := 1; i < len(ids); i++ {
			if ids[i] != ids[i-1] {
				m |= 1 << uint(i-1)
			}
		}
		return m
	}
	what, _, _ := disagree(stmts, decls, mask)
	for changed := true; changed && len(stmts) > 1; {
		changed = false
		for i := 0; i < len(stmts); i++ {
			s2 := append(append([]string{}, stmts[:i]...), stmts[i+1:]...)
			id2 := append(append([]int{}, chunkID[:i]...), chunkID[i+1:]...)
			if len(s2) == 0 {
				continue
			}
			if w2, _, _ := disagree(s2, decls, maskOf(id2)); w2 != "" {
				stmts, chunkID, what = s2, id2, w2
				changed = true
				break
			}
		}
	}
	return stmts, maskOf(chunkID), what
}

func recordC18(st *stats, group string, stmts, decls []string, mask uint64, what string, whole, inc cutObs) {
	if st.Groups[group+"|"+what] > 0 {
		st.mismatchG(group+"|"+what, nil)
		return
	}
	sh, shMask, shWhat := shrinkC18(stmts, decls, mask)
	st.mismatchG(group+"|"+what, c18Mismatch{Group: group, What: what, Program: stmts, Cutting: cutSizes(len(stmts), mask),
		Whole: obsString(whole), Incr: obsString(inc), Shrunk: sh, ShrCut: cutSizes(len(sh), shMask), ShrWhat: shWhat})
}

// adversarial templates: the interaction points between compile time and run time
//   - a name bound to a type value by RUN-time code, then used in call position by a later statement
//   - a type name re-bound by run-time code
//   - a type declared by a LATER statement (written at compile time) read by an earlier statement's run
//   - a top-level return
func advPrograms(r *rng) []struct {
	group string
	stmts []string
	decls []string
} {
	n := fmt.Sprint(1 + r.intn(8))
	f := pick(r, []string{"3.7", "2.5", "9.9"})
	return []struct {
		group string
		stmts []string
		decls []string
	}{
		{"adv: name bound to a type value at run time, then called", []string{"type T int;", "U := T;", "y := U(" + f + ");", "println(y);"}, []string{"y"}},
		{"adv: type name re-bound at run time, then called", []string{"type T int;", "T := " + n + ";", "y := T(2);", "println(y);"}, []string{"y"}},
		{"adv: type declared by a later statement read by an earlier one", []string{"x := T;", "type T int;", "println(x);"}, []string{"x"}},
		{"adv: make of a name bound at run time", []string{"type S []int;", "R := S;", "z := make(R, " + n + ");", "println(len(z));"}, []string{}},
		{"adv: statement beginning with ( after ;", []string{"x := " + n + ";", "(x + 2);"}, []string{"x"}},
		{"adv: statement beginning with - after ;", []string{"x := " + n + ";", "-x;"}, []string{"x"}},
		{"adv: top-level return", []string{"x := 1;", "return;", "x = " + n + ";", "println(x);"}, []string{"x"}},
	}
}

// c18Rng: newRng's streams for adjacent seeds are one draw apart (state = seed*K + c, K added per draw):
// mix the seed first so that different seeds give unrelated programs
func c18Rng(seed uint64) *rng { return newRng(newRng(seed).next()) }

func cmdC18Script(seed uint64, n int, dir string, thorough bool) {
	r := c18Rng(seed)
	st := newStats()
	kinds := map[string]int{}
	cuttings, exhaustive, sampled, failing, failStage := 0, 0, 0, 0, map[string]int{}
	for c := 0; c < n; c++ {
		size := 3 + r.intn(10) // 3..12 statements
		faults := c%4 == 3
		stmts, decls := genTopProgram(r, size, false, faults, kinds)
		group := "generated"
		if faults {
			group = "generated (fault-prone)"
		}
		whole := evalCut([]string{joinStmts(stmts)}, decls, false, true)
		if whole.Chunks[0].Err {
			failing++
			failStage[whole.Chunks[0].Stage]++
		}
		st.add(group, fmt.Sprintf("%d statements: %s", len(stmts), strings.Join(stmts, " ")))
		var masks []uint64
		nb := uint(len(stmts) - 1)
		if len(stmts) <= 8 {
			for m := uint64(1); m < 1<<nb; m++ {
				masks = append(masks, m)
			}
			exhaustive++
		} else {
			masks = append(masks, 1<<nb-1) // one statement per Eval
			k := 40
			if thorough {
				k = 200
			}
			for i := 0; i < k; i++ {
				if m := r.next() & (1<<nb - 1); m != 0 {
					masks = append(masks, m)
				}
			}
			for i := uint(0); i < nb; i++ { // every single cut
				masks = append(masks, 1<<i)
			}
			sampled++
		}
		for _, m := range masks {
			cuttings++
			if what, inc := compareCut(whole, stmts, decls, m); what != "" {
				recordC18(st, group, stmts, decls, m, what, whole, inc)
				break
			}
		}
	}
	// adversarial templates (every cutting)
	advDiverge := map[string]int{}
	for rep := 0; rep < 3; rep++ {
		for _, a := range advPrograms(r) {
			whole := evalCut([]string{joinStmts(a.stmts)}, a.decls, false, true)
			st.add(a.group, strings.Join(a.stmts, " "))
			for m := uint64(1); m < 1<<uint(len(a.stmts)-1); m++ {
				cuttings++
				if what, inc := compareCut(whole, a.stmts, a.decls, m); what != "" {
					advDiverge[a.group]++
					if strings.Contains(a.group, "top-level return") {
						break // outside the property: `return` is no top-level statement of the language (hypothesis `closed`)
					}
					recordC18(st, a.group, a.stmts, a.decls, m, what, whole, inc)
					break
				}
			}
		}
	}
	// informational: expression statements in the middle (the single call returns ALL the values left on the
	// stack; the law checked above is "concatenation of the chunks' values")
	mid := 0
	for rep := 0; rep < 20; rep++ {
		stmts := []string{fmt.Sprint(r.intn(9)) + ";", "x := " + fmt.Sprint(r.intn(9)) + ";", "x;", fmt.Sprint(r.intn(9)) + " + x;"}
		whole := evalCut([]string{joinStmts(stmts)}, []string{"x"}, false, true)
		for m := uint64(1); m < 8; m++ {
			cuttings++
			if what, inc := compareCut(whole, stmts, []string{"x"}, m); what != "" {
				recordC18(st, "expression statements in the middle", stmts, []string{"x"}, m, what, whole, inc)
			}
		}
		mid++
	}
	// informational: WITHOUT a shared evalImports map an import does not survive its Eval call
	impLost := 0
	{
		stmts := []string{`import "strings";`, `strings.Repeat("ab", 2);`}
		a := evalCut(stmts, nil, false, true)
		b := evalCut(stmts, nil, false, false)
		if firstErr(a) < 0 && firstErr(b) >= 0 {
			impLost = 1
		}
	}
	var ks []string
	for k, v := range kinds {
		ks = append(ks, fmt.Sprintf("%s:%d", k, v))
	}
	sort.Strings(ks)
	st.Extra["statement_kinds"] = ks
	st.Extra["cuttings_evaluated"] = cuttings
	st.Extra["programs_all_cuttings"] = exhaustive
	st.Extra["programs_sampled_cuttings"] = sampled
	st.Extra["programs_failing_in_single_call"] = failing
	st.Extra["failing_stage"] = failStage
	st.Extra["adversarial_divergences"] = advDiverge
	st.Extra["mid_expression_programs"] = mid
	st.Extra["import_lost_without_shared_map"] = impLost
	st.write(dir + "/C18_script_stats.json")
}

// ---------------------------------------------------------------------------
// c18-corr: the compiled code of the whole program against the compiled codes of the chunks

var c18SlotA = map[string]bool{"LOCALGET": true, "LOCALSET": true, "LOCALZERO": true, "LOCALINCDEC": true, "FASTGETINT": true, "FASTSETINT": true,
	"RANGE": true, "FASTGET": true, "FASTSET": true, "FASTGETATTR": true, "FASTSETATTR": true, "FASTCALLATTR": true, "ITER": true,
	"LOCALADD": true, "LOCALMUL": true, "LOCALSUB": true, "LOCALDIV": true}
var c18SlotB = map[string]bool{"LOCALADD": true, "LOCALMUL": true, "LOCALSUB": true, "LOCALDIV": true}

func c18Join(a, b int) int      { return (((a + 32768) & 0xffff) << 16) | ((b + 32768) & 0xffff) }
func c18Split(v int) (int, int) { return ((v >> 16) & 0xffff) - 32768, (v & 0xffff) - 32768 }

// shiftCode renumbers the top-level slots of a chunk's code by base (function bodies keep their own frame)
func shiftCode(ins []g.VerifIns, base int) []g.VerifIns {
	res := append([]g.VerifIns{}, ins...)
	for n := 0; n < len(res); n++ {
		i := &res[n]
		if i.Code == "FUNC" {
			a, rr := c18Split(i.A)
			if a < 0 {
				a = -a
			}
			n += a + rr + i.C
			continue
		}
		if c18SlotA[i.Code] {
			i.A += base
		}
		if c18SlotB[i.Code] {
			i.B += base
		}
		if i.Code == "ITER" {
			b1, b2 := c18Split(i.B)
			i.B = c18Join(b1+base, b2+base)
		}
	}
	return res
}

type c18CorrMismatch struct {
	Group   string   `json:"group"`
	What    string   `json:"what"`
	Program []string `json:"program"`
	Cutting []int    `json:"cutting_chunk_sizes"`
}

func cmdC18Corr(seed uint64, n int, dir string) {
	r := c18Rng(seed ^ 0x5bd1e995)
	st := newStats()
	kinds := map[string]int{}
	var cases []string
	skippedWhole, skippedChunk, instrs, chunksN := 0, 0, 0, 0
	for c := 0; c < n; c++ {
		stmts, _ := genTopProgram(r, 3+r.intn(8), true, false, kinds)
		vmW := g.New(g.WithStdout(&bytes.Buffer{}))
		var wIns []g.VerifIns
		var wSlots int
		var err error
		escaped := false
		func() {
			defer func() {
				if rec := recover(); rec != nil {
					escaped = true
				}
			}()
			wIns, wSlots, _, _, err = g.VerifEvalTrace(vmW, joinStmts(stmts), true)
		}()
		if escaped || err != nil {
			skippedWhole++
			continue
		}
		nb := uint(len(stmts) - 1)
		masks := []uint64{1<<nb - 1}
		if m := r.next() & (1<<nb - 1); m != 0 && m != masks[0] {
			masks = append(masks, m)
		}
		for _, m := range masks {
			chunks := chunksOf(stmts, m)
			vmI := g.New(g.WithStdout(&bytes.Buffer{}))
			type ck struct {
				ins   []g.VerifIns
				slots int
			}
			var cks []ck
			bad := false
			for _, ch := range chunks {
				func() {
					defer func() {
						if rec := recover(); rec != nil {
							bad = true
						}
					}()
					ins, slots, _, _, err := g.VerifEvalTrace(vmI, ch, true)
					if err != nil {
						bad = true
						return
					}
					cks = append(cks, ck{ins, slots})
				}()
				if bad {
					break
				}
			}
			if bad {
				skippedChunk++
				continue
			}
			// Go-side structural comparison (the Coq case below re-does it with Model/Incr.v's shift_code)
			what := ""
			var cat []g.VerifIns
			base := 0
			for _, k := range cks {
				cat = append(cat, shiftCode(k.ins, base)...)
				base += k.slots
			}
			switch {
			case base != wSlots:
				what = fmt.Sprintf("slots: whole %d, sum of chunks %d", wSlots, base)
			case len(cat) != len(wIns):
				what = fmt.Sprintf("code length: whole %d, concatenation %d", len(wIns), len(cat))
			default:
				for j := range cat {
					a, b := cat[j], wIns[j]
					if a.CodeN != b.CodeN || a.A != b.A || a.B != b.B || a.C != b.C {
						what = fmt.Sprintf("instruction %d: whole %s, chunk %s", j, b.Text, a.Text)
						break
					}
				}
			}
			if what == "" { // interning: the same keys at the same indices
				lw, li := g.VerifGlobalLen(vmW), g.VerifGlobalLen(vmI)
				if lw != li {
					what = fmt.Sprintf("globals table length: whole %d, incremental %d", lw, li)
				} else {
					for j := 0; j < lw; j++ {
						if g.VerifGlobalKey(vmW, j) != g.VerifGlobalKey(vmI, j) {
							what = fmt.Sprintf("global %d: whole %q, incremental %q", j, g.VerifGlobalKey(vmW, j), g.VerifGlobalKey(vmI, j))
							break
						}
					}
				}
			}
			if what != "" {
				st.mismatchG("code of the whole program vs concatenated chunk codes", c18CorrMismatch{Group: "c18-corr", What: what, Program: stmts, Cutting: cutSizes(len(stmts), m)})
			}
			var cs []string
			for _, k := range cks {
				cs = append(cs, fmt.Sprintf("(%s, %d)", insCoq(k.ins), k.slots))
				instrs += len(k.ins)
				chunksN++
			}
			cases = append(cases, fmt.Sprintf("CChunks %s %d [%s]", insCoq(wIns), wSlots, strings.Join(cs, "; ")))
			cl := "one statement per chunk"
			if m != 1<<nb-1 {
				cl = "random cutting"
			}
			st.add(cl, fmt.Sprintf("%d statements, cutting %v: %s", len(stmts), cutSizes(len(stmts), m), strings.Join(stmts, " ")))
		}
	}
	files := writeCases(dir, "cases_C18", "From Coq Require Import ZArith List String.\nFrom GV Require Import GoSpec.GoPrim Model.VM Model.Incr Model.CorrC18.\nImport ListNotations.\nOpen Scope Z_scope.\n", "xmismatches", cases, 25)
	st.Extra["files"] = files
	st.Extra["whole_program_fails_skipped"] = skippedWhole
	st.Extra["chunk_fails_skipped"] = skippedChunk
	st.Extra["chunks"] = chunksN
	st.Extra["instructions"] = instrs
	st.write(dir + "/C18_corr_stats.json")
}
