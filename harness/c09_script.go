package main

// C09 system-level differential: "Calls deliver arguments and results in order
// and with their declared types".  Generated Go programs (many functions and
// methods with random signatures, a main made of independent sections full of
// call sites) are run by the Go toolchain and by goatlang; outputs are compared
// section by section so that distinct defects land in distinct mismatch groups.

import (
	"fmt"
	"runtime"
	"strconv"
	"strings"
	"sync"
)

func init() {
	register("c09-script", func(a cmdArgs) { c09sCmd(a.seed, a.n, a.dir) })
}

// ---- types of the generated language fragment ----

type c09sTy int

const (
	c09sInt c09sTy = iota
	c09sFloat
	c09sStr
	c09sBool
	c09sU8
	c09sSlice
	c09sMap
	c09sPtr
	c09sFn
	c09sSliceS // only as the type of a ...string parameter
	c09sSliceF // only as the type of a ...float64 parameter
)

var c09sTyName = []string{"int", "float64", "string", "bool", "uint8", "[]int", "map[string]int", "*T", "func(int) int", "[]string", "[]float64"}

// short tags used in labels and feature counters (never the bare word "int":
// asInt32 rewrites that word in the reference program, also inside strings)
var c09sTyTag = []string{"I", "F", "S", "B", "U8", "SL", "MP", "PT", "FN", "SS", "SF"}

var c09sAllTys = []c09sTy{c09sInt, c09sFloat, c09sStr, c09sBool, c09sU8, c09sSlice, c09sMap, c09sPtr, c09sFn}

func (t c09sTy) nilable() bool { return t == c09sSlice || t == c09sMap || t == c09sPtr || t == c09sFn }
func (t c09sTy) numeric() bool { return t == c09sInt || t == c09sFloat || t == c09sU8 }

type c09sVar struct {
	name   string
	ty     c09sTy
	nonNil bool
}

type c09sFunc struct {
	name   string
	recv   bool // method on *T, receiver named t
	params []c09sVar
	vari   c09sTy // element type of the variadic tail, or -1
	res    []c09sTy
}

func (f *c09sFunc) variSliceTy() c09sTy {
	switch f.vari {
	case c09sStr:
		return c09sSliceS
	case c09sFloat:
		return c09sSliceF
	}
	return c09sSlice
}

type c09sSection struct {
	kind string
	body string
}

type c09sProgram struct {
	decls string
	secs  []c09sSection
	theme string
}

func (p *c09sProgram) secFuncs() string {
	var sb strings.Builder
	for k, s := range p.secs {
		fmt.Fprintf(&sb, "func sec%d() {\n\tfmt.Println(\"== %d %s\")\n%s}\n\n", k, k, s.kind, s.body)
	}
	return sb.String()
}

func (p *c09sProgram) full() string {
	var sb strings.Builder
	sb.WriteString(p.decls)
	sb.WriteString(p.secFuncs())
	sb.WriteString("func main() {\n")
	for k := range p.secs {
		fmt.Fprintf(&sb, "\tsec%d()\n", k)
	}
	sb.WriteString("}\n")
	return sb.String()
}

// reduced is the same program with a main that runs only section k.
func (p *c09sProgram) reduced(k int) string {
	var sb strings.Builder
	sb.WriteString(p.decls)
	s := p.secs[k]
	fmt.Fprintf(&sb, "func sec%d() {\n\tfmt.Println(\"== %d %s\")\n%s}\n\n", k, k, s.kind, s.body)
	fmt.Fprintf(&sb, "func main() {\n\tsec%d()\n}\n", k)
	return sb.String()
}

// ---- generator ----

type c09sGen struct {
	r       *rng
	sb      *strings.Builder
	feat    map[string]int
	nlbl    int
	nvar    int
	inBody  bool                   // inside a generated callee: no calls to random functions
	singles map[c09sTy][]*c09sFunc // random plain functions with exactly one result of that type
	kAdd    int
}

func (g *c09sGen) line(ind int, format string, a ...any) {
	g.sb.WriteString(strings.Repeat("\t", ind))
	fmt.Fprintf(g.sb, format, a...)
	g.sb.WriteString("\n")
}

func (g *c09sGen) lbl() string {
	g.nlbl++
	return fmt.Sprintf("\"L%d\"", g.nlbl)
}

func (g *c09sGen) fresh(p string) string {
	g.nvar++
	return fmt.Sprintf("%s%d", p, g.nvar)
}

func c09sVarsOf(vars []c09sVar, ty c09sTy, needNonNil bool) []string {
	var out []string
	for _, v := range vars {
		if v.ty == ty && (!needNonNil || v.nonNil) {
			out = append(out, v.name)
		}
	}
	return out
}

// lit: a constant literal usable where a value of type ty is expected
// (untyped numeric constants for the numeric types).
func (g *c09sGen) lit(ty c09sTy) string {
	r := g.r
	switch ty {
	case c09sInt:
		return strconv.Itoa(r.rangeI(-9, 60))
	case c09sFloat:
		return pick(r, []string{"0.5", "1.5", "2.25", "3", "7", "10", "0.25", "12.75", "4", "9"})
	case c09sStr:
		return strconv.Quote(pick(r, []string{"a", "bc", "go", "xyz", "", "q r", "Zed"}))
	case c09sBool:
		return pick(r, []string{"true", "false"})
	case c09sU8:
		return pick(r, []string{"0", "1", "7", "100", "200", "255", "6", "31"})
	}
	return "nil"
}

// constExpr: an untyped constant EXPRESSION representable in ty.
func (g *c09sGen) constExpr(ty c09sTy) string {
	r := g.r
	g.feat["arg:const-expr"]++
	switch ty {
	case c09sInt:
		return pick(r, []string{"2 + 3", "4 * 5", "1 << 4", "17 / 3", "17 % 5", "-(2 + 1)", "'a'", "10 - 3*2", "(1 + 2) * 3"})
	case c09sFloat:
		return pick(r, []string{"2 + 1", "7 / 2", "1 << 2", "3 * 0.5", "10 / 4.0", "'a'", "1 + 0.25", "(3 + 2) * 5", "-5"})
	case c09sU8:
		return pick(r, []string{"200 + 55", "1 << 3", "300 - 50", "5 * 5", "'a'", "2 + 1", "255 - 0"})
	case c09sStr:
		return pick(r, []string{`"a" + "b"`, `"x" + "" + "y"`})
	case c09sBool:
		return pick(r, []string{"1 < 2", "2 == 3", "!true"})
	}
	return "nil"
}

// expr produces an expression of type ty (or an untyped constant convertible
// to ty) over the typed variables vars; d bounds the nesting of calls.
func (g *c09sGen) expr(ty c09sTy, vars []c09sVar, d int) string {
	r := g.r
	vs := c09sVarsOf(vars, ty, false)
	ptrs := c09sVarsOf(vars, c09sPtr, true)
	x := r.intn(12)
	if d < 1 && !g.inBody && x == 11 {
		if fs := g.singles[ty]; len(fs) > 0 {
			f := pick(r, fs)
			g.feat["form:nested-arg"]++
			return g.callExpr(f, "", vars, c09sModeMixed, r.intn(3), "", d+1)
		}
	}
	switch ty {
	case c09sInt:
		switch {
		case x < 3 && len(vs) > 0:
			return pick(r, vs)
		case x < 4 && len(vs) > 0:
			return pick(r, vs) + pick(r, []string{" + ", " - "}) + strconv.Itoa(r.rangeI(1, 20))
		case x < 6:
			return g.lit(ty)
		case x < 7:
			return g.constExpr(ty)
		case x < 10 && d < 2:
			g.feat["form:nested-arg"]++
			switch r.intn(6) {
			case 0:
				return "double(" + g.expr(ty, vars, d+1) + ")"
			case 1:
				return "triple(" + g.expr(ty, vars, d+1) + ")"
			case 2:
				return "addK(" + g.expr(ty, vars, d+1) + ")"
			case 3:
				return "tr(" + g.lbl() + ", " + g.expr(ty, vars, d+1) + ")"
			case 4:
				if len(ptrs) > 0 {
					return pick(r, ptrs) + ".Get(" + g.expr(ty, vars, d+1) + ")"
				}
				return "double(" + g.expr(ty, vars, d+1) + ")"
			default:
				if sl := c09sVarsOf(vars, c09sSlice, false); len(sl) > 0 {
					return "int(len(" + pick(r, sl) + "))"
				}
				return "triple(" + g.lit(ty) + ")"
			}
		}
		return g.lit(ty)
	case c09sFloat:
		switch {
		case x < 3 && len(vs) > 0:
			return pick(r, vs)
		case x < 4 && len(vs) > 0:
			return pick(r, vs) + " + " + pick(r, []string{"0.5", "1", "2.25"})
		case x < 6:
			return g.lit(ty)
		case x < 7:
			return g.constExpr(ty)
		case x < 10 && d < 2:
			g.feat["form:nested-arg"]++
			switch r.intn(3) {
			case 0:
				return "half(" + g.expr(ty, vars, d+1) + ")"
			case 1:
				return "trf(" + g.lbl() + ", " + g.expr(ty, vars, d+1) + ")"
			default:
				if iv := c09sVarsOf(vars, c09sInt, false); len(iv) > 0 {
					return "float64(" + pick(r, iv) + ")"
				}
				return "half(" + g.lit(ty) + ")"
			}
		}
		return g.lit(ty)
	case c09sStr:
		switch {
		case x < 3 && len(vs) > 0:
			return pick(r, vs)
		case x < 4 && len(vs) > 0:
			return pick(r, vs) + " + " + g.lit(ty)
		case x < 7:
			return g.lit(ty)
		case x < 10 && d < 2:
			g.feat["form:nested-arg"]++
			switch r.intn(3) {
			case 0:
				return "cat(" + g.expr(ty, vars, d+1) + ", " + g.expr(ty, vars, d+1) + ")"
			case 1:
				return "trs(" + g.lbl() + ", " + g.expr(ty, vars, d+1) + ")"
			default:
				if len(ptrs) > 0 {
					return pick(r, ptrs) + ".name"
				}
				return "cat(" + g.lit(ty) + ", " + g.lit(ty) + ")"
			}
		}
		return g.lit(ty)
	case c09sBool:
		switch {
		case x < 3 && len(vs) > 0:
			return pick(r, vs)
		case x < 4 && len(vs) > 0:
			return "!" + pick(r, vs)
		case x < 6:
			return g.lit(ty)
		case x < 8 && d < 2:
			return g.expr(c09sInt, vars, d+1) + pick(r, []string{" < ", " > ", " == ", " != "}) + g.expr(c09sInt, vars, d+1)
		case x < 10 && d < 2:
			g.feat["form:nested-arg"]++
			if r.chance(50) {
				return "isPos(" + g.expr(c09sInt, vars, d+1) + ")"
			}
			return "trb(" + g.lbl() + ", " + g.expr(ty, vars, d+1) + ")"
		}
		return g.lit(ty)
	case c09sU8:
		switch {
		case x < 3 && len(vs) > 0:
			return pick(r, vs)
		case x < 4 && len(vs) > 0:
			return pick(r, vs) + " + " + strconv.Itoa(r.rangeI(1, 200))
		case x < 6:
			return g.lit(ty)
		case x < 7:
			return g.constExpr(ty)
		case x < 9 && d < 2:
			g.feat["form:nested-arg"]++
			return "tru(" + g.lbl() + ", " + g.expr(ty, vars, d+1) + ")"
		}
		return g.lit(ty)
	case c09sSlice:
		switch {
		case x < 4 && len(vs) > 0:
			return pick(r, vs)
		case x < 5:
			g.feat["arg:nil->"+c09sTyTag[ty]]++
			return "nil"
		case x < 8:
			n := r.intn(4)
			var el []string
			for i := 0; i < n; i++ {
				el = append(el, g.expr(c09sInt, vars, d+2))
			}
			return "[]int{" + strings.Join(el, ", ") + "}"
		}
		return fmt.Sprintf("mkS(%d)", r.intn(5))
	case c09sMap:
		switch {
		case x < 4 && len(vs) > 0:
			return pick(r, vs)
		case x < 5:
			g.feat["arg:nil->"+c09sTyTag[ty]]++
			return "nil"
		case x < 8:
			return fmt.Sprintf("map[string]int{\"a\": %s, \"b\": %s}", g.expr(c09sInt, vars, d+2), g.expr(c09sInt, vars, d+2))
		}
		return "mkM(" + g.expr(c09sInt, vars, d+2) + ")"
	case c09sPtr:
		switch {
		case x < 4 && len(vs) > 0:
			return pick(r, vs)
		case x < 5:
			g.feat["arg:nil->"+c09sTyTag[ty]]++
			return "nil"
		case x < 8:
			return fmt.Sprintf("&T{x: %s, y: %s, name: %s}", g.expr(c09sInt, vars, d+2), g.expr(c09sInt, vars, d+2), g.expr(c09sStr, vars, d+2))
		case x < 9 && len(ptrs) > 0:
			return pick(r, ptrs) + ".Self()"
		}
		return "mkT(" + g.expr(c09sInt, vars, d+2) + ", " + g.expr(c09sStr, vars, d+2) + ")"
	case c09sFn:
		switch {
		case x < 3 && len(vs) > 0:
			return pick(r, vs)
		case x < 4:
			g.feat["arg:nil->"+c09sTyTag[ty]]++
			return "nil"
		case x < 7:
			g.feat["call:func-param"]++
			return pick(r, []string{"double", "triple", "addK"})
		case x < 8:
			g.feat["call:func-result"]++
			return fmt.Sprintf("getf(%d)", r.intn(4))
		case x < 10 && len(ptrs) > 0:
			g.feat["call:method-value-as-arg"]++
			return pick(r, ptrs) + pick(r, []string{".Add", ".Get", ".Scale"})
		}
		g.feat["call:func-literal"]++
		return fmt.Sprintf("func(x int) int { return x%s%d }", pick(r, []string{" + ", " - ", "*"}), r.rangeI(1, 9))
	}
	return "nil"
}

// showVars prints variables in a way that reveals their dynamic type.
func (g *c09sGen) showVars(ind int, label string, vars []c09sVar) {
	var scal []string
	for _, v := range vars {
		switch v.ty {
		case c09sInt:
			scal = append(scal, v.name, v.name+"*1000000")
		case c09sFloat:
			scal = append(scal, v.name, v.name+"/2")
		case c09sStr:
			scal = append(scal, v.name+"+\"!\"", "len("+v.name+")")
		case c09sBool:
			scal = append(scal, v.name, "!"+v.name)
		case c09sU8:
			scal = append(scal, v.name, v.name+"+250")
		}
	}
	if len(scal) > 0 {
		g.line(ind, "fmt.Println(\"%s\", %s)", label, strings.Join(scal, ", "))
	}
	for _, v := range vars {
		l := fmt.Sprintf("\"%s.%s\"", label, v.name)
		switch v.ty {
		case c09sSlice:
			g.line(ind, "showS(%s, %s)", l, v.name)
		case c09sMap:
			g.line(ind, "showM(%s, %s)", l, v.name)
		case c09sPtr:
			g.line(ind, "showT(%s, %s)", l, v.name)
		case c09sFn:
			g.line(ind, "showF(%s, %s)", l, v.name)
		case c09sSliceS:
			g.line(ind, "for i := 0; i < int(len(%s)); i++ {", v.name)
			g.line(ind+1, "fmt.Println(%s, i, %s[i]+\"!\")", l, v.name)
			g.line(ind, "}")
		case c09sSliceF:
			g.line(ind, "for i := 0; i < int(len(%s)); i++ {", v.name)
			g.line(ind+1, "fmt.Println(%s, i, %s[i], %s[i]/2)", l, v.name, v.name)
			g.line(ind, "}")
		}
	}
}

// reveal wraps a single call expression so that one printed value shows its type.
func c09sReveal(ty c09sTy, e string) string {
	switch ty {
	case c09sInt:
		return e + " * 1000000"
	case c09sFloat:
		return e + " / 2"
	case c09sStr:
		return e + " + \"!\""
	case c09sBool:
		return "!" + e
	case c09sU8:
		return e + " + 250"
	case c09sSlice, c09sMap:
		return "len(" + e + ")"
	}
	return e + " == nil"
}

func c09sCond(ty c09sTy, e string) string {
	switch ty {
	case c09sInt:
		return e + " > 5"
	case c09sFloat:
		return e + " > 1.5"
	case c09sStr:
		return e + " != \"\""
	case c09sBool:
		return e
	case c09sU8:
		return e + " > 100"
	case c09sSlice:
		return "len(" + e + ") > 1"
	case c09sMap:
		return "len(" + e + ") > 0"
	}
	return e + " != nil"
}

// ---- call expressions ----

const (
	c09sModeMixed  = iota
	c09sModeConst  // untyped constants for every numeric/string/bool parameter
	c09sModeNil    // nil for every nilable parameter
	c09sModeTraced // scalars wrapped in tracer calls (evaluation order)
)

func (g *c09sGen) arg(ty c09sTy, vars []c09sVar, mode, d int) string {
	r := g.r
	switch mode {
	case c09sModeConst:
		if !ty.nilable() {
			if ty == c09sFloat || ty == c09sU8 {
				g.feat["arg:untyped-const->"+c09sTyTag[ty]]++
			}
			if r.chance(45) {
				return g.constExpr(ty)
			}
			return g.lit(ty)
		}
	case c09sModeNil:
		if ty.nilable() {
			g.feat["arg:nil->"+c09sTyTag[ty]]++
			return "nil"
		}
	case c09sModeTraced:
		switch ty {
		case c09sInt:
			return "tr(" + g.lbl() + ", " + g.expr(ty, vars, 1) + ")"
		case c09sFloat:
			return "trf(" + g.lbl() + ", " + g.expr(ty, vars, 1) + ")"
		case c09sStr:
			return "trs(" + g.lbl() + ", " + g.expr(ty, vars, 1) + ")"
		case c09sBool:
			return "trb(" + g.lbl() + ", " + g.expr(ty, vars, 1) + ")"
		case c09sU8:
			return "tru(" + g.lbl() + ", " + g.expr(ty, vars, 1) + ")"
		}
	}
	return g.expr(ty, vars, d)
}

// callExpr builds  callee(args...)  for f.  callee "" means the function's own
// name (methods then need recvVar).  extras: number of variadic extras, or -1
// for a spread of spreadExpr.
func (g *c09sGen) callExpr(f *c09sFunc, callee string, vars []c09sVar, mode, extras int, spreadExpr string, d int) string {
	if callee == "" {
		callee = f.name
		if f.recv {
			ptrs := c09sVarsOf(vars, c09sPtr, true)
			callee = pick(g.r, ptrs) + "." + f.name
			g.feat["call:method"]++
		}
	}
	var args []string
	for _, p := range f.params {
		args = append(args, g.arg(p.ty, vars, mode, d))
	}
	if f.vari >= 0 {
		if extras < 0 {
			args = append(args, spreadExpr+"...")
			if spreadExpr == "nil" {
				g.feat["variadic:spread-nil"]++
			} else {
				g.feat["variadic:spread"]++
			}
		} else {
			for i := 0; i < extras; i++ {
				if f.vari == c09sFloat && mode != c09sModeTraced {
					g.feat["variadic:untyped-extras-float"]++
					args = append(args, pick(g.r, []string{"1", "2", "3", "5", "2 + 1", "0.5", "7", "1 << 2"}))
				} else {
					args = append(args, g.arg(f.vari, vars, mode, d))
				}
			}
			switch {
			case extras == 0:
				g.feat["variadic:extras=0"]++
			case extras == 1:
				g.feat["variadic:extras=1"]++
			default:
				g.feat["variadic:extras=many"]++
			}
		}
	}
	g.feat["callsites"]++
	return callee + "(" + strings.Join(args, ", ") + ")"
}

func (g *c09sGen) randExtras(f *c09sFunc) int {
	if f.vari < 0 {
		return 0
	}
	return pick(g.r, []int{0, 1, 1, 2, 3, 5, 12, 20})
}

const (
	c09sFormStmt = iota
	c09sFormDecl
	c09sFormAssign
	c09sFormBlank
	c09sFormExpr
	c09sFormCond
	c09sFormNested
	c09sNForms
)

// site emits one call site of f in the given form.  mk builds the call
// expression (called once per call emitted).
func (g *c09sGen) site(ind int, f *c09sFunc, form int, mk func() string) {
	nres := len(f.res)
	if nres == 0 {
		form = c09sFormStmt
	}
	if nres > 1 && form >= c09sFormExpr {
		form = c09sFormDecl + g.r.intn(3)
	}
	if nres == 1 && form == c09sFormBlank {
		form = c09sFormExpr
	}
	switch form {
	case c09sFormStmt:
		g.feat["form:stmt"]++
		g.line(ind, "%s", mk())
	case c09sFormDecl, c09sFormAssign:
		var rv []c09sVar
		var names []string
		for _, t := range f.res {
			n := g.fresh("r")
			rv = append(rv, c09sVar{name: n, ty: t})
			names = append(names, n)
		}
		g.feat["form:decl"]++
		g.feat[fmt.Sprintf("form:results=%d", nres)]++
		if g.r.chance(35) {
			// the var form of the same declaration: `var a, b = f()` asks the call for len(names) results too
			g.feat["form:var-decl"]++
			g.line(ind, "var %s = %s", strings.Join(names, ", "), mk())
		} else {
			g.line(ind, "%s := %s", strings.Join(names, ", "), mk())
		}
		g.showVars(ind, "="+f.name, rv)
		if form == c09sFormAssign {
			g.feat["form:assign"]++
			g.line(ind, "%s = %s", strings.Join(names, ", "), mk())
			g.showVars(ind, "="+f.name, rv)
		}
	case c09sFormBlank:
		keep := g.r.intn(nres)
		var names []string
		var rv []c09sVar
		for i, t := range f.res {
			if i == keep {
				n := g.fresh("r")
				names = append(names, n)
				rv = append(rv, c09sVar{name: n, ty: t})
			} else {
				names = append(names, "_")
			}
		}
		g.feat["form:blank"]++
		g.line(ind, "%s := %s", strings.Join(names, ", "), mk())
		g.showVars(ind, "="+f.name, rv)
		keep2 := g.r.intn(nres)
		if keep2 == keep {
			g.line(ind, "%s = %s", strings.Join(names, ", "), mk())
			g.showVars(ind, "="+f.name, rv)
		}
	case c09sFormExpr:
		g.feat["form:expr"]++
		t := f.res[0]
		switch t {
		case c09sSlice:
			g.line(ind, "showS(%s, %s)", g.lbl(), mk())
		case c09sMap:
			g.line(ind, "showM(%s, %s)", g.lbl(), mk())
		case c09sPtr:
			g.line(ind, "showT(%s, %s)", g.lbl(), mk())
		case c09sFn:
			g.line(ind, "showF(%s, %s)", g.lbl(), mk())
		default:
			g.line(ind, "fmt.Println(%s, %s)", g.lbl(), c09sReveal(t, mk()))
		}
	case c09sFormCond:
		g.feat["form:cond"]++
		l := g.lbl()
		g.line(ind, "if %s {", c09sCond(f.res[0], mk()))
		g.line(ind+1, "fmt.Println(%s, \"yes\")", l)
		g.line(ind, "} else {")
		g.line(ind+1, "fmt.Println(%s, \"no\")", l)
		g.line(ind, "}")
	case c09sFormNested:
		g.feat["form:nested-arg"]++
		t := f.res[0]
		c := mk()
		switch t {
		case c09sInt:
			g.line(ind, "fmt.Println(%s, %s(%s))", g.lbl(), pick(g.r, []string{"double", "triple", "addK"}), c)
		case c09sFloat:
			g.line(ind, "fmt.Println(%s, half(%s))", g.lbl(), c)
		case c09sStr:
			g.line(ind, "fmt.Println(%s, cat(%s, \"z\"))", g.lbl(), c)
		case c09sBool:
			g.line(ind, "fmt.Println(%s, trb(%s, %s))", g.lbl(), g.lbl(), c)
		case c09sU8:
			g.line(ind, "fmt.Println(%s, tru(%s, %s)+250)", g.lbl(), g.lbl(), c)
		case c09sSlice:
			g.line(ind, "showS(%s, %s)", g.lbl(), c)
		case c09sMap:
			g.line(ind, "showM(%s, %s)", g.lbl(), c)
		case c09sPtr:
			g.line(ind, "showT(%s, %s)", g.lbl(), c)
		case c09sFn:
			g.line(ind, "fmt.Println(%s, apply(%s, 6))", g.lbl(), c)
		}
	}
}

// localVars declares one or two variables of every type at the top of a section.
func (g *c09sGen) localVars(ind int) []c09sVar {
	r := g.r
	var vars []c09sVar
	decl := func(ty c09sTy, init string, nonNil bool) {
		n := g.fresh("v")
		g.line(ind, "var %s %s = %s", n, c09sTyName[ty], init)
		g.line(ind, "_ = %s", n)
		vars = append(vars, c09sVar{name: n, ty: ty, nonNil: nonNil})
	}
	decl(c09sInt, strconv.Itoa(r.rangeI(1, 40)), true)
	decl(c09sInt, strconv.Itoa(r.rangeI(-5, 90)), true)
	decl(c09sFloat, pick(r, []string{"2.5", "0.75", "6", "11.25"}), true)
	decl(c09sStr, strconv.Quote(pick(r, []string{"ab", "k", "hey"})), true)
	decl(c09sBool, pick(r, []string{"true", "false"}), true)
	decl(c09sU8, strconv.Itoa(r.rangeI(0, 255)), true)
	decl(c09sSlice, fmt.Sprintf("[]int{%d, %d, %d}", r.intn(9), r.intn(9), r.intn(9)), true)
	decl(c09sMap, fmt.Sprintf("map[string]int{\"a\": %d, \"b\": %d}", r.intn(9), r.intn(9)), true)
	decl(c09sPtr, fmt.Sprintf("&T{x: %d, y: %d, name: %q}", r.intn(9), r.intn(9), pick(r, []string{"tt", "u"})), true)
	decl(c09sPtr, fmt.Sprintf("mkT(%d, %q)", r.intn(20), pick(r, []string{"w", "vv"})), true)
	decl(c09sFn, pick(r, []string{"double", "triple", "addK"}), true)
	return vars
}

// ---- random functions ----

func (g *c09sGen) randTys(n int, pool []c09sTy) []c09sTy {
	var out []c09sTy
	if n >= 2 && g.r.chance(25) {
		// a run of identical types makes permutation errors visible
		t := pick(g.r, pool)
		for i := 0; i < n; i++ {
			out = append(out, t)
		}
		return out
	}
	for i := 0; i < n; i++ {
		out = append(out, pick(g.r, pool))
	}
	return out
}

func (g *c09sGen) newFunc(name string, recv bool, ptys []c09sTy, vari c09sTy, res []c09sTy) *c09sFunc {
	f := &c09sFunc{name: name, recv: recv, vari: vari, res: res}
	for i, t := range ptys {
		f.params = append(f.params, c09sVar{name: fmt.Sprintf("p%d", i), ty: t})
	}
	g.feat[fmt.Sprintf("func:params=%d", len(ptys))]++
	g.feat[fmt.Sprintf("func:results=%d", len(res))]++
	for _, t := range ptys {
		g.feat["param:"+c09sTyTag[t]]++
	}
	for _, t := range res {
		g.feat["result:"+c09sTyTag[t]]++
	}
	if vari >= 0 {
		g.feat["variadic-tail:"+c09sTyTag[vari]]++
	}
	if recv {
		g.feat["func:method"]++
	} else {
		g.feat["func:function"]++
	}
	return f
}

func (f *c09sFunc) header() string {
	var ps []string
	for _, p := range f.params {
		ps = append(ps, p.name+" "+c09sTyName[p.ty])
	}
	if f.vari >= 0 {
		ps = append(ps, "xs ..."+c09sTyName[f.vari])
	}
	var rs []string
	for _, t := range f.res {
		rs = append(rs, c09sTyName[t])
	}
	res := ""
	if len(rs) == 1 {
		res = " " + rs[0]
	} else if len(rs) > 1 {
		res = " (" + strings.Join(rs, ", ") + ")"
	}
	rc := ""
	if f.recv {
		rc = "(t *T) "
	}
	return fmt.Sprintf("func %s%s(%s)%s", rc, f.name, strings.Join(ps, ", "), res)
}

// retExpr: a value for a declared result type computed inside a callee.
func (g *c09sGen) retExpr(ty c09sTy, vars []c09sVar) string {
	r := g.r
	vs := c09sVarsOf(vars, ty, false)
	x := r.intn(10)
	if ty.nilable() {
		switch {
		case x < 5 && len(vs) > 0:
			return pick(r, vs)
		case x < 7:
			g.feat["ret:nil->"+c09sTyTag[ty]]++
			return "nil"
		}
		switch ty {
		case c09sSlice:
			return fmt.Sprintf("mkS(%d)", r.intn(4))
		case c09sMap:
			return fmt.Sprintf("mkM(%d)", r.intn(9))
		case c09sPtr:
			return fmt.Sprintf("&T{x: %d, name: \"ret\"}", r.intn(50))
		}
		return pick(r, []string{"double", "triple", "addK"})
	}
	switch {
	case x < 4 && len(vs) > 0:
		return pick(r, vs)
	case x < 6 && ty.numeric():
		g.feat["ret:untyped-const->"+c09sTyTag[ty]]++
		if r.chance(40) {
			return g.constExpr(ty)
		}
		return g.lit(ty)
	}
	return g.expr(ty, vars, 1)
}

func (g *c09sGen) emitFunc(f *c09sFunc) {
	r := g.r
	g.inBody = true
	defer func() { g.inBody = false }()
	g.line(0, "%s {", f.header())
	vars := append([]c09sVar{}, f.params...)
	g.showVars(1, f.name, f.params)
	if f.vari >= 0 {
		g.line(1, "fmt.Println(\"%s.xs\", len(xs), xs == nil)", f.name)
		switch f.vari {
		case c09sInt:
			g.line(1, "showV(\"%s.xs\", xs)", f.name)
			g.line(1, "if len(xs) > 0 {")
			g.line(2, "fmt.Println(\"%s.xs0\", xs[0]*1000000)", f.name)
			g.line(2, "xs[0] = %d", r.rangeI(70, 99))
			g.line(1, "}")
		case c09sStr:
			g.showVars(1, f.name, []c09sVar{{name: "xs", ty: c09sSliceS}})
			g.line(1, "if len(xs) > 0 {")
			g.line(2, "xs[0] = \"M%d\"", r.intn(9))
			g.line(1, "}")
		case c09sFloat:
			g.showVars(1, f.name, []c09sVar{{name: "xs", ty: c09sSliceF}})
			g.line(1, "if len(xs) > 0 {")
			g.line(2, "xs[0] = %d", r.rangeI(70, 99))
			g.line(1, "}")
		}
	}
	if f.recv {
		g.line(1, "fmt.Println(\"%s.t\", t.x, t.y, t.name)", f.name)
		vars = append(vars, c09sVar{name: "t", ty: c09sPtr, nonNil: true}, c09sVar{name: "t.x", ty: c09sInt}, c09sVar{name: "t.name", ty: c09sStr})
		switch r.intn(3) {
		case 0:
			g.line(1, "t.x += %d", r.rangeI(1, 9))
		case 1:
			g.line(1, "t.y = t.x + %d", r.rangeI(1, 9))
		}
	}
	// parameters are ordinary typed variables: assigning an untyped constant converts it
	for _, p := range f.params {
		if (p.ty == c09sFloat || p.ty == c09sU8 || p.ty == c09sInt) && r.chance(25) {
			g.line(1, "%s = %s", p.name, g.lit(p.ty))
			g.line(1, "fmt.Println(\"%s.re\", %s)", f.name, c09sReveal(p.ty, p.name))
			g.feat["callee:param-reassigned"]++
		}
	}
	// visible mutation through reference parameters
	for _, p := range f.params {
		if !r.chance(50) {
			continue
		}
		switch p.ty {
		case c09sSlice:
			g.line(1, "if len(%s) > 0 {", p.name)
			g.line(2, "%s[0] = %d", p.name, r.rangeI(40, 60))
			g.line(1, "}")
		case c09sMap:
			g.line(1, "if %s != nil {", p.name)
			g.line(2, "%s[\"k\"] = %d", p.name, r.rangeI(40, 60))
			g.line(1, "}")
		case c09sPtr:
			g.line(1, "if %s != nil {", p.name)
			g.line(2, "%s.y += %d", p.name, r.rangeI(1, 9))
			g.line(1, "}")
		}
	}
	rets := func() string {
		var es []string
		for _, t := range f.res {
			es = append(es, g.retExpr(t, vars))
		}
		if len(es) == 0 {
			return "return"
		}
		return "return " + strings.Join(es, ", ")
	}
	if r.chance(45) {
		if iv := c09sVarsOf(f.params, c09sInt, false); len(iv) > 0 {
			g.line(1, "if %s > %d {", pick(r, iv), r.rangeI(0, 30))
			g.line(2, "%s", rets())
			g.line(1, "}")
		} else if bv := c09sVarsOf(f.params, c09sBool, false); len(bv) > 0 {
			g.line(1, "if %s {", pick(r, bv))
			g.line(2, "%s", rets())
			g.line(1, "}")
		}
	}
	if len(f.res) > 0 || r.chance(30) {
		g.line(1, "%s", rets())
	}
	g.line(0, "}")
	g.line(0, "")
}

// emitWrapper: same signature, forwards every argument and every result.
func (g *c09sGen) emitWrapper(w, f *c09sFunc) {
	var as []string
	for _, p := range f.params {
		as = append(as, p.name)
	}
	if f.vari >= 0 {
		as = append(as, "xs...")
	}
	callee := f.name
	if f.recv {
		callee = "t." + f.name
	}
	g.line(0, "%s {", w.header())
	g.line(1, "fmt.Println(\"%s forwards\")", w.name)
	if len(f.res) == 0 {
		g.line(1, "%s(%s)", callee, strings.Join(as, ", "))
	} else {
		g.line(1, "return %s(%s)", callee, strings.Join(as, ", "))
	}
	g.line(0, "}")
	g.line(0, "")
	g.feat["form:return-forward"]++
}

// ---- fixed declarations (with per-program constants) ----

func (g *c09sGen) prelude() {
	g.kAdd = g.r.rangeI(3, 19)
	g.sb.WriteString(`package main

import "fmt"

type T struct {
	x    int
	y    int
	name string
}

type U struct {
	w   float64
	tag string
}

type H struct {
	cb func(int) int
	t  *T
	n  int
}

var gf func(int) int = double

func double(x int) int { return x * 2 }
func triple(x int) int { return x * 3 }
func addK(x int) int   { return x + ` + strconv.Itoa(g.kAdd) + ` }
func half(f float64) float64 { return f / 2 }
func isPos(x int) bool       { return x > 0 }
func cat(a string, b string) string { return a + b }

func mkS(n int) []int {
	var s []int
	for i := 0; i < n; i++ {
		s = append(s, i*i+1)
	}
	return s
}

func mkM(n int) map[string]int {
	m := map[string]int{}
	m["a"] = n
	m["b"] = n + 1
	return m
}

func mkT(x int, name string) *T { return &T{x: x, y: x + 1, name: name} }

func tr(l string, v int) int {
	fmt.Println("tr", l, v)
	return v
}

func trf(l string, v float64) float64 {
	fmt.Println("trf", l, v)
	return v
}

func trs(l string, v string) string {
	fmt.Println("trs", l, v)
	return v
}

func trb(l string, v bool) bool {
	fmt.Println("trb", l, v)
	return v
}

func tru(l string, v uint8) uint8 {
	fmt.Println("tru", l, v)
	return v
}

func showS(l string, s []int) {
	if s == nil {
		fmt.Println(l, "nil-slice")
		return
	}
	c := 0
	for i := 0; i < int(len(s)); i++ {
		c = c*31 + s[i]
	}
	fmt.Println(l, len(s), c)
}

// showV shows a variadic parameter: nil (no surplus argument, or a nil slice spread) is told apart
// from an empty non-nil slice (see also section variadic-zero-nil)
func showV(l string, s []int) {
	if s == nil {
		fmt.Println(l, "nil-slice")
		return
	}
	c := 0
	for i := 0; i < int(len(s)); i++ {
		c = c*31 + s[i]
	}
	fmt.Println(l, len(s), c)
}

func showM(l string, m map[string]int) {
	if m == nil {
		fmt.Println(l, "nil-map")
		return
	}
	fmt.Println(l, len(m), m["a"], m["b"], m["k"], m["zz"])
}

func showT(l string, t *T) {
	if t == nil {
		fmt.Println(l, "nil-T")
		return
	}
	fmt.Println(l, t.x, t.y, t.name)
}

func showF(l string, f func(int) int) {
	if f == nil {
		fmt.Println(l, "nil-func")
		return
	}
	fmt.Println(l, f(7))
}

func (t *T) Add(n int) int {
	t.x += n
	return t.x
}

func (t *T) Get(k int) int { return t.x + k }

func (u *U) Get(k float64) float64 { return u.w + k/2 }

func (t *T) Scale(k int) int { return t.x*k + t.y }

func (t *T) Self() *T { return t }

func (t *T) IsNil() bool { return t == nil }

func (t *T) Sum(base int, xs ...int) int {
	s := base + t.x
	for _, v := range xs {
		s += v
	}
	return s
}

func (t *T) Join(sep string, xs ...string) string {
	r := t.name
	for _, s := range xs {
		r += sep + s
	}
	return r
}

func apply(f func(int) int, x int) int {
	if f == nil {
		return -1
	}
	return f(x)
}

func apply2(f func(int) int, h func(int) int, x int) int { return h(f(x)) }

func getf(k int) func(int) int {
	if k == 0 {
		return double
	}
	if k == 1 {
		return triple
	}
	if k == 2 {
		return func(x int) int { return x + 100 }
	}
	return nil
}

func isNilV(xs ...int) bool { return xs == nil }

var gt *T = &T{x: 100, name: "global"}

func vsum(xs ...int) int {
	s := 0
	for _, v := range xs {
		s += v
	}
	return s
}

func vfsum(xs ...float64) float64 {
	var s float64 = 0
	for _, v := range xs {
		s += v / 2
	}
	return s
}

func find(xs []int, k int) (int, bool) {
	for i, v := range xs {
		if v == k {
			return int(i), true
		}
	}
	return -1, false
}

func find2(xs []int, k int) (int, string) {
	for _, a := range xs {
		for _, b := range xs {
			switch {
			case a+b == k:
				return a*10 + b, "hit"
			}
		}
	}
	return 0, "miss"
}

func walk(n int) int {
	s := 0
	for _, v := range []int{1, 2, 3} {
		if n > 0 {
			s += walk(n-1) + v
		}
	}
	return s + 1
}

`)
}

// ---- recursion templates ----

type c09sRec struct {
	depthLin, depthAcc, depthMut, depthMut3, depthLoc, depthMeth, depthFn, depthVar, depthSpread int
	fibN, fibT, mulK                                                                             int
}

func (g *c09sGen) recursionDecls() c09sRec {
	r := g.r
	rc := c09sRec{
		depthLin: r.rangeI(2000, 5000), depthAcc: r.rangeI(2000, 5000), depthMut: r.rangeI(1000, 3000),
		depthMut3: r.rangeI(900, 2400), depthLoc: r.rangeI(50, 300), depthMeth: r.rangeI(500, 2000),
		depthFn: r.rangeI(500, 1500), depthVar: r.rangeI(50, 200), depthSpread: r.rangeI(100, 1000),
		fibN: r.rangeI(20, 44), fibT: r.rangeI(10, 17), mulK: r.rangeI(2, 9),
	}
	g.sb.WriteString(fmt.Sprintf(`func rsum(n int) int {
	if n == 0 {
		return 0
	}
	return n%%%d + rsum(n-1)
}

func rsumAcc(n int, acc int) int {
	if n == 0 {
		return acc
	}
	return rsumAcc(n-1, acc+n)
}

func isEven(n int) bool {
	if n == 0 {
		return true
	}
	return isOdd(n - 1)
}

func isOdd(n int) bool {
	if n == 0 {
		return false
	}
	return isEven(n - 1)
}

func mA(n int, c int) (int, string) {
	if n <= 0 {
		return c, "A"
	}
	return mB(n-1, c+1)
}

func mB(n int, c int) (int, string) {
	if n <= 0 {
		return c, "B"
	}
	return mC(n-1, c+2)
}

func mC(n int, c int) (int, string) {
	if n <= 0 {
		return c, "C"
	}
	return mA(n-1, c+3)
}

func fib2(n int) (int, int) {
	if n == 0 {
		return 0, 1
	}
	a, b := fib2(n - 1)
	return b, a + b
}

func minmax(n int, s []int) (int, int, float64) {
	if n == 0 {
		return s[0], s[0], 0.5
	}
	lo, hi, f := minmax(n-1, s)
	v := s[n]
	if v < lo {
		lo = v
	}
	if v > hi {
		hi = v
	}
	return lo, hi, f + 0.25
}

func fibt(n int) int {
	if n < 2 {
		return n
	}
	return fibt(n-1) + fibt(n-2)
}

func ack(m int, n int) int {
	if m == 0 {
		return n + 1
	}
	if n == 0 {
		return ack(m-1, 1)
	}
	return ack(m-1, ack(m, n-1))
}

func (t *T) down(n int) int {
	if n == 0 {
		return t.x
	}
	t.x += 1
	return t.down(n-1) + %d
}

func viaf(f func(int) int, n int) int {
	if n == 0 {
		return f(0)
	}
	return viaf(f, n-1) + f(n)%%1000
}

func viah(h *H, n int) int {
	if n == 0 {
		return h.n
	}
	return h.cb(n)%%100 + viah(h, n-1)
}

func rvar(n int, xs ...int) int {
	if n == 0 {
		return int(len(xs))
	}
	s := 0
	for _, v := range xs {
		s += v
	}
	return s%%1000 + rvar(n-1, n, n*2, s%%7)
}

func rspread(n int, xs ...int) int {
	if n == 0 {
		return xs[0]
	}
	xs[0] += n %% 10
	return rspread(n-1, xs...)
}

`, r.rangeI(7, 5000), rc.mulK))
	// recursion with several live locals per frame
	type loc struct{ decl, use string }
	all := []loc{
		{fmt.Sprintf("a := n*%d + 1", r.rangeI(2, 9)), "k += a"},
		{"b := float64(n) / 2", "if b > 10 {\n\t\tk += 2\n\t}\n\tf2 += b / 2"},
		{"c := tag + \"x\"", "k += int(len(c))"},
		{fmt.Sprintf("var d uint8 = uint8(n%%200) + %d", r.rangeI(100, 250)), "k += int(d)"},
		{"e := n%2 == 0", "if e {\n\t\tk += 1\n\t}"},
		{"s := []int{n, n + 1}", "k += s[0] + s[1]"},
		{"m := map[string]int{\"n\": n}", "k += m[\"n\"]"},
		{"p := &T{x: n, name: tag}", "k += p.x + int(len(p.name))"},
	}
	// choose 3..5 distinct locals, keep their relative order random
	nl := r.rangeI(3, 5)
	var chosen []loc
	for len(chosen) < nl {
		i := r.intn(len(all))
		chosen = append(chosen, all[i])
		all = append(all[:i], all[i+1:]...)
	}
	g.feat[fmt.Sprintf("recursion:locals=%d", nl)]++
	g.line(0, "func rloc(n int, acc float64, tag string) (int, float64) {")
	g.line(1, "if n == 0 {")
	g.line(2, "return 1, acc")
	g.line(1, "}")
	for _, l := range chosen {
		g.line(1, "%s", l.decl)
	}
	g.line(1, "k, f2 := rloc(n-1, acc+0.5, tag)")
	for i := len(chosen) - 1; i >= 0; i-- {
		g.line(1, "%s", chosen[i].use)
	}
	g.line(1, "return k %% 100003, f2")
	g.line(0, "}")
	g.line(0, "")
	return rc
}

func (g *c09sGen) secRecursion(kind string, rc c09sRec) {
	r := g.r
	g.feat["recursion:"+kind]++
	switch kind {
	case "recursion-linear":
		g.line(1, "fmt.Println(rsum(%d), rsumAcc(%d, %d))", rc.depthLin, rc.depthAcc, r.intn(50))
		g.line(1, "fmt.Println(rsum(%d)+rsum(%d), rsumAcc(rsum(%d), 1))", r.rangeI(10, 500), r.rangeI(10, 500), r.rangeI(5, 60))
		g.feat["callsites"] += 5
	case "recursion-mutual":
		g.line(1, "fmt.Println(isEven(%d), isOdd(%d), isEven(%d))", rc.depthMut, rc.depthMut-r.intn(2), r.rangeI(1, 99))
		g.line(1, "c, w := mA(%d, 0)", rc.depthMut3)
		g.line(1, "fmt.Println(c, w)")
		g.line(1, "c, w = mB(%d, %d)", r.rangeI(1, 50), r.intn(9))
		g.line(1, "fmt.Println(c, w)")
		g.feat["callsites"] += 5
	case "recursion-locals":
		g.line(1, "k, f := rloc(%d, %s, %q)", rc.depthLoc, pick(r, []string{"0", "1.5", "0.25"}), pick(r, []string{"ab", "q", "xyz"}))
		g.line(1, "fmt.Println(k, f, f/2)")
		g.line(1, "k, _ = rloc(%d, 1, \"z\")", r.rangeI(3, 40))
		g.line(1, "fmt.Println(k, walk(%d))", r.rangeI(2, 6))
		g.feat["recursion:inside-range-loop"]++
		g.feat["callsites"] += 3
	case "recursion-multi":
		g.line(1, "a, b := fib2(%d)", rc.fibN)
		g.line(1, "fmt.Println(a, b)")
		g.line(1, "x, _ := fib2(%d)", r.rangeI(3, 30))
		g.line(1, "_, y := fib2(%d)", r.rangeI(3, 30))
		g.line(1, "fmt.Println(x, y)")
		n := r.rangeI(3, 9)
		var el []string
		for i := 0; i < n; i++ {
			el = append(el, strconv.Itoa(r.rangeI(-50, 50)))
		}
		g.line(1, "lo, hi, fl := minmax(%d, []int{%s})", n-1, strings.Join(el, ", "))
		g.line(1, "fmt.Println(lo, hi, fl, fl/2)")
		g.line(1, "fmt.Println(fibt(%d), ack(2, %d))", rc.fibT, r.rangeI(1, 4))
		g.feat["callsites"] += 6
	case "recursion-method":
		g.line(1, "t := &T{x: %d, name: \"rec\"}", r.intn(20))
		g.line(1, "fmt.Println(t.down(%d), t.x)", rc.depthMeth)
		g.line(1, "dn := t.down")
		g.line(1, "t.x = %d", r.intn(9))
		g.line(1, "fmt.Println(dn(%d), t.x)", r.rangeI(5, 300))
		g.feat["callsites"] += 2
		g.feat["call:method-value"]++
	case "recursion-funcparam":
		g.line(1, "t := &T{x: %d, name: \"vf\"}", r.intn(20))
		g.line(1, "fmt.Println(viaf(%s, %d))", pick(r, []string{"double", "triple", "addK"}), rc.depthFn)
		g.line(1, "fmt.Println(viaf(t.Add, %d), t.x)", r.rangeI(5, 60))
		g.line(1, "fmt.Println(viaf(func(x int) int { return x + %d }, %d))", r.intn(9), r.rangeI(5, 400))
		g.line(1, "h := &H{cb: %s, n: %d}", pick(r, []string{"double", "triple", "t.Get"}), r.intn(9))
		g.line(1, "fmt.Println(viah(h, %d))", r.rangeI(50, 800))
		g.feat["callsites"] += 4
		g.feat["call:struct-field-func"]++
	case "recursion-variadic":
		g.line(1, "fmt.Println(rvar(%d), rvar(%d, 1, 2), rspread(%d, 1, 2))", rc.depthVar, r.rangeI(5, 60), rc.depthSpread)
		g.line(1, "s := []int{%d, %d}", r.intn(9), r.intn(9))
		g.line(1, "fmt.Println(rspread(%d, s...), s[0])", r.rangeI(5, 300))
		g.feat["callsites"] += 4
		g.feat["variadic:spread-alias-check"]++
	}
}

// ---- sections built from the random functions ----

func (g *c09sGen) refVars(vars []c09sVar) []c09sVar {
	var out []c09sVar
	for _, v := range vars {
		if v.ty == c09sSlice || v.ty == c09sMap || v.ty == c09sPtr {
			out = append(out, v)
		}
	}
	return out
}

func (g *c09sGen) secCalls(fns []*c09sFunc, modes []int, lo, hi int) {
	r := g.r
	vars := g.localVars(1)
	n := r.rangeI(lo, hi)
	for i := 0; i < n; i++ {
		f := fns[i%len(fns)]
		if i >= len(fns) {
			f = pick(r, fns)
		}
		mode := pick(r, modes)
		g.site(1, f, r.intn(c09sNForms), func() string {
			return g.callExpr(f, "", vars, mode, g.randExtras(f), "", 0)
		})
	}
	g.showVars(1, "end", g.refVars(vars))
}

// multiResultExtras: results delivered to fields, elements, if-initialisers;
// returns from inside loops; discarded results must not leak.
func (g *c09sGen) multiResultExtras(fns []*c09sFunc) {
	r := g.r
	g.line(1, "xt := &T{x: 1, y: 2, name: \"xt\"}")
	g.line(1, "xu := &U{w: 0.5, tag: \"xu\"}")
	g.line(1, "xs := []int{0, 0, 0}")
	g.line(1, "xm := map[string]int{}")
	g.line(1, "var xb bool")
	g.line(1, "var x8 uint8")
	for _, f := range fns {
		var tg []string
		for i, t := range f.res {
			switch t {
			case c09sInt:
				tg = append(tg, pick(r, []string{"xt.x", "xt.y", fmt.Sprintf("xs[%d]", i), fmt.Sprintf("xm[\"r%d\"]", i)}))
			case c09sFloat:
				tg = append(tg, "xu.w")
			case c09sStr:
				tg = append(tg, pick(r, []string{"xt.name", "xu.tag"}))
			case c09sBool:
				tg = append(tg, "xb")
			case c09sU8:
				tg = append(tg, "x8")
			}
		}
		// no target twice in one assignment (order of assignment is then irrelevant)
		seen := map[string]bool{}
		for i := range tg {
			if seen[tg[i]] {
				tg[i] = "_"
			}
			seen[tg[i]] = true
		}
		vars := []c09sVar{{name: "xt.x", ty: c09sInt}, {name: "xu.w", ty: c09sFloat}, {name: "xt.name", ty: c09sStr}, {name: "xb", ty: c09sBool}, {name: "x8", ty: c09sU8}}
		g.line(1, "%s = %s", strings.Join(tg, ", "), g.callExpr(f, "", vars, c09sModeMixed, 0, "", 1))
		g.line(1, "fmt.Println(\"targets\", xt.x, xt.y, xt.name, xu.w, xu.w/2, xu.tag, xs[0], xs[1], xs[2], len(xm), xb, x8, x8+250)")
		g.feat["form:assign-to-field-or-element"]++
		// if with an initialiser
		var names []string
		for i := range f.res {
			names = append(names, fmt.Sprintf("q%d", i))
		}
		g.line(1, "if %s := %s; %s {", strings.Join(names, ", "), g.callExpr(f, "", vars, c09sModeConst, 0, "", 1), c09sCond(f.res[0], "q0"))
		g.line(2, "fmt.Println(\"if-init yes\", %s)", strings.Join(names, ", "))
		g.line(1, "} else {")
		g.line(2, "fmt.Println(\"if-init no\", %s)", strings.Join(names, ", "))
		g.line(1, "}")
		g.feat["form:if-init"]++
	}
	g.line(1, "i1, ok := find([]int{4, 5, 6}, %d)", r.rangeI(3, 7))
	g.line(1, "fmt.Println(i1, ok)")
	g.line(1, "i1, ok = find(nil, 5)")
	g.line(1, "fmt.Println(i1, ok)")
	g.line(1, "v2, w2 := find2([]int{1, 2, 3}, %d)", r.rangeI(2, 7))
	g.line(1, "fmt.Println(v2, w2)")
	g.line(1, "for k := 0; k < %d; k++ {", r.rangeI(500, 3000))
	g.line(2, "fib2(3)")
	g.line(2, "find([]int{1, 2}, 2)")
	g.line(2, "_, _ = find2(nil, 1)")
	g.line(1, "}")
	g.line(1, "_ = double(2)")
	g.line(1, "i1, ok = find([]int{7}, 7)")
	g.line(1, "fmt.Println(i1, ok)")
	g.feat["form:return-inside-loop"] += 4
	g.feat["form:discard-in-loop"]++
	g.feat["callsites"] += 8
}

func c09sSpreadLit(r *rng, el c09sTy) (string, string) {
	switch el {
	case c09sStr:
		return "[]string", fmt.Sprintf("[]string{%q, %q}", pick(r, []string{"p", "q"}), pick(r, []string{"r", "s"}))
	case c09sFloat:
		return "[]float64", fmt.Sprintf("[]float64{%s, %s, 3}", pick(r, []string{"1.5", "2.5"}), pick(r, []string{"0.25", "4"}))
	}
	return "[]int", fmt.Sprintf("[]int{%d, %d, %d}", r.rangeI(1, 9), r.rangeI(1, 9), r.rangeI(1, 9))
}

func (g *c09sGen) secVariadic(fns []*c09sFunc) {
	r := g.r
	vars := g.localVars(1)
	for _, f := range fns {
		f := f
		ty, lit := c09sSpreadLit(r, f.vari)
		sp := g.fresh("sp")
		g.line(1, "var %s %s = %s", sp, ty, lit)
		forms := []int{c09sFormStmt, c09sFormDecl, c09sFormAssign, c09sFormExpr, c09sFormBlank}
		// spread: the callee writes xs[0]; the caller must see it
		g.site(1, f, pick(r, forms), func() string { return g.callExpr(f, "", vars, c09sModeMixed, -1, sp, 0) })
		g.line(1, "fmt.Println(\"after-spread\", %s[0], len(%s))", sp, sp)
		g.feat["variadic:spread-alias-check"]++
		for _, ex := range []int{0, 1, r.rangeI(2, 6)} {
			ex := ex
			if r.chance(80) {
				g.site(1, f, pick(r, forms), func() string { return g.callExpr(f, "", vars, pick(r, []int{c09sModeMixed, c09sModeConst}), ex, "", 0) })
			}
		}
		if r.chance(60) {
			g.site(1, f, pick(r, forms), func() string { return g.callExpr(f, "", vars, c09sModeMixed, -1, "nil", 0) })
		}
		if r.chance(50) {
			// a slice expression as the spread
			g.site(1, f, pick(r, forms), func() string { return g.callExpr(f, "", vars, c09sModeMixed, -1, sp+"[1:]", 0) })
			g.line(1, "fmt.Println(\"after-spread-sub\", %s[0], %s[1])", sp, sp)
		}
	}
	fv := c09sVarsOf(vars, c09sFloat, false)[0]
	g.line(1, "fmt.Println(vsum(vsum(1, 2), vsum(), vsum(%d)), vsum(mkS(%d)...), vsum(mkS(0)...), vfsum(1, %s, 5), vfsum(%s), vfsum(%s, 1))", r.intn(9), r.intn(5), fv, fv, fv)
	g.feat["variadic:nested"]++
	g.feat["callsites"] += 9
	g.showVars(1, "end", g.refVars(vars))
}

func (g *c09sGen) secMultiValueArg(pairs [][2]*c09sFunc) {
	vars := g.localVars(1)
	for _, p := range pairs {
		taker, src := p[0], p[1]
		inner := g.callExpr(src, "", vars, c09sModeMixed, g.randExtras(src), "", 0)
		g.feat["form:multi-value-arg"]++
		g.feat["callsites"]++
		g.site(1, taker, g.r.intn(c09sNForms), func() string { return taker.name + "(" + inner + ")" })
	}
}

func (g *c09sGen) secMultiValuePrintln(srcs []*c09sFunc) {
	vars := g.localVars(1)
	for _, f := range srcs {
		// only results that print identically as values
		ok := true
		for _, t := range f.res {
			if t.nilable() {
				ok = false
			}
		}
		if !ok {
			continue
		}
		g.feat["form:multi-value-println"]++
		g.line(1, "fmt.Println(%s)", g.callExpr(f, "", vars, c09sModeMixed, g.randExtras(f), "", 0))
	}
	g.line(1, "fmt.Println(fib2(%d))", g.r.rangeI(3, 30))
	g.line(1, "fmt.Println(mA(%d, 0))", g.r.rangeI(3, 30))
}

func (g *c09sGen) secMethod(ms []*c09sFunc) {
	r := g.r
	vars := g.localVars(1)
	ptrs := c09sVarsOf(vars, c09sPtr, true)
	t0, t1 := ptrs[0], ptrs[1]
	g.line(1, "u := &U{w: %s, tag: \"u\"}", pick(r, []string{"2.5", "0.5", "7"}))
	g.line(1, "fmt.Println(%s.Get(%d), u.Get(%d), %s.Get(%d))", t0, r.intn(9), r.rangeI(1, 9), t1, r.intn(9))
	g.line(1, "fmt.Println(%s.Add(%d), %s.Add(%s.Add(%d)), %s.x)", t0, r.intn(9), t0, t0, r.intn(9), t0)
	g.line(1, "fmt.Println(%s.Self().Add(%d), %s.Self().Self().x, %s.Scale(%d))", t1, r.intn(9), t1, t1, r.rangeI(2, 5))
	g.line(1, "fmt.Println(%s.Sum(%d), %s.Sum(%d, %d), %s.Sum(1, 2, 3, 4), %s.Join(\"-\"), %s.Join(\"+\", \"a\", \"b\"))", t0, r.intn(9), t0, r.intn(9), r.intn(9), t1, t0, t1)
	g.line(1, "fmt.Println(mkT(%d, \"tmp\").Add(tr(%s, %d)))", r.intn(9), g.lbl(), r.intn(9))
	g.line(1, "ts := []*T{%s, %s}", t0, t1)
	g.line(1, "tm := map[string]*T{\"k\": %s}", t1)
	g.line(1, "gt = &T{x: %d, name: \"g\"}", r.rangeI(50, 99))
	g.line(1, "fmt.Println(ts[1].Add(%d), tm[\"k\"].Get(1), tm[\"k\"].Add(%d), ts[0].Sum(1, 2), gt.Add(1), gt.Get(1), gt.x)", r.intn(9), r.intn(9))
	g.line(1, "gm := gt.Add")
	g.line(1, "gt = &T{x: 1, name: \"g2\"}")
	g.line(1, "fmt.Println(gm(1), gt.x)")
	g.feat["call:method-receiver-in-container-or-global"] += 7
	g.feat["callsites"] += 23
	g.feat["call:method"] += 23
	n := r.rangeI(4, 7)
	for i := 0; i < n; i++ {
		f := ms[i%len(ms)]
		g.site(1, f, r.intn(c09sNForms), func() string {
			return g.callExpr(f, "", vars, pick(r, []int{c09sModeMixed, c09sModeMixed, c09sModeConst}), g.randExtras(f), "", 0)
		})
	}
	g.showVars(1, "end", g.refVars(vars))
}

func (g *c09sGen) shuffled(n int) []int {
	p := make([]int, n)
	for i := range p {
		p[i] = i
	}
	for i := n - 1; i > 0; i-- {
		j := g.r.intn(i + 1)
		p[i], p[j] = p[j], p[i]
	}
	return p
}

func (g *c09sGen) secMethodValue(ms []*c09sFunc) {
	r := g.r
	vars := g.localVars(1)
	ptrs := c09sVarsOf(vars, c09sPtr, true)
	t0, t1 := ptrs[0], ptrs[1]
	snips := []func(){
		func() {
			m := g.fresh("m")
			g.line(1, "%s := %s.Add", m, t0)
			g.line(1, "%s.x = %d", t0, r.rangeI(1, 50))
			g.line(1, "fmt.Println(%s(%d), %s.x)", m, r.rangeI(1, 9), t0)
			g.line(1, "for i := 0; i < 3; i++ {")
			g.line(2, "fmt.Println(%s(i))", m)
			g.line(1, "}")
		},
		func() {
			m := g.fresh("m")
			g.line(1, "%s := %s.Sum", m, t0)
			g.line(1, "%s.x = %d", t0, r.rangeI(1, 50))
			g.line(1, "fmt.Println(%s(%d), %s(%d, %d), %s(1, 2, 3, 4))", m, r.intn(9), m, r.intn(9), r.intn(9), m)
			g.line(1, "fmt.Println(%s(%d, []int{%d, %d}...), %s(0, nil...))", m, r.intn(9), r.intn(9), r.intn(9), m)
			g.feat["call:variadic-method-value"]++
			g.feat["callsites"] += 5
		},
		func() {
			m := g.fresh("m")
			g.line(1, "%s := %s.Join", m, t1)
			g.line(1, "%s.name = %q", t1, pick(r, []string{"nn", "changed"}))
			g.line(1, "fmt.Println(%s(\"-\"), %s(\"+\", \"a\"), %s(\"/\", \"a\", \"b\", \"c\"))", m, m, m)
			g.feat["call:variadic-method-value"]++
			g.feat["callsites"] += 3
		},
		func() {
			// the method value keeps the receiver it was taken from
			m := g.fresh("m")
			g.line(1, "%s := %s.Get", m, t0)
			g.line(1, "%s = &T{x: %d, name: \"fresh\"}", t0, r.rangeI(50, 90))
			g.line(1, "fmt.Println(%s(1), %s.Get(1))", m, t0)
		},
		func() {
			g.line(1, "fmt.Println(apply(%s.Add, %d), %s.x, apply2(%s.Get, %s.Scale, %d))", t0, r.intn(9), t0, t0, t1, r.intn(5))
			g.line(1, "showF(%s, %s.Add)", g.lbl(), t1)
			g.line(1, "fmt.Println(%s.x)", t1)
			g.feat["call:method-value-as-arg"]++
		},
		func() {
			h := g.fresh("h")
			g.line(1, "%s := &H{cb: %s.Add, t: %s, n: 1}", h, t0, t1)
			g.line(1, "%s.x = %d", t0, r.rangeI(1, 50))
			g.line(1, "fmt.Println(%s.cb(%d), %s.x, %s.t.Add(%d), %s.x)", h, r.intn(9), t0, h, r.intn(9), t1)
			g.line(1, "%s.cb = %s.t.Get", h, h)
			g.line(1, "fmt.Println(%s.cb(%d))", h, r.intn(9))
			g.feat["call:struct-field-func"]++
		},
		func() {
			a, b := g.fresh("m"), g.fresh("m")
			g.line(1, "u := &U{w: 1.5, tag: \"u\"}")
			g.line(1, "%s := %s.Get", a, t1)
			g.line(1, "%s := u.Get", b)
			g.line(1, "u.w = %s", pick(r, []string{"4", "0.25"}))
			g.line(1, "%s.x = %d", t1, r.intn(40))
			g.line(1, "fmt.Println(%s(%d), %s(%d))", a, r.intn(9), b, r.rangeI(1, 9))
		},
		func() {
			f := g.fresh("f")
			g.line(1, "var %s func(int) int = %s.Add", f, t0)
			g.line(1, "fmt.Println(%s(%d), %s.x)", f, r.intn(9), t0)
			g.line(1, "%s = double", f)
			g.line(1, "fmt.Println(%s(%d))", f, r.intn(9))
			g.line(1, "%s = %s.Scale", f, t1)
			g.line(1, "fmt.Println(%s(%d))", f, r.intn(9))
		},
	}
	for _, f := range ms {
		f := f
		snips = append(snips, func() {
			m := g.fresh("m")
			tv := pick(r, ptrs)
			g.line(1, "%s := %s.%s", m, tv, f.name)
			g.line(1, "%s.x = %d", tv, r.rangeI(1, 50))
			g.line(1, "%s.name = %q", tv, pick(r, []string{"mv", "late"}))
			for k := 0; k < 2; k++ {
				g.site(1, f, r.intn(c09sNForms), func() string {
					return g.callExpr(f, m, vars, c09sModeMixed, g.randExtras(f), "", 0)
				})
			}
			g.line(1, "showT(%s, %s)", g.lbl(), tv)
		})
	}
	for _, i := range g.shuffled(len(snips)) {
		if i >= 8 || r.chance(70) {
			g.feat["call:method-value"]++
			g.feat["callsites"] += 2
			snips[i]()
		}
	}
	g.showVars(1, "end", g.refVars(vars))
}

func (g *c09sGen) secFuncValue(fns []*c09sFunc) {
	r := g.r
	vars := g.localVars(1)
	ptrs := c09sVarsOf(vars, c09sPtr, true)
	snips := []func(){
		func() {
			f := g.fresh("f")
			g.line(1, "var %s func(int) int = double", f)
			g.line(1, "fmt.Println(%s(%d))", f, r.intn(20))
			g.line(1, "%s = triple", f)
			g.line(1, "fmt.Println(%s(%d), %s(%s(%d)))", f, r.intn(20), f, f, r.intn(9))
			g.line(1, "%s = addK", f)
			g.line(1, "fmt.Println(%s(%d), apply(%s, %d))", f, r.intn(20), f, r.intn(9))
			g.line(1, "%s = nil", f)
			g.line(1, "fmt.Println(%s == nil, apply(%s, 1))", f, f)
			g.feat["call:func-var"] += 6
		},
		func() {
			h := g.fresh("h")
			g.line(1, "%s := &H{cb: double, n: %d}", h, r.intn(9))
			g.line(1, "fmt.Println(%s.cb(%d), %s.cb(%s.n))", h, r.intn(20), h, h)
			g.line(1, "%s.cb = triple", h)
			g.line(1, "fmt.Println(%s.cb(%d), apply(%s.cb, %d))", h, r.intn(20), h, r.intn(9))
			g.line(1, "%s.cb = func(x int) int { return x - %d }", h, r.intn(9))
			g.line(1, "fmt.Println(%s.cb(%d))", h, r.intn(20))
			g.line(1, "%s.cb = nil", h)
			g.line(1, "fmt.Println(%s.cb == nil)", h)
			g.feat["call:struct-field-func"] += 5
		},
		func() {
			g.line(1, "fmt.Println(apply(double, %d), apply(nil, %d), apply2(double, triple, %d), apply2(addK, getf(2), %d))", r.intn(20), r.intn(9), r.intn(9), r.intn(9))
			g.line(1, "fmt.Println(apply(getf(%d), %d), getf(0)(%d), getf(1)(%d), getf(2)(%d), getf(3) == nil)", r.intn(3), r.intn(9), r.intn(9), r.intn(9), r.intn(9))
			g.line(1, "fmt.Println(getf(0)(getf(1)(%d)), getf(%d) != nil)", r.intn(9), r.intn(4))
			g.feat["call:func-param"] += 5
			g.feat["call:func-result"] += 8
		},
		func() {
			f := g.fresh("f")
			g.line(1, "%s := func(x int) int { return x*%d + 1 }", f, r.rangeI(2, 9))
			g.line(1, "fmt.Println(%s(%d), apply(%s, %d), apply(func(x int) int { return x - %d }, %d))", f, r.intn(9), f, r.intn(9), r.intn(9), r.intn(9))
			g.line(1, "fmt.Println(func(a int, b float64, c string) float64 {")
			g.line(2, "fmt.Println(a*1000000, b/2, c+\"!\")")
			g.line(2, "return %d", r.rangeI(1, 9)*2+1)
			g.line(1, "}(%d, %d, \"lit\") / 2)", r.intn(9), r.rangeI(1, 9)*2+1)
			g.feat["call:func-literal"] += 4
		},
		func() {
			fs := g.fresh("fs")
			g.line(1, "%s := []func(int) int{double, triple, addK}", fs)
			g.line(1, "fmt.Println(%s[0](%d), %s[2](%d))", fs, r.intn(9), fs, r.intn(9))
			g.line(1, "for _, f := range %s {", fs)
			g.line(2, "fmt.Println(f(%d))", r.intn(9))
			g.line(1, "}")
			g.line(1, "fm := map[string]func(int) int{\"d\": double}")
			g.line(1, "fmt.Println(fm[\"d\"](%d))", r.intn(9))
			g.feat["call:func-in-container"] += 4
		},
		func() {
			g.line(1, "gf = double")
			g.line(1, "fmt.Println(gf(%d))", r.intn(9))
			g.line(1, "gf = triple")
			g.line(1, "fmt.Println(gf(%d), apply(gf, %d))", r.intn(9), r.intn(9))
			g.line(1, "gf = double")
			g.feat["call:global-func-var"] += 3
		},
	}
	for _, f := range fns {
		f := f
		snips = append(snips, func() {
			fv := g.fresh("fv")
			if f.recv {
				g.line(1, "%s := %s.%s", fv, pick(r, ptrs), f.name)
			} else {
				g.line(1, "%s := %s", fv, f.name)
			}
			for k := 0; k < 2; k++ {
				g.site(1, f, r.intn(c09sNForms), func() string {
					return g.callExpr(f, fv, vars, pick(r, []int{c09sModeMixed, c09sModeConst, c09sModeNil}), g.randExtras(f), "", 0)
				})
			}
			g.feat["call:func-var"] += 2
		})
	}
	for _, i := range g.shuffled(len(snips)) {
		if i >= 6 && !r.chance(60) {
			continue
		}
		g.feat["callsites"] += 3
		snips[i]()
	}
	g.showVars(1, "end", g.refVars(vars))
}

func (g *c09sGen) secNestedOrder(fns []*c09sFunc) {
	r := g.r
	vars := g.localVars(1)
	ptrs := c09sVarsOf(vars, c09sPtr, true)
	sl := c09sVarsOf(vars, c09sSlice, true)[0]
	l := g.lbl
	snips := []func(){
		func() {
			g.line(1, "fmt.Println(tr(%s, %d) + tr(%s, %d)*tr(%s, %d) - double(tr(%s, %d)))", l(), r.intn(9), l(), r.intn(9), l(), r.intn(9), l(), r.intn(9))
		},
		func() {
			g.line(1, "fmt.Println(tr(%s, tr(%s, %d)+tr(%s, %d)), cat(trs(%s, \"a\"), trs(%s, \"b\")), half(trf(%s, %d)))", l(), l(), r.intn(9), l(), r.intn(9), l(), l(), l(), r.rangeI(1, 9))
		},
		func() {
			g.line(1, "ns := []int{tr(%s, %d), tr(%s, %d), double(tr(%s, %d))}", l(), r.intn(9), l(), r.intn(9), l(), r.intn(9))
			g.line(1, "fmt.Println(ns[tr(%s, %d)], %s[tr(%s, 0)+tr(%s, 1)])", l(), r.intn(3), sl, l(), l())
			g.line(1, "nt := &T{x: tr(%s, %d), y: tr(%s, %d), name: trs(%s, \"nm\")}", l(), r.intn(9), l(), r.intn(9), l())
			g.line(1, "showT(%s, nt)", l())
			g.line(1, "nm := map[string]int{\"a\": tr(%s, %d)}", l(), r.intn(9))
			g.line(1, "showM(%s, nm)", l())
			g.line(1, "ns = append(ns, tr(%s, %d), tr(%s, %d))", l(), r.intn(9), l(), r.intn(9))
			g.line(1, "showS(%s, ns)", l())
		},
		func() {
			g.line(1, "if tr(%s, %d) > 0 && tr(%s, %d) > 0 || trb(%s, %s) {", l(), r.intn(2), l(), r.intn(2), l(), pick(r, []string{"true", "false"}))
			g.line(2, "fmt.Println(\"cond-yes\")")
			g.line(1, "} else if isPos(tr(%s, %d)) {", l(), r.rangeI(-1, 1))
			g.line(2, "fmt.Println(\"cond-elif\")")
			g.line(1, "}")
			g.feat["form:cond"] += 2
		},
		func() {
			g.line(1, "for i := tr(%s, 0); tr(%s, i) < %d; i += tr(%s, 1) {", l(), l(), r.rangeI(1, 3), l())
			g.line(2, "fmt.Println(\"body\", i)")
			g.line(1, "}")
			g.feat["form:call-in-for-clause"]++
		},
		func() {
			g.line(1, "switch tr(%s, %d) {", l(), r.intn(4))
			g.line(1, "case tr(%s, 1):", l())
			g.line(2, "fmt.Println(\"case-1\")")
			g.line(1, "case double(tr(%s, 1)):", l())
			g.line(2, "fmt.Println(\"case-2\")")
			g.line(1, "default:")
			g.line(2, "fmt.Println(\"case-default\")")
			g.line(1, "}")
			g.feat["form:call-in-switch"]++
		},
		func() {
			t0 := ptrs[0]
			g.line(1, "fmt.Println(%s.Add(%s.Add(tr(%s, %d))), mkT(%d, \"n\").Scale(tr(%s, 2)), %s.x)", t0, t0, l(), r.intn(9), r.intn(9), l(), t0)
		},
		func() {
			g.line(1, "fmt.Println(apply(getf(tr(%s, %d)), tr(%s, %d)), getf(2)(tr(%s, %d)))", l(), r.intn(3), l(), r.intn(9), l(), r.intn(9))
		},
	}
	for _, f := range fns {
		f := f
		snips = append(snips, func() {
			g.site(1, f, r.intn(c09sNForms), func() string {
				return g.callExpr(f, "", vars, c09sModeTraced, g.randExtras(f), "", 0)
			})
			g.feat["arg:traced-order"]++
		})
	}
	for _, i := range g.shuffled(len(snips)) {
		if i >= 8 || r.chance(75) {
			g.feat["callsites"] += 4
			snips[i]()
		}
	}
	g.showVars(1, "end", g.refVars(vars))
}

// small sections for special conversions
func (g *c09sGen) secSpecial(kind string) {
	r := g.r
	odd := r.rangeI(1, 20)*2 + 1
	switch kind {
	case "named-const":
		g.line(1, "const lc = %d", odd)
		g.line(1, "fmt.Println(half(cI), tru(%s, cI)+250, half(lc), tru(%s, lc + 1)+250)", g.lbl(), g.lbl())
		g.line(1, "a, b := retC()")
		g.line(1, "fmt.Println(a/2, b+250)")
		g.feat["arg:named-const"] += 4
		g.feat["ret:named-const"] += 2
		g.feat["callsites"] += 5
	case "untyped-float-const":
		g.line(1, "fmt.Println(double(%d.0), tr(%s, %d.0)*1000000, isNilV(2.0))", r.intn(9), g.lbl(), r.rangeI(1, 9))
		g.line(1, "fmt.Println(retI()*1000000)")
		g.feat["arg:untyped-float-const->I"] += 3
		g.feat["callsites"] += 4
	case "nil-receiver":
		g.line(1, "var nt *T")
		g.line(1, "fmt.Println(nt == nil)")
		g.line(1, "fmt.Println(nt.IsNil())")
		g.line(1, "m := nt.IsNil")
		g.line(1, "fmt.Println(m())")
		g.feat["call:nil-receiver"] += 2
		g.feat["callsites"] += 2
	case "callee-eval-order":
		// Go evaluates the function value / receiver expression before the arguments
		g.line(1, "fmt.Println(getf(tr(%s, %d))(tr(%s, %d)))", g.lbl(), r.intn(3), g.lbl(), r.intn(9))
		g.line(1, "fmt.Println(mkT(tr(%s, %d), \"n\").Scale(tr(%s, 2)))", g.lbl(), r.intn(9), g.lbl())
		g.line(1, "h := &H{cb: double, t: mkT(1, \"h\")}")
		g.line(1, "hs := []*H{h}")
		g.line(1, "fmt.Println(hs[tr(%s, 0)].cb(tr(%s, %d)))", g.lbl(), g.lbl(), r.intn(9))
		g.feat["form:callee-expression-with-calls"] += 3
		g.feat["callsites"] += 9
	case "variadic-zero-nil":
		g.line(1, "fmt.Println(isNilV(), isNilV(nil...), isNilV(%d), isNilV([]int{}...))", r.intn(9))
		g.feat["variadic:zero-extras-is-nil"]++
		g.feat["callsites"] += 4
	}
}

// ---- whole program ----

var c09sThemes = []string{"positional", "untyped-const", "nil-arg", "variadic", "multi-result", "method", "method-value", "func-value", "nested-order", "recursion"}

var c09sRecKinds = []string{"recursion-linear", "recursion-mutual", "recursion-locals", "recursion-multi", "recursion-method", "recursion-funcparam", "recursion-variadic"}

func c09sGenProgram(r *rng, idx int, feat map[string]int) *c09sProgram {
	g := &c09sGen{r: r, sb: &strings.Builder{}, feat: feat, singles: map[c09sTy][]*c09sFunc{}}
	theme := c09sThemes[idx%len(c09sThemes)]
	g.prelude()
	rc := g.recursionDecls()
	odd := r.rangeI(1, 20)*2 + 1
	g.line(0, "const cI = %d\n", odd)
	g.line(0, "func retC() (float64, uint8) { return cI, cI + 1 }\n")
	g.line(0, "func retI() int { return %d.0 }\n", r.rangeI(1, 9))

	scal := []c09sTy{c09sInt, c09sFloat, c09sStr, c09sBool, c09sU8}
	nilT := []c09sTy{c09sSlice, c09sMap, c09sPtr, c09sFn}
	tails := []c09sTy{c09sInt, c09sStr, c09sFloat}

	var chunks []string
	emit := func(fn func()) {
		old := g.sb
		g.sb = &strings.Builder{}
		fn()
		chunks = append(chunks, g.sb.String())
		g.sb = old
	}
	def := func(f *c09sFunc) *c09sFunc {
		emit(func() { g.emitFunc(f) })
		return f
	}
	wrap := func(name string, f *c09sFunc) *c09sFunc {
		w := &c09sFunc{name: name, recv: f.recv, params: f.params, vari: f.vari, res: f.res}
		emit(func() { g.emitWrapper(w, f) })
		return w
	}

	// plain functions: anything goes
	var plain []*c09sFunc
	for i := 0; i < 3; i++ {
		f := def(g.newFunc(fmt.Sprintf("P%d", i), false, g.randTys(r.intn(6), c09sAllTys), -1, g.randTys(r.intn(4), c09sAllTys)))
		plain = append(plain, f)
	}
	// one single-result function per scalar type, usable as nested argument
	for _, t := range scal {
		f := def(g.newFunc("S"+c09sTyTag[t], false, g.randTys(r.rangeI(1, 3), scal), -1, []c09sTy{t}))
		g.singles[t] = append(g.singles[t], f)
		plain = append(plain, f)
	}
	// numeric parameters and results: untyped constants
	numT := []c09sTy{c09sFloat, c09sU8, c09sInt, c09sFloat, c09sU8}
	c0 := def(g.newFunc("C0", false, g.randTys(r.rangeI(2, 5), numT), -1, g.randTys(r.rangeI(1, 3), []c09sTy{c09sFloat, c09sU8})))
	c1 := def(g.newFunc("C1", false, g.randTys(r.rangeI(1, 4), append(numT, c09sStr, c09sBool)), -1, g.randTys(r.rangeI(1, 2), numT)))
	// nilable parameters and results
	n0 := def(g.newFunc("N0", false, g.randTys(r.rangeI(2, 5), nilT), -1, g.randTys(r.rangeI(1, 3), nilT)))
	n1 := def(g.newFunc("N1", false, g.randTys(r.rangeI(2, 4), append(nilT, c09sInt)), -1, g.randTys(r.rangeI(0, 2), append(nilT, c09sStr))))
	// variadic functions, one per tail type, plus a forwarding wrapper and a variadic method
	var vfs []*c09sFunc
	for i, t := range tails {
		f := def(g.newFunc(fmt.Sprintf("V%d", i), false, g.randTys(r.intn(3), c09sAllTys), t, g.randTys(r.intn(3), c09sAllTys)))
		vfs = append(vfs, f)
	}
	wv := wrap("WV", pick(r, vfs))
	m1 := def(g.newFunc("M1", true, g.randTys(r.intn(3), scal), pick(r, tails), g.randTys(r.rangeI(1, 2), scal)))
	// methods
	m0 := def(g.newFunc("M0", true, g.randTys(r.rangeI(1, 4), c09sAllTys), -1, g.randTys(r.rangeI(1, 3), c09sAllTys)))
	m2 := def(g.newFunc("M2", true, g.randTys(r.intn(3), c09sAllTys), -1, g.randTys(r.intn(3), c09sAllTys)))
	wm := wrap("WM", m0)
	// multi-result functions, wrappers and takers
	r2 := def(g.newFunc("R2", false, g.randTys(r.intn(4), c09sAllTys), -1, g.randTys(2, c09sAllTys)))
	r3 := def(g.newFunc("R3", false, g.randTys(r.intn(4), c09sAllTys), -1, g.randTys(3, c09sAllTys)))
	r2s := def(g.newFunc("R2s", false, g.randTys(r.intn(3), scal), -1, g.randTys(2, scal)))
	r3s := def(g.newFunc("R3s", false, g.randTys(r.intn(3), scal), -1, g.randTys(3, scal)))
	w2 := wrap("W2", r2)
	w3 := wrap("W3", r3)
	ww3 := wrap("WW3", w3)
	k2 := def(g.newFunc("K2", false, r2.res, -1, g.randTys(1, scal)))
	k3 := def(g.newFunc("K3", false, r3.res, -1, g.randTys(r.rangeI(0, 2), scal)))
	k3s := def(g.newFunc("K3s", false, r3s.res, -1, g.randTys(1, scal)))

	for _, i := range g.shuffled(len(chunks)) {
		g.sb.WriteString(chunks[i])
	}
	p := &c09sProgram{theme: theme}
	p.decls = g.sb.String()

	type secGen struct {
		kind string
		fn   func()
	}
	mk := func(kind string) secGen {
		switch kind {
		case "positional":
			return secGen{kind, func() { g.secCalls(append(append([]*c09sFunc{}, plain...), m2, w2), []int{c09sModeMixed}, 8, 11) }}
		case "untyped-const":
			return secGen{kind, func() {
				g.secCalls([]*c09sFunc{c0, c1, vfs[2], c0}, []int{c09sModeConst}, 6, 9)
				g.line(1, "fmt.Println(tr(%s, 2147483647), tr(%s, -2147483648)+0, tr(%s, 2147483647)+1, tru(%s, 255)+1, half(-7), half(1<<20+1))", g.lbl(), g.lbl(), g.lbl(), g.lbl())
				g.feat["arg:extreme-constants"]++
			}}
		case "nil-arg":
			return secGen{kind, func() { g.secCalls([]*c09sFunc{n0, n1, n0}, []int{c09sModeNil, c09sModeNil, c09sModeMixed}, 5, 8) }}
		case "variadic":
			return secGen{kind, func() { g.secVariadic(append(append([]*c09sFunc{}, vfs...), wv, m1)) }}
		case "multi-result":
			return secGen{kind, func() {
				g.secCalls([]*c09sFunc{r2, r3, w2, w3, ww3, r2s, r3s, wm}, []int{c09sModeMixed}, 8, 11)
				g.multiResultExtras([]*c09sFunc{r2s, r3s})
			}}
		case "multi-value-arg":
			return secGen{kind, func() { g.secMultiValueArg([][2]*c09sFunc{{k3s, r3s}, {k2, r2}, {k3, w3}, {k2, w2}}) }}
		case "multi-value-println":
			return secGen{kind, func() { g.secMultiValuePrintln([]*c09sFunc{r2s, r3s}) }}
		case "method":
			return secGen{kind, func() { g.secMethod([]*c09sFunc{m0, m1, m2, wm}) }}
		case "method-value":
			return secGen{kind, func() { g.secMethodValue([]*c09sFunc{m0, m1, m2}) }}
		case "func-value":
			return secGen{kind, func() { g.secFuncValue([]*c09sFunc{pick(r, plain), pick(r, vfs), c0, n0, r3, m0}) }}
		case "nested-order":
			return secGen{kind, func() { g.secNestedOrder([]*c09sFunc{pick(r, plain), c1, r2s, m1, pick(r, vfs)}) }}
		case "named-const", "untyped-float-const", "nil-receiver", "variadic-zero-nil", "callee-eval-order":
			return secGen{kind, func() { g.secSpecial(kind) }}
		}
		return secGen{kind, func() { g.secRecursion(kind, rc) }}
	}
	kinds := []string{"positional", "untyped-const", "nil-arg", "variadic", "multi-result", "multi-value-arg", "multi-value-println",
		"method", "method-value", "func-value", "nested-order", "named-const", "untyped-float-const", "nil-receiver", "variadic-zero-nil", "callee-eval-order"}
	kinds = append(kinds, c09sRecKinds...)
	// the theme of the program gets two more sections
	if theme == "recursion" {
		kinds = append(kinds, pick(r, c09sRecKinds), pick(r, c09sRecKinds))
	} else {
		kinds = append(kinds, theme, theme)
	}
	for _, i := range g.shuffled(len(kinds)) {
		s := mk(kinds[i])
		g.sb = &strings.Builder{}
		s.fn()
		p.secs = append(p.secs, c09sSection{kind: s.kind, body: g.sb.String()})
		feat["section:"+s.kind]++
	}
	return p
}

// ---- differential ----

type c09sRef struct {
	out      string
	panicked bool
	err      error
}

func c09sSplit(out string) map[int]string {
	res := map[int]string{}
	cur := -1
	for _, ln := range strings.SplitAfter(out, "\n") {
		if strings.HasPrefix(ln, "== ") {
			f := strings.Fields(ln)
			if len(f) >= 2 {
				if k, e := strconv.Atoi(f[1]); e == nil {
					cur = k
				}
			}
		}
		if cur >= 0 {
			res[cur] += ln
		}
	}
	return res
}

func c09sRecord(st *stats, group, src, exp, got string, gerr error) {
	el, gl := strings.Split(exp, "\n"), strings.Split(got, "\n")
	i := 0
	for i < len(el) && i < len(gl) && el[i] == gl[i] {
		i++
	}
	e, gg := "<end>", "<end>"
	if i < len(el) {
		e = el[i]
	}
	if i < len(gl) {
		gg = gl[i]
	}
	es := ""
	if gerr != nil {
		es = gerr.Error()
	}
	first := st.Groups[group] == 0
	st.mismatchG(group, progMismatch{Kind: group, Src: src, Expected: e, Got: gg, Line: i + 1, Err: es})
	if first {
		// the kept example is the reduced program: make sure the Go toolchain
		// prints for it what it printed for that section of the full program
		if o, p, err := goRefRun(asInt32(src)); err != nil || p || o != exp {
			st.Histogram["reduced_program_inconsistent"]++
		}
	}
}

// c09sDiff compares one program section by section.
func c09sDiff(st *stats, p *c09sProgram, ref c09sRef) {
	src := p.full()
	if ref.err != nil || ref.panicked {
		st.Histogram["invalid_go_program"]++
		if st.Histogram["invalid_go_program"] <= 3 {
			msg := "go program panicked"
			if ref.err != nil {
				msg = ref.err.Error()
			}
			st.Extra[fmt.Sprintf("invalid_go_%d", st.Histogram["invalid_go_program"])] = msg + "\n" + src
		}
		return
	}
	got, gerr := goatRun(src)
	if got == ref.out && gerr == nil {
		st.Histogram["program_agrees"]++
		return
	}
	st.Histogram["program_differs"]++
	exp := c09sSplit(ref.out)
	found := false
	for k, s := range p.secs {
		red := p.reduced(k)
		g1, e1 := goatRun(red)
		if g1 == exp[k] && e1 == nil {
			continue
		}
		found = true
		c09sRecord(st, "c09|"+s.kind, red, exp[k], g1, e1)
	}
	if !found {
		c09sRecord(st, "c09|whole-program-only", src, ref.out, got, gerr)
	}
}

func c09sCmd(seed uint64, n int, dir string) {
	r := newRng(seed)
	st := newStats()
	feat := map[string]int{}
	progs := make([]*c09sProgram, n)
	for c := 0; c < n; c++ {
		progs[c] = c09sGenProgram(r, c, feat)
	}
	// reference runs in a worker pool; comparison afterwards, in order
	refs := make([]c09sRef, n)
	workers := runtime.NumCPU()
	if workers > 8 {
		workers = 8
	}
	if workers < 1 {
		workers = 1
	}
	var wg sync.WaitGroup
	jobs := make(chan int)
	for w := 0; w < workers; w++ {
		wg.Add(1)
		go func() {
			defer wg.Done()
			for c := range jobs {
				o, p, e := goRefRun(asInt32(progs[c].full()))
				refs[c] = c09sRef{o, p, e}
			}
		}()
	}
	for c := 0; c < n; c++ {
		jobs <- c
	}
	close(jobs)
	wg.Wait()
	for c := 0; c < n; c++ {
		p := progs[c]
		src := p.full()
		st.add("program theme="+p.theme, fmt.Sprintf("program %d: theme %s, %d lines, %d sections, %d output lines", c, p.theme, strings.Count(src, "\n"), len(p.secs), strings.Count(refs[c].out, "\n")))
		c09sDiff(st, p, refs[c])
	}
	for k, v := range feat {
		st.Histogram["construct:"+k] = v
	}
	c09BlankParams(st) // c09blank.go
	st.write(dir + "/C09_script_stats.json")
}
