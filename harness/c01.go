package main

import (
	"bytes"
	"context"
	"fmt"
	"go/parser"
	"os"
	"os/exec"
	"path/filepath"
	"strings"
	"testing/fstest"
	"time"

	g "github.com/philhassey/goatlang"
)

func init() {
	register("c01-corr", func(a cmdArgs) { cmdC01Corr(a.seed, a.n, a.dir) })
	register("c01-diff", func(a cmdArgs) { cmdC01Diff(a.seed, a.n, a.dir) })
}

// ---------------------------------------------------------------------------
// expression evaluation: Model/ExprEval.v (eval_goat / eval_go) against the real
// implementation and against real Go (go/parser AST evaluated with int32 arithmetic)

func cmdC01Corr(seed uint64, n int, dir string) {
	r := newRng(seed)
	st := newStats()
	ops := []string{"+", "-", "*", "/", "%", "&", "|", "^", "<<", ">>"}
	vars := []string{"a", "b", "c", "d"}
	var exprs [][]etok
	for len(exprs) < n {
		nops := 1 + r.intn(5)
		var ts []etok
		depth := 0
		for i := 0; i <= nops; i++ {
			for r.chance(25) {
				ts = append(ts, etok{text: pick(r, []string{"-", "^"})})
			}
			if r.chance(20) && i < nops {
				ts = append(ts, etok{text: "("})
				depth++
			}
			ts = append(ts, etok{atom: true, text: pick(r, vars)})
			if depth > 0 && r.chance(40) {
				ts = append(ts, etok{text: ")"})
				depth--
			}
			if i < nops {
				ts = append(ts, etok{text: pick(r, ops)})
			}
		}
		for depth > 0 {
			ts = append(ts, etok{text: ")"})
			depth--
		}
		exprs = append(exprs, ts)
	}
	var sb strings.Builder
	for i, ts := range exprs {
		fmt.Fprintf(&sb, "func e%d(a, b, c, d int) int { return %s }\n", i, toksString(ts))
	}
	var out bytes.Buffer
	vm := g.New(g.WithStdout(&out))
	if _, err := vm.Eval(fstest.MapFS{}, "in", sb.String()); err != nil {
		st.mismatchG("setup", map[string]string{"kind": "setup", "err": err.Error()})
		st.write(dir + "/C01_corr_stats.json")
		return
	}
	pool := []int32{0, 1, 2, 3, 5, 7, 8, 31, 32, 33, -1, -2, -8, 100, 2147483647, -2147483648, 65536, 46341, -46341, 1 << 30}
	var cases []string
	for i, ts := range exprs {
		env := map[string]tval{}
		var envCoq []string
		var args []g.Value
		for _, v := range vars {
			x := pick(r, pool)
			if r.chance(30) {
				x = int32(r.next())
			}
			env[v] = tval{i: x}
			envCoq = append(envCoq, fmt.Sprintf("(%s, %s)", coqStrLit(v), coqZ(int64(x))))
			args = append(args, g.Int32(x))
		}
		// real Go
		goRes := ""
		ge, perr := parser.ParseExpr(toksString(ts))
		if perr != nil {
			continue
		}
		func() {
			defer func() {
				if rr := recover(); rr != nil {
					goRes = "Panic"
				}
			}()
			v, ok := goEval(ge, env)
			if !ok || v.isBool {
				goRes = "skip"
				return
			}
			goRes = "(Ok " + coqZ(int64(v.i)) + ")"
		}()
		if goRes == "skip" {
			continue
		}
		rets, err := vm.Call(fmt.Sprintf("main.e%d", i), 1, args...)
		obs := "Panic"
		if err == nil {
			if g.VerifTag(rets[0]) != tagInt32 {
				st.mismatchG("type", map[string]string{"kind": "expression result type", "expr": toksString(ts), "got": descr(rets[0], vm)})
				continue
			}
			obs = "(Ok " + coqZ(int64(g.VerifNum(rets[0]))) + ")"
		}
		if obs != goRes {
			st.mismatchG("value|"+binOpsOf(ts), map[string]string{"kind": "expression value", "expr": toksString(ts), "env": strings.Join(envCoq, " "), "go": goRes, "goatlang": obs})
		}
		cases = append(cases, fmt.Sprintf("CExpr %s [%s] %s %s", toksCoq(ts), strings.Join(envCoq, "; "), obs, goRes))
		st.add(fmt.Sprintf("ops=%d", strings.Count(binOpsOf(ts), " ")+1), toksString(ts))
	}
	files := writeCases(dir, "cases_C01", "From Coq Require Import ZArith List String.\nFrom GV Require Import GoSpec.GoPrim GoSpec.GoPrec Model.CorrC01.\nImport ListNotations.\nOpen Scope string_scope.\nOpen Scope Z_scope.\n", "emismatches", cases, 500)
	st.Extra["files"] = files
	st.write(dir + "/C01_corr_stats.json")
}

// ---------------------------------------------------------------------------
// whole programs of every generator profile against the Go toolchain, multi-package layouts included

// goRefRunTree builds a module from files (path -> source) and runs it.
func goRefRunTree(files map[string]string) (string, bool, error) {
	dir, err := os.MkdirTemp("", "goreftree")
	if err != nil {
		return "", false, err
	}
	defer os.RemoveAll(dir)
	must(os.WriteFile(filepath.Join(dir, "go.mod"), []byte("module ref\n\ngo 1.20\n"), 0o644))
	for p, src := range files {
		p = strings.TrimPrefix(p, "ref/") // the module is named ref: package ref/geom lives in ./geom
		must(os.MkdirAll(filepath.Dir(filepath.Join(dir, p)), 0o755))
		must(os.WriteFile(filepath.Join(dir, p), []byte(asInt32(src)), 0o644))
	}
	ctx, cancel := context.WithTimeout(context.Background(), 120*time.Second)
	defer cancel()
	build := exec.CommandContext(ctx, "go", "build", "-o", "refbin", "./main")
	build.Dir = dir
	if b, e := build.CombinedOutput(); e != nil {
		return "", false, fmt.Errorf("go build: %v\n%s", e, b)
	}
	run := exec.CommandContext(ctx, filepath.Join(dir, "refbin"))
	var so, se bytes.Buffer
	run.Stdout, run.Stderr = &so, &se
	if e := run.Run(); e != nil {
		if strings.Contains(se.String(), "panic:") {
			return so.String(), true, nil
		}
		return so.String(), false, fmt.Errorf("run: %v %s", e, se.String())
	}
	return so.String(), false, nil
}

func goatRunTree(files map[string]string) (string, error) {
	fs := fstest.MapFS{}
	for p, src := range files {
		fs[p] = &fstest.MapFile{Data: []byte(src)}
	}
	var buf bytes.Buffer
	vm := g.New(g.WithStdout(&buf))
	type res struct {
		out string
		err error
	}
	ch := make(chan res, 1)
	go func() {
		defer func() {
			if r := recover(); r != nil {
				ch <- res{buf.String(), fmt.Errorf("GO PANIC ESCAPED: %v", r)}
			}
		}()
		if e := vm.Load(fs, "main"); e != nil {
			ch <- res{buf.String(), e}
			return
		}
		_, e := vm.Call("main.main", 0)
		ch <- res{buf.String(), e}
	}()
	select {
	case x := <-ch:
		return x.out, x.err
	case <-time.After(20 * time.Second):
		return "", fmt.Errorf("GOATLANG DID NOT TERMINATE within 20s")
	}
}

// genMultiPackage: main imports two or three library packages (one in vendor/, one split over two
// files) that import each other acyclically; package-level variables with initialisers calling functions
// of imported packages, init functions, exported functions, struct types with methods used across packages.
func genMultiPackage(r *rng) map[string]string {
	files := map[string]string{}
	k1, k2, k3 := r.intn(9)+1, r.intn(9)+1, r.intn(9)+1
	files["ref/geom/geom.go"] = fmt.Sprintf(`package geom

import "fmt"

type Point struct {
	X int
	Y int
}

func (p *Point) Sum() int {
	return p.X + p.Y*%d
}

func New(x int, y int) *Point {
	return &Point{X: x, Y: y}
}

var Origin = New(%d, %d)

func init() {
	fmt.Println("init geom", Origin.Sum())
}
`, k1, k2, k3)
	files["ref/util/a.go"] = fmt.Sprintf(`package util

import "ref/geom"

var Base int = Scale(%d)

func Scale(n int) int {
	return n*%d + geom.Origin.X
}
`, k2, k3)
	files["ref/util/b.go"] = fmt.Sprintf(`package util

import "fmt"

func Describe(n int) string {
	return "u" + fmt.Sprint(n+Base)
}

func init() {
	fmt.Println("init util", Base)
}
`)
	files["main/main.go"] = fmt.Sprintf(`package main

import (
	"fmt"
	"ref/geom"
	"ref/util"
)

var total = util.Scale(%d) + geom.Origin.Sum()

func init() {
	fmt.Println("init main", total)
}

func main() {
	p := geom.New(%d, %d)
	fmt.Println(p.Sum(), util.Describe(p.X), total, util.Base)
	q := geom.Origin
	q.X += %d
	fmt.Println(geom.Origin.X, util.Scale(1))
}
`, k1, k2, k1+k3, k3)
	return files
}

func cmdC01Diff(seed uint64, n int, dir string) {
	r := newRng(seed)
	st := newStats()
	kinds := map[string]int{}
	// generate first (one PRNG stream), build the reference programs in parallel, then compare in order
	type job struct {
		src   string
		files map[string]string
		hyg   bool
	}
	jobs := make([]job, n)
	var pre []string
	hk := map[string]int{}
	for c := 0; c < n; c++ {
		if c%10 == 9 {
			// frame-hygiene programs (harness/c07hyg.go): locals initialised from untyped constants, used type-sensitively,
			// in functions called after float / byte / string work at the same stack depth
			jobs[c].src, _, _ = genHygieneProgram(r, false, hk)
			jobs[c].hyg = true
			pre = append(pre, asInt32(jobs[c].src))
			continue
		}
		switch c % 4 {
		case 0:
			jobs[c].src = genCoreProgram(r, 5)
		case 1:
			jobs[c].src = genScopeProgram(r, 5, 2+c%4, kinds)
		case 2:
			jobs[c].src = genFaultProgram(r)
		default:
			jobs[c].files = genMultiPackage(r)
		}
		if jobs[c].src != "" {
			pre = append(pre, asInt32(jobs[c].src))
		}
	}
	goRefPrefetch(pre)
	for c := 0; c < n; c++ {
		if jobs[c].hyg {
			st.add("frame-hygiene program", fmt.Sprintf("hygiene %d (%d lines)", c, strings.Count(jobs[c].src, "\n")))
			diffProgram(st, "hygiene-program", jobs[c].src)
			continue
		}
		switch c % 4 {
		case 0:
			src := jobs[c].src
			st.add("core program", fmt.Sprintf("core %d (%d lines)", c, strings.Count(src, "\n")))
			diffProgram(st, "core-program", src)
		case 1:
			src := jobs[c].src
			st.add("scope program", fmt.Sprintf("scope %d (%d lines)", c, strings.Count(src, "\n")))
			diffProgram(st, "scope-program", src)
		case 2:
			src := jobs[c].src
			st.add("fault program", fmt.Sprintf("fault %d (%d lines)", c, strings.Count(src, "\n")))
			diffProgram(st, "fault-program", src)
		default:
			files := jobs[c].files
			st.add("multi-package program", fmt.Sprintf("multi-package %d (%d files)", c, len(files)))
			exp, panicked, err := goRefRunTree(files)
			if err != nil {
				st.Histogram["invalid_go_program"]++
				st.Extra["invalid_go_multi"] = err.Error()
				continue
			}
			// goatlang resolves "ref/geom" through its shortened-path search: place the packages without the module prefix
			gfiles := map[string]string{}
			for p, s := range files {
				gfiles[strings.TrimPrefix(p, "ref/")] = s
			}
			got, gerr := goatRunTree(gfiles)
			if got != exp || (gerr != nil) != panicked {
				es := ""
				if gerr != nil {
					es = gerr.Error()
				}
				var all []string
				for p, s := range files {
					all = append(all, "// "+p+"\n"+s)
				}
				st.mismatchG("multi-package", progMismatch{Kind: "multi-package", Src: strings.Join(all, "\n"), Expected: exp, Got: got, Err: es})
			}
		}
	}
	st.write(dir + "/C01_diff_stats.json")
}
