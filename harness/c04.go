package main

import (
	"bytes"
	"fmt"
	"math"
	"strings"
	"testing/fstest"

	g "github.com/philhassey/goatlang"
)

// ---------------------------------------------------------------------------
// value-level correspondence: Gen/ValueOps_gen.v (translated from value.go)
// and GoSpec/GoPrim.v against the implementation and the real Go toolchain.

var binOps = []string{"ADD", "SUB", "MUL", "DIV", "MOD", "BITLSH", "BITRSH", "BITAND", "BITOR", "BITXOR", "LT", "LTE", "EQ", "NEQ"}

const (
	tagNil     = 0
	tagUntyped = 1
	tagUint8   = 3
	tagInt8    = 19
	tagUint32  = 7
	tagInt32   = 23
	tagBool    = 32
)

var numTags = []int{tagUntyped, tagUint8, tagInt8, tagUint32, tagInt32, tagFloat64}

func rangeOf(tag int) (lo, hi int64) {
	switch tag {
	case tagUint8:
		return 0, 255
	case tagInt8:
		return -128, 127
	case tagUint32:
		return 0, 4294967295
	case tagInt32:
		return -2147483648, 2147483647
	}
	return -1 << 40, 1 << 40
}

func intPool(r *rng, tag int) float64 {
	lo, hi := rangeOf(tag)
	b := []int64{0, 1, 2, 3, 7, 8, 31, 32, 33, 63, 64, 100, 127, 128, 255, lo, lo + 1, hi, hi - 1, -1, -2, -7, -100}
	if r.chance(60) {
		v := pick(r, b)
		if v < lo || v > hi {
			v = lo + (((v-lo)%(hi-lo+1))+(hi-lo+1))%(hi-lo+1)
		}
		return float64(v)
	}
	span := uint64(hi - lo + 1)
	return float64(lo + int64(r.next()%span))
}

var floatPool = []float64{0, math.Copysign(0, -1), 1, -1, 0.5, -0.5, 1.5, 2.5, -2.5, 3.999, 1e-310, 5e-324, math.MaxFloat64, -math.MaxFloat64,
	math.Inf(1), math.Inf(-1), math.NaN(), 9007199254740992, 9007199254740993, -9007199254740992, 4294967296, 2147483648, -2147483649, 1e19, -1e19, 255.9, 256, -129.5, 1e300, 0.1, 0.2, 0.3, 100, 3, 7}

func floatVal(r *rng) float64 {
	if r.chance(70) {
		return pick(r, floatPool)
	}
	return math.Float64frombits(r.next())
}

func valOf(r *rng, tag int) g.Value {
	if tag == tagFloat64 {
		return g.VerifMake(tag, floatVal(r))
	}
	return g.VerifMake(tag, intPool(r, tag))
}

func resCoq(f func() g.Value) string {
	var out string
	func() {
		defer func() {
			if e := recover(); e != nil {
				out = "Panic"
			}
		}()
		out = "(Ok " + coqValue(f()) + ")"
	}()
	return out
}

const corrHeader = "From Coq Require Import ZArith List Floats.\nFrom GV Require Import GoSpec.GoPrim Model.Corr.\nImport ListNotations.\nOpen Scope Z_scope.\n"

func cmdC04Corr(seed uint64, n int, dir string) {
	r := newRng(seed)
	st := newStats()
	var cases []string
	add := func(class, c string) {
		cases = append(cases, c)
		st.add(class, c)
	}
	// 1. binary operators on all tag pairs (well-typed pairs weighted up)
	for i := 0; i < n; i++ {
		opn := r.intn(len(binOps))
		ta := pick(r, numTags)
		tb := ta
		if r.chance(25) {
			tb = pick(r, numTags)
		} else if r.chance(20) {
			tb = tagUntyped
		}
		if r.chance(10) {
			ta, tb = tb, ta
		}
		a, b := valOf(r, ta), valOf(r, tb)
		if opn == 5 || opn == 6 { // keep most shift counts small
			if r.chance(85) && tb != tagFloat64 {
				b = g.VerifMake(tb, float64(r.intn(40)))
			}
		}
		res := resCoq(func() g.Value { return g.VerifBinOp(binOps[opn], a, b) })
		add("bin:"+binOps[opn], fmt.Sprintf("CBin %d %s %s %s", opn, coqValue(a), coqValue(b), res))
	}
	// strings and bools through the comparison / add operators
	strs := []string{"", "a", "b", "ab", "a\x00", "\xff", "é", "aa", "z"}
	for _, s := range strs {
		for _, t := range strs {
			for _, opn := range []int{0, 10, 11, 12, 13} {
				a, b := g.String(s), g.String(t)
				res := resCoq(func() g.Value { return g.VerifBinOp(binOps[opn], a, b) })
				add("bin:str:"+binOps[opn], fmt.Sprintf("CBin %d %s %s %s", opn, coqValue(a), coqValue(b), res))
			}
		}
	}
	for _, x := range []bool{false, true} {
		for _, y := range []bool{false, true} {
			for _, opn := range []int{12, 13} {
				a, b := g.Bool(x), g.Bool(y)
				res := resCoq(func() g.Value { return g.VerifBinOp(binOps[opn], a, b) })
				add("bin:bool", fmt.Sprintf("CBin %d %s %s %s", opn, coqValue(a), coqValue(b), res))
			}
		}
	}
	// 2. assign and convert
	allTags := []int{tagNil, tagUntyped, tagUint8, tagInt8, tagUint32, tagInt32, tagFloat64, tagBool, tagString, 128, 160, 192, 224, 128 | 23<<8}
	for i := 0; i < n/2; i++ {
		ta := pick(r, []int{tagNil, tagUntyped, tagUntyped, tagUint8, tagInt8, tagUint32, tagInt32, tagFloat64, tagBool})
		var v g.Value
		switch ta {
		case tagNil:
			v = g.Nil()
		case tagBool:
			v = g.Bool(r.chance(50))
		case tagUntyped:
			if r.chance(50) {
				v = g.VerifMake(ta, pick(r, []float64{0, 1, -1, 127, 128, 255, 256, -128, -129, 2147483647, 2147483648, -2147483648, -2147483649, 4294967295, 4294967296, 4000000000, 1e15}))
			} else {
				v = valOf(r, ta)
			}
		default:
			v = valOf(r, ta)
		}
		t := pick(r, allTags)
		out := g.VerifAssign(v, t)
		add("assign", fmt.Sprintf("CAssign %s %d %s", coqValue(v), t, coqValue(out)))
		ct := pick(r, []int{tagUint8, tagInt8, tagUint32, tagInt32, tagFloat64, tagBool, tagNil})
		if ta == tagNil {
			continue
		}
		res := resCoq(func() g.Value { return g.VerifConvert(v, ct) })
		add("convert", fmt.Sprintf("CConvert %s %d %s", coqValue(v), ct, res))
	}
	// string(rune) conversions
	for _, c := range []float64{0, 65, 127, 128, 233, 2047, 2048, 65535, 65536, 1114111, 1114112, 55296, 57343, -1, 8364} {
		v := g.VerifMake(tagInt32, c)
		res := resCoq(func() g.Value { return g.VerifConvert(v, tagString) })
		add("convert:string", fmt.Sprintf("CConvert %s %d %s", coqValue(v), tagString, res))
	}
	// 3. validation of GoPrim against the real toolchain (native Go arithmetic)
	for i := 0; i < n/2; i++ {
		f := floatVal(r)
		if r.chance(40) {
			f = float64(int64(r.next())>>uint(r.intn(60))) + pick(r, []float64{0, 0.5, -0.5, 0.99})
		}
		add("prim:cvt", fmt.Sprintf("CCvt I8 %s %s", coqFloat(f), coqZ(int64(int8(f)))))
		add("prim:cvt", fmt.Sprintf("CCvt U8 %s %s", coqFloat(f), coqZ(int64(uint8(f)))))
		add("prim:cvt", fmt.Sprintf("CCvt I32 %s %s", coqFloat(f), coqZ(int64(int32(f)))))
		add("prim:cvt", fmt.Sprintf("CCvt U32 %s %s", coqFloat(f), coqZ(int64(uint32(f)))))
		add("prim:cvt", fmt.Sprintf("CCvt I64 %s %s", coqFloat(f), coqZ(int64(f))))
		u := uint64(f)
		add("prim:cvt", fmt.Sprintf("CCvt U64 %s %s", coqFloat(f), fmt.Sprint(u)))
	}
	for i := 0; i < n; i++ {
		opn := pick(r, []int{0, 1, 2, 3, 4, 5, 6, 7, 8, 9, 14, 15, 16})
		switch r.intn(4) {
		case 0:
			a, b := int8(intPool(r, tagInt8)), int8(intPool(r, tagInt8))
			add("prim:arith:i8", fmt.Sprintf("CArith I8 %d %s %s %s", opn, coqZ(int64(a)), coqZ(int64(b)), nativeRes(func() int64 { return int64(nat(opn, a, b)) })))
		case 1:
			a, b := uint8(intPool(r, tagUint8)), uint8(intPool(r, tagUint8))
			add("prim:arith:u8", fmt.Sprintf("CArith U8 %d %s %s %s", opn, coqZ(int64(a)), coqZ(int64(b)), nativeRes(func() int64 { return int64(nat(opn, a, b)) })))
		case 2:
			a, b := int32(intPool(r, tagInt32)), int32(intPool(r, tagInt32))
			if (opn == 5 || opn == 6) && r.chance(80) {
				b = int32(r.intn(40)) - 3
			}
			add("prim:arith:i32", fmt.Sprintf("CArith I32 %d %s %s %s", opn, coqZ(int64(a)), coqZ(int64(b)), nativeRes(func() int64 { return int64(nat(opn, a, b)) })))
		case 3:
			a, b := uint32(intPool(r, tagUint32)), uint32(intPool(r, tagUint32))
			if (opn == 5 || opn == 6) && r.chance(80) {
				b = uint32(r.intn(40))
			}
			add("prim:arith:u32", fmt.Sprintf("CArith U32 %d %s %s %s", opn, coqZ(int64(a)), coqZ(int64(b)), nativeRes(func() int64 { return int64(nat(opn, a, b)) })))
		}
	}
	files := writeCases(dir, "cases_C04", corrHeader, "vmismatches", cases, 1500)
	st.Extra["files"] = files
	st.write(dir + "/C04_corr_stats.json")
}

func nativeRes(f func() int64) string {
	var out string
	func() {
		defer func() {
			if e := recover(); e != nil {
				out = "Panic"
			}
		}()
		out = "(Ok " + coqZ(f()) + ")"
	}()
	return out
}

type integer interface {
	~int8 | ~uint8 | ~int32 | ~uint32
}

// nat evaluates a op b with the real Go operators for the static type T.
func nat[T integer](opn int, a, b T) T {
	switch opn {
	case 0:
		return a + b
	case 1:
		return a - b
	case 2:
		return a * b
	case 3:
		return a / b
	case 4:
		return a % b
	case 5:
		return a << b
	case 6:
		return a >> b
	case 7:
		return a & b
	case 8:
		return a | b
	case 9:
		return a ^ b
	case 14:
		return a &^ b
	case 15:
		return ^a
	case 16:
		return -a
	}
	panic("nat: bad op")
}

// ---------------------------------------------------------------------------
// system-level sweep: script functions against native Go arithmetic

type numType struct {
	name string
	tag  int
	mk   func(int64) g.Value
}

var sweepTypes = []numType{
	{"int8", tagInt8, func(x int64) g.Value { return g.Int8(int8(x)) }},
	{"uint8", tagUint8, func(x int64) g.Value { return g.Uint8(uint8(x)) }},
	{"int32", tagInt32, func(x int64) g.Value { return g.Int32(int32(x)) }},
	{"uint32", tagUint32, func(x int64) g.Value { return g.Uint32(uint32(x)) }},
}

var sweepOps = []struct {
	sym string
	n   int
	cmp bool
}{{"+", 0, false}, {"-", 1, false}, {"*", 2, false}, {"/", 3, false}, {"%", 4, false}, {"<<", 5, false}, {">>", 6, false}, {"&", 7, false}, {"|", 8, false}, {"^", 9, false},
	{"<", 10, true}, {"<=", 11, true}, {"==", 12, true}, {"!=", 13, true}, {">", 20, true}, {">=", 21, true}}

func nativeTyped(tn string, opn int, a, b int64) (res int64, isBool bool, panicked bool) {
	defer func() {
		if e := recover(); e != nil {
			panicked = true
		}
	}()
	cmp := func(lt, le, eq bool) int64 {
		var v bool
		switch opn {
		case 10:
			v = lt
		case 11:
			v = le
		case 12:
			v = eq
		case 13:
			v = !eq
		case 20:
			v = !le
		case 21:
			v = !lt
		}
		if v {
			return 1
		}
		return 0
	}
	if opn >= 10 && opn <= 13 || opn >= 20 {
		return cmp(a < b, a <= b, a == b), true, false
	}
	switch tn {
	case "int8":
		return int64(nat(opn, int8(a), int8(b))), false, false
	case "uint8":
		return int64(nat(opn, uint8(a), uint8(b))), false, false
	case "int32":
		return int64(nat(opn, int32(a), int32(b))), false, false
	case "uint32":
		return int64(nat(opn, uint32(a), uint32(b))), false, false
	}
	panic("bad type")
}

type sweepMismatch struct {
	Kind     string  `json:"kind"`
	Type     string  `json:"type"`
	Op       string  `json:"op"`
	Position string  `json:"position"`
	Func     string  `json:"func"`
	Src      string  `json:"src"`
	Args     []int64 `json:"args"`
	Expected string  `json:"expected"`
	Got      string  `json:"got"`
}

func descr(v g.Value, vm *g.VM) string {
	return fmt.Sprintf("%s:%s", g.VerifTypeStr(vm, v), v.String())
}

func opName(sym string) string {
	return map[string]string{"+": "add", "-": "sub", "*": "mul", "/": "quo", "%": "rem", "<<": "shl", ">>": "shr", "&": "and", "|": "or", "^": "xor", "<": "lt", "<=": "le", "==": "eq", "!=": "ne", ">": "gt", ">=": "ge"}[sym]
}

func cmdC04Sweep(seed uint64, thorough bool, dir string) {
	r := newRng(seed)
	st := newStats()
	evals := 0
	for _, nt := range sweepTypes {
		lo, hi := rangeOf(nt.tag)
		// operand sets
		var as, bs []int64
		if nt.tag == tagInt8 || nt.tag == tagUint8 {
			for x := lo; x <= hi; x++ {
				as = append(as, x)
				bs = append(bs, x)
			}
		} else {
			base := []int64{lo, lo + 1, lo + 2, hi, hi - 1, hi - 2, 0, 1, 2, 3, 7, 8, 15, 16, 31, 32, 33, 255, 256, 65535, 65536, -1, -2, -3, -256, (lo + hi) / 2, 1000003, -1000003, 46341, 46340, -46341}
			for _, x := range base {
				if x >= lo && x <= hi {
					as = append(as, x)
					bs = append(bs, x)
				}
			}
			nr := 40
			if thorough {
				nr = 400
			}
			for i := 0; i < nr; i++ {
				as = append(as, lo+int64(r.next()%uint64(hi-lo+1)))
				bs = append(bs, lo+int64(r.next()%uint64(hi-lo+1)))
			}
		}
		// constants for var-op-const / const-op-var / op= const / declarations
		var consts []int64
		if (nt.tag == tagInt8 || nt.tag == tagUint8) && thorough {
			for x := lo; x <= hi; x++ {
				consts = append(consts, x)
			}
		} else {
			for _, x := range []int64{lo, lo + 1, hi, hi - 1, 0, 1, 2, 3, 7, 8, 9, 31, 32, 100, 127, 128, 200, 255, 1000, 65536, 2147483647, 4000000000, -1, -2, -100} {
				if x >= lo && x <= hi {
					consts = append(consts, x)
				}
			}
		}
		var sb strings.Builder
		type fn struct {
			name, pos, op string
			opn           int
			cmp           bool
			nargs         int
			k             int64 // constant
			kLeft         bool
		}
		var fns []fn
		T := nt.name
		for _, op := range sweepOps {
			on := opName(op.sym)
			rt := T
			if op.cmp {
				rt = "bool"
			}
			n1 := fmt.Sprintf("vv_%s", on)
			fmt.Fprintf(&sb, "func %s(a, b %s) %s { return a %s b }\n", n1, T, rt, op.sym)
			fns = append(fns, fn{n1, "var op var", op.sym, op.n, op.cmp, 2, 0, false})
			if !op.cmp {
				n2 := fmt.Sprintf("asg_%s", on)
				fmt.Fprintf(&sb, "func %s(a, b %s) %s { a %s= b; return a }\n", n2, T, T, op.sym)
				fns = append(fns, fn{n2, "x op= y", op.sym, op.n, false, 2, 0, false})
			}
			for ki, k := range consts {
				if (op.sym == "/" || op.sym == "%") && k == 0 {
					continue
				}
				if (op.sym == "<<" || op.sym == ">>") && (k < 0 || k > 40) {
					continue
				}
				n3 := fmt.Sprintf("vc_%s_%d", on, ki)
				fmt.Fprintf(&sb, "func %s(a %s) %s { return a %s %d }\n", n3, T, rt, op.sym, k)
				fns = append(fns, fn{n3, "var op const", op.sym, op.n, op.cmp, 1, k, false})
				if op.sym != "<<" && op.sym != ">>" {
					n4 := fmt.Sprintf("cv_%s_%d", on, ki)
					fmt.Fprintf(&sb, "func %s(a %s) %s { return %d %s a }\n", n4, T, rt, k, op.sym)
					fns = append(fns, fn{n4, "const op var", op.sym, op.n, op.cmp, 1, k, true})
				}
				if !op.cmp {
					n5 := fmt.Sprintf("asgc_%s_%d", on, ki)
					fmt.Fprintf(&sb, "func %s(a %s) %s { a %s= %d; return a }\n", n5, T, T, op.sym, k)
					fns = append(fns, fn{n5, "x op= const", op.sym, op.n, false, 1, k, false})
				}
			}
		}
		fmt.Fprintf(&sb, "func inc(a %s) %s { a++; return a }\nfunc dec(a %s) %s { a--; return a }\n", T, T, T, T)
		fmt.Fprintf(&sb, "func inc2(a %s) %s { b := a; b++; b++; return b }\n", T, T)
		fmt.Fprintf(&sb, "var gv %s\nfunc ginc(a %s) %s { gv = a; gv++; return gv }\nfunc gdec(a %s) %s { gv = a; gv--; return gv }\n", T, T, T, T, T)
		fmt.Fprintf(&sb, "func sinc(a %s) %s { s := []%s{a}; s[0]++; return s[0] }\n", T, T, T)
		fmt.Fprintf(&sb, "func neg(a %s) %s { return -a }\nfunc com(a %s) %s { return ^a }\n", T, T, T, T)
		fns = append(fns, fn{"inc", "x++", "+", 0, false, 1, 1, false}, fn{"dec", "x--", "-", 1, false, 1, 1, false},
			fn{"ginc", "x++ (global)", "+", 0, false, 1, 1, false}, fn{"gdec", "x-- (global)", "-", 1, false, 1, 1, false},
			fn{"sinc", "s[0]++", "+", 0, false, 1, 1, false},
			fn{"neg", "-x", "neg", 16, false, 1, 0, false}, fn{"com", "^x", "com", 15, false, 1, 0, false})
		// declarations with constant initialiser
		type decl struct {
			name, form string
			k          int64
		}
		var decls []decl
		for ki, k := range consts {
			forms := []struct{ n, body string }{
				{"var x T = K", fmt.Sprintf("var x %s = %d; return x", T, k)},
				{"x := T(K)", fmt.Sprintf("x := %s(%d); return x", T, k)},
				{"var x T; x = K", fmt.Sprintf("var x %s; x = %d; return x", T, k)},
				{"return K", fmt.Sprintf("return %d", k)},
				{"[]T{K}[0]", fmt.Sprintf("s := []%s{%d}; return s[0]", T, k)},
				{"map[int]T{0:K}[0]", fmt.Sprintf("m := map[int]%s{0: %d}; return m[0]", T, k)},
				{"param(K)", fmt.Sprintf("return id(%d)", k)},
				{"struct field", fmt.Sprintf("p := &pt{v: %d}; return p.v", k)},
				{"field store", fmt.Sprintf("p := &pt{}; p.v = %d; return p.v", k)},
				{"append(K)", fmt.Sprintf("var s []%s; s = append(s, %d); return s[0]", T, k)},
				// constant EXPRESSIONS (not bare literals) as initialisers: still untyped constants, converted to T
				{"var x T = K*1", fmt.Sprintf("var x %s = %d * 1; return x", T, k)},
				{"var x T = (K)", fmt.Sprintf("var x %s = (%d); return x", T, k)},
				{"var x T = K+1-1", fmt.Sprintf("var x %s = %d + 1 - 1; return x", T, k)},
				{"var x, y T = K*1, 1", fmt.Sprintf("var x, y %s = %d * 1, 1; _ = y; return x", T, k)},
			}
			for fi, f := range forms {
				n := fmt.Sprintf("decl_%d_%d", fi, ki)
				fmt.Fprintf(&sb, "func %s() %s { %s }\n", n, T, f.body)
				decls = append(decls, decl{n, f.n, k})
			}
			n := fmt.Sprintf("gdecl_%d", ki)
			fmt.Fprintf(&sb, "var gk%d %s = %d\nfunc %s() any { return gk%d }\n", ki, T, k, n, ki)
			decls = append(decls, decl{n, "var g T = K (global)", k})
			n2 := fmt.Sprintf("gdeclx_%d", ki)
			fmt.Fprintf(&sb, "var gx%d %s = %d * 1\nfunc %s() any { return gx%d }\n", ki, T, k, n2, ki)
			decls = append(decls, decl{n2, "var g T = K*1 (global)", k})
		}
		fmt.Fprintf(&sb, "type pt struct { v %s }\nfunc id(a %s) %s { return a }\n", T, T, T)
		src := sb.String()
		var out bytes.Buffer
		vm := g.New(g.WithStdout(&out))
		if _, err := vm.Eval(fstest.MapFS{}, "in", src); err != nil {
			st.mismatch(sweepMismatch{Kind: "setup", Type: T, Src: "", Got: err.Error()})
			continue
		}
		check := func(f fn, args []int64, exp int64, expBool, expPanic bool) {
			evals++
			var vals []g.Value
			for _, a := range args {
				vals = append(vals, nt.mk(a))
			}
			rets, err := vm.Call("main."+f.name, 1, vals...)
			key := fmt.Sprintf("%s %s %s", T, f.pos, f.op)
			st.add(key, fmt.Sprintf("%s %s(%v)", T, f.name, args))
			var expS, gotS string
			if expPanic {
				expS = "panic"
			} else if expBool {
				expS = fmt.Sprintf("bool:%v", exp != 0)
			} else {
				expS = fmt.Sprintf("%s:%d", T, exp)
			}
			if err != nil {
				gotS = "panic"
			} else {
				gotS = descr(rets[0], vm)
			}
			if expS != gotS {
				st.mismatchG(T+"|"+f.pos+"|"+f.op, sweepMismatch{Kind: "arith", Type: T, Op: f.op, Position: f.pos, Func: f.name, Src: funcSrc(src, f.name), Args: args, Expected: expS, Got: gotS})
			}
		}
		for _, f := range fns {
			if f.nargs == 2 {
				for _, a := range as {
					for _, b := range bs {
						if (f.op == "<<" || f.op == ">>") && len(bs) > 100 && (b < -2 || b > 12) && b != hi && b != lo {
							continue
						}
						exp, isB, pan := nativeTyped(T, f.opn, a, b)
						check(f, []int64{a, b}, exp, isB, pan)
					}
				}
			} else {
				for _, a := range as {
					x, y := a, f.k
					if f.kLeft {
						x, y = f.k, a
					}
					exp, isB, pan := nativeTyped(T, f.opn, x, y)
					check(f, []int64{a}, exp, isB, pan)
				}
			}
		}
		for _, d := range decls {
			evals++
			rets, err := vm.Call("main."+d.name, 1)
			st.add(T+" decl "+d.form, fmt.Sprintf("%s %s", d.name, funcSrc(src, d.name)))
			expS := fmt.Sprintf("%s:%d", T, d.k)
			gotS := "panic"
			if err == nil {
				gotS = descr(rets[0], vm)
			}
			if expS != gotS {
				st.mismatchG(T+"|decl|"+d.form, sweepMismatch{Kind: "decl", Type: T, Position: d.form, Func: d.name, Src: funcSrc(src, d.name), Args: []int64{d.k}, Expected: expS, Got: gotS})
			}
		}
	}
	// float64: IEEE arithmetic and comparisons
	{
		src := "func add(a, b float64) float64 { return a + b }\nfunc sub(a, b float64) float64 { return a - b }\nfunc mul(a, b float64) float64 { return a * b }\nfunc quo(a, b float64) float64 { return a / b }\n" +
			"func lt(a, b float64) bool { return a < b }\nfunc le(a, b float64) bool { return a <= b }\nfunc eq(a, b float64) bool { return a == b }\nfunc ne(a, b float64) bool { return a != b }\nfunc gt(a, b float64) bool { return a > b }\nfunc ge(a, b float64) bool { return a >= b }\n" +
			"func neg(a, b float64) float64 { return -a }\nfunc asg(a, b float64) float64 { a += b; a *= b; return a }\nfunc inc(a, b float64) float64 { a++; return a }\n" +
			"func c2(a, b float64) float64 { return a * 2 + 1 }\nfunc toi32(a, b float64) int32 { return int32(a) }\nfunc tou8(a, b float64) uint8 { return uint8(a) }\nfunc fromi(a, b float64) float64 { var i int32 = 7; return float64(i) + a }\n"
		var out bytes.Buffer
		vm := g.New(g.WithStdout(&out))
		_, err := vm.Eval(fstest.MapFS{}, "in", src)
		must(err)
		pool := append([]float64{}, floatPool...)
		nr := 60
		if thorough {
			nr = 600
		}
		for i := 0; i < nr; i++ {
			pool = append(pool, math.Float64frombits(r.next()))
		}
		fl := func(name string, a, b float64, exp float64) {
			evals++
			rets, err := vm.Call("main."+name, 1, g.Float64(a), g.Float64(b))
			st.add("float64 "+name, fmt.Sprintf("%s(%x,%x)", name, a, b))
			got := math.NaN()
			ok := err == nil && g.VerifTag(rets[0]) == tagFloat64
			if ok {
				got = g.VerifNum(rets[0])
			}
			if !ok || math.Float64bits(got) != math.Float64bits(exp) && !(math.IsNaN(got) && math.IsNaN(exp)) {
				st.mismatchG("float64|"+name, sweepMismatch{Kind: "float", Type: "float64", Op: name, Func: name, Src: funcSrc(src, name), Expected: fmt.Sprintf("%x", exp), Got: fmt.Sprintf("%x (err %v)", got, err), Args: []int64{int64(math.Float64bits(a)), int64(math.Float64bits(b))}})
			}
		}
		bl := func(name string, a, b float64, exp bool) {
			evals++
			rets, err := vm.Call("main."+name, 1, g.Float64(a), g.Float64(b))
			st.add("float64 "+name, fmt.Sprintf("%s(%x,%x)", name, a, b))
			if err != nil || g.VerifTag(rets[0]) != tagBool || rets[0].Bool() != exp {
				st.mismatchG("float64|"+name, sweepMismatch{Kind: "float", Type: "float64", Op: name, Func: name, Src: funcSrc(src, name), Expected: fmt.Sprint(exp), Got: fmt.Sprintf("%v (err %v)", rets, err), Args: []int64{int64(math.Float64bits(a)), int64(math.Float64bits(b))}})
			}
		}
		for _, a := range pool {
			for _, b := range pool {
				fl("add", a, b, a+b)
				fl("sub", a, b, a-b)
				fl("mul", a, b, a*b)
				fl("quo", a, b, a/b)
				bl("lt", a, b, a < b)
				bl("le", a, b, a <= b)
				bl("eq", a, b, a == b)
				bl("ne", a, b, a != b)
				bl("gt", a, b, a > b)
				bl("ge", a, b, a >= b)
				x := a
				x += b
				x *= b
				fl("asg", a, b, x)
			}
			fl("neg", a, 0, -a)
			fl("inc", a, 0, a+1)
			fl("c2", a, 0, a*2+1)
			fl("fromi", a, 0, 7+a)
			if a > -2147483648 && a < 2147483647 { // Go defines float->int only for in-range values
				evals++
				rets, err := vm.Call("main.toi32", 1, g.Float64(a), g.Float64(0))
				if err != nil || descr(rets[0], vm) != fmt.Sprintf("int32:%d", int32(a)) {
					st.mismatch(sweepMismatch{Kind: "float", Type: "float64", Op: "int32(f)", Func: "toi32", Expected: fmt.Sprint(int32(a)), Got: fmt.Sprint(rets, err)})
				}
			}
			if a > -1 && a < 256 {
				evals++
				rets, err := vm.Call("main.tou8", 1, g.Float64(a), g.Float64(0))
				if err != nil || descr(rets[0], vm) != fmt.Sprintf("uint8:%d", uint8(a)) {
					st.mismatch(sweepMismatch{Kind: "float", Type: "float64", Op: "uint8(f)", Func: "tou8", Expected: fmt.Sprint(uint8(a)), Got: fmt.Sprint(rets, err)})
				}
			}
		}
	}
	st.Extra["evaluations"] = evals
	st.Extra["exhaustive_8bit"] = true
	st.write(dir + "/C04_sweep_stats.json")
}

func funcSrc(src, name string) string {
	for _, l := range strings.Split(src, "\n") {
		if strings.HasPrefix(l, "func "+name+"(") {
			return l
		}
	}
	return ""
}
