package main

import (
	"fmt"
	"math"
	"regexp"
	"strings"
	"testing/fstest"

	g "github.com/philhassey/goatlang"
)

func init() {
	register("c19-corr", func(a cmdArgs) { cmdC19Corr(a.seed, a.n, a.dir) })
	register("c19-script", func(a cmdArgs) { cmdC19Script(a.seed, a.n, a.dir) })
}

// ---------------------------------------------------------------------------
// C19 correspondence.
//  (a) constructors / accessors of the host API against Gen/ValueOps_gen.v
//      (RCtor*/RAcc* cases) and against the round-trip expectation itself;
//  (b) NewFunc adapters, call/callReady (through the real exec loop, hook
//      VerifExec), VM.Func, bound methods, script functions and natives that
//      call back into the VM against Model/Call.v (AExec/AFunc cases) and
//      against a native oracle written directly from the property statement.

func c19IsSlice(v g.Value) bool { return g.VerifTag(v)&255 == 128 && g.VerifCap(v) >= 0 }

func c19Items(v g.Value) []g.Value {
	items := make([]g.Value, v.Len())
	for i := range items {
		items[i], _ = v.Get(g.Int(i))
	}
	return items
}

// coqCell renders a value as a Model/Call.v cell.
func coqCell(v g.Value) string {
	tag := g.VerifTag(v)
	switch {
	case c19IsSlice(v):
		return fmt.Sprintf("(CPack %d %s)", tag>>8, coqCells(c19Items(v)))
	case tag&255 == 192:
		return "(CFn 77)"
	}
	return "(CVal " + coqValue(v) + ")"
}

func coqCells(vs []g.Value) string {
	p := make([]string, len(vs))
	for i, v := range vs {
		p[i] = coqCell(v)
	}
	return "[" + strings.Join(p, "; ") + "]"
}

func coqZlist(xs []int) string {
	p := make([]string, len(xs))
	for i, x := range xs {
		p[i] = coqZ(int64(x))
	}
	return "[" + strings.Join(p, "; ") + "]"
}

var c19RaiseRe = regexp.MustCompile(`C19RAISE:(\d+)`)

func c19RaisePayload(id string) string { return "[CVal (mkValue 23 (Zn " + id + ") PNone)]" }

// c19ErrClass maps an error message to the error classes of Model/CorrC19.v.
func c19ErrClass(msg string) (int, string) {
	if m := c19RaiseRe.FindStringSubmatch(msg); m != nil {
		return 20, c19RaisePayload(m[1])
	}
	switch {
	case strings.Contains(msg, "incorrect args"):
		return 1, "[]"
	case strings.Contains(msg, "incorrect returns"):
		return 2, "[]"
	case strings.Contains(msg, "slice bounds out of range"):
		return 11, "[]"
	case strings.Contains(msg, "makeslice"):
		return 12, "[]"
	case strings.Contains(msg, "index out of range"):
		return 13, "[]"
	case strings.Contains(msg, "interface conversion"):
		return 14, "[]"
	case strings.Contains(msg, "nil pointer dereference"):
		return 15, "[]"
	}
	return 99, "[]"
}

func c19Obs(out []g.Value, err error) string {
	if err != nil {
		c, p := c19ErrClass(err.Error())
		return fmt.Sprintf("(OErr %d %s)", c, p)
	}
	return "(OStack " + coqCells(out) + ")"
}

// ---- values ------------------------------------------------------------------

var c19Strings = []string{"", "a", "ab", "héllo", "x\x00y", "日本", "a b", "\xff\xfe", "0123456789abcdef0123456789abcdef"}

func c19Scalar(r *rng) g.Value {
	switch r.intn(11) {
	case 0, 1:
		return g.Int32(int32(intPool(r, tagInt32)))
	case 2:
		return g.VerifNewUntyped(int(int32(intPool(r, tagInt32))))
	case 3:
		return g.Int8(int8(intPool(r, tagInt8)))
	case 4:
		return g.Uint8(uint8(intPool(r, tagUint8)))
	case 5:
		return g.Uint32(uint32(intPool(r, tagUint32)))
	case 6:
		return g.Float64(pick(r, floatPool))
	case 7:
		return g.Bool(r.chance(50))
	case 8:
		return g.Nil()
	}
	return g.String(pick(r, c19Strings))
}

func c19Val(r *rng) g.Value {
	if r.chance(12) {
		n := r.intn(4)
		items := make([]g.Value, n)
		et := pick(r, []int{tagInt32, tagFloat64, tagString})
		for i := range items {
			switch et {
			case tagInt32:
				items[i] = g.Int32(int32(r.intn(200) - 100))
			case tagFloat64:
				items[i] = g.Float64(float64(r.intn(64)) / 4)
			default:
				items[i] = g.String(pick(r, c19Strings))
			}
		}
		return g.NewSlice(g.Type(et), items)
	}
	return c19Scalar(r)
}

func c19Vals(r *rng, n int) []g.Value {
	vs := make([]g.Value, n)
	for i := range vs {
		vs[i] = c19Val(r)
	}
	return vs
}

func c19Copy(vs []g.Value) []g.Value { return append(make([]g.Value, 0, len(vs)), vs...) }

// Value.assign(0): what NewSlice(0, ...) does to the surplus arguments of a native
func c19Assign0(v g.Value) g.Value {
	if g.VerifTag(v) == tagUntyped {
		return g.Int32(int32(g.VerifNum(v)))
	}
	return v
}

// ---- functions under test -------------------------------------------------------

type c19Log struct {
	called int
	recv   string
}

func (l *c19Log) String() string {
	switch l.called {
	case 0:
		return "RNot"
	case 1:
		return "(RGot " + l.recv + ")"
	}
	return fmt.Sprintf("CALLED-%d-TIMES", l.called)
}

type c19Fn struct {
	desc   string // Coq fdesc
	val    g.Value
	log    *c19Log // nil: the callee does not log (script functions)
	native bool    // plain logging native: the direct oracle applies
	form   int
	argc   int
	outs   []g.Value
	raise  int
}

// c19Callback builds a callback of signature form 0..5 around body; body gets the
// received cells (variadic: fixed arguments and spread items) and answers the results.
func c19Callback(form, argc, rets int, body func(a, va []g.Value) []g.Value) g.Value {
	one := func(o []g.Value) g.Value {
		if len(o) == 0 {
			panic("c19 harness: single-result form without a result")
		}
		return o[0]
	}
	switch form {
	case 0:
		return g.NewFunc(argc, rets, func(vm *g.VM) { body(nil, nil) })
	case 1:
		return g.NewFunc(argc, rets, func(vm *g.VM) g.Value { return one(body(nil, nil)) })
	case 2:
		return g.NewFunc(argc, rets, func(vm *g.VM, a []g.Value) { body(a, nil) })
	case 3:
		return g.NewFunc(argc, rets, func(vm *g.VM, a []g.Value) g.Value { return one(body(a, nil)) })
	case 4:
		return g.NewFunc(argc, rets, func(vm *g.VM, a []g.Value) []g.Value { return body(a, nil) })
	}
	return g.NewFunc(argc, rets, func(vm *g.VM, a []g.Value, va ...g.Value) []g.Value { return body(a, va) })
}

func c19Recv(form int, a, va []g.Value) string {
	if form == 5 {
		p := make([]string, 0, len(a)+1)
		for _, v := range a {
			p = append(p, coqCell(v))
		}
		p = append(p, "(CPack (-1) "+coqCells(va)+")")
		return "[" + strings.Join(p, "; ") + "]"
	}
	return coqCells(a)
}

func c19Native(form, argc, rets int, outs []g.Value, raise int) *c19Fn {
	log := &c19Log{}
	beh := "(BRet " + coqCells(outs) + ")"
	if raise > 0 {
		beh = "(BRaise " + c19RaisePayload(fmt.Sprint(raise)) + ")"
	}
	fn := &c19Fn{desc: fmt.Sprintf("(DNative %d %s %d %s)", form, coqZ(int64(argc)), rets, beh), log: log, native: true, form: form, argc: argc, outs: outs, raise: raise}
	fn.val = c19Callback(form, argc, rets, func(a, va []g.Value) []g.Value {
		log.called++
		log.recv = c19Recv(form, a, va)
		if raise > 0 {
			panic(fmt.Errorf("C19RAISE:%d", raise))
		}
		return c19Copy(outs)
	})
	return fn
}

// c19Nested: a native that hands its arguments to vm.Func(inner, k, ...) -- as
// slices.SortFunc does -- answers the inner results and re-raises the inner error.
func c19Nested(vm *g.VM, form, argc, rets int, inner *c19Fn, k int) *c19Fn {
	log := &c19Log{}
	fn := &c19Fn{desc: fmt.Sprintf("(DNested %d %d %d %s %d)", form, argc, rets, inner.desc, k), log: log, form: form, argc: argc}
	fn.val = c19Callback(form, argc, rets, func(a, va []g.Value) []g.Value {
		log.called++
		log.recv = c19Recv(form, a, va)
		params := append(c19Copy(a), va...)
		rs, err := vm.Func(inner.val, k, params...)
		if err != nil {
			panic(err)
		}
		return c19Copy(rs)
	})
	return fn
}

type c19H struct {
	r      *rng
	st     *stats
	vm     *g.VM
	cases  []string
	ops    map[string]int
	tType  g.Value
	script []c19ScriptFn
}

func (h *c19H) fail(group string, rec map[string]any) {
	rec["group"] = group
	h.st.mismatchG(group, rec)
}

// c19Deliver is the property's expectation for results: the first xRets, in order.
func c19Deliver(lo, outs []g.Value, xRets int) string {
	if len(outs) < xRets {
		return "(OErr 2 [])"
	}
	return "(OStack " + coqCells(append(c19Copy(lo), outs[:xRets]...)) + ")"
}

// oracle: expectation for a plain logging native, written from the property statement.
func c19Oracle(fn *c19Fn, spread bool, lo, args []g.Value, A, B int) (recv, obs string, ok bool) {
	if !fn.native || A != len(args) || fn.argc < 0 {
		return "", "", false
	}
	raised := "(OErr 20 " + c19RaisePayload(fmt.Sprint(fn.raise)) + ")"
	if fn.form < 5 {
		if A != fn.argc {
			return "RNot", "(OErr 1 [])", true
		}
		var got, eff []g.Value
		switch fn.form {
		case 0:
			eff = args
		case 1:
			eff = append(c19Copy(args), fn.outs[:1]...)
		case 2:
			got = args
		case 3:
			got, eff = args, fn.outs[:1]
		case 4:
			got, eff = args, fn.outs
		}
		recv = "(RGot " + coqCells(got) + ")"
		if fn.raise > 0 {
			return recv, raised, true
		}
		return recv, c19Deliver(lo, eff, B), true
	}
	if fn.argc == 0 {
		return "", "", false
	}
	var fixed, extra []g.Value
	if spread {
		if A != fn.argc {
			return "RNot", "(OErr 1 [])", true
		}
		last := args[fn.argc-1]
		if !c19IsSlice(last) {
			return "", "", false
		}
		fixed, extra = args[:fn.argc-1], c19Items(last)
	} else {
		if A < fn.argc-1 {
			return "RNot", "(OErr 12 [])", true
		}
		fixed = args[:fn.argc-1]
		for _, v := range args[fn.argc-1:] {
			extra = append(extra, c19Assign0(v))
		}
	}
	recv = "(RGot " + c19Recv(5, fixed, extra) + ")"
	if fn.raise > 0 {
		return recv, raised, true
	}
	return recv, c19Deliver(lo, fn.outs, B), true
}

func (h *c19H) check(kind, class, caseTxt string, fn *c19Fn, spread bool, lo, args []g.Value, A, B int, recv, obs string) {
	if strings.Contains(recv, "CALLED-") {
		h.fail("callback-called-more-than-once", map[string]any{"kind": kind, "class": class, "case": caseTxt})
		return
	}
	h.cases = append(h.cases, caseTxt)
	h.st.add(class, caseTxt)
	if fn == nil {
		return
	}
	if xr, xo, ok := c19Oracle(fn, spread, lo, args, A, B); ok {
		h.st.Histogram["oracle-checked"]++
		if xr != recv || xo != obs {
			h.fail("oracle:"+class, map[string]any{"kind": kind, "class": class, "case": caseTxt, "expected_received": xr, "observed_received": recv, "expected_outcome": xo, "observed_outcome": obs})
		}
	}
}

// exec runs one CALL / CALLVARIADIC {A, B} of the real exec loop on lo ++ args ++ [fnc].
func (h *c19H) exec(class string, fn *c19Fn, spread bool, lo, args []g.Value, A, B int) {
	stack := append(append(c19Copy(lo), args...), fn.val)
	op := h.ops["CALL"]
	if spread {
		op = h.ops["CALLVARIADIC"]
	}
	loS, argS := coqCells(lo), coqCells(args) // rendered before the call: the callee may assign in place
	var out []g.Value
	var err error
	escaped := c19Guard(func() { out, _, err = g.VerifExec(h.vm, [][4]int{{op, A, B, 0}}, stack) })
	recv := "RSkip"
	if fn.log != nil {
		recv = fn.log.String()
	}
	obs := c19Obs(out, err)
	txt := fmt.Sprintf("AExec %s %v %s %s %s %s %s %s", fn.desc, spread, loS, argS, coqZ(int64(A)), coqZ(int64(B)), recv, obs)
	if escaped != "" {
		h.fail("escaped-panic:"+class, map[string]any{"kind": "exec", "class": class, "case": txt, "panic": escaped})
		return
	}
	h.check("exec", class, txt, fn, spread, lo, args, A, B, recv, obs)
}

// fnc calls VM.Func(fn, xRets, params...) on the real VM.
func (h *c19H) fnc(class string, fn *c19Fn, other *g.Value, xRets int, params []g.Value) {
	pS := coqCells(params)
	var out []g.Value
	var err error
	desc, otherS, recv := "None", "(CVal (mkValue 0 (Zn 0) PNone))", "RSkip"
	callee := g.Nil()
	if fn != nil {
		desc, callee = "(Some "+fn.desc+")", fn.val
		if fn.log != nil {
			recv = "" // filled after the call
		}
	} else {
		callee, otherS = *other, coqCell(*other)
	}
	escaped := c19Guard(func() { out, err = h.vm.Func(callee, xRets, c19Copy(params)...) })
	if fn != nil && fn.log != nil {
		recv = fn.log.String()
	}
	if err == nil && len(out) != xRets {
		h.fail("func-result-count", map[string]any{"class": class, "fn": desc, "xRets": xRets, "got": len(out)})
	}
	obs := c19Obs(out, err)
	txt := fmt.Sprintf("AFunc %s %s %s %s %s %s", desc, otherS, coqZ(int64(xRets)), pS, recv, obs)
	if escaped != "" {
		h.fail("escaped-panic:"+class, map[string]any{"kind": "func", "class": class, "case": txt, "panic": escaped})
		return
	}
	h.check("func", class, txt, fn, false, nil, params, len(params), xRets, recv, obs)
}

// c19Guard runs f and reports a Go panic that escaped the API.
func c19Guard(f func()) (escaped string) {
	defer func() {
		if r := recover(); r != nil {
			escaped = fmt.Sprint(r)
		}
	}()
	f()
	return ""
}

// ---- script functions and methods ------------------------------------------------

type c19Ty struct {
	name string
	tag  int
}

var c19Types = []c19Ty{{"int", 23}, {"int8", 19}, {"uint8", 3}, {"uint32", 7}, {"float64", 31}, {"string", 64}, {"bool", 32}, {"[]int", 23<<8 | 128}}

type c19ScriptFn struct {
	name     string
	method   bool
	variadic bool
	ptypes   []c19Ty // without the receiver
	sel      []int   // indices into (receiver +) parameters
	vtype    int
}

func (s c19ScriptFn) nargs() int {
	if s.method {
		return len(s.ptypes) + 1
	}
	return len(s.ptypes)
}

// desc renders the DScript term (for methods: of the underlying function, receiver first).
func (s c19ScriptFn) desc() string {
	var atys, rtys []int
	if s.method {
		atys = append(atys, 224)
	}
	for i, t := range s.ptypes {
		if s.variadic && i == len(s.ptypes)-1 {
			atys = append(atys, t.tag<<8|128)
		} else {
			atys = append(atys, t.tag)
		}
	}
	for _, i := range s.sel {
		rtys = append(rtys, atys[i])
	}
	return fmt.Sprintf("(DScript %d %d %v %d %s %s %s)", s.nargs(), len(s.sel), s.variadic, s.vtype, coqZlist(atys), coqZlist(rtys), coqZlist(s.sel))
}

func (s c19ScriptFn) source() string {
	var ps, rs, names []string
	if s.method {
		names = append(names, "t")
	}
	for i, t := range s.ptypes {
		n := fmt.Sprintf("p%d", i)
		names = append(names, n)
		if s.variadic && i == len(s.ptypes)-1 {
			ps = append(ps, n+" ..."+t.name)
		} else {
			ps = append(ps, n+" "+t.name)
		}
	}
	var vals []string
	for _, i := range s.sel {
		vals = append(vals, names[i])
		switch {
		case s.method && i == 0:
			rs = append(rs, "*T")
		case s.variadic && i == len(names)-1:
			rs = append(rs, "[]"+s.ptypes[len(s.ptypes)-1].name)
		default:
			k := i
			if s.method {
				k--
			}
			rs = append(rs, s.ptypes[k].name)
		}
	}
	recvr := ""
	if s.method {
		recvr = "(t *T) "
	}
	res := ""
	if len(rs) > 0 {
		res = "(" + strings.Join(rs, ", ") + ") "
	}
	body := ""
	if len(vals) > 0 {
		body = "return " + strings.Join(vals, ", ")
	}
	return fmt.Sprintf("func %s%s(%s) %s{ %s }\n", recvr, s.name, strings.Join(ps, ", "), res, body)
}

func c19GenScriptFns(r *rng, n int) []c19ScriptFn {
	var fs []c19ScriptFn
	for i := 0; i < n; i++ {
		s := c19ScriptFn{name: fmt.Sprintf("S%d", i), method: i%3 == 2}
		if s.method {
			s.name = fmt.Sprintf("M%d", i)
		}
		np := i % 7
		for j := 0; j < np; j++ {
			s.ptypes = append(s.ptypes, pick(r, c19Types))
		}
		if np > 0 && r.chance(25) {
			s.variadic = true
			t := pick(r, c19Types[:7])
			s.ptypes[np-1] = t
			s.vtype = (t.tag<<8 | 128)
		}
		if s.nargs() > 0 {
			for j := r.intn(5); j > 0; j-- {
				s.sel = append(s.sel, r.intn(s.nargs()))
			}
		}
		fs = append(fs, s)
	}
	return fs
}

// value for a parameter of declared type t (sometimes an untyped constant, sometimes anything)
func c19Param(r *rng, t c19Ty) g.Value {
	if r.chance(10) {
		return c19Val(r)
	}
	switch t.tag {
	case 23:
		if r.chance(40) {
			return g.VerifNewUntyped(int(int32(intPool(r, tagInt32))))
		}
		return g.Int32(int32(intPool(r, tagInt32)))
	case 19:
		if r.chance(40) {
			return g.VerifNewUntyped(r.intn(600) - 300)
		}
		return g.Int8(int8(intPool(r, tagInt8)))
	case 3:
		if r.chance(40) {
			return g.VerifNewUntyped(r.intn(600) - 300)
		}
		return g.Uint8(uint8(intPool(r, tagUint8)))
	case 7:
		if r.chance(40) {
			return g.VerifNewUntyped(int(int32(intPool(r, tagInt32))))
		}
		return g.Uint32(uint32(intPool(r, tagUint32)))
	case 31:
		if r.chance(40) {
			return g.VerifNewUntyped(r.intn(2000) - 1000)
		}
		return g.Float64(pick(r, floatPool))
	case 64:
		return g.String(pick(r, c19Strings))
	case 32:
		return g.Bool(r.chance(50))
	}
	return g.NewSlice(g.Type(23), []g.Value{g.Int32(int32(r.intn(9))), g.Int32(int32(r.intn(9)))})
}

func (h *c19H) loadScript() {
	h.script = c19GenScriptFns(h.r, 42)
	var sb strings.Builder
	sb.WriteString("package main\ntype T struct { x int }\n")
	for _, s := range h.script {
		sb.WriteString(s.source())
	}
	fs := fstest.MapFS{"main/main.go": &fstest.MapFile{Data: []byte(sb.String())}}
	if err := h.vm.Load(fs, "main"); err != nil {
		fmt.Println("c19: script load failed:", err)
		must(err)
	}
	h.tType = h.vm.Get("main.T")
}

func (h *c19H) scriptFn(s c19ScriptFn) *c19Fn {
	if !s.method {
		return &c19Fn{desc: s.desc(), val: h.vm.Get("main." + s.name)}
	}
	inst := g.NewStruct(h.tType, nil)
	return &c19Fn{desc: "(DMethod (CVal (mkValue 224 (Zn 0) (PRef 1))) " + s.desc() + ")", val: inst.GetAttr(s.name)}
}

// nativeMethod installs a native as method NM of T (SETMETHOD through the real exec
// loop) and answers the bound method of a fresh instance: the real newMethod.
func (h *c19H) nativeMethod(inner *c19Fn) *c19Fn {
	k := g.VerifGlobalIndex(h.vm, "NM")
	_, _, err := g.VerifExec(h.vm, [][4]int{{h.ops["SETMETHOD"], k, 0, 0}}, []g.Value{inner.val, h.tType})
	must(err)
	inst := g.NewStruct(h.tType, nil)
	fn := *inner
	fn.native = false
	fn.desc = "(DMethod (CVal (mkValue 224 (Zn 0) (PRef 1))) " + inner.desc + ")"
	fn.val = inst.GetAttr("NM")
	return &fn
}

// ---- part (a): constructors and accessors ------------------------------------------

func c19U(x uint64) string { return fmt.Sprint(x) }

func (h *c19H) roundtrips(n int) (cases []string) {
	r, st := h.r, h.st
	add := func(class, c string) { cases = append(cases, c); st.add(class, c) }
	bad := func(group string, x any, got any) {
		h.fail("roundtrip:"+group, map[string]any{"input": fmt.Sprint(x), "read_back": fmt.Sprint(got)})
	}
	acc := func(v g.Value) {
		cv := coqValue(v)
		add("acc", fmt.Sprintf("RAccZ 0 %s %s", cv, coqZ(int64(v.Int()))))
		add("acc", fmt.Sprintf("RAccZ 1 %s %s", cv, coqZ(int64(v.Int32()))))
		add("acc", fmt.Sprintf("RAccZ 2 %s %s", cv, c19U(uint64(v.Uint()))))
		add("acc", fmt.Sprintf("RAccZ 3 %s %s", cv, c19U(uint64(v.Uint32()))))
		add("acc", fmt.Sprintf("RAccZ 4 %s %s", cv, coqZ(int64(v.Int8()))))
		add("acc", fmt.Sprintf("RAccZ 5 %s %s", cv, c19U(uint64(v.Byte()))))
		add("acc", fmt.Sprintf("RAccZ 6 %s %s", cv, c19U(uint64(v.Uint8()))))
		add("acc", fmt.Sprintf("RAccF %s %s", cv, coqFloat(v.Float64())))
		add("acc", fmt.Sprintf("RAccB %s %v", cv, v.Bool()))
	}
	// Int / Uint: the whole int64 / uint64 domain (boundaries + random), 32-bit sub-domain = identity
	i64 := []int64{0, 1, -1, 2, 127, 128, -128, -129, 255, 256, 1 << 31, 1<<31 - 1, -(1 << 31), -(1 << 31) - 1, 1 << 32, 1<<32 + 2, -(1 << 32), 1 << 53, 1<<53 + 1, math.MaxInt64, math.MinInt64, math.MaxInt64 - 1}
	for i := 0; i < n; i++ {
		if i%2 == 0 {
			i64 = append(i64, int64(r.next()))
		} else {
			i64 = append(i64, int64(int32(r.next())))
		}
	}
	for _, x := range i64 {
		v := g.Int(int(x))
		add("ctor:Int", fmt.Sprintf("RCtorZ 0 %s %s", coqZ(x), coqValue(v)))
		want := int(int32(x))
		if v.Int() != want || int64(v.Int32()) != int64(want) || g.VerifTag(v) != tagInt32 {
			bad("Int", x, v.Int())
		}
		u := g.Uint(uint(x))
		add("ctor:Uint", fmt.Sprintf("RCtorZ 2 %s %s", c19U(uint64(x)), coqValue(u)))
		if u.Uint() != uint(uint32(x)) || u.Uint32() != uint32(x) || g.VerifTag(u) != tagUint32 {
			bad("Uint", uint64(x), u.Uint())
		}
		if i := len(cases); i%7 == 0 {
			acc(v)
			acc(u)
		}
	}
	// Int32 / Uint32: boundaries + random
	i32 := []int64{0, 1, -1, 127, 128, -128, -129, 255, 256, 65535, 65536, 1<<31 - 1, -(1 << 31), 1<<31 - 2, -(1 << 31) + 1}
	for i := 0; i < n; i++ {
		i32 = append(i32, int64(int32(r.next())))
	}
	for k, x := range i32 {
		v := g.Int32(int32(x))
		add("ctor:Int32", fmt.Sprintf("RCtorZ 1 %s %s", coqZ(x), coqValue(v)))
		if v.Int32() != int32(x) || v.Int() != int(x) || g.VerifTag(v) != tagInt32 {
			bad("Int32", x, v.Int32())
		}
		ux := uint32(x)
		u := g.Uint32(ux)
		add("ctor:Uint32", fmt.Sprintf("RCtorZ 3 %s %s", c19U(uint64(ux)), coqValue(u)))
		if u.Uint32() != ux || u.Uint() != uint(ux) || g.VerifTag(u) != tagUint32 {
			bad("Uint32", ux, u.Uint32())
		}
		if k%5 == 0 {
			acc(v)
			acc(u)
		}
	}
	// the 8-bit constructors: exhaustive
	for x := -128; x <= 127; x++ {
		v := g.Int8(int8(x))
		add("ctor:Int8", fmt.Sprintf("RCtorZ 4 %s %s", coqZ(int64(x)), coqValue(v)))
		if v.Int8() != int8(x) || g.VerifTag(v) != tagInt8 {
			bad("Int8", x, v.Int8())
		}
		if x%16 == 0 {
			acc(v)
		}
	}
	for x := 0; x <= 255; x++ {
		v, w := g.Byte(byte(x)), g.Uint8(uint8(x))
		add("ctor:Byte", fmt.Sprintf("RCtorZ 5 %d %s", x, coqValue(v)))
		add("ctor:Uint8", fmt.Sprintf("RCtorZ 6 %d %s", x, coqValue(w)))
		if v.Byte() != byte(x) || w.Uint8() != uint8(x) || g.VerifTag(v) != tagUint8 || g.VerifTag(w) != tagUint8 {
			bad("Byte/Uint8", x, v.Byte())
		}
		if x%16 == 0 {
			acc(v)
		}
	}
	// Float64: special values + random bit patterns
	fl := append([]float64{}, floatPool...)
	for i := 0; i < n; i++ {
		fl = append(fl, math.Float64frombits(r.next()))
	}
	for k, f := range fl {
		v := g.Float64(f)
		add("ctor:Float64", fmt.Sprintf("RCtorF %s %s", coqFloat(f), coqValue(v)))
		if math.Float64bits(v.Float64()) != math.Float64bits(f) || g.VerifTag(v) != tagFloat64 {
			bad("Float64", f, v.Float64())
		}
		if k%3 == 0 {
			acc(v)
		}
	}
	for _, b := range []bool{false, true} {
		v := g.Bool(b)
		add("ctor:Bool", fmt.Sprintf("RCtorB %v %s", b, coqValue(v)))
		if v.Bool() != b || g.VerifTag(v) != tagBool {
			bad("Bool", b, v.Bool())
		}
		acc(v)
	}
	strs := append([]string{}, c19Strings...)
	for i := 0; i < n/4; i++ {
		b := make([]byte, r.intn(12))
		for j := range b {
			b[j] = byte(r.next())
		}
		strs = append(strs, string(b))
	}
	for _, s := range strs {
		v := g.String(s)
		add("ctor:String", fmt.Sprintf("RCtorS %s %s", coqBytes(s), coqValue(v)))
		if v.String() != s || g.VerifTag(v) != tagString {
			bad("String", s, v.String())
		}
	}
	// accessors on arbitrary (also out-of-domain) payloads
	for i := 0; i < n; i++ {
		tag := pick(r, []int{tagUntyped, tagUint8, tagInt8, tagUint32, tagInt32, tagFloat64, tagBool})
		var num float64
		if tag == tagFloat64 || r.chance(15) {
			num = pick(r, floatPool)
		} else {
			num = intPool(r, tag)
		}
		acc(g.VerifMake(tag, num))
	}
	return cases
}

// ---- part (b) -----------------------------------------------------------------------

func (h *c19H) outs(n int) []g.Value { return c19Vals(h.r, n) }

// formArities: the result counts a callback of each form can produce
func c19NRets(form int) []int {
	switch form {
	case 0, 2:
		return []int{0}
	case 1, 3:
		return []int{1}
	}
	return []int{0, 1, 2, 3, 4}
}

func (h *c19H) adapters(n int) {
	r := h.r
	// every form x declared arity 0..6 x result count 0..4
	for form := 0; form <= 5; form++ {
		for argc := 0; argc <= 6; argc++ {
			for _, nret := range c19NRets(form) {
				class := fmt.Sprintf("exec form=%d argc=%d nret=%d", form, argc, nret)
				mk := func(raise int) *c19Fn {
					rets := nret
					if r.chance(20) {
						rets = r.intn(5) // the declared result count is only a label
					}
					return c19Native(form, argc, rets, h.outs(nret), raise)
				}
				// exact argument count, every requested result count 0..nret+1
				for xRets := 0; xRets <= nret+1; xRets++ {
					nargs := argc
					if form == 5 && argc > 0 {
						nargs = argc - 1 + pick(r, []int{0, 1, 2, 5})
					}
					h.exec(class, mk(0), false, c19Vals(r, r.intn(4)), c19Vals(r, nargs), nargs, xRets)
					h.fnc(strings.Replace(class, "exec", "func", 1), mk(0), nil, xRets, c19Vals(r, nargs))
				}
				// variadic: 0, 1, many surplus arguments; a spread slice; too few arguments
				if form == 5 && argc > 0 {
					for _, extra := range []int{0, 1, 3, 6} {
						h.exec(class+" surplus", mk(0), false, c19Vals(r, r.intn(3)), c19Vals(r, argc-1+extra), argc-1+extra, r.intn(nret+1))
						h.fnc("func variadic surplus", mk(0), nil, r.intn(nret+1), c19Vals(r, argc-1+extra))
					}
					args := c19Vals(r, argc-1)
					items := c19Vals(r, r.intn(5))
					args = append(args, g.NewSlice(g.Type(pick(r, []int{0, tagInt32, tagFloat64})), items))
					h.exec(class+" spread", mk(0), true, c19Vals(r, r.intn(3)), args, argc, r.intn(nret+1))
					h.exec(class+" spread-nonslice", mk(0), true, c19Vals(r, r.intn(3)), append(c19Vals(r, argc-1), c19Scalar(r)), argc, r.intn(nret+1))
					if argc >= 2 {
						few := r.intn(argc - 1)
						h.exec(class+" too-few", mk(0), false, c19Vals(r, 1+r.intn(3)), c19Vals(r, few), few, r.intn(nret+1))
						h.fnc("func variadic too-few", mk(0), nil, r.intn(nret+1), c19Vals(r, few))
					}
				}
				// wrong argument counts
				for _, d := range []int{-1, 1, 2} {
					if argc+d < 0 || (form == 5 && argc > 0) {
						continue
					}
					h.exec(class+" wrong-args", mk(0), r.chance(20), c19Vals(r, r.intn(3)), c19Vals(r, argc+d), argc+d, r.intn(nret+2))
					h.fnc("func wrong-args", mk(0), nil, r.intn(nret+2), c19Vals(r, argc+d))
				}
				// the callback raises
				nargs := argc
				if form == 5 && argc > 0 {
					nargs = argc - 1 + r.intn(3)
				}
				h.exec(class+" raise", mk(1+r.intn(900)), false, c19Vals(r, r.intn(3)), c19Vals(r, nargs), nargs, r.intn(nret+2))
				h.fnc("func raise", mk(1+r.intn(900)), nil, r.intn(nret+2), c19Vals(r, nargs))
			}
		}
	}
	// VM.Func on things that are not functions
	for _, v := range []g.Value{g.Nil(), g.Int(3), g.String("f"), g.NewSlice(g.Type(tagInt32), nil), g.Float64(1.5), g.Bool(true)} {
		v := v
		h.fnc("func not-a-function", nil, &v, r.intn(3), c19Vals(r, r.intn(3)))
	}
	// random mixes (declared arity vs passed count vs requested results vs stack prefix)
	for i := 0; i < n; i++ {
		form := r.intn(6)
		argc := r.intn(7)
		nret := pick(r, c19NRets(form))
		fn := c19Native(form, argc, r.intn(5), h.outs(nret), 0)
		nargs := r.intn(8)
		if r.chance(60) {
			nargs = argc
		}
		h.exec("exec random", fn, false, c19Vals(r, r.intn(5)), c19Vals(r, nargs), nargs, r.intn(6))
	}
}

func (h *c19H) methodsAndScripts(n int) {
	r := h.r
	// natives installed as methods: the real newMethod around a logging native
	for form := 2; form <= 5; form++ {
		for argc := 1; argc <= 6; argc++ {
			if form == 5 && argc < 2 {
				continue
			}
			for _, nret := range c19NRets(form) {
				if nret > 2 && r.chance(50) {
					continue
				}
				class := fmt.Sprintf("method native form=%d", form)
				mk := func() *c19Fn { return h.nativeMethod(c19Native(form, argc, nret, h.outs(nret), 0)) }
				nargs := argc - 1
				if form == 5 {
					nargs = argc - 2 + pick(r, []int{0, 1, 3})
				}
				h.exec(class, mk(), false, c19Vals(r, r.intn(3)), c19Vals(r, nargs), nargs, r.intn(nret+2))
				h.fnc(class, mk(), nil, r.intn(nret+2), c19Vals(r, nargs))
				if form != 5 {
					h.exec(class+" wrong-args", mk(), false, c19Vals(r, r.intn(3)), c19Vals(r, nargs+1), nargs+1, r.intn(nret+1))
				}
			}
		}
	}
	// script functions and script methods through VM.Func and through CALL
	for i := 0; i < n; i++ {
		s := pick(r, h.script)
		var params []g.Value
		np := len(s.ptypes)
		for j, t := range s.ptypes {
			if s.variadic && j == np-1 {
				for k := pick(r, []int{0, 1, 2, 4}); k > 0; k-- {
					params = append(params, c19Param(r, t))
				}
			} else {
				params = append(params, c19Param(r, t))
			}
		}
		class := "script function"
		if s.method {
			class = "script method"
		}
		if s.variadic {
			class += " variadic"
		}
		xRets := r.intn(len(s.sel) + 2)
		switch {
		case r.chance(8) && !s.variadic:
			h.fnc(class+" wrong-args", h.scriptFn(s), nil, xRets, append(params, c19Val(r)))
		case r.chance(50):
			h.fnc(class, h.scriptFn(s), nil, xRets, params)
		default:
			h.exec(class, h.scriptFn(s), false, c19Vals(r, r.intn(4)), params, len(params), xRets)
		}
	}
}

func (h *c19H) nested(n int) {
	r := h.r
	for i := 0; i < n; i++ {
		form := 2 + r.intn(4)
		argc := r.intn(5)
		if form == 5 {
			argc = 1 + r.intn(4)
		}
		nparams := argc
		if form == 5 {
			nparams = argc - 1 + r.intn(3)
		}
		// inner: a native (maybe raising) or a script function of matching arity
		var inner *c19Fn
		class := "nested native"
		innerRets := r.intn(4)
		switch r.intn(3) {
		case 0:
			inner = c19Native(4, nparams, innerRets, h.outs(innerRets), 0)
		case 1:
			inner = c19Native(4, nparams, innerRets, h.outs(innerRets), 1+r.intn(900))
			class = "nested native raise"
		default:
			var cand []c19ScriptFn
			for _, s := range h.script {
				if !s.method && !s.variadic && len(s.ptypes) == nparams {
					cand = append(cand, s)
				}
			}
			if len(cand) == 0 {
				inner = c19Native(4, nparams, innerRets, h.outs(innerRets), 0)
				break
			}
			s := pick(r, cand)
			inner, innerRets, class = h.scriptFn(s), len(s.sel), "nested script"
		}
		k := r.intn(innerRets + 2)
		if form == 3 && k == 0 {
			k = 1
		}
		if r.chance(15) { // two levels
			inner = c19Nested(h.vm, 4, nparams, 0, inner, k)
			class += " depth2"
		}
		fn := c19Nested(h.vm, form, argc, r.intn(5), inner, k)
		if r.chance(50) {
			h.exec(class, fn, false, c19Vals(r, r.intn(3)), c19Vals(r, nparams), nparams, r.intn(k+2))
		} else {
			h.fnc(class, fn, nil, r.intn(k+2), c19Vals(r, nparams))
		}
	}
}

// hostArray: VM.Func must not write into the host's parameter slice, whatever its spare
// capacity (the VM builds its own stack); neither the parameters nor the cells beyond len.
func (h *c19H) hostArray(n int) {
	r := h.r
	for i := 0; i < n; i++ {
		np, spare := r.intn(5), r.intn(6)
		backing := c19Vals(r, np+spare)
		before := coqCells(backing)
		nret := r.intn(4)
		var fn *c19Fn
		if s := pick(r, h.script); r.chance(40) && !s.method && !s.variadic && len(s.ptypes) == np {
			fn = h.scriptFn(s)
		} else {
			fn = c19Native(4, np, nret, h.outs(nret), 0)
		}
		var err error
		escaped := c19Guard(func() { _, err = h.vm.Func(fn.val, r.intn(nret+1), backing[:np:np+spare]...) })
		after := coqCells(backing)
		h.st.add(fmt.Sprintf("host-array params=%d spare=%d", np, spare), before+fn.desc)
		if escaped != "" || after != before {
			h.fail("host-array-modified-by-Func", map[string]any{"fn": fn.desc, "params": np, "spare_capacity": spare, "array_before": before, "array_after": after, "error": fmt.Sprint(err), "escaped": escaped})
		}
	}
}

func cmdC19Corr(seed uint64, n int, dir string) {
	h := &c19H{r: newRng(seed), st: newStats(), vm: g.New(), ops: map[string]int{}}
	for k, v := range g.VerifCodeNames() {
		h.ops[v] = k
	}
	rc := h.roundtrips(n)
	h.loadScript()
	h.adapters(n)
	h.methodsAndScripts(n)
	h.nested(n / 2)
	h.hostArray(40 + n/10)
	hdr := "From Coq Require Import ZArith List Floats.\nFrom GV Require Import GoSpec.GoPrim Model.Call Model.CorrC19.\nImport ListNotations.\nOpen Scope Z_scope.\n"
	files := writeCases(dir, "cases_C19r", hdr, "rmismatches", rc, 1500)
	files = append(files, writeCases(dir, "cases_C19a", hdr, "amismatches", h.cases, 400)...)
	h.st.Extra["files"] = files
	h.st.write(dir + "/C19_corr_stats.json")
}

// ---------------------------------------------------------------------------
// C19 system level: generated scripts call logging natives; the oracle is the
// plan the generator wrote while generating (in Go's evaluation order): which
// native is entered next, with which arguments, what it answers / raises.

type c19Nat struct {
	name             string
	form, argc, nret int // argc as handed to NewFunc (variadic form: fixed + 1)
}

func (n *c19Nat) fixed() int {
	if n.form == 5 {
		return n.argc - 1
	}
	return n.argc
}

type c19Exp struct{ a, b string } // accepted renderings of one received argument

func c19Exact(v g.Value) c19Exp { return c19Exp{coqCell(v), ""} }

type c19Event struct {
	nat     *c19Nat
	exp     []c19Exp
	outs    []g.Value
	raise   int
	cb      string // script function the native calls through vm.Func with its own arguments
	cbRets  int
	cbErr   bool // the inner call must fail
	swallow bool // the native ignores the inner error and answers normally
	cbExp   []c19Exp
}

type c19Var struct {
	name string
	val  g.Value
}

type c19Gen struct {
	r       *rng
	nats    []*c19Nat
	plan    []*c19Event
	helpers strings.Builder
	body    strings.Builder
	nvar    int
	nhelp   int
	vars    []c19Var
	slices  []c19Var
	want    string // "" ok, "raise:<id>", "args", "returns"
	shape   map[string]int
}

func c19AllNats() []*c19Nat {
	var ns []*c19Nat
	add := func(form, argc, nret int) {
		ns = append(ns, &c19Nat{name: fmt.Sprintf("n%d_%d_%d", form, argc, nret), form: form, argc: argc, nret: nret})
	}
	add(0, 0, 0)
	add(1, 0, 1)
	for argc := 0; argc <= 6; argc++ {
		add(2, argc, 0)
		add(3, argc, 1)
		for nret := 0; nret <= 4; nret++ {
			add(4, argc, nret)
			add(5, argc+1, nret)
		}
	}
	return ns
}

func (gn *c19Gen) pickNat(minRet int, ok func(*c19Nat) bool) *c19Nat {
	for { // level the forms: 4 and 5 have 35 natives each, 0 and 1 have one
		f := gn.r.intn(6)
		var cand []*c19Nat
		for _, n := range gn.nats {
			if n.form == f && n.nret >= minRet && (ok == nil || ok(n)) {
				cand = append(cand, n)
			}
		}
		if len(cand) > 0 {
			return pick(gn.r, cand)
		}
	}
}

func (gn *c19Gen) outs(n int) []g.Value {
	r := gn.r
	vs := make([]g.Value, n)
	for i := range vs {
		switch r.intn(9) {
		case 0, 1, 2:
			vs[i] = g.Int32(int32(r.intn(2000) - 1000))
		case 3:
			vs[i] = g.String(pick(r, c19Strings))
		case 4:
			vs[i] = g.Float64(float64(r.intn(400)-200) / 8)
		case 5:
			vs[i] = g.Bool(r.chance(50))
		case 6:
			vs[i] = g.Int8(int8(r.intn(256) - 128))
		case 7:
			vs[i] = g.Uint32(uint32(r.next()))
		default:
			vs[i] = g.NewSlice(g.Type(tagInt32), []g.Value{g.Int32(int32(r.intn(50))), g.Int32(int32(r.intn(50)))})
		}
	}
	return vs
}

var c19Prelude = []struct {
	decl string
	name string
	val  func() g.Value
}{
	{"var i8 int8 = -5", "i8", func() g.Value { return g.Int8(-5) }},
	{"var u8 uint8 = 200", "u8", func() g.Value { return g.Uint8(200) }},
	{"var u32 uint32 = 4000000000", "u32", func() g.Value { return g.Uint32(4000000000) }},
	{"var f64 float64 = 2.5", "f64", func() g.Value { return g.Float64(2.5) }},
	{"var str string = \"str\"", "str", func() g.Value { return g.String("str") }},
	{"var bo bool = true", "bo", func() g.Value { return g.Bool(true) }},
	{"var i32 int = -77", "i32", func() g.Value { return g.Int32(-77) }},
	{"sl := []int{1, 2, 3}", "sl", func() g.Value {
		return g.NewSlice(g.Type(tagInt32), []g.Value{g.Int32(1), g.Int32(2), g.Int32(3)})
	}},
	{"sf := []float64{0.5, 1.5}", "sf", func() g.Value {
		return g.NewSlice(g.Type(tagFloat64), []g.Value{g.Float64(0.5), g.Float64(1.5)})
	}},
	{"se := []string{}", "se", func() g.Value { return g.NewSlice(g.Type(tagString), []g.Value{}) }},
}

// expr emits an argument expression; its events are appended in evaluation order.
// surplus: the expression is a surplus argument of a variadic native (assign(0) applies).
func (gn *c19Gen) expr(depth int, surplus bool) (string, c19Exp) {
	r := gn.r
	x := r.intn(100)
	switch {
	case x < 22:
		n := pick(r, []int{0, 1, 7, -3, 100000, 2147483647, -2147483648, 255, 42})
		gn.shape["arg:int-literal"]++
		e := c19Exp{coqCell(g.VerifNewUntyped(n)), coqCell(g.Int32(int32(n)))}
		if surplus {
			e = c19Exact(g.Int32(int32(n)))
		}
		if n < 0 {
			return fmt.Sprintf("(%d)", n), e
		}
		return fmt.Sprint(n), e
	case x < 30:
		f := pick(r, []float64{2.5, 0.25, 1000.5, 0.125})
		gn.shape["arg:float-literal"]++
		return fmt.Sprint(f), c19Exact(g.Float64(f))
	case x < 38:
		s := pick(r, []string{"", "s", "a b", "xyz"})
		gn.shape["arg:string-literal"]++
		return fmt.Sprintf("%q", s), c19Exact(g.String(s))
	case x < 42:
		b := r.chance(50)
		gn.shape["arg:bool-literal"]++
		return fmt.Sprint(b), c19Exact(g.Bool(b))
	case x < 75 || depth <= 0:
		v := pick(r, gn.vars)
		gn.shape["arg:variable"]++
		return v.name, c19Exact(v.val)
	}
	gn.shape["arg:nested-call"]++
	nat := gn.pickNat(1, nil)
	src, outs := gn.call(nat, depth-1, 0, 0)
	return src, c19Exact(outs[0])
}

// call emits a call of nat with the right number of arguments (delta shifts the count
// of a fixed-arity native) and appends its event after the events of its arguments.
func (gn *c19Gen) call(nat *c19Nat, depth, raise, delta int) (string, []g.Value) {
	r := gn.r
	var srcs []string
	var exp []c19Exp
	for i := 0; i < nat.fixed()+delta; i++ {
		s, e := gn.expr(depth, false)
		srcs, exp = append(srcs, s), append(exp, e)
	}
	if nat.form == 5 {
		switch mode := r.intn(4); mode {
		case 0:
			gn.shape["variadic:0-surplus"]++
		case 1, 2:
			n := 1
			if mode == 2 {
				n = 2 + r.intn(4)
				gn.shape["variadic:many-surplus"]++
			} else {
				gn.shape["variadic:1-surplus"]++
			}
			for i := 0; i < n; i++ {
				s, e := gn.expr(depth, true)
				srcs, exp = append(srcs, s), append(exp, e)
			}
		default:
			gn.shape["variadic:spread"]++
			sv := pick(r, gn.slices)
			srcs = append(srcs, sv.name+"...")
			for _, it := range c19Items(sv.val) {
				exp = append(exp, c19Exact(it))
			}
		}
	}
	outs := gn.outs(nat.nret)
	if delta == 0 {
		gn.plan = append(gn.plan, &c19Event{nat: nat, exp: exp, outs: outs, raise: raise})
	}
	gn.shape[fmt.Sprintf("form%d", nat.form)]++
	return nat.name + "(" + strings.Join(srcs, ", ") + ")", outs
}

func (gn *c19Gen) newVars(outs []g.Value, k int) []string {
	var names []string
	for i := 0; i < k; i++ {
		gn.nvar++
		n := fmt.Sprintf("v%d", gn.nvar)
		names = append(names, n)
		gn.vars = append(gn.vars, c19Var{n, outs[i]})
		if c19IsSlice(outs[i]) {
			gn.slices = append(gn.slices, c19Var{n, outs[i]})
		}
	}
	return names
}

// report emits rep<k>(names...): a native whose event expects exactly the values.
func (gn *c19Gen) report(names []string, vals []g.Value) {
	var exp []c19Exp
	for _, v := range vals {
		exp = append(exp, c19Exact(v))
	}
	var rep *c19Nat
	for _, n := range gn.nats {
		if n.form == 2 && n.argc == len(names) {
			rep = n
		}
	}
	gn.plan = append(gn.plan, &c19Event{nat: rep, exp: exp})
	fmt.Fprintf(&gn.body, "\t%s(%s)\n", rep.name, strings.Join(names, ", "))
}

// stmt emits one statement; fail != "" makes it the failing (and last) one.
func (gn *c19Gen) stmt(fail string) {
	r := gn.r
	raise := 0
	if fail == "raise" {
		raise = 1 + r.intn(900)
		gn.want = fmt.Sprintf("raise:%d", raise)
	}
	switch fail {
	case "args": // wrong argument count for a fixed-arity native: it must not be entered
		nat := gn.pickNat(0, func(n *c19Nat) bool { return n.form >= 2 && n.form <= 4 && n.argc >= 1 })
		src, _ := gn.call(nat, 1, 0, pick(r, []int{-1, 1}))
		fmt.Fprintf(&gn.body, "\t%s\n", src)
		gn.want = "args"
		gn.shape["stmt:wrong-arg-count"]++
		return
	case "returns": // more results requested than the native answers
		nat := gn.pickNat(0, func(n *c19Nat) bool { return n.nret <= 3 })
		src, _ := gn.call(nat, 1, 0, 0)
		var names []string
		for i := 0; i <= nat.nret; i++ {
			gn.nvar++
			names = append(names, fmt.Sprintf("v%d", gn.nvar))
		}
		fmt.Fprintf(&gn.body, "\t%s := %s\n", strings.Join(names, ", "), src)
		for _, n := range names {
			fmt.Fprintf(&gn.body, "\t_ = %s\n", n)
		}
		gn.want = "returns"
		gn.shape["stmt:too-many-results-requested"]++
		return
	case "script-panic", "script-panic-swallowed": // native -> vm.Func(script function that panics)
		id := 1 + r.intn(900)
		gn.nhelp++
		h := fmt.Sprintf("boom%d", gn.nhelp)
		deep := r.chance(40)
		if deep { // the script function calls a raising native instead of panicking itself
			fmt.Fprintf(&gn.helpers, "func %s(a any) int { n2_1_0(a); return 1 }\n", h)
		} else {
			fmt.Fprintf(&gn.helpers, "func %s(a any) int { panic(\"C19RAISE:%d\"); return 1 }\n", h, id)
		}
		nat := gn.pickNat(0, func(n *c19Nat) bool { return n.form >= 2 && n.form <= 4 && n.argc == 1 })
		src, e := gn.expr(1, false)
		ev := &c19Event{nat: nat, exp: []c19Exp{e}, outs: gn.outs(nat.nret), cb: h, cbRets: 1, cbErr: true, swallow: fail == "script-panic-swallowed"}
		gn.plan = append(gn.plan, ev)
		if deep {
			inner := e
			if e.b != "" { // an untyped constant reaches the `any` parameter as int32... after mkFunc's assign
				inner = c19Exp{e.b, ""}
			}
			var n210 *c19Nat
			for _, n := range gn.nats {
				if n.name == "n2_1_0" {
					n210 = n
				}
			}
			gn.plan = append(gn.plan, &c19Event{nat: n210, exp: []c19Exp{inner}, raise: id})
		}
		fmt.Fprintf(&gn.body, "\t%s(%s)\n", nat.name, src)
		gn.shape["stmt:"+fail]++
		if deep {
			gn.shape["stmt:script-panic via native two levels down"]++
		}
		if !ev.swallow {
			gn.want = fmt.Sprintf("raise:%d", id)
		}
		return
	}
	x := r.intn(100)
	switch {
	case x < 25: // statement position: no result requested
		nat := gn.pickNat(0, nil)
		src, _ := gn.call(nat, 2, raise, 0)
		fmt.Fprintf(&gn.body, "\t%s\n", src)
		gn.shape["stmt:statement-position"]++
	case x < 50: // single-value expression position
		nat := gn.pickNat(1, nil)
		src, outs := gn.call(nat, 2, raise, 0)
		names := gn.newVars(outs, 1)
		fmt.Fprintf(&gn.body, "\t%s := %s\n", names[0], src)
		gn.shape["stmt:single-assign"]++
		if raise == 0 {
			gn.report(names, outs[:1])
		}
	case x < 72: // multi-assign: k of the nret results
		nat := gn.pickNat(2, nil)
		k := 2 + r.intn(nat.nret-1)
		src, outs := gn.call(nat, 2, raise, 0)
		names := gn.newVars(outs, k)
		fmt.Fprintf(&gn.body, "\t%s := %s\n", strings.Join(names, ", "), src)
		gn.shape[fmt.Sprintf("stmt:multi-assign-%d-of-%d", k, nat.nret)]++
		if raise == 0 {
			gn.report(names, outs[:k])
		}
	case x < 86: // return position inside a script function with k results
		nat := gn.pickNat(1, func(n *c19Nat) bool { return n.form != 5 })
		k := 1 + r.intn(nat.nret)
		gn.nhelp++
		h := fmt.Sprintf("w%d", gn.nhelp)
		var ps, pn, as []string
		var exp []c19Exp
		for i := 0; i < nat.fixed(); i++ {
			ps = append(ps, fmt.Sprintf("p%d any", i))
			pn = append(pn, fmt.Sprintf("p%d", i))
			s, e := gn.expr(1, false)
			if e.b != "" {
				e = c19Exp{e.b, ""} // mkFunc assigns the untyped constant to the parameter type
			}
			as, exp = append(as, s), append(exp, e)
		}
		outs := gn.outs(nat.nret)
		gn.plan = append(gn.plan, &c19Event{nat: nat, exp: exp, outs: outs, raise: raise})
		fmt.Fprintf(&gn.helpers, "func %s(%s) (%s) { return %s(%s) }\n", h, strings.Join(ps, ", "), strings.TrimSuffix(strings.Repeat("any, ", k), ", "), nat.name, strings.Join(pn, ", "))
		names := gn.newVars(outs, k)
		fmt.Fprintf(&gn.body, "\t%s := %s(%s)\n", strings.Join(names, ", "), h, strings.Join(as, ", "))
		gn.shape["stmt:return-position"]++
		gn.shape[fmt.Sprintf("form%d", nat.form)]++
		if raise == 0 {
			gn.report(names, outs[:k])
		}
	default: // native -> vm.Func(script function -> native) -> results back through both
		inner := gn.pickNat(1, func(n *c19Nat) bool { return n.form == 3 || n.form == 4 })
		outer := gn.pickNat(0, func(n *c19Nat) bool { return n.form >= 2 && n.form <= 4 && n.argc == inner.argc })
		gn.nhelp++
		h := fmt.Sprintf("cb%d", gn.nhelp)
		var ps, pn, as []string
		var exp, iexp []c19Exp
		for i := 0; i < inner.argc; i++ {
			ps = append(ps, fmt.Sprintf("p%d any", i))
			pn = append(pn, fmt.Sprintf("p%d", i))
			s, e := gn.expr(1, false)
			as, exp = append(as, s), append(exp, e)
			if e.b != "" {
				e = c19Exp{e.b, ""}
			}
			iexp = append(iexp, e)
		}
		fmt.Fprintf(&gn.helpers, "func %s(%s) any { return %s(%s) }\n", h, strings.Join(ps, ", "), inner.name, strings.Join(pn, ", "))
		iouts := gn.outs(inner.nret)
		outs := gn.outs(outer.nret)
		gn.plan = append(gn.plan, &c19Event{nat: outer, exp: exp, outs: outs, cb: h, cbRets: 1, cbExp: []c19Exp{c19Exact(iouts[0])}})
		gn.plan = append(gn.plan, &c19Event{nat: inner, exp: iexp, outs: iouts, raise: raise})
		if raise > 0 {
			gn.plan[len(gn.plan)-2].cbErr = true
		}
		if outer.nret >= 1 && raise == 0 {
			names := gn.newVars(outs, 1)
			fmt.Fprintf(&gn.body, "\t%s := %s(%s)\n", names[0], outer.name, strings.Join(as, ", "))
			gn.report(names, outs[:1])
		} else {
			fmt.Fprintf(&gn.body, "\t%s(%s)\n", outer.name, strings.Join(as, ", "))
		}
		gn.shape["stmt:native-calls-script-calls-native"]++
	}
}

type c19Run struct {
	vm       *g.VM
	plan     []*c19Event
	pos      int
	problems []string
}

func (rt *c19Run) problem(f string, a ...any) {
	if len(rt.problems) < 6 {
		rt.problems = append(rt.problems, fmt.Sprintf(f, a...))
	}
}

func (rt *c19Run) enter(nat *c19Nat, a, va []g.Value) []g.Value {
	zero := make([]g.Value, nat.nret)
	for i := range zero {
		zero[i] = g.Int32(0)
	}
	if rt.pos >= len(rt.plan) {
		rt.problem("event %d: %s entered but no further call was expected", rt.pos, nat.name)
		rt.pos++
		return zero
	}
	ev := rt.plan[rt.pos]
	at := rt.pos
	rt.pos++
	if ev.nat != nat {
		rt.problem("event %d: %s entered, expected %s", at, nat.name, ev.nat.name)
		return zero
	}
	got := append(c19Copy(a), va...)
	if nat.form < 2 {
		got = nil
	}
	if len(a) != nat.fixed() && nat.form >= 2 {
		rt.problem("event %d: %s got %d fixed arguments, wants %d", at, nat.name, len(a), nat.fixed())
	}
	if len(got) != len(ev.exp) && nat.form >= 2 {
		rt.problem("event %d: %s received %d arguments %s, expected %d", at, nat.name, len(got), coqCells(got), len(ev.exp))
	} else {
		for i, v := range got {
			if c := coqCell(v); c != ev.exp[i].a && c != ev.exp[i].b {
				rt.problem("event %d: %s argument %d received %s, expected %s", at, nat.name, i, c, ev.exp[i].a)
			}
		}
	}
	if ev.raise > 0 {
		panic(fmt.Errorf("C19RAISE:%d", ev.raise))
	}
	if ev.cb != "" {
		rs, err := rt.vm.Func(rt.vm.Get("main."+ev.cb), ev.cbRets, got...)
		switch {
		case err != nil && !ev.cbErr:
			rt.problem("event %d: inner vm.Func(%s) failed: %v", at, ev.cb, err)
			panic(err)
		case err == nil && ev.cbErr:
			rt.problem("event %d: inner vm.Func(%s) answered %s although the script function raised", at, ev.cb, coqCells(rs))
		case err != nil:
			if !c19RaiseRe.MatchString(err.Error()) {
				rt.problem("event %d: inner error lost its cause: %v", at, err)
			}
			if !ev.swallow {
				panic(err)
			}
		default:
			if len(rs) != ev.cbRets {
				rt.problem("event %d: inner vm.Func answered %d results, %d requested", at, len(rs), ev.cbRets)
			}
			for i, e := range ev.cbExp {
				if i < len(rs) && coqCell(rs[i]) != e.a {
					rt.problem("event %d: inner result %d is %s, expected %s", at, i, coqCell(rs[i]), e.a)
				}
			}
		}
	}
	return c19Copy(ev.outs)
}

func c19RunScript(gn *c19Gen, src string) (problems []string) {
	vm := g.New()
	rt := &c19Run{vm: vm, plan: gn.plan}
	for _, nat := range gn.nats {
		nat := nat
		vm.Set("main."+nat.name, c19Callback(nat.form, nat.argc, nat.nret, func(a, va []g.Value) []g.Value { return rt.enter(nat, a, va) }))
	}
	var err error
	var rets []g.Value
	escaped := c19Guard(func() {
		fs := fstest.MapFS{"main/main.go": &fstest.MapFile{Data: []byte(src)}}
		if e := vm.Load(fs, "main"); e != nil {
			err = fmt.Errorf("LOAD: %w", e)
			return
		}
		rets, err = vm.Call("main.run", 0)
	})
	if escaped != "" {
		return []string{"a Go panic escaped vm.Load / vm.Call: " + escaped}
	}
	problems = rt.problems
	if err != nil && strings.HasPrefix(err.Error(), "LOAD:") {
		return append(problems, err.Error())
	}
	if len(rets) != 0 {
		problems = append(problems, fmt.Sprintf("vm.Call(run, 0) answered %d results", len(rets)))
	}
	msg := ""
	if err != nil {
		msg = err.Error()
	}
	switch {
	case gn.want == "" && err != nil:
		problems = append(problems, "unexpected error: "+msg)
	case gn.want == "args" && !strings.Contains(msg, "incorrect args"):
		problems = append(problems, "a wrong argument count must fail with 'incorrect args'; got: "+msg)
	case gn.want == "returns" && !strings.Contains(msg, "incorrect returns"):
		problems = append(problems, "requesting more results than answered must fail with 'incorrect returns'; got: "+msg)
	case strings.HasPrefix(gn.want, "raise:") && !strings.Contains(msg, "C19RAISE:"+strings.TrimPrefix(gn.want, "raise:")):
		problems = append(problems, "the error raised inside must surface as the error of the outer call ("+gn.want+"); got: "+msg)
	}
	if rt.pos != len(gn.plan) {
		problems = append(problems, fmt.Sprintf("%d of %d expected native calls happened", rt.pos, len(gn.plan)))
	}
	return problems
}

func c19GenScript(r *rng) (*c19Gen, string) {
	gn := &c19Gen{r: r, nats: c19AllNats(), shape: map[string]int{}}
	var pre strings.Builder
	for _, p := range c19Prelude {
		pre.WriteString("\t" + p.decl + "\n\t_ = " + p.name + "\n")
		v := p.val()
		gn.vars = append(gn.vars, c19Var{p.name, v})
		if c19IsSlice(v) {
			gn.slices = append(gn.slices, c19Var{p.name, v})
		}
	}
	n := 1 + r.intn(7)
	for i := 0; i < n; i++ {
		if r.chance(8) {
			gn.stmt("script-panic-swallowed")
			continue
		}
		gn.stmt("")
	}
	if r.chance(45) {
		gn.stmt(pick(r, []string{"raise", "raise", "args", "returns", "script-panic"}))
		if r.chance(50) { // code after the failing statement must not run
			fmt.Fprintf(&gn.body, "\tn2_1_0(12345)\n")
		}
	}
	src := "package main\n" + gn.helpers.String() + "func run() {\n" + pre.String() + gn.body.String() + "}\n"
	return gn, src
}

func cmdC19Script(seed uint64, n int, dir string) {
	r := newRng(seed + 77)
	st := newStats()
	for i := 0; i < n; i++ {
		gn, src := c19GenScript(r)
		class := "ok"
		if gn.want != "" {
			class = "error:" + strings.Split(gn.want, ":")[0]
		}
		st.add(class, src)
		for k, v := range gn.shape {
			st.Histogram[k] += v
		}
		st.Histogram["native-calls-expected"] += len(gn.plan)
		if problems := c19RunScript(gn, src); len(problems) > 0 {
			group := problems[0]
			if i := strings.Index(group, ":"); i > 0 && strings.HasPrefix(group, "event") {
				group = group[i+2:]
			}
			group = regexp.MustCompile(`[0-9]+|\(.*`).ReplaceAllString(group, "#")
			st.mismatchG("script:"+group, map[string]any{"group": "script:" + group, "script": src, "problems": problems, "expected_outcome": gn.want})
		}
	}
	c19VariadicMethod(st)
	c19MethodParams(st, r, 40)
	c19Reentrancy(st, r, 1+n/2000) // c19reent.go
	c19Rebind(st, r, 60)           // c19rebind.go
	st.Extra["hazards"] = c19Hazards()
	st.write(dir + "/C19_script_stats.json")
}

// c19Hazards: observations outside the property statement, recorded but not failing.
func c19Hazards() map[string]any {
	res := map[string]any{}
	// a script function with a missing return (rejected by Go, accepted by goatlang): the
	// result fix-up of mkFunc panics after the frame ran off its end and VM.btErr indexes
	// Codes[N] with N == len(Codes) inside the deferred recover of VM.Func
	vm := g.New()
	fs := fstest.MapFS{"main/main.go": &fstest.MapFile{Data: []byte("package main\nfunc f() int { }\n")}}
	var err error
	escaped := c19Guard(func() {
		if err = vm.Load(fs, "main"); err == nil {
			_, err = vm.Call("main.f", 1)
		}
	})
	res["missing_return_call"] = map[string]any{"program": "func f() int { }; vm.Call(\"main.f\", 1)", "error": fmt.Sprint(err), "go_panic_escaped": escaped}
	return res
}

// c19VariadicMethod: the surplus arguments of a variadic method are packed with the declared
// element type, as for a variadic function (Go: untyped 3 passed to ...float64 is 3.0).
func c19VariadicMethod(st *stats) {
	src := `package main
type T struct { x int }
func (t *T) M(rest ...float64) { rep(rest[0] / 2) }
func F(rest ...float64) { rep(rest[0] / 2) }
func run() { t := &T{}; F(3); t.M(3) }
`
	var got []string
	vm := g.New()
	vm.Set("main.rep", g.NewFunc(1, 0, func(vm *g.VM, a []g.Value) { got = append(got, coqCell(a[0])) }))
	var err error
	escaped := c19Guard(func() {
		fs := fstest.MapFS{"main/main.go": &fstest.MapFile{Data: []byte(src)}}
		if err = vm.Load(fs, "main"); err == nil {
			_, err = vm.Call("main.run", 0)
		}
	})
	st.add("variadic method element type", src)
	want := coqCell(g.Float64(1.5))
	if escaped != "" || err != nil || len(got) != 2 || got[0] != want || got[1] != want {
		st.mismatchG("script:variadic-method-element-type", map[string]any{"group": "script:variadic-method-element-type", "script": src,
			"expected": []string{want, want}, "observed": got, "error": fmt.Sprint(err), "escaped": escaped,
			"what": "F(3) and t.M(3) with rest ...float64 must both see rest[0] = float64 3 (rest[0]/2 = 1.5)"})
	}
}

// c19MethodParams: native oracle for bound script methods with 0..4 explicit parameters (and variadic ones with
// 0..2 fixed parameters): every parameter arrives in its own position, through the host API (GetAttr + VM.Func,
// the receiver bound by newMethod) and through script calls.  Expected values are computed here.
func c19MethodParams(st *stats, r *rng, n int) {
	src := `package main
type T struct { k int }
func (t *T) M0() int { return t.k }
func (t *T) M1(a int) int { return t.k*10 + a }
func (t *T) M2(a int, b int) int { return (t.k*10+a)*10 + b }
func (t *T) M3(a int, b int, c int) int { return ((t.k*10+a)*10+b)*10 + c }
func (t *T) M4(a int, b int, c int, d int) int { return (((t.k*10+a)*10+b)*10+c)*10 + d }
func (t *T) S3(a string, b string, c string) string { return a + "|" + b + "|" + c }
func (t *T) V1(a int, rest ...int) int { s := t.k*10 + a; for _, x := range rest { s = s*10 + x }; return s }
func (t *T) V2(a int, b int, rest ...int) int { s := (t.k*10+a)*10 + b; for _, x := range rest { s = s*10 + x }; return s }
var G = &T{k: 7}
func viaScript(a int, b int, c int, d int) int { return G.M4(a, b, c, d) + G.M2(a, b) }
`
	vm := g.New()
	fs := fstest.MapFS{"main/main.go": &fstest.MapFile{Data: []byte(src)}}
	if err := vm.Load(fs, "main"); err != nil {
		st.mismatchG("native:method-params", map[string]any{"group": "native:method-params", "what": "load failed", "error": err.Error(), "script": src})
		return
	}
	recv := vm.Get("main.G")
	fold := func(k int, xs ...int) int32 {
		s := int32(k)
		for _, x := range xs {
			s = s*10 + int32(x)
		}
		return s
	}
	for c := 0; c < n; c++ {
		xs := []int{1 + r.intn(8), 1 + r.intn(8), 1 + r.intn(8), 1 + r.intn(8), 1 + r.intn(8)}
		type tc struct {
			name string
			args []g.Value
			want string
		}
		iv := func(k int) []g.Value {
			var a []g.Value
			for _, x := range xs[:k] {
				a = append(a, g.Int(x))
			}
			return a
		}
		strs := []string{"a", "bb", "c"}
		cases := []tc{
			{"M0", iv(0), fmt.Sprint(fold(7))}, {"M1", iv(1), fmt.Sprint(fold(7, xs[:1]...))}, {"M2", iv(2), fmt.Sprint(fold(7, xs[:2]...))},
			{"M3", iv(3), fmt.Sprint(fold(7, xs[:3]...))}, {"M4", iv(4), fmt.Sprint(fold(7, xs[:4]...))},
			{"S3", []g.Value{g.String(strs[0]), g.String(strs[1]), g.String(strs[2])}, "a|bb|c"},
			{"V1", iv(1), fmt.Sprint(fold(7, xs[:1]...))}, {"V1", iv(3), fmt.Sprint(fold(7, xs[:3]...))},
			{"V2", iv(2), fmt.Sprint(fold(7, xs[:2]...))}, {"V2", iv(5), fmt.Sprint(fold(7, xs[:5]...))},
		}
		for _, k := range cases {
			var out []g.Value
			var err error
			escaped := c19Guard(func() { out, err = vm.Func(recv.GetAttr(k.name), 1, k.args...) })
			got := ""
			if len(out) == 1 {
				got = out[0].String()
			}
			st.add("bound method "+k.name, fmt.Sprintf("%s/%d", k.name, len(k.args)))
			if escaped != "" || err != nil || got != k.want {
				st.mismatchG("native:method-params", map[string]any{"group": "native:method-params", "script": src,
					"call": fmt.Sprintf("vm.Func(G.GetAttr(%q), 1, %v)", k.name, xs[:len(k.args)]), "expected": k.want, "observed": got, "error": fmt.Sprint(err), "escaped": escaped,
					"what": "a bound method called from the host must receive every explicit parameter in its own position"})
			}
		}
		var out []g.Value
		var err error
		escaped := c19Guard(func() { out, err = vm.Call("main.viaScript", 1, iv(4)...) })
		want := fmt.Sprint(fold(7, xs[:4]...) + fold(7, xs[:2]...))
		got := ""
		if len(out) == 1 {
			got = out[0].String()
		}
		if escaped != "" || err != nil || got != want {
			st.mismatchG("native:method-params", map[string]any{"group": "native:method-params", "script": src,
				"call": fmt.Sprintf("viaScript(%v)", xs[:4]), "expected": want, "observed": got, "error": fmt.Sprint(err), "escaped": escaped,
				"what": "a method called from a script must receive every explicit parameter in its own position"})
		}
	}
}
